(* SNAPSHOT: verbatim copy of coq/c15/C15HevcModel.v at /verif commit ad13f0a (only this banner and the import lines differ).
   Used by C19 only for the extracted parameter-set serialisers of the driver's GEN mode; frozen so that concurrent
   work on C15 (slice headers, guards) cannot break C19's build.  To follow C15 again: delete the four C19Gen*.v files and
   import V.c15 C15Model C15Spec C15HevcModel C15HevcSpec in C19Extract.v (and open them in ocaml/c19_driver.ml). *)
(* C15HevcModel.v — executable Gallina models of the HEVC parameter-set / slice-header parsers
   (hevc/sps.go, hevc/pps.go, hevc/slice.go, hevc/hevcdecoderconfigurationrecord.go, hevc/mime.go)
   of the pinned tree.  DEFINITIONS ONLY.

   Same construction as C15Model.v: the parsers are state-monad programs over the abstract reader
   interface `reader` (instances ER = C13 model of bits.EBSPReader, BR = ideal bit-list reader),
   extended by NrBitsReadInCurrentByte (argument `bib`) for the byte_alignment() of the slice header.
   `Err` = Go returned a non-nil error, `OutOfFuel` = a loop driven by a decoded count above 2^16, or
   a part of the syntax that is not modelled (PPS multilayer / 3D extensions): such inputs are
   outside the correspondence. *)
From V.lib Require Import Base.
From V.c13 Require Import C13Spec C13Model.
From V.c19 Require Import C19GenAvcModel.

Local Notation "x <- m ;; k" := (bind m (fun x => k))
  (at level 61, m at next level, right associativity).

(* ------------------------------------------------------------------ parsed structures *)
Record hsub := mkHSub {
  hs_profile_present : bool; hs_level_present : bool;
  hs_space : N; hs_tier : bool; hs_idc : N; hs_compat : N; hs_constraint : N; hs_level : N }.

Record hptl := mkHPtl {
  hp_space : N; hp_tier : bool; hp_idc : N; hp_compat : N; hp_constraint : N; hp_level : N;
  hp_subs : list hsub }.

(* ShortTermRPS *)
Record hrps := mkHRps {
  rps_dp0 : list N; rps_dp1 : list N; rps_u0 : list bool; rps_u1 : list bool;
  rps_nneg : N; rps_npos : N; rps_ndelta : N;
  rps_nused : N }.      (* unexported numUsedByCurrPic: entries with used_by_curr_pic_flag = 1 of an inter-predicted set *)
Definition hrps_zero : hrps := mkHRps [] [] [] [] 0 0 0 0.

(* LongTermRPS *)
Record hlt := mkHLt { lt_poc_lsb : N; lt_used : bool; lt_msb_present : bool; lt_msb_cycle : N }.

Record hcpb := mkHCpb { hc_br : N; hc_cs : N; hc_csdu : N; hc_brdu : N; hc_cbr : bool }.
Record hsubhrd := mkHSubHrd {
  hh_fixed_general : bool; hh_fixed_cvs : bool; hh_elemental : N; hh_low_delay : bool;
  hh_cpb_cnt : N; hh_nal : list hcpb; hh_vcl : list hcpb }.
Record hhrd := mkHHrd {
  hr_nal : bool; hr_vcl : bool; hr_subpic : bool; hr_tick_divisor : N; hr_du_cpb_removal : N;
  hr_subpic_in_pt_sei : bool; hr_dpb_output_du : N; hr_bit_rate_scale : N; hr_cpb_size_scale : N;
  hr_cpb_size_du_scale : N; hr_initial_cpb_removal : N; hr_au_cpb_removal : N; hr_dpb_output : N;
  hr_subs : list hsubhrd }.

Record hbsr := mkHBsr {
  hb_tiles_fixed : bool; hb_mv_over : bool; hb_restricted_ref : bool; hb_min_spatial : N;
  hb_max_bytes : N; hb_max_bits : N; hb_log2_h : N; hb_log2_v : N }.

Record hvui := mkHVui {
  hv_sar_w : N; hv_sar_h : N; hv_overscan_present : bool; hv_overscan_appropriate : bool;
  hv_video_signal_present : bool; hv_video_format : N; hv_full_range : bool; hv_colour_desc : bool;
  hv_primaries : N; hv_transfer : N; hv_matrix : N;
  hv_chroma_loc_present : bool; hv_chroma_loc_top : N; hv_chroma_loc_bottom : N;
  hv_neutral_chroma : bool; hv_field_seq : bool; hv_frame_field_info : bool;
  hv_def_disp_win : bool; hv_ddw_left : N; hv_ddw_right : N; hv_ddw_top : N; hv_ddw_bottom : N;
  hv_timing_present : bool; hv_num_units : N; hv_time_scale : N; hv_poc_proportional : bool;
  hv_num_ticks_poc_diff : N; hv_hrd_present : bool; hv_hrd : option hhrd;
  hv_bsr_flag : bool; hv_bsr : option hbsr }.

Record hsps3d := mkHSps3d {
  d3_iv_di_mc0 : bool; d3_iv_mv_scal0 : bool; d3_log2_ivmc : N; d3_iv_res_pred : bool;
  d3_depth_ref : bool; d3_vsp_mc : bool; d3_dbbp : bool;
  d3_iv_di_mc1 : bool; d3_iv_mv_scal1 : bool; d3_tex_mc : bool; d3_log2_texmc : N;
  d3_intra_contour : bool; d3_intra_dc_only_wedge : bool; d3_cqt_cu_part_pred : bool;
  d3_inter_dc_only : bool; d3_skip_intra : bool }.

Record hspsscc := mkHSpsScc {
  ss_curr_pic_ref : bool; ss_palette_mode : bool; ss_palette_max_size : N;
  ss_delta_palette_max_pred : N; ss_pal_init_present : bool; ss_num_pal_init_minus1 : N;
  ss_pal_init : list (list N); ss_mv_res_idc : N; ss_intra_boundary : bool }.

Record hsps := mkHSps {
  h_vps_id : N; h_max_sub : N; h_nesting : bool; h_ptl : hptl; h_sps_id : N;
  h_chroma : N; h_sep_plane : bool; h_cw_flag : bool; h_width : N; h_height : N;
  h_cw_left : N; h_cw_right : N; h_cw_top : N; h_cw_bottom : N;
  h_bdl : N; h_bdc : N; h_log2_poc : N; h_slo_present : bool; h_slo : list (N * N * N);
  h_log2_min_cb : N; h_log2_diff_cb : N; h_log2_min_tb : N; h_log2_diff_tb : N;
  h_th_inter : N; h_th_intra : N; h_scaling_enabled : bool; h_scaling_data : bool;
  h_amp : bool; h_sao : bool; h_pcm : bool; h_pcm_bdl : N; h_pcm_bdc : N;
  h_pcm_log2_min : N; h_pcm_log2_diff : N; h_pcm_lf_disabled : bool;
  h_num_st_rps : N; h_st_rps : list hrps;
  h_lt_present : bool; h_num_lt : N; h_lt : list hlt;
  h_tmvp : bool; h_strong_intra : bool; h_vui_present : bool; h_vui : option hvui;
  h_ext_present : bool; h_ext4 : N;
  h_range_flag : bool; h_range : option (list bool);
  h_ml_flag : bool; h_ml : option bool;
  h_3d_flag : bool; h_3d : option hsps3d;
  h_scc_flag : bool; h_scc : option hspsscc;
  h_ext_data : list bool }.

(* GetNaluType(byte(naluHdrBits >> 8)) *)
Definition hnalu_type (hdr16 : N) : N := N.land (N.shiftr (u8 (N.shiftr hdr16 8)) 1) 63.

Definition countb (l : list bool) : N := lenN (filter (fun b => b) l).

Section HParsers.
  Context {St : Type} (R : reader St) (bib : St -> N).

  Local Notation M := (@M St).

  Fixpoint mapM {A B} (f : A -> M B) (l : list A) : M (list B) :=
    match l with
    | [] => ret []
    | a :: t => b <- f a ;; bs <- mapM f t ;; ret (b :: bs)
    end.

  (* `for i := 0; i < n; i++ { body; if r.AccError() != nil { break } }` *)
  Fixpoint rep_until_err {A} (n : nat) (body : M A) : M (list A) :=
    match n with
    | O => ret []
    | S k => x <- body ;; e <- get_err R ;;
             if e then ret [x] else t <- rep_until_err k body ;; ret (x :: t)
    end.
  Definition rep_until_err_n {A} (n : N) (body : M A) : M (list A) :=
    if n <=? loop_bound then rep_until_err (N.to_nat n) body else out_of_fuel.

  (* ---- parseProfileTierLevel *)
  Definition hparse_profile : M (N * bool * N * N * N) :=
    sp <- rd R 2 ;; t <- rd_flag R ;; idc <- rd R 5 ;; c <- rd R 32 ;; k <- rd R 48 ;;
    ret (u8 sp, t, u8 idc, u32 c, u64 k).

  Definition hparse_sub (f : bool * bool) : M hsub :=
    p <- (if fst f then hparse_profile else ret (0, false, 0, 0, 0)) ;;
    l <- (if snd f then x <- rd R 8 ;; ret (u8 x) else ret 0) ;;
    let '(sp, t, idc, c, k) := p in
    ret (mkHSub (fst f) (snd f) sp t idc c k l).

  Definition hparse_ptl (max_sub : N) : M hptl :=
    p <- hparse_profile ;;
    lvl <- rd R 8 ;;
    subs <- (if 0 <? max_sub then
               fls <- rep_n max_sub (a <- rd_flag R ;; b <- rd_flag R ;; ret (a, b)) ;;
               z <- (if max_sub <? 8 then rd R (2 * (8 - max_sub)) else ret 0) ;;
               mapM hparse_sub fls
             else ret []) ;;
    let '(sp, t, idc, c, k) := p in
    ret (mkHPtl sp t idc c k (u8 lvl) subs).

  (* ---- parseShortTermRPS(r, idx, numSTRefPicSets, sps); sets = the reference picture sets parsed so far *)
  (* (used_by_curr_pic_flag, used_by_curr_pic_flag || use_delta_flag) *)
  Definition hparse_rps_inter_entry : M (bool * bool) :=
    u <- rd_flag R ;; d <- (if negb u then rd_flag R else ret true) ;; ret (u, u || d).

  Definition hparse_st_rps (idx num : N) (sets : list hrps) : M hrps :=
    inter <- (if 0 <? idx then rd_flag R else ret false) ;;
    if inter then
      didx <- (if idx =? num then x <- rd_ue R ;; ret (u8 (u64 (x + 1))) else ret 1) ;;
      if (didx =? 0) || (idx <? didx) then u <- set_err R ;; ret hrps_zero else
      sg <- rd R 1 ;;
      ab <- rd_ue R ;;
      match nth_error sets (N.to_nat (idx - didx)) with
      | None => fun _ => Panic
      | Some ref =>
          fls <- rep_n (rps_ndelta ref + 1) hparse_rps_inter_entry ;;
          ret (mkHRps [] [] [] [] 0 0 (u8 (countb (map snd fls))) (u8 (countb (map fst fls))))
      end
    else
      nn0 <- rd_ue R ;;
      np0 <- rd_ue R ;;
      let nn := u8 nn0 in
      let np := u8 np0 in
      if (16 <? nn) || (16 <? np) then u <- set_err R ;; ret (mkHRps [] [] [] [] nn np 0 0) else
      s0 <- rep_n nn (d <- rd_ue R ;; u <- rd_flag R ;; ret (u32 (u64 (d + 1)), u)) ;;
      s1 <- rep_n np (d <- rd_ue R ;; u <- rd_flag R ;; ret (u32 (u64 (d + 1)), u)) ;;
      ret (mkHRps (map fst s0) (map fst s1) (map snd s0) (map snd s1) nn np (u8 (nn + np)) 0).

  (* the loop of ParseSPSNALUnit: `if r.AccError() != nil { return sps, r.AccError() }` after each set *)
  Fixpoint hparse_rps_loop (cnt : nat) (idx num : N) (acc : list hrps) : M (list hrps) :=
    match cnt with
    | O => ret acc
    | S c =>
        s <- hparse_st_rps idx num acc ;;
        e <- get_err R ;;
        if e then fail else hparse_rps_loop c (idx + 1) num (acc ++ [s])
    end.

  (* ---- readPastScalingListData *)
  Definition hskip_scaling_entry (size_id : N) : M unit :=
    f <- rd_flag R ;;
    if negb f then x <- rd_ue R ;; ret tt
    else
      let coef_num := N.min 64 (2 ^ (4 + 2 * size_id)) in
      a <- (if 1 <? size_id then x <- rd_ue R ;; ret tt else ret tt) ;;
      l <- rep (N.to_nat coef_num) (rd_ue R) ;;
      ret tt.

  Definition hskip_scaling_list_data : M unit :=
    a <- rep 6 (hskip_scaling_entry 0) ;;
    b <- rep 6 (hskip_scaling_entry 1) ;;
    c <- rep 6 (hskip_scaling_entry 2) ;;
    d <- rep 2 (hskip_scaling_entry 3) ;;
    ret tt.

  (* ---- parseSubLayerHrdParameters *)
  Definition hparse_cpb (subpic : bool) : M hcpb :=
    br <- rd_ue R ;; cs <- rd_ue R ;;
    du <- (if subpic then a <- rd_ue R ;; b <- rd_ue R ;; ret (u32 a, u32 b) else ret (0, 0)) ;;
    cbr <- rd_flag R ;;
    ret (mkHCpb (u32 br) (u32 cs) (fst du) (snd du) cbr).

  (* one iteration of the sub-layer loop of parseHrdParameters.  After SetError (cpb_cnt_minus1 > 31)
     Go returns at once; every later read returns 0 and the caller reports the error, so the
     model marks the error and goes on (same outcome: Err). *)
  Definition hparse_subhrd (nal vcl subpic : bool) : M hsubhrd :=
    fg <- rd_flag R ;;
    fc <- (if negb fg then rd_flag R else ret true) ;;
    el <- (if fc then x <- rd_ue R ;; ret (u16 x, false) else l <- rd_flag R ;; ret (0, l)) ;;
    let '(elemental, low_delay) := el in
    cnt <- (if negb low_delay then
              c <- rd_ue R ;;
              if 31 <? c then u <- set_err R ;; ret 0 else ret (u8 c)
            else ret 0) ;;
    n <- (if nal then rep_n (cnt + 1) (hparse_cpb subpic) else ret []) ;;
    v <- (if vcl then rep_n (cnt + 1) (hparse_cpb subpic) else ret []) ;;
    ret (mkHSubHrd fg fc elemental low_delay cnt n v).

  (* parseHrdParameters(r, true, maxNumSubLayersMinus1) *)
  Definition hparse_hrd (max_sub : N) : M hhrd :=
    nal <- rd_flag R ;;
    vcl <- rd_flag R ;;
    c <- (if nal || vcl then
            sp <- rd_flag R ;;
            a <- (if sp then t <- rd R 8 ;; d <- rd R 5 ;; s <- rd_flag R ;; o <- rd R 5 ;;
                             ret (u8 t, u8 d, s, u8 o)
                  else ret (0, 0, false, 0)) ;;
            brs <- rd R 4 ;; css <- rd R 4 ;;
            cds <- (if sp then rd R 4 else ret 0) ;;
            i <- rd R 5 ;; au <- rd R 5 ;; dp <- rd R 5 ;;
            ret (sp, a, u8 brs, u8 css, u8 cds, u8 i, u8 au, u8 dp)
          else ret (false, (0, 0, false, 0), 0, 0, 0, 0, 0, 0)) ;;
    let '(sp, (td, dcr, spsei, dod), brs, css, cds, i, au, dp) := c in
    subs <- rep_n (max_sub + 1) (hparse_subhrd nal vcl sp) ;;
    ret (mkHHrd nal vcl sp td dcr spsei dod brs css cds i au dp subs).

  Definition hparse_bsr : M hbsr :=
    a <- rd_flag R ;; b <- rd_flag R ;; c <- rd_flag R ;;
    d <- rd_ue R ;; e <- rd_ue R ;; f <- rd_ue R ;; g <- rd_ue R ;; h <- rd_ue R ;;
    ret (mkHBsr a b c d e f g h).

  (* ---- parseVUI *)
  Definition hparse_vui (max_sub : N) : M hvui :=
    ar_present <- rd_flag R ;;
    sar <- (if ar_present
            then idc <- rd R 8 ;;
                 if idc =? 255 then w <- rd R 16 ;; h <- rd R 16 ;; ret (w, h)
                 else match sar_from_idc idc with
                      | Some wh => ret wh
                      | None => u <- set_err R ;; ret (0, 0)
                      end
            else ret (0, 0)) ;;
    ovp <- rd_flag R ;;
    ova <- (if ovp then rd_flag R else ret false) ;;
    vsp <- rd_flag R ;;
    vs <- (if vsp
           then vf <- rd R 3 ;; fr <- rd_flag R ;; cd <- rd_flag R ;;
                cs <- (if cd then a <- rd R 8 ;; b <- rd R 8 ;; c <- rd R 8 ;; ret (u8 a, u8 b, u8 c)
                       else ret (0, 0, 0)) ;;
                ret (u8 vf, fr, cd, cs)
           else ret (0, false, false, (0, 0, 0))) ;;
    clp <- rd_flag R ;;
    cl <- (if clp then a <- rd_ue R ;; b <- rd_ue R ;; ret (a, b) else ret (0, 0)) ;;
    nc <- rd_flag R ;; fs <- rd_flag R ;; ffi <- rd_flag R ;;
    ddw <- rd_flag R ;;
    dw <- (if ddw then a <- rd_ue R ;; b <- rd_ue R ;; c <- rd_ue R ;; d <- rd_ue R ;; ret (a, b, c, d)
           else ret (0, 0, 0, 0)) ;;
    tip <- rd_flag R ;;
    ti <- (if tip then
             a <- rd R 32 ;; b <- rd R 32 ;; pp <- rd_flag R ;;
             nt <- (if pp then rd_ue R else ret 0) ;;
             hp <- rd_flag R ;;
             h <- (if hp then x <- hparse_hrd max_sub ;; ret (Some x) else ret None) ;;
             ret (a, b, pp, nt, hp, h)
           else ret (0, 0, false, 0, false, None)) ;;
    brf <- rd_flag R ;;
    br <- (if brf then x <- hparse_bsr ;; ret (Some x) else ret None) ;;
    let '(vf, fr, cd, (cp, tc, mc)) := vs in
    let '(dl, dr, dt, db) := dw in
    let '(nu, ts, pp, nt, hp, h) := ti in
    ret (mkHVui (fst sar) (snd sar) ovp ova vsp vf fr cd cp tc mc clp (fst cl) (snd cl)
                nc fs ffi ddw dl dr dt db tip nu ts pp nt hp h brf br).

  Definition hparse_sps_3d : M hsps3d :=
    a <- rd_flag R ;; b <- rd_flag R ;; c <- rd_ue R ;; d <- rd_flag R ;; e <- rd_flag R ;;
    f <- rd_flag R ;; g <- rd_flag R ;;
    h <- rd_flag R ;; i <- rd_flag R ;; j <- rd_flag R ;; k <- rd_ue R ;; l <- rd_flag R ;;
    m <- rd_flag R ;; n <- rd_flag R ;; o <- rd_flag R ;; p <- rd_flag R ;;
    ret (mkHSps3d a b c d e f g h i j k l m n o p).

  (* parseSPSSccExtension; the widths are int(BitDepth..Minus8)+8 *)
  Definition hparse_sps_scc (chroma bdl bdc : N) : M hspsscc :=
    cpr <- rd_flag R ;;
    pm <- rd_flag R ;;
    pal <- (if pm then
              mx <- rd_ue R ;; dl <- rd_ue R ;; pi <- rd_flag R ;;
              ini <- (if pi then
                        nm1 <- rd_ue R ;;
                        luma <- rep_until_err_n (u64 (nm1 + 1)) (rd R (bdl + 8)) ;;
                        chr <- (if chroma =? 0 then ret []
                                else c1 <- rep_until_err_n (u64 (nm1 + 1)) (rd R (bdc + 8)) ;;
                                     c2 <- rep_until_err_n (u64 (nm1 + 1)) (rd R (bdc + 8)) ;;
                                     ret [c1; c2]) ;;
                        ret (nm1, luma :: chr)
                      else ret (0, [])) ;;
              ret (mx, dl, pi, ini)
            else ret (0, 0, false, (0, []))) ;;
    mvr <- rd R 2 ;;
    ibf <- rd_flag R ;;
    let '(mx, dl, pi, (nm1, ini)) := pal in
    ret (mkHSpsScc cpr pm mx dl pi nm1 ini (u8 mvr) ibf).

  (* `for more { flags = append(flags, r.ReadFlag()); more, err = r.MoreRbspData() }` *)
  Fixpoint hext_data_loop (fuel : nat) (acc : list bool) : M (list bool) :=
    match fuel with
    | O => out_of_fuel
    | S f =>
        more <- rd_more R ;;
        if more then b <- rd_flag R ;; hext_data_loop f (acc ++ [b]) else ret acc
    end.
  Definition ext_fuel : nat := 4096.

  (* rbsp_trailing_bits and the end-of-data check shared by SPS and PPS *)
  Definition hparse_end {A} (a : A) : M A :=
    tr <- rd_trailing R ;;
    if tr then fail else
    e <- get_err R ;;
    if e then fail else
    x <- rd R 1 ;;
    e2 <- get_err R ;;
    if negb e2 then fail else ret a.

  (* ---- ParseSPSNALUnit *)
  Definition hparse_sps_ext (chroma bdl bdc : N)
    : M (bool * N * bool * option (list bool) * bool * option bool * bool * option hsps3d
         * bool * option hspsscc * list bool) :=
    ep <- rd_flag R ;;
    fl <- (if ep then a <- rd_flag R ;; b <- rd_flag R ;; c <- rd_flag R ;; d <- rd_flag R ;;
                      e <- rd R 4 ;; ret (a, b, c, d, u8 e)
           else ret (false, false, false, false, 0)) ;;
    let '(rf, mf, df, sf, e4) := fl in
    rg <- (if rf then l <- rep 9 (rd_flag R) ;; ret (Some l) else ret None) ;;
    ml <- (if mf then b <- rd_flag R ;; ret (Some b) else ret None) ;;
    d3 <- (if df then x <- hparse_sps_3d ;; ret (Some x) else ret None) ;;
    sc <- (if sf then x <- hparse_sps_scc chroma bdl bdc ;; ret (Some x) else ret None) ;;
    ed <- (if 0 <? e4 then hext_data_loop ext_fuel [] else ret []) ;;
    ret (ep, e4, rf, rg, mf, ml, df, d3, sf, sc, ed).

  Definition hparse_sps : M hsps :=
    hdr <- rd R 16 ;;
    if negb (hnalu_type hdr =? 33) then fail else
    vps <- rd R 4 ;;
    ms0 <- rd R 3 ;;
    let ms := u8 ms0 in
    nest <- rd_flag R ;;
    ptl <- hparse_ptl ms ;;
    id <- rd_ue R ;;
    cf <- rd_ue R ;;
    let chroma := u8 cf in
    sep <- (if chroma =? 3 then rd_flag R else ret false) ;;
    w <- rd_ue R ;;
    h <- rd_ue R ;;
    cwf <- rd_flag R ;;
    cw <- (if cwf then a <- rd_ue R ;; b <- rd_ue R ;; c <- rd_ue R ;; d <- rd_ue R ;;
                       ret (u32 a, u32 b, u32 c, u32 d)
           else ret (0, 0, 0, 0)) ;;
    let '(cl, cr, ct, cb) := cw in
    bdl0 <- rd_ue R ;;
    bdc0 <- rd_ue R ;;
    l2p0 <- rd_ue R ;;
    let bdl := u8 bdl0 in let bdc := u8 bdc0 in let l2p := u8 l2p0 in
    slop <- rd_flag R ;;
    slo <- rep_n (if slop then ms + 1 else 1)
                 (a <- rd_ue R ;; b <- rd_ue R ;; c <- rd_ue R ;; ret (u8 a, u8 b, u8 c)) ;;
    q1 <- rd_ue R ;; q2 <- rd_ue R ;; q3 <- rd_ue R ;; q4 <- rd_ue R ;; q5 <- rd_ue R ;; q6 <- rd_ue R ;;
    sle <- rd_flag R ;;
    sld <- (if sle then
              p <- rd_flag R ;;
              u <- (if p then hskip_scaling_list_data else ret tt) ;;
              ret p
            else ret false) ;;
    amp <- rd_flag R ;;
    sao <- rd_flag R ;;
    pcm <- rd_flag R ;;
    pc <- (if pcm then a <- rd R 4 ;; b <- rd R 4 ;; c <- rd_ue R ;; d <- rd_ue R ;; e <- rd_flag R ;;
                       ret (u8 a, u8 b, u16 c, u16 d, e)
           else ret (0, 0, 0, 0, false)) ;;
    let '(pa, pb, pc_, pd, pe) := pc in
    nst <- rd_ue R ;;
    if 64 <? nst then fail else
    sets <- hparse_rps_loop (N.to_nat nst) 0 nst [] ;;
    ltp <- rd_flag R ;;
    lt <- (if ltp then
             n0 <- rd_ue R ;;
             let n := u8 n0 in
             l <- rep_n n (p <- rd R (u8 (l2p + 4)) ;; u <- rd_flag R ;; ret (mkHLt (u16 p) u false 0)) ;;
             ret (n, l)
           else ret (0, [])) ;;
    tmvp <- rd_flag R ;;
    sis <- rd_flag R ;;
    vp <- rd_flag R ;;
    vui <- (if vp then x <- hparse_vui ms ;; ret (Some x) else ret None) ;;
    e <- get_err R ;;
    if e then fail else
    ext <- hparse_sps_ext chroma bdl bdc ;;
    let '(ep, e4, rf, rg, mf, ml, df, d3, sf, sc, ed) := ext in
    hparse_end
      (mkHSps (u8 vps) ms nest ptl (u8 id) chroma sep cwf (u32 w) (u32 h) cl cr ct cb
              bdl bdc l2p slop slo (u8 q1) (u8 q2) (u8 q3) (u8 q4) (u8 q5) (u8 q6)
              sle sld amp sao pcm pa pb pc_ pd pe (u8 nst) sets ltp (fst lt) (snd lt)
              tmvp sis vp vui ep e4 rf rg mf ml df d3 sf sc ed).

  (* SPS.ImageSize: uint32 arithmetic *)
  Definition himage_size (s : hsps) : N * N :=
    let sw := if (h_chroma s =? 1) || (h_chroma s =? 2) then 2 else 1 in
    let shh := if h_chroma s =? 1 then 2 else 1 in
    (u32 (h_width s + 4294967296 - u32 (u32 (h_cw_left s + h_cw_right s) * sw)),
     u32 (h_height s + 4294967296 - u32 (u32 (h_cw_top s + h_cw_bottom s) * shh))).

End HParsers.

Definition hparse_sps_er (nalu : list N) : res hsps := run (hparse_sps ER) (rinit nalu).
Definition hparse_sps_br (nalu : list N) : res hsps := run (hparse_sps BR) (binit nalu).

(* ------------------------------------------------------------------ flattening for the line protocol *)
Definition flat_blist (l : list bool) : list Z := flat_list (fun b => [zb b]) l.

Definition flat_profile (sp : N) (t : bool) (idc c k : N) : list Z :=
  [zn sp; zb t; zn idc; zn c; zb (N.testbit k 47); zb (N.testbit k 46); zb (N.testbit k 45);
   zb (N.testbit k 44); zn k].

Definition flat_hsub (s : hsub) : list Z :=
  [zb (hs_profile_present s); zb (hs_level_present s)]
  ++ flat_profile (hs_space s) (hs_tier s) (hs_idc s) (hs_compat s) (hs_constraint s)
  ++ [zn (hs_level s)].

Definition flat_hptl (p : hptl) : list Z :=
  flat_profile (hp_space p) (hp_tier p) (hp_idc p) (hp_compat p) (hp_constraint p)
  ++ [zn (hp_level p)] ++ flat_list flat_hsub (hp_subs p).

Definition flat_hrps (r : hrps) : list Z :=
  flat_nlist (rps_dp0 r) ++ flat_nlist (rps_dp1 r) ++ flat_blist (rps_u0 r) ++ flat_blist (rps_u1 r)
  ++ [zn (rps_nneg r); zn (rps_npos r); zn (rps_ndelta r)].

Definition flat_hlt (l : hlt) : list Z :=
  [zn (lt_poc_lsb l); zb (lt_used l); zb (lt_msb_present l); zn (lt_msb_cycle l)].

Definition flat_hcpb (c : hcpb) : list Z :=
  [zn (hc_br c); zn (hc_cs c); zn (hc_csdu c); zn (hc_brdu c); zb (hc_cbr c)].

Definition flat_hsubhrd (s : hsubhrd) : list Z :=
  [zb (hh_fixed_general s); zb (hh_fixed_cvs s); zn (hh_elemental s); zb (hh_low_delay s);
   zn (hh_cpb_cnt s)] ++ flat_list flat_hcpb (hh_nal s) ++ flat_list flat_hcpb (hh_vcl s).

Definition flat_hhrd (h : hhrd) : list Z :=
  [zb (hr_nal h); zb (hr_vcl h); zb (hr_subpic h); zn (hr_tick_divisor h); zn (hr_du_cpb_removal h);
   zb (hr_subpic_in_pt_sei h); zn (hr_dpb_output_du h); zn (hr_bit_rate_scale h);
   zn (hr_cpb_size_scale h); zn (hr_cpb_size_du_scale h); zn (hr_initial_cpb_removal h);
   zn (hr_au_cpb_removal h); zn (hr_dpb_output h)] ++ flat_list flat_hsubhrd (hr_subs h).

Definition flat_hbsr (b : hbsr) : list Z :=
  [zb (hb_tiles_fixed b); zb (hb_mv_over b); zb (hb_restricted_ref b); zn (hb_min_spatial b);
   zn (hb_max_bytes b); zn (hb_max_bits b); zn (hb_log2_h b); zn (hb_log2_v b)].

Definition flat_hvui (v : hvui) : list Z :=
  [zn (hv_sar_w v); zn (hv_sar_h v); zb (hv_overscan_present v); zb (hv_overscan_appropriate v);
   zb (hv_video_signal_present v); zn (hv_video_format v); zb (hv_full_range v); zb (hv_colour_desc v);
   zn (hv_primaries v); zn (hv_transfer v); zn (hv_matrix v);
   zb (hv_chroma_loc_present v); zn (hv_chroma_loc_top v); zn (hv_chroma_loc_bottom v);
   zb (hv_neutral_chroma v); zb (hv_field_seq v); zb (hv_frame_field_info v);
   zb (hv_def_disp_win v); zn (hv_ddw_left v); zn (hv_ddw_right v); zn (hv_ddw_top v); zn (hv_ddw_bottom v);
   zb (hv_timing_present v); zn (hv_num_units v); zn (hv_time_scale v); zb (hv_poc_proportional v);
   zn (hv_num_ticks_poc_diff v); zb (hv_hrd_present v)]
  ++ flat_opt flat_hhrd (hv_hrd v) ++ [zb (hv_bsr_flag v)] ++ flat_opt flat_hbsr (hv_bsr v).

Definition flat_hsps3d (d : hsps3d) : list Z :=
  [zb (d3_iv_di_mc0 d); zb (d3_iv_mv_scal0 d); zn (d3_log2_ivmc d); zb (d3_iv_res_pred d);
   zb (d3_depth_ref d); zb (d3_vsp_mc d); zb (d3_dbbp d); zb (d3_iv_di_mc1 d); zb (d3_iv_mv_scal1 d);
   zb (d3_tex_mc d); zn (d3_log2_texmc d); zb (d3_intra_contour d); zb (d3_intra_dc_only_wedge d);
   zb (d3_cqt_cu_part_pred d); zb (d3_inter_dc_only d); zb (d3_skip_intra d)].

Definition flat_hspsscc (s : hspsscc) : list Z :=
  [zb (ss_curr_pic_ref s); zb (ss_palette_mode s); zn (ss_palette_max_size s);
   zn (ss_delta_palette_max_pred s); zb (ss_pal_init_present s); zn (ss_num_pal_init_minus1 s)]
  ++ flat_list flat_nlist (ss_pal_init s) ++ [zn (ss_mv_res_idc s); zb (ss_intra_boundary s)].

Definition flat_hsps (s : hsps) : list Z :=
  [zn (h_vps_id s); zn (h_max_sub s); zb (h_nesting s)] ++ flat_hptl (h_ptl s)
  ++ [zn (h_sps_id s); zn (h_chroma s); zb (h_sep_plane s); zb (h_cw_flag s); zn (h_width s);
      zn (h_height s); zn (h_cw_left s); zn (h_cw_right s); zn (h_cw_top s); zn (h_cw_bottom s);
      zn (h_bdl s); zn (h_bdc s); zn (h_log2_poc s); zb (h_slo_present s)]
  ++ flat_list (fun t => let '(a, b, c) := t in [zn a; zn b; zn c]) (h_slo s)
  ++ [zn (h_log2_min_cb s); zn (h_log2_diff_cb s); zn (h_log2_min_tb s); zn (h_log2_diff_tb s);
      zn (h_th_inter s); zn (h_th_intra s); zb (h_scaling_enabled s); zb (h_scaling_data s);
      zb (h_amp s); zb (h_sao s); zb (h_pcm s); zn (h_pcm_bdl s); zn (h_pcm_bdc s);
      zn (h_pcm_log2_min s); zn (h_pcm_log2_diff s); zb (h_pcm_lf_disabled s); zn (h_num_st_rps s)]
  ++ flat_list flat_hrps (h_st_rps s)
  ++ [zb (h_lt_present s); zn (h_num_lt s)] ++ flat_list flat_hlt (h_lt s)
  ++ [zb (h_tmvp s); zb (h_strong_intra s); zb (h_vui_present s)] ++ flat_opt flat_hvui (h_vui s)
  ++ [zb (h_ext_present s); zn (h_ext4 s); zb (h_range_flag s)] ++ flat_opt flat_blist (h_range s)
  ++ [zb (h_ml_flag s)] ++ flat_opt (fun b => [zb b]) (h_ml s)
  ++ [zb (h_3d_flag s)] ++ flat_opt flat_hsps3d (h_3d s)
  ++ [zb (h_scc_flag s)] ++ flat_opt flat_hspsscc (h_scc s)
  ++ flat_blist (h_ext_data s)
  ++ [zn (fst (himage_size s)); zn (snd (himage_size s))].

(* ====================================================================== PPS (hevc/pps.go) *)
Local Notation "x <- m ;; k" := (bind m (fun x => k))
  (at level 61, m at next level, right associativity).

(* int8(x) of a Go int *)
Definition i8 (z : Z) : Z := ((z + 128) mod 256 - 128)%Z.

Record hppsrange := mkHPpsRange {
  pr_log2_max_ts : N; pr_cross_comp : bool; pr_cqp_list_enabled : bool; pr_diff_cu_cqp_depth : N;
  pr_cqp_list_len_minus1 : N; pr_cb_list : list Z; pr_cr_list : list Z;
  pr_log2_sao_luma : N; pr_log2_sao_chroma : N }.

Record hppsscc := mkHPpsScc {
  ps_curr_pic_ref : bool; ps_ract : bool; ps_slice_act_qp_present : bool;
  ps_act_y : Z; ps_act_cb : Z; ps_act_cr : Z;
  ps_pal_init_present : bool; ps_num_pal_init : N; ps_mono : bool; ps_luma_bd : N; ps_chroma_bd : N;
  ps_pal_init : list (list N) }.

Record hpps := mkHPps {
  pp_id : N; pp_sps_id : N; pp_dep_slices : bool; pp_output_flag_present : bool; pp_num_extra_bits : N;
  pp_sign_hiding : bool; pp_cabac_init_present : bool; pp_l0 : N; pp_l1 : N; pp_init_qp : Z;
  pp_constrained_intra : bool; pp_transform_skip : bool; pp_cu_qp_delta : bool;
  pp_diff_cu_qp_delta_depth : N; pp_cb_qp : Z; pp_cr_qp : Z; pp_slice_chroma_qp_present : bool;
  pp_weighted_pred : bool; pp_weighted_bipred : bool; pp_transquant_bypass : bool;
  pp_tiles : bool; pp_entropy_sync : bool; pp_tile_cols : N; pp_tile_rows : N; pp_uniform : bool;
  pp_col_widths : list N; pp_row_heights : list N; pp_lf_across_tiles : bool;
  pp_lf_across_slices : bool; pp_dbf_control : bool; pp_dbf_override_enabled : bool;
  pp_dbf_disabled : bool; pp_beta : Z; pp_tc : Z; pp_scaling_data : bool; pp_lists_mod : bool;
  pp_log2_par_merge : N; pp_slice_ext_present : bool; pp_ext_present : bool;
  pp_range_flag : bool; pp_range : option hppsrange; pp_ml_flag : bool; pp_3d_flag : bool;
  pp_scc_flag : bool; pp_scc : option hppsscc; pp_ext4 : N; pp_ext_data : list bool }.

(* SliceHeader; s_rplm = (flag_l0, list_entry_l0, flag_l1, list_entry_l1);
   s_pwt = (luma_log2_weight_denom, delta_chroma_log2_weight_denom, WeightsL0, WeightsL1) *)
Record hpwt := mkHPwt {
  pw_luma_flag : bool; pw_chroma_flag : bool; pw_dlw : Z; pw_lo : Z;
  pw_dcw0 : Z; pw_dcw1 : Z; pw_dco0 : Z; pw_dco1 : Z }.

Record hslice := mkHSlice {
  s_type : N; s_first : bool; s_no_output_prior : bool; s_pps_id : N; s_dependent : bool;
  s_address : N; s_pic_output : bool; s_colour_plane : N; s_poc_lsb : N; s_st_sps_flag : bool;
  s_st_rps : hrps; s_st_idx : N; s_num_lt_sps : N; s_num_lt_pics : N; s_lt : list hlt;
  s_tmvp : bool; s_sao_luma : bool; s_sao_chroma : bool; s_override : bool; s_l0 : N; s_l1 : N;
  s_rplm : option (bool * list N * bool * list N);
  s_mvd_l1_zero : bool; s_cabac_init : bool; s_collocated_from_l0 : bool; s_collocated_ref_idx : N;
  s_pwt : option (N * Z * list hpwt * list hpwt);
  s_five_minus : N; s_use_integer_mv : bool; s_qp_delta : Z; s_cb : Z; s_cr : Z;
  s_act_y : Z; s_act_cb : Z; s_act_cr : Z; s_cu_chroma_qp_enabled : bool;
  s_dbf_override : bool; s_dbf_disabled : bool; s_beta : Z; s_tc : Z; s_lf_across : bool;
  s_num_entry : N; s_offset_len_minus1 : N; s_entry_points : list N;
  s_ext_len : N; s_ext_bytes : list N; s_size : N }.

Definition hlt_zero : hlt := mkHLt 0 false false 0.

(* ceilDiv on uint *)
Definition ceil_div (a b : N) : N := u64 (a + b + 18446744073709551615) / b.

Section HParsers2.
  Context {St : Type} (R : reader St) (bib : St -> N).
  Local Notation M := (@M St).

  (* ---- parseRangeExtension *)
  Definition hparse_pps_range (transform_skip : bool) : M hppsrange :=
    ts <- (if transform_skip then rd_ue R else ret 0) ;;
    cc <- rd_flag R ;;
    ce <- rd_flag R ;;
    cq <- (if ce then
             d <- rd_ue R ;; l <- rd_ue R ;;
             es <- rep_until_err_n R (l + 1) (a <- rd_se R ;; b <- rd_se R ;; ret (i8 a, i8 b)) ;;
             ret (d, l, es)
           else ret (0, 0, [])) ;;
    sl <- rd_ue R ;;
    sc <- rd_ue R ;;
    e <- get_err R ;;
    if e then fail else
    let '(d, l, es) := cq in
    ret (mkHPpsRange ts cc ce d l (map fst es) (map snd es) sl sc).

  (* ---- parseSccExtension (PPS) *)
  Definition hparse_pps_scc : M hppsscc :=
    cpr <- rd_flag R ;;
    ract <- rd_flag R ;;
    act <- (if ract then p <- rd_flag R ;; a <- rd_se R ;; b <- rd_se R ;; c <- rd_se R ;; ret (p, a, b, c)
            else ret (false, 0%Z, 0%Z, 0%Z)) ;;
    pip <- rd_flag R ;;
    pal <- (if pip then
              n <- rd_ue R ;;
              if 0 <? n then
                mono <- rd_flag R ;;
                lb <- rd_ue R ;;
                cb <- (if negb mono then rd_ue R else ret 0) ;;
                if (8 <? lb) || (8 <? cb) then fail else
                luma <- rep_until_err_n R n (rd R (u64 (lb + 8))) ;;
                chr <- (if mono then ret []
                        else c1 <- rep_until_err_n R n (rd R (u64 (cb + 8))) ;;
                             c2 <- rep_until_err_n R n (rd R (u64 (cb + 8))) ;;
                             ret [c1; c2]) ;;
                ret (n, mono, lb, cb, luma :: chr)
              else ret (n, false, 0, 0, [])
            else ret (0, false, 0, 0, [])) ;;
    e <- get_err R ;;
    if e then fail else
    let '(sp, ay, acb, acr) := act in
    let '(n, mono, lb, cb, ini) := pal in
    ret (mkHPpsScc cpr ract sp ay acb acr pip n mono lb cb ini).

  (* ---- ParsePPSNALUnit; spsmap id = the id is a key of spsMap.  The multilayer and 3D extensions
     (parseMultilayerExtension with the colour mapping octants, parse3dExtension) are NOT modelled:
     OutOfFuel. *)
  Definition hparse_pps (spsmap : N -> bool) : M hpps :=
    hdr <- rd R 16 ;;
    if negb (hnalu_type hdr =? 34) then fail else
    id <- rd_ue R ;;
    sid <- rd_ue R ;;
    if negb (spsmap (u32 sid)) then fail else
    dep <- rd_flag R ;;
    ofp <- rd_flag R ;;
    neb <- rd R 3 ;;
    sdh <- rd_flag R ;;
    cip <- rd_flag R ;;
    l0 <- rd_ue R ;;
    l1 <- rd_ue R ;;
    iqp <- rd_se R ;;
    cintra <- rd_flag R ;;
    tskip <- rd_flag R ;;
    cuqp <- rd_flag R ;;
    dcq <- (if cuqp then rd_ue R else ret 0) ;;
    cbq <- rd_se R ;;
    crq <- rd_se R ;;
    scq <- rd_flag R ;;
    wp <- rd_flag R ;;
    wb <- rd_flag R ;;
    tqb <- rd_flag R ;;
    tiles <- rd_flag R ;;
    ecs <- rd_flag R ;;
    tl <- (if tiles then
             nc <- rd_ue R ;; nr <- rd_ue R ;; un <- rd_flag R ;;
             wh <- (if negb un then
                      ws <- rep_until_err_n R nc (rd_ue R) ;;
                      hs <- rep_until_err_n R nr (rd_ue R) ;;
                      ret (ws, hs)
                    else ret ([], [])) ;;
             lft <- rd_flag R ;;
             ret (nc, nr, un, wh, lft)
           else ret (0, 0, false, ([], []), false)) ;;
    let '(nc, nr, un, (ws, hs), lft) := tl in
    lfs <- rd_flag R ;;
    dbc <- rd_flag R ;;
    db <- (if dbc then
             ov <- rd_flag R ;; dis <- rd_flag R ;;
             bt <- (if negb dis then a <- rd_se R ;; b <- rd_se R ;; ret (i8 a, i8 b) else ret (0%Z, 0%Z)) ;;
             ret (ov, dis, bt)
           else ret (false, false, (0%Z, 0%Z))) ;;
    let '(dov, ddis, (beta, tc)) := db in
    sld <- rd_flag R ;;
    u0 <- (if sld then hskip_scaling_list_data R else ret tt) ;;
    lm <- rd_flag R ;;
    pml <- rd_ue R ;;
    she <- rd_flag R ;;
    ep <- rd_flag R ;;
    fl <- (if ep then a <- rd_flag R ;; b <- rd_flag R ;; c <- rd_flag R ;; d <- rd_flag R ;;
                      e <- rd R 4 ;; ret (a, b, c, d, u8 e)
           else ret (false, false, false, false, 0)) ;;
    let '(rf, mf, df, sf, e4) := fl in
    e <- get_err R ;;
    if e then fail else
    rg <- (if rf then x <- hparse_pps_range tskip ;; ret (Some x) else ret None) ;;
    if mf || df then out_of_fuel else
    sc <- (if sf then x <- hparse_pps_scc ;; ret (Some x) else ret None) ;;
    ed <- (if 0 <? e4 then hext_data_loop R ext_fuel [] else ret []) ;;
    hparse_end R
      (mkHPps (u32 id) (u32 sid) dep ofp (u8 neb) sdh cip (u8 l0) (u8 l1) (i8 iqp) cintra tskip cuqp dcq
              (i8 cbq) (i8 crq) scq wp wb tqb tiles ecs nc nr un ws hs lft lfs dbc dov ddis beta tc
              sld lm pml she ep rf rg mf df sf sc e4 ed).

  (* ====================================================================== slice header (hevc/slice.go) *)
  (* ShortTermRPS.countInUsePics (uint8) *)
  Definition hcount_in_use (r : hrps) : N := u8 (u8 (countb (rps_u0 r) + countb (rps_u1 r)) + rps_nused r).

  (* the loop over num_long_term_sps + num_long_term_pics entries; npt = NumPicTotalCurr (uint8) *)
  Fixpoint hlt_loop (cnt : nat) (i nlsps : N) (sp : hsps) (acc : list hlt) (npt : N) : M (list hlt * N) :=
    match cnt with
    | O => ret (acc, npt)
    | S c =>
        lt0 <- (if i <? nlsps then
                  if 1 <? h_num_lt sp then
                    ix <- rd R (ceil_log2 (h_num_lt sp)) ;;
                    match nth_error (h_lt sp) (N.to_nat ix) with
                    | None => fail                          (* "lt_idx_sps > num_long_term_ref_pics_sps" *)
                    | Some l => ret l
                    end
                  else
                    (* repaired text (fix commit, see known_findings/C15.json): lt_idx_sps is inferred 0 *)
                    match nth_error (h_lt sp) 0 with
                    | None => fail
                    | Some l => ret l
                    end
                else
                  p <- rd R (u8 (h_log2_poc sp + 4)) ;; u <- rd_flag R ;; ret (mkHLt (u16 p) u false 0)) ;;
        let npt1 := if lt_used lt0 then u8 (npt + 1) else npt in
        msb <- rd_flag R ;;
        cyc <- (if msb then rd_ue R else ret 0) ;;
        let lt := mkHLt (lt_poc_lsb lt0) (lt_used lt0) msb cyc in
        e <- get_err R ;;
        if e then ret (acc ++ [lt], npt1) else hlt_loop c (i + 1) nlsps sp (acc ++ [lt]) npt1
    end.

  (* parseRefPicListsModification *)
  Definition hparse_rplm (is_b : bool) (l0 l1 npt : N) : M (bool * list N * bool * list N) :=
    f0 <- rd_flag R ;;
    e0 <- (if f0 then rep_n (u8 (l0 + 1)) (x <- rd R (ceil_log2 npt) ;; ret (u8 x)) else ret []) ;;
    b <- (if is_b then
            f1 <- rd_flag R ;;
            e1 <- (if f1 then rep_n (u8 (l1 + 1)) (x <- rd R (ceil_log2 npt) ;; ret (u8 x)) else ret []) ;;
            ret (f1, e1)
          else ret (false, [])) ;;
    e <- get_err R ;;
    if e then fail else ret (f0, e0, fst b, snd b).

  (* the third loop of parsePredWeightTable for one list *)
  Definition hparse_pwt_values (fl : bool * bool) : M hpwt :=
    lw <- (if fst fl then a <- rd_se R ;; b <- rd_se R ;; ret (i8 a, b) else ret (0%Z, 0%Z)) ;;
    cw <- (if snd fl then a <- rd_se R ;; b <- rd_se R ;; c <- rd_se R ;; d <- rd_se R ;;
                          ret (i8 a, b, i8 c, d)
           else ret (0%Z, 0%Z, 0%Z, 0%Z)) ;;
    let '(w0, o0, w1, o1) := cw in
    ret (mkHPwt (fst fl) (snd fl) (fst lw) (snd lw) w0 w1 o0 o1).

  Definition hparse_pwt_list (cat_nz : bool) (cnt : N) : M (list hpwt) :=
    lf <- rep_n cnt (rd_flag R) ;;
    cf <- (if cat_nz then rep_n cnt (rd_flag R) else ret (map (fun _ => false) lf)) ;;
    mapM (St:=St) hparse_pwt_values (combine lf cf).

  Definition hparse_pwt (is_b cat_nz : bool) (l0 l1 : N) : M (N * Z * list hpwt * list hpwt) :=
    ld <- rd_ue R ;;
    dc <- (if cat_nz then x <- rd_se R ;; ret (i8 x) else ret 0%Z) ;;
    w0 <- hparse_pwt_list cat_nz (u8 (l0 + 1)) ;;
    w1 <- (if is_b then hparse_pwt_list cat_nz (u8 (l1 + 1)) else ret []) ;;
    e <- get_err R ;;
    if e then fail else ret (u8 ld, dc, w0, w1).

  (* `for r.NrBitsReadInCurrentByte() < 8 { if r.ReadFlag() { error } }` *)
  Fixpoint halign_loop (fuel : nat) : M unit :=
    match fuel with
    | O => out_of_fuel
    | S f => fun s => if bib s <? 8
                      then (b <- rd_flag R ;; if b then fail else halign_loop f) s
                      else Ok (tt, s)
    end.

  Definition hslice_main_zero :=
    (0, false, 0, 0, false, hrps_zero, 0, (0, 0, @nil hlt), false, (false, false),
     (false, 0, 0, @None (bool * list N * bool * list N), false, false, true, 0,
      @None (N * Z * list hpwt * list hpwt), 0, false),
     (0%Z, 0%Z, 0%Z, 0%Z, 0%Z, 0%Z, false), (false, false, 0%Z, 0%Z, false)).

  (* the part of the header that precedes slice_type .. slice_loop_filter_across_slices_enabled_flag,
     i.e. the block `if !sh.DependentSliceSegmentFlag { ... }` *)
  Definition hparse_slice_main (nt : N) (sp : hsps) (pp : hpps) :=
    let cat := if h_sep_plane sp && (h_chroma sp =? 3) then 0 else h_chroma sp in
    let cat_nz := negb (cat =? 0) in
    let idr := (nt =? 19) || (nt =? 20) in
    xs <- rep_n (pp_num_extra_bits pp) (rd_flag R) ;;
    st <- rd_ue R ;;
    pof <- (if pp_output_flag_present pp then rd_flag R else ret false) ;;
    cpl <- (if h_sep_plane sp then x <- rd R 2 ;; ret (u8 x) else ret 0) ;;
    rf <- (if negb idr then
             poc <- rd R (u8 (h_log2_poc sp + 4)) ;;
             stf <- rd_flag R ;;
             rp <- (if negb stf then
                      r <- hparse_st_rps R (h_num_st_rps sp) (h_num_st_rps sp) (h_st_rps sp) ;;
                      e <- get_err R ;;
                      if e then fail else ret (r, 0)
                    else if 1 <? h_num_st_rps sp then
                      ix <- rd R (ceil_log2 (h_num_st_rps sp)) ;;
                      match nth_error (h_st_rps sp) (N.to_nat (u8 ix)) with
                      | None => fail
                      | Some r => ret (r, u8 ix)
                      end
                    else
                      (* repaired text (fix commit): with one set in the SPS short_term_ref_pic_set_idx is inferred 0 *)
                      match nth_error (h_st_rps sp) 0 with
                      | None => ret (hrps_zero, 0)
                      | Some r => ret (r, 0)
                      end) ;;
             let npt0 := hcount_in_use (fst rp) in
             lt <- (if h_lt_present sp then
                      nls <- (if 0 <? h_num_lt sp then x <- rd_ue R ;; ret (u8 x) else ret 0) ;;
                      nlp <- rd_ue R ;;
                      if loop_bound <? u64 (nls + nlp) then out_of_fuel else
                      r <- hlt_loop (N.to_nat (u64 (nls + nlp))) 0 nls sp [] npt0 ;;
                      ret (nls, nlp, fst r, snd r)
                    else ret (0, 0, [], npt0)) ;;
             tm <- (if h_tmvp sp then rd_flag R else ret false) ;;
             let '(nls, nlp, lts, npt) := lt in
             ret (u16 poc, stf, fst rp, snd rp, (nls, nlp, lts), tm, npt)
           else ret (0, false, hrps_zero, 0, (0, 0, []), false, 0)) ;;
    let '(poc, stf, rps, stidx, ltinfo, tmvp, npt) := rf in
    sao <- (if h_sao sp then
              a <- rd_flag R ;; b <- (if cat_nz then rd_flag R else ret false) ;; ret (a, b)
            else ret (false, false)) ;;
    let is_p := st =? 1 in
    let is_b := st =? 0 in
    inter <- (if is_p || is_b then
                ov <- rd_flag R ;;
                nr <- (if ov then
                         a <- rd_ue R ;;
                         b <- (if is_b then x <- rd_ue R ;; ret (u8 x) else ret (pp_l1 pp)) ;;
                         ret (u8 a, b)
                       else ret (pp_l0 pp, pp_l1 pp)) ;;
                let '(l0, l1) := nr in
                if (14 <? l0) || (14 <? l1) then fail else
                rplm <- (if pp_lists_mod pp then
                           let npt1 := match pp_scc pp with
                                       | Some sc => if ps_curr_pic_ref sc then u8 (npt + 1) else npt
                                       | None => npt
                                       end in
                           if 1 <? npt1 then x <- hparse_rplm is_b l0 l1 npt1 ;; ret (Some x)
                           else ret None
                         else ret None) ;;
                mvd <- (if is_b then rd_flag R else ret false) ;;
                cab <- (if pp_cabac_init_present pp then rd_flag R else ret false) ;;
                col <- (if tmvp then
                          cf <- (if is_b then rd_flag R else ret true) ;;
                          ci <- (if (cf && (0 <? l0)) || (negb cf && (0 <? l1))
                                 then x <- rd_ue R ;; ret (u8 x) else ret 0) ;;
                          ret (cf, ci)
                        else ret (true, 0)) ;;
                pw <- (if (pp_weighted_pred pp && is_p) || (pp_weighted_bipred pp && is_b)
                       then x <- hparse_pwt is_b cat_nz l0 l1 ;; ret (Some x) else ret None) ;;
                fm <- rd_ue R ;;
                im <- (match h_scc sp with
                       | Some sc => if ss_mv_res_idc sc =? 2 then rd_flag R else ret false
                       | None => ret false
                       end) ;;
                ret (ov, l0, l1, rplm, mvd, cab, fst col, snd col, pw, u8 fm, im)
              else ret (false, 0, 0, None, false, false, true, 0, None, 0, false)) ;;
    qpd <- rd_se R ;;
    cq <- (if pp_slice_chroma_qp_present pp then a <- rd_se R ;; b <- rd_se R ;; ret (i8 a, i8 b)
           else ret (0%Z, 0%Z)) ;;
    aq <- (match pp_scc pp with
           | Some sc => if ps_slice_act_qp_present sc
                        then a <- rd_se R ;; b <- rd_se R ;; c <- rd_se R ;; ret (i8 a, i8 b, i8 c)
                        else ret (0%Z, 0%Z, 0%Z)
           | None => ret (0%Z, 0%Z, 0%Z)
           end) ;;
    ccq <- (match pp_range pp with
            | Some rg => if pr_cqp_list_enabled rg then rd_flag R else ret false
            | None => ret false
            end) ;;
    dov <- (if pp_dbf_override_enabled pp then rd_flag R else ret false) ;;
    (* repaired text (fix commit): slice_deblocking_filter_disabled_flag is inferred from the PPS *)
    db <- (if dov then
             dis <- rd_flag R ;;
             bt <- (if negb dis then a <- rd_se R ;; b <- rd_se R ;; ret (i8 a, i8 b) else ret (0%Z, 0%Z)) ;;
             ret (dis, bt)
           else ret (pp_dbf_disabled pp, (0%Z, 0%Z))) ;;
    let '(ddis, (beta, tc)) := db in
    lfa <- (if pp_lf_across_slices pp && (fst sao || snd sao || negb ddis) then rd_flag R else ret false) ;;
    let '(acy, acb, acr) := aq in
    ret (st, pof, cpl, poc, stf, rps, stidx, ltinfo, tmvp, sao, inter,
         (qpd, fst cq, snd cq, acy, acb, acr, ccq), (dov, ddis, beta, tc, lfa)).

  Definition hparse_slice (spsmap : N -> option hsps) (ppsmap : N -> option hpps) : M hslice :=
    hdr <- rd R 16 ;;
    let nt := hnalu_type hdr in
    first <- rd_flag R ;;
    nop <- (if (16 <=? nt) && (nt <=? 23) then rd_flag R else ret false) ;;
    ppsid <- rd_ue R ;;
    match ppsmap (u32 ppsid) with
    | None => fail
    | Some pp =>
    match spsmap (pp_sps_id pp) with
    | None => fail
    | Some sp =>
    seg <- (if negb first then
              dep <- (if pp_dep_slices pp then rd_flag R else ret false) ;;
              let shift := u8 (h_log2_min_cb sp + 3 + h_log2_diff_cb sp) in
              let ctb := if shift <? 64 then 2 ^ shift else 0 in
              if ctb =? 0 then fail else
              let size := u64 (ceil_div (h_width sp) ctb * ceil_div (h_height sp) ctb) in
              a <- rd R (ceil_log2 size) ;;
              ret (dep, a)
            else ret (false, 0)) ;;
    let '(dep, addr) := seg in
    mn <- (if negb dep then hparse_slice_main nt sp pp else ret hslice_main_zero) ;;
    let '(st, pof, cpl, poc, stf, rps, stidx, (nls, nlp, lts), tmvp, (saol, saoc),
          (ov, l0, l1, rplm, mvd, cab, cfl0, cri, pw, fm, im),
          (qpd, cbq, crq, acy, acb, acr, ccq), (dov, ddis, beta, tc, lfa)) := mn in
    ep <- (if pp_tiles pp || pp_entropy_sync pp then
             n <- rd_ue R ;;
             if 0 <? n then
               olm <- rd_ue R ;;
               if 31 <? olm then fail else
               es <- rep_until_err_n R n (x <- rd R (u8 olm + 1) ;; ret (u32 x)) ;;
               ret (n, u8 olm, es)
             else ret (n, 0, [])
           else ret (0, 0, [])) ;;
    let '(nep, olm, eps) := ep in
    ex <- (if pp_slice_ext_present pp then
             l <- rd_ue R ;;
             bs <- rep_n (u16 l) (x <- rd R 8 ;; ret (u8 x)) ;;
             ret (u16 l, bs)
           else ret (0, [])) ;;
    ab <- rd_flag R ;;
    if negb ab then fail else
    u0 <- halign_loop 9 ;;
    e <- get_err R ;;
    if e then fail else
    nb <- get_nbytes R ;;
    ret (mkHSlice st first nop (u32 ppsid) dep addr pof cpl poc stf rps stidx nls nlp lts tmvp saol saoc
                  ov l0 l1 rplm mvd cab cfl0 cri pw fm im qpd cbq crq acy acb acr ccq dov ddis beta tc lfa
                  nep olm eps (fst ex) (snd ex) (u32 nb))
    end end.

End HParsers2.

Definition er_bib (s : rstate) : N := 8 - rn s.
Definition br_bib (s : bstate) : N := if bpos s mod 8 =? 0 then 8 else bpos s mod 8.

Definition hparse_pps_er (spsmap : N -> bool) (nalu : list N) : res hpps := run (hparse_pps ER spsmap) (rinit nalu).
Definition hparse_pps_br (spsmap : N -> bool) (nalu : list N) : res hpps := run (hparse_pps BR spsmap) (binit nalu).
Definition hparse_slice_er spsmap ppsmap (nalu : list N) : res hslice :=
  run (hparse_slice ER er_bib spsmap ppsmap) (rinit nalu).
Definition hparse_slice_br spsmap ppsmap (nalu : list N) : res hslice :=
  run (hparse_slice BR br_bib spsmap ppsmap) (binit nalu).

(* ------------------------------------------------------------------ flattening *)
Definition flat_zlist (l : list Z) : list Z := flat_list (fun z => [z]) l.

Definition flat_hppsrange (r : hppsrange) : list Z :=
  [zn (pr_log2_max_ts r); zb (pr_cross_comp r); zb (pr_cqp_list_enabled r); zn (pr_diff_cu_cqp_depth r);
   zn (pr_cqp_list_len_minus1 r)] ++ flat_zlist (pr_cb_list r) ++ flat_zlist (pr_cr_list r)
  ++ [zn (pr_log2_sao_luma r); zn (pr_log2_sao_chroma r)].

Definition flat_hppsscc (s : hppsscc) : list Z :=
  [zb (ps_curr_pic_ref s); zb (ps_ract s); zb (ps_slice_act_qp_present s); ps_act_y s; ps_act_cb s;
   ps_act_cr s; zb (ps_pal_init_present s); zn (ps_num_pal_init s); zb (ps_mono s); zn (ps_luma_bd s);
   zn (ps_chroma_bd s)] ++ flat_list flat_nlist (ps_pal_init s).

Definition flat_hpps (p : hpps) : list Z :=
  [zn (pp_id p); zn (pp_sps_id p); zb (pp_dep_slices p); zb (pp_output_flag_present p);
   zn (pp_num_extra_bits p); zb (pp_sign_hiding p); zb (pp_cabac_init_present p); zn (pp_l0 p); zn (pp_l1 p);
   pp_init_qp p; zb (pp_constrained_intra p); zb (pp_transform_skip p); zb (pp_cu_qp_delta p);
   zn (pp_diff_cu_qp_delta_depth p); pp_cb_qp p; pp_cr_qp p; zb (pp_slice_chroma_qp_present p);
   zb (pp_weighted_pred p); zb (pp_weighted_bipred p); zb (pp_transquant_bypass p); zb (pp_tiles p);
   zb (pp_entropy_sync p); zn (pp_tile_cols p); zn (pp_tile_rows p); zb (pp_uniform p)]
  ++ flat_nlist (pp_col_widths p) ++ flat_nlist (pp_row_heights p)
  ++ [zb (pp_lf_across_tiles p); zb (pp_lf_across_slices p); zb (pp_dbf_control p);
      zb (pp_dbf_override_enabled p); zb (pp_dbf_disabled p); pp_beta p; pp_tc p; zb (pp_scaling_data p);
      zb (pp_lists_mod p); zn (pp_log2_par_merge p); zb (pp_slice_ext_present p); zb (pp_ext_present p);
      zb (pp_range_flag p)] ++ flat_opt flat_hppsrange (pp_range p)
  ++ [zb (pp_ml_flag p); zb (pp_3d_flag p); zb (pp_scc_flag p)] ++ flat_opt flat_hppsscc (pp_scc p)
  ++ [zn (pp_ext4 p)] ++ flat_blist (pp_ext_data p).

Definition flat_hpwt (w : hpwt) : list Z :=
  [zb (pw_luma_flag w); zb (pw_chroma_flag w); pw_dlw w; pw_lo w; pw_dcw0 w; pw_dcw1 w; pw_dco0 w; pw_dco1 w].

Definition flat_hslice (h : hslice) : list Z :=
  [zn (s_type h); zb (s_first h); zb (s_no_output_prior h); zn (s_pps_id h); zb (s_dependent h);
   zn (s_address h); zb (s_pic_output h); zn (s_colour_plane h); zn (s_poc_lsb h); zb (s_st_sps_flag h)]
  ++ flat_hrps (s_st_rps h)
  ++ [zn (s_st_idx h); zn (s_num_lt_sps h); zn (s_num_lt_pics h)] ++ flat_list flat_hlt (s_lt h)
  ++ [zb (s_tmvp h); zb (s_sao_luma h); zb (s_sao_chroma h); zb (s_override h); zn (s_l0 h); zn (s_l1 h)]
  ++ flat_opt (fun r => let '(f0, e0, f1, e1) := r in [zb f0] ++ flat_nlist e0 ++ [zb f1] ++ flat_nlist e1)
              (s_rplm h)
  ++ [zb (s_mvd_l1_zero h); zb (s_cabac_init h); zb (s_collocated_from_l0 h); zn (s_collocated_ref_idx h)]
  ++ flat_opt (fun r => let '(ld, dc, w0, w1) := r in
                        [zn ld; dc] ++ flat_list flat_hpwt w0 ++ flat_list flat_hpwt w1) (s_pwt h)
  ++ [zn (s_five_minus h); zb (s_use_integer_mv h); s_qp_delta h; s_cb h; s_cr h; s_act_y h; s_act_cb h;
      s_act_cr h; zb (s_cu_chroma_qp_enabled h); zb (s_dbf_override h); zb (s_dbf_disabled h); s_beta h;
      s_tc h; zb (s_lf_across h); zn (s_num_entry h); zn (s_offset_len_minus1 h)]
  ++ flat_nlist (s_entry_points h) ++ [zn (s_ext_len h)] ++ flat_nlist (s_ext_bytes h) ++ [zn (s_size h)].
