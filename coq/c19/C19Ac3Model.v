(* C19Ac3Model.v — the DECODERS of the AC-3 / Enhanced AC-3 configuration boxes that Set{AC3,EC3}Descriptor put into the
   sample entry (mp4/dac3.go decodeDac3FromData, mp4/dec3.go decodeDec3FromData), on the payload bytes (what
   DecodeDac3SR / DecodeDec3SR hand over: sr.ReadBytes(hdr.payloadLen())), over C13's model of bits.Reader
   (read_plain: Read(n) returns 0 once the accumulated error is set).  DEFINITIONS ONLY.
   The encoders are C19TreeModel.dac3_payload / dec3_payload. *)
From V.lib Require Import Base.
From V.c13 Require Import C13Model.
From V.c19 Require Import C19Model C19TreeModel.

(* Dac3Box.EncodeSW with any Reserved / InitialZeroes (a decoded box re-encoded; the API builds 0 / 0: dac3_payload) *)
Definition dac3_payload_x (d : dac3) (rsvd iz : N) : list N :=
  let '(mkDac3 fscod bsid bsmod acmod lfeon brc) := d in
  wout (run_writer_plain (repeat (WBits 0 8) (N.to_nat iz) ++
        [WBits fscod 2; WBits bsid 5; WBits bsmod 3; WBits acmod 3; WBits lfeon 1; WBits brc 5; WBits rsvd 5; WFlush])).
(* Dec3Box.EncodeSW with Reserved bytes behind the substreams *)
Definition dec3_payload_x (d : dec3) (reserved : list N) : option (list N) :=
  match dec3_payload d with Some p => Some (p ++ reserved) | None => None end.

(* for i := 0; i < int(b.InitialZeroes); i++ { if zero := br.Read(8); zero != 0 { return error } }
   (a failed read returns 0: bytes that are not there count as zero) *)
Fixpoint dac3_zeros (k : nat) (s : rstate) : option rstate :=
  match k with
  | O => Some s
  | S k' => let '(z, s') := read_plain s 8 in if z =? 0 then dac3_zeros k' s' else None
  end.

(* decodeDac3FromData: InitialZeroes = byte(len(data) - 3) when len(data) > 3 (a conversion to byte: mod 256);
   no AccError check anywhere: a payload cut short decodes with zeros in the fields that are not there.
   Result: the six fields, Reserved, InitialZeroes *)
Definition dac3_decode (data : list N) : res (dac3 * N * N) :=
  let iz := if 3 <? lenN data then (lenN data - 3) mod 256 else 0 in
  match dac3_zeros (N.to_nat iz) (rinit data) with
  | None => Err
  | Some s0 =>
      let '(fscod, s1) := read_plain s0 2 in
      let '(bsid, s2) := read_plain s1 5 in
      let '(bsmod, s3) := read_plain s2 3 in
      let '(acmod, s4) := read_plain s3 3 in
      let '(lfeon, s5) := read_plain s4 1 in
      let '(brc, s6) := read_plain s5 5 in
      let '(rsvd, _) := read_plain s6 5 in
      Ok (mkDac3 fscod bsid bsmod acmod lfeon brc, rsvd, iz)
  end.

(* one pass of the substream loop of decodeDec3FromData (ChanLoc stays 0 when NumDepSub = 0) *)
Definition rd_ec3sub (s : rstate) : ec3sub * rstate :=
  let '(fscod, s) := read_plain s 2 in
  let '(bsid, s) := read_plain s 5 in
  let '(_, s) := read_plain s 1 in
  let '(asvc, s) := read_plain s 1 in
  let '(bsmod, s) := read_plain s 3 in
  let '(acmod, s) := read_plain s 3 in
  let '(lfeon, s) := read_plain s 1 in
  let '(_, s) := read_plain s 3 in
  let '(nds, s) := read_plain s 4 in
  if 0 <? nds then
    let '(cl, s) := read_plain s 9 in (mkEc3Sub fscod bsid asvc bsmod acmod lfeon nds cl, s)
  else
    let '(_, s) := read_plain s 1 in (mkEc3Sub fscod bsid asvc bsmod acmod lfeon nds 0, s).

(* for i := 0; i < int(nrSubs); i++ { ...; if br.AccError() != nil { return nil, err }; append } *)
Fixpoint rd_ec3subs (k : nat) (s : rstate) : option (list ec3sub * rstate) :=
  match k with
  | O => Some ([], s)
  | S k' =>
      let '(e, s1) := rd_ec3sub s in
      if rerr s1 then None
      else match rd_ec3subs k' s1 with
           | Some (l, s2) => Some (e :: l, s2)
           | None => None
           end
  end.

(* bits.Reader.ReadRemainingBytes: nil after an error; an error when bits are pending; else the unread bytes *)
Definition read_remaining (s : rstate) : list N * rstate :=
  if rerr s then ([], s)
  else if rn s =? 0 then (skipn (N.to_nat (rpos s)) (rdata s), mkR 0 (rv s) (lenN (rdata s)) (rzc s) false (rdata s))
  else ([], mkR (rn s) (rv s) (rpos s) (rzc s) true (rdata s)).

(* decodeDec3FromData: DataRate (13 bits), number of substreams - 1 (3 bits), the substreams, Reserved = the rest;
   `return &b, br.AccError()`.  Result: the box and its Reserved bytes *)
Definition dec3_decode (data : list N) : res (dec3 * list N) :=
  let '(dr, s) := read_plain (rinit data) 13 in
  let '(n1, s) := read_plain s 3 in
  match rd_ec3subs (N.to_nat (n1 + 1)) s with
  | None => Err
  | Some (subs, s) =>
      let '(rest, s) := read_remaining s in
      if rerr s then Err else Ok (mkDec3 dr subs, rest)
  end.

(* valid configurations: every field fits the bits the box has for it (ETSI TS 102 366 F.4 / F.6) *)
Definition dac3_okb (d : dac3) : bool :=
  let '(mkDac3 fscod bsid bsmod acmod lfeon brc) := d in
  (fscod <? 4) && (bsid <? 32) && (bsmod <? 8) && (acmod <? 8) && (lfeon <? 2) && (brc <? 32).

(* chan_loc is only present with dependent substreams: a ChanLoc next to NumDepSub = 0 is not written *)
Definition ec3sub_okb (e : ec3sub) : bool :=
  let '(mkEc3Sub fscod bsid asvc bsmod acmod lfeon nds cl) := e in
  (fscod <? 4) && (bsid <? 32) && (asvc <? 2) && (bsmod <? 8) && (acmod <? 8) && (lfeon <? 2) && (nds <? 16)
  && (if 0 <? nds then cl <? 512 else cl =? 0).

Definition dec3_okb (d : dec3) : bool :=
  let '(mkDec3 dr subs) := d in
  (dr <? 8192) && (1 <=? lenN subs) && (lenN subs <=? 8) && forallb ec3sub_okb subs.
