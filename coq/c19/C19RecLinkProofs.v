(* C19RecLinkProofs.v — the configuration record that a successful Set{AVC,HEVC}Descriptor call puts into the
   sample entry survives EncodeSW -> Decode...DecConfRec: the decoded record carries the profile / compatibility /
   level / chroma format / bit depths derived from the SPS and the supplied parameter sets byte for byte. *)
From V.lib Require Import Base.
From V.c19 Require Import C19Model C19Spec C19DescProofs C19RecModel C19RecProofs.

(* parameter-set lists that fit the record's count and length fields *)
Definition nalus_fit (maxcount : N) (l : list str) : bool := (lenN l <? maxcount) && forallb nalu_ok l.

Section Link.
  Variable avc_parse : str -> option avc_info.
  Variable hevc_parse : str -> option (N * N * list N).

  Lemma set_avc_record t name spss ppss incl t' :
    set_avc avc_parse t name spss ppss incl = (OOk, t') ->
    nalus_fit 32 spss = true -> nalus_fit 256 ppss = true ->
    exists sps0 rest w h p c l cf bl bc e a,
      spss = sps0 :: rest /\ avc_parse sps0 = Some (w, h, (p, c, l, (cf, bl, bc)))
      /\ sd_entries t' = sd_entries t ++ [e] /\ se_cfg e = CfgAvcC a
      /\ avcrec_of a = mkAvcRec p c l (if incl then spss else []) (if incl then ppss else []) cf bl bc 0 false
      /\ lenN (avcrec_encode (avcrec_of a)) = avcrec_size (avcrec_of a)
      /\ avcrec_decode (avcrec_encode (avcrec_of a)) = Ok (avcrec_canon (avcrec_of a))
      /\ (avc_plain p = false -> avcrec_decode (avcrec_encode (avcrec_of a)) = Ok (avcrec_of a)).
  Proof using avc_parse.
    clear hevc_parse. intros H Fs Fp.
    apply set_avc_ok in H. destruct H as (sps0 & rest & w & h & p & c & l & cf & bl & bc & E & Hp & Hcf & Hbl & Hbc & _ & He & _).
    unfold nalus_fit in Fs, Fp. apply andb_true_iff in Fs, Fp. destruct Fs as [Fs1 Fs2]. destruct Fp as [Fp1 Fp2].
    eexists sps0, rest, w, h, p, c, l, cf, bl, bc, _, _.
    split; [exact E|]. split; [exact Hp|]. split; [exact He|]. split; [reflexivity|].
    split; [reflexivity|]. split; [apply avcrec_size_ok|].
    assert (OK : avcrec_ok (avcrec_of (mkAvcC p c l (if incl then spss else []) (if incl then ppss else []) cf bl bc)) = true).
    { unfold avcrec_ok, avcrec_of. cbn [ar_sps ar_pps ar_chroma ar_bdl ar_bdc ar_nspsext ac_sps ac_pps ac_chroma ac_bdl ac_bdc].
      apply N.ltb_lt in Fs1, Fp1.
      assert (cf <? 4 = true) by (apply N.ltb_lt; lia). assert (bl <? 8 = true) by (apply N.ltb_lt; lia).
      assert (bc <? 8 = true) by (apply N.ltb_lt; lia).
      destruct incl; repeat (apply andb_true_iff; split); try assumption; try reflexivity; apply N.ltb_lt; assumption. }
    split; [apply avcrec_roundtrip; exact OK|].
    intros Hpl. apply avcrec_roundtrip_exact; [exact OK|].
    unfold avc_has_trailing, avcrec_of. cbn [ar_profile ar_notrail ac_profile]. rewrite Hpl. reflexivity.
  Qed.

  (* ranges of the values hevc.ParseSPSNALUnit reports for a valid SPS: profile space (2 bits), tier flag, profile idc
     (5 bits), compatibility flags (32 bits), constraint flags (48 bits), level, chroma_format_idc 0..3,
     bit depths minus 8 in 0..7 *)
  Definition hevc_cfg_ok (cfg : list N) : bool :=
    match cfg with
    | [space; tier; idc; compat; constr; level; chroma; bdl; bdc] =>
        (space <? 4) && (tier <? 2) && (idc <? 32) && (compat <? 4294967296) && (constr <? 281474976710656)
        && (chroma <? 4) && (bdl <? 8) && (bdc <? 8)
    | _ => false
    end.

  Lemma set_hevc_record t name vpss spss ppss seis incl t' :
    set_hevc hevc_parse t name vpss spss ppss seis incl = (OOk, t') ->
    nalus_fit 65536 vpss = true -> nalus_fit 65536 spss = true -> nalus_fit 65536 ppss = true -> nalus_fit 65536 seis = true ->
    (forall sps w h cfg, hevc_parse sps = Some (w, h, cfg) -> hevc_cfg_ok cfg = true) ->
    exists sps0 rest w h space tier idc compat constr level chroma bdl bdc e hc r,
      spss = sps0 :: rest
      /\ hevc_parse sps0 = Some (w, h, [space; tier; idc; compat; constr; level; chroma; bdl; bdc])
      /\ sd_entries t' = sd_entries t ++ [e] /\ se_cfg e = CfgHvcC hc
      /\ hvcrec_of hc = Some r
      /\ r = mkHvcRec 1 space (negb (tier =? 0)) idc compat constr level 0 0 chroma bdl bdc 0 0 0 0 3
                      (spec_hevc_arrays name vpss spss ppss seis incl)
      /\ lenN (hvcrec_encode r) = hvcrec_size r
      /\ hvcrec_decode (hvcrec_encode r) = Ok r.
  Proof using hevc_parse.
    clear avc_parse. intros H Fv Fs Fp Fe Hcfg.
    apply set_hevc_ok in H. destruct H as (sps0 & rest & w & h & cfg & E & Hp & _ & He & _).
    pose proof (Hcfg _ _ _ _ Hp) as C. unfold hevc_cfg_ok in C.
    destruct cfg as [|space [|tier [|idc [|compat [|constr [|level [|chroma [|bdl [|bdc [|? ?]]]]]]]]]]; try discriminate.
    eexists sps0, rest, w, h, space, tier, idc, compat, constr, level, chroma, bdl, bdc, _, _, _.
    split; [exact E|]. split; [exact Hp|]. split; [exact He|]. split; [reflexivity|].
    split; [reflexivity|]. split; [reflexivity|]. split; [apply hvcrec_size_ok|].
    apply hvcrec_roundtrip. unfold hvcrec_ok.
    cbn [hr_version hr_space hr_tier hr_pidc hr_compat hr_constraint hr_level hr_minspat hr_par hr_chroma hr_bdl hr_bdc
         hr_avgfr hr_cfr hr_ntl hr_tin hr_lsm1 hr_arrays hc_arrays hc_cfg].
    repeat (apply andb_true_iff in C; let K := fresh "K" in destruct C as [C K]).
    unfold nalus_fit in Fv, Fs, Fp, Fe. apply andb_true_iff in Fv, Fs, Fp, Fe.
    destruct Fv as [Fv1 Fv2], Fs as [Fs1 Fs2], Fp as [Fp1 Fp2], Fe as [Fe1 Fe2].
    assert (A : forallb array_ok (spec_hevc_arrays name vpss spss ppss seis incl) = true
                /\ lenN (spec_hevc_arrays name vpss spss ppss seis incl) <? 256 = true).
    { assert (AO : forall ct l, (lenN l <? 65536) = true -> forallb nalu_ok l = true -> array_ok (ct, l) = true).
      { intros ct l L1 L2. unfold array_ok. cbn [snd]. rewrite L1, L2. reflexivity. }
      unfold spec_hevc_arrays.
      destruct incl; destruct seis as [|s0 sr]; cbn [app forallb]; rewrite ?AO by assumption; split; reflexivity. }
    destruct A as [A1 A2].
    rewrite C, K4, K3, K2, K1, K0, K, A1, A2. reflexivity.
  Qed.
End Link.
