(* C19DimsProofs.v — "a sample entry whose dimensions ... equal those supplied", stated WITHOUT reference to what a parser
   answers: the abstract SPS parsers of C19Model are instantiated with C15's models of avc.ParseSPSNALUnit(sps, false) and
   hevc.ParseSPSNALUnit + SPS.ImageSize (coq/c15, imported read-only), and C15's theorems (parser applied to the NAL unit
   written by the independent serialiser of the standard's syntax) give: for EVERY valid field assignment v of the SPS
   syntax, the sample entry that Set{AVC,HEVC}Descriptor builds from the NAL unit of v has
     width  = the CROPPED picture width of v  (7.4.2.1.1: PicWidthInMbs*16 - CropUnitX*(left+right); HEVC: (7-x) conformance window)
     height = the CROPPED picture height of v
   modulo 2^16 (the 16-bit fields), tkhd = the same in 16.16 fixed point -- whatever VUI v carries (sample aspect ratio,
   overscan, timing ...): display_width / h_display_width do not look at the VUI.  A SetAVCDescriptor that scaled the coded
   width by the sample aspect ratio (a "display width" in another sense) would falsify these statements on every SPS with a
   non-square SAR (Example below: 40:33). *)
From V.lib Require Import Base.
From V.c19 Require Import C19Model C19Spec C19DescProofs.
From V.c15 Require C15Model C15Spec C15Theorems C15HevcModel C15HevcSpec C15HevcTheorems C15Examples C15HevcExamples.

(* avc.ParseSPSNALUnit(sps, false) as C19's parser argument: Width, Height, byte(Profile), byte(ProfileCompatibility),
   byte(Level), ChromaFormatIDC, BitDepthLumaMinus8, BitDepthChromaMinus8 of C15's model of the parser *)
Definition c15_avc_parser : str -> option avc_info := fun sps =>
  match C15Model.parse_sps_br false sps with
  | Ok s => Some (C15Model.sps_width s, C15Model.sps_height s,
                  (C15Model.sps_profile s mod 256, C15Model.sps_compat s mod 256, C15Model.sps_level s mod 256,
                   (C15Model.sps_chroma_format_idc s, C15Model.sps_bit_depth_luma_minus8 s,
                    C15Model.sps_bit_depth_chroma_minus8 s)))
  | _ => None
  end.

(* hevc.ParseSPSNALUnit + ImageSize() *)
Definition c15_hevc_parser : str -> option (N * N * list N) := fun sps =>
  match C15HevcModel.hparse_sps_br sps with
  | Ok s =>
      let '(w, h) := C15HevcModel.himage_size s in
      let p := C15HevcModel.h_ptl s in
      Some (w, h, [C15HevcModel.hp_space p; (if C15HevcModel.hp_tier p then 1 else 0); C15HevcModel.hp_idc p;
                   C15HevcModel.hp_compat p; C15HevcModel.hp_constraint p; C15HevcModel.hp_level p;
                   C15HevcModel.h_chroma s; C15HevcModel.h_bdl s; C15HevcModel.h_bdc s])
  | _ => None
  end.

Lemma c15_avc_parser_valid v :
  C15Spec.sps_valid v = true ->
  exists p c l x, c15_avc_parser (C15Spec.nalu_sps v) = Some (C15Spec.display_width v, C15Spec.display_height v, (p, c, l, x)).
Proof.
  intros Hv. unfold c15_avc_parser. rewrite (C15Theorems.C15_avc_sps_all_valid v false Hv).
  unfold C15Spec.expected_sps_gen. cbn [C15Model.sps_width C15Model.sps_height]. eexists _, _, _, _. reflexivity.
Qed.

Lemma c15_hevc_parser_valid v :
  C15HevcSpec.hsps_valid v = true ->
  exists cfg, c15_hevc_parser (C15HevcSpec.hnalu_sps v) = Some (C15HevcSpec.h_display_width v, C15HevcSpec.h_display_height v, cfg).
Proof.
  intros Hv. unfold c15_hevc_parser. rewrite (C15HevcTheorems.C15_hevc_sps v Hv).
  rewrite (C15HevcTheorems.C15_hevc_dims v Hv). unfold C15HevcSpec.expected_himage_size. eexists. reflexivity.
Qed.

(* SetAVCDescriptor on the NAL unit of ANY valid SPS field assignment v (first SPS of the call) *)
Theorem avc_dims_exact v t name rest ppss incl t' :
  C15Spec.sps_valid v = true ->
  set_avc c15_avc_parser t name (C15Spec.nalu_sps v :: rest) ppss incl = (OOk, t') ->
  exists e, sd_entries t' = sd_entries t ++ [e] /\ se_name e = name
    /\ se_a e = C15Spec.display_width v mod 65536 /\ se_b e = C15Spec.display_height v mod 65536
    /\ tk_width t' = (C15Spec.display_width v * 65536) mod 4294967296
    /\ tk_height t' = (C15Spec.display_height v * 65536) mod 4294967296.
Proof.
  intros Hv H. destruct (set_avc_ok c15_avc_parser t name _ ppss incl t' H)
    as (sps0 & rest' & w & h & p & c & l & cf & bl & bc & Hs & Hp & _ & _ & _ & _ & He & Hw & Hh & _).
  injection Hs as <- <-.
  destruct (c15_avc_parser_valid v Hv) as (p' & c' & l' & x' & Hp'). rewrite Hp' in Hp. injection Hp as <- <- _ _ _ _.
  eexists. split; [exact He|]. cbn [se_name se_a se_b]. repeat split; assumption.
Qed.

Theorem hevc_dims_exact v t name vpss rest ppss seis incl t' :
  C15HevcSpec.hsps_valid v = true ->
  set_hevc c15_hevc_parser t name vpss (C15HevcSpec.hnalu_sps v :: rest) ppss seis incl = (OOk, t') ->
  exists e, sd_entries t' = sd_entries t ++ [e] /\ se_name e = name
    /\ se_a e = C15HevcSpec.h_display_width v mod 65536 /\ se_b e = C15HevcSpec.h_display_height v mod 65536
    /\ tk_width t' = (C15HevcSpec.h_display_width v * 65536) mod 4294967296
    /\ tk_height t' = (C15HevcSpec.h_display_height v * 65536) mod 4294967296.
Proof.
  intros Hv H. destruct (set_hevc_ok c15_hevc_parser t name vpss _ ppss seis incl t' H)
    as (sps0 & rest' & w & h & cfg & Hs & Hp & _ & He & Hw & Hh & _).
  injection Hs as <- <-.
  destruct (c15_hevc_parser_valid v Hv) as (cfg' & Hp'). rewrite Hp' in Hp. injection Hp as <- <- _.
  eexists. split; [exact He|]. cbn [se_name se_a se_b]. repeat split; assumption.
Qed.

