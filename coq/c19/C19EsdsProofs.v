(* C19EsdsProofs.v — print-then-parse of the TYPED esds box that CreateEsdsBox builds around any AudioSpecificConfig of at
   most 100 bytes (one-byte descriptor size fields hold 23 + len <= 123 < 128): the box model's dec_esds (DecodeEsdsSR:
   ES descriptor, DecoderConfigDescriptor, DecSpecificInfo, SLConfigDescriptor with the accumulated-error reader, the
   descriptor loops and their size accounting, fuel = box size + 65536) applied to the bytes body_leaf writes returns the
   leaf itself, the captured size fields being the ones the encoder writes (ghost canon = true), whatever follows. *)
From V.lib Require Import Base.
From V.c19 Require Import C19BoxCodec C19BoxModel C19BoxEq.
From V.c19 Require Import C19Model C19TreeModel C19LeafProofs C19PrintParseProofs.

Lemma sz_loop_small b t : b < 128 -> sz_loop (b :: t) 0 = Ok ((1, b, [b]), t).
Proof.
  intros H. cbn [sz_loop]. replace (128 <=? b) with false by (symmetry; apply N.leb_gt; exact H).
  replace (u64 (0 * 128 + b mod 128)) with b; [reflexivity|]. unfold u64. rewrite N.mod_small by lia. cbn [N.mul N.add].
  rewrite N.mod_small by lia. reflexivity.
Qed.

Lemma rd_bytes64_app x r : lenN x < 9223372036854775808 -> rd_bytes64 (lenN x) (x ++ r) = Some (x, r).
Proof.
  intros H. unfold rd_bytes64. replace (9223372036854775808 <=? lenN x) with false by (symmetry; apply N.leb_gt; exact H).
  rewrite rdB_app by reflexivity. reflexivity.
Qed.

Lemma dec_dsi fu maxNr asc rest :
  lenN asc < 128 -> (2 + Z.of_N (lenN asc) <= maxNr)%Z ->
  dec_desc (S fu) maxNr (5 :: lenN asc :: asc ++ rest) = DOk (DDsi 1 asc) [[lenN asc]] rest.
Proof.
  intros Hn Hm. cbn [dec_desc].
  replace (maxNr <? 2)%Z with false by (symmetry; apply Z.ltb_ge; lia).
  change (5 =? 3) with false. cbv iota. rewrite sz_loop_small by exact Hn.
  change (sfs_of 1) with 0.
  replace (Z.to_N maxNr <? u64 (2 + 0 + lenN asc)) with false by (symmetry; apply N.ltb_ge; unfold u64; rewrite N.mod_small; lia).
  change (5 =? 4) with false. change (5 =? 5) with true. cbv iota.
  rewrite rd_bytes64_app by lia. reflexivity.
Qed.

Lemma dec_slc fu maxNr rest :
  (3 <= maxNr)%Z -> dec_desc (S fu) maxNr (6 :: 1 :: 2 :: rest) = DOk (DSlc 1 2 []) [[1]] rest.
Proof.
  intros Hm. cbn [dec_desc].
  replace (maxNr <? 2)%Z with false by (symmetry; apply Z.ltb_ge; lia).
  change (6 =? 3) with false. cbv iota. rewrite sz_loop_small by lia.
  change (sfs_of 1) with 0. change (u64 (2 + 0 + 1)) with 3.
  replace (Z.to_N maxNr <? 3) with false by (symmetry; apply N.ltb_ge; lia).
  reflexivity.
Qed.

Lemma dec_loop_done dd k size used bs : Z.of_N used = size -> dec_loop dd (S k) size used bs = LDone [] [] bs.
Proof. intros H. cbn [dec_loop]. replace (size - Z.of_N used =? 0)%Z with true by (symmetry; apply Z.eqb_eq; lia). reflexivity. Qed.

Lemma rd_dcd_built r :
  rd_dcd_fields ([64] ++ [21; 0; 0; 0] ++ [0; 0; 0; 0] ++ [0; 0; 0; 0] ++ r) = Ok ((64, 352321536, 0, 0), r).
Proof.
  unfold rd_dcd_fields, pbind, pret.
  change [64] with (be_enc 1 64). change [21; 0; 0; 0] with (be_enc 4 352321536). change [0; 0; 0; 0] with (be_enc 4 0).
  pp. reflexivity.
Qed.

Lemma int64_small x : x < 9223372036854775808 -> int64 x = Z.of_N x.
Proof. intros H. unfold int64. replace (x <? 9223372036854775808) with true by (symmetry; apply N.ltb_lt; exact H). reflexivity. Qed.

Lemma dec_dcd_built fu maxNr asc rest :
  (2 <= fu)%nat -> lenN asc <= 100 -> (17 + Z.of_N (lenN asc) <= maxNr)%Z ->
  dec_desc (S fu) maxNr
    (4 :: (15 + lenN asc) :: [64] ++ [21; 0; 0; 0] ++ [0; 0; 0; 0] ++ [0; 0; 0; 0] ++ 5 :: lenN asc :: asc ++ rest)
  = DOk (esds_dcd asc) [[15 + lenN asc]; [lenN asc]] rest.
Proof.
  intros Hfu Hn Hm. cbn [dec_desc].
  replace (maxNr <? 2)%Z with false by (symmetry; apply Z.ltb_ge; lia).
  change (4 =? 3) with false. cbv iota. rewrite sz_loop_small by lia.
  change (sfs_of 1) with 0.
  replace (Z.to_N maxNr <? u64 (2 + 0 + (15 + lenN asc))) with false by (symmetry; apply N.ltb_ge; unfold u64; rewrite N.mod_small; lia).
  change (4 =? 4) with true. cbv iota.
  destruct fu as [|[|fu]]; [lia|lia|].
  unfold dec_dcd. rewrite rd_dcd_built. rewrite int64_small by lia.
  replace (Z.of_N (15 + lenN asc) - 13 =? 0)%Z with false by (symmetry; apply Z.eqb_neq; lia).
  rewrite dec_dsi by lia.
  rewrite dec_loop_done.
  - reflexivity.
  - rewrite !lenN_cons, lenN_app. lia.
Qed.

Lemma esds_sizes asc :
  es_size_of 0 [] (esds_dcd asc) [DSlc 1 2 []] [] = 23 + lenN asc /\ size_leaf (esds_leaf asc) = 37 + lenN asc.
Proof.
  unfold esds_leaf, esds_dcd. cbn [size_leaf]. unfold es_size_of, es_opt_size, desc_sizesize, sizes_sum.
  cbn [desc_nb desc_size_of map sumN lenN length]. change (sfs_of 1) with 0.
  change (0 / 128 =? 1) with false. change ((0 / 64) mod 2 =? 1) with false. change ((0 / 32) mod 2 =? 1) with false.
  change (desc_sizesize (DSlc 1 2 [])) with 3. change (lenN (@nil N)) with 0. cbv iota. split; lia.
Qed.

Lemma esds_body asc : lenN asc <= 100 ->
  body_leaf (esds_leaf asc) (dflt_rsv (esds_leaf asc))
  = Ok ([0; 0; 0; 0] ++ 3 :: (23 + lenN asc) :: [0; 1] ++ [0] ++
        4 :: (15 + lenN asc) :: [64] ++ [21; 0; 0; 0] ++ [0; 0; 0; 0] ++ [0; 0; 0; 0] ++ 5 :: lenN asc :: asc ++ 6 :: 1 :: 2 :: []).
Proof.
  intros Hn. destruct (esds_sizes asc) as [Hes _]. unfold esds_leaf in *. unfold dflt_rsv, esds_dflt. rewrite Hes.
  unfold esds_dcd. cbn -[N.add N.modulo N.mul N.div lenN N.pow].
  change (sfs_of 1) with 0. change (N.to_nat 0) with O. cbn [wr_size]. change (lenN (@nil N)) with 0.
  replace (13 + (1 + 0 + 1 + lenN asc + 0) + 0) with (15 + lenN asc) by lia.
  rewrite (N.mod_small (23 + lenN asc)) by lia. rewrite (N.mod_small (15 + lenN asc)) by lia.
  rewrite (N.mod_small (lenN asc)) by lia.
  change (0 / 128 =? 1) with false. change ((0 / 64) mod 2 =? 1) with false. change ((0 / 32) mod 2 =? 1) with false. cbv iota.
  change (be_enc 4 (vf_join 0 0)) with [0; 0; 0; 0]. change (be_enc 2 1) with [0; 1]. change (be_enc 1 0) with [0].
  change (be_enc 1 64) with [64]. change (be_enc 4 (N.lor (u32 (21 * 16777216)) 0)) with [21; 0; 0; 0].
  change (be_enc 4 0) with [0; 0; 0; 0]. change ((1 + 0) mod 128) with 1.
  cbn [app]. rewrite !app_nil_r. reflexivity.
Qed.

Lemma rd_es_built T : rd_es_fields (0 :: 1 :: 0 :: T) = Ok ((1, 0, 0, [], 0), T).
Proof.
  change (0 :: 1 :: 0 :: T) with (be_enc 2 1 ++ be_enc 1 0 ++ T).
  unfold rd_es_fields, pbind, pret, rd_if. pp. reflexivity.
Qed.

Lemma esds_rsv asc : lenN asc <= 100 ->
  esds_dflt 1 0 [] (esds_dcd asc) [DSlc 1 2 []] [] = [[23 + lenN asc]; [15 + lenN asc]; [lenN asc]; [1]].
Proof.
  intros Hn. destruct (esds_sizes asc) as [Hes _]. unfold esds_dflt. rewrite Hes. unfold esds_dcd, dflt_descs.
  cbn [flat_map dflt_desc desc_size_of desc_nb app]. change (sfs_of 1) with 0. change (N.to_nat 0) with O. cbn [wr_size].
  change (lenN (@nil N)) with 0.
  replace (13 + (1 + 0 + 1 + lenN asc + 0) + 0) with (15 + lenN asc) by lia.
  rewrite (N.mod_small (23 + lenN asc)) by lia. rewrite (N.mod_small (15 + lenN asc)) by lia.
  rewrite (N.mod_small (lenN asc)) by lia. reflexivity.
Qed.

Lemma rsv_eqb0_refl r : rsv_eqb0 r r = true.
Proof. induction r as [|c r IH]; [reflexivity|]. cbn [rsv_eqb0]. now rewrite bytes_eqb_refl, IH. Qed.

Lemma lpp_esds asc : lenN asc <= 100 -> leaf_pp dec_esds (esds_leaf asc).
Proof.
  intros Hn. destruct (esds_sizes asc) as [Hes Hsz]. eexists. split; [apply esds_body; exact Hn|]. split.
  - rewrite Hsz. repeat first [rewrite lenN_app | rewrite lenN_cons]. change (lenN (@nil N)) with 0. lia.
  - intros r2. rewrite Hsz. unfold dec_esds, pbind. rewrite <- !app_assoc.
    change [0; 0; 0; 0] with (be_enc 4 0) at 1. rewrite rd4 by lia.
    cbn [app]. rewrite <- app_assoc. cbn [app]. change (3 =? 3) with true. cbn [negb]. cbv iota.
    rewrite sz_loop_small by lia. rewrite rd_es_built.
    cbn [h_size hdr8].
    set (F := N.to_nat (37 + lenN asc + 65536)).
    assert (HF : (2 <= F)%nat) by (subst F; lia).
    set (T2 := 6 :: 1 :: 2 :: r2).
    set (T1 := 4 :: _).
    replace (lenN (0 :: 1 :: 0 :: T1) - lenN T1) with 3 by (rewrite !lenN_cons; lia).
    rewrite int64_small by lia.
    subst T1.
    rewrite (dec_dcd_built F _ asc T2 HF Hn) by lia.
    set (R := 0 :: 1 :: 0 :: _).
    assert (HR : lenN R = 20 + lenN asc + lenN T2).
    { subst R. repeat first [rewrite lenN_app | rewrite lenN_cons]. lia. }
    assert (HT2 : lenN T2 = 3 + lenN r2) by (subst T2; rewrite !lenN_cons; lia).
    replace (Z.of_N (23 + lenN asc) - Z.of_N (lenN R - lenN T2))%Z with 3%Z by lia.
    subst T2. rewrite dec_slc by lia.
    rewrite dec_loop_done by lia.
    unfold esds_dcd at 1. cbv iota. change (DDcd 1 64 21 0 0 0 [DDsi 1 asc] []) with (esds_dcd asc). rewrite Hes. rewrite N.eqb_refl. cbn [negb]. cbv iota.
    unfold esds_leaf, dflt_rsv. rewrite (esds_rsv asc Hn).
    cbn [app]. unfold esds_canon. rewrite (esds_rsv asc Hn), rsv_eqb0_refl.
    reflexivity.
Qed.
