(* C19ScopeProofs.v — why the invariant is stated for histories that start from CreateEmptyInit:
   on an init obtained by decoding, AddEmptyTrack can break it (observations outside the property's quantifier,
   reproduced on the real code by the harness, reported in the evidence notes). *)
From Coq Require Import String Ascii.
From V.lib Require Import Base.
From V.c19 Require Import C19Model C19Spec.

Definition some_trak (id : N) : trak := mkTrak id 0 0 0 1000 21956 (BS "vide") (BS "mp4ff video handler") None Vmhd [].

(* decoded moov {mvhd, trak(id 2), mvex{trex 2}}: AddEmptyTrack assigns len(Traks)+1 = 2 again *)
Lemma add_after_decode_duplicate_id :
  exists s s', s = mkSt [MCmvhd; MCtrak 0; MCmvex] [some_trak 2] [2] 3
               /\ add_empty_track s 1000 (BS "audio") (BS "eng") = (OOk, s')
               /\ map tk_id (traks s') = [2; 2] /\ trexs s' = [2; 2].
Proof. eexists. eexists. split; [reflexivity|]. vm_compute. repeat split; reflexivity. Qed.

(* decoded moov {trak, mvhd, mvex}: lastTrakIdx = 0 is read as "no trak", the new trak goes to the end *)
Lemma add_after_decode_not_contiguous :
  exists s s', s = mkSt [MCtrak 0; MCmvhd; MCmvex] [some_trak 1] [1] 2
               /\ add_empty_track s 1000 (BS "audio") (BS "eng") = (OOk, s')
               /\ children s' = [MCtrak 0; MCmvhd; MCmvex; MCtrak 1].
Proof. eexists. eexists. split; [reflexivity|]. vm_compute. repeat split; reflexivity. Qed.

(* whereas with the trak in the middle the insertion branch keeps the traks together *)
Lemma add_after_decode_middle :
  exists s s', s = mkSt [MCmvhd; MCtrak 0; MCmvex] [some_trak 1] [1] 2
               /\ add_empty_track s 1000 (BS "audio") (BS "eng") = (OOk, s')
               /\ children s' = [MCmvhd; MCtrak 0; MCtrak 1; MCmvex].
Proof. eexists. eexists. split; [reflexivity|]. vm_compute. repeat split; reflexivity. Qed.
