(* C19AacProofs.v — the AudioSpecificConfig of SetAACDescriptor, tied to C18's configuration codec (coq/c18, imported
   read-only): C19Model.asc_encode (aac.AudioSpecificConfig.Encode through the C13 writer machine) writes exactly the bytes of
   C18Model.encode_asc for the same configuration (C18_writer_tie_asc), hence
     - they are at most 10 bytes (the esds size fields stay one byte: entry_okb),
     - C18's DecodeAudioSpecificConfig model reads them back as the configuration SUPPLIED: object type, sampling frequency,
       channel configuration 2 (1 for HE-AAC v2), extension frequency 2f and the SBR / PS flags for the HE types
       (C18_asc_roundtrip, general in the frequency: no enumeration),
   and these bytes are the DecConfig of the DecSpecificInfo inside the TYPED esds leaf of the sample entry, which decodes
   (box model) to itself. *)
From Coq Require Import String Ascii.
From V.lib Require Import Base.
From V.c13 Require Import C13Model.
From V.c19 Require Import C19BoxCodec C19BoxModel.
From V.c19 Require Import C19Model C19Spec C19DescProofs C19TreeModel C19LeafProofs C19PrintParseProofs C19LeafPPProofs C19EsdsProofs.
From V.c18 Require C18Model C18BitsProofs C18AscProofs C18TieProofs C18EntryModel.

Definition wops_of (fs : list (N * N)) : list wop := map (fun p => WBits (fst p) (snd p)) fs.

Lemma run_fields fs : forall s, fold_left wstep_plain (wops_of fs) s = C18TieProofs.go_write_state fs s.
Proof.
  induction fs as [|[v w] fs IH]; intros s; [reflexivity|].
  cbn [wops_of map fold_left fst snd]. unfold C18TieProofs.go_write_state. cbn [fold_left]. apply IH.
Qed.

Lemma go_write_ops fs : wout (run_writer_plain (wops_of fs ++ [WFlush])) = C18TieProofs.go_write fs true.
Proof.
  unfold run_writer_plain, C18TieProofs.go_write. rewrite fold_left_app. cbn [fold_left wstep_plain]. rewrite run_fields. reflexivity.
Qed.

Lemma freq_index_c18 f : freq_index f = C18Model.index_of_freq (Z.of_N f).
Proof.
  unfold freq_index, C18Model.index_of_freq, C18Model.reverse_frequencies. cbn [C18Model.lookup_freq].
  repeat match goal with
         | |- (if ?f0 =? ?k then _ else _) = _ =>
             let E := fresh "E" in
             destruct (f0 =? k) eqn:E;
             [apply N.eqb_eq in E; subst; reflexivity
             |apply N.eqb_neq in E;
              match goal with |- _ = (if (?z =? _)%Z then _ else _) =>
                replace (z =? Z.of_N f0)%Z with false by (symmetry; apply Z.eqb_neq; lia) end; cbv iota]
         end.
  reflexivity.
Qed.

Lemma freq_ops_c18 f : f < 18446744073709551616 -> freq_ops f = wops_of (C18TieProofs.freq_fields (Z.of_N f)).
Proof.
  intros Hf. unfold freq_ops, C18TieProofs.freq_fields. rewrite freq_index_c18.
  destruct (C18Model.index_of_freq (Z.of_N f)); [reflexivity|].
  cbn [wops_of map fst snd]. unfold C18Model.uint_of_int. rewrite Z.mod_small by lia. rewrite N2Z.id. reflexivity.
Qed.

Definition asc_of (o f chan ext : N) : C18Model.asc :=
  C18Model.mkAsc o chan (Z.of_N f) (Z.of_N ext) ((o =? 5) || (o =? 29)) (o =? 29).

Lemma asc_encode_c18 o f chan ext bs :
  f < 18446744073709551616 -> ext < 18446744073709551616 ->
  asc_encode o f chan ext = Some bs -> C18Model.encode_asc (asc_of o f chan ext) = Ok bs.
Proof.
  intros Hf He. unfold asc_encode, AAClc, HEAACv1, HEAACv2.
  destruct ((o =? 2) || (o =? 5) || (o =? 29)) eqn:Eo; [|discriminate]. intros [= <-].
  assert (Hx : exists bs', C18Model.encode_asc (asc_of o f chan ext) = Ok bs').
  { unfold C18Model.encode_asc, asc_of, C18Model.AAClc, C18Model.HEAACv1, C18Model.HEAACv2. cbn [C18Model.a_ot].
    rewrite Eo. eexists. reflexivity. }
  destruct Hx as [bs' Hx]. rewrite Hx. f_equal. rewrite <- (C18TieProofs.encode_asc_tie _ _ Hx).
  rewrite <- go_write_ops. f_equal. f_equal.
  unfold C18TieProofs.asc_fields, asc_of, C18Model.HEAACv1, C18Model.HEAACv2, C18Model.AAClc.
  cbn [C18Model.a_ot C18Model.a_chan C18Model.a_freq C18Model.a_ext].
  unfold wops_of. rewrite !map_app. fold wops_of. rewrite <- !freq_ops_c18 by assumption.
  destruct ((o =? 5) || (o =? 29)).
  - rewrite map_app. fold wops_of. rewrite <- freq_ops_c18 by assumption. cbn [map fst snd app].
    repeat (progress (rewrite <- ?app_assoc; cbn [app])). reflexivity.
  - cbn [map fst snd app]. repeat (progress (rewrite <- ?app_assoc; cbn [app])). reflexivity.
Qed.

(* ------------------------------------------------------------------ at most 10 bytes *)
Lemma pack_length_n n : forall l, (length l <= n)%nat -> (8 * length (C18Model.pack l) <= length l)%nat.
Proof.
  induction n as [|n IH]; intros l Hl.
  - destruct l; [cbn; lia|cbn in Hl; lia].
  - destruct l as [|b7 [|b6 [|b5 [|b4 [|b3 [|b2 [|b1 [|b0 t]]]]]]]]; cbn [C18Model.pack length]; try lia.
    specialize (IH t). cbn [length] in Hl. assert (length t <= n)%nat by lia. specialize (IH H). lia.
Qed.

Lemma freq_field_len f : (length (C18Model.freq_field f) <= 28)%nat.
Proof.
  unfold C18Model.freq_field. destruct (C18Model.index_of_freq f); rewrite ?app_length, !C18BitsProofs.to_bits_length; lia.
Qed.

Lemma asc_len o f chan ext bs :
  f < 18446744073709551616 -> ext < 18446744073709551616 -> asc_encode o f chan ext = Some bs -> lenN bs <= 10.
Proof.
  intros Hf He H. apply asc_encode_c18 in H; try assumption.
  unfold C18Model.encode_asc in H. destruct (_ || _ || _); [|discriminate]. injection H as <-.
  set (l := C18Model.flush _).
  pose proof (pack_length_n (length l) l (Nat.le_refl _)) as Hp.
  assert (Hl : (length l <= 80)%nat).
  { subst l. unfold C18Model.flush, C18Model.pad_len. rewrite app_length, repeat_length.
    assert (Hb : (length (C18Model.asc_bits (asc_of o f chan ext)) <= 73)%nat).
    { unfold C18Model.asc_bits. pose proof (freq_field_len (C18Model.a_freq (asc_of o f chan ext))).
      pose proof (freq_field_len (C18Model.a_ext (asc_of o f chan ext))).
      destruct (_ || _); rewrite ?app_length, !C18BitsProofs.to_bits_length; lia. }
    set (n := length _) in *.
    pose proof (Nat.mod_upper_bound n 8). pose proof (Nat.mod_upper_bound (8 - n mod 8) 8).
    assert ((n + (8 - n mod 8) mod 8) mod 8 = 0)%nat.
    { pose proof (Nat.div_mod n 8). destruct (Nat.eq_dec (n mod 8) 0) as [E|E].
      - rewrite E. cbn [Nat.sub]. change (8 mod 8)%nat with 0%nat. rewrite Nat.add_0_r. exact E.
      - rewrite (Nat.mod_small (8 - n mod 8)) by lia.
        replace (n + (8 - n mod 8))%nat with ((n / 8 + 1) * 8)%nat by lia. apply Nat.mod_mul. lia. }
    pose proof (Nat.div_mod (n + (8 - n mod 8) mod 8) 8). lia. }
  unfold lenN. lia.
Qed.

(* ------------------------------------------------------------------ the configuration supplied is read back *)
Lemma set_aac_asc_of o f :
  let chan := if o =? 29 then 1 else 2 in
  let ext := if (o =? 5) || (o =? 29) then 2 * f else 0 in
  (o =? 2) || (o =? 5) || (o =? 29) = true ->
  asc_of o f chan ext = C18EntryModel.set_aac_asc o (Z.of_N f).
Proof.
  cbv zeta. intros Ho. unfold asc_of, C18EntryModel.set_aac_asc, C18Model.HEAACv1, C18Model.HEAACv2.
  destruct (o =? 5) eqn:E5.
  - apply N.eqb_eq in E5. subst o. cbn [N.eqb Pos.eqb orb]. rewrite N2Z.inj_mul. reflexivity.
  - destruct (o =? 29) eqn:E29.
    + apply N.eqb_eq in E29. subst o. cbn [N.eqb Pos.eqb orb]. rewrite N2Z.inj_mul. reflexivity.
    + cbn [orb]. reflexivity.
Qed.

Lemma aac_config_c18 t o f t' :
  f < 8388608 -> set_aac t o f = (OOk, t') ->
  let chan := if o =? 29 then 1 else 2 in
  exists asc,
    sd_entries t' = sd_entries t ++ [mkSE (BS "mp4a") 1 chan 16 (f mod 65536) (CfgEsds asc)]
    /\ lenN asc <= 10
    /\ C18Model.encode_asc (C18EntryModel.set_aac_asc o (Z.of_N f)) = Ok asc
    /\ C18Model.decode_asc asc = Ok (C18EntryModel.set_aac_asc o (Z.of_N f))
    /\ C18Model.a_ot (C18EntryModel.set_aac_asc o (Z.of_N f)) = o
    /\ C18Model.a_freq (C18EntryModel.set_aac_asc o (Z.of_N f)) = Z.of_N f
    /\ C18Model.a_chan (C18EntryModel.set_aac_asc o (Z.of_N f)) = chan.
Proof.
  intros Hf H. cbv zeta. destruct (set_aac_ok t o f t' H) as (asc & Henc & He & _).
  cbv zeta in Henc. change HEAACv2 with 29 in *. change HEAACv1 with 5 in *.
  set (chan := if o =? 29 then 1 else 2) in *. set (ext := if (o =? 5) || (o =? 29) then 2 * f else 0) in *.
  assert (Hext : ext < 18446744073709551616) by (subst ext; destruct (_ || _); lia).
  assert (Ho : (o =? 2) || (o =? 5) || (o =? 29) = true).
  { unfold asc_encode, AAClc, HEAACv1, HEAACv2 in Henc. destruct (_ || _ || _); [reflexivity|discriminate]. }
  exists asc. split; [exact He|]. split; [eapply asc_len; [| |exact Henc]; lia|].
  pose proof (asc_encode_c18 o f chan ext asc ltac:(lia) Hext Henc) as Hc.
  unfold chan, ext in Hc. rewrite (set_aac_asc_of o f Ho) in Hc. split; [exact Hc|].
  assert (Hcan : C18Model.canonical (C18EntryModel.set_aac_asc o (Z.of_N f)) = true).
  { unfold C18EntryModel.set_aac_asc, C18Model.canonical, C18Model.freq_ok, C18Model.HEAACv1, C18Model.HEAACv2, C18Model.AAClc.
    destruct (o =? 5) eqn:E5; [apply N.eqb_eq in E5; subst o; cbn [C18Model.a_ot C18Model.a_chan C18Model.a_freq C18Model.a_ext C18Model.a_sbr C18Model.a_ps N.eqb Pos.eqb orb andb negb Bool.eqb];
      repeat (apply andb_true_iff; split); try reflexivity; try (apply Z.leb_le; lia); try (apply Z.ltb_lt; lia)|].
    destruct (o =? 29) eqn:E29; [apply N.eqb_eq in E29; subst o; cbn [C18Model.a_ot C18Model.a_chan C18Model.a_freq C18Model.a_ext C18Model.a_sbr C18Model.a_ps N.eqb Pos.eqb orb andb negb Bool.eqb];
      repeat (apply andb_true_iff; split); try reflexivity; try (apply Z.leb_le; lia); try (apply Z.ltb_lt; lia)|].
    rewrite !orb_false_r in Ho. apply N.eqb_eq in Ho. subst o.
    cbn [C18Model.a_ot C18Model.a_chan C18Model.a_freq C18Model.a_ext C18Model.a_sbr C18Model.a_ps N.eqb Pos.eqb orb andb negb Bool.eqb].
    repeat (apply andb_true_iff; split); try reflexivity; try (apply Z.leb_le; lia); try (apply Z.ltb_lt; lia). }
  pose proof (C18AscProofs.asc_roundtrip _ Hcan) as Hrt. rewrite Hc in Hrt. cbn [rbind] in Hrt.
  split; [exact Hrt|].
  unfold C18EntryModel.set_aac_asc, C18Model.HEAACv1, C18Model.HEAACv2. subst chan.
  destruct (o =? 5) eqn:E5; [apply N.eqb_eq in E5; subst o; repeat split|].
  destruct (o =? 29); repeat split.
Qed.

(* the typed sample entry: mp4a{esds} with the whole descriptor tree; it prints and parses back in the box model, and the
   DecSpecificInfo of its esds leaf holds exactly the configuration bytes *)
Lemma aac_entry_typed name dri ch ss sr asc :
  name = n_mp4a -> dri < 65536 -> ch < 65536 -> ss < 65536 -> sr < 65536 -> lenN asc <= 100 ->
  let e := mkSE name dri ch ss sr (CfgEsds asc) in
  exists b, entry_box e = Some b
    /\ b = preb (LAudio name dri ch ss sr) [leafb (esds_leaf asc)]
    /\ esds_dec_config (esds_leaf asc) = Some asc
    /\ exists enc, raw_box false b = Ok enc /\ lenN enc = size_box b
         /\ forall fuel r2, (fuel_of b <= fuel)%nat -> decode_box fuel (enc ++ r2) = Ok (b, r2).
Proof.
  intros Hn Hd Hc Hs Hr Hl e. eexists. split; [reflexivity|]. split; [reflexivity|]. split; [reflexivity|].
  cbn [se_name se_dref se_a se_b se_c].
  assert (Hw : wf (preb (LAudio name dri ch ss sr) [leafb (esds_leaf asc)])).
  { subst name. eapply (wf_pre _ dec_audio (PEntry 36)); [reflexivity|reflexivity|reflexivity|apply ppp_audio; assumption|reflexivity| |].
    - destruct (esds_sizes asc) as [_ Hsz]. cbn [map sumN size_box leafb hdr8 h_size]. rewrite Hsz. cbn [size_leaf]. lia.
    - constructor; [|constructor]. destruct (esds_sizes asc) as [_ Hsz].
      eapply wf_leaf; [reflexivity|reflexivity|reflexivity|rewrite Hsz; lia|apply lpp_esds; exact Hl]. }
  destruct (pp_box _ Hw) as (enc & H1 & H2 & _ & H4). exists enc. split; [exact H1|]. split; [exact H2|exact H4].
Qed.

(* SetAACDescriptor, through the typed tree *)
Theorem aac_typed t o f t' :
  f < 8388608 -> set_aac t o f = (OOk, t') ->
  let chan := if o =? 29 then 1 else 2 in
  let cfg := C18EntryModel.set_aac_asc o (Z.of_N f) in
  exists asc e b,
    sd_entries t' = sd_entries t ++ [e] /\ e = mkSE (BS "mp4a") 1 chan 16 (f mod 65536) (CfgEsds asc)
    /\ entry_box e = Some b /\ b = preb (LAudio (BS "mp4a") 1 chan 16 (f mod 65536)) [leafb (esds_leaf asc)]
    /\ (exists enc, raw_box false b = Ok enc /\ lenN enc = size_box b
          /\ forall fuel r2, (fuel_of b <= fuel)%nat -> decode_box fuel (enc ++ r2) = Ok (b, r2))
    /\ esds_dec_config (esds_leaf asc) = Some asc
    /\ C18Model.encode_asc cfg = Ok asc /\ C18Model.decode_asc asc = Ok cfg
    /\ C18Model.a_ot cfg = o /\ C18Model.a_freq cfg = Z.of_N f /\ C18Model.a_chan cfg = chan.
Proof.
  intros Hf H chan cfg. destruct (aac_config_c18 t o f t' Hf H) as (asc & He & Hl & Henc & Hdec & H1 & H2 & H3).
  fold chan in He, H3. fold cfg in Henc, Hdec, H1, H2, H3.
  assert (Hch : chan < 65536) by (subst chan; destruct (o =? 29); lia).
  destruct (aac_entry_typed (BS "mp4a") 1 chan 16 (f mod 65536) asc eq_refl ltac:(lia) Hch ltac:(lia)
              ltac:(apply N.mod_upper_bound; lia) ltac:(lia)) as (b & Hb & Hbe & Hdc & Hpp).
  exists asc, (mkSE (BS "mp4a") 1 chan 16 (f mod 65536) (CfgEsds asc)), b.
  repeat split; try assumption.
Qed.
