(* C19ArgsProofs.v — the hypothesis args_okb of C19_roundtrip follows from hypotheses on the ARGUMENTS of the calls:
   if every AddEmptyTrack has a 32-bit timescale and a language tag that is 3 bytes long or has two or more non-NUL
   bytes, every Set{AVC,HEVC}Descriptor gets parameter-set lists that fit the record's count/length fields, and the SPS
   parsers answer in the ranges of their Go types, then the final state of ANY such history satisfies args_okb. *)
From Coq Require Import String Ascii.
From V.lib Require Import Base.
From V.c19 Require Import C19BoxCodec C19BoxModel.
From V.c19 Require Import C19Model C19Spec C19InvProofs C19RecModel C19RecLinkProofs C19TreeModel C19TreeProofs.
From V.c19 Require Import C19AacProofs.

Definition lang_okb (lang : str) : bool := Nat.eqb (length lang) 3 || ((2 <=? lenN lang) && no_nulb lang).
Definition desc_args_okb (d : desc) : bool :=
  match d with
  | DAvc _ spss ppss _ => nalus_fit 32 spss && nalus_fit 256 ppss
  | DHevc _ vpss spss ppss seis _ => nalus_fit 65536 vpss && nalus_fit 65536 spss && nalus_fit 65536 ppss && nalus_fit 65536 seis
  (* samplingFrequency is a non-negative Go int *)
  | DAac _ f => f <? 9223372036854775808
  | _ => true
  end.
Definition op_args_okb (o : op) : bool :=
  match o with
  | AddEmptyTrack ts _ lang => (ts <? 4294967296) && lang_okb lang
  | SetDesc _ d => desc_args_okb d
  end.

Lemma u16_lt x : u16 x < 65536. Proof. unfold u16. lia. Qed.
Lemma u32_lt x : u32 x < 4294967296. Proof. unfold u32. lia. Qed.

(* a trak that is fine, with room for k more sample entries *)
Definition trak_inv (k : nat) (t : trak) : Prop :=
  trak_okb t = true /\ N.of_nat (length (sd_entries t) + k) < 4294967296.

Lemma stsd_add_inv k t e : trak_inv (S k) t -> entry_okb e = true -> trak_inv k (stsd_add t e).
Proof.
  intros [Hok Hb] He. unfold trak_inv, trak_okb, stsd_add in *.
  cbn [tk_id tk_volume tk_width tk_height md_timescale md_lang hd_type el_lang sd_entries] in *.
  rewrite app_length. cbn [length]. split; [|lia].
  apply andb_true_iff in Hok. destruct Hok as [Hok HF]. apply andb_true_iff in Hok. destruct Hok as [HA HC].
  rewrite HA. cbn [andb]. rewrite forallb_app. cbn [forallb]. rewrite He, HF. cbn [andb].
  unfold lenN. rewrite app_length. cbn [length]. rewrite andb_true_r. apply N.ltb_lt. lia.
Qed.

Lemma trak_inv_weaken k t : trak_inv (S k) t -> trak_inv k t.
Proof. intros [H1 H2]. split; [exact H1|lia]. Qed.

Lemma dims_inv k t w h : w < 4294967296 -> h < 4294967296 -> trak_inv k t -> trak_inv k (set_tkhd_dims t w h).
Proof.
  intros Hw Hh [Hok Hb]. unfold trak_inv, trak_okb, set_tkhd_dims in *.
  cbn [tk_id tk_volume tk_width tk_height md_timescale md_lang hd_type el_lang sd_entries] in *. split; [|exact Hb].
  repeat (apply andb_true_iff in Hok; let K := fresh "K" in destruct Hok as [Hok K]).
  apply N.ltb_lt in Hw, Hh. rewrite Hw, Hh.
  repeat (apply andb_true_iff; split); first [assumption | reflexivity].
Qed.

Definition avc_parser_ok (p : str -> option avc_info) : Prop :=
  forall sps w h pr c l x, p sps = Some (w, h, (pr, c, l, x)) -> pr < 256 /\ c < 256 /\ l < 256.
Definition hevc_parser_ok (p : str -> option (N * N * list N)) : Prop :=
  forall sps w h cfg, p sps = Some (w, h, cfg) -> hevc_cfg_ok cfg = true /\ nth 5 cfg 0 < 256.

Lemma lt_b a b : a < b -> (a <? b) = true. Proof. intros H. apply N.ltb_lt. exact H. Qed.

Lemma name_avc name : negb (is_one_of name [BS "avc1"; BS "avc3"]) = false ->
  (bytes_eqb name n_avc1 || bytes_eqb name n_avc3) = true.
Proof.
  intros H. apply negb_false_iff in H. unfold is_one_of in H. cbn [existsb] in H. rewrite orb_false_r in H.
  apply orb_true_iff in H. destruct H as [E|E]; apply str_eqb_eq in E; subst; reflexivity.
Qed.
Lemma name_hevc name : negb (is_one_of name [BS "hvc1"; BS "hev1"]) = false ->
  (bytes_eqb name n_hvc1 || bytes_eqb name n_hev1) = true.
Proof.
  intros H. apply negb_false_iff in H. unfold is_one_of in H. cbn [existsb] in H. rewrite orb_false_r in H.
  apply orb_true_iff in H. destruct H as [E|E]; apply str_eqb_eq in E; subst; reflexivity.
Qed.

Lemma fit_split m l : nalus_fit m l = true -> lenN l < m /\ forallb nalu_ok l = true.
Proof. unfold nalus_fit. intros H. apply andb_true_iff in H. destruct H as [H1 H2]. apply N.ltb_lt in H1. tauto. Qed.

Lemma nalu_ok_16b l : forallb nalu_ok l = true -> nalus16b l = true.
Proof. intros H. exact H. Qed.

Section Args.
  Variable avc_parse : str -> option avc_info.
  Variable hevc_parse : str -> option (N * N * list N).
  Hypothesis Havc : avc_parser_ok avc_parse.
  Hypothesis Hhevc : hevc_parser_ok hevc_parse.

  Lemma set_avc_inv k t name spss ppss incl :
    trak_inv (S k) t -> nalus_fit 32 spss = true -> nalus_fit 256 ppss = true ->
    trak_inv k (snd (set_avc avc_parse t name spss ppss incl)).
  Proof using Havc.
    clear Hhevc hevc_parse. intros Ht Fs Fp. unfold set_avc.
    destruct (negb (is_one_of name [BS "avc1"; BS "avc3"])) eqn:En; [apply trak_inv_weaken; exact Ht|].
    destruct (str_eqb name (BS "avc1") && negb incl); [apply trak_inv_weaken; exact Ht|].
    destruct spss as [|sps0 rest]; [apply trak_inv_weaken; exact Ht|].
    destruct (avc_parse sps0) as [[[w h] [[[p c] l] [[cf bl] bc]]]|] eqn:Ep; [|apply trak_inv_weaken; exact Ht].
    unfold create_avcc. rewrite Ep.
    pose proof (dims_inv (S k) t (u32 (w * 65536)) (u32 (h * 65536)) (u32_lt _) (u32_lt _) Ht) as Ht1.
    destruct ((3 <? cf) || (7 <? bl) || (7 <? bc)) eqn:Efit; cbn [snd]; [apply trak_inv_weaken; exact Ht1|].
    apply stsd_add_inv; [exact Ht1|].
    destruct (Havc _ _ _ _ _ _ _ Ep) as (Hp & Hc & Hl).
    destruct (fit_split _ _ Fs) as [Fs1 Fs2]. destruct (fit_split _ _ Fp) as [Fp1 Fp2].
    apply orb_false_iff in Efit. destruct Efit as [Efit E3]. apply orb_false_iff in Efit. destruct Efit as [E1 E2].
    apply N.ltb_ge in E1, E2, E3.
    assert (G1 : nalus16b (sps0 :: rest) = true) by exact Fs2. assert (G2 : nalus16b ppss = true) by exact Fp2.
    unfold entry_okb. cbn [se_dref se_a se_b se_c se_cfg se_name].
    rewrite (name_avc name En), (lt_b _ _ (u16_lt w)), (lt_b _ _ (u16_lt h)). cbn [andb].
    destruct incl; cbn [ac_profile ac_compat ac_level ac_sps ac_pps ac_chroma ac_bdl ac_bdc];
      rewrite (lt_b _ _ Hp), (lt_b _ _ Hc), (lt_b _ _ Hl), (lt_b cf 4), (lt_b bl 8), (lt_b bc 8) by lia;
      [rewrite (lt_b _ _ Fs1), (lt_b _ _ Fp1), G1, G2; reflexivity|reflexivity].
  Qed.

  Lemma set_hevc_inv k t name vpss spss ppss seis incl :
    trak_inv (S k) t -> nalus_fit 65536 vpss = true -> nalus_fit 65536 spss = true -> nalus_fit 65536 ppss = true ->
    nalus_fit 65536 seis = true -> trak_inv k (snd (set_hevc hevc_parse t name vpss spss ppss seis incl)).
  Proof using Hhevc.
    clear Havc avc_parse. intros Ht Fv Fs Fp Fe. unfold set_hevc.
    destruct (negb (is_one_of name [BS "hvc1"; BS "hev1"])) eqn:En; [apply trak_inv_weaken; exact Ht|].
    destruct spss as [|sps0 rest]; [apply trak_inv_weaken; exact Ht|].
    destruct (hevc_parse sps0) as [[[w h] cfg]|] eqn:Ep; [|apply trak_inv_weaken; exact Ht].
    pose proof (dims_inv (S k) t (u32 (w * 65536)) (u32 (h * 65536)) (u32_lt _) (u32_lt _) Ht) as Ht1.
    destruct (str_eqb name (BS "hvc1") && negb incl); [apply trak_inv_weaken; exact Ht1|].
    unfold create_hvcc. rewrite Ep.
    destruct (Hhevc _ _ _ _ Ep) as [Hcfg Hlvl]. unfold hevc_cfg_ok in Hcfg.
    destruct cfg as [|space [|tier [|idc [|compat [|constr [|level [|chroma [|bdl [|bdc [|? ?]]]]]]]]]]; try discriminate.
    cbn [nth] in Hlvl.
    repeat (apply andb_true_iff in Hcfg; let K := fresh "K" in destruct Hcfg as [Hcfg K]).
    destruct (fit_split _ _ Fv) as [Fv1 Fv2]. destruct (fit_split _ _ Fs) as [Fs1 Fs2].
    destruct (fit_split _ _ Fp) as [Fp1 Fp2]. destruct (fit_split _ _ Fe) as [Fe1 Fe2].
    assert (AO : forall ct l, lenN l < 65536 -> forallb nalu_ok l = true -> array_ok (ct, l) = true).
    { intros ct l L1 L2. unfold array_ok. cbn [snd]. rewrite (lt_b _ _ L1), L2. reflexivity. }
    assert (Hent : forall arrays, forallb array_ok arrays = true -> lenN arrays < 256 ->
                   forallb (fun a => fst a <? 256) arrays = true ->
                   entry_okb (mkSE name 1 (u16 w) (u16 h) 0
                     (CfgHvcC (mkHvcC [space; tier; idc; compat; constr; level; chroma; bdl; bdc] arrays))) = true).
    { intros arrays A1 A2 A3. unfold entry_okb. cbn [se_dref se_a se_b se_c se_cfg se_name].
      rewrite (name_hevc name En), (lt_b _ _ (u16_lt w)), (lt_b _ _ (u16_lt h)). cbn [andb].
      unfold hvcrec_of. cbn [hc_cfg hc_arrays]. unfold hvcrec_ok.
      cbn [hr_version hr_space hr_tier hr_pidc hr_compat hr_constraint hr_level hr_minspat hr_par hr_chroma hr_bdl hr_bdc
           hr_avgfr hr_cfr hr_ntl hr_tin hr_lsm1 hr_arrays].
      rewrite Hcfg, K4, K3, K2, K1, K0, K, A1, A3, (lt_b _ _ A2), (lt_b _ _ Hlvl). reflexivity. }
    cbn [snd]. destruct seis as [|s0 sr]; (apply stsd_add_inv; [exact Ht1|]); apply Hent;
      unfold nalu_array; destruct incl; destruct (str_eqb name (BS "hvc1"));
      cbn [hc_arrays hc_cfg app forallb fst lenN length N.of_nat]; rewrite ?AO by assumption; try reflexivity; try (vm_compute; reflexivity).
  Qed.

  Lemma entry_simple name a b c cfg :
    a < 65536 -> b < 65536 -> c < 65536 ->
    match cfg with
    | CfgEsds asc => bytes_eqb name n_mp4a = true /\ lenN asc <= 100
    | CfgDac3 _ => bytes_eqb name n_ac3 = true
    | CfgDec3 _ => bytes_eqb name n_ec3 = true
    | CfgVttC _ | CfgStpp _ _ _ => True
    | _ => False
    end -> entry_okb (mkSE name 1 a b c cfg) = true.
  Proof.
    intros Ha Hb Hc H. unfold entry_okb. cbn [se_dref se_a se_b se_c se_cfg se_name].
    rewrite (lt_b _ _ Ha), (lt_b _ _ Hb), (lt_b _ _ Hc). cbn [andb].
    destruct cfg; try contradiction; try exact H; try reflexivity.
    destruct H as [H1 H2]. rewrite H1. apply N.leb_le. exact H2.
  Qed.

  Lemma set_desc_inv k t d : trak_inv (S k) t -> desc_args_okb d = true -> trak_inv k (snd (set_desc avc_parse hevc_parse t d)).
  Proof using Havc Hhevc.
    intros Ht Hd. destruct d as [name spss ppss incl|name vpss spss ppss seis incl|o f|d|d|c|a b c]; cbn [set_desc desc_args_okb] in *.
    - apply andb_true_iff in Hd. destruct Hd. apply set_avc_inv; assumption.
    - apply andb_true_iff in Hd. destruct Hd as [Hd K1]. apply andb_true_iff in Hd. destruct Hd as [Hd K2].
      apply andb_true_iff in Hd. destruct Hd as [Hd K3]. apply set_hevc_inv; assumption.
    - apply N.ltb_lt in Hd. unfold set_aac. destruct (asc_encode _ _ _ _) as [asc|] eqn:Ea; cbn [snd]; [|apply trak_inv_weaken; exact Ht].
      apply stsd_add_inv; [exact Ht|]. apply entry_simple; try apply u16_lt; try (destruct (o =? HEAACv2); lia).
      split; [reflexivity|]. apply asc_len in Ea; [lia|lia|]. destruct (_ || _); lia.
    - unfold set_ac3. destruct d as [fscod bsid bsmod acmod lfeon brc].
      destruct (acmod_channels acmod); cbn [snd]; [|apply trak_inv_weaken; exact Ht].
      destruct (ac3_rate fscod); cbn [snd]; [|apply trak_inv_weaken; exact Ht].
      apply stsd_add_inv; [exact Ht|]. apply entry_simple; try apply u16_lt; try reflexivity; lia.
    - unfold set_ec3. destruct d as [dr subs]. destruct subs as [|[fscod bsid asvc bsmod acmod lfeon nds cl] subs]; cbn [snd]; [apply trak_inv_weaken; exact Ht|].
      destruct (acmod_channels acmod); cbn [snd]; [|apply trak_inv_weaken; exact Ht].
      destruct (ac3_rate fscod); cbn [snd]; [|apply trak_inv_weaken; exact Ht].
      apply stsd_add_inv; [exact Ht|]. apply entry_simple; try apply u16_lt; try reflexivity; lia.
    - unfold set_wvtt. cbn [snd]. apply stsd_add_inv; [exact Ht|]. apply entry_simple; try exact I; lia.
    - unfold set_stpp. cbn [snd]. apply stsd_add_inv; [exact Ht|]. apply entry_simple; try exact I; lia.
  Qed.
End Args.

(* ------------------------------------------------------------------ AddEmptyTrack *)
Lemma set_language_lt lang : forall i l r, l < 65536 -> set_language_from i lang l = Some r -> r < 65536.
Proof.
  induction lang as [|c lang IH]; intros i l r Hl H; cbn [set_language_from] in H.
  - injection H as <-. exact Hl.
  - destruct (Nat.leb i 2); [|discriminate]. eapply IH; [|exact H]. apply u16_lt.
Qed.

Lemma hdlr_type_len m ht hn : create_hdlr m = Some (ht, hn) -> lenN ht = 4.
Proof.
  unfold create_hdlr.
  repeat match goal with |- context [if ?c then _ else _] => destruct c eqn:? end; intros H; try discriminate;
    injection H as <- <-; try reflexivity.
  unfold lenN. match goal with h : Nat.eqb (length m) 4 = true |- _ => apply Nat.eqb_eq in h; rewrite h end. reflexivity.
Qed.

Lemma new_trak_ok id ts m lang t :
  create_empty_trak id ts m lang = Some t -> id < 4294967296 -> ts < 4294967296 -> lang_okb lang = true ->
  trak_okb t = true /\ sd_entries t = [].
Proof.
  unfold create_empty_trak. intros H Hid Hts Hl.
  destruct (create_hdlr m) as [[ht hn]|] eqn:Eh; [|discriminate].
  pose proof (hdlr_type_len _ _ _ Eh) as Hht.
  destruct (Nat.eqb (length lang) 3) eqn:E3; cbn [fst snd] in H.
  - destruct (set_language lang) as [l|] eqn:El; [|discriminate]. injection H as <-.
    pose proof (set_language_lt lang 0 0 l ltac:(lia) El) as Hlt.
    split; [|reflexivity]. unfold trak_okb. cbn [tk_id tk_volume tk_width tk_height md_timescale md_lang hd_type el_lang sd_entries].
    rewrite (lt_b _ _ Hid), (lt_b _ _ Hts), (lt_b _ _ Hlt). apply N.eqb_eq in Hht. rewrite Hht.
    destruct (str_eqb m (BS "audio")); reflexivity.
  - destruct (set_language (BS "und")) as [l|] eqn:El; [|discriminate]. injection H as <-.
    pose proof (set_language_lt (BS "und") 0 0 l ltac:(lia) El) as Hlt.
    split; [|reflexivity]. unfold trak_okb. cbn [tk_id tk_volume tk_width tk_height md_timescale md_lang hd_type el_lang sd_entries].
    rewrite (lt_b _ _ Hid), (lt_b _ _ Hts), (lt_b _ _ Hlt). apply N.eqb_eq in Hht. rewrite Hht.
    unfold lang_okb in Hl. rewrite E3 in Hl. cbn [orb] in Hl. rewrite Hl.
    destruct (str_eqb m (BS "audio")); reflexivity.
Qed.

(* ------------------------------------------------------------------ states *)
Definition sinv (k : nat) (s : st) : Prop :=
  next_id s < 4294967296 /\ Forall (fun id => id < 4294967296) (trexs s) /\ Forall (trak_inv k) (traks s).

Lemma sinv_weaken k s : sinv (S k) s -> sinv k s.
Proof.
  intros (H1 & H2 & H3). repeat split; try assumption. eapply Forall_impl; [|exact H3]. intros t. apply trak_inv_weaken.
Qed.
Lemma sinv_to0 k s : sinv k s -> sinv 0 s.
Proof. induction k as [|k IH]; [auto|]. intros H. apply IH. apply sinv_weaken. exact H. Qed.

Lemma sinv_args s : sinv 0 s -> args_okb s = true.
Proof.
  intros (H1 & H2 & H3). unfold args_okb. rewrite (lt_b _ _ H1). cbn [andb]. apply andb_true_iff. split.
  - apply forallb_forall. intros id Hin. apply lt_b. exact (proj1 (Forall_forall _ _) H2 id Hin).
  - apply forallb_forall. intros t Hin. exact (proj1 (proj1 (Forall_forall _ _) H3 t Hin)).
Qed.

Lemma Forall_replace_nth {A} (P : A -> Prop) k x l : Forall P l -> P x -> Forall P (replace_nth k x l).
Proof.
  revert k. induction l as [|y l IH]; intros k Hl Hx; [destruct k; exact Hl|].
  inversion Hl; subst. destruct k as [|k]; cbn [replace_nth].
  - constructor; assumption.
  - constructor; [assumption|]. apply IH; assumption.
Qed.

Section Run.
  Variable avc_parse : str -> option avc_info.
  Variable hevc_parse : str -> option (N * N * list N).
  Hypothesis Havc : avc_parser_ok avc_parse.
  Hypothesis Hhevc : hevc_parser_ok hevc_parse.

  Lemma step_sinv k s o : N.of_nat (S k) < 4294967296 -> sinv (S k) s -> op_args_okb o = true ->
    sinv k (snd (step avc_parse hevc_parse s o)).
  Proof using Havc Hhevc.
    intros Hk Hs Ho. destruct o as [ts m lang|i d]; cbn [step op_args_okb] in *.
    - apply andb_true_iff in Ho. destruct Ho as [Hts Hl]. apply N.ltb_lt in Hts.
      destruct Hs as (H1 & H2 & H3). unfold add_empty_track.
      destruct (create_empty_trak (u32 (N.of_nat (length (traks s)) + 1)) ts m lang) as [t|] eqn:Et; cbn [snd].
      + destruct (new_trak_ok _ _ _ _ _ Et (u32_lt _) Hts Hl) as [Tok Tent].
        assert (Hn : sinv k (mkSt (children (moov_add_trak (mkSt (children s) (traks s) (trexs s) (u32 (u32 (N.of_nat (length (traks s)) + 1) + 1))) t))
                                 (traks s ++ [t]) (trexs s ++ [u32 (N.of_nat (length (traks s)) + 1)])
                                 (u32 (u32 (N.of_nat (length (traks s)) + 1) + 1)))).
        { repeat split; cbn [next_id trexs traks].
          - apply u32_lt.
          - apply Forall_app. split; [exact H2|]. constructor; [apply u32_lt|constructor].
          - apply Forall_app. split; [eapply Forall_impl; [|exact H3]; intros x; apply trak_inv_weaken|].
            constructor; [|constructor]. split; [exact Tok|]. rewrite Tent. cbn [length]. lia. }
        unfold moov_add_trak in *. cbn [children traks trexs next_id] in *.
        destruct (negb (Nat.eqb (last_trak_idx (children s)) 0) && negb (Nat.eqb (last_trak_idx (children s)) (length (children s) - 1)));
          cbn [children traks trexs next_id] in *; destruct Hn as (N1 & N2 & N3); repeat split; assumption.
      + repeat split; cbn [next_id trexs traks]; [apply u32_lt|exact H2|].
        eapply Forall_impl; [|exact H3]. intros x. apply trak_inv_weaken.
    - destruct (nth_error (traks s) i) as [t|] eqn:Et; cbn [snd]; [|apply sinv_weaken; exact Hs].
      destruct Hs as (H1 & H2 & H3).
      assert (Ht : trak_inv (S k) t) by (exact (proj1 (Forall_forall _ _) H3 t (nth_error_In _ _ Et))).
      pose proof (set_desc_inv avc_parse hevc_parse Havc Hhevc k t d Ht Ho) as Ht'.
      destruct (set_desc avc_parse hevc_parse t d) as [oc t']. cbn [snd] in *.
      repeat split; cbn [next_id trexs traks]; try assumption.
      apply Forall_replace_nth; [|exact Ht']. eapply Forall_impl; [|exact H3]. intros x. apply trak_inv_weaken.
  Qed.

  Lemma run_from_sinv ops : forall s, N.of_nat (length ops) < 4294967296 -> sinv (length ops) s ->
    forallb op_args_okb ops = true -> sinv 0 (snd (run_from avc_parse hevc_parse s ops)).
  Proof using Havc Hhevc.
    induction ops as [|o ops IH]; intros s Hb Hs Hok; cbn [run_from snd]; [exact Hs|].
    cbn [forallb] in Hok. apply andb_true_iff in Hok. destruct Hok as [Ho Hok]. cbn [length] in Hb, Hs.
    pose proof (step_sinv (length ops) s o Hb Hs Ho) as Hst.
    destruct (step avc_parse hevc_parse s o) as [oc s']. cbn [snd] in Hst.
    destruct oc.
    - specialize (IH s' ltac:(lia) Hst Hok). destruct (run_from avc_parse hevc_parse s' ops). exact IH.
    - specialize (IH s' ltac:(lia) Hst Hok). destruct (run_from avc_parse hevc_parse s' ops). exact IH.
    - cbn [snd]. eapply sinv_to0. exact Hst.
  Qed.

  Theorem args_ok_run ops :
    N.of_nat (length ops) < 4294967295 -> forallb op_args_okb ops = true ->
    args_okb (snd (run avc_parse hevc_parse ops)) = true.
  Proof using Havc Hhevc.
    intros Hb Hok. apply sinv_args. unfold run. apply run_from_sinv; [lia| |exact Hok].
    unfold sinv, empty_init. cbn [next_id trexs traks]. repeat split; try constructor.
  Qed.
End Run.

(* C19_roundtrip with hypotheses on the arguments only *)
From V.c19 Require Import C19RoundtripProofs.
Theorem roundtrip_inputs (avc_parse : str -> option avc_info) (hevc_parse : str -> option (N * N * list N)) ops :
  avc_parser_ok avc_parse -> hevc_parser_ok hevc_parse ->
  N.of_nat (length ops) < 4294967295 -> forallb op_args_okb ops = true ->
  let s := snd (run avc_parse hevc_parse ops) in
  forall ts, tree_of s = Some ts -> forallb enc_fits ts = true ->
  exists bs, encode_seq false ts = Ok bs /\ decode_file bs = Ok ts
    /\ (traks s <> [] -> is_fragmented_init ts = true)
    /\ (forall t, In t (traks s) -> has_trex ts (tk_id t) = true).
Proof.
  intros Ha Hh Hb Hok s ts Ht Hf.
  exact (roundtrip_all avc_parse hevc_parse ops Hb (args_ok_run avc_parse hevc_parse Ha Hh ops Hb Hok) ts Ht Hf).
Qed.
