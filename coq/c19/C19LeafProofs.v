(* C19LeafProofs.v — print-then-parse, for ALL in-range values, of the boxes of an init segment whose fields carry
   the arguments of the API calls: mvhd (next track id), trex (track id), tkhd (track id, volume, width, height),
   mdhd (timescale, language), stsd (entry count), Visual/AudioSampleEntry prefixes (name, data reference index,
   width/height or channels/sample size/sample rate).  Decoders and encoders are those of C01's box model
   (dec_* / body_leaf with the encoder's reserved bytes dflt_rsv), imported read-only.
   The remaining boxes of an init segment are constants of the constructors (their round trip is part of the
   small-scope theorem) or have their own round-trip theorems (elng, stpp, avcC/hvcC records). *)
From V.lib Require Import Base.
From V.c19 Require Import C19BoxCodec C19BoxModel.

Lemma rd_be n v r : v < 256 ^ N.of_nat n -> rd n (be_enc n v ++ r) = Ok (v, r).
Proof.
  intros H. unfold rd. replace (take n (be_enc n v ++ r)) with (take (length (be_enc n v)) (be_enc n v ++ r))
    by (now rewrite length_be_enc).
  rewrite take_app, be_dec_enc_small by exact H. reflexivity.
Qed.
Lemma rd1 v r : v < 256 -> rd 1 (be_enc 1 v ++ r) = Ok (v, r).
Proof. intros. apply rd_be. exact H. Qed.
Lemma rd2 v r : v < 65536 -> rd 2 (be_enc 2 v ++ r) = Ok (v, r).
Proof. intros. apply rd_be. exact H. Qed.
Lemma rd4 v r : v < 4294967296 -> rd 4 (be_enc 4 v ++ r) = Ok (v, r).
Proof. intros. apply rd_be. exact H. Qed.

Lemma rdB_app k x r : lenN x = k -> rdB k (x ++ r) = Ok (x, r).
Proof.
  intros <-. unfold rdB. rewrite lenN_app.
  replace (lenN x + lenN r <? lenN x) with false by (symmetry; apply N.ltb_ge; lia).
  unfold lenN. rewrite Nat2N.id, take_app. reflexivity.
Qed.

(* version 0, flags < 2^24: the version/flags word reads back *)
Lemma vf0 f : f < 16777216 -> vf_join 0 f = f /\ vf_version f = 0 /\ vf_flags f = f.
Proof. intros H. unfold vf_join, vf_version, vf_flags, u32. repeat split; lia. Qed.

Ltac getb Hb :=
  match type of Hb with Ok ?x = Ok ?b => let E := fresh in assert (E : b = x) by congruence; subst b; clear Hb end.

Ltac pp :=
  repeat first
    [ rewrite rd4 by lia | rewrite rd2 by lia | rewrite rd1 by lia
    | rewrite rdB_app by (first [assumption | reflexivity]) ].

(* the reserved chunks are kept opaque while the parser is replayed *)
Ltac hide_chunks :=
  repeat match goal with
         | |- context [zeros ?n] =>
             let z := fresh "z" in let E := fresh "E" in let L := fresh "L" in
             remember (zeros n) as z eqn:E;
             assert (L : lenN z = N.of_nat n) by (rewrite E; apply lenN_zeros);
             cbn [N.of_nat Pos.of_succ_nat Pos.succ] in L
         | |- context [unity_matrix] =>
             let z := fresh "m" in let E := fresh "E" in let L := fresh "L" in
             remember unity_matrix as z eqn:E;
             assert (L : lenN z = 36) by (rewrite E; reflexivity)
         end.

Lemma pp_trex f tid dsdi dur sz sf r2 :
  f < 16777216 -> tid < 4294967296 -> dsdi < 4294967296 -> dur < 4294967296 -> sz < 4294967296 -> sf < 4294967296 ->
  forall h b, body_leaf (LTrex 0 f tid dsdi dur sz sf) (dflt_rsv (LTrex 0 f tid dsdi dur sz sf)) = Ok b ->
    dec_trex h (b ++ r2) = Ok ((LTrex 0 f tid dsdi dur sz sf, dflt_rsv (LTrex 0 f tid dsdi dur sz sf)), r2).
Proof.
  intros Hf H1 H2 H3 H4 H5 h b Hb. cbn [body_leaf dflt_rsv] in *. getb Hb.
  destruct (vf0 f Hf) as (J & V & F). rewrite J. rewrite <- !app_assoc.
  unfold dec_trex, pbind, pret. pp. rewrite V, F. reflexivity.
Qed.

Lemma pp_mvhd f ts du rate vol nt r2 :
  f < 16777216 -> ts < 4294967296 -> du < 4294967296 -> rate < 4294967296 -> vol < 65536 -> nt < 4294967296 ->
  forall h b, body_leaf (LMvhd 0 f 0 0 ts du rate vol nt) (dflt_rsv (LMvhd 0 f 0 0 ts du rate vol nt)) = Ok b ->
    dec_mvhd h (b ++ r2) = Ok ((LMvhd 0 f 0 0 ts du rate vol nt, dflt_rsv (LMvhd 0 f 0 0 ts du rate vol nt)), r2).
Proof.
  intros Hf H1 H2 H3 H4 H5 h b Hb. cbn [body_leaf dflt_rsv N.eqb chunk nth] in *. getb Hb.
  hide_chunks. destruct (vf0 f Hf) as (J & V & F). rewrite J. rewrite <- !app_assoc.
  unfold dec_mvhd, pbind, pret. rewrite rd4 by lia. rewrite V. cbn [N.eqb]. pp. rewrite F. reflexivity.
Qed.

Lemma pp_tkhd f tid du layer ag vol wd ht r2 :
  f < 16777216 -> tid < 4294967296 -> du < 4294967296 -> layer < 65536 -> ag < 65536 -> vol < 65536 ->
  wd < 4294967296 -> ht < 4294967296 ->
  forall h b, body_leaf (LTkhd 0 f 0 0 tid du layer ag vol wd ht) (dflt_rsv (LTkhd 0 f 0 0 tid du layer ag vol wd ht)) = Ok b ->
    dec_tkhd h (b ++ r2) = Ok ((LTkhd 0 f 0 0 tid du layer ag vol wd ht, dflt_rsv (LTkhd 0 f 0 0 tid du layer ag vol wd ht)), r2).
Proof.
  intros Hf H1 H2 H3 H4 H5 H6 H7 h b Hb. cbn [body_leaf dflt_rsv N.eqb chunk nth] in *. getb Hb.
  hide_chunks. destruct (vf0 f Hf) as (J & V & F). rewrite J. rewrite <- !app_assoc.
  unfold dec_tkhd, pbind, pret. rewrite rd4 by lia. rewrite V. cbn [N.eqb]. pp. rewrite F. reflexivity.
Qed.

Lemma pp_mdhd f ts du lang r2 :
  f < 16777216 -> ts < 4294967296 -> du < 4294967296 -> lang < 65536 ->
  forall h b, body_leaf (LMdhd 0 f 0 0 ts du lang) (dflt_rsv (LMdhd 0 f 0 0 ts du lang)) = Ok b ->
    dec_mdhd h (b ++ r2) = Ok ((LMdhd 0 f 0 0 ts du lang, dflt_rsv (LMdhd 0 f 0 0 ts du lang)), r2).
Proof.
  intros Hf H1 H2 H3 h b Hb. cbn [body_leaf dflt_rsv N.eqb chunk nth] in *. getb Hb.
  hide_chunks. destruct (vf0 f Hf) as (J & V & F). rewrite J. rewrite <- !app_assoc.
  unfold dec_mdhd, pbind, pret, pfail. rewrite rd4 by lia. rewrite V. cbn [N.eqb N.ltb N.compare]. pp. rewrite F. reflexivity.
Qed.

Lemma pp_stsd f cnt r2 :
  f < 16777216 -> cnt < 4294967296 ->
  forall h b, body_leaf (LStsd 0 f cnt) (dflt_rsv (LStsd 0 f cnt)) = Ok b ->
    dec_stsd h (b ++ r2) = Ok ((LStsd 0 f cnt, dflt_rsv (LStsd 0 f cnt)), r2).
Proof.
  intros Hf H1 h b Hb. cbn [body_leaf dflt_rsv] in *. getb Hb.
  destruct (vf0 f Hf) as (J & V & F). rewrite J. rewrite <- !app_assoc.
  unfold dec_stsd, pbind, pret. pp. rewrite V, F. reflexivity.
Qed.

Lemma pp_audio name dri ch ss sr r2 :
  dri < 65536 -> ch < 65536 -> ss < 65536 -> sr < 65536 ->
  forall sz b, body_leaf (LAudio name dri ch ss sr) (dflt_rsv (LAudio name dri ch ss sr)) = Ok b ->
    dec_audio (mkHdr name sz 8) (b ++ r2) = Ok ((LAudio name dri ch ss sr, dflt_rsv (LAudio name dri ch ss sr)), r2).
Proof.
  intros H1 H2 H3 H4 sz b Hb. cbn [body_leaf dflt_rsv chunk nth] in *. getb Hb. hide_chunks. rewrite <- !app_assoc.
  unfold dec_audio, pbind, pret. pp. reflexivity.
Qed.

(* compressor names of at most 31 bytes (CreateVisualSampleEntryBox: "mp4ff video packager", 20 bytes) *)
Lemma pp_visual name dri w ht hres vres fc cn r2 :
  dri < 65536 -> w < 65536 -> ht < 65536 -> hres < 4294967296 -> vres < 4294967296 -> fc < 65536 -> lenN cn <= 31 ->
  forall sz b, body_leaf (LVisual name dri w ht hres vres fc cn) (dflt_rsv (LVisual name dri w ht hres vres fc cn)) = Ok b ->
    dec_visual (mkHdr name sz 8) (b ++ r2)
    = Ok ((LVisual name dri w ht hres vres fc cn, dflt_rsv (LVisual name dri w ht hres vres fc cn)), r2).
Proof.
  intros H1 H2 H3 H4 H5 H6 H7 sz b Hb. cbn [body_leaf dflt_rsv chunk nth] in *. getb Hb. rewrite <- !app_assoc.
  assert (Hp : vis_pad (lenN cn) = 31 - lenN cn) by (unfold vis_pad, u8; lia).
  unfold dec_visual, pbind, pret, pfail. pp.
  replace (31 <? lenN cn) with false by (symmetry; apply N.ltb_ge; lia).
  rewrite (rdB_app (lenN cn) cn) by reflexivity.
  rewrite (rdB_app (31 - lenN cn)) by (rewrite lenN_zeros, Hp; lia).
  pp. cbn [h_name]. reflexivity.
Qed.
