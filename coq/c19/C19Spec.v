(* C19Spec.v — what an init segment built through the API must look like, written independently of
   the model's control flow: tables and closed formulas. *)
From Coq Require Import String Ascii.
From V.lib Require Import Base.
From V.c19 Require Import C19Model.

(* ---- media type table: name -> (handler type, media header box) (ISO/IEC 14496-12 8.4.3, 12.x; 14496-30) *)
Definition spec_table : list (str * (str * mhdr)) :=
  [ (BS "video",     (BS "vide", Vmhd));
    (BS "audio",     (BS "soun", Smhd));
    (BS "subtitle",  (BS "subt", Sthd));
    (BS "subtitles", (BS "subt", Sthd));
    (BS "stpp",      (BS "subt", Sthd));
    (BS "text",      (BS "text", Nmhd));
    (BS "wvtt",      (BS "text", Nmhd)) ].

Fixpoint spec_lookup (m : str) (tab : list (str * (str * mhdr))) : option (str * mhdr) :=
  match tab with
  | [] => None
  | (k, v) :: rest => if str_eqb m k then Some v else spec_lookup m rest
  end.

Definition media_supported (m : str) : bool :=
  match spec_lookup m spec_table with Some _ => true | None => false end.

(* ---- language rule: ISO-639-2/T packed 3x5 bits in mdhd; anything else: mdhd "und" + elng verbatim *)
Definition pack3 (a b c : N) : N := (a mod 32) * 1024 + (b mod 32) * 32 + (c mod 32).
Definition und_packed : N := 21956.    (* 0x55c4 = "und" *)

Definition spec_mdhd_lang (lang : str) : N :=
  match lang with
  | [a; b; c] => pack3 a b c
  | _ => und_packed
  end.
Definition spec_elng (lang : str) : option str :=
  match lang with
  | [_; _; _] => None
  | _ => Some lang
  end.

Definition lower (c : N) : bool := (97 <=? c) && (c <=? 122).

(* ---- the part of a trak that AddEmptyTrack determines and no later call may change *)
Definition core (t : trak) : N * N * N * N * str * option str * mhdr :=
  (tk_id t, tk_volume t, md_timescale t, md_lang t, hd_type t, el_lang t, mi_hdr t).

(* expected core of the i-th (0-based) added track *)
Definition spec_core (i : nat) (ts : N) (m lang : str) : option (N * N * N * N * str * option str * mhdr) :=
  match spec_lookup m spec_table with
  | None => None
  | Some (h, mh) =>
      Some (N.of_nat (S i), (if str_eqb m (BS "audio") then 256 else 0), ts, spec_mdhd_lang lang, h, spec_elng lang, mh)
  end.

  (* the AddEmptyTrack calls of a history, in order *)
  Fixpoint adds_of (ops : list op) : list (N * str * str) :=
    match ops with
    | [] => []
    | AddEmptyTrack ts m lang :: r => (ts, m, lang) :: adds_of r
    | SetDesc _ _ :: r => adds_of r
    end.

  Fixpoint spec_cores (i : nat) (adds : list (N * str * str)) :=
    match adds with
    | [] => []
    | (ts, m, lang) :: r => spec_core i ts m lang :: spec_cores (S i) r
    end.

  (* ---- arguments in the scope of the property *)
  Definition desc_valid (d : desc) : bool :=
    match d with
    | DAvc _ spss _ _ => negb (Nat.eqb (length spss) 0)
    | DHevc _ _ spss _ _ _ => negb (Nat.eqb (length spss) 0)
    | DAac _ _ => true
    | DAc3 (mkDac3 fscod _ _ acmod _ _) => (fscod <? 3) && (acmod <? 8)
    | DEc3 (mkDec3 _ subs) =>
        match subs with
        | [] => false
        | mkEc3Sub fscod _ _ _ acmod _ _ _ :: _ => (fscod <? 3) && (acmod <? 8)
        end
    | DWvtt _ => true
    | DStpp _ _ _ => true
    end.

  (* ntr = number of tracks added so far *)
  Fixpoint ops_valid (ntr : nat) (ops : list op) : bool :=
    match ops with
    | [] => true
    | AddEmptyTrack _ m _ :: r => media_supported m && ops_valid (S ntr) r
    | SetDesc k d :: r => Nat.ltb k ntr && desc_valid d && ops_valid ntr r
    end.

Definition ids_upto (n : nat) : list N := map (fun i => N.of_nat (S i)) (seq 0 n).

Definition base_children : list mchild := [MCmvhd; MCmvex].

(* structure: traks contiguous after mvhd, mvex in Traks order; ids 1..n in order; one trex per track, same ids *)
Definition inv_struct (s : st) : Prop :=
  let n := length (traks s) in
  children s = base_children ++ map MCtrak (seq 0 n)
  /\ map tk_id (traks s) = ids_upto n
  /\ trexs s = ids_upto n.

Definition next_above (s : st) : Prop := Forall (fun t => tk_id t < next_id s) (traks s).

Definition next_exact (s : st) : Prop :=
  next_id s = if Nat.eqb (length (traks s)) 0 then 2 else N.of_nat (length (traks s)) + 1.
