(* C19RecProofs.v — lemmas about the decoder configuration record codecs of C19RecModel.v:
   Size() = number of bytes written (all records), decode (encode r) = canonical r (all in-range records). *)
From V.lib Require Import Base.
From V.c19 Require Import C19Model C19RecModel.

(* ------------------------------------------------------------------ small arithmetic *)
Lemma in_range (n : nat) (x : N) : x < N.of_nat n -> In x (map N.of_nat (seq 0 n)).
Proof.
  intros H. apply in_map_iff. exists (N.to_nat x). split; [apply N2Nat.id|]. apply in_seq. lia.
Qed.

Lemma be16_val x : x < 65536 -> (u16 x / 256) * 256 + x mod 256 = x.
Proof. unfold u16. intros H. lia. Qed.

Lemma be16_len x : length (be16 x) = 2%nat.
Proof. reflexivity. Qed.

Lemma land3 c : c < 4 -> N.land (N.lor 252 c) 3 = c.
Proof.
  intros H. assert (E : In c (map N.of_nat (seq 0 4))) by (apply in_range; lia).
  cbn in E. intuition; subst; reflexivity.
Qed.

Lemma land7 c : c < 8 -> N.land (N.lor 248 c) 7 = c.
Proof.
  intros H. assert (E : In c (map N.of_nat (seq 0 8))) by (apply in_range; lia).
  cbn in E. intuition; subst; reflexivity.
Qed.

Lemma count5 n : n < 32 -> N.land (N.lor (n mod 256) 224) 31 = n.
Proof.
  intros H. assert (E : In n (map N.of_nat (seq 0 32))) by (apply in_range; lia).
  cbn in E. intuition; subst; reflexivity.
Qed.

(* ------------------------------------------------------------------ length-prefixed NAL units *)

Lemma rd_nalus_wr l : forall rest,
  forallb nalu_ok l = true -> rd_nalus (length l) (flat_map wr_nalu l ++ rest) = Some (l, rest).
Proof.
  induction l as [|a l IH]; intros rest H; [reflexivity|].
  cbn [forallb] in H. apply andb_true_iff in H. destruct H as [Ha Hl].
  unfold nalu_ok in Ha. apply N.ltb_lt in Ha.
  cbn [length flat_map rd_nalus]. unfold wr_nalu at 1. unfold be16. cbn [app].
  rewrite be16_val by exact Ha. unfold lenN. rewrite Nat2N.id.
  rewrite <- !app_assoc.
  assert (E1 : Nat.ltb (length (a ++ flat_map wr_nalu l ++ rest)) (length a) = false).
  { apply Nat.ltb_ge. rewrite app_length. lia. }
  rewrite E1.
  rewrite skipn_app, skipn_all, Nat.sub_diag. cbn [skipn app].
  rewrite firstn_app, firstn_all, Nat.sub_diag. cbn [firstn]. rewrite app_nil_r.
  rewrite IH by exact Hl. reflexivity.
Qed.

Lemma wr_nalus_len l : lenN (flat_map wr_nalu l) = nalus_size l.
Proof.
  unfold nalus_size. induction l as [|a l IH]; [reflexivity|].
  cbn [flat_map map sumN]. rewrite lenN_app, IH. unfold wr_nalu. rewrite lenN_app. unfold lenN at 1. cbn [be16 length]. lia.
Qed.

(* ------------------------------------------------------------------ avc.DecConfRec *)

(* Size() is the number of bytes EncodeSW writes: for EVERY record *)
Lemma avcrec_size_ok r : lenN (avcrec_encode r) = avcrec_size r.
Proof.
  unfold avcrec_encode, avcrec_size, avc_has_trailing.
  rewrite !lenN_app, !wr_nalus_len.
  destruct (avc_plain (ar_profile r)); cbn [negb andb]; [unfold lenN; cbn [length]; lia|].
  destruct (ar_notrail r); cbn [negb]; unfold lenN; cbn [length]; lia.
Qed.

Ltac split_ok H :=
  repeat (apply andb_true_iff in H; let H' := fresh "K" in destruct H as [H H']);
  repeat match goal with h : (_ <? _) = true |- _ => apply N.ltb_lt in h end;
  repeat match goal with h : (_ =? _) = true |- _ => apply N.eqb_eq in h end.

Lemma avcrec_roundtrip r : avcrec_ok r = true -> avcrec_decode (avcrec_encode r) = Ok (avcrec_canon r).
Proof.
  unfold avcrec_ok. intros H.
  destruct r as [p c l sps pps cf bl bc ne nt]. cbn [ar_profile ar_compat ar_level ar_sps ar_pps ar_chroma ar_bdl ar_bdc ar_nspsext ar_notrail] in *.
  split_ok H. subst ne.
  unfold avcrec_encode, avcrec_decode, avcrec_canon.
  cbn [ar_profile ar_compat ar_level ar_sps ar_pps ar_chroma ar_bdl ar_bdc ar_nspsext ar_notrail app].
  change (1 =? 1) with true. change (N.land 255 3 =? 3) with true. cbn [negb].
  rewrite count5 by assumption. unfold lenN at 1. rewrite Nat2N.id.
  rewrite rd_nalus_wr by assumption.
  cbn [app]. rewrite N.mod_small by assumption. unfold lenN at 1. rewrite Nat2N.id.
  rewrite rd_nalus_wr by assumption.
  destruct (avc_plain p); [reflexivity|].
  destruct nt; [reflexivity|].
  cbn [N.eqb]. rewrite land3, !land7 by assumption. reflexivity.
Qed.

(* a record with trailing info (every profile except 66/77/88, NoTrailingInfo false) decodes to ITSELF *)
Lemma avcrec_roundtrip_exact r :
  avcrec_ok r = true -> avc_has_trailing r = true -> avcrec_decode (avcrec_encode r) = Ok r.
Proof.
  intros H T. rewrite avcrec_roundtrip by exact H. unfold avcrec_canon.
  unfold avc_has_trailing in T. apply andb_true_iff in T. destruct T as [T1 T2].
  apply negb_true_iff in T1, T2. rewrite T1, T2. reflexivity.
Qed.

(* ------------------------------------------------------------------ hevc.DecConfRec *)

Lemma rd_arrays_wr l : forall rest,
  forallb array_ok l = true -> rd_arrays (length l) (flat_map wr_array l ++ rest) = Some (l, rest).
Proof.
  induction l as [|[ct nalus] l IH]; intros rest H; [reflexivity|].
  cbn [forallb] in H. apply andb_true_iff in H. destruct H as [Ha Hl].
  unfold array_ok in Ha. cbn [snd] in Ha. apply andb_true_iff in Ha. destruct Ha as [Hn Hf]. apply N.ltb_lt in Hn.
  cbn [length flat_map rd_arrays]. unfold wr_array at 1. cbn [fst snd]. unfold be16. cbn [app].
  rewrite be16_val by exact Hn. unfold lenN. rewrite Nat2N.id.
  rewrite <- !app_assoc. rewrite rd_nalus_wr by exact Hf.
  rewrite IH by exact Hl. reflexivity.
Qed.

Lemma wr_arrays_len l : lenN (flat_map wr_array l) = sumN (map (fun a => 3 + nalus_size (snd a)) l).
Proof.
  induction l as [|a l IH]; [reflexivity|].
  cbn [flat_map map sumN]. rewrite lenN_app, IH. unfold wr_array. rewrite !lenN_app, wr_nalus_len.
  unfold lenN at 1 2. cbn [be16 length]. lia.
Qed.

Lemma hvcrec_size_ok r : lenN (hvcrec_encode r) = hvcrec_size r.
Proof.
  unfold hvcrec_encode, hvcrec_size. rewrite !lenN_app, wr_arrays_len. unfold lenN. cbn [be16 be32 be48 length app]. lia.
Qed.


(* byte 1: general_profile_space (2) | general_tier_flag (1) | general_profile_idc (5) *)
Definition b1_of (space : N) (tier : bool) (pidc : N) : N :=
  N.lor (N.lor (u8 (space * 64)) (if tier then 32 else 0)) pidc.
Definition b1_check (space : N) (tier : bool) (pidc : N) : bool :=
  let b := b1_of space tier pidc in
  (N.land (N.shiftr b 6) 3 =? space) && (Bool.eqb (N.land (N.shiftr b 5) 1 =? 1) tier) && (N.land b 31 =? pidc).

Lemma b1_all : forallb (fun s => forallb (fun p => b1_check s true p && b1_check s false p) (map N.of_nat (seq 0 32)))
                       (map N.of_nat (seq 0 4)) = true.
Proof. vm_compute. reflexivity. Qed.

Lemma b1_ok space tier pidc : space < 4 -> pidc < 32 -> b1_check space tier pidc = true.
Proof.
  intros Hs Hp. pose proof b1_all as A. rewrite forallb_forall in A.
  specialize (A space (in_range 4 space ltac:(lia))). rewrite forallb_forall in A.
  specialize (A pidc (in_range 32 pidc ltac:(lia))). apply andb_true_iff in A. destruct tier; tauto.
Qed.

(* byte 21: constantFrameRate (2) | numTemporalLayers (3) | temporalIdNested (1) | lengthSizeMinusOne (2) = 3 *)
Definition b21_of (cfr ntl tin : N) : N := N.lor (N.lor (N.lor (u8 (cfr * 64)) (u8 (ntl * 8))) (u8 (tin * 4))) 3.
Definition b21_check (cfr ntl tin : N) : bool :=
  let b := b21_of cfr ntl tin in
  (N.land b 3 =? 3) && (N.land (N.shiftr b 6) 3 =? cfr) && (N.land (N.shiftr b 3) 7 =? ntl) && (N.land (N.shiftr b 2) 1 =? tin).

Lemma b21_all : forallb (fun c => forallb (fun n => forallb (fun t => b21_check c n t) (map N.of_nat (seq 0 2)))
                                          (map N.of_nat (seq 0 8))) (map N.of_nat (seq 0 4)) = true.
Proof. vm_compute. reflexivity. Qed.

Lemma b21_ok cfr ntl tin : cfr < 4 -> ntl < 8 -> tin < 2 -> b21_check cfr ntl tin = true.
Proof.
  intros H1 H2 H3. pose proof b21_all as A. rewrite forallb_forall in A.
  specialize (A cfr (in_range 4 cfr ltac:(lia))). rewrite forallb_forall in A.
  specialize (A ntl (in_range 8 ntl ltac:(lia))). rewrite forallb_forall in A.
  exact (A tin (in_range 2 tin ltac:(lia))).
Qed.

Lemma be32_val x : x < 4294967296 ->
  ((u32 x / 16777216 * 256 + (x / 65536) mod 256) * 256 + (x / 256) mod 256) * 256 + x mod 256 = x.
Proof. unfold u32. intros H. lia. Qed.

Lemma be48_val x : x < 281474976710656 ->
  ((((u16 (x / 4294967296) / 256 * 256 + (x / 4294967296) mod 256) * 256 + u32 x / 16777216) * 256
    + (x / 65536) mod 256) * 65536) + ((x / 256) mod 256 * 256 + x mod 256) = x.
Proof. unfold u16, u32. intros H. lia. Qed.

Lemma minspat_val m : m < 4096 ->
  N.land (u16 (N.lor 61440 m) / 256 * 256 + (N.lor 61440 m) mod 256) 4095 = m.
Proof.
  intros H. change 61440 with (15 * 2 ^ 12). rewrite lor_shifted_add by (change (2 ^ 12) with 4096; lia).
  change (15 * 2 ^ 12) with 61440. rewrite be16_val by lia.
  change 4095 with (N.ones 12). rewrite N.land_ones. change (2 ^ 12) with 4096. lia.
Qed.

Lemma hvcrec_roundtrip r : hvcrec_ok r = true -> hvcrec_decode (hvcrec_encode r) = Ok r.
Proof.
  unfold hvcrec_ok. intros H.
  destruct r as [v space tier pidc compat constr lvl ms par chroma bdl bdc avg cfr ntl tin lsm arrays].
  cbn [hr_version hr_space hr_tier hr_pidc hr_compat hr_constraint hr_level hr_minspat hr_par hr_chroma hr_bdl hr_bdc
       hr_avgfr hr_cfr hr_ntl hr_tin hr_lsm1 hr_arrays] in *.
  split_ok H. subst v lsm.
  unfold hvcrec_encode, hvcrec_decode.
  cbn [hr_version hr_space hr_tier hr_pidc hr_compat hr_constraint hr_level hr_minspat hr_par hr_chroma hr_bdl hr_bdc
       hr_avgfr hr_cfr hr_ntl hr_tin hr_lsm1 hr_arrays app be16 be32 be48].
  change (1 =? 1) with true. cbn [negb].
  fold (b1_of space tier pidc). fold (b21_of cfr ntl tin).
  pose proof (b1_ok space tier pidc ltac:(assumption) ltac:(assumption)) as B1.
  pose proof (b21_ok cfr ntl tin ltac:(assumption) ltac:(assumption) ltac:(assumption)) as B21.
  unfold b1_check in B1. unfold b21_check in B21. cbv zeta in B1, B21.
  repeat (apply andb_true_iff in B1; destruct B1 as [B1 ?]).
  repeat (apply andb_true_iff in B21; destruct B21 as [B21 ?]).
  repeat match goal with h : (_ =? _) = true |- _ => apply N.eqb_eq in h end.
  match goal with h : Bool.eqb _ _ = true |- _ => apply Bool.eqb_prop in h; rename h into Ht end.
  rewrite B21. change (3 =? 3) with true. cbn [negb].
  rewrite N.mod_small by assumption. unfold lenN at 1. rewrite Nat2N.id.
  rewrite <- (app_nil_r (flat_map wr_array arrays)). rewrite rd_arrays_wr by assumption.
  rewrite be32_val, be48_val, minspat_val, be16_val by assumption.
  rewrite !land3, !land7 by assumption.
  repeat match goal with h : N.land _ _ = _ |- _ => rewrite h end. rewrite Ht.
  reflexivity.
Qed.
