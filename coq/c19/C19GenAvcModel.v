(* SNAPSHOT: verbatim copy of coq/c15/C15Model.v at /verif commit aed99b9 (only this banner and the import lines differ).
   Used by C19 only for the extracted parameter-set serialisers of the driver's GEN mode; frozen so that concurrent
   work on C15 (slice headers, guards) cannot break C19's build.  To follow C15 again: delete the four C19Gen*.v files and
   import V.c15 C15Model C15Spec C15HevcModel C15HevcSpec in C19Extract.v (and open them in ocaml/c19_driver.ml). *)
(* C15Model.v — executable Gallina models of the AVC parameter-set / slice-header parsers
   (avc/sps.go, avc/pps.go, avc/slice.go, avc/avcdecoderconfigurationrecord.go, avc/mime.go)
   of the pinned tree.  DEFINITIONS ONLY.

   The parsers are written ONCE, as state-monad programs over an abstract reader interface
   (record `reader`) that offers exactly the operations of bits.EBSPReader the Go code calls.
   Two instances:
     ER : the C13 model of bits.EBSPReader (exact Go semantics incl. u64 wraps, sticky error,
          byte position in the escaped stream)            -> used in the correspondence path
     BR : an ideal reader over the bit list of the unescaped NAL unit (no width limits;
          sticky error; byte position = length of the escaped prefix)  -> used in the proofs
   Reads never fail in Go (they return 0 and record the error), so a parser is
   S -> res (A * S): `Err` = Go returned a non-nil error, `OutOfFuel` = a loop / allocation
   driven by a decoded count above 2^16 (Go would loop / allocate that often). *)
From V.lib Require Import Base.
From V.c13 Require Import C13Spec C13Model.

(* ------------------------------------------------------------------ reader interface *)
Record reader (S : Type) := mkReader {
  r_read : S -> N -> N * S;          (* Read(n) *)
  r_flag : S -> bool * S;            (* ReadFlag *)
  r_ue : S -> N * S;                 (* ReadExpGolomb *)
  r_se : S -> Z * S;                 (* ReadSignedGolomb *)
  r_err : S -> bool;                 (* AccError() != nil *)
  r_seterr : S -> S;                 (* SetError *)
  r_nbytes : S -> N;                 (* NrBytesRead *)
  r_more : S -> bool * S;            (* MoreRbspData on a seekable reader: (more, state) *)
  r_trailing : S -> bool * S;        (* ReadRbspTrailingBits: true = returned a non-nil error *)
}.
Arguments r_read {S}. Arguments r_flag {S}. Arguments r_ue {S}. Arguments r_se {S}.
Arguments r_err {S}. Arguments r_seterr {S}. Arguments r_nbytes {S}. Arguments r_more {S}.
Arguments r_trailing {S}.

(* ------------------------------------------------------------------ instance ER (C13 reader) *)
Definition rset_err (s : rstate) (e : bool) : rstate :=
  mkR (rn s) (rv s) (rpos s) (rzc s) e (rdata s).

(* ReadRbspTrailingBits *)
Fixpoint trail_loop (fuel : nat) (s : rstate) : bool * rstate :=
  match fuel with
  | O => (false, s)
  | S f =>
      let '(b, s1) := read s 1 in
      if rerr s1 then (false, rset_err s1 false)        (* io.EOF: reset, nil *)
      else if b =? 1 then (true, s1)                    (* "another 1 in RbspTrailingBits" *)
      else trail_loop f s1
  end.
Definition er_trailing (s : rstate) : bool * rstate :=
  if rerr s then (false, s)
  else
    let '(b, s1) := read s 1 in
    if rerr s1 then (false, s1)
    else if negb (b =? 1) then (true, s1)
    else trail_loop (S (8 * length (rdata s) + 8)) s1.

Definition er_more (s : rstate) : bool * rstate :=
  match more_rbsp_data s with
  | (Some b, s') => (b, s')
  | (None, s') => (false, s')
  end.

Definition ER : reader rstate :=
  mkReader rstate read read_flag read_ue read_se rerr (fun s => rset_err s true)
           nr_bytes_read er_more er_trailing.

(* ------------------------------------------------------------------ instance BR (ideal bit reader) *)
(* braw: the unescaped bytes of the NAL unit (constant); bbits: the bits not yet consumed;
   bpos: number of bits consumed. *)
Record bstate := mkB { braw : list N; bbits : list bool; bpos : N; berr : bool }.

Definition b2n (b : bool) : N := if b then 1 else 0.
(* value of a bit list, most significant bit first *)
Definition bval (l : list bool) : N := fold_left (fun a b => 2 * a + b2n b) l 0.

Fixpoint bits_of_byte_from (k : nat) (v : N) : list bool :=
  match k with O => [] | S j => N.testbit v (N.of_nat j) :: bits_of_byte_from j v end.
Definition bits_of_bytes (l : list N) : list bool := flat_map (bits_of_byte_from 8) l.

Definition binit (nalu : list N) : bstate :=
  let raw := unescape nalu in mkB raw (bits_of_bytes raw) 0 false.

(* after a failed read Go has consumed every byte of the input *)
Definition bfail (s : bstate) : bstate := mkB (braw s) [] (8 * lenN (braw s)) true.

Definition br_read (s : bstate) (n : N) : N * bstate :=
  if berr s then (0, s)
  else if n <=? lenN (bbits s)
       then (bval (firstn (N.to_nat n) (bbits s)),
             mkB (braw s) (skipn (N.to_nat n) (bbits s)) (bpos s + n) false)
       else (0, bfail s).

Definition br_flag (s : bstate) : bool * bstate :=
  let '(v, s') := br_read s 1 in (v =? 1, s').

(* number of zero bits before the first 1 bit, and what follows that 1 bit *)
Fixpoint lz_count (l : list bool) : option (N * list bool) :=
  match l with
  | [] => None
  | true :: t => Some (0, t)
  | false :: t => match lz_count t with Some (k, r) => Some (k + 1, r) | None => None end
  end.

Definition br_ue (s : bstate) : N * bstate :=
  if berr s then (0, s)
  else match lz_count (bbits s) with
       | None => (0, bfail s)
       | Some (k, r) =>
           let s1 := mkB (braw s) r (bpos s + k + 1) false in
           let '(e, s2) := br_read s1 k in
           if berr s2 then (0, s2) else (2 ^ k - 1 + e, s2)
       end.

Definition br_se (s : bstate) : Z * bstate :=
  let '(u, s1) := br_ue s in
  if berr s1 then (0%Z, s1)
  else if u mod 2 =? 1 then (Z.of_N ((u + 1) / 2), s1)
  else ((- Z.of_N (u / 2))%Z, s1).

(* bytes of the escaped NAL unit fetched after `bits` bits were consumed *)
Definition nbytes_at (raw : list N) (bits : N) : N :=
  lenN (escape (firstn (N.to_nat ((bits + 7) / 8)) raw)).

Definition br_nbytes (s : bstate) : N :=
  if berr s then lenN (escape (braw s)) else nbytes_at (braw s) (bpos s).

(* MoreRbspData: false iff the rest is a 1 bit followed by zero bits only (or nothing is left,
   in which case the error is set) *)
Definition all_zero (l : list bool) : bool := forallb negb l.
Definition br_more (s : bstate) : bool * bstate :=
  if berr s then (false, s)
  else match bbits s with
       | [] => (false, bfail s)
       | false :: _ => (true, s)
       | true :: t => (negb (all_zero t), s)
       end.

Definition br_trailing (s : bstate) : bool * bstate :=
  if berr s then (false, s)
  else match bbits s with
       | [] => (false, bfail s)
       | false :: _ => (true, s)
       | true :: t => if all_zero t
                      then (false, mkB (braw s) [] (8 * lenN (braw s)) false)
                      else (true, s)
       end.

Definition BR : reader bstate :=
  mkReader bstate br_read br_flag br_ue br_se berr (fun s => mkB (braw s) (bbits s) (bpos s) true)
           br_nbytes br_more br_trailing.

(* ------------------------------------------------------------------ parsed structures *)
Record cpb_entry := mkCpb { cpb_bit_rate : N; cpb_size : N; cpb_cbr : bool }.

Record hrd := mkHrd {
  hrd_cpb_cnt_minus1 : N; hrd_bit_rate_scale : N; hrd_cpb_size_scale : N;
  hrd_entries : list cpb_entry;
  hrd_initial_cpb_removal_delay_length_minus1 : N; hrd_cpb_removal_delay_length_minus1 : N;
  hrd_dpb_output_delay_length_minus1 : N; hrd_time_offset_length : N }.

Record vui := mkVui {
  vui_sar_width : N; vui_sar_height : N;
  vui_overscan_info_present : bool; vui_overscan_appropriate : bool;
  vui_video_signal_type_present : bool; vui_video_format : N; vui_video_full_range : bool;
  vui_colour_description : bool; vui_colour_primaries : N; vui_transfer_characteristics : N;
  vui_matrix_coefficients : N;
  vui_chroma_loc_info_present : bool; vui_chroma_loc_top : N; vui_chroma_loc_bottom : N;
  vui_timing_info_present : bool; vui_num_units_in_tick : N; vui_time_scale : N;
  vui_fixed_frame_rate : bool;
  vui_nal_hrd_present : bool; vui_nal_hrd : option hrd;
  vui_vcl_hrd_present : bool; vui_vcl_hrd : option hrd;
  vui_low_delay_hrd : bool; vui_pic_struct_present : bool;
  vui_bitstream_restriction : bool; vui_mv_over_pic_boundaries : bool;
  vui_max_bytes_per_pic_denom : N; vui_max_bits_per_mb_denom : N;
  vui_log2_max_mv_length_horizontal : N; vui_log2_max_mv_length_vertical : N;
  vui_max_num_reorder_frames : N; vui_max_dec_frame_buffering : N }.

Record sps := mkSps {
  sps_profile : N; sps_compat : N; sps_level : N; sps_id : N;
  sps_chroma_format_idc : N; sps_separate_colour_plane : bool;
  sps_bit_depth_luma_minus8 : N; sps_bit_depth_chroma_minus8 : N;
  sps_qpprime_y_zero_transform_bypass : bool;
  sps_seq_scaling_matrix_present : bool; sps_seq_scaling_lists : list (option (list Z));
  sps_log2_max_frame_num_minus4 : N; sps_pic_order_cnt_type : N;
  sps_log2_max_pic_order_cnt_lsb_minus4 : N; sps_delta_pic_order_always_zero : bool;
  sps_offset_for_non_ref_pic : N; sps_offset_for_top_to_bottom_field : N;
  sps_ref_frames_in_poc_cycle : list N;
  sps_num_ref_frames : N; sps_gaps_in_frame_num_allowed : bool;
  sps_frame_mbs_only : bool; sps_mb_adaptive_frame_field : bool; sps_direct_8x8_inference : bool;
  sps_frame_cropping : bool;
  sps_crop_left : N; sps_crop_right : N; sps_crop_top : N; sps_crop_bottom : N;
  sps_width : N; sps_height : N;
  sps_nr_bytes_before_vui : N; sps_nr_bytes_read : N;
  sps_vui : option vui }.

Record pps := mkPps {
  pps_id : N; pps_sps_id : N; pps_entropy_coding_mode : bool; pps_bottom_field_pic_order : bool;
  pps_num_slice_groups_minus1 : N; pps_slice_group_map_type : N;
  pps_run_length_minus1 : list N; pps_top_left : list N; pps_bottom_right : list N;
  pps_slice_group_change_direction : bool; pps_slice_group_change_rate_minus1 : N;
  pps_pic_size_in_map_units_minus1 : N; pps_slice_group_id : list N;
  pps_num_ref_idx_l0_default_active_minus1 : N; pps_num_ref_idx_l1_default_active_minus1 : N;
  pps_weighted_pred : bool; pps_weighted_bipred_idc : N;
  pps_pic_init_qp_minus26 : Z; pps_pic_init_qs_minus26 : Z; pps_chroma_qp_index_offset : Z;
  pps_deblocking_filter_control_present : bool; pps_constrained_intra_pred : bool;
  pps_redundant_pic_cnt_present : bool;
  pps_transform_8x8_mode : bool; pps_pic_scaling_matrix_present : bool;
  pps_pic_scaling_lists : list (option (list Z));
  pps_second_chroma_qp_index_offset : Z }.

Record slice_hdr := mkSh {
  sh_slice_type : N; sh_first_mb_in_slice : N; sh_pic_param_id : N; sh_seq_param_id : N;
  sh_color_plane_id : N; sh_frame_num : N; sh_idr_pic_id : N; sh_pic_order_cnt_lsb : N;
  sh_delta_pic_order_cnt_bottom : Z; sh_delta_pic_order_cnt0 : Z; sh_delta_pic_order_cnt1 : Z;
  sh_redundant_pic_cnt : N; sh_num_ref_idx_l0_active_minus1 : N; sh_num_ref_idx_l1_active_minus1 : N;
  sh_modification_of_pic_nums_idc : N; sh_abs_diff_pic_num_minus1 : N; sh_long_term_pic_num : N;
  sh_abs_diff_view_idx_minus1 : N; sh_luma_log2_weight_denom : N; sh_chroma_log2_weight_denom : N;
  sh_difference_of_pic_nums_minus1 : N; sh_long_term_frame_idx : N; sh_max_long_term_frame_idx_plus1 : N;
  sh_cabac_init_idc : N; sh_slice_qp_delta : Z; sh_slice_qs_delta : Z;
  sh_disable_deblocking_filter_idc : N; sh_slice_alpha_c0_offset_div2 : Z; sh_slice_beta_offset_div2 : Z;
  sh_slice_group_change_cycle : N; sh_size : N;
  sh_field_pic : bool; sh_bottom_field : bool; sh_direct_spatial_mv_pred : bool;
  sh_num_ref_idx_active_override : bool; sh_ref_pic_list_modification_l0 : bool;
  sh_ref_pic_list_modification_l1 : bool; sh_no_output_of_prior_pics : bool;
  sh_long_term_reference : bool; sh_sp_for_switch : bool; sh_adaptive_ref_pic_marking_mode : bool }.

(* int32(x) of a Go int *)
Definition i32 (z : Z) : Z := ((z + 2147483648) mod 4294967296 - 2147483648)%Z.

(* bits.CeilLog2 *)
Fixpoint ceil_log2_from (fuel : nat) (i n : N) : N :=
  match fuel with
  | O => 32
  | S f => if n <=? 2 ^ i then i else ceil_log2_from f (i + 1) n
  end.
Definition ceil_log2 (n : N) : N := ceil_log2_from 32 0 n.

(* ------------------------------------------------------------------ the parsers *)
Definition loop_bound : N := 65536.
Definition loop_fuel : nat := N.to_nat loop_bound.

Section Parsers.
  Context {St : Type} (R : reader St).

  Definition M (A : Type) : Type := St -> res (A * St).
  Definition ret {A} (a : A) : M A := fun s => Ok (a, s).
  Definition bind {A B} (m : M A) (k : A -> M B) : M B :=
    fun s => match m s with
             | Ok (a, s') => k a s'
             | Err => Err | Panic => Panic | OutOfFuel => OutOfFuel
             end.
  Definition fail {A} : M A := fun _ => Err.
  Definition out_of_fuel {A} : M A := fun _ => OutOfFuel.

  Notation "x <- m ;; k" := (bind m (fun x => k))
    (at level 61, m at next level, right associativity).

  Definition rd (n : N) : M N := fun s => Ok (r_read R s n).
  Definition rd_flag : M bool := fun s => Ok (r_flag R s).
  Definition rd_ue : M N := fun s => Ok (r_ue R s).
  Definition rd_se : M Z := fun s => Ok (r_se R s).
  Definition get_err : M bool := fun s => Ok (r_err R s, s).
  Definition set_err : M unit := fun s => Ok (tt, r_seterr R s).
  Definition get_nbytes : M N := fun s => Ok (r_nbytes R s, s).
  Definition rd_more : M bool := fun s => Ok (r_more R s).
  Definition rd_trailing : M bool := fun s => Ok (r_trailing R s).

  (* `for i := 0; i < n; i++ { body }` collecting the results *)
  Fixpoint rep {A} (n : nat) (body : M A) : M (list A) :=
    match n with
    | O => ret []
    | S k => x <- body ;; t <- rep k body ;; ret (x :: t)
    end.
  Definition rep_n {A} (n : N) (body : M A) : M (list A) :=
    if n <=? loop_bound then rep (N.to_nat n) body else out_of_fuel.

  (* the same loop with `if reader.AccError() != nil { break }` at the top of the body *)
  Fixpoint rep_break {A} (n : nat) (body : M A) : M (list A) :=
    match n with
    | O => ret []
    | S k => e <- get_err ;; if e then ret [] else x <- body ;; t <- rep_break k body ;; ret (x :: t)
    end.
  Definition rep_break_n {A} (n : N) (body : M A) : M (list A) :=
    if n <=? loop_bound then rep_break (N.to_nat n) body else out_of_fuel.

  (* ---- avc/sps.go readScalingList (Go int is 64 bit, % truncates) *)
  Fixpoint read_scaling_list (n : nat) (last next : Z) : M (list Z) :=
    match n with
    | O => ret []
    | S k =>
        next' <- (if (next =? 0)%Z then ret next
                  else d <- rd_se ;; ret (Z.rem (last + d + 256) 256)) ;;
        let x := if (next' =? 0)%Z then last else next' in
        t <- read_scaling_list k x next' ;;
        ret (x :: t)
    end.

  (* the loop `for i := 0; i < nrScalingLists; i++` of ParseSPSNALUnit / ParsePPSNALUnit *)
  Fixpoint read_scaling_lists (cnt : nat) (i : N) : M (list (option (list Z))) :=
    match cnt with
    | O => ret []
    | S c =>
        present <- rd_flag ;;
        x <- (if present
              then l <- read_scaling_list (if i <? 6 then 16 else 64) 8 8 ;; ret (Some l)
              else ret None) ;;
        t <- read_scaling_lists c (i + 1) ;;
        ret (x :: t)
    end.

  Definition is_high_profile (p : N) : bool :=
    existsb (N.eqb p) [100; 110; 122; 244; 44; 83; 86; 118; 128; 138; 139; 134; 135].

  (* ---- parseHrdParameters: `for schedSelIdx := uint(0); schedSelIdx <= CpbCountMinus1` *)
  Definition parse_cpb_entry : M cpb_entry :=
    br <- rd_ue ;; cs <- rd_ue ;; cbr <- rd_flag ;; ret (mkCpb br cs cbr).

  Definition parse_hrd : M hrd :=
    cnt <- rd_ue ;;
    if 31 <? cnt then u <- set_err ;; ret (mkHrd cnt 0 0 [] 0 0 0 0) else   (* guard 325a401 *)
    brs <- rd 4 ;;
    css <- rd 4 ;;
    entries <- rep_n (cnt + 1) parse_cpb_entry ;;
    a <- rd 5 ;; b <- rd 5 ;; c <- rd 5 ;; d <- rd 5 ;;
    ret (mkHrd cnt brs css entries a b c d).

  (* GetSARfromIDC *)
  Definition sar_table : list (N * N) :=
    [(1,1); (12,11); (10,11); (16,11); (40,33); (24,11); (20,11); (32,11);
     (80,33); (18,11); (15,11); (64,33); (160,99); (4,3); (3,2); (2,1)].
  Definition sar_from_idc (idc : N) : option (N * N) :=
    if idc =? 0 then Some (0, 0)                         (* fix a2ce542: 0 = Unspecified *)
    else if (idc <? 1) || (16 <? idc) then None else nth_error sar_table (N.to_nat (idc - 1)).

  Definition vui_zero : vui :=
    mkVui 0 0 false false false 0 false false 0 0 0 false 0 0 false 0 0 false
          false None false None false false false false 0 0 0 0 0 0.

  (* ---- parseVUI *)
  Definition parse_vui (beyond : bool) : M vui :=
    ar_present <- rd_flag ;;
    sar <- (if ar_present
            then idc <- rd 8 ;;
                 if idc =? 255 then w <- rd 16 ;; h <- rd 16 ;; ret (w, h)
                 else match sar_from_idc idc with
                      | Some wh => ret wh
                      | None => u <- set_err ;; ret (0, 0)
                      end
            else ret (0, 0)) ;;
    if negb beyond
    then ret (mkVui (fst sar) (snd sar) false false false 0 false false 0 0 0 false 0 0 false 0 0 false
                    false None false None false false false false 0 0 0 0 0 0)
    else
    ovp <- rd_flag ;;
    ova <- (if ovp then rd_flag else ret false) ;;
    vsp <- rd_flag ;;
    vs <- (if vsp
           then vf <- rd 3 ;; fr <- rd_flag ;; cd <- rd_flag ;;
                cs <- (if cd then a <- rd 8 ;; b <- rd 8 ;; c <- rd 8 ;; ret (a, b, c)
                       else ret (0, 0, 0)) ;;
                ret (vf, fr, cd, cs)
           else ret (0, false, false, (0, 0, 0))) ;;
    clp <- rd_flag ;;
    cl <- (if clp then a <- rd_ue ;; b <- rd_ue ;; ret (a, b) else ret (0, 0)) ;;
    tip <- rd_flag ;;
    ti <- (if tip then a <- rd 32 ;; b <- rd 32 ;; c <- rd_flag ;; ret (a, b, c)
           else ret (0, 0, false)) ;;
    nhp <- rd_flag ;;
    nh <- (if nhp then h <- parse_hrd ;; ret (Some h) else ret None) ;;
    vhp <- rd_flag ;;
    vh <- (if vhp then h <- parse_hrd ;; ret (Some h) else ret None) ;;
    ld <- (if nhp || vhp then rd_flag else ret false) ;;
    psp <- rd_flag ;;
    brf <- rd_flag ;;
    br <- (if brf
           then a <- rd_flag ;; b <- rd_ue ;; c <- rd_ue ;; d <- rd_ue ;; e <- rd_ue ;;
                f <- rd_ue ;; g <- rd_ue ;; ret (a, b, c, d, e, f, g)
           else ret (false, 0, 0, 0, 0, 0, 0)) ;;
    let '(vf, fr, cd, (cp, tc, mc)) := vs in
    let '(nt, ts, ff) := ti in
    let '(b_a, b_b, b_c, b_d, b_e, b_f, b_g) := br in
    ret (mkVui (fst sar) (snd sar) ovp ova vsp vf fr cd cp tc mc clp (fst cl) (snd cl)
               tip nt ts ff nhp nh vhp vh ld psp brf b_a b_b b_c b_d b_e b_f b_g).

  (* ---- the profile switch of ParseSPSNALUnit *)
  Definition parse_sps_high (profile : N)
    : M (N * bool * N * N * bool * bool * list (option (list Z))) :=
    if is_high_profile profile
    then
      cf <- rd_ue ;;
      let chroma := u8 cf in                             (* byte(reader.ReadExpGolomb()) *)
      sep <- (if chroma =? 3 then rd_flag else ret false) ;;
      bdl <- rd_ue ;;
      bdc <- rd_ue ;;
      qpp <- rd_flag ;;
      smp <- rd_flag ;;
      lists <- (if smp then read_scaling_lists (if negb (chroma =? 3) then 8 else 12) 0
                else ret []) ;;
      ret (chroma, sep, bdl, bdc, qpp, smp, lists)
    else ret (1, false, 0, 0, false, false, []).         (* ChromaFormatIDC = 1 default; 138 is in the list *)

  (* ---- the pic_order_cnt_type switch: the three se(v) elements are read with ReadExpGolomb *)
  Definition parse_sps_poc (poc_type : N) : M (N * bool * N * N * list N) :=
    if poc_type =? 0 then l <- rd_ue ;; if 12 <? l then fail else ret (l, false, 0, 0, [])   (* guard 6a5a0a9 *)
    else if poc_type =? 1 then
      dz <- rd_flag ;;
      o1 <- rd_ue ;;
      o2 <- rd_ue ;;
      n <- rd_ue ;;
      if 255 <? n then fail else                         (* guard 325a401 *)
      cyc <- rep_n n rd_ue ;;                            (* make([]uint, n) + loop *)
      ret (0, dz, o1, o2, cyc)
    else ret (0, false, 0, 0, []).

  Definition parse_sps_crop (chroma : N) (fmo : bool) (w h : N) (crop : bool)
    : M (N * N * N * N * N * N) :=
    let frame_mbs_only := if fmo then 1 else 0 in
    if crop then
      match (if chroma =? 0 then Some (1, 2 - frame_mbs_only)
             else if chroma =? 1 then Some (2, 2 * (2 - frame_mbs_only))
             else if chroma =? 2 then Some (2, 1 * (2 - frame_mbs_only))
             else if chroma =? 3 then Some (1, 1 * (2 - frame_mbs_only))
             else None) with
      | None => fail                                     (* "non-vaild chroma_format_idc value" *)
      | Some (cux, cuy) =>
          l <- rd_ue ;; r <- rd_ue ;; t <- rd_ue ;; b <- rd_ue ;;
          let cw := u64 (l + r) in
          let ch := u64 (t + b) in
          (* uint arithmetic wraps *)
          let w' := u64 (w + 18446744073709551616 - u64 (cw * cux)) in
          let h' := u64 (h + 18446744073709551616 - u64 (ch * cuy)) in
          ret (l, r, t, b, w', h')
      end
    else ret (0, 0, 0, 0, w, h).

  (* ---- ParseSPSNALUnit, after the NAL header *)
  Definition parse_sps_data (beyond : bool) : M sps :=
    profile <- rd 8 ;;
    compat <- rd 8 ;;
    level <- rd 8 ;;
    id <- rd_ue ;;
    hp <- parse_sps_high (u32 profile) ;;
    let '(chroma, sep, bdl, bdc, qpp, smp, lists) := hp in
    l2fn <- rd_ue ;;
    if 12 <? l2fn then fail else                         (* guard 6a5a0a9 *)
    poc_type <- rd_ue ;;
    poc <- parse_sps_poc poc_type ;;
    let '(l2poc, dz, o1, o2, cyc) := poc in
    nrf <- rd_ue ;;
    gaps <- rd_flag ;;
    wmbs <- rd_ue ;;
    hmbs <- rd_ue ;;
    let w := u64 ((wmbs + 1) * 16) in
    let h := u64 ((hmbs + 1) * 16) in
    fmo <- rd_flag ;;
    mbaff <- (if negb fmo then rd_flag else ret false) ;;
    d8 <- rd_flag ;;
    crop <- rd_flag ;;
    let h1 := if fmo then h else u64 (h * 2) in
    cr <- parse_sps_crop chroma fmo w h1 crop ;;
    let '(cl, cr_, ct, cb, w2, h2) := cr in
    vui_present <- rd_flag ;;
    nb0 <- get_nbytes ;;
    v <- (if vui_present then x <- parse_vui beyond ;; ret (Some x) else ret None) ;;
    nb1 <- get_nbytes ;;
    e <- get_err ;;
    if e then fail
    else ret (mkSps (u32 profile) (u32 compat) (u32 level) (u32 id)
                    chroma sep bdl bdc qpp smp lists l2fn poc_type l2poc dz o1 o2 cyc
                    nrf gaps fmo mbaff d8 crop cl cr_ ct cb w2 h2 nb0 nb1 v).

  Definition parse_sps (beyond : bool) : M sps :=
    hdr <- rd 8 ;;
    if negb (N.land (u8 hdr) 31 =? 7) then fail           (* ErrNotSPS *)
    else parse_sps_data beyond.

  (* ---- ParsePPSNALUnit; spsmap: seq_parameter_set_id -> ChromaFormatIDC of that SPS in spsMap.
     Repaired text (fix commits, see known_findings/C15.json): map type 2 reads
     num_slice_groups_minus1 pairs, map type 6 reads pic_size_in_map_units_minus1 and that many ids,
     the pic scaling lists are read whenever pic_scaling_matrix_present_flag is set. *)
  Definition parse_pps_slice_groups (nsg : N)
    : M (N * list N * list N * list N * bool * N * N * list N) :=
    if 0 <? nsg then
      mt <- rd_ue ;;
      if mt =? 0 then
        rl <- rep_n (nsg + 1) rd_ue ;; ret (mt, rl, [], [], false, 0, 0, [])
      else if mt =? 2 then
        prs <- rep_n nsg (tl <- rd_ue ;; br <- rd_ue ;; ret (tl, br)) ;;
        ret (mt, [], map fst prs, map snd prs, false, 0, 0, [])
      else if (mt =? 3) || (mt =? 4) || (mt =? 5) then
        dir <- rd_flag ;; rate <- rd_ue ;; ret (mt, [], [], [], dir, rate, 0, [])
      else if mt =? 6 then
        psmu <- rd_ue ;;
        ids <- rep_break_n (psmu + 1) (rd (ceil_log2 (nsg + 1))) ;;
        ret (mt, [], [], [], false, 0, psmu, ids)
      else ret (mt, [], [], [], false, 0, 0, [])
    else ret (0, [], [], [], false, 0, 0, []).

  Definition parse_pps_tail (spsmap : N -> option N) (spsid : N)
    : M (bool * bool * list (option (list Z)) * Z) :=
    t8 <- rd_flag ;;
    spf <- rd_flag ;;
    lists <- (if spf then
                match spsmap spsid with
                | None => fail                         (* "sps ID %d not found in map" *)
                | Some chroma =>
                    let nr := if t8 then (if negb (chroma =? 3) then 8%nat else 12%nat) else 6%nat in
                    read_scaling_lists nr 0
                end
              else ret []) ;;
    second <- rd_se ;;
    ret (t8, spf, lists, second).

  (* ParsePPSNALUnit up to redundant_pic_cnt_present_flag *)
  Definition parse_pps_pre
    : M (N * N * bool * bool * N * (N * list N * list N * list N * bool * N * N * list N)
         * N * N * bool * N * Z * Z * Z * bool * bool * bool) :=
    id <- rd_ue ;;
    spsid <- rd_ue ;;
    ecm <- rd_flag ;;
    bfp <- rd_flag ;;
    nsg <- rd_ue ;;
    if 7 <? nsg then fail else                           (* guard d2db25a *)
    sg <- parse_pps_slice_groups nsg ;;
    l0 <- rd_ue ;;
    l1 <- rd_ue ;;
    wp <- rd_flag ;;
    wb <- rd 2 ;;
    qp <- rd_se ;;
    qs <- rd_se ;;
    cqp <- rd_se ;;
    dfc <- rd_flag ;;
    cip <- rd_flag ;;
    rpc <- rd_flag ;;
    ret (id, spsid, ecm, bfp, nsg, sg, l0, l1, wp, wb, qp, qs, cqp, dfc, cip, rpc).

  (* from MoreRbspData to the end *)
  Definition parse_pps_post (spsmap : N -> option N)
      (t : N * N * bool * bool * N * (N * list N * list N * list N * bool * N * N * list N)
           * N * N * bool * N * Z * Z * Z * bool * bool * bool) : M pps :=
    let '(id, spsid, ecm, bfp, nsg, sg, l0, l1, wp, wb, qp, qs, cqp, dfc, cip, rpc) := t in
    let '(mt, rl, tl, br, dir, rate, psmu, ids) := sg in
    more <- rd_more ;;
    tail <- (if more then parse_pps_tail spsmap (u32 spsid) else ret (false, false, [], 0%Z)) ;;
    let '(t8, spf, lists, second) := tail in
    tr <- rd_trailing ;;
    if tr then fail else
    e <- get_err ;;
    if e then fail else
    x <- rd 1 ;;
    e2 <- get_err ;;
    if negb e2 then fail else                            (* "not at end after reading rbsp_trailing_bits" *)
    ret (mkPps (u32 id) (u32 spsid) ecm bfp nsg mt rl tl br dir rate psmu ids l0 l1 wp wb qp qs cqp
               dfc cip rpc t8 spf lists second).

  Definition parse_pps (spsmap : N -> option N) : M pps :=
    hdr <- rd 8 ;;
    if negb (N.land (u8 hdr) 31 =? 8) then fail else     (* ErrNotPPS *)
    t <- parse_pps_pre ;;
    parse_pps_post spsmap t.

  (* ---- ParseSliceHeader (avc/slice.go), repaired text: spsID := pps.SeqParameterSetID, recorded
     in SeqParamID (fix commit, see known_findings/C15.json) *)
  (* the `for { ... }` loop of ref_pic_list_modification; st = (idc, abs_diff, long_term_pic_num, abs_diff_view) *)
  Fixpoint rplm_loop (fuel : nat) (st : N * N * N * N) : M (N * N * N * N) :=
    match fuel with
    | O => out_of_fuel
    | S f =>
        let '(_, ad, lt, av) := st in
        idc0 <- rd_ue ;;
        let idc := u32 idc0 in
        if (idc =? 0) || (idc =? 1) then
          x <- rd_ue ;; e <- get_err ;;
          if e then ret (idc, u32 x, lt, av) else rplm_loop f (idc, u32 x, lt, av)
        else if idc =? 2 then
          x <- rd_ue ;; e <- get_err ;;
          if e then ret (idc, ad, u32 x, av) else rplm_loop f (idc, ad, u32 x, av)
        else if (idc =? 4) || (idc =? 5) then
          x <- rd_ue ;; e <- get_err ;;
          if e then ret (idc, ad, lt, u32 x) else rplm_loop f (idc, ad, lt, u32 x)
        else if idc =? 3 then ret (idc, ad, lt, av)
        else
          e <- get_err ;;
          if e then ret (idc, ad, lt, av) else rplm_loop f (idc, ad, lt, av)
    end.

  (* the loop of dec_ref_pic_marking; st = (difference_of_pic_nums, long_term_pic_num, long_term_frame_idx, max_long_term_frame_idx_plus1) *)
  Fixpoint mmco_loop (fuel : nat) (st : N * N * N * N) : M (N * N * N * N) :=
    match fuel with
    | O => out_of_fuel
    | S f =>
        let '(df, lt, fi, mx) := st in
        op <- rd_ue ;;
        st1 <- (if (op =? 1) || (op =? 3) then x <- rd_ue ;; ret (u32 x, lt)
                else if op =? 2 then x <- rd_ue ;; ret (df, u32 x)
                else ret (df, lt)) ;;
        let '(df1, lt1) := st1 in
        if (op =? 3) || (op =? 6) then
          x <- rd_ue ;; e <- get_err ;;
          if e then ret (df1, lt1, u32 x, mx) else mmco_loop f (df1, lt1, u32 x, mx)
        else if op =? 4 then
          x <- rd_ue ;; e <- get_err ;;
          if e then ret (df1, lt1, fi, u32 x) else mmco_loop f (df1, lt1, fi, u32 x)
        else if op =? 0 then ret (df1, lt1, fi, mx)
        else
          e <- get_err ;;
          if e then ret (df1, lt1, fi, mx) else mmco_loop f (df1, lt1, fi, mx)
    end.

  (* one iteration of the pred_weight_table loops (values are parsed and dropped) *)
  Definition pwt_entry (cat_nonzero : bool) : M unit :=
    lw <- rd_flag ;;
    u1 <- (if lw then a <- rd_ue ;; b <- rd_ue ;; ret tt else ret tt) ;;
    if cat_nonzero then
      cw <- rd_flag ;;
      if cw then a <- rd_ue ;; b <- rd_ue ;; c <- rd_ue ;; d <- rd_ue ;; ret tt else ret tt
    else ret tt.

  Definition sps_chroma_array_type (s : sps) : N :=
    if sps_separate_colour_plane s then 0 else sps_chroma_format_idc s.

  Definition parse_slice_header (spsmap : N -> option sps) (ppsmap : N -> option pps) : M slice_hdr :=
    hdr <- rd 8 ;;
    let nalu_type := N.land (u8 hdr) 31 in
    if negb ((nalu_type =? 1) || (nalu_type =? 2) || (nalu_type =? 5) || (nalu_type =? 19)) then fail else
    let nal_ref_idc := N.land (N.shiftr hdr 5) 3 in
    first_mb <- rd_ue ;;
    slice_type <- rd_ue ;;
    pps_id <- rd_ue ;;
    match ppsmap (u32 pps_id) with
    | None => fail
    | Some pp =>
    let sps_id := pps_sps_id pp in
    match spsmap sps_id with
    | None => fail
    | Some sp =>
    cpl <- (if sps_separate_colour_plane sp then rd 2 else ret 0) ;;
    frame_num <- rd (sps_log2_max_frame_num_minus4 sp + 4) ;;
    fld <- (if negb (sps_frame_mbs_only sp)
            then f <- rd_flag ;; b <- (if f then rd_flag else ret false) ;; ret (f, b)
            else ret (false, false)) ;;
    let '(field_pic, bottom) := fld in
    idr <- (if nalu_type =? 5 then rd_ue else ret 0) ;;
    poc <- (if sps_pic_order_cnt_type sp =? 0 then
              lsb <- rd (sps_log2_max_pic_order_cnt_lsb_minus4 sp + 4) ;;
              d <- (if pps_bottom_field_pic_order pp && negb field_pic then rd_se else ret 0%Z) ;;
              ret (lsb, d, 0%Z, 0%Z)
            else if (sps_pic_order_cnt_type sp =? 1) && negb (sps_delta_pic_order_always_zero sp) then
              d0 <- rd_se ;;
              d1 <- (if pps_bottom_field_pic_order pp && negb field_pic then rd_se else ret 0%Z) ;;
              ret (0, 0%Z, d0, d1)
            else ret (0, 0%Z, 0%Z, 0%Z)) ;;
    let '(lsb, dbot, d0, d1) := poc in
    red <- (if pps_redundant_pic_cnt_present pp then rd_ue else ret 0) ;;
    let st := slice_type mod 5 in
    let isP := st =? 0 in let isB := st =? 1 in let isI := st =? 2 in
    let isSP := st =? 3 in let isSI := st =? 4 in
    direct <- (if isB then rd_flag else ret false) ;;
    nri <- (if isP || isSP || isB then
              ov <- rd_flag ;;
              if ov then
                l0 <- rd_ue ;;
                l1 <- (if isB then rd_ue else ret 0) ;;
                ret (ov, u32 l0, u32 l1)
              else ret (ov, u32 (pps_num_ref_idx_l0_default_active_minus1 pp),
                        u32 (pps_num_ref_idx_l1_default_active_minus1 pp))
            else ret (false, 0, 0)) ;;
    let '(ov, l0, l1) := nri in
    m0 <- (if negb isI && negb isSI then
             f <- rd_flag ;;
             stt <- (if f then rplm_loop loop_fuel (0, 0, 0, 0) else ret (0, 0, 0, 0)) ;;
             ret (f, stt)
           else ret (false, (0, 0, 0, 0))) ;;
    let '(rplm0, st0) := m0 in
    m1 <- (if isB then
             f <- rd_flag ;;
             stt <- (if f then rplm_loop loop_fuel st0 else ret st0) ;;
             ret (f, stt)
           else ret (false, st0)) ;;
    let '(rplm1, st1) := m1 in
    let '(idc, absdiff, ltpn0, absview) := st1 in
    let cat_nz := negb (sps_chroma_array_type sp =? 0) in
    pw <- (if (pps_weighted_pred pp && (isP || isSP)) || ((pps_weighted_bipred_idc pp =? 1) && isB) then
             ld <- rd_ue ;;
             cd <- (if cat_nz then rd_ue else ret 0) ;;
             x0 <- rep_break_n (l0 + 1) (pwt_entry cat_nz) ;;
             x1 <- (if isB then rep_break_n (l1 + 1) (pwt_entry cat_nz) else ret []) ;;
             ret (u32 ld, u32 cd)
           else ret (0, 0)) ;;
    let '(luma_denom, chroma_denom) := pw in
    mk <- (if negb (nal_ref_idc =? 0) then
             if nalu_type =? 5 then
               a <- rd_flag ;; b <- rd_flag ;; ret (a, b, false, (0, ltpn0, 0, 0))
             else
               ad <- rd_flag ;;
               stt <- (if ad then mmco_loop loop_fuel (0, ltpn0, 0, 0) else ret (0, ltpn0, 0, 0)) ;;
               ret (false, false, ad, stt)
           else ret (false, false, false, (0, ltpn0, 0, 0))) ;;
    let '(no_out, lt_ref, adaptive, (diffpn, ltpn, ltfi, maxlt)) := mk in
    cabac <- (if pps_entropy_coding_mode pp && negb isI && negb isSI then rd_ue else ret 0) ;;
    qpd <- rd_se ;;
    qs <- (if isSP || isSI then
             sw <- (if isSP then rd_flag else ret false) ;;
             d <- rd_se ;; ret (sw, d)
           else ret (false, 0%Z)) ;;
    let '(sp_switch, qsd) := qs in
    db <- (if pps_deblocking_filter_control_present pp then
             idc <- rd_ue ;;
             if negb (u32 idc =? 1) then a <- rd_se ;; b <- rd_se ;; ret (u32 idc, a, b)
             else ret (u32 idc, 0%Z, 0%Z)
           else ret (0, 0%Z, 0%Z)) ;;
    let '(ddf, alpha, beta) := db in
    sgcc <- (if (0 <? pps_num_slice_groups_minus1 pp) && (3 <=? pps_slice_group_map_type pp)
                && (pps_slice_group_map_type pp <=? 5) then
               let size := u64 (pps_pic_size_in_map_units_minus1 pp + 1) in
               let rate := u64 (pps_slice_group_change_rate_minus1 pp + 1) in
               if rate =? 0 then fail                    (* guard ecb7975 *)
               else rd (N.log2_up (size / rate + 1))     (* int(math.Ceil(math.Log2(float64(...)))) *)
             else ret 0) ;;
    nb <- get_nbytes ;;
    ret (mkSh slice_type (u32 first_mb) (u32 pps_id) sps_id (u32 cpl) (u32 frame_num) (u32 idr) (u32 lsb)
              (i32 dbot) (i32 d0) (i32 d1) (u32 red) l0 l1 idc absdiff ltpn absview luma_denom chroma_denom
              diffpn ltfi maxlt (u32 cabac) (i32 qpd) (i32 qsd) ddf (i32 alpha) (i32 beta)
              (u32 sgcc) (u32 nb) field_pic bottom direct ov rplm0 rplm1 no_out lt_ref sp_switch adaptive)
    end end.

End Parsers.

Definition run {St A} (m : St -> res (A * St)) (s : St) : res A :=
  match m s with Ok (a, _) => Ok a | Err => Err | Panic => Panic | OutOfFuel => OutOfFuel end.

Definition parse_sps_er (beyond : bool) (nalu : list N) : res sps := run (parse_sps ER beyond) (rinit nalu).
Definition parse_sps_br (beyond : bool) (nalu : list N) : res sps := run (parse_sps BR beyond) (binit nalu).

Definition parse_pps_er (spsmap : N -> option N) (nalu : list N) : res pps := run (parse_pps ER spsmap) (rinit nalu).
Definition parse_pps_br (spsmap : N -> option N) (nalu : list N) : res pps := run (parse_pps BR spsmap) (binit nalu).

Definition parse_slice_er spsmap ppsmap (nalu : list N) : res slice_hdr :=
  run (parse_slice_header ER spsmap ppsmap) (rinit nalu).
Definition parse_slice_br spsmap ppsmap (nalu : list N) : res slice_hdr :=
  run (parse_slice_header BR spsmap ppsmap) (binit nalu).

(* ------------------------------------------------------------------ flattening for the line protocol *)
Definition zb (b : bool) : Z := if b then 1%Z else 0%Z.
Definition zn (n : N) : Z := Z.of_N n.
Definition flat_list {A} (f : A -> list Z) (l : list A) : list Z :=
  Z.of_nat (length l) :: flat_map f l.
Definition flat_opt {A} (f : A -> list Z) (o : option A) : list Z :=
  match o with None => [0%Z] | Some a => 1%Z :: f a end.

Definition flat_scaling (l : list (option (list Z))) : list Z :=
  flat_list (fun o => match o with None => [0%Z] | Some x => flat_list (fun z => [z]) x end) l.

Definition flat_hrd (h : hrd) : list Z :=
  [zn (hrd_cpb_cnt_minus1 h); zn (hrd_bit_rate_scale h); zn (hrd_cpb_size_scale h)]
  ++ flat_list (fun e => [zn (cpb_bit_rate e); zn (cpb_size e); zb (cpb_cbr e)]) (hrd_entries h)
  ++ [zn (hrd_initial_cpb_removal_delay_length_minus1 h); zn (hrd_cpb_removal_delay_length_minus1 h);
      zn (hrd_dpb_output_delay_length_minus1 h); zn (hrd_time_offset_length h)].

Definition flat_vui (v : vui) : list Z :=
  [zn (vui_sar_width v); zn (vui_sar_height v); zb (vui_overscan_info_present v);
   zb (vui_overscan_appropriate v); zb (vui_video_signal_type_present v); zn (vui_video_format v);
   zb (vui_video_full_range v); zb (vui_colour_description v); zn (vui_colour_primaries v);
   zn (vui_transfer_characteristics v); zn (vui_matrix_coefficients v);
   zb (vui_chroma_loc_info_present v); zn (vui_chroma_loc_top v); zn (vui_chroma_loc_bottom v);
   zb (vui_timing_info_present v); zn (vui_num_units_in_tick v); zn (vui_time_scale v);
   zb (vui_fixed_frame_rate v); zb (vui_nal_hrd_present v)]
  ++ flat_opt flat_hrd (vui_nal_hrd v)
  ++ [zb (vui_vcl_hrd_present v)]
  ++ flat_opt flat_hrd (vui_vcl_hrd v)
  ++ [zb (vui_low_delay_hrd v); zb (vui_pic_struct_present v); zb (vui_bitstream_restriction v);
      zb (vui_mv_over_pic_boundaries v); zn (vui_max_bytes_per_pic_denom v);
      zn (vui_max_bits_per_mb_denom v); zn (vui_log2_max_mv_length_horizontal v);
      zn (vui_log2_max_mv_length_vertical v); zn (vui_max_num_reorder_frames v);
      zn (vui_max_dec_frame_buffering v)].

Definition flat_sps (s : sps) : list Z :=
  [zn (sps_profile s); zn (sps_compat s); zn (sps_level s); zn (sps_id s);
   zn (sps_chroma_format_idc s); zb (sps_separate_colour_plane s);
   zn (sps_bit_depth_luma_minus8 s); zn (sps_bit_depth_chroma_minus8 s);
   zb (sps_qpprime_y_zero_transform_bypass s); zb (sps_seq_scaling_matrix_present s)]
  ++ flat_scaling (sps_seq_scaling_lists s)
  ++ [zn (sps_log2_max_frame_num_minus4 s); zn (sps_pic_order_cnt_type s);
      zn (sps_log2_max_pic_order_cnt_lsb_minus4 s); zb (sps_delta_pic_order_always_zero s);
      zn (sps_offset_for_non_ref_pic s); zn (sps_offset_for_top_to_bottom_field s)]
  ++ flat_list (fun x => [zn x]) (sps_ref_frames_in_poc_cycle s)
  ++ [zn (sps_num_ref_frames s); zb (sps_gaps_in_frame_num_allowed s); zb (sps_frame_mbs_only s);
      zb (sps_mb_adaptive_frame_field s); zb (sps_direct_8x8_inference s); zb (sps_frame_cropping s);
      zn (sps_crop_left s); zn (sps_crop_right s); zn (sps_crop_top s); zn (sps_crop_bottom s);
      zn (sps_width s); zn (sps_height s); zn (sps_nr_bytes_before_vui s); zn (sps_nr_bytes_read s)]
  ++ flat_opt flat_vui (sps_vui s).

Definition flat_nlist (l : list N) : list Z := flat_list (fun x => [zn x]) l.

Definition flat_pps (p : pps) : list Z :=
  [zn (pps_id p); zn (pps_sps_id p); zb (pps_entropy_coding_mode p); zb (pps_bottom_field_pic_order p);
   zn (pps_num_slice_groups_minus1 p); zn (pps_slice_group_map_type p)]
  ++ flat_nlist (pps_run_length_minus1 p) ++ flat_nlist (pps_top_left p) ++ flat_nlist (pps_bottom_right p)
  ++ [zb (pps_slice_group_change_direction p); zn (pps_slice_group_change_rate_minus1 p);
      zn (pps_pic_size_in_map_units_minus1 p)]
  ++ flat_nlist (pps_slice_group_id p)
  ++ [zn (pps_num_ref_idx_l0_default_active_minus1 p); zn (pps_num_ref_idx_l1_default_active_minus1 p);
      zb (pps_weighted_pred p); zn (pps_weighted_bipred_idc p);
      pps_pic_init_qp_minus26 p; pps_pic_init_qs_minus26 p; pps_chroma_qp_index_offset p;
      zb (pps_deblocking_filter_control_present p); zb (pps_constrained_intra_pred p);
      zb (pps_redundant_pic_cnt_present p); zb (pps_transform_8x8_mode p);
      zb (pps_pic_scaling_matrix_present p)]
  ++ flat_scaling (pps_pic_scaling_lists p)
  ++ [pps_second_chroma_qp_index_offset p].

Definition flat_slice (h : slice_hdr) : list Z :=
  [zn (sh_slice_type h); zn (sh_first_mb_in_slice h); zn (sh_pic_param_id h); zn (sh_seq_param_id h);
   zn (sh_color_plane_id h); zn (sh_frame_num h); zn (sh_idr_pic_id h); zn (sh_pic_order_cnt_lsb h);
   sh_delta_pic_order_cnt_bottom h; sh_delta_pic_order_cnt0 h; sh_delta_pic_order_cnt1 h;
   zn (sh_redundant_pic_cnt h); zn (sh_num_ref_idx_l0_active_minus1 h); zn (sh_num_ref_idx_l1_active_minus1 h);
   zn (sh_modification_of_pic_nums_idc h); zn (sh_abs_diff_pic_num_minus1 h); zn (sh_long_term_pic_num h);
   zn (sh_abs_diff_view_idx_minus1 h); zn (sh_luma_log2_weight_denom h); zn (sh_chroma_log2_weight_denom h);
   zn (sh_difference_of_pic_nums_minus1 h); zn (sh_long_term_frame_idx h);
   zn (sh_max_long_term_frame_idx_plus1 h); zn (sh_cabac_init_idc h);
   sh_slice_qp_delta h; sh_slice_qs_delta h; zn (sh_disable_deblocking_filter_idc h);
   sh_slice_alpha_c0_offset_div2 h; sh_slice_beta_offset_div2 h; zn (sh_slice_group_change_cycle h);
   zn (sh_size h); zb (sh_field_pic h); zb (sh_bottom_field h); zb (sh_direct_spatial_mv_pred h);
   zb (sh_num_ref_idx_active_override h); zb (sh_ref_pic_list_modification_l0 h);
   zb (sh_ref_pic_list_modification_l1 h); zb (sh_no_output_of_prior_pics h);
   zb (sh_long_term_reference h); zb (sh_sp_for_switch h); zb (sh_adaptive_ref_pic_marking_mode h)].
