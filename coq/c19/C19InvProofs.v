(* C19InvProofs.v — the structural invariant of init segments over every op sequence. *)
From Coq Require Import String Ascii.
From V.lib Require Import Base.
From V.c19 Require Import C19Model C19Spec.

(* ------------------------------------------------------------------ strings *)
Lemma str_eqb_eq a b : str_eqb a b = true <-> a = b.
Proof.
  revert b. induction a as [|x a IH]; intros [|y b]; cbn [str_eqb]; split; intros H; try discriminate; try reflexivity.
  - apply andb_prop in H. destruct H as [H1 H2]. apply N.eqb_eq in H1. apply IH in H2. subst. reflexivity.
  - inversion H; subst. rewrite N.eqb_refl. cbn [andb]. apply IH. reflexivity.
Qed.

Lemma str_eqb_refl a : str_eqb a a = true.
Proof. apply str_eqb_eq. reflexivity. Qed.

(* ------------------------------------------------------------------ last_trak_idx *)
Lemma last_trak_from_traks l : forall i acc,
  last_trak_from i (map MCtrak l) acc = match l with [] => acc | _ => (i + length l - 1)%nat end.
Proof.
  induction l as [|x l IH]; intros i acc; cbn [map last_trak_from is_trak length]; [reflexivity|].
  rewrite IH. destruct l; cbn [length]; lia.
Qed.

Lemma last_trak_idx_inv n :
  last_trak_idx (base_children ++ map MCtrak (seq 0 n)) = match n with O => O | _ => S n end.
Proof.
  unfold last_trak_idx, base_children. cbn [app last_trak_from is_trak].
  rewrite last_trak_from_traks. destruct n; cbn [seq]; [reflexivity|].
  cbn [length]. rewrite seq_length. lia.
Qed.

Lemma ids_upto_S n : ids_upto (S n) = ids_upto n ++ [N.of_nat (S n)].
Proof. unfold ids_upto. rewrite seq_S, map_app. reflexivity. Qed.

Lemma ids_upto_length n : length (ids_upto n) = n.
Proof. unfold ids_upto. rewrite map_length, seq_length. reflexivity. Qed.

Lemma in_ids_upto n x : In x (ids_upto n) -> 1 <= x <= N.of_nat n.
Proof.
  unfold ids_upto. rewrite in_map_iff. intros [i [<- Hi]]. apply in_seq in Hi. lia.
Qed.

(* ------------------------------------------------------------------ moov_add_trak under the invariant *)
Lemma moov_add_trak_inv s t :
  children s = base_children ++ map MCtrak (seq 0 (length (traks s))) ->
  children (moov_add_trak s t) = base_children ++ map MCtrak (seq 0 (S (length (traks s))))
  /\ traks (moov_add_trak s t) = traks s ++ [t]
  /\ trexs (moov_add_trak s t) = trexs s
  /\ next_id (moov_add_trak s t) = next_id s.
Proof.
  intros Hc. unfold moov_add_trak.
  set (n := length (traks s)) in *.
  assert (Hlti : last_trak_idx (children s) = match n with O => O | _ => S n end).
  { rewrite Hc. apply last_trak_idx_inv. }
  rewrite Hlti.
  assert (Hlen : length (children s) = S (S n)).
  { rewrite Hc. unfold base_children. cbn [app length]. rewrite map_length, seq_length. reflexivity. }
  rewrite Hlen.
  assert (Hcond : negb (Nat.eqb (match n with O => O | _ => S n end) 0)
                  && negb (Nat.eqb (match n with O => O | _ => S n end) (S (S n) - 1)) = false).
  { destruct n; cbn [Nat.eqb negb andb]; [reflexivity|].
    replace (S (S (S n)) - 1)%nat with (S (S n)) by lia. rewrite Nat.eqb_refl. reflexivity. }
  rewrite Hcond. cbn [children traks trexs next_id].
  repeat split; try reflexivity.
  rewrite Hc, seq_S, map_app, app_assoc. reflexivity.
Qed.

(* ------------------------------------------------------------------ descriptors keep the core of a trak *)
Lemma core_stsd_add t e : core (stsd_add t e) = core t.
Proof. reflexivity. Qed.
Lemma core_set_dims t w h : core (set_tkhd_dims t w h) = core t.
Proof. reflexivity. Qed.

Ltac core_break :=
  repeat match goal with
         | |- context [match ?x with _ => _ end] => destruct x
         | |- context [if ?x then _ else _] => destruct x
         end; cbn [snd]; try reflexivity.

Section P.
  Variable avc_parse : str -> option avc_info.
  Variable hevc_parse : str -> option (N * N * list N).

  Lemma set_desc_core t d : core (snd (set_desc avc_parse hevc_parse t d)) = core t.
  Proof.
    destruct d; cbn [set_desc].
    - unfold set_avc. core_break.
    - unfold set_hevc. core_break.
    - unfold set_aac. core_break.
    - unfold set_ac3. core_break.
    - unfold set_ec3. core_break.
    - unfold set_wvtt. core_break.
    - unfold set_stpp. core_break.
  Qed.

  Lemma core_id t t' : core t' = core t -> tk_id t' = tk_id t.
  Proof. unfold core. intros H. inversion H. reflexivity. Qed.

  (* ---------------------------------------------------------------- replace_nth *)
  Lemma replace_nth_length {A} k (x : A) l : length (replace_nth k x l) = length l.
  Proof. revert k. induction l as [|y l IH]; intros [|k]; cbn [replace_nth length]; try reflexivity. rewrite IH. reflexivity. Qed.

  Lemma replace_nth_map {A B} (f : A -> B) k x l y :
    nth_error l k = Some y -> f x = f y -> map f (replace_nth k x l) = map f l.
  Proof.
    revert k. induction l as [|z l IH]; intros [|k]; cbn [nth_error replace_nth map]; try discriminate.
    - intros [= ->] ->. reflexivity.
    - intros Hn Hf. rewrite (IH k Hn Hf). reflexivity.
  Qed.

  (* ---------------------------------------------------------------- one step *)
  Definition bound (s : st) (k : nat) : Prop := N.of_nat (length (traks s) + k) < 4294967295.

  Lemma step_setdesc_cores s k d :
    map core (traks (snd (step avc_parse hevc_parse s (SetDesc k d)))) = map core (traks s).
  Proof.
    cbn [step]. destruct (nth_error (traks s) k) as [t|] eqn:Hn; [|reflexivity].
    pose proof (set_desc_core t d) as Hc.
    destruct (set_desc avc_parse hevc_parse t d) as [oc t']. cbn [snd traks] in *.
    apply (replace_nth_map core k t' (traks s) t Hn Hc).
  Qed.

  Lemma step_setdesc_rest s k d :
    let s' := snd (step avc_parse hevc_parse s (SetDesc k d)) in
    children s' = children s /\ trexs s' = trexs s /\ next_id s' = next_id s /\ length (traks s') = length (traks s).
  Proof.
    cbn [step]. destruct (nth_error (traks s) k) as [t|]; [|repeat split; reflexivity].
    destruct (set_desc avc_parse hevc_parse t d) as [oc t']. cbn [snd children trexs next_id traks].
    rewrite replace_nth_length. repeat split; reflexivity.
  Qed.

  Lemma map_core_ids l l' : map core l' = map core l -> map tk_id l' = map tk_id l.
  Proof.
    revert l'. induction l as [|t l IH]; intros [|t' l']; cbn [map]; intros H; try discriminate; [reflexivity|].
    remember (core t') as c1 eqn:E1. remember (core t) as c2 eqn:E2.
    injection H as H1 H2. rewrite (IH l' H2). f_equal.
    subst. unfold core in H1. inversion H1. reflexivity.
  Qed.

  Lemma next_above_cores s s' :
    map core (traks s') = map core (traks s) -> next_id s' = next_id s -> next_above s -> next_above s'.
  Proof.
    unfold next_above. intros Hc Hn H. rewrite Hn.
    apply map_core_ids in Hc.
    rewrite Forall_forall in *. intros t' Ht'.
    assert (Hin : In (tk_id t') (map tk_id (traks s'))) by (apply in_map; exact Ht').
    rewrite Hc in Hin. apply in_map_iff in Hin. destruct Hin as [t [Heq Ht]]. rewrite <- Heq. apply H. exact Ht.
  Qed.

  Lemma step_inv s o :
    bound s 1 -> inv_struct s -> next_above s ->
    let '(oc, s') := step avc_parse hevc_parse s o in
    inv_struct s' /\ next_above s' /\ (length (traks s') <= S (length (traks s)))%nat.
  Proof.
    intros Hb [Hc [Hi Ht]] Hn. destruct o as [ts m lang|k d].
    - (* AddEmptyTrack *)
      cbn [step]. unfold add_empty_track.
      set (n := length (traks s)) in *.
      assert (Hid : u32 (N.of_nat n + 1) = N.of_nat (S n)).
      { unfold u32, bound in *. fold n in Hb. rewrite N.mod_small; lia. }
      assert (Hnx : u32 (N.of_nat (S n) + 1) = N.of_nat (S n) + 1).
      { unfold u32, bound in *. fold n in Hb. rewrite N.mod_small; lia. }
      rewrite Hid, Hnx.
      destruct (create_empty_trak (N.of_nat (S n)) ts m lang) as [t|] eqn:Hce.
      + (* ok *)
        destruct (moov_add_trak_inv (mkSt (children s) (traks s) (trexs s) (N.of_nat (S n) + 1)) t) as [Hc2 [Ht2 [Hx2 Hn2]]];
          [exact Hc|].
        cbn [traks trexs next_id children] in Hc2, Ht2, Hx2, Hn2. fold n in Hc2.
        assert (Htid : tk_id t = N.of_nat (S n)).
        { unfold create_empty_trak in Hce. destruct (create_hdlr m) as [[ht hn]|]; [|discriminate].
          destruct (fst _); [|discriminate]. inversion Hce. reflexivity. }
        assert (Hlen : length (traks s ++ [t]) = S n) by (rewrite app_length; cbn [length]; lia).
        split; [|split].
        * unfold inv_struct. cbn [children traks trexs]. rewrite Ht2, Hlen.
          split; [exact Hc2|]. split.
          -- rewrite map_app, Hi. cbn [map]. rewrite Htid, ids_upto_S. reflexivity.
          -- rewrite Hx2, Ht, ids_upto_S. reflexivity.
        * unfold next_above. cbn [traks next_id]. rewrite Ht2, Hn2. apply Forall_app. split.
          -- rewrite Forall_forall. intros t0 Ht0.
             assert (Hin : In (tk_id t0) (map tk_id (traks s))) by (apply in_map; exact Ht0).
             rewrite Hi in Hin. apply in_ids_upto in Hin. lia.
          -- constructor; [|constructor]. rewrite Htid. lia.
        * cbn [traks]. rewrite Ht2, Hlen. lia.
      + (* panic: only NextTrackID was written *)
        split; [|split].
        * unfold inv_struct. cbn [children traks trexs]. repeat split; assumption.
        * unfold next_above. cbn [traks next_id]. rewrite Forall_forall. intros t0 Ht0.
          assert (Hin : In (tk_id t0) (map tk_id (traks s))) by (apply in_map; exact Ht0).
          rewrite Hi in Hin. apply in_ids_upto in Hin. fold n in Hin. lia.
        * cbn [traks]. lia.
    - (* SetDesc *)
      pose proof (step_setdesc_cores s k d) as Hcores.
      pose proof (step_setdesc_rest s k d) as Hrest. cbv zeta in Hrest.
      destruct (step avc_parse hevc_parse s (SetDesc k d)) as [oc s']. cbn [snd] in *.
      destruct Hrest as [Hc' [Ht' [Hn' Hl']]].
      split; [|split].
      + unfold inv_struct. rewrite Hl', Hc', Ht'. apply map_core_ids in Hcores. rewrite Hcores.
        repeat split; assumption.
      + apply (next_above_cores s s'); assumption.
      + lia.
  Qed.

  (* ---------------------------------------------------------------- histories *)
  Lemma run_from_inv ops : forall s,
    bound s (length ops) -> inv_struct s -> next_above s ->
    inv_struct (snd (run_from avc_parse hevc_parse s ops)) /\ next_above (snd (run_from avc_parse hevc_parse s ops)).
  Proof.
    induction ops as [|o ops IH]; intros s Hb Hs Hn; cbn [run_from snd]; [split; assumption|].
    assert (Hb1 : bound s 1) by (unfold bound in *; cbn [length] in Hb; lia).
    pose proof (step_inv s o Hb1 Hs Hn) as Hst.
    destruct (step avc_parse hevc_parse s o) as [oc s'].
    destruct Hst as [Hs' [Hn' Hl']].
    destruct oc.
    - specialize (IH s'). destruct (run_from avc_parse hevc_parse s' ops) as [ocs s'']. cbn [snd] in *.
      apply IH; try assumption. unfold bound in *. cbn [length] in Hb. lia.
    - specialize (IH s'). destruct (run_from avc_parse hevc_parse s' ops) as [ocs s'']. cbn [snd] in *.
      apply IH; try assumption. unfold bound in *. cbn [length] in Hb. lia.
    - cbn [snd]. split; assumption.
  Qed.

  Lemma empty_init_inv : inv_struct empty_init /\ next_above empty_init.
  Proof.
    split.
    - unfold inv_struct. cbn. repeat split; reflexivity.
    - unfold next_above. cbn. constructor.
  Qed.

  Lemma inv_all ops :
    N.of_nat (length ops) < 4294967295 ->
    let s := snd (run avc_parse hevc_parse ops) in inv_struct s /\ next_above s.
  Proof.
    intros Hb. cbv zeta. unfold run. destruct empty_init_inv as [H1 H2].
    apply run_from_inv; assumption.
  Qed.

  (* what fragment decoding relies on: ids are unique and MvexBox.GetTrex(id) finds a trex for every track *)
  Lemma ids_upto_nodup n : NoDup (ids_upto n).
  Proof.
    induction n as [|n IH]; [constructor|].
    rewrite ids_upto_S.
    assert (H : ~ In (N.of_nat (S n)) (ids_upto n)).
    { intros Hin. apply in_ids_upto in Hin. lia. }
    clear -IH H. induction (ids_upto n) as [|x l IHl]; cbn [app].
    - constructor; [intros []|constructor].
    - inversion IH; subst. constructor.
      + rewrite in_app_iff. intros [Hx|[Hx|[]]]; [contradiction|]. apply H. left. symmetry. exact Hx.
      + apply IHl; [assumption|]. intros Hin. apply H. right. exact Hin.
  Qed.

  Lemma trex_lookup ops :
    N.of_nat (length ops) < 4294967295 ->
    let s := snd (run avc_parse hevc_parse ops) in
    NoDup (map tk_id (traks s)) /\ NoDup (trexs s)
    /\ (forall t, In t (traks s) -> In (tk_id t) (trexs s))
    /\ length (trexs s) = length (traks s).
  Proof.
    intros Hb. cbv zeta. destruct (inv_all ops Hb) as [[Hc [Hi Ht]] _].
    set (s := snd (run avc_parse hevc_parse ops)) in *.
    rewrite Hi, Ht. repeat split; try apply ids_upto_nodup.
    - intros t Hin. rewrite <- Hi. apply in_map. exact Hin.
    - apply ids_upto_length.
  Qed.
End P.
