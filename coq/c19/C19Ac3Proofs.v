(* C19Ac3Proofs.v — the AC-3 / Enhanced AC-3 configuration boxes written for Set{AC3,EC3}Descriptor decode, with the
   real decoders' algorithm (C19Ac3Model over C13's bits.Reader model), to the configuration supplied:
   for EVERY configuration whose fields fit their bits (any number 1..8 of substreams).  The bit level is C13's:
   run_plain_stream (what the writer leaves), read_plain_prefix (what one Read returns). *)
From V.lib Require Import Base.
From V.c13 Require Import C13Spec C13Model C13Bits C13WriterProofs C13ReaderProofs C13RoundTrip C13PlainProofs.
From V.c19 Require Import C19Model C19TreeModel C19Ac3Model.
From V.c19 Require C19Spec C19DescProofs.

(* ------------------------------------------------------------------ the written bytes as a bit stream *)
(* Flush: the pending bits, left-aligned and zero-padded, become one more byte; fewer than 8 padding bits
   (C13PlainProofs.flush_plain_out with the length of the padding) *)
Lemma flush_plain_out_pad s cur :
  PStream s cur ->
  exists pad, bytes_to_bits (wout (flush_plain s)) = cur ++ pad /\ (length pad < 8)%nat /\
              Forall lt256 (wout (flush_plain s)).
Proof.
  intros [raw [[Hn [Hlt Ho]] Hc]]. unfold flush_plain.
  destruct (N.eqb_spec (wn s) 0) as [E|E].
  - exists []. unfold wout. rewrite Ho, rev_involutive, app_nil_r. split; [|split; [cbn; lia|exact Hlt]].
    unfold pending in Hc. rewrite E in Hc. cbn [N.to_nat bits_of] in Hc. rewrite app_nil_r in Hc. exact Hc.
  - exists (repeat false (8 - N.to_nat (wn s))). unfold wout. cbn [wrev]. rewrite Ho. cbn [rev].
    rewrite rev_involutive. split; [|split].
    + rewrite bytes_to_bits_app, <- Hc, <- app_assoc. f_equal.
      unfold bytes_to_bits. cbn [flat_map]. rewrite app_nil_r. unfold pending.
      assert (Hz : forall k, bits_of k 0 = repeat false k).
      { induction k as [|k IHk]; [reflexivity|]. cbn [bits_of repeat]. rewrite N.bits_0, IHk. reflexivity. }
      rewrite <- Hz.
      replace 8%nat with (N.to_nat (wn s) + (8 - N.to_nat (wn s)))%nat at 1 by lia.
      apply bits_of_app_ext.
      * intros i Hi. rewrite N.land_spec. change 255 with (N.ones 8).
        rewrite N.ones_spec_low by lia. rewrite andb_true_r.
        rewrite N.shiftl_spec_low by lia. rewrite N.bits_0. reflexivity.
      * intros i Hi. rewrite N.land_spec. change 255 with (N.ones 8).
        rewrite N.ones_spec_low by lia. rewrite andb_true_r.
        rewrite N.shiftl_spec_high' by lia. f_equal. lia.
    + rewrite repeat_length. lia.
    + apply Forall_app. split; [exact Hlt|]. constructor; [|constructor].
      unfold lt256. rewrite land_255. apply N.mod_lt. lia.
Qed.

Lemma plain_payload_bits ops :
  forallb plain_op ops = true ->
  exists pad, bytes_to_bits (wout (run_writer_plain (ops ++ [WFlush]))) = concat (map pvbits ops) ++ pad /\
              (length pad < 8)%nat /\ Forall lt256 (wout (run_writer_plain (ops ++ [WFlush]))).
Proof.
  intros Hok. unfold run_writer_plain. rewrite fold_left_app. cbn [fold_left wstep_plain].
  apply flush_plain_out_pad.
  exact (run_plain_stream ops winit [] ltac:(exists []; split; [apply WInv_init|reflexivity]) Hok).
Qed.

Lemma rinit_good data : Forall lt256 data -> RGood (rinit data) /\ pbits (rinit data) = bytes_to_bits data.
Proof.
  intros H. split; [|reflexivity].
  split; [split; [reflexivity|split; [cbn; lia|exact H]]|cbn; lia].
Qed.

(* one Read(w) of a value written with w bits *)
Lemma rd_bits s w v rest :
  RGood s -> w <= 32 -> v < 2 ^ w -> pbits s = bits_of (N.to_nat w) v ++ rest ->
  exists s', read_plain s w = (v, s') /\ pbits s' = rest /\ RGood s'.
Proof.
  intros HG Hw Hv Hb.
  destruct (read_plain_prefix s w _ _ HG ltac:(lia) Hb (bits_of_length _ _)) as [s1 [Hr [Hb1 [HG1 _]]]].
  exists s1. rewrite Hr, val_of_bits_of, N2Nat.id, N.mod_small by exact Hv. auto.
Qed.

Lemma plain_bits v w : w <= 32 -> v < 2 ^ w -> plain_op (WBits v w) = true.
Proof.
  intros Hw Hv. cbn [plain_op]. apply andb_true_iff. split; [apply N.leb_le; exact Hw|apply N.ltb_lt; exact Hv].
Qed.

Ltac pows :=
  change (2 ^ 1) with 2 in *; change (2 ^ 2) with 4 in *; change (2 ^ 3) with 8 in *; change (2 ^ 4) with 16 in *;
  change (2 ^ 5) with 32 in *; change (2 ^ 9) with 512 in *; change (2 ^ 13) with 8192 in *.

(* read the next field: the bit stream of the reader state starts with the w bits of v *)
Ltac rd_next HG HP w v s1 R1 :=
  let HP1 := fresh "HP" in let HG1 := fresh "HG" in
  destruct (rd_bits _ w v _ HG ltac:(lia) ltac:(pows; lia) HP) as [s1 [R1 [HP1 HG1]]];
  rewrite R1; cbv beta iota; clear HP; clear HG; rename HP1 into HP; rename HG1 into HG.

Lemma empty_pbits s : pbits s = [] -> rn s = 0 /\ skipn (N.to_nat (rpos s)) (rdata s) = [].
Proof.
  unfold pbits. intros H. apply app_eq_nil in H. destruct H as [H1 H2].
  apply (f_equal (@length bool)) in H1. rewrite bits_of_length in H1. cbn [length] in H1.
  apply (f_equal (@length bool)) in H2. rewrite bytes_to_bits_length in H2. cbn [length] in H2.
  split; [lia|]. apply length_zero_iff_nil. lia.
Qed.

(* ------------------------------------------------------------------ dac3 *)
Lemma dac3_roundtrip d : dac3_okb d = true -> dac3_decode (dac3_payload d) = Ok (d, 0, 0).
Proof.
  destruct d as [fscod bsid bsmod acmod lfeon brc]. unfold dac3_okb. intros H.
  repeat (apply andb_true_iff in H; let H' := fresh "B" in destruct H as [H H']).
  apply N.ltb_lt in H, B, B0, B1, B2, B3.
  unfold dac3_payload.
  set (ops := [WBits fscod 2; WBits bsid 5; WBits bsmod 3; WBits acmod 3; WBits lfeon 1; WBits brc 5; WBits 0 5]).
  change (run_writer_plain _) with (run_writer_plain (ops ++ [WFlush])).
  destruct (plain_payload_bits ops) as [pad [Hb [Hp Hf]]].
  { unfold ops. cbn [forallb]. rewrite !plain_bits by (pows; lia). reflexivity. }
  set (data := wout (run_writer_plain (ops ++ [WFlush]))) in *.
  assert (HL : length data = 3%nat /\ pad = []).
  { pose proof (f_equal (@length bool) Hb) as HL. rewrite bytes_to_bits_length in HL.
    unfold ops in HL. cbn [map concat pvbits] in HL. rewrite !app_length, !bits_of_length in HL.
    cbn [length] in HL.
    change (N.to_nat 2) with 2%nat in HL. change (N.to_nat 5) with 5%nat in HL.
    change (N.to_nat 3) with 3%nat in HL. change (N.to_nat 1) with 1%nat in HL.
    split; [lia|]. apply length_zero_iff_nil. lia. }
  destruct HL as [HL Hpad]. subst pad. rewrite app_nil_r in Hb.
  destruct (rinit_good data Hf) as [HG HP]. rewrite Hb in HP.
  unfold ops in HP. cbn [map concat pvbits] in HP. rewrite <- ?app_assoc in HP. cbn [app] in HP.
  unfold dac3_decode. unfold lenN. rewrite HL.
  change (3 <? N.of_nat 3) with false. cbv beta iota. change (N.to_nat 0) with 0%nat. cbn [dac3_zeros].
  rd_next HG HP 2 fscod s1 R1.
  rd_next HG HP 5 bsid s2 R2.
  rd_next HG HP 3 bsmod s3 R3.
  rd_next HG HP 3 acmod s4 R4.
  rd_next HG HP 1 lfeon s5 R5.
  rd_next HG HP 5 brc s6 R6.
  rd_next HG HP 5 0 s7 R7.
  reflexivity.
Qed.

(* ------------------------------------------------------------------ dec3 *)
Lemma ec3sub_plain e : ec3sub_okb e = true -> forallb plain_op (ec3sub_ops e) = true.
Proof.
  destruct e as [fscod bsid asvc bsmod acmod lfeon nds cl]. unfold ec3sub_okb, ec3sub_ops. intros H.
  repeat (apply andb_true_iff in H; let H' := fresh "B" in destruct H as [H H']).
  apply N.ltb_lt in H, B0, B1, B2, B3, B4, B5.
  rewrite forallb_app. cbn [forallb]. rewrite !plain_bits by (pows; lia). cbn [andb].
  destruct (0 <? nds); cbn [forallb].
  - apply N.ltb_lt in B. rewrite plain_bits by (pows; lia). reflexivity.
  - rewrite plain_bits by (pows; lia). reflexivity.
Qed.

Lemma ec3subs_plain subs : forallb ec3sub_okb subs = true -> forallb plain_op (flat_map ec3sub_ops subs) = true.
Proof.
  induction subs as [|e t IH]; intros H; [reflexivity|].
  cbn [forallb] in H. apply andb_true_iff in H. destruct H as [He Ht].
  cbn [flat_map]. rewrite forallb_app, (ec3sub_plain e He), (IH Ht). reflexivity.
Qed.

Lemma ec3sub_bits_len e : exists k, length (concat (map pvbits (ec3sub_ops e))) = (8 * k)%nat.
Proof.
  destruct e as [fscod bsid asvc bsmod acmod lfeon nds cl]. unfold ec3sub_ops.
  rewrite map_app, concat_app, app_length. cbn [map concat pvbits]. rewrite !app_length, !bits_of_length. cbn [length].
  destruct (0 <? nds); cbn [map concat pvbits]; rewrite !app_length, !bits_of_length; cbn [length].
  - exists 4%nat. reflexivity.
  - exists 3%nat. reflexivity.
Qed.

Lemma ec3subs_bits_len subs : exists k, length (concat (map pvbits (flat_map ec3sub_ops subs))) = (8 * k)%nat.
Proof.
  induction subs as [|e t [k IH]]; [exists 0%nat; reflexivity|].
  cbn [flat_map]. rewrite map_app, concat_app, app_length, IH.
  destruct (ec3sub_bits_len e) as [k1 H1]. rewrite H1. exists (k1 + k)%nat. lia.
Qed.

Lemma rd_ec3sub_ok s e rest :
  RGood s -> ec3sub_okb e = true -> pbits s = concat (map pvbits (ec3sub_ops e)) ++ rest ->
  exists s', rd_ec3sub s = (e, s') /\ pbits s' = rest /\ RGood s'.
Proof.
  destruct e as [fscod bsid asvc bsmod acmod lfeon nds cl]. unfold ec3sub_okb, ec3sub_ops. intros HG H HP.
  repeat (apply andb_true_iff in H; let H' := fresh "B" in destruct H as [H H']).
  apply N.ltb_lt in H, B0, B1, B2, B3, B4, B5.
  unfold rd_ec3sub.
  destruct (0 <? nds) eqn:E.
  - apply N.ltb_lt in B.
    cbn [app map concat pvbits] in HP. rewrite <- ?app_assoc in HP. cbn [app] in HP.
    rd_next HG HP 2 fscod s1 R1. rd_next HG HP 5 bsid s2 R2. rd_next HG HP 1 0 s3 R3.
    rd_next HG HP 1 asvc s4 R4. rd_next HG HP 3 bsmod s5 R5. rd_next HG HP 3 acmod s6 R6.
    rd_next HG HP 1 lfeon s7 R7. rd_next HG HP 3 0 s8 R8. rd_next HG HP 4 nds s9 R9.
    rewrite E. rd_next HG HP 9 cl s10 R10.
    exists s10. auto.
  - apply N.eqb_eq in B. subst cl.
    cbn [app map concat pvbits] in HP. rewrite <- ?app_assoc in HP. cbn [app] in HP.
    rd_next HG HP 2 fscod s1 R1. rd_next HG HP 5 bsid s2 R2. rd_next HG HP 1 0 s3 R3.
    rd_next HG HP 1 asvc s4 R4. rd_next HG HP 3 bsmod s5 R5. rd_next HG HP 3 acmod s6 R6.
    rd_next HG HP 1 lfeon s7 R7. rd_next HG HP 3 0 s8 R8. rd_next HG HP 4 nds s9 R9.
    rewrite E. rd_next HG HP 1 0 s10 R10.
    exists s10. auto.
Qed.

Lemma rd_ec3subs_ok : forall subs s rest,
  RGood s -> forallb ec3sub_okb subs = true ->
  pbits s = concat (map pvbits (flat_map ec3sub_ops subs)) ++ rest ->
  exists s', rd_ec3subs (length subs) s = Some (subs, s') /\ pbits s' = rest /\ RGood s'.
Proof.
  induction subs as [|e t IH]; intros s rest HG H HP.
  - exists s. cbn in HP. cbn [length rd_ec3subs]. auto.
  - cbn [forallb] in H. apply andb_true_iff in H. destruct H as [He Ht].
    cbn [flat_map] in HP. rewrite map_app, concat_app, <- app_assoc in HP.
    destruct (rd_ec3sub_ok s e _ HG He HP) as [s1 [R1 [HP1 HG1]]].
    cbn [length rd_ec3subs]. rewrite R1.
    assert (Herr : rerr s1 = false) by apply HG1. rewrite Herr.
    destruct (IH s1 rest HG1 Ht HP1) as [s2 [R2 [HP2 HG2]]]. rewrite R2. exists s2. auto.
Qed.

Lemma dec3_roundtrip d :
  dec3_okb d = true -> exists p, dec3_payload d = Some p /\ dec3_decode p = Ok (d, []).
Proof.
  destruct d as [dr subs]. unfold dec3_okb. intros H.
  repeat (apply andb_true_iff in H; let H' := fresh "B" in destruct H as [H H']).
  apply N.ltb_lt in H. apply N.leb_le in B1, B0.
  unfold dec3_payload.
  destruct subs as [|e0 t0] eqn:Es; [unfold lenN in B1; cbn in B1; lia|]. rewrite <- Es in *. clear Es e0 t0.
  eexists. split; [reflexivity|].
  set (ops := [WBits dr 13; WBits (lenN subs - 1) 3] ++ flat_map ec3sub_ops subs).
  replace ([WBits dr 13; WBits (lenN subs - 1) 3] ++ flat_map ec3sub_ops subs ++ [WFlush]) with (ops ++ [WFlush])
    by (unfold ops; rewrite <- app_assoc; reflexivity).
  destruct (plain_payload_bits ops) as [pad [Hb [Hp Hf]]].
  { unfold ops. rewrite forallb_app. cbn [forallb]. rewrite !plain_bits by (pows; lia).
    rewrite (ec3subs_plain subs B). reflexivity. }
  set (data := wout (run_writer_plain (ops ++ [WFlush]))) in *.
  assert (Hpad : pad = []).
  { pose proof (f_equal (@length bool) Hb) as HL. rewrite bytes_to_bits_length in HL.
    unfold ops in HL. rewrite map_app, concat_app in HL. cbn [map concat pvbits] in HL.
    rewrite !app_length, !bits_of_length in HL. cbn [length] in HL.
    change (N.to_nat 13) with 13%nat in HL. change (N.to_nat 3) with 3%nat in HL.
    destruct (ec3subs_bits_len subs) as [k Hk]. rewrite Hk in HL.
    apply length_zero_iff_nil. lia. }
  subst pad.
  destruct (rinit_good data Hf) as [HG HP]. rewrite Hb in HP.
  unfold ops in HP. rewrite map_app, concat_app in HP. cbn [map concat pvbits] in HP.
  rewrite <- ?app_assoc in HP. cbn [app] in HP.
  unfold dec3_decode.
  rd_next HG HP 13 dr s1 R1.
  assert (Hn : lenN subs - 1 < 8) by lia.
  destruct (rd_bits _ 3 (lenN subs - 1) _ HG ltac:(lia) ltac:(pows; lia) HP) as [s2 [R2 [HP2 HG2]]].
  rewrite R2. cbv beta iota.
  replace (N.to_nat (lenN subs - 1 + 1)) with (length subs) by (unfold lenN in *; lia).
  destruct (rd_ec3subs_ok subs s2 [] HG2 B HP2) as [s3 [R3 [HP3 HG3]]].
  rewrite R3. cbv beta iota.
  destruct (empty_pbits s3 HP3) as [Hrn Hsk].
  assert (Herr : rerr s3 = false) by apply HG3.
  unfold read_remaining. rewrite Herr, Hrn, Hsk. change (0 =? 0) with true. cbv beta iota. cbn [rerr].
  reflexivity.
Qed.

(* ------------------------------------------------------------------ what Set{AC3,EC3}Descriptor put into the track *)
From V.c19 Require Import C19BoxCodec C19BoxModel.

Lemma descriptor_ac3_decoded t d t' :
  dac3_okb d = true -> set_ac3 t d = (OOk, t') ->
  exists e, sd_entries t' = sd_entries t ++ [e] /\ se_cfg e = CfgDac3 d /\
            entry_box e = Some (preb (LAudio (se_name e) (se_dref e) (se_a e) (se_b e) (se_c e))
                                     [unkb n_dac3 (dac3_payload d)]) /\
            dac3_decode (dac3_payload d) = Ok (d, 0, 0).
Proof.
  intros Hok H. destruct d as [fscod bsid bsmod acmod lfeon brc].
  destruct (C19DescProofs.set_ac3_ok _ _ _ _ _ _ _ _ H) as [He _].
  eexists. split; [exact He|]. split; [reflexivity|]. split; [reflexivity|]. exact (dac3_roundtrip _ Hok).
Qed.

Lemma descriptor_ec3_decoded t d t' :
  dec3_okb d = true -> set_ec3 t d = (OOk, t') ->
  exists e p, sd_entries t' = sd_entries t ++ [e] /\ se_cfg e = CfgDec3 d /\
              entry_box e = Some (preb (LAudio (se_name e) (se_dref e) (se_a e) (se_b e) (se_c e)) [unkb n_dec3 p]) /\
              dec3_decode p = Ok (d, []).
Proof.
  intros Hok H. destruct (dec3_roundtrip d Hok) as [p [Hp Hd]].
  destruct d as [dr subs]. destruct subs as [|[fscod bsid asvc bsmod acmod lfeon nds cl] subs].
  { unfold dec3_payload in Hp. discriminate. }
  assert (Hcl : cl < 512).
  { unfold dec3_okb in Hok. repeat (apply andb_true_iff in Hok; let H' := fresh "B" in destruct Hok as [Hok H']).
    cbn [forallb ec3sub_okb] in B. repeat (apply andb_true_iff in B; let H' := fresh "C" in destruct B as [B H']).
    destruct (0 <? nds); [apply N.ltb_lt in C0; exact C0|apply N.eqb_eq in C0; lia]. }
  destruct (C19DescProofs.set_ec3_ok _ _ _ _ _ _ _ _ _ _ _ _ Hcl H) as [He _].
  eexists. exists p. split; [exact He|]. split; [reflexivity|]. split; [|exact Hd].
  cbn [entry_box se_cfg]. rewrite Hp. reflexivity.
Qed.

(* the chan_loc clause of ec3sub_okb is exact: a ChanLoc next to NumDepSub = 0 is not written *)
Lemma dec3_chanloc_refuted :
  exists d p, dec3_payload d = Some p /\ dec3_decode p <> Ok (d, []) /\
              d = mkDec3 640 [mkEc3Sub 0 16 0 0 7 1 0 5].
Proof.
  exists (mkDec3 640 [mkEc3Sub 0 16 0 0 7 1 0 5]). eexists.
  split; [vm_compute; reflexivity|]. split; [|reflexivity].
  intros H. vm_compute in H. discriminate H.
Qed.
