(* C19TreeProofs.v — about C19TreeModel.v:
   - the tree comparison of roundtrip_ok is equality (mboxes_eqb_eq), so roundtrip_ok s = true MEANS
     "C01's decoder applied to C01's encoding of the init tree returns that tree, recognised as a fragmented init,
      a trex for every track" (roundtrip_sound);
   - for EVERY state satisfying the structural invariant (all histories: C19_inv) the built tree passes
     File.AddChild's fragmented-init test and has a trex for every track id (built_fragmented, built_trex). *)
From Coq Require Import String Ascii.
From V.lib Require Import Base.
From V.c19 Require Import C19BoxCodec C19BoxModel.
From V.c19 Require Import C19Model C19Spec C19InvProofs C19RecModel C19TreeModel.

(* ------------------------------------------------------------------ equality *)
Lemma beq_eq x y : bytes_eqb x y = true -> x = y.
Proof.
  revert y. induction x as [|a x IH]; intros [|b y] H; cbn [bytes_eqb] in H; try discriminate; [reflexivity|].
  apply andb_true_iff in H. destruct H as [H1 H2]. apply N.eqb_eq in H1. subst. f_equal. now apply IH.
Qed.

Lemma hdr_eqb_eq a b : hdr_eqb a b = true -> a = b.
Proof.
  unfold hdr_eqb. intros H. apply andb_true_iff in H. destruct H as [H H3]. apply andb_true_iff in H. destruct H as [H1 H2].
  destruct a, b. simpl in *. apply beq_eq in H1. apply N.eqb_eq in H2, H3. subst. reflexivity.
Qed.

Lemma leaf_eqb_eq a b : leaf_eqb a b = true -> a = b.
Proof. unfold leaf_eqb. destruct (leaf_eq_dec a b); [auto|discriminate]. Qed.

Lemma rsvT_eqb_eq a b : rsvT_eqb a b = true -> a = b.
Proof.
  revert b. induction a as [|x a IH]; intros [|y b] H; cbn [rsvT_eqb] in H; try discriminate; [reflexivity|].
  apply andb_true_iff in H. destruct H as [H1 H2]. apply beq_eq in H1. subst. f_equal. now apply IH.
Qed.

Section MboxInd.
  Variable P : mbox -> Prop.
  Hypothesis Hleaf : forall h l r, P (MLeaf h l r).
  Hypothesis Hcont : forall h cs, Forall P cs -> P (MCont h cs).
  Hypothesis Hunk : forall h p, P (MUnknown h p).
  Hypothesis Hpre : forall h l r cs, Forall P cs -> P (MPre h l r cs).
  Fixpoint mbox_ind_nested (t : mbox) : P t :=
    match t with
    | MLeaf h l r => Hleaf h l r
    | MCont h cs => Hcont h cs ((fix go (cs : list mbox) : Forall P cs :=
                                   match cs with [] => Forall_nil _ | c :: t => Forall_cons _ (mbox_ind_nested c) (go t) end) cs)
    | MUnknown h p => Hunk h p
    | MPre h l r cs => Hpre h l r cs ((fix go (cs : list mbox) : Forall P cs :=
                                         match cs with [] => Forall_nil _ | c :: t => Forall_cons _ (mbox_ind_nested c) (go t) end) cs)
    end.
End MboxInd.

(* the local list comparison inside mbox_eqb *)
Definition all2 :=
  fix all2 (x y : list mbox) : bool :=
    match x, y with
    | [], [] => true
    | p :: x', q :: y' => mbox_eqb p q && all2 x' y'
    | _, _ => false
    end.

Lemma all2_eq cs : Forall (fun a => forall b, mbox_eqb a b = true -> a = b) cs ->
  forall ds, all2 cs ds = true -> cs = ds.
Proof.
  induction 1 as [|c cs Hc _ IH]; intros [|d ds] H; cbn [all2] in H; try discriminate; [reflexivity|].
  apply andb_true_iff in H. destruct H as [H1 H2]. f_equal; [apply Hc; exact H1|apply IH; exact H2].
Qed.

Lemma mbox_eqb_eq a : forall b, mbox_eqb a b = true -> a = b.
Proof.
  induction a as [h l r|h cs IH|h p|h l r cs IH] using mbox_ind_nested; intros [h2 l2 r2|h2 c2|h2 p2|h2 l2 r2 c2] H;
    cbn [mbox_eqb] in H; try discriminate.
  - apply andb_true_iff in H. destruct H as [H H3]. apply andb_true_iff in H. destruct H as [H1 H2].
    apply hdr_eqb_eq in H1. apply leaf_eqb_eq in H2. apply rsvT_eqb_eq in H3. subst. reflexivity.
  - apply andb_true_iff in H. destruct H as [H1 H2]. apply hdr_eqb_eq in H1. fold all2 in H2.
    apply (all2_eq cs IH) in H2. subst. reflexivity.
  - apply andb_true_iff in H. destruct H as [H1 H2]. apply hdr_eqb_eq in H1. apply beq_eq in H2. subst. reflexivity.
  - apply andb_true_iff in H. destruct H as [H H4]. apply andb_true_iff in H. destruct H as [H H3].
    apply andb_true_iff in H. destruct H as [H1 H2]. fold all2 in H4.
    apply hdr_eqb_eq in H1. apply leaf_eqb_eq in H2. apply rsvT_eqb_eq in H3. apply (all2_eq cs IH) in H4. subst. reflexivity.
Qed.

Lemma mboxes_eqb_eq x : forall y, mboxes_eqb x y = true -> x = y.
Proof.
  induction x as [|a x IH]; intros [|b y] H; cbn [mboxes_eqb] in H; try discriminate; [reflexivity|].
  apply andb_true_iff in H. destruct H as [H1 H2]. f_equal; [apply mbox_eqb_eq; exact H1|apply IH; exact H2].
Qed.

(* ------------------------------------------------------------------ what roundtrip_ok decides *)
Lemma roundtrip_sound s : roundtrip_ok s = true ->
  exists ts bs, tree_of s = Some ts /\ encode_seq false ts = Ok bs /\ decode_file bs = Ok ts
    /\ (traks s <> [] -> is_fragmented_init ts = true)
    /\ (forall t, In t (traks s) -> has_trex ts (tk_id t) = true).
Proof.
  unfold roundtrip_ok. intros H.
  destruct (tree_of s) as [ts|]; [|discriminate].
  destruct (encode_seq false ts) as [bs| | |] eqn:He; try discriminate.
  destruct (decode_file bs) as [ts'| | |] eqn:Hd; try discriminate.
  apply andb_true_iff in H. destruct H as [H H3]. apply andb_true_iff in H. destruct H as [H1 H2].
  apply mboxes_eqb_eq in H1. subst ts'.
  exists ts, bs. split; [reflexivity|]. split; [exact He|]. split; [exact Hd|]. split.
  - intros Hne. apply orb_true_iff in H2. destruct H2 as [H2|H2]; [|exact H2].
    apply Nat.eqb_eq in H2. destruct (traks s); [congruence|discriminate].
  - intros t Ht. rewrite forallb_forall in H3. exact (H3 t Ht).
Qed.

(* ------------------------------------------------------------------ the built tree of every invariant state *)
Lemma children_boxes_app s a b :
  children_boxes s (a ++ b) =
  match children_boxes s a, children_boxes s b with Some x, Some y => Some (x ++ y) | _, _ => None end.
Proof.
  induction a as [|c a IH]; cbn [app children_boxes].
  - destruct (children_boxes s b); reflexivity.
  - rewrite IH. destruct (child_box s c); [|reflexivity].
    destruct (children_boxes s a); [|reflexivity]. destruct (children_boxes s b); reflexivity.
Qed.

(* the stts chain of a trak built by trak_box: empty stts *)
Lemma trak_box_stts t b : trak_box t = Some b -> exists h tc, b = MCont h tc /\ h_name h = n_trak /\ trak_stts_entries tc = Some O.
Proof.
  unfold trak_box. destruct (entries_boxes (sd_entries t)) as [es|]; [|discriminate].
  intros [= <-]. unfold contb. eexists _, _. split; [reflexivity|]. split; [reflexivity|].
  destruct (el_lang t); destruct (mi_hdr t); reflexivity.
Qed.

Lemma built_fragmented s ts :
  inv_struct s -> traks s <> [] -> tree_of s = Some ts -> is_fragmented_init ts = true.
Proof.
  intros (Hc & _ & _) Hne. unfold tree_of. rewrite Hc.
  destruct (traks s) as [|t0 tr] eqn:Ht; [congruence|].
  cbn [length seq map base_children app children_boxes child_box nth_error].
  rewrite Ht. cbn [nth_error].
  destruct (trak_box t0) as [b0|] eqn:Hb; [|discriminate].
  destruct (children_boxes s (map MCtrak (seq 1 (length tr)))) as [rest|]; [|discriminate].
  intros [= <-].
  apply trak_box_stts in Hb. destruct Hb as (h & tc & -> & Hn & Hs).
  unfold is_fragmented_init, find_cont, ftyp_box, leafb, contb, mvhd_box. cbn [find h_name hdr8].
  change (bytes_eqb n_moov n_moov) with true. cbn [find].
  change (bytes_eqb n_mvex n_trak) with false. rewrite Hn. change (bytes_eqb n_trak n_trak) with true.
  unfold leafb. cbn [h_name hdr8]. change (bytes_eqb n_mvex n_trak) with false. cbv iota. rewrite Hs. reflexivity.
Qed.

Lemma has_trex_built s cs id :
  children s = MCmvhd :: MCmvex :: cs -> In id (trexs s) ->
  forall bs, children_boxes s (children s) = Some bs -> has_trex [ftyp_box; contb n_moov bs] id = true.
Proof.
  intros Hc Hin bs. rewrite Hc. cbn [children_boxes child_box].
  destruct (children_boxes s cs) as [rest|]; [|discriminate]. intros [= <-].
  unfold has_trex, find_cont, ftyp_box, leafb, contb, mvhd_box. cbn [find h_name hdr8].
  change (bytes_eqb n_moov n_moov) with true. cbn [find]. change (bytes_eqb n_mvex n_mvex) with true.
  apply existsb_exists. exists (trex_box id). split; [apply in_map; exact Hin|].
  unfold trex_box, leafb. apply N.eqb_refl.
Qed.

Lemma built_trex s ts :
  inv_struct s -> tree_of s = Some ts -> forall t, In t (traks s) -> has_trex ts (tk_id t) = true.
Proof.
  intros (Hc & Hids & Htx) Ht t Hin. unfold tree_of in Ht.
  destruct (children_boxes s (children s)) as [bs|] eqn:Hb; [|discriminate]. injection Ht as <-.
  apply (has_trex_built s (map MCtrak (seq 0 (length (traks s))))); [exact Hc| |exact Hb].
  rewrite Htx, <- Hids. apply in_map. exact Hin.
Qed.

(* every history: the invariant of C19_inv gives both for the tree of the final state *)
Lemma built_all (avc_parse : str -> option avc_info) (hevc_parse : str -> option (N * N * list N)) ops :
  N.of_nat (length ops) < 4294967295 ->
  let s := snd (run avc_parse hevc_parse ops) in
  forall ts, tree_of s = Some ts ->
    (traks s <> [] -> is_fragmented_init ts = true) /\ (forall t, In t (traks s) -> has_trex ts (tk_id t) = true).
Proof.
  intros Hb s ts Ht. destruct (inv_all avc_parse hevc_parse ops Hb) as [Hi _]. fold s in Hi. split.
  - intros Hne. exact (built_fragmented s ts Hi Hne Ht).
  - exact (built_trex s ts Hi Ht).
Qed.
