(* C19RecModel.v — byte-level model of the two decoder configuration records that Set{AVC,HEVC}Descriptor put
   into the sample entry: avc.DecConfRec (avc/avcdecoderconfigurationrecord.go: Size, EncodeSW,
   DecodeAVCDecConfRec) and hevc.DecConfRec (hevc/hevcdecoderconfigurationrecord.go: Size, EncodeSW,
   DecodeHEVCDecConfRec).  DEFINITIONS ONLY.

   Bytes are N (list N = []byte).  The encoders write through a bits.FixedSliceWriter whose capacity is Size()
   (of the record, or of the enclosing tree): the model returns the bytes written by an unbounded writer and
   C19_avcrec_size / C19_hvcrec_size prove that their number is Size(), so the fixed writer never overflows.
   Go integer conversions are written out: byte(len(x)) = mod 256, uint16(len(x)) = mod 65536, byte << n = mod 256. *)
From V.lib Require Import Base.
From V.c19 Require Import C19Model.

(* ------------------------------------------------------------------ shared: length-prefixed NAL units *)
(* sw.WriteUint16(uint16(len(nalu))); sw.WriteBytes(nalu) *)
Definition be16 (x : N) : str := [u16 x / 256; x mod 256].
Definition wr_nalu (n : str) : str := be16 (lenN n) ++ n.

(* n times: 2 bytes length, then that many bytes; None = not enough data
   (AVC: `pos+2 > len(data)` / `pos+naluLength > len(data)`; HEVC: the FixedSliceReader's sticky error) *)
Fixpoint rd_nalus (n : nat) (data : str) : option (list str * str) :=
  match n with
  | O => Some ([], data)
  | S n' =>
      match data with
      | hi :: lo :: rest =>
          let len := N.to_nat (hi * 256 + lo) in
          if Nat.ltb (length rest) len then None
          else match rd_nalus n' (skipn len rest) with
               | Some (l, r) => Some (firstn len rest :: l, r)
               | None => None
               end
      | _ => None
      end
  end.

Definition nalus_size (l : list str) : N := sumN (map (fun n => 2 + lenN n) l).

(* ------------------------------------------------------------------ avc.DecConfRec *)
Record avcrec := mkAvcRec {
  ar_profile : N; ar_compat : N; ar_level : N;           (* AVCProfileIndication ProfileCompatibility AVCLevelIndication *)
  ar_sps : list str; ar_pps : list str;                  (* SPSnalus PPSnalus *)
  ar_chroma : N; ar_bdl : N; ar_bdc : N; ar_nspsext : N; (* ChromaFormat BitDepthLumaMinus1 BitDepthChromaMinus1 NumSPSExt *)
  ar_notrail : bool }.                                   (* NoTrailingInfo *)

(* switch a.AVCProfileIndication { case 66, 77, 88: no extra bytes; default: ... } *)
Definition avc_plain (p : N) : bool := (p =? 66) || (p =? 77) || (p =? 88).
Definition avc_has_trailing (r : avcrec) : bool := negb (avc_plain (ar_profile r)) && negb (ar_notrail r).

(* Size() *)
Definition avcrec_size (r : avcrec) : N :=
  7 + nalus_size (ar_sps r) + nalus_size (ar_pps r) + (if avc_has_trailing r then 4 else 0).

(* EncodeSW *)
Definition avcrec_encode (r : avcrec) : str :=
  [1; ar_profile r; ar_compat r; ar_level r; 255; N.lor (lenN (ar_sps r) mod 256) 224]
  ++ flat_map wr_nalu (ar_sps r)
  ++ [lenN (ar_pps r) mod 256]
  ++ flat_map wr_nalu (ar_pps r)
  ++ (if avc_plain (ar_profile r) then []
      else if ar_notrail r then []
      else [N.lor 252 (ar_chroma r); N.lor 248 (ar_bdl r); N.lor 248 (ar_bdc r); ar_nspsext r]).

(* DecodeAVCDecConfRec.  Err: any returned error (also ErrCannotParseAVCExtension, which comes with a value the
   callers DecodeAvcC/DecodeAvcCSR drop).  Bytes after the record are ignored. *)
Definition avcrec_decode (data : str) : res avcrec :=
  match data with
  | cv :: p :: c :: l :: b4 :: b5 :: rest =>
      if negb (cv =? 1) then Err
      else if negb (N.land b4 3 =? 3) then Err
      else
        match rd_nalus (N.to_nat (N.land b5 31)) rest with
        | None => Err
        | Some (sps, rest1) =>
            match rest1 with
            | [] => Err                                  (* pos >= len(data): no byte for numPPS *)
            | npps :: rest2 =>
                match rd_nalus (N.to_nat npps) rest2 with
                | None => Err
                | Some (pps, rest3) =>
                    if avc_plain p then Ok (mkAvcRec p c l sps pps 0 0 0 0 false)
                    else
                      match rest3 with
                      | [] => Ok (mkAvcRec p c l sps pps 0 0 0 0 true)      (* pos == len(data) *)
                      | c0 :: c1 :: c2 :: ne :: _ =>
                          if ne =? 0 then Ok (mkAvcRec p c l sps pps (N.land c0 3) (N.land c1 7) (N.land c2 7) ne false)
                          else Err
                      | _ => Err                                               (* pos+4 > len(data) *)
                      end
                end
            end
        end
  | _ => Err                                             (* len(data) < 6 *)
  end.

(* what a decoder can know of a record: the trailing fields exist only when they are written *)
Definition avcrec_canon (r : avcrec) : avcrec :=
  if avc_plain (ar_profile r) then
    mkAvcRec (ar_profile r) (ar_compat r) (ar_level r) (ar_sps r) (ar_pps r) 0 0 0 0 false
  else if ar_notrail r then
    mkAvcRec (ar_profile r) (ar_compat r) (ar_level r) (ar_sps r) (ar_pps r) 0 0 0 0 true
  else r.

(* the record CreateAVCDecConfRec builds (C19Model.create_avcc): NumSPSExt 0, NoTrailingInfo false *)
Definition avcrec_of (a : avcc) : avcrec :=
  mkAvcRec (ac_profile a) (ac_compat a) (ac_level a) (ac_sps a) (ac_pps a) (ac_chroma a) (ac_bdl a) (ac_bdc a) 0 false.

(* ------------------------------------------------------------------ hevc.DecConfRec *)
Record hvcrec := mkHvcRec {
  hr_version : N;                 (* ConfigurationVersion *)
  hr_space : N; hr_tier : bool; hr_pidc : N;     (* GeneralProfileSpace GeneralTierFlag GeneralProfileIDC *)
  hr_compat : N; hr_constraint : N; hr_level : N;
  hr_minspat : N; hr_par : N;     (* MinSpatialSegmentationIDC ParallellismType *)
  hr_chroma : N; hr_bdl : N; hr_bdc : N;
  hr_avgfr : N; hr_cfr : N; hr_ntl : N; hr_tin : N; hr_lsm1 : N;
  hr_arrays : list (N * list str) }.   (* NaluArrays: (completeAndType, Nalus) *)

Definition be32 (x : N) : str := [u32 x / 16777216; (x / 65536) mod 256; (x / 256) mod 256; x mod 256].
(* WriteUint48: uint16(u >> 32) then uint32(u & 0xffffffff) *)
Definition be48 (x : N) : str := be16 (x / 4294967296) ++ be32 x.

Definition wr_array (a : N * list str) : str := [fst a] ++ be16 (lenN (snd a)) ++ flat_map wr_nalu (snd a).

(* Size() *)
Definition hvcrec_size (r : hvcrec) : N := 23 + sumN (map (fun a => 3 + nalus_size (snd a)) (hr_arrays r)).

(* EncodeSW; the byte expressions are Go byte arithmetic: x<<n is taken mod 256 *)
Definition hvcrec_encode (r : hvcrec) : str :=
  [hr_version r;
   N.lor (N.lor (u8 (hr_space r * 64)) (if hr_tier r then 32 else 0)) (hr_pidc r)]
  ++ be32 (hr_compat r) ++ be48 (hr_constraint r)
  ++ [hr_level r]
  ++ be16 (N.lor 61440 (hr_minspat r))
  ++ [N.lor 252 (hr_par r); N.lor 252 (hr_chroma r); N.lor 248 (hr_bdl r); N.lor 248 (hr_bdc r)]
  ++ be16 (hr_avgfr r)
  ++ [N.lor (N.lor (N.lor (u8 (hr_cfr r * 64)) (u8 (hr_ntl r * 8))) (u8 (hr_tin r * 4))) (hr_lsm1 r);
      lenN (hr_arrays r) mod 256]
  ++ flat_map wr_array (hr_arrays r).

(* numArrays times: completeAndType, numNalus (16 bit), the NAL units *)
Fixpoint rd_arrays (n : nat) (data : str) : option (list (N * list str) * str) :=
  match n with
  | O => Some ([], data)
  | S n' =>
      match data with
      | ct :: hi :: lo :: rest =>
          match rd_nalus (N.to_nat (hi * 256 + lo)) rest with
          | None => None
          | Some (nalus, r) =>
              match rd_arrays n' r with
              | Some (l, r') => Some ((ct, nalus) :: l, r')
              | None => None
              end
          end
      | _ => None
      end
  end.

(* DecodeHEVCDecConfRec.  The FixedSliceReader's error is sticky and is returned at the end (or an earlier return
   is an error anyway): every short read gives Err.  Bytes after the arrays are ignored. *)
Definition hvcrec_decode (data : str) : res hvcrec :=
  match data with
  | v :: rest0 =>
      if negb (v =? 1) then Err else
      match rest0 with
      | b1 :: c0 :: c1 :: c2 :: c3 :: k0 :: k1 :: k2 :: k3 :: k4 :: k5 :: lvl :: m0 :: m1 :: par :: chroma :: bdl :: bdc
           :: a0 :: a1 :: b21 :: rest1 =>
          if negb (N.land b21 3 =? 3) then Err else
          match rest1 with
          | na :: rest2 =>
              match rd_arrays (N.to_nat na) rest2 with
              | None => Err
              | Some (arrays, _) =>
                  Ok (mkHvcRec v (N.land (N.shiftr b1 6) 3) (N.land (N.shiftr b1 5) 1 =? 1) (N.land b1 31)
                               (((c0 * 256 + c1) * 256 + c2) * 256 + c3)
                               (((((k0 * 256 + k1) * 256 + k2) * 256 + k3) * 65536) + (k4 * 256 + k5))
                               lvl
                               (N.land (m0 * 256 + m1) 4095) (N.land par 3) (N.land chroma 3) (N.land bdl 7) (N.land bdc 7)
                               (a0 * 256 + a1)
                               (N.land (N.shiftr b21 6) 3) (N.land (N.shiftr b21 3) 7) (N.land (N.shiftr b21 2) 1) (N.land b21 3)
                               arrays)
              end
          | [] => Err
          end
      | _ => Err
      end
  | [] => Err                    (* ReadUint8 past the end gives 0: version 0 unknown *)
  end.

(* the record CreateHEVCDecConfRec builds from C19Model.hvcc: hc_cfg = [space; tier; idc; compat; constraint; level;
   chroma; bdl-8; bdc-8], the rest constants (version 1, length size 3, everything else 0).
   None if hc_cfg does not have that shape (never the case for a record built by create_hvcc from a parser
   answer of 9 values: what the correspondence supplies). *)
Definition hvcrec_of (h : hvcc) : option hvcrec :=
  match hc_cfg h with
  | [space; tier; idc; compat; constr; level; chroma; bdl; bdc] =>
      Some (mkHvcRec 1 space (negb (tier =? 0)) idc compat constr level 0 0 chroma bdl bdc 0 0 0 0 3 (hc_arrays h))
  | _ => None
  end.

(* ------------------------------------------------------------------ records whose values fit their fields
   (the hypotheses of the round-trip theorems, as decision procedures) *)
Definition nalu_ok (n : str) : bool := lenN n <? 65536.
Definition avcrec_ok (r : avcrec) : bool :=
  (lenN (ar_sps r) <? 32) && (lenN (ar_pps r) <? 256)
  && forallb nalu_ok (ar_sps r) && forallb nalu_ok (ar_pps r)
  && (ar_chroma r <? 4) && (ar_bdl r <? 8) && (ar_bdc r <? 8) && (ar_nspsext r =? 0).
Definition array_ok (a : N * list str) : bool := (lenN (snd a) <? 65536) && forallb nalu_ok (snd a).
Definition hvcrec_ok (r : hvcrec) : bool :=
  (hr_version r =? 1) && (hr_space r <? 4) && (hr_pidc r <? 32)
  && (hr_compat r <? 4294967296) && (hr_constraint r <? 281474976710656)
  && (hr_minspat r <? 4096) && (hr_par r <? 4) && (hr_chroma r <? 4) && (hr_bdl r <? 8) && (hr_bdc r <? 8)
  && (hr_avgfr r <? 65536) && (hr_cfr r <? 4) && (hr_ntl r <? 8) && (hr_tin r <? 2) && (hr_lsm1 r =? 3)
  && (lenN (hr_arrays r) <? 256) && forallb array_ok (hr_arrays r).
