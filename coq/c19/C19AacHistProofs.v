(* C19AacHistProofs.v — "the DECODED init carries the configuration supplied", at the level of whole histories:
   (1) provenance: in the final state of EVERY history every sample entry with an esds is the entry some SetAACDescriptor(o, f)
       call built (esds_prov), by induction over the history;
   (2) position: the box of every sample entry of every track occurs inside the tree of the init (inside: below
       moov / trak / mdia / minf / stbl / stsd), hence inside the DECODED tree, which C19_roundtrip shows equal to the built one;
   (3) content: C19AacProofs.aac_typed (the typed esds leaf, C18's configuration codec).
   Together: decoded_init_aac. *)
From Coq Require Import String Ascii.
From V.lib Require Import Base.
From V.c19 Require Import C19BoxCodec C19BoxModel.
From V.c19 Require Import C19Model C19Spec C19InvProofs C19DescProofs C19RecModel C19TreeModel C19TreeProofs C19PrintParseProofs
  C19RoundtripProofs C19AacProofs.
From V.c18 Require C18Model C18EntryModel.

(* ------------------------------------------------------------------ (1) provenance *)
Definition esds_prov (e : sentry) : Prop :=
  forall asc, se_cfg e = CfgEsds asc ->
    exists t0 o f t0', f < 8388608 /\ set_aac t0 o f = (OOk, t0') /\ sd_entries t0' = sd_entries t0 ++ [e].

(* the frequencies of the SetAACDescriptor calls of a history are below 2^23 (hypothesis of C19_descriptor_aac_typed) *)
Definition aac_small (o : op) : Prop :=
  match o with SetDesc _ (DAac _ f) => f < 8388608 | _ => True end.

Definition esds_inv (s : st) : Prop := Forall (fun t => Forall esds_prov (sd_entries t)) (traks s).

Section P.
  Variable avc_parse : str -> option avc_info.
  Variable hevc_parse : str -> option (N * N * list N).

  Ltac brk H :=
    repeat match type of H with
           | context [match ?x with _ => _ end] => destruct x
           end.
  Ltac not_esds := let a := fresh in let H := fresh in intros a H; cbn [se_cfg] in H; discriminate.

  Lemma set_desc_new k t d :
    aac_small (SetDesc k d) ->
    let '(oc, t') := set_desc avc_parse hevc_parse t d in
    match oc with
    | OOk => exists e, sd_entries t' = sd_entries t ++ [e] /\ esds_prov e
    | _ => sd_entries t' = sd_entries t
    end.
  Proof.
    intros Hs. pose proof (set_desc_entries avc_parse hevc_parse t d) as Hgen.
    destruct d as [name spss ppss incl|name vpss spss ppss seis incl|o f|d|d|c|a b c]; cbn [set_desc] in *.
    - destruct (set_avc avc_parse t name spss ppss incl) as [oc t'] eqn:H. destruct oc; try exact Hgen.
      apply set_avc_ok in H. destruct H as (?&?&?&?&?&?&?&?&?&?&_&_&_&_&_&_&He&_). eexists. split; [exact He|not_esds].
    - destruct (set_hevc hevc_parse t name vpss spss ppss seis incl) as [oc t'] eqn:H. destruct oc; try exact Hgen.
      apply set_hevc_ok in H. destruct H as (?&?&?&?&?&_&_&_&He&_). eexists. split; [exact He|not_esds].
    - destruct (set_aac t o f) as [oc t'] eqn:H. destruct oc; try exact Hgen.
      pose proof H as H0. apply set_aac_ok in H. destruct H as (asc&_&He&_). eexists. split; [exact He|].
      intros asc' _. exists t, o, f, t'. split; [exact Hs|]. split; [exact H0|exact He].
    - destruct d as [fscod bsid bsmod acmod lfeon brc].
      destruct (set_ac3 t _) as [oc t'] eqn:H. destruct oc; try exact Hgen.
      apply set_ac3_ok in H. destruct H as [He _]. eexists. split; [exact He|not_esds].
    - destruct d as [dr subs].
      destruct (set_ec3 t _) as [oc t'] eqn:H. destruct oc; try exact Hgen.
      unfold set_ec3 in H. brk H; inversion H; subst; eexists; (split; [reflexivity|not_esds]).
    - rewrite set_wvtt_ok. eexists. split; [reflexivity|not_esds].
    - rewrite set_stpp_ok. eexists. split; [reflexivity|not_esds].
  Qed.

  Lemma step_esds s o : aac_small o -> esds_inv s -> esds_inv (snd (step avc_parse hevc_parse s o)).
  Proof.
    unfold esds_inv. intros Hs H. destruct o as [ts m lang|k d]; cbn [step].
    - unfold add_empty_track. destruct (create_empty_trak _ ts m lang) as [t|] eqn:Hce; cbn [snd traks]; [|exact H].
      unfold moov_add_trak. destruct (_ && _); cbn [traks]; apply Forall_app; (split; [exact H|]);
        constructor; try constructor;
        unfold create_empty_trak in Hce; destruct (create_hdlr m) as [[ht hn]|]; try discriminate;
        destruct (fst _); try discriminate; inversion Hce; cbn [sd_entries]; constructor.
    - destruct (nth_error (traks s) k) as [t|] eqn:Hn; [|exact H].
      pose proof (set_desc_new k t d Hs) as He.
      destruct (set_desc avc_parse hevc_parse t d) as [oc t']. cbn [snd traks].
      apply Forall_replace_nth; [exact H|].
      assert (Ht : Forall esds_prov (sd_entries t)).
      { rewrite Forall_forall in H. apply H. apply nth_error_In in Hn. exact Hn. }
      destruct oc.
      + destruct He as [e [-> Hd]]. apply Forall_app. split; [exact Ht|]. constructor; [exact Hd|constructor].
      + rewrite He. exact Ht.
      + rewrite He. exact Ht.
  Qed.

  Lemma run_from_esds ops : forall s, Forall aac_small ops -> esds_inv s -> esds_inv (snd (run_from avc_parse hevc_parse s ops)).
  Proof.
    induction ops as [|o ops IH]; intros s Ho H; cbn [run_from snd]; [exact H|].
    inversion Ho as [|? ? Ho1 Ho2]; subst.
    pose proof (step_esds s o Ho1 H) as Hs. destruct (step avc_parse hevc_parse s o) as [oc s']. cbn [snd] in Hs.
    destruct oc.
    - specialize (IH s' Ho2 Hs). destruct (run_from avc_parse hevc_parse s' ops). exact IH.
    - specialize (IH s' Ho2 Hs). destruct (run_from avc_parse hevc_parse s' ops). exact IH.
    - exact Hs.
  Qed.

  Lemma esds_all ops : Forall aac_small ops -> esds_inv (snd (run avc_parse hevc_parse ops)).
  Proof. intros H. apply run_from_esds; [exact H|constructor]. Qed.
End P.

(* ------------------------------------------------------------------ (2) position *)
Inductive inside (b : mbox) : mbox -> Prop :=
| in_here : inside b b
| in_cont h cs c : In c cs -> inside b c -> inside b (MCont h cs)
| in_pre h l r cs c : In c cs -> inside b c -> inside b (MPre h l r cs).

Lemma entries_boxes_in es : forall bs e,
  entries_boxes es = Some bs -> In e es -> exists b, entry_box e = Some b /\ In b bs.
Proof.
  induction es as [|e0 es IH]; intros bs e Hb Hin; [destruct Hin|].
  cbn [entries_boxes] in Hb. destruct (entry_box e0) as [b0|] eqn:E0; [|discriminate].
  destruct (entries_boxes es) as [bs'|] eqn:E1; [|discriminate]. injection Hb as <-.
  destruct Hin as [<-|Hin].
  - exists b0. split; [exact E0|left; reflexivity].
  - destruct (IH bs' e eq_refl Hin) as (b & Hb1 & Hb2). exists b. split; [exact Hb1|right; exact Hb2].
Qed.

Lemma trak_box_inside t tb e :
  trak_box t = Some tb -> In e (sd_entries t) -> exists b, entry_box e = Some b /\ inside b tb.
Proof.
  unfold trak_box. destruct (entries_boxes (sd_entries t)) as [es|] eqn:Ee; [|discriminate]. intros [= <-] Hin.
  destruct (entries_boxes_in _ _ e Ee Hin) as (b & Hb & Hbin). exists b. split; [exact Hb|].
  unfold contb, preb.
  eapply in_cont; [right; left; reflexivity|].
  eapply in_cont; [right; right; apply in_or_app; right; left; reflexivity|].
  eapply in_cont; [right; right; left; reflexivity|].
  eapply in_cont; [left; reflexivity|].
  eapply in_pre; [exact Hbin|apply in_here].
Qed.

Lemma children_boxes_in s cs : forall bs i t,
  children_boxes s cs = Some bs -> In (MCtrak i) cs -> nth_error (traks s) i = Some t ->
  exists tb, trak_box t = Some tb /\ In tb bs.
Proof.
  induction cs as [|c cs IH]; intros bs i t Hb Hin Hn; [destruct Hin|].
  cbn [children_boxes] in Hb. destruct (child_box s c) as [b0|] eqn:E0; [|discriminate].
  destruct (children_boxes s cs) as [bs'|] eqn:E1; [|discriminate]. injection Hb as <-.
  destruct Hin as [->|Hin].
  - cbn [child_box] in E0. rewrite Hn in E0. exists b0. split; [exact E0|left; reflexivity].
  - destruct (IH bs' i t eq_refl Hin Hn) as (tb & H1 & H2). exists tb. split; [exact H1|right; exact H2].
Qed.

Lemma tree_inside s ts t e :
  inv_struct s -> tree_of s = Some ts -> In t (traks s) -> In e (sd_entries t) ->
  exists b top, entry_box e = Some b /\ In top ts /\ inside b top.
Proof.
  intros (Hc & _ & _) Ht Hin He. unfold tree_of in Ht.
  destruct (children_boxes s (children s)) as [bs|] eqn:Hb; [|discriminate]. injection Ht as <-.
  destruct (In_nth_error _ _ Hin) as [i Hn].
  assert (Hi : In (MCtrak i) (children s)).
  { rewrite Hc. apply in_or_app. right. apply in_map. apply in_seq.
    assert (i < length (traks s))%nat by (apply nth_error_Some; congruence). lia. }
  destruct (children_boxes_in s _ bs i t Hb Hi Hn) as (tb & Htb & Hbin).
  destruct (trak_box_inside t tb e Htb He) as (b & Hbe & Hins).
  exists b, (contb n_moov bs). split; [exact Hbe|]. split; [right; left; reflexivity|].
  unfold contb. eapply in_cont; [exact Hbin|exact Hins].
Qed.

(* ------------------------------------------------------------------ (1) + (2) + (3) *)
Theorem decoded_init_aac (avc_parse : str -> option avc_info) (hevc_parse : str -> option (N * N * list N)) ops :
  N.of_nat (length ops) < 4294967295 -> Forall aac_small ops ->
  let s := snd (run avc_parse hevc_parse ops) in
  args_okb s = true -> forall ts, tree_of s = Some ts -> forallb enc_fits ts = true ->
  exists bs, encode_seq false ts = Ok bs /\ decode_file bs = Ok ts
    /\ forall t e asc, In t (traks s) -> In e (sd_entries t) -> se_cfg e = CfgEsds asc ->
       exists o f b top,
         f < 8388608
         /\ e = mkSE (BS "mp4a") 1 (if o =? 29 then 1 else 2) 16 (f mod 65536) (CfgEsds asc)
         /\ b = preb (LAudio (BS "mp4a") 1 (if o =? 29 then 1 else 2) 16 (f mod 65536)) [leafb (esds_leaf asc)]
         /\ In top ts /\ inside b top
         /\ esds_dec_config (esds_leaf asc) = Some asc
         /\ C18Model.decode_asc asc = Ok (C18EntryModel.set_aac_asc o (Z.of_N f))
         /\ C18Model.a_ot (C18EntryModel.set_aac_asc o (Z.of_N f)) = o
         /\ C18Model.a_freq (C18EntryModel.set_aac_asc o (Z.of_N f)) = Z.of_N f.
Proof.
  intros Hb Hsm s Ha ts Ht Hf.
  destruct (roundtrip_all avc_parse hevc_parse ops Hb Ha ts Ht Hf) as (bs & He & Hd & _ & _).
  exists bs. split; [exact He|]. split; [exact Hd|].
  intros t e asc Hin Hein Hcfg.
  pose proof (esds_all avc_parse hevc_parse ops Hsm) as Hinv. fold s in Hinv. unfold esds_inv in Hinv.
  rewrite Forall_forall in Hinv. specialize (Hinv t Hin). rewrite Forall_forall in Hinv. specialize (Hinv e Hein asc Hcfg).
  destruct Hinv as (t0 & o & f & t0' & Hfs & Hset & Hent).
  destruct (aac_typed t0 o f t0' Hfs Hset) as (asc' & e' & b & He1 & He2 & Hbox & Hb2 & _ & Hdc & _ & Hdec & Hot & Hfr & _).
  rewrite Hent in He1. apply app_inv_head in He1. injection He1 as <-.
  assert (asc' = asc) by (rewrite He2 in Hcfg; cbn [se_cfg] in Hcfg; congruence). subst asc'.
  destruct (inv_all avc_parse hevc_parse ops Hb) as [Hi _]. fold s in Hi.
  destruct (tree_inside s ts t e Hi Ht Hin Hein) as (b' & top & Hb' & Htop & Hins).
  rewrite Hbox in Hb'. injection Hb' as <-.
  exists o, f, b, top. repeat split; assumption.
Qed.
