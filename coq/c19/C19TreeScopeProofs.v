(* C19TreeScopeProofs.v — C19_roundtrip over a complete small scope, decided inside Coq (vm_compute over the
   enumerated histories, lifted with forallb_forall): every history of one or two AddEmptyTrack calls over the seven
   supported media types and three kinds of language tag (two-track histories: 7 first tracks x 25 second tracks), each track followed by none or one of the descriptor call
   sequences fitting it (AVC avc1/avc3 with and without parameter sets, HEVC hvc1/hev1 with and without SEI, AVC
   then HEVC on the same track, AAC-LC, HE-AAC v2, AC-3, E-AC-3 with and without dependent substreams, wvtt default/explicit, stpp
   default/explicit). *)
From Coq Require Import String Ascii.
From V.lib Require Import Base.
From V.c19 Require Import C19BoxCodec C19BoxModel.
From V.c19 Require Import C19Model C19Spec C19Witness C19RecModel C19TreeModel C19TreeProofs.

Definition ss_langs : list str := [BS "swe"; BS "en"; BS "zh-Hant"].

Definition ss_sps_a : list str := [[103; 100; 0; 32; 172]; [103; 100; 0; 31]].
Definition ss_pps_a : list str := [[104; 181]].
Definition ss_video : list (list desc) :=
  [ []; [DAvc (BS "avc1") ss_sps_a ss_pps_a true]; [DAvc (BS "avc3") ss_sps_a ss_pps_a false];
    [DHevc (BS "hvc1") [[64; 1]] [[66; 1; 1]] [[68; 1]; [68; 2]] [[78; 1]] true];
    [DHevc (BS "hev1") [[64; 1]] [[66; 1; 1]] [] [] false];
    [DAvc (BS "avc3") ss_sps_a [] true; DHevc (BS "hev1") [] [[66; 1; 1]] [[68; 1]] [] true] ].
Definition ss_audio : list (list desc) :=
  [ []; [DAac 2 48000]; [DAac 29 24000]; [DAc3 (mkDac3 0 8 0 7 1 10)]; [DEc3 (mkDec3 1133 [mkEc3Sub 0 16 0 0 7 1 1 3])];
    [DEc3 (mkDec3 256 [mkEc3Sub 1 16 1 2 2 0 0 0; mkEc3Sub 2 16 0 0 7 1 0 0])] ].
Definition ss_wvtt : list (list desc) := [ []; [DWvtt []]; [DWvtt (BS "WEBVTT - title")] ].
Definition ss_stpp : list (list desc) :=
  [ []; [DStpp [] [] []]; [DStpp (BS "http://www.w3.org/ns/ttml") (BS "schema.xsd") (BS "image/png")] ].

Definition ss_media : list (str * list (list desc)) :=
  [ (BS "video", ss_video); (BS "audio", ss_audio); (BS "subtitle", ss_stpp); (BS "subtitles", ss_stpp);
    (BS "stpp", ss_stpp); (BS "text", ss_wvtt); (BS "wvtt", ss_wvtt) ].

(* one track at index k: AddEmptyTrack then the descriptor calls *)
Definition ss_tracks (k : nat) (ts : N) (langs : list str) : list (list op) :=
  flat_map (fun md => flat_map (fun lang => map (fun ds => AddEmptyTrack ts (fst md) lang :: map (SetDesc k) ds) (snd md)) langs)
           ss_media.

(* first tracks of the two-track histories: one per media type, with its last descriptor sequence *)
Definition ss_first : list (list op) :=
  map (fun md => AddEmptyTrack 1000 (fst md) (BS "zh-Hant") :: map (SetDesc 0) (last (snd md) [])) ss_media.

Definition small_scope : list (list op) :=
  [[]] ++ ss_tracks 0 90000 ss_langs
  ++ flat_map (fun h1 => map (fun h2 => h1 ++ h2) (ss_tracks 1 48000 [BS "pt-BR"])) ss_first.

Definition ss_check (ops : list op) : bool := roundtrip_ok (snd (run ex_avc_parse ex_hevc_parse ops)).

Lemma small_scope_all : forallb ss_check small_scope = true.
Proof. vm_compute. reflexivity. Qed.

Lemma small_scope_roundtrip ops : In ops small_scope ->
  let s := snd (run ex_avc_parse ex_hevc_parse ops) in
  exists ts bs, tree_of s = Some ts /\ encode_seq false ts = Ok bs /\ decode_file bs = Ok ts
    /\ (traks s <> [] -> is_fragmented_init ts = true)
    /\ (forall t, In t (traks s) -> has_trex ts (tk_id t) = true).
Proof.
  intros Hin. pose proof small_scope_all as A. rewrite forallb_forall in A.
  apply roundtrip_sound. exact (A ops Hin).
Qed.

Lemma small_scope_size : lenN small_scope = 271.
Proof. vm_compute. reflexivity. Qed.
