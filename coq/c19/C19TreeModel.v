(* C19TreeModel.v — the box tree of the init segment held by a C19 state, expressed with the box model of C01
   (coq/c19/C19BoxModel.v: a frozen copy of coq/c01/C01Model.v, see its banner): what CreateEmptyInit / CreateEmptyTrak / CreateTrex / the sample entry
   constructors build, with every constant they write (mp4/initsegment.go, ftyp.go CreateFtyp, mvhd.go CreateMvhd,
   tkhd.go CreateTkhd, trex.go CreateTrex, vmhd.go, smhd.go, dref.go CreateDref, url.go CreateURLBox,
   visualsampleentry.go CreateVisualSampleEntryBox, audiosamplentry.go, wvtt.go, stpp.go, dac3.go, dec3.go).
   DEFINITIONS ONLY.

   C01's encoder (raw_box false / encode_seq false) applied to this tree is the model of InitSegment.Encode;
   C01's decoder (decode_file) applied to those bytes is the model of DecodeFile's box loop.
   esds is the typed LEsds leaf (whole descriptor tree).  Boxes C01 has no leaf for at this snapshot (stpp, wvtt, dac3, dec3) are MUnknown boxes carrying the payload bytes of the
   C19 models (C19RecModel.hvcrec_encode, C19Model.stpp_payload, ...): C01's decoder returns them as UnknownBox,
   which is NOT what Go's typed decoders do, so equality of the decoded tree says for these boxes only that
   the bytes come back. *)
From Coq Require Import String Ascii.
From V.lib Require Import Base.
From V.c13 Require Import C13Model.
From V.c19 Require Import C19BoxCodec C19BoxModel C19BoxEq.
From V.c19 Require Import C19Model C19RecModel.

(* ------------------------------------------------------------------ constructors that fill in the header *)
Definition hdr8 (name : list N) (size : N) : hdr := mkHdr name size 8.
Definition leafb (l : leaf) : mbox := MLeaf (hdr8 (leaf_name l) (size_leaf l)) l (dflt_rsv l).
Definition contb (name : list N) (cs : list mbox) : mbox := MCont (hdr8 name (8 + sumN (map size_box cs))) cs.
Definition preb (l : leaf) (cs : list mbox) : mbox :=
  MPre (hdr8 (leaf_name l) (size_leaf l + sumN (map size_box cs))) l (dflt_rsv l) cs.
Definition unkb (name payload : list N) : mbox := MUnknown (hdr8 name (8 + lenN payload)) payload.

(* ------------------------------------------------------------------ constants *)
(* NewFtyp("cmfc", 0, {"dash", "iso6"}) *)
Definition ftyp_box : mbox := leafb (LFtyp n_ftyp (BS "cmfc" ++ [0; 0; 0; 0] ++ BS "dash" ++ BS "iso6")).
(* CreateMvhd: timescale 90000, rate 1.0, volume 1.0 *)
Definition mvhd_box (next : N) : mbox := leafb (LMvhd 0 0 0 0 90000 0 65536 256 next).
(* CreateTrex: DefaultSampleDescriptionIndex 1 *)
Definition trex_box (id : N) : mbox := leafb (LTrex 0 0 id 1 0 0 0).
Definition n_stpp := BS "stpp".
Definition n_wvtt := BS "wvtt".
Definition n_vttC := BS "vttC".
Definition n_dac3 := BS "dac3".
Definition n_dec3 := BS "dec3".
Definition compressor_name : list N := BS "mp4ff video packager".

(* ------------------------------------------------------------------ sample entries *)
(* CreateEsdsBox(asc) as the typed esds leaf of the box model (mp4/esds.go, mp4/descriptors.go CreateESDescriptor):
   version/flags 0; ES_Descr(3){ES_ID 1, flags 0, no dependsOn / URL / OCR,
     DecoderConfigDescriptor(4){objectType 0x40, streamType 0x15, bufferSizeDB 0, max/avg bitrate 0,
                                 DecSpecificInfo(5){asc}},
     SLConfigDescriptor(6){2}}; every size field one byte (sizeFieldSizeMinus1 0: nb = 1), no UnknownData.
   The ghost `canon` is true: the size fields the encoder writes are in the encoder's form.
   EsdsBox.EncodeSW writes byte(size) & 0x7f into each one-byte size field (wr_size _ 0). *)
Definition esds_dcd (asc : list N) : C19BoxModel.desc := DDcd 1 64 21 0 0 0 [DDsi 1 asc] [].
Definition esds_leaf (asc : list N) : leaf := LEsds 0 0 1 1 0 0 [] 0 (esds_dcd asc) [DSlc 1 2 []] [] true.
(* the AudioSpecificConfig bytes carried by a (decoded) esds leaf: esds -> ESDescriptor -> DecoderConfigDescriptor ->
   first DecSpecificInfo -> DecConfig (what mp4a.Esds.DecConfigDescriptor.DecSpecificInfo.DecConfig is in Go) *)
Definition esds_dec_config (l : leaf) : option (list N) :=
  match l with
  | LEsds _ _ _ _ _ _ _ _ (DDcd _ _ _ _ _ _ cs _) _ _ _ =>
      match find (fun d => match d with DDsi _ _ => true | _ => false end) cs with
      | Some (DDsi _ dc) => Some dc
      | _ => None
      end
  | _ => None
  end.

(* Dac3Box.EncodeSW (InitialZeroes 0, Reserved 0): 24 bits *)
Definition dac3_payload (d : dac3) : list N :=
  let '(mkDac3 fscod bsid bsmod acmod lfeon brc) := d in
  wout (run_writer_plain [WBits fscod 2; WBits bsid 5; WBits bsmod 3; WBits acmod 3; WBits lfeon 1; WBits brc 5; WBits 0 5; WFlush]).

(* Dec3Box.EncodeSW (no Reserved bytes): data rate 13 bits, len(EC3Subs)-1 in 3 bits, the substreams *)
Definition ec3sub_ops (s : ec3sub) : list wop :=
  let '(mkEc3Sub fscod bsid asvc bsmod acmod lfeon nds cl) := s in
  [WBits fscod 2; WBits bsid 5; WBits 0 1; WBits asvc 1; WBits bsmod 3; WBits acmod 3; WBits lfeon 1; WBits 0 3; WBits nds 4]
  ++ (if 0 <? nds then [WBits cl 9] else [WBits 0 1]).
Definition dec3_payload (d : dec3) : option (list N) :=
  let '(mkDec3 dr subs) := d in
  match subs with
  | [] => None                            (* uint(len)-1 wraps: not in scope (SetEC3Descriptor panics before) *)
  | _ => Some (wout (run_writer_plain ([WBits dr 13; WBits (lenN subs - 1) 3] ++ flat_map ec3sub_ops subs ++ [WFlush])))
  end.

Definition entry_box (e : sentry) : option mbox :=
  match se_cfg e with
  | CfgAvcC a =>
      (* the box holds the CANONICAL record: for profiles 66/77/88 the chroma format / bit depths that Go keeps in
         memory (copied from the SPS) are not part of the box, a decoder sees zeros (C19RecModel.avcrec_canon) *)
      let r := avcrec_canon (avcrec_of a) in
      Some (preb (LVisual (se_name e) (se_dref e) (se_a e) (se_b e) 4718592 4718592 1 compressor_name)
                 [leafb (LAvcC (ar_profile r) (ar_compat r) (ar_level r) (ar_sps r) (ar_pps r)
                               (ar_chroma r) (ar_bdl r) (ar_bdc r) (ar_nspsext r) (ar_notrail r))])
  | CfgHvcC h =>
      (* C01 has a typed hvcC leaf (version 1 and length size 3 are constants of every accepted record) *)
      match hvcrec_of h with
      | Some r => Some (preb (LVisual (se_name e) (se_dref e) (se_a e) (se_b e) 4718592 4718592 1 compressor_name)
                             [leafb (LHvcC (hr_space r) (hr_tier r) (hr_pidc r) (hr_compat r) (hr_constraint r) (hr_level r)
                                           (hr_minspat r) (hr_par r) (hr_chroma r) (hr_bdl r) (hr_bdc r) (hr_avgfr r)
                                           (hr_cfr r) (hr_ntl r) (hr_tin r) (hr_arrays r))])
      | None => None
      end
  | CfgEsds asc => Some (preb (LAudio (se_name e) (se_dref e) (se_a e) (se_b e) (se_c e)) [leafb (esds_leaf asc)])
  | CfgDac3 d => Some (preb (LAudio (se_name e) (se_dref e) (se_a e) (se_b e) (se_c e)) [unkb n_dac3 (dac3_payload d)])
  | CfgDec3 d =>
      match dec3_payload d with
      | Some p => Some (preb (LAudio (se_name e) (se_dref e) (se_a e) (se_b e) (se_c e)) [unkb n_dec3 p])
      | None => None
      end
  (* WvttBox.EncodeSW: 6 zero bytes, data reference index, the vttC child (header + config, no terminator) *)
  | CfgVttC config =>
      Some (unkb n_wvtt ([0; 0; 0; 0; 0; 0; se_dref e / 256; se_dref e mod 256]
                         ++ enc_hdr n_vttC (8 + lenN config) ++ config))
  | CfgStpp ns schema mime => Some (unkb n_stpp (stpp_payload (se_dref e) ns schema mime))
  end.

Fixpoint entries_boxes (l : list sentry) : option (list mbox) :=
  match l with
  | [] => Some []
  | e :: r => match entry_box e, entries_boxes r with
              | Some b, Some bs => Some (b :: bs)
              | _, _ => None
              end
  end.

(* ------------------------------------------------------------------ trak (CreateEmptyTrak + descriptors) *)
Definition mhdr_box (h : mhdr) : mbox :=
  match h with
  | Vmhd => leafb (LVmhd 0 1 0 0 0 0)          (* CreateVmhd: flags 1 *)
  | Smhd => leafb (LSmhd 0 0 0)
  | Sthd => leafb (LFullOnly n_sthd 0 0)
  | Nmhd => leafb (LFullOnly n_nmhd 0 0)
  end.

Definition trak_box (t : trak) : option mbox :=
  match entries_boxes (sd_entries t) with
  | None => None
  | Some es =>
      Some (contb n_trak
        [ leafb (LTkhd 0 7 0 0 (tk_id t) 0 0 0 (tk_volume t) (tk_width t) (tk_height t));
          contb n_mdia
            ([ leafb (LMdhd 0 0 0 0 (md_timescale t) 0 (md_lang t));
               leafb (LHdlr 0 0 0 (hd_type t) (hd_name t) false) ]
             ++ (match el_lang t with Some l => [leafb (LElng false 0 0 l)] | None => [] end)
             ++ [ contb n_minf
                    [ mhdr_box (mi_hdr t);
                      contb n_dinf [preb (LDref 0 0 1) [leafb (LUrl 0 1 [] true false)]];
                      contb n_stbl
                        [ preb (LStsd 0 0 (lenN es)) es;
                          leafb (LStts 0 0 []);
                          leafb (LStsc 0 0 [] 0 []);
                          leafb (LStsz 0 0 0 0 []);
                          leafb (LTab n_stco 4 0 0 []) ] ] ]) ])
  end.

(* ------------------------------------------------------------------ moov, init segment *)
Definition child_box (s : st) (c : mchild) : option mbox :=
  match c with
  | MCmvhd => Some (mvhd_box (next_id s))
  | MCmvex => Some (contb n_mvex (map trex_box (trexs s)))
  | MCtrak i => match nth_error (traks s) i with Some t => trak_box t | None => None end
  end.

Fixpoint children_boxes (s : st) (cs : list mchild) : option (list mbox) :=
  match cs with
  | [] => Some []
  | c :: r => match child_box s c, children_boxes s r with
              | Some b, Some bs => Some (b :: bs)
              | _, _ => None
              end
  end.

(* InitSegment.Children = [ftyp; moov] *)
Definition tree_of (s : st) : option (list mbox) :=
  match children_boxes s (children s) with
  | Some cs => Some [ftyp_box; contb n_moov cs]
  | None => None
  end.

(* InitSegment.Encode *)
Definition init_encode (s : st) : option (res (list N)) :=
  match tree_of s with Some ts => Some (encode_seq false ts) | None => None end.

(* ------------------------------------------------------------------ File.AddChild: fragmented init? *)
(* firstTrakSttsEntries(moov): the number of stts entries of the first trak that has the full
   mdia/minf/stbl/stts chain; the file is a fragmented init when that number is 0 *)
Definition find_cont (name : list N) (cs : list mbox) : option (list mbox) :=
  match find (fun b => match b with MCont h _ => bytes_eqb (h_name h) name | _ => false end) cs with
  | Some (MCont _ l) => Some l
  | _ => None
  end.
Definition trak_stts_entries (trak_children : list mbox) : option nat :=
  match find_cont n_mdia trak_children with
  | Some md => match find_cont n_minf md with
               | Some mi => match find_cont n_stbl mi with
                            | Some sb =>
                                match find (fun b => match b with MLeaf _ (LStts _ _ _) _ => true | _ => false end) sb with
                                | Some (MLeaf _ (LStts _ _ es) _) => Some (length es)
                                | _ => None
                                end
                            | None => None
                            end
               | None => None
               end
  | None => None
  end.
Definition is_fragmented_init (ts : list mbox) : bool :=
  match find_cont n_moov ts with
  | Some mc =>
      match find_cont n_trak mc with
      | Some tc => match trak_stts_entries tc with Some O => true | _ => false end
      | None => false
      end
  | None => false
  end.

(* MvexBox.GetTrex(id) on a decoded tree: a trex leaf with that track id among the children of moov/mvex *)
Definition has_trex (ts : list mbox) (id : N) : bool :=
  match find_cont n_moov ts with
  | Some mc => match find_cont n_mvex mc with
               | Some xs => existsb (fun b => match b with MLeaf _ (LTrex _ _ tid _ _ _ _) _ => tid =? id | _ => false end) xs
               | None => false
               end
  | None => false
  end.

(* ------------------------------------------------------------------ the round trip, as a decision procedure *)
(* decidable equality of C01's leaf values and trees (computational: used by roundtrip_ok) *)
Definition tsample_eq_dec : forall a b : tsample, {a = b} + {a <> b}.
Proof. decide equality; apply N.eq_dec. Defined.
Definition sref_eq_dec : forall a b : sref, {a = b} + {a <> b}.
Proof. decide equality; apply N.eq_dec. Defined.
Definition leaf_eq_dec : forall a b : leaf, {a = b} + {a <> b}.
Proof.
  decide equality;
    repeat first [ apply N.eq_dec | apply Bool.bool_dec | apply Nat.eq_dec | apply tsample_eq_dec | apply sref_eq_dec
                 | apply desc_eq_dec | apply sge_eq_dec | apply list_eq_dec | decide equality ].
Defined.

Definition hdr_eqb (a b : hdr) : bool :=
  bytes_eqb (h_name a) (h_name b) && (h_size a =? h_size b) && (h_len a =? h_len b).
Definition leaf_eqb (a b : leaf) : bool := if leaf_eq_dec a b then true else false.
Fixpoint rsvT_eqb (r d : rsvT) : bool :=
  match r, d with
  | [], [] => true
  | c :: r', e :: d' => bytes_eqb c e && rsvT_eqb r' d'
  | _, _ => false
  end.

Fixpoint mbox_eqb (a b : mbox) : bool :=
  let fix all2 (x y : list mbox) : bool :=
    match x, y with
    | [], [] => true
    | p :: x', q :: y' => mbox_eqb p q && all2 x' y'
    | _, _ => false
    end in
  match a, b with
  | MLeaf h1 l1 r1, MLeaf h2 l2 r2 => hdr_eqb h1 h2 && leaf_eqb l1 l2 && rsvT_eqb r1 r2
  | MCont h1 c1, MCont h2 c2 => hdr_eqb h1 h2 && all2 c1 c2
  | MUnknown h1 p1, MUnknown h2 p2 => hdr_eqb h1 h2 && bytes_eqb p1 p2
  | MPre h1 l1 r1 c1, MPre h2 l2 r2 c2 => hdr_eqb h1 h2 && leaf_eqb l1 l2 && rsvT_eqb r1 r2 && all2 c1 c2
  | _, _ => false
  end.
Fixpoint mboxes_eqb (x y : list mbox) : bool :=
  match x, y with
  | [], [] => true
  | p :: x', q :: y' => mbox_eqb p q && mboxes_eqb x' y'
  | _, _ => false
  end.

(* encode with C01's encoder, decode with C01's decoder, compare: the decoded trees EQUAL the built ones (headers,
   every field of every leaf, captured reserved bytes = what the encoders write), the file is recognised as a
   fragmented init (when there is a track), and every track id has its trex in the decoded tree *)
Definition roundtrip_ok (s : st) : bool :=
  match tree_of s with
  | None => false
  | Some ts =>
      match encode_seq false ts with
      | Ok bs =>
          match decode_file bs with
          | Ok ts' =>
              mboxes_eqb ts' ts
              && (Nat.eqb (length (traks s)) 0 || is_fragmented_init ts')
              && forallb (fun t => has_trex ts' (tk_id t)) (traks s)
          | _ => false
          end
      | _ => false
      end
  end.

(* ------------------------------------------------------------------ argument ranges, as a decision procedure *)
Definition nalus16b (l : list str) : bool := forallb (fun a => lenN a <? 65536) l.
Definition no_nulb (l : str) : bool := forallb (fun c => negb (c =? 0)) l.

Definition entry_okb (e : sentry) : bool :=
  (se_dref e <? 65536) && (se_a e <? 65536) && (se_b e <? 65536) && (se_c e <? 65536) &&
  match se_cfg e with
  | CfgAvcC a =>
      (bytes_eqb (se_name e) n_avc1 || bytes_eqb (se_name e) n_avc3)
      && (ac_profile a <? 256) && (ac_compat a <? 256) && (ac_level a <? 256)
      && (lenN (ac_sps a) <? 32) && (lenN (ac_pps a) <? 256) && nalus16b (ac_sps a) && nalus16b (ac_pps a)
      && (ac_chroma a <? 4) && (ac_bdl a <? 8) && (ac_bdc a <? 8)
  | CfgHvcC h =>
      (bytes_eqb (se_name e) n_hvc1 || bytes_eqb (se_name e) n_hev1)
      && match hvcrec_of h with
         | Some r => hvcrec_ok r && (hr_level r <? 256) && forallb (fun a => fst a <? 256) (hr_arrays r)
         | None => false
         end
  (* the one-byte size fields of the esds descriptors hold 23 + len(asc) at most: below 128 *)
  | CfgEsds asc => bytes_eqb (se_name e) n_mp4a && (lenN asc <=? 100)
  | CfgDac3 _ => bytes_eqb (se_name e) n_ac3
  | CfgDec3 _ => bytes_eqb (se_name e) n_ec3
  | CfgVttC _ => true
  | CfgStpp _ _ _ => true
  end.

Definition trak_okb (t : trak) : bool :=
  (tk_id t <? 4294967296) && (tk_volume t <? 65536) && (tk_width t <? 4294967296) && (tk_height t <? 4294967296)
  && (md_timescale t <? 4294967296) && (md_lang t <? 65536) && (lenN (hd_type t) =? 4)
  && match el_lang t with Some l => (2 <=? lenN l) && no_nulb l | None => true end
  && (lenN (sd_entries t) <? 4294967296) && forallb entry_okb (sd_entries t).

Definition args_okb (s : st) : bool :=
  (next_id s <? 4294967296) && forallb (fun id => id <? 4294967296) (trexs s) && forallb trak_okb (traks s).
