(* SNAPSHOT: verbatim copy of coq/c15/C15HevcSpec.v at /verif commit ad13f0a (only this banner and the import lines differ).
   Used by C19 only for the extracted parameter-set serialisers of the driver's GEN mode; frozen so that concurrent
   work on C15 (slice headers, guards) cannot break C19's build.  To follow C15 again: delete the four C19Gen*.v files and
   import V.c15 C15Model C15Spec C15HevcModel C15HevcSpec in C19Extract.v (and open them in ocaml/c19_driver.ml). *)
(* C15HevcSpec.v — INDEPENDENT serialisers written from the syntax tables of ISO/IEC 23008-2
   (7.3.1.2 nal_unit_header, 7.3.2.2 seq_parameter_set_rbsp with its range / multilayer / 3D / SCC
   extensions, 7.3.3 profile_tier_level, 7.3.4 scaling_list_data, 7.3.7 st_ref_pic_set,
   E.2.1 vui_parameters, E.2.2 hrd_parameters, E.2.3 sub_layer_hrd_parameters), the derived
   quantities (7.4.8 st_ref_pic_set derivation (7-61)/(7-62), conformance-window cropping 7.4.3.2.1)
   and the expected parse results.  Definitions only; trusted base.  All syntax field names carry the
   prefix sx_ (record projections are global in Coq). *)
From V.lib Require Import Base.
From V.c13 Require Import C13Spec.
From V.c19 Require Import C19GenAvcModel C19GenAvcSpec C19GenHevcModel.

(* ------------------------------------------------------------------ NAL unit (7.3.1) *)
(* forbidden_zero_bit, nal_unit_type u(6), nuh_layer_id u(6), nuh_temporal_id_plus1 u(3) *)
Definition hnal_header (typ layer tid : N) : list bool := [false] ++ u 6 typ ++ u 6 layer ++ u 3 tid.

Definition hraw_nalu (typ layer tid : N) (payload : list bool) : list N :=
  let b := hnal_header typ layer tid ++ payload in
  bytes_of_bits (b ++ trailing_bits (lenN b)).
Definition hnalu_of (typ layer tid : N) (payload : list bool) : list N :=
  escape (hraw_nalu typ layer tid payload).

(* ------------------------------------------------------------------ profile_tier_level (7.3.3) *)
Record hprofile_syntax := mkHProfSyn {
  sx_profile_space : N; sx_tier_flag : bool; sx_profile_idc : N;
  sx_profile_compatibility_flags : N;     (* profile_compatibility_flag[j] = bit 31-j *)
  sx_progressive_source_flag : bool; sx_interlaced_source_flag : bool;
  sx_non_packed_constraint_flag : bool; sx_frame_only_constraint_flag : bool;
  sx_constraint_43bits : N;               (* the 43 bits that follow (profile-specific flags / reserved_zero_43bits) *)
  sx_inbld_flag : bool }.                 (* general_inbld_flag / reserved_zero_bit *)

Definition ser_hprofile (p : hprofile_syntax) : list bool :=
  u 2 (sx_profile_space p) ++ fl (sx_tier_flag p) ++ u 5 (sx_profile_idc p)
  ++ u 32 (sx_profile_compatibility_flags p)
  ++ fl (sx_progressive_source_flag p) ++ fl (sx_interlaced_source_flag p)
  ++ fl (sx_non_packed_constraint_flag p) ++ fl (sx_frame_only_constraint_flag p)
  ++ u 43 (sx_constraint_43bits p) ++ fl (sx_inbld_flag p).

(* the 48 bits from general_progressive_source_flag on, as one number *)
Definition constraint48 (p : hprofile_syntax) : N :=
  2 ^ 47 * b2n (sx_progressive_source_flag p) + 2 ^ 46 * b2n (sx_interlaced_source_flag p)
  + 2 ^ 45 * b2n (sx_non_packed_constraint_flag p) + 2 ^ 44 * b2n (sx_frame_only_constraint_flag p)
  + 2 * sx_constraint_43bits p + b2n (sx_inbld_flag p).

Definition hprofile_valid (p : hprofile_syntax) : bool :=
  (sx_profile_space p <? 4) && (sx_profile_idc p <? 32)
  && (sx_profile_compatibility_flags p <? 2 ^ 32) && (sx_constraint_43bits p <? 2 ^ 43).

Record hsub_syntax := mkHSubSyn {
  sx_sub_profile_present : bool; sx_sub_level_present : bool;
  sx_sub_profile : hprofile_syntax; sx_sub_level_idc : N }.

Record hptl_syntax := mkHPtlSyn {
  sx_general : hprofile_syntax; sx_general_level_idc : N; sx_sub_layers : list hsub_syntax }.

(* profile_tier_level(1, maxNumSubLayersMinus1) *)
Definition ser_hptl (max_sub : N) (p : hptl_syntax) : list bool :=
  ser_hprofile (sx_general p) ++ u 8 (sx_general_level_idc p)
  ++ flat_map (fun s => fl (sx_sub_profile_present s) ++ fl (sx_sub_level_present s)) (sx_sub_layers p)
  ++ opt_bits (0 <? max_sub) (u (2 * (8 - max_sub)) 0)            (* reserved_zero_2bits, i = max .. 7 *)
  ++ flat_map (fun s => opt_bits (sx_sub_profile_present s) (ser_hprofile (sx_sub_profile s))
                        ++ opt_bits (sx_sub_level_present s) (u 8 (sx_sub_level_idc s)))
              (sx_sub_layers p).

Definition hptl_valid (max_sub : N) (p : hptl_syntax) : bool :=
  hprofile_valid (sx_general p) && (sx_general_level_idc p <? 256)
  && (lenN (sx_sub_layers p) =? max_sub)
  && forallb (fun s => hprofile_valid (sx_sub_profile s) && (sx_sub_level_idc s <? 256)) (sx_sub_layers p).

Definition expected_hsub (s : hsub_syntax) : hsub :=
  let p := sx_sub_profile s in
  let pp := sx_sub_profile_present s in
  let n (x : N) := if pp then x else 0 in
  mkHSub pp (sx_sub_level_present s) (n (sx_profile_space p)) (pp && sx_tier_flag p)
         (n (sx_profile_idc p)) (n (sx_profile_compatibility_flags p)) (n (constraint48 p))
         (if sx_sub_level_present s then sx_sub_level_idc s else 0).

Definition expected_hptl (p : hptl_syntax) : hptl :=
  let g := sx_general p in
  mkHPtl (sx_profile_space g) (sx_tier_flag g) (sx_profile_idc g) (sx_profile_compatibility_flags g)
         (constraint48 g) (sx_general_level_idc p) (map expected_hsub (sx_sub_layers p)).

(* ------------------------------------------------------------------ scaling_list_data (7.3.4) *)
Inductive hsl_entry :=
| SlPred (pred_matrix_id_delta : N)                    (* scaling_list_pred_mode_flag = 0 *)
| SlCoefs (dc_coef_minus8 : Z) (delta_coefs : list Z). (* = 1; dc only coded for sizeId > 1 *)

Definition sl_coef_num (size_id : N) : N := N.min 64 (2 ^ (4 + 2 * size_id)).

Definition ser_hsl_entry (size_id : N) (e : hsl_entry) : list bool :=
  match e with
  | SlPred d => fl false ++ ue_bits d
  | SlCoefs dc cs => fl true ++ opt_bits (1 <? size_id) (se_bits dc) ++ flat_map se_bits cs
  end.

(* sizeId 0..2: matrixId 0..5; sizeId 3: matrixId 0 and 3 *)
Record hsl_syntax := mkHSlSyn { sx_sl0 : list hsl_entry; sx_sl1 : list hsl_entry;
                                sx_sl2 : list hsl_entry; sx_sl3 : list hsl_entry }.

Definition ser_hsl (s : hsl_syntax) : list bool :=
  flat_map (ser_hsl_entry 0) (sx_sl0 s) ++ flat_map (ser_hsl_entry 1) (sx_sl1 s)
  ++ flat_map (ser_hsl_entry 2) (sx_sl2 s) ++ flat_map (ser_hsl_entry 3) (sx_sl3 s).

Definition hsl_entry_valid (size_id : N) (e : hsl_entry) : bool :=
  match e with
  | SlPred d => d <=? 5
  | SlCoefs dc cs => se_ok dc && (lenN cs =? sl_coef_num size_id) && forallb se_ok cs
  end.

Definition hsl_valid (s : hsl_syntax) : bool :=
  (lenN (sx_sl0 s) =? 6) && (lenN (sx_sl1 s) =? 6) && (lenN (sx_sl2 s) =? 6) && (lenN (sx_sl3 s) =? 2)
  && forallb (hsl_entry_valid 0) (sx_sl0 s) && forallb (hsl_entry_valid 1) (sx_sl1 s)
  && forallb (hsl_entry_valid 2) (sx_sl2 s) && forallb (hsl_entry_valid 3) (sx_sl3 s).

(* ------------------------------------------------------------------ st_ref_pic_set (7.3.7, 7.4.8) *)
Inductive hrps_syntax :=
| RpsExplicit (neg pos : list (N * bool))        (* delta_poc_sX_minus1[i], used_by_curr_pic_sX_flag[i] *)
| RpsInter (delta_idx_minus1 : N) (delta_rps_sign : bool) (abs_delta_rps_minus1 : N)
           (flags : list (bool * bool)).         (* used_by_curr_pic_flag[j], use_delta_flag[j] (coded iff used = 0) *)

(* st_ref_pic_set(stRpsIdx) with num_short_term_ref_pic_sets = num *)
Definition ser_hrps (idx num : N) (r : hrps_syntax) : list bool :=
  match r with
  | RpsExplicit neg pos =>
      opt_bits (0 <? idx) (fl false)
      ++ ue_bits (lenN neg) ++ ue_bits (lenN pos)
      ++ flat_map (fun e => ue_bits (fst e) ++ fl (snd e)) neg
      ++ flat_map (fun e => ue_bits (fst e) ++ fl (snd e)) pos
  | RpsInter di sg ab fls =>
      fl true ++ opt_bits (idx =? num) (ue_bits di) ++ fl sg ++ ue_bits ab
      ++ flat_map (fun e => fl (fst e) ++ opt_bits (negb (fst e)) (fl (snd e))) fls
  end.

(* the derived set: (DeltaPocS0[i], UsedByCurrPicS0[i]) and (DeltaPocS1[i], UsedByCurrPicS1[i]) *)
Record rps_derived := mkRpsD { d_s0 : list (Z * bool); d_s1 : list (Z * bool) }.
Definition d_num_delta (d : rps_derived) : N := lenN (d_s0 d) + lenN (d_s1 d).
(* contribution of the short-term set to NumPicTotalCurr (7-55) *)
Definition d_num_used (d : rps_derived) : N := countb (map snd (d_s0 d)) + countb (map snd (d_s1 d)).

Fixpoint cumulate (sign : Z) (acc : Z) (l : list (N * bool)) : list (Z * bool) :=
  match l with
  | [] => []
  | (m, used) :: t => let v := (acc + sign * (Z.of_N m + 1))%Z in (v, used) :: cumulate sign v t
  end.

(* use_delta_flag[j] is inferred to be 1 when it is not coded *)
Definition eff_use (f : bool * bool) : bool := fst f || snd f.

(* entries (dPoc, used) of `es` shifted by deltaRps that satisfy `keep dPoc` and have use_delta_flag set *)
Definition shifted (keep : Z -> bool) (delta_rps : Z) (es : list ((Z * bool) * (bool * bool))) : list (Z * bool) :=
  flat_map (fun e => let dpoc := (fst (fst e) + delta_rps)%Z in
                     if keep dpoc && eff_use (snd e) then [(dpoc, fst (snd e))] else []) es.

Definition derive_rps (ref : rps_derived) (delta_rps : Z) (fls : list (bool * bool)) : rps_derived :=
  let nneg := length (d_s0 ref) in
  let npos := length (d_s1 ref) in
  let eneg := combine (d_s0 ref) (firstn nneg fls) in
  let epos := combine (d_s1 ref) (firstn npos (skipn nneg fls)) in
  let last := nth (nneg + npos) fls (false, false) in
  let neg z := (z <? 0)%Z in
  let pos z := (0 <? z)%Z in
  mkRpsD
    (* (7-61) *)
    (shifted neg delta_rps (rev epos)
     ++ (if neg delta_rps && eff_use last then [(delta_rps, fst last)] else [])
     ++ shifted neg delta_rps eneg)
    (* (7-62) *)
    (shifted pos delta_rps (rev eneg)
     ++ (if pos delta_rps && eff_use last then [(delta_rps, fst last)] else [])
     ++ shifted pos delta_rps epos).

Definition delta_rps_of (sg : bool) (ab : N) : Z := ((1 - 2 * zb sg) * (Z.of_N ab + 1))%Z.

(* derivation of set idx given the derived sets 0 .. idx-1 *)
Definition derive_one (prev : list rps_derived) (idx : N) (r : hrps_syntax) : rps_derived :=
  match r with
  | RpsExplicit neg pos => mkRpsD (cumulate (-1) 0 neg) (cumulate 1 0 pos)
  | RpsInter di sg ab fls =>
      derive_rps (nth (N.to_nat (idx - (di + 1))) prev (mkRpsD [] [])) (delta_rps_of sg ab) fls
  end.

Fixpoint derive_all_from (prev : list rps_derived) (idx : N) (l : list hrps_syntax) : list rps_derived :=
  match l with
  | [] => prev
  | r :: t => derive_all_from (prev ++ [derive_one prev idx r]) (idx + 1) t
  end.
Definition derive_all (l : list hrps_syntax) : list rps_derived := derive_all_from [] 0 l.

(* no flagged entry may have dPoc = 0 (it would denote the current picture) *)
Definition no_zero_dpoc (ref : rps_derived) (delta_rps : Z) (fls : list (bool * bool)) : bool :=
  let nneg := length (d_s0 ref) in
  forallb (fun e => negb ((fst (fst e) + delta_rps =? 0)%Z && eff_use (snd e)))
          (combine (d_s0 ref ++ d_s1 ref) fls).

Definition max_st_pics : N := 16.

(* in_sps: delta_idx_minus1 is not coded (inferred 0) *)
Definition hrps_valid (prev : list rps_derived) (idx num : N) (r : hrps_syntax) : bool :=
  match r with
  | RpsExplicit neg pos =>
      (lenN neg <=? max_st_pics) && (lenN pos <=? max_st_pics)
      && forallb (fun e => fst e <? 32768) neg && forallb (fun e => fst e <? 32768) pos
  | RpsInter di sg ab fls =>
      (0 <? idx) && (di + 1 <=? idx) && ((idx =? num) || (di =? 0)) && (ab <? 32768)
      && (let ref := nth (N.to_nat (idx - (di + 1))) prev (mkRpsD [] []) in
          (lenN fls =? d_num_delta ref + 1)
          && forallb (fun f => implb (fst f) (snd f)) fls            (* canonical: used -> use_delta = 1 *)
          && no_zero_dpoc ref (delta_rps_of sg ab) fls
          && (d_num_delta (derive_rps ref (delta_rps_of sg ab) fls) <=? max_st_pics))
  end.

Fixpoint hrps_list_valid_from (prev : list rps_derived) (idx num : N) (l : list hrps_syntax) : bool :=
  match l with
  | [] => true
  | r :: t => hrps_valid prev idx num r
              && hrps_list_valid_from (prev ++ [derive_one prev idx r]) (idx + 1) num t
  end.

(* what the Go structure holds: per-entry deltas (delta_poc_sX_minus1 + 1) for coded sets; for
   inter-predicted sets only NumDeltaPocs and (unexported) the number of used entries *)
Definition expected_hrps (d : rps_derived) (r : hrps_syntax) : hrps :=
  match r with
  | RpsExplicit neg pos =>
      mkHRps (map (fun e => fst e + 1) neg) (map (fun e => fst e + 1) pos) (map snd neg) (map snd pos)
             (lenN neg) (lenN pos) (lenN neg + lenN pos) 0
  | RpsInter _ _ _ _ => mkHRps [] [] [] [] 0 0 (d_num_delta d) (d_num_used d)
  end.

(* ------------------------------------------------------------------ hrd_parameters (E.2.2, E.2.3) *)
Record hcpb_syntax := mkHCpbSyn {
  sx_bit_rate_value_minus1 : N; sx_cpb_size_value_minus1 : N;
  sx_cpb_size_du_value_minus1 : N; sx_bit_rate_du_value_minus1 : N; sx_cbr_flag : bool }.

Record hsubhrd_syntax := mkHSubHrdSyn {
  sx_fixed_pic_rate_general_flag : bool; sx_fixed_pic_rate_within_cvs_flag : bool;
  sx_elemental_duration_in_tc_minus1 : N; sx_low_delay_hrd_flag : bool; sx_cpb_cnt_minus1 : N;
  sx_nal_cpbs : list hcpb_syntax; sx_vcl_cpbs : list hcpb_syntax }.

Record hhrd_syntax := mkHHrdSyn {
  sx_nal_hrd_parameters_present_flag : bool; sx_vcl_hrd_parameters_present_flag : bool;
  sx_sub_pic_hrd_params_present_flag : bool; sx_tick_divisor_minus2 : N;
  sx_du_cpb_removal_delay_increment_length_minus1 : N; sx_sub_pic_cpb_params_in_pic_timing_sei_flag : bool;
  sx_dpb_output_delay_du_length_minus1 : N; sx_bit_rate_scale : N; sx_cpb_size_scale : N;
  sx_cpb_size_du_scale : N; sx_initial_cpb_removal_delay_length_minus1 : N;
  sx_au_cpb_removal_delay_length_minus1 : N; sx_dpb_output_delay_length_minus1 : N;
  sx_hrd_sub_layers : list hsubhrd_syntax }.

Definition ser_hcpb (subpic : bool) (c : hcpb_syntax) : list bool :=
  ue_bits (sx_bit_rate_value_minus1 c) ++ ue_bits (sx_cpb_size_value_minus1 c)
  ++ opt_bits subpic (ue_bits (sx_cpb_size_du_value_minus1 c) ++ ue_bits (sx_bit_rate_du_value_minus1 c))
  ++ fl (sx_cbr_flag c).

Definition hsub_fixed_cvs (s : hsubhrd_syntax) : bool :=
  sx_fixed_pic_rate_general_flag s || sx_fixed_pic_rate_within_cvs_flag s.
Definition hsub_low_delay (s : hsubhrd_syntax) : bool := negb (hsub_fixed_cvs s) && sx_low_delay_hrd_flag s.

Definition ser_hsubhrd (nal vcl subpic : bool) (s : hsubhrd_syntax) : list bool :=
  fl (sx_fixed_pic_rate_general_flag s)
  ++ opt_bits (negb (sx_fixed_pic_rate_general_flag s)) (fl (sx_fixed_pic_rate_within_cvs_flag s))
  ++ (if hsub_fixed_cvs s then ue_bits (sx_elemental_duration_in_tc_minus1 s)
      else fl (sx_low_delay_hrd_flag s))
  ++ opt_bits (negb (hsub_low_delay s)) (ue_bits (sx_cpb_cnt_minus1 s))
  ++ opt_bits nal (flat_map (ser_hcpb subpic) (sx_nal_cpbs s))
  ++ opt_bits vcl (flat_map (ser_hcpb subpic) (sx_vcl_cpbs s)).

(* hrd_parameters(1, maxNumSubLayersMinus1) *)
Definition ser_hhrd (h : hhrd_syntax) : list bool :=
  let nal := sx_nal_hrd_parameters_present_flag h in
  let vcl := sx_vcl_hrd_parameters_present_flag h in
  let sp := (nal || vcl) && sx_sub_pic_hrd_params_present_flag h in
  fl nal ++ fl vcl
  ++ opt_bits (nal || vcl)
       (fl (sx_sub_pic_hrd_params_present_flag h)
        ++ opt_bits (sx_sub_pic_hrd_params_present_flag h)
             (u 8 (sx_tick_divisor_minus2 h) ++ u 5 (sx_du_cpb_removal_delay_increment_length_minus1 h)
              ++ fl (sx_sub_pic_cpb_params_in_pic_timing_sei_flag h)
              ++ u 5 (sx_dpb_output_delay_du_length_minus1 h))
        ++ u 4 (sx_bit_rate_scale h) ++ u 4 (sx_cpb_size_scale h)
        ++ opt_bits (sx_sub_pic_hrd_params_present_flag h) (u 4 (sx_cpb_size_du_scale h))
        ++ u 5 (sx_initial_cpb_removal_delay_length_minus1 h)
        ++ u 5 (sx_au_cpb_removal_delay_length_minus1 h) ++ u 5 (sx_dpb_output_delay_length_minus1 h))
  ++ flat_map (ser_hsubhrd nal vcl sp) (sx_hrd_sub_layers h).

Definition hcpb_valid (c : hcpb_syntax) : bool :=
  ue_ok (sx_bit_rate_value_minus1 c) && ue_ok (sx_cpb_size_value_minus1 c)
  && ue_ok (sx_cpb_size_du_value_minus1 c) && ue_ok (sx_bit_rate_du_value_minus1 c).

Definition hsubhrd_cpb_cnt (s : hsubhrd_syntax) : N := if hsub_low_delay s then 0 else sx_cpb_cnt_minus1 s.

Definition hsubhrd_valid (nal vcl : bool) (s : hsubhrd_syntax) : bool :=
  (sx_elemental_duration_in_tc_minus1 s <=? 2047) && (sx_cpb_cnt_minus1 s <=? 31)
  && (if nal then (lenN (sx_nal_cpbs s) =? hsubhrd_cpb_cnt s + 1) && forallb hcpb_valid (sx_nal_cpbs s) else true)
  && (if vcl then (lenN (sx_vcl_cpbs s) =? hsubhrd_cpb_cnt s + 1) && forallb hcpb_valid (sx_vcl_cpbs s) else true).

Definition hhrd_valid (max_sub : N) (h : hhrd_syntax) : bool :=
  (sx_tick_divisor_minus2 h <? 256) && (sx_du_cpb_removal_delay_increment_length_minus1 h <? 32)
  && (sx_dpb_output_delay_du_length_minus1 h <? 32) && (sx_bit_rate_scale h <? 16)
  && (sx_cpb_size_scale h <? 16) && (sx_cpb_size_du_scale h <? 16)
  && (sx_initial_cpb_removal_delay_length_minus1 h <? 32)
  && (sx_au_cpb_removal_delay_length_minus1 h <? 32) && (sx_dpb_output_delay_length_minus1 h <? 32)
  && (lenN (sx_hrd_sub_layers h) =? max_sub + 1)
  && forallb (hsubhrd_valid (sx_nal_hrd_parameters_present_flag h) (sx_vcl_hrd_parameters_present_flag h))
             (sx_hrd_sub_layers h).

Definition expected_hcpb (subpic : bool) (c : hcpb_syntax) : hcpb :=
  mkHCpb (sx_bit_rate_value_minus1 c) (sx_cpb_size_value_minus1 c)
         (if subpic then sx_cpb_size_du_value_minus1 c else 0)
         (if subpic then sx_bit_rate_du_value_minus1 c else 0) (sx_cbr_flag c).

Definition expected_hsubhrd (nal vcl subpic : bool) (s : hsubhrd_syntax) : hsubhrd :=
  mkHSubHrd (sx_fixed_pic_rate_general_flag s) (hsub_fixed_cvs s)
            (if hsub_fixed_cvs s then sx_elemental_duration_in_tc_minus1 s else 0)
            (hsub_low_delay s) (hsubhrd_cpb_cnt s)
            (if nal then map (expected_hcpb subpic) (sx_nal_cpbs s) else [])
            (if vcl then map (expected_hcpb subpic) (sx_vcl_cpbs s) else []).

Definition expected_hhrd (h : hhrd_syntax) : hhrd :=
  let nal := sx_nal_hrd_parameters_present_flag h in
  let vcl := sx_vcl_hrd_parameters_present_flag h in
  let c := nal || vcl in
  let sp := c && sx_sub_pic_hrd_params_present_flag h in
  let n (b : bool) (x : N) := if b then x else 0 in
  mkHHrd nal vcl sp (n sp (sx_tick_divisor_minus2 h))
         (n sp (sx_du_cpb_removal_delay_increment_length_minus1 h))
         (sp && sx_sub_pic_cpb_params_in_pic_timing_sei_flag h)
         (n sp (sx_dpb_output_delay_du_length_minus1 h))
         (n c (sx_bit_rate_scale h)) (n c (sx_cpb_size_scale h)) (n sp (sx_cpb_size_du_scale h))
         (n c (sx_initial_cpb_removal_delay_length_minus1 h))
         (n c (sx_au_cpb_removal_delay_length_minus1 h)) (n c (sx_dpb_output_delay_length_minus1 h))
         (map (expected_hsubhrd nal vcl sp) (sx_hrd_sub_layers h)).

(* ------------------------------------------------------------------ vui_parameters (E.2.1) *)
Record hvui_syntax := mkHVuiSyn {
  sx_aspect_ratio_info_present_flag : bool; sx_aspect_ratio_idc : N; sx_sar_width : N; sx_sar_height : N;
  sx_overscan_info_present_flag : bool; sx_overscan_appropriate_flag : bool;
  sx_video_signal_type_present_flag : bool; sx_video_format : N; sx_video_full_range_flag : bool;
  sx_colour_description_present_flag : bool; sx_colour_primaries : N; sx_transfer_characteristics : N;
  sx_matrix_coeffs : N;
  sx_chroma_loc_info_present_flag : bool; sx_chroma_sample_loc_type_top_field : N;
  sx_chroma_sample_loc_type_bottom_field : N;
  sx_neutral_chroma_indication_flag : bool; sx_field_seq_flag : bool; sx_frame_field_info_present_flag : bool;
  sx_default_display_window_flag : bool; sx_def_disp_win_left_offset : N; sx_def_disp_win_right_offset : N;
  sx_def_disp_win_top_offset : N; sx_def_disp_win_bottom_offset : N;
  sx_vui_timing_info_present_flag : bool; sx_vui_num_units_in_tick : N; sx_vui_time_scale : N;
  sx_vui_poc_proportional_to_timing_flag : bool; sx_vui_num_ticks_poc_diff_one_minus1 : N;
  sx_vui_hrd_parameters_present_flag : bool; sx_vui_hrd : hhrd_syntax;
  sx_bitstream_restriction_flag : bool; sx_tiles_fixed_structure_flag : bool;
  sx_motion_vectors_over_pic_boundaries_flag : bool; sx_restricted_ref_pic_lists_flag : bool;
  sx_min_spatial_segmentation_idc : N; sx_max_bytes_per_pic_denom : N; sx_max_bits_per_min_cu_denom : N;
  sx_log2_max_mv_length_horizontal : N; sx_log2_max_mv_length_vertical : N }.

Definition ser_hvui (x : hvui_syntax) : list bool :=
  fl (sx_aspect_ratio_info_present_flag x)
  ++ opt_bits (sx_aspect_ratio_info_present_flag x)
       (u 8 (sx_aspect_ratio_idc x)
        ++ opt_bits (sx_aspect_ratio_idc x =? 255) (u 16 (sx_sar_width x) ++ u 16 (sx_sar_height x)))
  ++ fl (sx_overscan_info_present_flag x)
  ++ opt_bits (sx_overscan_info_present_flag x) (fl (sx_overscan_appropriate_flag x))
  ++ fl (sx_video_signal_type_present_flag x)
  ++ opt_bits (sx_video_signal_type_present_flag x)
       (u 3 (sx_video_format x) ++ fl (sx_video_full_range_flag x)
        ++ fl (sx_colour_description_present_flag x)
        ++ opt_bits (sx_colour_description_present_flag x)
             (u 8 (sx_colour_primaries x) ++ u 8 (sx_transfer_characteristics x) ++ u 8 (sx_matrix_coeffs x)))
  ++ fl (sx_chroma_loc_info_present_flag x)
  ++ opt_bits (sx_chroma_loc_info_present_flag x)
       (ue_bits (sx_chroma_sample_loc_type_top_field x) ++ ue_bits (sx_chroma_sample_loc_type_bottom_field x))
  ++ fl (sx_neutral_chroma_indication_flag x) ++ fl (sx_field_seq_flag x)
  ++ fl (sx_frame_field_info_present_flag x)
  ++ fl (sx_default_display_window_flag x)
  ++ opt_bits (sx_default_display_window_flag x)
       (ue_bits (sx_def_disp_win_left_offset x) ++ ue_bits (sx_def_disp_win_right_offset x)
        ++ ue_bits (sx_def_disp_win_top_offset x) ++ ue_bits (sx_def_disp_win_bottom_offset x))
  ++ fl (sx_vui_timing_info_present_flag x)
  ++ opt_bits (sx_vui_timing_info_present_flag x)
       (u 32 (sx_vui_num_units_in_tick x) ++ u 32 (sx_vui_time_scale x)
        ++ fl (sx_vui_poc_proportional_to_timing_flag x)
        ++ opt_bits (sx_vui_poc_proportional_to_timing_flag x) (ue_bits (sx_vui_num_ticks_poc_diff_one_minus1 x))
        ++ fl (sx_vui_hrd_parameters_present_flag x)
        ++ opt_bits (sx_vui_hrd_parameters_present_flag x) (ser_hhrd (sx_vui_hrd x)))
  ++ fl (sx_bitstream_restriction_flag x)
  ++ opt_bits (sx_bitstream_restriction_flag x)
       (fl (sx_tiles_fixed_structure_flag x) ++ fl (sx_motion_vectors_over_pic_boundaries_flag x)
        ++ fl (sx_restricted_ref_pic_lists_flag x)
        ++ ue_bits (sx_min_spatial_segmentation_idc x) ++ ue_bits (sx_max_bytes_per_pic_denom x)
        ++ ue_bits (sx_max_bits_per_min_cu_denom x) ++ ue_bits (sx_log2_max_mv_length_horizontal x)
        ++ ue_bits (sx_log2_max_mv_length_vertical x)).

Definition hvui_valid (max_sub : N) (x : hvui_syntax) : bool :=
  ((sx_aspect_ratio_idc x <=? 16) || (sx_aspect_ratio_idc x =? 255))
  && (sx_sar_width x <? 65536) && (sx_sar_height x <? 65536)
  && (sx_video_format x <? 8) && (sx_colour_primaries x <? 256) && (sx_transfer_characteristics x <? 256)
  && (sx_matrix_coeffs x <? 256)
  && (sx_chroma_sample_loc_type_top_field x <=? 5) && (sx_chroma_sample_loc_type_bottom_field x <=? 5)
  && ue_ok (sx_def_disp_win_left_offset x) && ue_ok (sx_def_disp_win_right_offset x)
  && ue_ok (sx_def_disp_win_top_offset x) && ue_ok (sx_def_disp_win_bottom_offset x)
  && (sx_vui_num_units_in_tick x <? 4294967296) && (sx_vui_time_scale x <? 4294967296)
  && ue_ok (sx_vui_num_ticks_poc_diff_one_minus1 x)
  && (if sx_vui_timing_info_present_flag x && sx_vui_hrd_parameters_present_flag x
      then hhrd_valid max_sub (sx_vui_hrd x) else true)
  && (sx_min_spatial_segmentation_idc x <=? 4095) && (sx_max_bytes_per_pic_denom x <=? 16)
  && (sx_max_bits_per_min_cu_denom x <=? 16) && (sx_log2_max_mv_length_horizontal x <=? 15)
  && (sx_log2_max_mv_length_vertical x <=? 15).

Definition expected_hsar (x : hvui_syntax) : N * N :=
  if sx_aspect_ratio_info_present_flag x
  then (if sx_aspect_ratio_idc x =? 255 then (sx_sar_width x, sx_sar_height x)
        else sar_of_idc (sx_aspect_ratio_idc x))
  else (0, 0).

Definition expected_hvui (x : hvui_syntax) : hvui :=
  let sar := expected_hsar x in
  let vs := sx_video_signal_type_present_flag x in
  let cd := vs && sx_colour_description_present_flag x in
  let cl := sx_chroma_loc_info_present_flag x in
  let dw := sx_default_display_window_flag x in
  let ti := sx_vui_timing_info_present_flag x in
  let pp := ti && sx_vui_poc_proportional_to_timing_flag x in
  let hp := ti && sx_vui_hrd_parameters_present_flag x in
  let br := sx_bitstream_restriction_flag x in
  let n (c : bool) (v : N) := if c then v else 0 in
  mkHVui (fst sar) (snd sar)
         (sx_overscan_info_present_flag x) (sx_overscan_info_present_flag x && sx_overscan_appropriate_flag x)
         vs (n vs (sx_video_format x)) (vs && sx_video_full_range_flag x) cd
         (n cd (sx_colour_primaries x)) (n cd (sx_transfer_characteristics x)) (n cd (sx_matrix_coeffs x))
         cl (n cl (sx_chroma_sample_loc_type_top_field x)) (n cl (sx_chroma_sample_loc_type_bottom_field x))
         (sx_neutral_chroma_indication_flag x) (sx_field_seq_flag x) (sx_frame_field_info_present_flag x)
         dw (n dw (sx_def_disp_win_left_offset x)) (n dw (sx_def_disp_win_right_offset x))
         (n dw (sx_def_disp_win_top_offset x)) (n dw (sx_def_disp_win_bottom_offset x))
         ti (n ti (sx_vui_num_units_in_tick x)) (n ti (sx_vui_time_scale x)) pp
         (n pp (sx_vui_num_ticks_poc_diff_one_minus1 x))
         hp (if hp then Some (expected_hhrd (sx_vui_hrd x)) else None)
         br (if br then Some (mkHBsr (sx_tiles_fixed_structure_flag x)
                                     (sx_motion_vectors_over_pic_boundaries_flag x)
                                     (sx_restricted_ref_pic_lists_flag x)
                                     (sx_min_spatial_segmentation_idc x) (sx_max_bytes_per_pic_denom x)
                                     (sx_max_bits_per_min_cu_denom x) (sx_log2_max_mv_length_horizontal x)
                                     (sx_log2_max_mv_length_vertical x))
             else None).

(* ------------------------------------------------------------------ SPS extensions *)
(* sps_scc_extension (7.3.2.2.3) *)
Record hspsscc_syntax := mkHSpsSccSyn {
  sx_sps_curr_pic_ref_enabled_flag : bool; sx_palette_mode_enabled_flag : bool;
  sx_palette_max_size : N; sx_delta_palette_max_predictor_size : N;
  sx_sps_palette_predictor_initializers_present_flag : bool;
  sx_sps_palette_predictor_initializer : list (list N);   (* [comp][i]; numComps lists of equal length >= 1 *)
  sx_motion_vector_resolution_control_idc : N; sx_intra_boundary_filtering_disabled_flag : bool }.

Definition ser_hspsscc (bdl bdc : N) (x : hspsscc_syntax) : list bool :=
  let ini := sx_sps_palette_predictor_initializer x in
  fl (sx_sps_curr_pic_ref_enabled_flag x) ++ fl (sx_palette_mode_enabled_flag x)
  ++ opt_bits (sx_palette_mode_enabled_flag x)
       (ue_bits (sx_palette_max_size x) ++ ue_bits (sx_delta_palette_max_predictor_size x)
        ++ fl (sx_sps_palette_predictor_initializers_present_flag x)
        ++ opt_bits (sx_sps_palette_predictor_initializers_present_flag x)
             (ue_bits (lenN (hd [] ini) - 1)          (* sps_num_palette_predictor_initializers_minus1 *)
              ++ flat_map (u (bdl + 8)) (hd [] ini)
              ++ flat_map (fun c => flat_map (u (bdc + 8)) c) (tl ini)))
  ++ u 2 (sx_motion_vector_resolution_control_idc x) ++ fl (sx_intra_boundary_filtering_disabled_flag x).

Definition hspsscc_valid (chroma bdl bdc : N) (x : hspsscc_syntax) : bool :=
  let ini := sx_sps_palette_predictor_initializer x in
  ue_ok (sx_palette_max_size x) && ue_ok (sx_delta_palette_max_predictor_size x)
  && (if sx_palette_mode_enabled_flag x && sx_sps_palette_predictor_initializers_present_flag x
      then (lenN ini =? (if chroma =? 0 then 1 else 3))
           && (1 <=? lenN (hd [] ini)) && (lenN (hd [] ini) <=? 1024)
           && forallb (fun c => lenN c =? lenN (hd [] ini)) ini
           && forallb (fun v => v <? 2 ^ (bdl + 8)) (hd [] ini)
           && forallb (forallb (fun v => v <? 2 ^ (bdc + 8))) (tl ini)
      else true)
  && (sx_motion_vector_resolution_control_idc x <? 4).

Definition expected_hspsscc (x : hspsscc_syntax) : hspsscc :=
  let pm := sx_palette_mode_enabled_flag x in
  let pi := pm && sx_sps_palette_predictor_initializers_present_flag x in
  let n (c : bool) (v : N) := if c then v else 0 in
  mkHSpsScc (sx_sps_curr_pic_ref_enabled_flag x) pm (n pm (sx_palette_max_size x))
            (n pm (sx_delta_palette_max_predictor_size x)) pi
            (n pi (lenN (hd [] (sx_sps_palette_predictor_initializer x)) - 1))
            (if pi then sx_sps_palette_predictor_initializer x else [])
            (sx_motion_vector_resolution_control_idc x) (sx_intra_boundary_filtering_disabled_flag x).

(* sps_3d_extension (I.7.3.2.2.5), in coding order *)
Definition ser_hsps3d (d : hsps3d) : list bool :=
  fl (d3_iv_di_mc0 d) ++ fl (d3_iv_mv_scal0 d) ++ ue_bits (d3_log2_ivmc d) ++ fl (d3_iv_res_pred d)
  ++ fl (d3_depth_ref d) ++ fl (d3_vsp_mc d) ++ fl (d3_dbbp d)
  ++ fl (d3_iv_di_mc1 d) ++ fl (d3_iv_mv_scal1 d) ++ fl (d3_tex_mc d) ++ ue_bits (d3_log2_texmc d)
  ++ fl (d3_intra_contour d) ++ fl (d3_intra_dc_only_wedge d) ++ fl (d3_cqt_cu_part_pred d)
  ++ fl (d3_inter_dc_only d) ++ fl (d3_skip_intra d).

(* ------------------------------------------------------------------ seq_parameter_set_rbsp (7.3.2.2.1) *)
Record hsps_syntax := mkHSpsSyn {
  sx_sps_nuh_layer_id : N; sx_sps_nuh_temporal_id_plus1 : N;
  sx_sps_video_parameter_set_id : N; sx_sps_max_sub_layers_minus1 : N;
  sx_sps_temporal_id_nesting_flag : bool; sx_sps_ptl : hptl_syntax;
  sx_sps_seq_parameter_set_id : N; sx_chroma_format_idc : N; sx_separate_colour_plane_flag : bool;
  sx_pic_width_in_luma_samples : N; sx_pic_height_in_luma_samples : N;
  sx_conformance_window_flag : bool; sx_conf_win_left_offset : N; sx_conf_win_right_offset : N;
  sx_conf_win_top_offset : N; sx_conf_win_bottom_offset : N;
  sx_bit_depth_luma_minus8 : N; sx_bit_depth_chroma_minus8 : N;
  sx_log2_max_pic_order_cnt_lsb_minus4 : N;
  sx_sps_sub_layer_ordering_info_present_flag : bool;
  sx_sub_layer_ordering : list (N * N * N);     (* max_dec_pic_buffering_minus1, max_num_reorder_pics, max_latency_increase_plus1 *)
  sx_log2_min_luma_coding_block_size_minus3 : N; sx_log2_diff_max_min_luma_coding_block_size : N;
  sx_log2_min_luma_transform_block_size_minus2 : N; sx_log2_diff_max_min_luma_transform_block_size : N;
  sx_max_transform_hierarchy_depth_inter : N; sx_max_transform_hierarchy_depth_intra : N;
  sx_scaling_list_enabled_flag : bool; sx_sps_scaling_list_data_present_flag : bool;
  sx_sps_scaling_list : hsl_syntax;
  sx_amp_enabled_flag : bool; sx_sample_adaptive_offset_enabled_flag : bool;
  sx_pcm_enabled_flag : bool; sx_pcm_sample_bit_depth_luma_minus1 : N;
  sx_pcm_sample_bit_depth_chroma_minus1 : N; sx_log2_min_pcm_luma_coding_block_size_minus3 : N;
  sx_log2_diff_max_min_pcm_luma_coding_block_size : N; sx_pcm_loop_filter_disabled_flag : bool;
  sx_st_ref_pic_sets : list hrps_syntax;        (* num_short_term_ref_pic_sets = length *)
  sx_long_term_ref_pics_present_flag : bool;
  sx_lt_ref_pics_sps : list (N * bool);         (* lt_ref_pic_poc_lsb_sps[i], used_by_curr_pic_lt_sps_flag[i] *)
  sx_sps_temporal_mvp_enabled_flag : bool; sx_strong_intra_smoothing_enabled_flag : bool;
  sx_vui_parameters_present_flag : bool; sx_vui : hvui_syntax;
  sx_sps_extension_present_flag : bool;
  sx_sps_range_extension_flag : bool; sx_sps_multilayer_extension_flag : bool;
  sx_sps_3d_extension_flag : bool; sx_sps_scc_extension_flag : bool; sx_sps_extension_4bits : N;
  sx_sps_range_extension : list bool;           (* the nine flags of sps_range_extension() *)
  sx_inter_view_mv_vert_constraint_flag : bool; (* sps_multilayer_extension() *)
  sx_sps_3d_extension : hsps3d;
  sx_sps_scc_extension : hspsscc_syntax;
  sx_sps_extension_data_flags : list bool }.    (* sps_extension_data_flag while more_rbsp_data() *)

Definition hsps_ext_on (v : hsps_syntax) (f : hsps_syntax -> bool) : bool :=
  sx_sps_extension_present_flag v && f v.
Definition hsps_ext4 (v : hsps_syntax) : N :=
  if sx_sps_extension_present_flag v then sx_sps_extension_4bits v else 0.

Definition ser_hsps_ext (v : hsps_syntax) : list bool :=
  fl (sx_sps_extension_present_flag v)
  ++ opt_bits (sx_sps_extension_present_flag v)
       (fl (sx_sps_range_extension_flag v) ++ fl (sx_sps_multilayer_extension_flag v)
        ++ fl (sx_sps_3d_extension_flag v) ++ fl (sx_sps_scc_extension_flag v)
        ++ u 4 (sx_sps_extension_4bits v))
  ++ opt_bits (hsps_ext_on v sx_sps_range_extension_flag) (sx_sps_range_extension v)
  ++ opt_bits (hsps_ext_on v sx_sps_multilayer_extension_flag) (fl (sx_inter_view_mv_vert_constraint_flag v))
  ++ opt_bits (hsps_ext_on v sx_sps_3d_extension_flag) (ser_hsps3d (sx_sps_3d_extension v))
  ++ opt_bits (hsps_ext_on v sx_sps_scc_extension_flag)
       (ser_hspsscc (sx_bit_depth_luma_minus8 v) (sx_bit_depth_chroma_minus8 v) (sx_sps_scc_extension v))
  ++ opt_bits (0 <? hsps_ext4 v) (sx_sps_extension_data_flags v).

Fixpoint ser_hrps_list (idx num : N) (l : list hrps_syntax) : list bool :=
  match l with
  | [] => []
  | r :: t => ser_hrps idx num r ++ ser_hrps_list (idx + 1) num t
  end.

(* everything before sps_extension_present_flag *)
Definition ser_hsps_main (v : hsps_syntax) : list bool :=
  let ms := sx_sps_max_sub_layers_minus1 v in
  u 4 (sx_sps_video_parameter_set_id v) ++ u 3 ms ++ fl (sx_sps_temporal_id_nesting_flag v)
  ++ ser_hptl ms (sx_sps_ptl v)
  ++ ue_bits (sx_sps_seq_parameter_set_id v) ++ ue_bits (sx_chroma_format_idc v)
  ++ opt_bits (sx_chroma_format_idc v =? 3) (fl (sx_separate_colour_plane_flag v))
  ++ ue_bits (sx_pic_width_in_luma_samples v) ++ ue_bits (sx_pic_height_in_luma_samples v)
  ++ fl (sx_conformance_window_flag v)
  ++ opt_bits (sx_conformance_window_flag v)
       (ue_bits (sx_conf_win_left_offset v) ++ ue_bits (sx_conf_win_right_offset v)
        ++ ue_bits (sx_conf_win_top_offset v) ++ ue_bits (sx_conf_win_bottom_offset v))
  ++ ue_bits (sx_bit_depth_luma_minus8 v) ++ ue_bits (sx_bit_depth_chroma_minus8 v)
  ++ ue_bits (sx_log2_max_pic_order_cnt_lsb_minus4 v)
  ++ fl (sx_sps_sub_layer_ordering_info_present_flag v)
  ++ flat_map (fun t => let '(a, b, c) := t in ue_bits a ++ ue_bits b ++ ue_bits c) (sx_sub_layer_ordering v)
  ++ ue_bits (sx_log2_min_luma_coding_block_size_minus3 v)
  ++ ue_bits (sx_log2_diff_max_min_luma_coding_block_size v)
  ++ ue_bits (sx_log2_min_luma_transform_block_size_minus2 v)
  ++ ue_bits (sx_log2_diff_max_min_luma_transform_block_size v)
  ++ ue_bits (sx_max_transform_hierarchy_depth_inter v) ++ ue_bits (sx_max_transform_hierarchy_depth_intra v)
  ++ fl (sx_scaling_list_enabled_flag v)
  ++ opt_bits (sx_scaling_list_enabled_flag v)
       (fl (sx_sps_scaling_list_data_present_flag v)
        ++ opt_bits (sx_sps_scaling_list_data_present_flag v) (ser_hsl (sx_sps_scaling_list v)))
  ++ fl (sx_amp_enabled_flag v) ++ fl (sx_sample_adaptive_offset_enabled_flag v)
  ++ fl (sx_pcm_enabled_flag v)
  ++ opt_bits (sx_pcm_enabled_flag v)
       (u 4 (sx_pcm_sample_bit_depth_luma_minus1 v) ++ u 4 (sx_pcm_sample_bit_depth_chroma_minus1 v)
        ++ ue_bits (sx_log2_min_pcm_luma_coding_block_size_minus3 v)
        ++ ue_bits (sx_log2_diff_max_min_pcm_luma_coding_block_size v)
        ++ fl (sx_pcm_loop_filter_disabled_flag v))
  ++ ue_bits (lenN (sx_st_ref_pic_sets v))
  ++ ser_hrps_list 0 (lenN (sx_st_ref_pic_sets v)) (sx_st_ref_pic_sets v)
  ++ fl (sx_long_term_ref_pics_present_flag v)
  ++ opt_bits (sx_long_term_ref_pics_present_flag v)
       (ue_bits (lenN (sx_lt_ref_pics_sps v))
        ++ flat_map (fun e => u (sx_log2_max_pic_order_cnt_lsb_minus4 v + 4) (fst e) ++ fl (snd e))
                    (sx_lt_ref_pics_sps v))
  ++ fl (sx_sps_temporal_mvp_enabled_flag v) ++ fl (sx_strong_intra_smoothing_enabled_flag v)
  ++ fl (sx_vui_parameters_present_flag v)
  ++ opt_bits (sx_vui_parameters_present_flag v) (ser_hvui (sx_vui v)).

Definition ser_hsps (v : hsps_syntax) : list bool := ser_hsps_main v ++ ser_hsps_ext v.

Definition hraw_sps (v : hsps_syntax) : list N :=
  hraw_nalu 33 (sx_sps_nuh_layer_id v) (sx_sps_nuh_temporal_id_plus1 v) (ser_hsps v).
Definition hnalu_sps (v : hsps_syntax) : list N :=
  hnalu_of 33 (sx_sps_nuh_layer_id v) (sx_sps_nuh_temporal_id_plus1 v) (ser_hsps v).

(* ---- derived quantities (7.4.3.2.1): conformance-window cropping *)
Definition h_sub_width_c (v : hsps_syntax) : N :=
  if (sx_chroma_format_idc v =? 1) || (sx_chroma_format_idc v =? 2) then 2 else 1.
Definition h_sub_height_c (v : hsps_syntax) : N := if sx_chroma_format_idc v =? 1 then 2 else 1.
Definition h_crop_w (v : hsps_syntax) : N :=
  if sx_conformance_window_flag v
  then h_sub_width_c v * (sx_conf_win_left_offset v + sx_conf_win_right_offset v) else 0.
Definition h_crop_h (v : hsps_syntax) : N :=
  if sx_conformance_window_flag v
  then h_sub_height_c v * (sx_conf_win_top_offset v + sx_conf_win_bottom_offset v) else 0.
Definition h_display_width (v : hsps_syntax) : N := sx_pic_width_in_luma_samples v - h_crop_w v.
Definition h_display_height (v : hsps_syntax) : N := sx_pic_height_in_luma_samples v - h_crop_h v.

Definition hsps_valid (v : hsps_syntax) : bool :=
  let ms := sx_sps_max_sub_layers_minus1 v in
  (sx_sps_nuh_layer_id v <? 64) && (1 <=? sx_sps_nuh_temporal_id_plus1 v) && (sx_sps_nuh_temporal_id_plus1 v <? 8)
  && (sx_sps_video_parameter_set_id v <? 16) && (ms <=? 6)
  && hptl_valid ms (sx_sps_ptl v)
  && (sx_sps_seq_parameter_set_id v <=? 15) && (sx_chroma_format_idc v <=? 3)
  && (1 <=? sx_pic_width_in_luma_samples v) && (sx_pic_width_in_luma_samples v <? 65536)
  && (1 <=? sx_pic_height_in_luma_samples v) && (sx_pic_height_in_luma_samples v <? 65536)
  && ue_ok (sx_conf_win_left_offset v) && ue_ok (sx_conf_win_right_offset v)
  && ue_ok (sx_conf_win_top_offset v) && ue_ok (sx_conf_win_bottom_offset v)
  && (h_crop_w v <? sx_pic_width_in_luma_samples v) && (h_crop_h v <? sx_pic_height_in_luma_samples v)
  && (sx_bit_depth_luma_minus8 v <=? 8) && (sx_bit_depth_chroma_minus8 v <=? 8)
  && (sx_log2_max_pic_order_cnt_lsb_minus4 v <=? 12)
  && (lenN (sx_sub_layer_ordering v) =? (if sx_sps_sub_layer_ordering_info_present_flag v then ms + 1 else 1))
  && forallb (fun t => let '(a, b, c) := t in (a <? 256) && (b <? 256) && (c <? 256)) (sx_sub_layer_ordering v)
  && (sx_log2_min_luma_coding_block_size_minus3 v <=? 3)
  && (sx_log2_min_luma_coding_block_size_minus3 v + sx_log2_diff_max_min_luma_coding_block_size v <=? 3)
  && (1 <=? sx_log2_min_luma_coding_block_size_minus3 v + sx_log2_diff_max_min_luma_coding_block_size v)
  && (sx_log2_min_luma_transform_block_size_minus2 v <=? 3)
  && (sx_log2_diff_max_min_luma_transform_block_size v <=? 3)
  && (sx_max_transform_hierarchy_depth_inter v <=? 4) && (sx_max_transform_hierarchy_depth_intra v <=? 4)
  && (if sx_scaling_list_enabled_flag v && sx_sps_scaling_list_data_present_flag v
      then hsl_valid (sx_sps_scaling_list v) else true)
  && (sx_pcm_sample_bit_depth_luma_minus1 v <? 16) && (sx_pcm_sample_bit_depth_chroma_minus1 v <? 16)
  && (sx_log2_min_pcm_luma_coding_block_size_minus3 v <=? 2)
  && (sx_log2_diff_max_min_pcm_luma_coding_block_size v <=? 2)
  && (lenN (sx_st_ref_pic_sets v) <=? 64)
  && hrps_list_valid_from [] 0 (lenN (sx_st_ref_pic_sets v)) (sx_st_ref_pic_sets v)
  && (lenN (sx_lt_ref_pics_sps v) <=? 32)
  && forallb (fun e => fst e <? 2 ^ (sx_log2_max_pic_order_cnt_lsb_minus4 v + 4)) (sx_lt_ref_pics_sps v)
  && (if sx_vui_parameters_present_flag v then hvui_valid ms (sx_vui v) else true)
  && (sx_sps_extension_4bits v <? 16)
  && (lenN (sx_sps_range_extension v) =? 9)
  && ue_ok (d3_log2_ivmc (sx_sps_3d_extension v)) && ue_ok (d3_log2_texmc (sx_sps_3d_extension v))
  && (if hsps_ext_on v sx_sps_scc_extension_flag
      then hspsscc_valid (sx_chroma_format_idc v) (sx_bit_depth_luma_minus8 v) (sx_bit_depth_chroma_minus8 v)
                         (sx_sps_scc_extension v) else true)
  && (lenN (sx_sps_extension_data_flags v) <=? 64).

Definition expected_hsps (v : hsps_syntax) : hsps :=
  let n (c : bool) (x : N) := if c then x else 0 in
  let cw := sx_conformance_window_flag v in
  let sle := sx_scaling_list_enabled_flag v in
  let pcm := sx_pcm_enabled_flag v in
  let ltp := sx_long_term_ref_pics_present_flag v in
  let ep := sx_sps_extension_present_flag v in
  let der := derive_all (sx_st_ref_pic_sets v) in
  mkHSps (sx_sps_video_parameter_set_id v) (sx_sps_max_sub_layers_minus1 v)
         (sx_sps_temporal_id_nesting_flag v) (expected_hptl (sx_sps_ptl v))
         (sx_sps_seq_parameter_set_id v) (sx_chroma_format_idc v)
         ((sx_chroma_format_idc v =? 3) && sx_separate_colour_plane_flag v) cw
         (sx_pic_width_in_luma_samples v) (sx_pic_height_in_luma_samples v)
         (n cw (sx_conf_win_left_offset v)) (n cw (sx_conf_win_right_offset v))
         (n cw (sx_conf_win_top_offset v)) (n cw (sx_conf_win_bottom_offset v))
         (sx_bit_depth_luma_minus8 v) (sx_bit_depth_chroma_minus8 v)
         (sx_log2_max_pic_order_cnt_lsb_minus4 v)
         (sx_sps_sub_layer_ordering_info_present_flag v) (sx_sub_layer_ordering v)
         (sx_log2_min_luma_coding_block_size_minus3 v) (sx_log2_diff_max_min_luma_coding_block_size v)
         (sx_log2_min_luma_transform_block_size_minus2 v) (sx_log2_diff_max_min_luma_transform_block_size v)
         (sx_max_transform_hierarchy_depth_inter v) (sx_max_transform_hierarchy_depth_intra v)
         sle (sle && sx_sps_scaling_list_data_present_flag v)
         (sx_amp_enabled_flag v) (sx_sample_adaptive_offset_enabled_flag v) pcm
         (n pcm (sx_pcm_sample_bit_depth_luma_minus1 v)) (n pcm (sx_pcm_sample_bit_depth_chroma_minus1 v))
         (n pcm (sx_log2_min_pcm_luma_coding_block_size_minus3 v))
         (n pcm (sx_log2_diff_max_min_pcm_luma_coding_block_size v))
         (pcm && sx_pcm_loop_filter_disabled_flag v)
         (lenN (sx_st_ref_pic_sets v))
         (map (fun p => expected_hrps (fst p) (snd p)) (combine der (sx_st_ref_pic_sets v)))
         ltp (n ltp (lenN (sx_lt_ref_pics_sps v)))
         (if ltp then map (fun e => mkHLt (fst e) (snd e) false 0) (sx_lt_ref_pics_sps v) else [])
         (sx_sps_temporal_mvp_enabled_flag v) (sx_strong_intra_smoothing_enabled_flag v)
         (sx_vui_parameters_present_flag v)
         (if sx_vui_parameters_present_flag v then Some (expected_hvui (sx_vui v)) else None)
         ep (hsps_ext4 v)
         (hsps_ext_on v sx_sps_range_extension_flag)
         (if hsps_ext_on v sx_sps_range_extension_flag then Some (sx_sps_range_extension v) else None)
         (hsps_ext_on v sx_sps_multilayer_extension_flag)
         (if hsps_ext_on v sx_sps_multilayer_extension_flag
          then Some (sx_inter_view_mv_vert_constraint_flag v) else None)
         (hsps_ext_on v sx_sps_3d_extension_flag)
         (if hsps_ext_on v sx_sps_3d_extension_flag then Some (sx_sps_3d_extension v) else None)
         (hsps_ext_on v sx_sps_scc_extension_flag)
         (if hsps_ext_on v sx_sps_scc_extension_flag
          then Some (expected_hspsscc (sx_sps_scc_extension v)) else None)
         (if 0 <? hsps_ext4 v then sx_sps_extension_data_flags v else []).

(* width / height reported by SPS.ImageSize: the cropping formula *)
Definition expected_himage_size (v : hsps_syntax) : N * N := (h_display_width v, h_display_height v).

(* ====================================================================== pic_parameter_set_rbsp (7.3.2.3) *)
Record hppsrange_syntax := mkHPpsRangeSyn {
  sx_log2_max_transform_skip_block_size_minus2 : N; sx_cross_component_prediction_enabled_flag : bool;
  sx_chroma_qp_offset_list_enabled_flag : bool; sx_diff_cu_chroma_qp_offset_depth : N;
  sx_cb_cr_qp_offset_list : list (Z * Z);       (* chroma_qp_offset_list_len_minus1 + 1 entries *)
  sx_log2_sao_offset_scale_luma : N; sx_log2_sao_offset_scale_chroma : N }.

Record hppsscc_syntax := mkHPpsSccSyn {
  sx_pps_curr_pic_ref_enabled_flag : bool; sx_residual_adaptive_colour_transform_enabled_flag : bool;
  sx_pps_slice_act_qp_offsets_present_flag : bool; sx_pps_act_y_qp_offset_plus5 : Z;
  sx_pps_act_cb_qp_offset_plus5 : Z; sx_pps_act_cr_qp_offset_plus3 : Z;
  sx_pps_palette_predictor_initializers_present_flag : bool;
  sx_monochrome_palette_flag : bool; sx_luma_bit_depth_entry_minus8 : N; sx_chroma_bit_depth_entry_minus8 : N;
  sx_pps_palette_predictor_initializer : list (list N) }.   (* [comp][i]; [] = pps_num_palette_predictor_initializers 0 *)

Record hpps_syntax := mkHPpsSyn {
  sx_pps_nuh_layer_id : N; sx_pps_nuh_temporal_id_plus1 : N;
  sx_pps_pic_parameter_set_id : N; sx_pps_seq_parameter_set_id : N;
  sx_dependent_slice_segments_enabled_flag : bool; sx_output_flag_present_flag : bool;
  sx_num_extra_slice_header_bits : N; sx_sign_data_hiding_enabled_flag : bool;
  sx_cabac_init_present_flag : bool; sx_num_ref_idx_l0_default_active_minus1 : N;
  sx_num_ref_idx_l1_default_active_minus1 : N; sx_init_qp_minus26 : Z;
  sx_constrained_intra_pred_flag : bool; sx_transform_skip_enabled_flag : bool;
  sx_cu_qp_delta_enabled_flag : bool; sx_diff_cu_qp_delta_depth : N;
  sx_pps_cb_qp_offset : Z; sx_pps_cr_qp_offset : Z; sx_pps_slice_chroma_qp_offsets_present_flag : bool;
  sx_weighted_pred_flag : bool; sx_weighted_bipred_flag : bool; sx_transquant_bypass_enabled_flag : bool;
  sx_tiles_enabled_flag : bool; sx_entropy_coding_sync_enabled_flag : bool;
  sx_num_tile_columns_minus1 : N; sx_num_tile_rows_minus1 : N; sx_uniform_spacing_flag : bool;
  sx_column_width_minus1 : list N; sx_row_height_minus1 : list N;
  sx_loop_filter_across_tiles_enabled_flag : bool; sx_pps_loop_filter_across_slices_enabled_flag : bool;
  sx_deblocking_filter_control_present_flag : bool; sx_deblocking_filter_override_enabled_flag : bool;
  sx_pps_deblocking_filter_disabled_flag : bool; sx_pps_beta_offset_div2 : Z; sx_pps_tc_offset_div2 : Z;
  sx_pps_scaling_list_data_present_flag : bool; sx_pps_scaling_list : hsl_syntax;
  sx_lists_modification_present_flag : bool; sx_log2_parallel_merge_level_minus2 : N;
  sx_slice_segment_header_extension_present_flag : bool;
  sx_pps_extension_present_flag : bool; sx_pps_range_extension_flag : bool;
  sx_pps_multilayer_extension_flag : bool; sx_pps_3d_extension_flag : bool;
  sx_pps_scc_extension_flag : bool; sx_pps_extension_4bits : N;
  sx_pps_range_extension : hppsrange_syntax; sx_pps_scc_extension : hppsscc_syntax;
  sx_pps_extension_data_flags : list bool }.

Definition ser_hppsrange (tskip : bool) (x : hppsrange_syntax) : list bool :=
  opt_bits tskip (ue_bits (sx_log2_max_transform_skip_block_size_minus2 x))
  ++ fl (sx_cross_component_prediction_enabled_flag x) ++ fl (sx_chroma_qp_offset_list_enabled_flag x)
  ++ opt_bits (sx_chroma_qp_offset_list_enabled_flag x)
       (ue_bits (sx_diff_cu_chroma_qp_offset_depth x) ++ ue_bits (lenN (sx_cb_cr_qp_offset_list x) - 1)
        ++ flat_map (fun e => se_bits (fst e) ++ se_bits (snd e)) (sx_cb_cr_qp_offset_list x))
  ++ ue_bits (sx_log2_sao_offset_scale_luma x) ++ ue_bits (sx_log2_sao_offset_scale_chroma x).

Definition ser_hppsscc (x : hppsscc_syntax) : list bool :=
  let ini := sx_pps_palette_predictor_initializer x in
  fl (sx_pps_curr_pic_ref_enabled_flag x) ++ fl (sx_residual_adaptive_colour_transform_enabled_flag x)
  ++ opt_bits (sx_residual_adaptive_colour_transform_enabled_flag x)
       (fl (sx_pps_slice_act_qp_offsets_present_flag x) ++ se_bits (sx_pps_act_y_qp_offset_plus5 x)
        ++ se_bits (sx_pps_act_cb_qp_offset_plus5 x) ++ se_bits (sx_pps_act_cr_qp_offset_plus3 x))
  ++ fl (sx_pps_palette_predictor_initializers_present_flag x)
  ++ opt_bits (sx_pps_palette_predictor_initializers_present_flag x)
       (ue_bits (lenN (hd [] ini))                         (* pps_num_palette_predictor_initializers *)
        ++ opt_bits (0 <? lenN (hd [] ini))
             (fl (sx_monochrome_palette_flag x) ++ ue_bits (sx_luma_bit_depth_entry_minus8 x)
              ++ opt_bits (negb (sx_monochrome_palette_flag x)) (ue_bits (sx_chroma_bit_depth_entry_minus8 x))
              ++ flat_map (u (sx_luma_bit_depth_entry_minus8 x + 8)) (hd [] ini)
              ++ flat_map (fun c => flat_map (u (sx_chroma_bit_depth_entry_minus8 x + 8)) c) (tl ini))).

Definition hpps_ext_on (v : hpps_syntax) (f : hpps_syntax -> bool) : bool :=
  sx_pps_extension_present_flag v && f v.
Definition hpps_ext4 (v : hpps_syntax) : N :=
  if sx_pps_extension_present_flag v then sx_pps_extension_4bits v else 0.

Definition ser_hpps (v : hpps_syntax) : list bool :=
  ue_bits (sx_pps_pic_parameter_set_id v) ++ ue_bits (sx_pps_seq_parameter_set_id v)
  ++ fl (sx_dependent_slice_segments_enabled_flag v) ++ fl (sx_output_flag_present_flag v)
  ++ u 3 (sx_num_extra_slice_header_bits v) ++ fl (sx_sign_data_hiding_enabled_flag v)
  ++ fl (sx_cabac_init_present_flag v)
  ++ ue_bits (sx_num_ref_idx_l0_default_active_minus1 v) ++ ue_bits (sx_num_ref_idx_l1_default_active_minus1 v)
  ++ se_bits (sx_init_qp_minus26 v) ++ fl (sx_constrained_intra_pred_flag v)
  ++ fl (sx_transform_skip_enabled_flag v) ++ fl (sx_cu_qp_delta_enabled_flag v)
  ++ opt_bits (sx_cu_qp_delta_enabled_flag v) (ue_bits (sx_diff_cu_qp_delta_depth v))
  ++ se_bits (sx_pps_cb_qp_offset v) ++ se_bits (sx_pps_cr_qp_offset v)
  ++ fl (sx_pps_slice_chroma_qp_offsets_present_flag v) ++ fl (sx_weighted_pred_flag v)
  ++ fl (sx_weighted_bipred_flag v) ++ fl (sx_transquant_bypass_enabled_flag v)
  ++ fl (sx_tiles_enabled_flag v) ++ fl (sx_entropy_coding_sync_enabled_flag v)
  ++ opt_bits (sx_tiles_enabled_flag v)
       (ue_bits (sx_num_tile_columns_minus1 v) ++ ue_bits (sx_num_tile_rows_minus1 v)
        ++ fl (sx_uniform_spacing_flag v)
        ++ opt_bits (negb (sx_uniform_spacing_flag v))
             (flat_map ue_bits (sx_column_width_minus1 v) ++ flat_map ue_bits (sx_row_height_minus1 v))
        ++ fl (sx_loop_filter_across_tiles_enabled_flag v))
  ++ fl (sx_pps_loop_filter_across_slices_enabled_flag v)
  ++ fl (sx_deblocking_filter_control_present_flag v)
  ++ opt_bits (sx_deblocking_filter_control_present_flag v)
       (fl (sx_deblocking_filter_override_enabled_flag v) ++ fl (sx_pps_deblocking_filter_disabled_flag v)
        ++ opt_bits (negb (sx_pps_deblocking_filter_disabled_flag v))
             (se_bits (sx_pps_beta_offset_div2 v) ++ se_bits (sx_pps_tc_offset_div2 v)))
  ++ fl (sx_pps_scaling_list_data_present_flag v)
  ++ opt_bits (sx_pps_scaling_list_data_present_flag v) (ser_hsl (sx_pps_scaling_list v))
  ++ fl (sx_lists_modification_present_flag v) ++ ue_bits (sx_log2_parallel_merge_level_minus2 v)
  ++ fl (sx_slice_segment_header_extension_present_flag v)
  ++ fl (sx_pps_extension_present_flag v)
  ++ opt_bits (sx_pps_extension_present_flag v)
       (fl (sx_pps_range_extension_flag v) ++ fl (sx_pps_multilayer_extension_flag v)
        ++ fl (sx_pps_3d_extension_flag v) ++ fl (sx_pps_scc_extension_flag v)
        ++ u 4 (sx_pps_extension_4bits v))
  ++ opt_bits (hpps_ext_on v sx_pps_range_extension_flag)
       (ser_hppsrange (sx_transform_skip_enabled_flag v) (sx_pps_range_extension v))
  ++ opt_bits (hpps_ext_on v sx_pps_scc_extension_flag) (ser_hppsscc (sx_pps_scc_extension v))
  ++ opt_bits (0 <? hpps_ext4 v) (sx_pps_extension_data_flags v).

Definition hraw_pps (v : hpps_syntax) : list N :=
  hraw_nalu 34 (sx_pps_nuh_layer_id v) (sx_pps_nuh_temporal_id_plus1 v) (ser_hpps v).
Definition hnalu_pps (v : hpps_syntax) : list N :=
  hnalu_of 34 (sx_pps_nuh_layer_id v) (sx_pps_nuh_temporal_id_plus1 v) (ser_hpps v).

Definition i8_ok (k : Z) : bool := (-128 <=? k)%Z && (k <=? 127)%Z.

Definition hppsscc_valid (x : hppsscc_syntax) : bool :=
  let ini := sx_pps_palette_predictor_initializer x in
  se_ok (sx_pps_act_y_qp_offset_plus5 x) && se_ok (sx_pps_act_cb_qp_offset_plus5 x)
  && se_ok (sx_pps_act_cr_qp_offset_plus3 x)
  && (sx_luma_bit_depth_entry_minus8 x <=? 8) && (sx_chroma_bit_depth_entry_minus8 x <=? 8)
  && (if sx_pps_palette_predictor_initializers_present_flag x && (0 <? lenN (hd [] ini))
      then (lenN ini =? (if sx_monochrome_palette_flag x then 1 else 3))
           && (lenN (hd [] ini) <=? 1024)
           && forallb (fun c => lenN c =? lenN (hd [] ini)) ini
           && forallb (fun w => w <? 2 ^ (sx_luma_bit_depth_entry_minus8 x + 8)) (hd [] ini)
           && forallb (forallb (fun w => w <? 2 ^ (sx_chroma_bit_depth_entry_minus8 x + 8))) (tl ini)
      else true).

(* the multilayer and 3D extensions are outside the modelled syntax *)
Definition hpps_valid (v : hpps_syntax) : bool :=
  (sx_pps_nuh_layer_id v <? 64) && (1 <=? sx_pps_nuh_temporal_id_plus1 v) && (sx_pps_nuh_temporal_id_plus1 v <? 8)
  && (sx_pps_pic_parameter_set_id v <=? 63) && (sx_pps_seq_parameter_set_id v <=? 15)
  && (sx_num_extra_slice_header_bits v <? 8)
  && (sx_num_ref_idx_l0_default_active_minus1 v <=? 14) && (sx_num_ref_idx_l1_default_active_minus1 v <=? 14)
  && i8_ok (sx_init_qp_minus26 v) && ue_ok (sx_diff_cu_qp_delta_depth v)
  && i8_ok (sx_pps_cb_qp_offset v) && i8_ok (sx_pps_cr_qp_offset v)
  && (sx_num_tile_columns_minus1 v <=? 1024) && (sx_num_tile_rows_minus1 v <=? 1024)
  && (if sx_uniform_spacing_flag v then true
      else (lenN (sx_column_width_minus1 v) =? sx_num_tile_columns_minus1 v)
           && (lenN (sx_row_height_minus1 v) =? sx_num_tile_rows_minus1 v))
  && forallb ue_ok (sx_column_width_minus1 v) && forallb ue_ok (sx_row_height_minus1 v)
  && i8_ok (sx_pps_beta_offset_div2 v) && i8_ok (sx_pps_tc_offset_div2 v)
  && (if sx_pps_scaling_list_data_present_flag v then hsl_valid (sx_pps_scaling_list v) else true)
  && ue_ok (sx_log2_parallel_merge_level_minus2 v)
  && (sx_pps_extension_4bits v <? 16)
  && negb (hpps_ext_on v sx_pps_multilayer_extension_flag) && negb (hpps_ext_on v sx_pps_3d_extension_flag)
  && (let r := sx_pps_range_extension v in
      ue_ok (sx_log2_max_transform_skip_block_size_minus2 r) && ue_ok (sx_diff_cu_chroma_qp_offset_depth r)
      && (1 <=? lenN (sx_cb_cr_qp_offset_list r)) && (lenN (sx_cb_cr_qp_offset_list r) <=? 6)
      && forallb (fun e => i8_ok (fst e) && i8_ok (snd e)) (sx_cb_cr_qp_offset_list r)
      && ue_ok (sx_log2_sao_offset_scale_luma r) && ue_ok (sx_log2_sao_offset_scale_chroma r))
  && hppsscc_valid (sx_pps_scc_extension v)
  && (lenN (sx_pps_extension_data_flags v) <=? 64).

Definition expected_hppsrange (tskip : bool) (x : hppsrange_syntax) : hppsrange :=
  let ce := sx_chroma_qp_offset_list_enabled_flag x in
  mkHPpsRange (if tskip then sx_log2_max_transform_skip_block_size_minus2 x else 0)
              (sx_cross_component_prediction_enabled_flag x) ce
              (if ce then sx_diff_cu_chroma_qp_offset_depth x else 0)
              (if ce then lenN (sx_cb_cr_qp_offset_list x) - 1 else 0)
              (if ce then map fst (sx_cb_cr_qp_offset_list x) else [])
              (if ce then map snd (sx_cb_cr_qp_offset_list x) else [])
              (sx_log2_sao_offset_scale_luma x) (sx_log2_sao_offset_scale_chroma x).

Definition expected_hppsscc (x : hppsscc_syntax) : hppsscc :=
  let ra := sx_residual_adaptive_colour_transform_enabled_flag x in
  let pi := sx_pps_palette_predictor_initializers_present_flag x in
  let ini := sx_pps_palette_predictor_initializer x in
  let nz := pi && (0 <? lenN (hd [] ini)) in
  let zz (c : bool) (k : Z) := if c then k else 0%Z in
  mkHPpsScc (sx_pps_curr_pic_ref_enabled_flag x) ra (ra && sx_pps_slice_act_qp_offsets_present_flag x)
            (zz ra (sx_pps_act_y_qp_offset_plus5 x)) (zz ra (sx_pps_act_cb_qp_offset_plus5 x))
            (zz ra (sx_pps_act_cr_qp_offset_plus3 x))
            pi (if pi then lenN (hd [] ini) else 0) (nz && sx_monochrome_palette_flag x)
            (if nz then sx_luma_bit_depth_entry_minus8 x else 0)
            (if nz && negb (sx_monochrome_palette_flag x) then sx_chroma_bit_depth_entry_minus8 x else 0)
            (if nz then ini else []).

Definition expected_hpps (v : hpps_syntax) : hpps :=
  let t := sx_tiles_enabled_flag v in
  let nu := t && negb (sx_uniform_spacing_flag v) in
  let dc := sx_deblocking_filter_control_present_flag v in
  let dd := dc && sx_pps_deblocking_filter_disabled_flag v in
  let bt := dc && negb (sx_pps_deblocking_filter_disabled_flag v) in
  let n (c : bool) (x : N) := if c then x else 0 in
  let zz (c : bool) (k : Z) := if c then k else 0%Z in
  mkHPps (sx_pps_pic_parameter_set_id v) (sx_pps_seq_parameter_set_id v)
         (sx_dependent_slice_segments_enabled_flag v) (sx_output_flag_present_flag v)
         (sx_num_extra_slice_header_bits v) (sx_sign_data_hiding_enabled_flag v)
         (sx_cabac_init_present_flag v) (sx_num_ref_idx_l0_default_active_minus1 v)
         (sx_num_ref_idx_l1_default_active_minus1 v) (sx_init_qp_minus26 v)
         (sx_constrained_intra_pred_flag v) (sx_transform_skip_enabled_flag v)
         (sx_cu_qp_delta_enabled_flag v) (n (sx_cu_qp_delta_enabled_flag v) (sx_diff_cu_qp_delta_depth v))
         (sx_pps_cb_qp_offset v) (sx_pps_cr_qp_offset v) (sx_pps_slice_chroma_qp_offsets_present_flag v)
         (sx_weighted_pred_flag v) (sx_weighted_bipred_flag v) (sx_transquant_bypass_enabled_flag v)
         t (sx_entropy_coding_sync_enabled_flag v)
         (n t (sx_num_tile_columns_minus1 v)) (n t (sx_num_tile_rows_minus1 v))
         (t && sx_uniform_spacing_flag v)
         (if nu then sx_column_width_minus1 v else []) (if nu then sx_row_height_minus1 v else [])
         (t && sx_loop_filter_across_tiles_enabled_flag v)
         (sx_pps_loop_filter_across_slices_enabled_flag v) dc
         (dc && sx_deblocking_filter_override_enabled_flag v) dd
         (zz bt (sx_pps_beta_offset_div2 v)) (zz bt (sx_pps_tc_offset_div2 v))
         (sx_pps_scaling_list_data_present_flag v) (sx_lists_modification_present_flag v)
         (sx_log2_parallel_merge_level_minus2 v) (sx_slice_segment_header_extension_present_flag v)
         (sx_pps_extension_present_flag v)
         (hpps_ext_on v sx_pps_range_extension_flag)
         (if hpps_ext_on v sx_pps_range_extension_flag
          then Some (expected_hppsrange (sx_transform_skip_enabled_flag v) (sx_pps_range_extension v)) else None)
         false false
         (hpps_ext_on v sx_pps_scc_extension_flag)
         (if hpps_ext_on v sx_pps_scc_extension_flag then Some (expected_hppsscc (sx_pps_scc_extension v)) else None)
         (hpps_ext4 v)
         (if 0 <? hpps_ext4 v then sx_pps_extension_data_flags v else []).

(* ====================================================================== slice_segment_header (7.3.6.1) *)
Record hslice_syntax := mkHSliceSyn {
  sx_sl_nal_unit_type : N; sx_sl_nuh_layer_id : N; sx_sl_nuh_temporal_id_plus1 : N;
  sx_first_slice_segment_in_pic_flag : bool; sx_no_output_of_prior_pics_flag : bool;
  sx_slice_pic_parameter_set_id : N;
  sx_dependent_slice_segment_flag : bool; sx_slice_segment_address : N;
  sx_slice_reserved_flags : list bool;
  sx_slice_type : N; sx_pic_output_flag : bool; sx_colour_plane_id : N;
  sx_slice_pic_order_cnt_lsb : N; sx_short_term_ref_pic_set_sps_flag : bool;
  sx_slice_st_rps : hrps_syntax; sx_short_term_ref_pic_set_idx : N;
  sx_lt_sps_entries : list (N * bool * N);          (* lt_idx_sps, delta_poc_msb_present_flag, delta_poc_msb_cycle_lt *)
  sx_lt_pics_entries : list (N * bool * bool * N);  (* poc_lsb_lt, used_by_curr_pic_lt_flag, delta_poc_msb_present_flag, delta_poc_msb_cycle_lt *)
  sx_slice_temporal_mvp_enabled_flag : bool; sx_slice_sao_luma_flag : bool; sx_slice_sao_chroma_flag : bool;
  sx_num_ref_idx_active_override_flag : bool; sx_num_ref_idx_l0_active_minus1 : N;
  sx_num_ref_idx_l1_active_minus1 : N;
  sx_ref_pic_list_modification_flag_l0 : bool; sx_list_entry_l0 : list N;
  sx_ref_pic_list_modification_flag_l1 : bool; sx_list_entry_l1 : list N;
  sx_mvd_l1_zero_flag : bool; sx_cabac_init_flag : bool; sx_collocated_from_l0_flag : bool;
  sx_collocated_ref_idx : N;
  sx_luma_log2_weight_denom : N; sx_delta_chroma_log2_weight_denom : Z;
  sx_pwt_l0 : list hpwt; sx_pwt_l1 : list hpwt;     (* per entry: the two flags and the six se(v) values *)
  sx_five_minus_max_num_merge_cand : N; sx_use_integer_mv_flag : bool;
  sx_slice_qp_delta : Z; sx_slice_cb_qp_offset : Z; sx_slice_cr_qp_offset : Z;
  sx_slice_act_y_qp_offset : Z; sx_slice_act_cb_qp_offset : Z; sx_slice_act_cr_qp_offset : Z;
  sx_cu_chroma_qp_offset_enabled_flag : bool; sx_deblocking_filter_override_flag : bool;
  sx_slice_deblocking_filter_disabled_flag : bool; sx_slice_beta_offset_div2 : Z; sx_slice_tc_offset_div2 : Z;
  sx_slice_loop_filter_across_slices_enabled_flag : bool;
  sx_offset_len_minus1 : N; sx_entry_point_offset_minus1 : list N;   (* num_entry_point_offsets = length *)
  sx_slice_segment_header_extension_data : list N;                   (* slice_segment_header_extension_length = length *)
  sx_slice_segment_data : list N }.                                  (* bytes that follow byte_alignment() *)

Section HSliceSyntax.
  Variable sp : hsps_syntax.      (* the active SPS: the one the PPS refers to *)
  Variable pp : hpps_syntax.      (* the PPS selected by slice_pic_parameter_set_id *)
  Variable v : hslice_syntax.

  Definition hs_nt : N := sx_sl_nal_unit_type v.
  Definition hs_irap : bool := (16 <=? hs_nt) && (hs_nt <=? 23).
  Definition hs_idr : bool := (hs_nt =? 19) || (hs_nt =? 20).
  Definition hs_first : bool := sx_first_slice_segment_in_pic_flag v.
  Definition hs_dep : bool :=
    negb hs_first && sx_dependent_slice_segments_enabled_flag pp && sx_dependent_slice_segment_flag v.
  Definition hs_main : bool := negb hs_dep.
  Definition hs_nidr : bool := hs_main && negb hs_idr.

  (* (7-10) .. (7-19) *)
  Definition hs_ctb_log2 : N :=
    sx_log2_min_luma_coding_block_size_minus3 sp + 3 + sx_log2_diff_max_min_luma_coding_block_size sp.
  Definition hs_ctb_size : N := 2 ^ hs_ctb_log2.
  Definition hs_pic_width_in_ctbs : N := (sx_pic_width_in_luma_samples sp + hs_ctb_size - 1) / hs_ctb_size.
  Definition hs_pic_height_in_ctbs : N := (sx_pic_height_in_luma_samples sp + hs_ctb_size - 1) / hs_ctb_size.
  Definition hs_pic_size_in_ctbs : N := hs_pic_width_in_ctbs * hs_pic_height_in_ctbs.
  Definition hs_address_bits : N := N.log2_up hs_pic_size_in_ctbs.

  Definition hs_sep_plane : bool := (sx_chroma_format_idc sp =? 3) && sx_separate_colour_plane_flag sp.
  Definition hs_chroma_array_type : N := if hs_sep_plane then 0 else sx_chroma_format_idc sp.
  Definition hs_cat_nz : bool := negb (hs_chroma_array_type =? 0).
  Definition hs_poc_bits : N := sx_log2_max_pic_order_cnt_lsb_minus4 sp + 4.
  Definition hs_num_st : N := lenN (sx_st_ref_pic_sets sp).
  Definition hs_sps_derived : list rps_derived := derive_all (sx_st_ref_pic_sets sp).
  Definition hs_st_coded : bool := hs_nidr && negb (sx_short_term_ref_pic_set_sps_flag v).
  Definition hs_st_idx_coded : bool := hs_nidr && sx_short_term_ref_pic_set_sps_flag v && (1 <? hs_num_st).
  Definition hs_st_idx : N := if hs_st_idx_coded then sx_short_term_ref_pic_set_idx v else 0.

  (* the short-term RPS in force (CurrRpsIdx), derived as in 7.4.8 *)
  Definition hs_curr_rps : rps_derived :=
    if hs_nidr then
      if sx_short_term_ref_pic_set_sps_flag v
      then nth (N.to_nat hs_st_idx) hs_sps_derived (mkRpsD [] [])
      else derive_one hs_sps_derived hs_num_st (sx_slice_st_rps v)
    else mkRpsD [] [].

  Definition hs_lt_on : bool := hs_nidr && sx_long_term_ref_pics_present_flag sp.
  Definition hs_num_lt_sps_in_sps : N :=
    if sx_long_term_ref_pics_present_flag sp then lenN (sx_lt_ref_pics_sps sp) else 0.
  Definition hs_lt_sps_entries : list (N * bool * N) :=
    if hs_lt_on && (0 <? hs_num_lt_sps_in_sps) then sx_lt_sps_entries v else [].
  Definition hs_lt_pics_entries : list (N * bool * bool * N) := if hs_lt_on then sx_lt_pics_entries v else [].
  Definition hs_lt_idx_bits : N := N.log2_up hs_num_lt_sps_in_sps.
  Definition hs_sps_lt (ix : N) : N * bool := nth (N.to_nat ix) (sx_lt_ref_pics_sps sp) (0, false).

  (* NumPicTotalCurr (7-55) *)
  Definition hs_curr_pic_ref : bool :=
    hpps_ext_on pp sx_pps_scc_extension_flag && sx_pps_curr_pic_ref_enabled_flag (sx_pps_scc_extension pp).
  Definition hs_num_pic_total_curr : N :=
    d_num_used hs_curr_rps
    + countb (map (fun e => snd (hs_sps_lt (fst (fst e)))) hs_lt_sps_entries)
    + countb (map (fun e => snd (fst (fst e))) hs_lt_pics_entries)
    + (if hs_curr_pic_ref then 1 else 0).

  Definition hs_is_p : bool := hs_main && (sx_slice_type v =? 1).
  Definition hs_is_b : bool := hs_main && (sx_slice_type v =? 0).
  Definition hs_inter : bool := hs_is_p || hs_is_b.
  Definition hs_override : bool := hs_inter && sx_num_ref_idx_active_override_flag v.
  Definition hs_l0 : N :=
    if hs_override then sx_num_ref_idx_l0_active_minus1 v else sx_num_ref_idx_l0_default_active_minus1 pp.
  Definition hs_l1 : N :=
    if hs_override && hs_is_b then sx_num_ref_idx_l1_active_minus1 v
    else sx_num_ref_idx_l1_default_active_minus1 pp.
  Definition hs_rplm : bool :=
    hs_inter && sx_lists_modification_present_flag pp && (1 <? hs_num_pic_total_curr).
  Definition hs_list_entry_bits : N := N.log2_up hs_num_pic_total_curr.
  Definition hs_tmvp : bool :=
    hs_nidr && sx_sps_temporal_mvp_enabled_flag sp && sx_slice_temporal_mvp_enabled_flag v.
  Definition hs_col_l0 : bool := if hs_is_b then sx_collocated_from_l0_flag v else true.
  Definition hs_col_idx : bool :=
    hs_inter && hs_tmvp && ((hs_col_l0 && (0 <? hs_l0)) || (negb hs_col_l0 && (0 <? hs_l1))).
  Definition hs_pwt : bool :=
    (sx_weighted_pred_flag pp && hs_is_p) || (sx_weighted_bipred_flag pp && hs_is_b).
  Definition hs_mvres2 : bool :=
    hsps_ext_on sp sx_sps_scc_extension_flag
    && (sx_motion_vector_resolution_control_idc (sx_sps_scc_extension sp) =? 2).
  Definition hs_act_qp : bool :=
    hpps_ext_on pp sx_pps_scc_extension_flag
    && sx_residual_adaptive_colour_transform_enabled_flag (sx_pps_scc_extension pp)
    && sx_pps_slice_act_qp_offsets_present_flag (sx_pps_scc_extension pp).
  Definition hs_cqp_list : bool :=
    hpps_ext_on pp sx_pps_range_extension_flag
    && sx_chroma_qp_offset_list_enabled_flag (sx_pps_range_extension pp).
  Definition hs_dbf_override : bool :=
    hs_main && sx_deblocking_filter_control_present_flag pp
    && sx_deblocking_filter_override_enabled_flag pp && sx_deblocking_filter_override_flag v.
  (* slice_deblocking_filter_disabled_flag, inferred from the PPS when not coded (7.4.7.1) *)
  Definition hs_dbf_disabled : bool :=
    if hs_dbf_override then sx_slice_deblocking_filter_disabled_flag v
    else sx_deblocking_filter_control_present_flag pp && sx_pps_deblocking_filter_disabled_flag pp.
  Definition hs_sao_luma : bool :=
    hs_main && sx_sample_adaptive_offset_enabled_flag sp && sx_slice_sao_luma_flag v.
  Definition hs_sao_chroma : bool :=
    hs_main && sx_sample_adaptive_offset_enabled_flag sp && hs_cat_nz && sx_slice_sao_chroma_flag v.
  Definition hs_lf_across : bool :=
    hs_main && sx_pps_loop_filter_across_slices_enabled_flag pp
    && (hs_sao_luma || hs_sao_chroma || negb hs_dbf_disabled).
  Definition hs_entry : bool := sx_tiles_enabled_flag pp || sx_entropy_coding_sync_enabled_flag pp.

  Definition ser_hpwt_list (l : list hpwt) : list bool :=
    flat_map (fun e => fl (pw_luma_flag e)) l
    ++ opt_bits hs_cat_nz (flat_map (fun e => fl (pw_chroma_flag e)) l)
    ++ flat_map (fun e =>
                   opt_bits (pw_luma_flag e) (se_bits (pw_dlw e) ++ se_bits (pw_lo e))
                   ++ opt_bits (hs_cat_nz && pw_chroma_flag e)
                        (se_bits (pw_dcw0 e) ++ se_bits (pw_dco0 e) ++ se_bits (pw_dcw1 e) ++ se_bits (pw_dco1 e))) l.

  Definition ser_hslice_lt : list bool :=
    opt_bits (0 <? hs_num_lt_sps_in_sps) (ue_bits (lenN hs_lt_sps_entries))
    ++ ue_bits (lenN hs_lt_pics_entries)
    ++ flat_map (fun e => let '(ix, msb, cyc) := e in
                          opt_bits (1 <? hs_num_lt_sps_in_sps) (u hs_lt_idx_bits ix)
                          ++ fl msb ++ opt_bits msb (ue_bits cyc)) hs_lt_sps_entries
    ++ flat_map (fun e => let '(poc, used, msb, cyc) := e in
                          u hs_poc_bits poc ++ fl used ++ fl msb ++ opt_bits msb (ue_bits cyc)) hs_lt_pics_entries.

  Definition ser_hslice_inter : list bool :=
    fl (sx_num_ref_idx_active_override_flag v)
    ++ opt_bits (sx_num_ref_idx_active_override_flag v)
         (ue_bits (sx_num_ref_idx_l0_active_minus1 v)
          ++ opt_bits hs_is_b (ue_bits (sx_num_ref_idx_l1_active_minus1 v)))
    ++ opt_bits hs_rplm
         (fl (sx_ref_pic_list_modification_flag_l0 v)
          ++ opt_bits (sx_ref_pic_list_modification_flag_l0 v)
               (flat_map (u hs_list_entry_bits) (sx_list_entry_l0 v))
          ++ opt_bits hs_is_b
               (fl (sx_ref_pic_list_modification_flag_l1 v)
                ++ opt_bits (sx_ref_pic_list_modification_flag_l1 v)
                     (flat_map (u hs_list_entry_bits) (sx_list_entry_l1 v))))
    ++ opt_bits hs_is_b (fl (sx_mvd_l1_zero_flag v))
    ++ opt_bits (sx_cabac_init_present_flag pp) (fl (sx_cabac_init_flag v))
    ++ opt_bits hs_tmvp
         (opt_bits hs_is_b (fl (sx_collocated_from_l0_flag v))
          ++ opt_bits hs_col_idx (ue_bits (sx_collocated_ref_idx v)))
    ++ opt_bits hs_pwt
         (ue_bits (sx_luma_log2_weight_denom v)
          ++ opt_bits hs_cat_nz (se_bits (sx_delta_chroma_log2_weight_denom v))
          ++ ser_hpwt_list (sx_pwt_l0 v) ++ opt_bits hs_is_b (ser_hpwt_list (sx_pwt_l1 v)))
    ++ ue_bits (sx_five_minus_max_num_merge_cand v)
    ++ opt_bits hs_mvres2 (fl (sx_use_integer_mv_flag v)).

  Definition ser_hslice_main : list bool :=
    sx_slice_reserved_flags v
    ++ ue_bits (sx_slice_type v)
    ++ opt_bits (sx_output_flag_present_flag pp) (fl (sx_pic_output_flag v))
    ++ opt_bits hs_sep_plane (u 2 (sx_colour_plane_id v))
    ++ opt_bits (negb hs_idr)
         (u hs_poc_bits (sx_slice_pic_order_cnt_lsb v)
          ++ fl (sx_short_term_ref_pic_set_sps_flag v)
          ++ (if sx_short_term_ref_pic_set_sps_flag v
              then opt_bits (1 <? hs_num_st) (u (N.log2_up hs_num_st) (sx_short_term_ref_pic_set_idx v))
              else ser_hrps hs_num_st hs_num_st (sx_slice_st_rps v))
          ++ opt_bits (sx_long_term_ref_pics_present_flag sp) ser_hslice_lt
          ++ opt_bits (sx_sps_temporal_mvp_enabled_flag sp) (fl (sx_slice_temporal_mvp_enabled_flag v)))
    ++ opt_bits (sx_sample_adaptive_offset_enabled_flag sp)
         (fl (sx_slice_sao_luma_flag v) ++ opt_bits hs_cat_nz (fl (sx_slice_sao_chroma_flag v)))
    ++ opt_bits hs_inter ser_hslice_inter
    ++ se_bits (sx_slice_qp_delta v)
    ++ opt_bits (sx_pps_slice_chroma_qp_offsets_present_flag pp)
         (se_bits (sx_slice_cb_qp_offset v) ++ se_bits (sx_slice_cr_qp_offset v))
    ++ opt_bits hs_act_qp
         (se_bits (sx_slice_act_y_qp_offset v) ++ se_bits (sx_slice_act_cb_qp_offset v)
          ++ se_bits (sx_slice_act_cr_qp_offset v))
    ++ opt_bits hs_cqp_list (fl (sx_cu_chroma_qp_offset_enabled_flag v))
    ++ opt_bits (sx_deblocking_filter_control_present_flag pp && sx_deblocking_filter_override_enabled_flag pp)
         (fl (sx_deblocking_filter_override_flag v))
    ++ opt_bits hs_dbf_override
         (fl (sx_slice_deblocking_filter_disabled_flag v)
          ++ opt_bits (negb (sx_slice_deblocking_filter_disabled_flag v))
               (se_bits (sx_slice_beta_offset_div2 v) ++ se_bits (sx_slice_tc_offset_div2 v)))
    ++ opt_bits (sx_pps_loop_filter_across_slices_enabled_flag pp
                 && (hs_sao_luma || hs_sao_chroma || negb hs_dbf_disabled))
         (fl (sx_slice_loop_filter_across_slices_enabled_flag v)).

  (* slice_segment_header() without byte_alignment() *)
  Definition ser_hslice_header : list bool :=
    fl hs_first
    ++ opt_bits hs_irap (fl (sx_no_output_of_prior_pics_flag v))
    ++ ue_bits (sx_slice_pic_parameter_set_id v)
    ++ opt_bits (negb hs_first)
         (opt_bits (sx_dependent_slice_segments_enabled_flag pp) (fl (sx_dependent_slice_segment_flag v))
          ++ u hs_address_bits (sx_slice_segment_address v))
    ++ opt_bits hs_main ser_hslice_main
    ++ opt_bits hs_entry
         (ue_bits (lenN (sx_entry_point_offset_minus1 v))
          ++ opt_bits (0 <? lenN (sx_entry_point_offset_minus1 v))
               (ue_bits (sx_offset_len_minus1 v)
                ++ flat_map (u (sx_offset_len_minus1 v + 1)) (sx_entry_point_offset_minus1 v)))
    ++ opt_bits (sx_slice_segment_header_extension_present_flag pp)
         (ue_bits (lenN (sx_slice_segment_header_extension_data v))
          ++ flat_map (u 8) (sx_slice_segment_header_extension_data v)).

  Definition hslice_hdr_bits : list bool :=
    hnal_header hs_nt (sx_sl_nuh_layer_id v) (sx_sl_nuh_temporal_id_plus1 v) ++ ser_hslice_header.
  (* header, byte_alignment() (7.3.2.12: a one, then zeros up to the byte boundary), slice segment data *)
  Definition hraw_slice : list N :=
    bytes_of_bits (hslice_hdr_bits ++ trailing_bits (lenN hslice_hdr_bits)) ++ sx_slice_segment_data v.
  Definition hnalu_slice : list N := escape hraw_slice.
  Definition hslice_size_bits : N := lenN hslice_hdr_bits + lenN (trailing_bits (lenN hslice_hdr_bits)).

  Definition hpwt_ok (e : hpwt) : bool :=
    i8_ok (pw_dlw e) && se_ok (pw_lo e) && i8_ok (pw_dcw0 e) && i8_ok (pw_dcw1 e)
    && se_ok (pw_dco0 e) && se_ok (pw_dco1 e).

  Definition hslice_valid : bool :=
    ((hs_nt <=? 9) || ((16 <=? hs_nt) && (hs_nt <=? 21)))
    && (sx_sl_nuh_layer_id v <? 64) && (1 <=? sx_sl_nuh_temporal_id_plus1 v) && (sx_sl_nuh_temporal_id_plus1 v <? 8)
    && (sx_slice_pic_parameter_set_id v =? sx_pps_pic_parameter_set_id pp)
    && (sx_slice_segment_address v <? 2 ^ hs_address_bits)
    && (lenN (sx_slice_reserved_flags v) =? sx_num_extra_slice_header_bits pp)
    && (sx_slice_type v <=? 2) && (sx_colour_plane_id v <? 3)
    && (sx_slice_pic_order_cnt_lsb v <? 2 ^ hs_poc_bits)
    && (if hs_st_coded then hrps_valid hs_sps_derived hs_num_st hs_num_st (sx_slice_st_rps v) else true)
    && (if hs_nidr && sx_short_term_ref_pic_set_sps_flag v
        then (1 <=? hs_num_st) && (hs_st_idx <? hs_num_st) else true)
    && (lenN hs_lt_sps_entries <=? 32) && (lenN hs_lt_pics_entries <=? 32)
    && forallb (fun e => let '(ix, msb, cyc) := e in (ix <? hs_num_lt_sps_in_sps) && ue_ok cyc) hs_lt_sps_entries
    && forallb (fun e => let '(poc, used, msb, cyc) := e in (poc <? 2 ^ hs_poc_bits) && ue_ok cyc) hs_lt_pics_entries
    && (sx_num_ref_idx_l0_active_minus1 v <=? 14) && (sx_num_ref_idx_l1_active_minus1 v <=? 14)
    && (if hs_rplm && sx_ref_pic_list_modification_flag_l0 v
        then (lenN (sx_list_entry_l0 v) =? hs_l0 + 1)
             && forallb (fun x => x <? hs_num_pic_total_curr) (sx_list_entry_l0 v) else true)
    && (if hs_rplm && hs_is_b && sx_ref_pic_list_modification_flag_l1 v
        then (lenN (sx_list_entry_l1 v) =? hs_l1 + 1)
             && forallb (fun x => x <? hs_num_pic_total_curr) (sx_list_entry_l1 v) else true)
    && (hs_num_pic_total_curr <? 256)
    && (sx_collocated_ref_idx v <=? 14)
    && (sx_luma_log2_weight_denom v <=? 7) && i8_ok (sx_delta_chroma_log2_weight_denom v)
    && (if hs_pwt then (lenN (sx_pwt_l0 v) =? hs_l0 + 1) && forallb hpwt_ok (sx_pwt_l0 v)
                       && (if hs_is_b then (lenN (sx_pwt_l1 v) =? hs_l1 + 1) && forallb hpwt_ok (sx_pwt_l1 v)
                           else true)
        else true)
    && (sx_five_minus_max_num_merge_cand v <=? 4)
    && se_ok (sx_slice_qp_delta v) && i8_ok (sx_slice_cb_qp_offset v) && i8_ok (sx_slice_cr_qp_offset v)
    && i8_ok (sx_slice_act_y_qp_offset v) && i8_ok (sx_slice_act_cb_qp_offset v)
    && i8_ok (sx_slice_act_cr_qp_offset v)
    && i8_ok (sx_slice_beta_offset_div2 v) && i8_ok (sx_slice_tc_offset_div2 v)
    && (sx_offset_len_minus1 v <=? 31) && (lenN (sx_entry_point_offset_minus1 v) <=? 2048)
    && forallb (fun x => x <? 2 ^ (sx_offset_len_minus1 v + 1)) (sx_entry_point_offset_minus1 v)
    && (lenN (sx_slice_segment_header_extension_data v) <=? 256)
    && forallb (fun x => x <? 256) (sx_slice_segment_header_extension_data v)
    && forallb (fun x => x <? 256) (sx_slice_segment_data v).

  Definition expected_hslice_rps : hrps :=
    if hs_nidr then
      if sx_short_term_ref_pic_set_sps_flag v
      then match nth_error (combine hs_sps_derived (sx_st_ref_pic_sets sp)) (N.to_nat hs_st_idx) with
           | Some p => expected_hrps (fst p) (snd p)
           | None => hrps_zero
           end
      else expected_hrps hs_curr_rps (sx_slice_st_rps v)
    else hrps_zero.

  Definition expected_hpwt (e : hpwt) : hpwt :=
    let lf := pw_luma_flag e in
    let cf := hs_cat_nz && pw_chroma_flag e in
    let zz (c : bool) (k : Z) := if c then k else 0%Z in
    mkHPwt lf cf (zz lf (pw_dlw e)) (zz lf (pw_lo e)) (zz cf (pw_dcw0 e)) (zz cf (pw_dcw1 e))
           (zz cf (pw_dco0 e)) (zz cf (pw_dco1 e)).

  Definition expected_hslice : hslice :=
    let n (c : bool) (x : N) := if c then x else 0 in
    let zz (c : bool) (k : Z) := if c then k else 0%Z in
    let m := hs_main in
    let cq := m && sx_pps_slice_chroma_qp_offsets_present_flag pp in
    let aq := m && hs_act_qp in
    let bt := hs_dbf_override && negb (sx_slice_deblocking_filter_disabled_flag v) in
    let ne := if hs_entry then lenN (sx_entry_point_offset_minus1 v) else 0 in
    let ex := sx_slice_segment_header_extension_present_flag pp in
    mkHSlice (n m (sx_slice_type v)) hs_first (hs_irap && sx_no_output_of_prior_pics_flag v)
             (sx_slice_pic_parameter_set_id v) hs_dep (n (negb hs_first) (sx_slice_segment_address v))
             (m && sx_output_flag_present_flag pp && sx_pic_output_flag v)
             (n (m && hs_sep_plane) (sx_colour_plane_id v))
             (n hs_nidr (sx_slice_pic_order_cnt_lsb v))
             (hs_nidr && sx_short_term_ref_pic_set_sps_flag v)
             expected_hslice_rps hs_st_idx
             (lenN hs_lt_sps_entries) (lenN hs_lt_pics_entries)
             (map (fun e => let '(ix, msb, cyc) := e in
                            mkHLt (fst (hs_sps_lt ix)) (snd (hs_sps_lt ix)) msb (n msb cyc)) hs_lt_sps_entries
              ++ map (fun e => let '(poc, used, msb, cyc) := e in mkHLt poc used msb (n msb cyc)) hs_lt_pics_entries)
             hs_tmvp hs_sao_luma hs_sao_chroma hs_override
             (n hs_inter hs_l0) (n hs_inter hs_l1)
             (if hs_rplm
              then Some (sx_ref_pic_list_modification_flag_l0 v,
                         (if sx_ref_pic_list_modification_flag_l0 v then sx_list_entry_l0 v else []),
                         hs_is_b && sx_ref_pic_list_modification_flag_l1 v,
                         (if hs_is_b && sx_ref_pic_list_modification_flag_l1 v then sx_list_entry_l1 v else []))
              else None)
             (hs_is_b && sx_mvd_l1_zero_flag v)
             (hs_inter && sx_cabac_init_present_flag pp && sx_cabac_init_flag v)
             (if hs_inter && hs_tmvp then hs_col_l0 else true)
             (n hs_col_idx (sx_collocated_ref_idx v))
             (if hs_pwt
              then Some (sx_luma_log2_weight_denom v, zz hs_cat_nz (sx_delta_chroma_log2_weight_denom v),
                         map expected_hpwt (sx_pwt_l0 v),
                         (if hs_is_b then map expected_hpwt (sx_pwt_l1 v) else []))
              else None)
             (n hs_inter (sx_five_minus_max_num_merge_cand v))
             (hs_inter && hs_mvres2 && sx_use_integer_mv_flag v)
             (zz m (sx_slice_qp_delta v)) (zz cq (sx_slice_cb_qp_offset v)) (zz cq (sx_slice_cr_qp_offset v))
             (zz aq (sx_slice_act_y_qp_offset v)) (zz aq (sx_slice_act_cb_qp_offset v))
             (zz aq (sx_slice_act_cr_qp_offset v))
             (m && hs_cqp_list && sx_cu_chroma_qp_offset_enabled_flag v)
             hs_dbf_override (m && hs_dbf_disabled)
             (zz bt (sx_slice_beta_offset_div2 v)) (zz bt (sx_slice_tc_offset_div2 v))
             (hs_lf_across && sx_slice_loop_filter_across_slices_enabled_flag v)
             ne (n (0 <? ne) (sx_offset_len_minus1 v))
             (if hs_entry then sx_entry_point_offset_minus1 v else [])
             (n ex (lenN (sx_slice_segment_header_extension_data v)))
             (if ex then sx_slice_segment_header_extension_data v else [])
             (nbytes_at hraw_slice hslice_size_bits).
End HSliceSyntax.
