(* C19ElngProofs.v — the extended language box written for a non-3-letter tag decodes to the same tag
   exactly when the tag has two or more bytes (and no NUL). *)
From Coq Require Import String Ascii.
From V.lib Require Import Base.
From V.c19 Require Import C19Model.

Definition no_nul (lang : str) : bool := forallb (fun c => negb (c =? 0)) lang.

Lemma read_zstr_ok lang : forall rest max,
  no_nul lang = true -> (length lang < max)%nat -> read_zstr max (lang ++ 0 :: rest) = Some lang.
Proof.
  induction lang as [|c lang IH]; intros rest max Hn Hm; cbn [app].
  - destruct max; [cbn in Hm; lia|]. reflexivity.
  - cbn [no_nul forallb] in Hn. apply andb_prop in Hn. destruct Hn as [Hc Hn].
    destruct max; [cbn in Hm; lia|]. cbn [read_zstr].
    apply negb_true_iff in Hc. rewrite Hc. rewrite (IH rest max Hn); [reflexivity|]. cbn [length] in Hm. lia.
Qed.

Lemma elng_roundtrip lang :
  no_nul lang = true -> (2 <= length lang)%nat -> elng_decode (elng_payload lang) = Ok (false, lang).
Proof.
  intros Hn Hl. unfold elng_decode, elng_payload.
  assert (Hlen : length ([0; 0; 0; 0] ++ lang ++ [0]) = (length lang + 5)%nat).
  { rewrite !app_length. cbn [length]. lia. }
  rewrite Hlen.
  destruct (Nat.ltb (length lang + 5) 7) eqn:E; [apply Nat.ltb_lt in E; lia|].
  cbn [app N.eqb andb].
  replace (length lang + 5 - 4)%nat with (S (length lang)) by lia.
  change (lang ++ [0]) with (lang ++ 0 :: []).
  rewrite read_zstr_ok; [reflexivity|exact Hn|lia].
Qed.

(* a one-byte tag is read back as the old layout with an empty language *)
Lemma elng_short_refuted : exists lang, no_nul lang = true /\ length lang = 1%nat /\ elng_decode (elng_payload lang) = Ok (true, []).
Proof. exists [120]. vm_compute. repeat split; reflexivity. Qed.

(* ------------------------------------------------------------------ stpp *)
Lemma skipn_app_exact {A} (l r : list A) : skipn (length l) (l ++ r) = r.
Proof. induction l as [|x l IH]; cbn [length skipn app]; [reflexivity|exact IH]. Qed.

Lemma stpp_roundtrip dref ns schema mime :
  dref < 65536 -> no_nul ns = true -> no_nul schema = true -> no_nul mime = true ->
  stpp_decode (stpp_payload dref ns schema mime) = Ok (dref, ns, schema, mime, 0%nat).
Proof.
  intros Hd Hn Hs Hm. unfold stpp_payload, stpp_decode. cbn [app].
  set (rest := ns ++ 0 :: schema ++ 0 :: mime ++ [0]).
  assert (Hlen : length rest = (length ns + length schema + length mime + 3)%nat).
  { unfold rest. rewrite !app_length. cbn [length]. rewrite !app_length. cbn [length]. rewrite !app_length. cbn [length]. lia. }
  cbn [length]. rewrite Hlen.
  replace (S (S (S (S (S (S (S (S (length ns + length schema + length mime + 3)))))))) - 8)%nat
    with (length ns + length schema + length mime + 3)%nat by lia.
  unfold rest at 1. rewrite read_zstr_ok; [|exact Hn|lia].
  assert (Hsk1 : skipn (S (length ns)) rest = schema ++ 0 :: mime ++ [0]).
  { unfold rest. replace (ns ++ 0 :: schema ++ 0 :: mime ++ [0]) with ((ns ++ [0]) ++ schema ++ 0 :: mime ++ [0])
      by (rewrite <- app_assoc; reflexivity).
    replace (S (length ns)) with (length (ns ++ [0])) by (rewrite app_length; cbn [length]; lia).
    apply skipn_app_exact. }
  rewrite Hsk1.
  replace (length ns + length schema + length mime + 3 - S (length ns))%nat with (length schema + length mime + 2)%nat by lia.
  destruct (Nat.ltb 0 (length schema + length mime + 2)) eqn:E1; [|apply Nat.ltb_ge in E1; lia].
  rewrite read_zstr_ok; [|exact Hs|lia].
  assert (Hsk2 : skipn (S (length schema)) (schema ++ 0 :: mime ++ [0]) = mime ++ [0]).
  { replace (schema ++ 0 :: mime ++ [0]) with ((schema ++ [0]) ++ mime ++ [0]) by (rewrite <- app_assoc; reflexivity).
    replace (S (length schema)) with (length (schema ++ [0])) by (rewrite app_length; cbn [length]; lia).
    apply skipn_app_exact. }
  rewrite Hsk2.
  replace (length schema + length mime + 2 - S (length schema))%nat with (S (length mime)) by lia.
  cbn [Nat.ltb Nat.leb].
  change (mime ++ [0]) with (mime ++ 0 :: []).
  rewrite read_zstr_ok; [|exact Hm|lia].
  replace (S (length mime) - S (length mime))%nat with 0%nat by lia. cbn [Nat.ltb Nat.leb].
  do 5 f_equal.
  pose proof (N.div_mod dref 256). lia.
Qed.
