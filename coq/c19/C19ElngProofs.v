(* C19ElngProofs.v — the extended language box written for a non-3-letter tag decodes to the same tag
   exactly when the tag has two or more bytes (and no NUL). *)
From Coq Require Import String Ascii.
From V.lib Require Import Base.
From V.c19 Require Import C19Model.

Definition no_nul (lang : str) : bool := forallb (fun c => negb (c =? 0)) lang.

Lemma read_zstr_ok lang : forall rest max,
  no_nul lang = true -> (length lang < max)%nat -> read_zstr max (lang ++ 0 :: rest) = Some lang.
Proof.
  induction lang as [|c lang IH]; intros rest max Hn Hm; cbn [app].
  - destruct max; [cbn in Hm; lia|]. reflexivity.
  - cbn [no_nul forallb] in Hn. apply andb_prop in Hn. destruct Hn as [Hc Hn].
    destruct max; [cbn in Hm; lia|]. cbn [read_zstr].
    apply negb_true_iff in Hc. rewrite Hc. rewrite (IH rest max Hn); [reflexivity|]. cbn [length] in Hm. lia.
Qed.

Lemma elng_roundtrip lang :
  no_nul lang = true -> (2 <= length lang)%nat -> elng_decode (elng_payload lang) = Ok (false, lang).
Proof.
  intros Hn Hl. unfold elng_decode, elng_payload.
  assert (Hlen : length ([0; 0; 0; 0] ++ lang ++ [0]) = (length lang + 5)%nat).
  { rewrite !app_length. cbn [length]. lia. }
  rewrite Hlen.
  destruct (Nat.ltb (length lang + 5) 7) eqn:E; [apply Nat.ltb_lt in E; lia|].
  cbn [app N.eqb andb].
  replace (length lang + 5 - 4)%nat with (S (length lang)) by lia.
  change (lang ++ [0]) with (lang ++ 0 :: []).
  rewrite read_zstr_ok; [reflexivity|exact Hn|lia].
Qed.

(* a one-byte tag is read back as the old layout with an empty language *)
Lemma elng_short_refuted : exists lang, no_nul lang = true /\ length lang = 1%nat /\ elng_decode (elng_payload lang) = Ok (true, []).
Proof. exists [120]. vm_compute. repeat split; reflexivity. Qed.
