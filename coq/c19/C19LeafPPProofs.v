(* C19LeafPPProofs.v — leaf_pp / pre_pp (C19PrintParseProofs) for every leaf kind that occurs in an init segment
   built through the API, for all in-range field values. *)
From V.lib Require Import Base.
From V.c19 Require Import C19BoxCodec C19BoxModel.
From V.c19 Require Import C19Model C19TreeModel C19LeafProofs C19PrintParseProofs.

Ltac lens := rewrite ?lenN_app, ?lenN_be_enc, ?lenN_zeros; cbn [N.of_nat Pos.of_succ_nat Pos.succ]; try lia.

Ltac start_pp :=
  eexists; split; [reflexivity|]; split.

(* ---- leaves proved in C19LeafProofs, packaged *)
Lemma lpp_mvhd f ts du rate vol nt :
  f < 16777216 -> ts < 4294967296 -> du < 4294967296 -> rate < 4294967296 -> vol < 65536 -> nt < 4294967296 ->
  leaf_pp dec_mvhd (LMvhd 0 f 0 0 ts du rate vol nt).
Proof.
  intros. start_pp.
  - cbn [dflt_rsv chunk nth N.eqb size_leaf]. lens. change (lenN unity_matrix) with 36. lia.
  - intros r2. apply pp_mvhd; try assumption. reflexivity.
Qed.

Lemma lpp_trex f tid dsdi dur sz sf :
  f < 16777216 -> tid < 4294967296 -> dsdi < 4294967296 -> dur < 4294967296 -> sz < 4294967296 -> sf < 4294967296 ->
  leaf_pp dec_trex (LTrex 0 f tid dsdi dur sz sf).
Proof.
  intros. start_pp.
  - cbn [size_leaf]. lens.
  - intros r2. apply pp_trex; try assumption. reflexivity.
Qed.

Lemma lpp_tkhd f tid du layer ag vol wd ht :
  f < 16777216 -> tid < 4294967296 -> du < 4294967296 -> layer < 65536 -> ag < 65536 -> vol < 65536 ->
  wd < 4294967296 -> ht < 4294967296 ->
  leaf_pp dec_tkhd (LTkhd 0 f 0 0 tid du layer ag vol wd ht).
Proof.
  intros. start_pp.
  - cbn [dflt_rsv chunk nth N.eqb size_leaf]. lens. change (lenN unity_matrix) with 36. lia.
  - intros r2. apply pp_tkhd; try assumption. reflexivity.
Qed.

Lemma lpp_mdhd f ts du lang :
  f < 16777216 -> ts < 4294967296 -> du < 4294967296 -> lang < 65536 ->
  leaf_pp dec_mdhd (LMdhd 0 f 0 0 ts du lang).
Proof.
  intros. start_pp.
  - cbn [dflt_rsv chunk nth N.eqb size_leaf]. lens.
  - intros r2. apply pp_mdhd; try assumption. reflexivity.
Qed.

Lemma ppp_stsd f cnt : f < 16777216 -> cnt < 4294967296 -> pre_pp dec_stsd (LStsd 0 f cnt).
Proof.
  intros. start_pp.
  - cbn [size_leaf]. lens.
  - intros sz r2. apply pp_stsd; try assumption. reflexivity.
Qed.

Lemma ppp_dref f cnt : f < 16777216 -> cnt < 4294967296 -> pre_pp dec_dref (LDref 0 f cnt).
Proof.
  intros Hf Hc. start_pp.
  - cbn [size_leaf]. lens.
  - intros sz r2. destruct (vf0 f Hf) as (J & V & F). rewrite J. rewrite <- !app_assoc.
    unfold dec_dref, pbind, pret. pp. rewrite V, F. reflexivity.
Qed.

Lemma ppp_visual name dri w ht hres vres fc cn :
  dri < 65536 -> w < 65536 -> ht < 65536 -> hres < 4294967296 -> vres < 4294967296 -> fc < 65536 -> lenN cn <= 31 ->
  pre_pp dec_visual (LVisual name dri w ht hres vres fc cn).
Proof.
  intros. start_pp.
  - cbn [dflt_rsv chunk nth size_leaf]. lens.
    assert (Hp : vis_pad (lenN cn) = 31 - lenN cn) by (unfold vis_pad, u8; lia).
    rewrite N2Nat.id, Hp. change (lenN [0; 24]) with 2. change (lenN [255; 255]) with 2. lia.
  - intros sz r2. apply pp_visual; try assumption. reflexivity.
Qed.

Lemma ppp_audio name dri ch ss sr :
  dri < 65536 -> ch < 65536 -> ss < 65536 -> sr < 65536 -> pre_pp dec_audio (LAudio name dri ch ss sr).
Proof.
  intros. start_pp.
  - cbn [dflt_rsv chunk nth size_leaf]. lens.
  - intros sz r2. apply pp_audio; try assumption. reflexivity.
Qed.

(* ---- the remaining leaf kinds *)
Lemma lpp_vmhd f m c0 c1 c2 :
  f < 16777216 -> m < 65536 -> c0 < 65536 -> c1 < 65536 -> c2 < 65536 -> leaf_pp dec_vmhd (LVmhd 0 f m c0 c1 c2).
Proof.
  intros Hf ? ? ? ?. start_pp.
  - cbn [size_leaf]. lens.
  - intros r2. destruct (vf0 f Hf) as (J & V & F). rewrite J. rewrite <- !app_assoc.
    unfold dec_vmhd, pbind, pret. pp. rewrite V, F. reflexivity.
Qed.

Lemma lpp_smhd f b : f < 16777216 -> b < 65536 -> leaf_pp dec_smhd (LSmhd 0 f b).
Proof.
  intros Hf ?. start_pp.
  - cbn [dflt_rsv chunk nth size_leaf]. lens.
  - intros r2. cbn [dflt_rsv chunk nth]. hide_chunks. destruct (vf0 f Hf) as (J & V & F). rewrite J. rewrite <- !app_assoc.
    unfold dec_smhd, pbind, pret. pp. rewrite V, F. reflexivity.
Qed.

Lemma lpp_fullonly name f : f < 16777216 -> leaf_pp dec_fullonly (LFullOnly name 0 f).
Proof.
  intros Hf. start_pp.
  - cbn [size_leaf]. lens.
  - intros r2. destruct (vf0 f Hf) as (J & V & F). rewrite J.
    unfold dec_fullonly, pbind, pret. pp. rewrite V, F. reflexivity.
Qed.

(* url without location (CreateURLBox) *)
Lemma lpp_url f : f < 16777216 -> leaf_pp dec_url (LUrl 0 f [] true false).
Proof.
  intros Hf. start_pp.
  - cbn [size_leaf]. cbv iota. rewrite app_nil_r. lens.
  - intros r2. destruct (vf0 f Hf) as (J & V & F). rewrite J. cbv iota. rewrite app_nil_r.
    unfold dec_url, pbind, pret. pp. rewrite V, F. reflexivity.
Qed.

(* empty sample tables *)
Lemma lpp_stts f : f < 16777216 -> leaf_pp dec_stts (LStts 0 f []).
Proof.
  intros Hf. start_pp.
  - vm_compute. reflexivity.
  - intros r2. destruct (vf0 f Hf) as (J & V & F). rewrite J. cbn [lenN length N.of_nat flat_map]. rewrite app_nil_r, <- !app_assoc.
    unfold dec_stts, pbind, pret, pfail. pp. cbn [h_size hdr8 size_leaf lenN length N.of_nat].
    change (u32 0) with 0. cbn [N.mul N.add N.eqb Pos.eqb negb rd_many]. rewrite V, F. reflexivity.
Qed.

Lemma lpp_stsc f : f < 16777216 -> leaf_pp dec_stsc (LStsc 0 f [] 0 []).
Proof.
  intros Hf. start_pp.
  - vm_compute. reflexivity.
  - intros r2. destruct (vf0 f Hf) as (J & V & F). rewrite J. cbn [lenN length N.of_nat wr_stsc]. rewrite app_nil_r, <- !app_assoc.
    unfold dec_stsc, pbind, pret, pfail. pp. cbn [h_size hdr8 size_leaf lenN length N.of_nat].
    cbn [N.mul N.add N.eqb Pos.eqb negb rd_many map stsc_ids]. rewrite V, F. reflexivity.
Qed.

Lemma lpp_stsz f : f < 16777216 -> leaf_pp dec_stsz (LStsz 0 f 0 0 []).
Proof.
  intros Hf. start_pp.
  - vm_compute. reflexivity.
  - intros r2. destruct (vf0 f Hf) as (J & V & F). rewrite J. cbn [N.ltb N.compare flat_map]. rewrite ?app_nil_r, <- ?app_assoc.
    unfold dec_stsz, pbind, pret, pfail. pp. cbn [h_size hdr8 size_leaf N.ltb N.compare].
    cbn [N.mul N.add N.eqb Pos.eqb negb rd_many]. rewrite V, F. reflexivity.
Qed.

Lemma lpp_tab name f : f < 16777216 -> leaf_pp (dec_tab 4) (LTab name 4 0 f []).
Proof.
  intros Hf. start_pp.
  - vm_compute. reflexivity.
  - intros r2. destruct (vf0 f Hf) as (J & V & F). rewrite J. cbn [lenN length N.of_nat flat_map]. rewrite app_nil_r, <- !app_assoc.
    unfold dec_tab, pbind, pret, pfail. pp. cbn [h_size h_name hdr8 size_leaf lenN length N.of_nat leaf_name].
    change (u32 0) with 0. cbn [N.mul N.add N.eqb Pos.eqb negb rd_many]. rewrite V, F. reflexivity.
Qed.

Lemma lpp_ftyp name data : 8 <= lenN data -> leaf_pp dec_ftyp (LFtyp name data).
Proof.
  intros Hd. start_pp.
  - cbn [size_leaf]. lia.
  - intros r2. unfold dec_ftyp, pbind, pret, pfail, payload_len. cbn [h_size h_len hdr8 size_leaf leaf_name].
    replace (8 + lenN data - 8) with (lenN data) by lia.
    replace (lenN data <? 8) with false by (symmetry; apply N.ltb_ge; lia).
    rewrite rdB_app by reflexivity. reflexivity.
Qed.

(* hdlr with a zero-terminated name (CreateHdlr): any name, 4-byte handler type *)
Lemma last_snoc (l : list N) x d : last (l ++ [x]) d = x.
Proof. induction l as [|a l IH]; [reflexivity|]. cbn [app]. destruct (l ++ [x]) eqn:E; [destruct l; discriminate|]. exact IH. Qed.
Lemma removelast_snoc (l : list N) x : removelast (l ++ [x]) = l.
Proof. apply removelast_last. Qed.

Lemma lpp_hdlr f pd ht name :
  f < 16777216 -> pd < 4294967296 -> lenN ht = 4 -> leaf_pp dec_hdlr (LHdlr 0 f pd ht name false).
Proof.
  intros Hf Hp Hh. start_pp.
  - cbn [dflt_rsv chunk nth size_leaf]. lens. change (lenN [0]) with 1. lia.
  - intros r2. cbn [dflt_rsv chunk nth]. hide_chunks. destruct (vf0 f Hf) as (J & V & F). rewrite J. rewrite <- !app_assoc.
    unfold dec_hdlr, pbind, pret, payload_len. cbn [h_size h_len hdr8 size_leaf]. rewrite Hh.
    pp.
    replace (24 <? 8 + 20 + 4 + lenN name + 1 - 0 - 8) with true by (symmetry; apply N.ltb_lt; lia).
    replace (8 + 20 + 4 + lenN name + 1 - 0 - 8 - 24) with (lenN (name ++ [0])) by (rewrite lenN_app; change (lenN [0]) with 1; lia).
    rewrite (app_assoc name [0] r2), rdB_app by reflexivity.
    rewrite last_snoc, N.eqb_refl, removelast_snoc, V, F. reflexivity.
Qed.

(* ---- avcC *)
Lemma rd_nalu_wr a r : lenN a < 65536 -> rd_nalu (wr_nalu a ++ r) = Ok (a, r).
Proof.
  intros H. unfold rd_nalu, wr_nalu, pbind. rewrite <- app_assoc. rewrite rd2 by lia. rewrite rdB_app by reflexivity. reflexivity.
Qed.

Lemma rd_many_forall {A} (p : parser A) (e : A -> list N) (ok : A -> Prop) :
  (forall a r, ok a -> p (e a ++ r) = Ok (a, r)) ->
  forall l r fuel, Forall ok l -> (length l <= fuel)%nat -> rd_many fuel (lenN l) p (flat_map e l ++ r) = Ok (l, r).
Proof.
  intros Hp. induction l as [|a t IH]; intros r fuel Hall Hf.
  - destruct fuel; reflexivity.
  - destruct fuel as [|f]; [cbn in Hf; lia|]. cbn [rd_many flat_map]. rewrite lenN_cons.
    replace (1 + lenN t =? 0) with false by (symmetry; apply N.eqb_neq; lia).
    inversion Hall; subst. rewrite <- app_assoc, Hp by assumption. replace (1 + lenN t - 1) with (lenN t) by lia.
    rewrite IH by (try assumption; cbn in Hf; lia). reflexivity.
Qed.

Lemma lenN_nalus l : lenN (flat_map wr_nalu l) = sumN (map (fun x => 2 + lenN x) l).
Proof.
  induction l as [|a l IH]; [reflexivity|]. cbn [flat_map map sumN]. rewrite lenN_app, IH. unfold wr_nalu.
  rewrite lenN_app, lenN_be_enc. cbn [N.of_nat Pos.of_succ_nat Pos.succ]. lia.
Qed.

Definition nalu16 (a : list N) : Prop := lenN a < 65536.

Lemma b5_mod n : n < 32 -> N.lor (u8 n) (7 * 32) mod 32 = n /\ N.lor (u8 n) (7 * 32) / 32 = 7 /\ N.lor (u8 n) (7 * 32) < 256.
Proof.
  intros H. assert (E : In n (map N.of_nat (seq 0 32))).
  { apply in_map_iff. exists (N.to_nat n). split; [apply N2Nat.id|]. apply in_seq. lia. }
  cbn in E. intuition; subst; vm_compute; repeat split; reflexivity.
Qed.

Lemma tr4 c : c < 4 -> N.lor (63 * 4) c mod 4 = c /\ N.lor (63 * 4) c / 4 = 63 /\ N.lor (63 * 4) c < 256.
Proof.
  intros H. assert (E : In c (map N.of_nat (seq 0 4))).
  { apply in_map_iff. exists (N.to_nat c). split; [apply N2Nat.id|]. apply in_seq. lia. }
  cbn in E. intuition; subst; vm_compute; repeat split; reflexivity.
Qed.
Lemma tr8 c : c < 8 -> N.lor (31 * 8) c mod 8 = c /\ N.lor (31 * 8) c / 8 = 31 /\ N.lor (31 * 8) c < 256.
Proof.
  intros H. assert (E : In c (map N.of_nat (seq 0 8))).
  { apply in_map_iff. exists (N.to_nat c). split; [apply N2Nat.id|]. apply in_seq. lia. }
  cbn in E. intuition; subst; vm_compute; repeat split; reflexivity.
Qed.

(* the record as the box holds it: trailing fields only when they are written *)
Definition avcc_fields_ok (p cf bl bc ne : N) (nt : bool) : Prop :=
  if avc_plain p then cf = 0 /\ bl = 0 /\ bc = 0 /\ ne = 0 /\ nt = false
  else if nt then cf = 0 /\ bl = 0 /\ bc = 0 /\ ne = 0
  else cf < 4 /\ bl < 8 /\ bc < 8 /\ ne = 0.

Lemma avcc_rec_pp p c l sps pps cf bl bc ne nt b :
  p < 256 -> c < 256 -> l < 256 -> lenN sps < 32 -> lenN pps < 256 -> Forall nalu16 sps -> Forall nalu16 pps ->
  avcc_fields_ok p cf bl bc ne nt ->
  body_leaf (LAvcC p c l sps pps cf bl bc ne nt) (dflt_rsv (LAvcC p c l sps pps cf bl bc ne nt)) = Ok b ->
  avcc_rec b = Ok ((LAvcC p c l sps pps cf bl bc ne nt, [[63]; [7]; [63]; [31]; [31]]), []).
Proof.
  intros Hp Hc Hl Hs Hq Fs Fp Hok Hb. cbn [body_leaf dflt_rsv chunk nth hd] in Hb. getb Hb.
  destruct (b5_mod (lenN sps) Hs) as (B1 & B2 & B3).
  unfold avcc_rec, pbind, pret, pfail. rewrite <- ?app_assoc.
  rewrite rd1 by lia. change (negb (1 =? 1)) with false. cbv beta iota.
  rewrite !rd1 by (try assumption; vm_compute; reflexivity).
  change (N.lor 3 (63 * 4) mod 4 =? 3) with true. cbn [negb]. cbv beta iota.
  rewrite rd1 by exact B3. rewrite B1.
  rewrite (rd_many_forall rd_nalu wr_nalu nalu16 rd_nalu_wr sps) by (try assumption; unfold lenN in Hs; lia).
  rewrite rd1 by assumption.
  rewrite (rd_many_forall rd_nalu wr_nalu nalu16 rd_nalu_wr pps) by (try assumption; unfold lenN in Hq; lia).
  change (N.lor 3 (63 * 4) / 4) with 63. rewrite B2.
  unfold avcc_fields_ok in Hok. destruct (avc_plain p) eqn:Epl.
  - destruct Hok as (-> & -> & -> & -> & ->). cbn [orb app]. reflexivity.
  - destruct nt.
    + destruct Hok as (-> & -> & -> & ->). cbn [orb app]. reflexivity.
    + destruct Hok as (H1 & H2 & H3 & ->). cbn [orb]. rewrite app_nil_r.
      destruct (tr4 cf H1) as (T1 & T2 & T3). destruct (tr8 bl H2) as (U1 & U2 & U3). destruct (tr8 bc H3) as (V1 & V2 & V3).
      assert (Hne : be_enc 1 (N.lor (63 * 4) cf) ++ be_enc 1 (N.lor (31 * 8) bl) ++ be_enc 1 (N.lor (31 * 8) bc) ++ be_enc 1 0 <> []).
      { intros E. apply (f_equal (@length N)) in E. rewrite !app_length, !length_be_enc in E. discriminate. }
      destruct (be_enc 1 (N.lor (63 * 4) cf) ++ be_enc 1 (N.lor (31 * 8) bl) ++ be_enc 1 (N.lor (31 * 8) bc) ++ be_enc 1 0) eqn:Et; [congruence|].
      rewrite <- Et. rewrite <- (app_nil_r (be_enc 1 0)).
      rewrite rd1 by exact T3. rewrite rd1 by exact U3. rewrite rd1 by exact V3. rewrite rd1 by lia.
      change (negb (0 =? 0)) with false. cbv iota. rewrite T1, T2, U1, U2, V1, V2. reflexivity.
Qed.

Lemma lpp_avcC p c l sps pps cf bl bc ne nt :
  p < 256 -> c < 256 -> l < 256 -> lenN sps < 32 -> lenN pps < 256 -> Forall nalu16 sps -> Forall nalu16 pps ->
  avcc_fields_ok p cf bl bc ne nt ->
  leaf_pp dec_avcC (LAvcC p c l sps pps cf bl bc ne nt).
Proof.
  intros Hp Hc Hl Hs Hq Fs Fp Hok.
  assert (Hsz : forall b, body_leaf (LAvcC p c l sps pps cf bl bc ne nt) (dflt_rsv (LAvcC p c l sps pps cf bl bc ne nt)) = Ok b ->
                          lenN b + 8 = size_leaf (LAvcC p c l sps pps cf bl bc ne nt)).
  { intros b Hb. cbn [body_leaf dflt_rsv chunk nth hd] in Hb. getb Hb. cbn [size_leaf].
    rewrite !lenN_app, !lenN_nalus, !lenN_be_enc. cbn [N.of_nat Pos.of_succ_nat Pos.succ].
    unfold avcc_fields_ok in Hok. destruct (avc_plain p); cbn [orb]; [change (lenN (@nil N)) with 0; lia|].
    destruct nt; [change (lenN (@nil N)) with 0; lia|]. rewrite !lenN_app, !lenN_be_enc. cbn [N.of_nat Pos.of_succ_nat Pos.succ].
    change (lenN (@nil N)) with 0. lia. }
  eexists. split; [reflexivity|]. split; [apply Hsz; reflexivity|].
  intros r2. unfold dec_avcC, pbind, payload_len. cbn [h_size h_len hdr8].
  match goal with |- context [rdB _ (?b ++ r2)] => replace (size_leaf (LAvcC p c l sps pps cf bl bc ne nt) - 8) with (lenN b)
      by (pose proof (Hsz b eq_refl); lia) end.
  rewrite rdB_app by reflexivity.
  rewrite (avcc_rec_pp p c l sps pps cf bl bc ne nt) by (try assumption; reflexivity). reflexivity.
Qed.

(* ---- hvcC (C01's typed leaf) *)
Definition narr_ok (a : N * list (list N)) : Prop := fst a < 256 /\ lenN (snd a) < 65536 /\ Forall nalu16 (snd a).

Lemma length_nalus l r : (length l <= length (flat_map wr_nalu l ++ r))%nat.
Proof.
  induction l as [|a l IH]; [cbn; lia|]. cbn [flat_map length]. unfold wr_nalu at 1.
  rewrite <- !app_assoc, !app_length, length_be_enc. rewrite app_length in IH. lia.
Qed.

Lemma rd_narr_wr a r : narr_ok a -> rd_narr (wr_narr a ++ r) = Ok (a, r).
Proof.
  intros (H1 & H2 & H3). destruct a as [ct nalus]. cbn [fst snd] in *.
  unfold rd_narr, wr_narr, pbind, pret. cbn [fst snd]. rewrite <- !app_assoc.
  rewrite rd1 by exact H1. rewrite rd2 by exact H2.
  rewrite (rd_many_forall rd_nalu wr_nalu nalu16 rd_nalu_wr nalus) by (try assumption; pose proof (length_nalus nalus r); lia).
  reflexivity.
Qed.

Lemma lenN_narrs l : lenN (flat_map wr_narr l) = sumN (map (fun a => 3 + sumN (map (fun x => 2 + lenN x) (snd a))) l).
Proof.
  induction l as [|a l IH]; [reflexivity|]. cbn [flat_map map sumN]. rewrite lenN_app, IH. unfold wr_narr.
  rewrite !lenN_app, !lenN_be_enc, lenN_nalus. cbn [N.of_nat Pos.of_succ_nat Pos.succ]. lia.
Qed.

Definition hb1 (sp : N) (tier : bool) (idc : N) : N := N.lor (N.lor (u8 (sp * 64)) (if tier then 32 else 0)) idc.
Definition hb1_check (sp : N) (tier : bool) (idc : N) : bool :=
  let a := hb1 sp tier idc in
  ((a / 64) mod 4 =? sp) && Bool.eqb ((a / 32) mod 2 =? 1) tier && (a mod 32 =? idc) && (a <? 256).
Lemma hb1_all : forallb (fun s => forallb (fun p => hb1_check s true p && hb1_check s false p) (map N.of_nat (seq 0 32)))
                        (map N.of_nat (seq 0 4)) = true.
Proof. vm_compute. reflexivity. Qed.
Lemma in_rng (n : nat) (x : N) : x < N.of_nat n -> In x (map N.of_nat (seq 0 n)).
Proof. intros H. apply in_map_iff. exists (N.to_nat x). split; [apply N2Nat.id|]. apply in_seq. lia. Qed.
Lemma hb1_ok sp tier idc : sp < 4 -> idc < 32 -> hb1_check sp tier idc = true.
Proof.
  intros Hs Hp. pose proof hb1_all as A. rewrite forallb_forall in A.
  specialize (A sp (in_rng 4 sp ltac:(lia))). rewrite forallb_forall in A.
  specialize (A idc (in_rng 32 idc ltac:(lia))). apply andb_true_iff in A. destruct tier; tauto.
Qed.

Definition hb21 (cfr ntl tin : N) : N := N.lor (N.lor (N.lor (u8 (cfr * 64)) (u8 (ntl * 8))) (u8 (tin * 4))) 3.
Definition hb21_check (cfr ntl tin : N) : bool :=
  let b := hb21 cfr ntl tin in
  (b mod 4 =? 3) && ((b / 64) mod 4 =? cfr) && ((b / 8) mod 8 =? ntl) && ((b / 4) mod 2 =? tin) && (b <? 256).
Lemma hb21_all : forallb (fun c => forallb (fun n => forallb (fun t => hb21_check c n t) (map N.of_nat (seq 0 2)))
                                           (map N.of_nat (seq 0 8))) (map N.of_nat (seq 0 4)) = true.
Proof. vm_compute. reflexivity. Qed.
Lemma hb21_ok cfr ntl tin : cfr < 4 -> ntl < 8 -> tin < 2 -> hb21_check cfr ntl tin = true.
Proof.
  intros H1 H2 H3. pose proof hb21_all as A. rewrite forallb_forall in A.
  specialize (A cfr (in_rng 4 cfr ltac:(lia))). rewrite forallb_forall in A.
  specialize (A ntl (in_rng 8 ntl ltac:(lia))). rewrite forallb_forall in A.
  exact (A tin (in_rng 2 tin ltac:(lia))).
Qed.

Lemma mss_ok m : m < 4096 -> N.lor (15 * 4096) m mod 4096 = m /\ N.lor (15 * 4096) m / 4096 = 15 /\ N.lor (15 * 4096) m < 65536.
Proof.
  intros H. change (15 * 4096) with (15 * 2 ^ 12). rewrite lor_shifted_add by (change (2 ^ 12) with 4096; lia).
  change (2 ^ 12) with 4096. repeat split; lia.
Qed.

Lemma hvcc_rec_pp sp tier idc compat cstr lvl mss par chroma bdl bdc afr cfr ntl tin arrays b :
  sp < 4 -> idc < 32 -> compat < 4294967296 -> cstr < 281474976710656 -> lvl < 256 -> mss < 4096 -> par < 4 ->
  chroma < 4 -> bdl < 8 -> bdc < 8 -> afr < 65536 -> cfr < 4 -> ntl < 8 -> tin < 2 ->
  lenN arrays < 256 -> Forall narr_ok arrays ->
  body_leaf (LHvcC sp tier idc compat cstr lvl mss par chroma bdl bdc afr cfr ntl tin arrays)
            (dflt_rsv (LHvcC sp tier idc compat cstr lvl mss par chroma bdl bdc afr cfr ntl tin arrays)) = Ok b ->
  hvcc_rec b = Ok ((LHvcC sp tier idc compat cstr lvl mss par chroma bdl bdc afr cfr ntl tin arrays,
                    [[15]; [63]; [63]; [31]; [31]]), []).
Proof.
  intros H1 H2 H3 H4 H5 H6 H7 H8 H9 H10 H11 H12 H13 H14 H15 Fa Hb.
  cbn [body_leaf dflt_rsv chunk nth hd] in Hb. getb Hb.
  fold (hb1 sp tier idc). fold (hb21 cfr ntl tin).
  pose proof (hb1_ok sp tier idc H1 H2) as B1. pose proof (hb21_ok cfr ntl tin H12 H13 H14) as B21.
  unfold hb1_check in B1. unfold hb21_check in B21. cbv zeta in B1, B21.
  repeat (apply andb_true_iff in B1; let K := fresh "K" in destruct B1 as [B1 K]).
  repeat (apply andb_true_iff in B21; let K := fresh "L" in destruct B21 as [B21 K]).
  repeat match goal with h : (_ =? _) = true |- _ => apply N.eqb_eq in h end.
  repeat match goal with h : (_ <? _) = true |- _ => apply N.ltb_lt in h end.
  match goal with h : Bool.eqb _ _ = true |- _ => apply Bool.eqb_prop in h; rename h into Ht end.
  destruct (mss_ok mss H6) as (M1 & M2 & M3).
  destruct (tr4 par H7) as (P1 & P2 & P3). destruct (tr4 chroma H8) as (C1 & C2 & C3).
  destruct (tr8 bdl H9) as (D1 & D2 & D3). destruct (tr8 bdc H10) as (E1 & E2 & E3).
  unfold hvcc_rec, pbind, pret, pfail. rewrite <- ?app_assoc. rewrite app_nil_r.
  rewrite rd1 by lia. change (negb (1 =? 1)) with false. cbv beta iota.
  rewrite rd1 by assumption. rewrite rd4 by assumption.
  rewrite (rd_be 6 cstr) by (change (256 ^ N.of_nat 6) with 281474976710656; assumption).
  rewrite rd1 by assumption. rewrite rd2 by assumption.
  rewrite rd1 by assumption. rewrite rd1 by assumption. rewrite rd1 by assumption. rewrite rd1 by assumption.
  rewrite rd2 by assumption. rewrite rd1 by assumption.
  rewrite B21. change (negb (3 =? 3)) with false. cbv beta iota.
  rewrite rd1 by assumption.
  rewrite <- (app_nil_r (flat_map wr_narr arrays)).
  rewrite (rd_many_forall rd_narr wr_narr narr_ok rd_narr_wr arrays) by (try assumption; unfold lenN in H15; lia).
  rewrite B1, Ht, M1, M2, P1, P2, C1, C2, D1, D2, E1, E2.
  repeat match goal with h : _ mod _ = _ |- _ => rewrite h end. reflexivity.
Qed.

Lemma lpp_hvcC sp tier idc compat cstr lvl mss par chroma bdl bdc afr cfr ntl tin arrays :
  sp < 4 -> idc < 32 -> compat < 4294967296 -> cstr < 281474976710656 -> lvl < 256 -> mss < 4096 -> par < 4 ->
  chroma < 4 -> bdl < 8 -> bdc < 8 -> afr < 65536 -> cfr < 4 -> ntl < 8 -> tin < 2 ->
  lenN arrays < 256 -> Forall narr_ok arrays ->
  leaf_pp dec_hvcC (LHvcC sp tier idc compat cstr lvl mss par chroma bdl bdc afr cfr ntl tin arrays).
Proof.
  intros H1 H2 H3 H4 H5 H6 H7 H8 H9 H10 H11 H12 H13 H14 H15 Fa.
  set (L := LHvcC sp tier idc compat cstr lvl mss par chroma bdl bdc afr cfr ntl tin arrays).
  assert (Hsz : forall b, body_leaf L (dflt_rsv L) = Ok b -> lenN b + 8 = size_leaf L).
  { intros b Hb. subst L. cbn [body_leaf dflt_rsv chunk nth hd] in Hb. getb Hb. cbn [size_leaf].
    rewrite !lenN_app, lenN_narrs, !lenN_be_enc. cbn [N.of_nat Pos.of_succ_nat Pos.succ].
    change (lenN (@nil N)) with 0. lia. }
  eexists. split; [reflexivity|]. split; [apply Hsz; reflexivity|].
  intros r2. unfold dec_hvcC, pbind, payload_len. cbn [h_size h_len hdr8].
  match goal with |- context [rdB _ (?b ++ r2)] => replace (size_leaf L - 8) with (lenN b)
      by (pose proof (Hsz b eq_refl); lia) end.
  rewrite rdB_app by reflexivity. subst L.
  rewrite (hvcc_rec_pp sp tier idc compat cstr lvl mss par chroma bdl bdc afr cfr ntl tin arrays) by (try assumption; reflexivity).
  reflexivity.
Qed.

(* ---- elng (full box: version/flags 0, language of two or more non-NUL bytes) *)
Lemma zt_lang lang r : Forall (fun c => c <> 0) lang -> zt (lang ++ 0 :: r) (lenN lang + 1) = Ok (lang, r).
Proof.
  induction lang as [|c lang IH]; intros H.
  - cbn [app zt]. change (lenN (@nil N) + 1 =? 0) with false. cbv iota. rewrite N.eqb_refl. reflexivity.
  - inversion H; subst. cbn [app zt]. rewrite lenN_cons.
    replace (1 + lenN lang + 1 =? 0) with false by (symmetry; apply N.eqb_neq; lia).
    replace (c =? 0) with false by (symmetry; apply N.eqb_neq; assumption).
    replace (1 + lenN lang + 1 - 1) with (lenN lang + 1) by lia. rewrite IH by assumption. reflexivity.
Qed.

Lemma lpp_elng lang : 2 <= lenN lang -> Forall (fun c => c <> 0) lang -> leaf_pp dec_elng (LElng false 0 0 lang).
Proof.
  intros Hl Hn. start_pp.
  - cbn [dflt_rsv chunk nth size_leaf]. lens. change (lenN [0]) with 1. lia.
  - intros r2. cbn [dflt_rsv chunk nth]. unfold dec_elng, pbind, pret, pfail, payload_len, rd_zt. cbn [h_size h_len hdr8 size_leaf].
    replace (8 + 4 + lenN lang + 1 - 0 - 8 <? 7) with false by (symmetry; apply N.ltb_ge; lia).
    change (N.lor (u32 (0 * 16777216)) 0) with 0. rewrite <- !app_assoc. rewrite rd4 by lia.
    change (negb (0 =? 0)) with false. cbv beta iota.
    replace (8 + 4 + lenN lang + 1 - 0 - 8 - 4) with (lenN lang + 1) by lia.
    cbn [app]. rewrite zt_lang by assumption. reflexivity.
Qed.
