(* C19LeafPPProofs.v — leaf_pp / pre_pp (C19PrintParseProofs) for every leaf kind that occurs in an init segment
   built through the API, for all in-range field values. *)
From V.lib Require Import Base.
From V.c01 Require Import C01Codec C01Model.
From V.c19 Require Import C19Model C19TreeModel C19LeafProofs C19PrintParseProofs.

Ltac lens := rewrite ?lenN_app, ?lenN_be_enc, ?lenN_zeros; cbn [N.of_nat Pos.of_succ_nat Pos.succ]; try lia.

Ltac start_pp :=
  eexists; split; [reflexivity|]; split.

(* ---- leaves proved in C19LeafProofs, packaged *)
Lemma lpp_mvhd f ts du rate vol nt :
  f < 16777216 -> ts < 4294967296 -> du < 4294967296 -> rate < 4294967296 -> vol < 65536 -> nt < 4294967296 ->
  leaf_pp dec_mvhd (LMvhd 0 f 0 0 ts du rate vol nt).
Proof.
  intros. start_pp.
  - cbn [dflt_rsv chunk nth N.eqb size_leaf]. lens. change (lenN unity_matrix) with 36. lia.
  - intros r2. apply pp_mvhd; try assumption. reflexivity.
Qed.

Lemma lpp_trex f tid dsdi dur sz sf :
  f < 16777216 -> tid < 4294967296 -> dsdi < 4294967296 -> dur < 4294967296 -> sz < 4294967296 -> sf < 4294967296 ->
  leaf_pp dec_trex (LTrex 0 f tid dsdi dur sz sf).
Proof.
  intros. start_pp.
  - cbn [size_leaf]. lens.
  - intros r2. apply pp_trex; try assumption. reflexivity.
Qed.

Lemma lpp_tkhd f tid du layer ag vol wd ht :
  f < 16777216 -> tid < 4294967296 -> du < 4294967296 -> layer < 65536 -> ag < 65536 -> vol < 65536 ->
  wd < 4294967296 -> ht < 4294967296 ->
  leaf_pp dec_tkhd (LTkhd 0 f 0 0 tid du layer ag vol wd ht).
Proof.
  intros. start_pp.
  - cbn [dflt_rsv chunk nth N.eqb size_leaf]. lens. change (lenN unity_matrix) with 36. lia.
  - intros r2. apply pp_tkhd; try assumption. reflexivity.
Qed.

Lemma lpp_mdhd f ts du lang :
  f < 16777216 -> ts < 4294967296 -> du < 4294967296 -> lang < 65536 ->
  leaf_pp dec_mdhd (LMdhd 0 f 0 0 ts du lang).
Proof.
  intros. start_pp.
  - cbn [dflt_rsv chunk nth N.eqb size_leaf]. lens.
  - intros r2. apply pp_mdhd; try assumption. reflexivity.
Qed.

Lemma ppp_stsd f cnt : f < 16777216 -> cnt < 4294967296 -> pre_pp dec_stsd (LStsd 0 f cnt).
Proof.
  intros. start_pp.
  - cbn [size_leaf]. lens.
  - intros sz r2. apply pp_stsd; try assumption. reflexivity.
Qed.

Lemma ppp_dref f cnt : f < 16777216 -> cnt < 4294967296 -> pre_pp dec_dref (LDref 0 f cnt).
Proof.
  intros Hf Hc. start_pp.
  - cbn [size_leaf]. lens.
  - intros sz r2. destruct (vf0 f Hf) as (J & V & F). rewrite J. rewrite <- !app_assoc.
    unfold dec_dref, pbind, pret. pp. rewrite V, F. reflexivity.
Qed.

Lemma ppp_visual name dri w ht hres vres fc cn :
  dri < 65536 -> w < 65536 -> ht < 65536 -> hres < 4294967296 -> vres < 4294967296 -> fc < 65536 -> lenN cn <= 31 ->
  pre_pp dec_visual (LVisual name dri w ht hres vres fc cn).
Proof.
  intros. start_pp.
  - cbn [dflt_rsv chunk nth size_leaf]. lens.
    assert (Hp : vis_pad (lenN cn) = 31 - lenN cn) by (unfold vis_pad, u8; lia).
    rewrite N2Nat.id, Hp. change (lenN [0; 24]) with 2. change (lenN [255; 255]) with 2. lia.
  - intros sz r2. apply pp_visual; try assumption. reflexivity.
Qed.

Lemma ppp_audio name dri ch ss sr :
  dri < 65536 -> ch < 65536 -> ss < 65536 -> sr < 65536 -> pre_pp dec_audio (LAudio name dri ch ss sr).
Proof.
  intros. start_pp.
  - cbn [dflt_rsv chunk nth size_leaf]. lens.
  - intros sz r2. apply pp_audio; try assumption. reflexivity.
Qed.

(* ---- the remaining leaf kinds *)
Lemma lpp_vmhd f m c0 c1 c2 :
  f < 16777216 -> m < 65536 -> c0 < 65536 -> c1 < 65536 -> c2 < 65536 -> leaf_pp dec_vmhd (LVmhd 0 f m c0 c1 c2).
Proof.
  intros Hf ? ? ? ?. start_pp.
  - cbn [size_leaf]. lens.
  - intros r2. destruct (vf0 f Hf) as (J & V & F). rewrite J. rewrite <- !app_assoc.
    unfold dec_vmhd, pbind, pret. pp. rewrite V, F. reflexivity.
Qed.

Lemma lpp_smhd f b : f < 16777216 -> b < 65536 -> leaf_pp dec_smhd (LSmhd 0 f b).
Proof.
  intros Hf ?. start_pp.
  - cbn [dflt_rsv chunk nth size_leaf]. lens.
  - intros r2. cbn [dflt_rsv chunk nth]. hide_chunks. destruct (vf0 f Hf) as (J & V & F). rewrite J. rewrite <- !app_assoc.
    unfold dec_smhd, pbind, pret. pp. rewrite V, F. reflexivity.
Qed.

Lemma lpp_fullonly name f : f < 16777216 -> leaf_pp dec_fullonly (LFullOnly name 0 f).
Proof.
  intros Hf. start_pp.
  - cbn [size_leaf]. lens.
  - intros r2. destruct (vf0 f Hf) as (J & V & F). rewrite J.
    unfold dec_fullonly, pbind, pret. pp. rewrite V, F. reflexivity.
Qed.

(* url without location (CreateURLBox) *)
Lemma lpp_url f : f < 16777216 -> leaf_pp dec_url (LUrl 0 f [] true false).
Proof.
  intros Hf. start_pp.
  - cbn [size_leaf]. cbv iota. rewrite app_nil_r. lens.
  - intros r2. destruct (vf0 f Hf) as (J & V & F). rewrite J. cbv iota. rewrite app_nil_r.
    unfold dec_url, pbind, pret. pp. rewrite V, F. reflexivity.
Qed.

(* empty sample tables *)
Lemma lpp_stts f : f < 16777216 -> leaf_pp dec_stts (LStts 0 f []).
Proof.
  intros Hf. start_pp.
  - vm_compute. reflexivity.
  - intros r2. destruct (vf0 f Hf) as (J & V & F). rewrite J. cbn [lenN length N.of_nat flat_map]. rewrite app_nil_r, <- !app_assoc.
    unfold dec_stts, pbind, pret, pfail. pp. cbn [h_size hdr8 size_leaf lenN length N.of_nat].
    change (u32 0) with 0. cbn [N.mul N.add N.eqb Pos.eqb negb rd_many]. rewrite V, F. reflexivity.
Qed.

Lemma lpp_stsc f : f < 16777216 -> leaf_pp dec_stsc (LStsc 0 f [] 0 []).
Proof.
  intros Hf. start_pp.
  - vm_compute. reflexivity.
  - intros r2. destruct (vf0 f Hf) as (J & V & F). rewrite J. cbn [lenN length N.of_nat wr_stsc]. rewrite app_nil_r, <- !app_assoc.
    unfold dec_stsc, pbind, pret, pfail. pp. cbn [h_size hdr8 size_leaf lenN length N.of_nat].
    cbn [N.mul N.add N.eqb Pos.eqb negb rd_many map stsc_ids]. rewrite V, F. reflexivity.
Qed.

Lemma lpp_stsz f : f < 16777216 -> leaf_pp dec_stsz (LStsz 0 f 0 0 []).
Proof.
  intros Hf. start_pp.
  - vm_compute. reflexivity.
  - intros r2. destruct (vf0 f Hf) as (J & V & F). rewrite J. cbn [N.ltb N.compare flat_map]. rewrite ?app_nil_r, <- ?app_assoc.
    unfold dec_stsz, pbind, pret, pfail. pp. cbn [h_size hdr8 size_leaf N.ltb N.compare].
    cbn [N.mul N.add N.eqb Pos.eqb negb rd_many]. rewrite V, F. reflexivity.
Qed.

Lemma lpp_tab name f : f < 16777216 -> leaf_pp (dec_tab 4) (LTab name 4 0 f []).
Proof.
  intros Hf. start_pp.
  - vm_compute. reflexivity.
  - intros r2. destruct (vf0 f Hf) as (J & V & F). rewrite J. cbn [lenN length N.of_nat flat_map]. rewrite app_nil_r, <- !app_assoc.
    unfold dec_tab, pbind, pret, pfail. pp. cbn [h_size h_name hdr8 size_leaf lenN length N.of_nat leaf_name].
    change (u32 0) with 0. cbn [N.mul N.add N.eqb Pos.eqb negb rd_many]. rewrite V, F. reflexivity.
Qed.

Lemma lpp_ftyp name data : 8 <= lenN data -> leaf_pp dec_ftyp (LFtyp name data).
Proof.
  intros Hd. start_pp.
  - cbn [size_leaf]. lia.
  - intros r2. unfold dec_ftyp, pbind, pret, pfail, payload_len. cbn [h_size h_len hdr8 size_leaf leaf_name].
    replace (8 + lenN data - 8) with (lenN data) by lia.
    replace (lenN data <? 8) with false by (symmetry; apply N.ltb_ge; lia).
    rewrite rdB_app by reflexivity. reflexivity.
Qed.

(* hdlr with a zero-terminated name (CreateHdlr): any name, 4-byte handler type *)
Lemma last_snoc (l : list N) x d : last (l ++ [x]) d = x.
Proof. induction l as [|a l IH]; [reflexivity|]. cbn [app]. destruct (l ++ [x]) eqn:E; [destruct l; discriminate|]. exact IH. Qed.
Lemma removelast_snoc (l : list N) x : removelast (l ++ [x]) = l.
Proof. apply removelast_last. Qed.

Lemma lpp_hdlr f pd ht name :
  f < 16777216 -> pd < 4294967296 -> lenN ht = 4 -> leaf_pp dec_hdlr (LHdlr 0 f pd ht name false).
Proof.
  intros Hf Hp Hh. start_pp.
  - cbn [dflt_rsv chunk nth size_leaf]. lens. change (lenN [0]) with 1. lia.
  - intros r2. cbn [dflt_rsv chunk nth]. hide_chunks. destruct (vf0 f Hf) as (J & V & F). rewrite J. rewrite <- !app_assoc.
    unfold dec_hdlr, pbind, pret, payload_len. cbn [h_size h_len hdr8 size_leaf].
    pp.
    replace (24 <? 8 + 24 + lenN name + 1 - 0 - 8) with true by (symmetry; apply N.ltb_lt; lia).
    replace (8 + 24 + lenN name + 1 - 0 - 8 - 24) with (lenN (name ++ [0])) by (rewrite lenN_app; change (lenN [0]) with 1; lia).
    rewrite (app_assoc name [0] r2), rdB_app by reflexivity.
    rewrite last_snoc, N.eqb_refl, removelast_snoc, V, F. reflexivity.
Qed.
