(* C19PrintParseProofs.v — print-then-parse through C01's generic box decoder: for every tree built from
   well-formed parts (wf: each leaf prints and parses back, names are dispatched the way the tree says, sizes fit
   32 bits, moov children in a stable order) the bytes of C01's encoder decode, with C01's decode_box, to exactly
   that tree.  This is the converse direction of C01_tree (decode then encode), for constructed trees. *)
From V.lib Require Import Base.
From V.c19 Require Import C19BoxCodec C19BoxModel.
From V.c19 Require Import C19Model C19TreeModel C19LeafProofs.

(* ------------------------------------------------------------------ facts about C01's definitions
   (the same statements exist in coq/c01/C01TreeProofs.v; they are re-proved here so that this file depends on
   C01's DEFINITION files only, which always compile) *)
Lemma header_rt name sz r :
  lenN name = 4 -> 8 <= sz < 4294967296 ->
  dec_hdr (enc_hdr name sz ++ r) = Ok (mkHdr name sz 8, r).
Proof.
  intros Hn [Hlo Hhi]. unfold dec_hdr, enc_hdr, pbind. rewrite <- app_assoc.
  rewrite rd4 by lia. rewrite <- Hn, rdB_app by reflexivity.
  replace (sz =? 1) with false by (symmetry; apply N.eqb_neq; lia).
  replace (sz =? 0) with false by (symmetry; apply N.eqb_neq; lia).
  replace (sz <? 8) with false by (symmetry; apply N.ltb_ge; lia).
  reflexivity.
Qed.

Lemma moov_stable_id {A} (f : A -> bool) cs : forall acc,
  moov_stable_from f acc cs = true -> fold_left (moov_add f) cs acc = acc ++ cs.
Proof.
  induction cs as [|c t IH]; intros acc H; cbn [fold_left moov_stable_from] in *.
  - now rewrite app_nil_r.
  - apply andb_true_iff in H. destruct H as [H1 H2]. apply negb_true_iff in H1.
    unfold moov_add at 2. rewrite H1. rewrite (IH _ H2). now rewrite <- app_assoc.
Qed.

Section MapStable.
  Context {A B : Type} (fa : A -> bool) (g : A -> bool * B) (Hg : forall a, fst (g a) = fa a).
  Lemma last_trak_idx_map cs : forall i acc,
    C19BoxModel.last_trak_idx fst (map g cs) i acc = C19BoxModel.last_trak_idx fa cs i acc.
  Proof.
    induction cs as [|c t IH]; intros i acc; cbn [map C19BoxModel.last_trak_idx]; [reflexivity|].
    now rewrite Hg, IH.
  Qed.
  Lemma moov_cond_map acc c : moov_cond fst (map g acc) (g c) = moov_cond fa acc c.
  Proof. unfold moov_cond. now rewrite Hg, last_trak_idx_map, map_length. Qed.
  Lemma moov_stable_map cs : forall acc,
    moov_stable_from fst (map g acc) (map g cs) = moov_stable_from fa acc cs.
  Proof.
    induction cs as [|c t IH]; intros acc; cbn [map moov_stable_from]; [reflexivity|].
    rewrite moov_cond_map. f_equal. rewrite <- IH. now rewrite map_app.
  Qed.
End MapStable.

Definition genc (keep : bool) (c : mbox) : bool * res (list N) := (is_trak_box c, raw_box keep c).
Definition cat_encs (l : list (bool * res (list N))) : res (list N) :=
  fold_right (fun e acc => rcat (snd e) acc) (Ok []) l.

Lemma raw_box_cont keep h cs :
  raw_box keep (MCont h cs) =
  (let encs := map (genc keep) cs in
   let encs' := if bytes_eqb (h_name h) n_moov then moov_order fst encs else encs in
   let all := rcat (Ok (enc_hdr (h_name h) (8 + sumN (map size_box cs)))) (cat_encs encs') in
   if bytes_eqb (h_name h) n_moof then
     match moof_pre cs with Ok _ => all | Err => Err | Panic => Panic | OutOfFuel => OutOfFuel end
   else all).
Proof. reflexivity. Qed.

Lemma pre_body_cat keep cs :
  fold_right (fun c acc => rcat (raw_box keep c) acc) (Ok []) cs = cat_encs (map (genc keep) cs).
Proof. induction cs as [|c t IH]; [reflexivity|]. cbn [fold_right map cat_encs genc snd]. now rewrite IH. Qed.

Lemma raw_box_pre keep h l r cs :
  raw_box keep (MPre h l r cs) =
  rcat (Ok (enc_hdr (leaf_name l) (size_leaf l + sumN (map size_box cs))))
       (rcat (body_leaf l (if keep then r else dflt_rsv l)) (cat_encs (map (genc keep) cs))).
Proof. cbn [raw_box]. now rewrite pre_body_cat. Qed.

(* a leaf prints and parses back (under the header the encoder writes) *)
Definition leaf_pp (d : hdr -> parser (leaf * rsvT)) (l : leaf) : Prop :=
  exists b, body_leaf l (dflt_rsv l) = Ok b /\ lenN b + 8 = size_leaf l
    /\ forall r2, d (hdr8 (leaf_name l) (size_leaf l)) (b ++ r2) = Ok ((l, dflt_rsv l), r2).
(* the prefix of stsd / dref / sample entries: the header's size also covers the children *)
Definition pre_pp (d : hdr -> parser (leaf * rsvT)) (l : leaf) : Prop :=
  exists b, body_leaf l (dflt_rsv l) = Ok b /\ lenN b + 8 = size_leaf l
    /\ forall sz r2, d (hdr8 (leaf_name l) sz) (b ++ r2) = Ok ((l, dflt_rsv l), r2).

Inductive wf : mbox -> Prop :=
| wf_leaf l d :
    lookup (leaf_name l) leaf_table = Some d -> lenN (leaf_name l) = 4 -> leaf_large l = false ->
    size_leaf l < 4294967296 -> leaf_pp d l -> wf (leafb l)
| wf_cont name cs :
    lenN name = 4 -> lookup name leaf_table = None -> lookup name pre_table = None -> is_cont name = true ->
    bytes_eqb name n_moof = false -> bytes_eqb name n_edts = false ->
    (bytes_eqb name n_moov = true -> moov_stable_from is_trak_box [] cs = true) ->
    8 + sumN (map size_box cs) < 4294967296 -> Forall wf cs -> wf (contb name cs)
| wf_unk name p :
    lenN name = 4 -> lookup name leaf_table = None -> lookup name pre_table = None -> is_cont name = false ->
    8 + lenN p < 4294967296 -> wf (unkb name p)
| wf_pre l d lk cs :
    lookup (leaf_name l) leaf_table = None -> lookup (leaf_name l) pre_table = Some (d, lk) ->
    lenN (leaf_name l) = 4 -> pre_pp d l ->
    match lk with
    | PStrict off => size_leaf l = off /\ pre_count_ok l (lenN cs) = true
    | PEntry start => size_leaf l = start
    end ->
    size_leaf l + sumN (map size_box cs) < 4294967296 -> Forall wf cs -> wf (preb l cs).

(* fuel that is enough for decode_box *)
Fixpoint maxl (l : list nat) : nat := match l with [] => O | x :: r => Nat.max x (maxl r) end.
Fixpoint fuel_of (t : mbox) : nat :=
  match t with
  | MLeaf _ _ _ => 1
  | MUnknown _ _ => 1
  | MCont _ cs => S (S (length cs + maxl (map fuel_of cs)))
  | MPre _ _ _ cs => S (S (length cs + maxl (map fuel_of cs)))
  end.
Definition fuel_cs (cs : list mbox) : nat := S (length cs + maxl (map fuel_of cs)).

(* the statement for one box *)
Definition pp_stmt (t : mbox) : Prop :=
  exists enc, raw_box false t = Ok enc /\ lenN enc = size_box t /\ 8 <= size_box t /\
    forall f r2, (fuel_of t <= f)%nat -> decode_box f (enc ++ r2) = Ok (t, r2).

Lemma cat_children cs : Forall pp_stmt cs ->
  exists enc, cat_encs (map (genc false) cs) = Ok enc /\ lenN enc = sumN (map size_box cs)
    /\ (forall f target pos r2, (fuel_cs cs <= f)%nat -> target = pos + sumN (map size_box cs) ->
          decode_children f target pos pos (enc ++ r2) = Ok (cs, r2))
    /\ (forall f target pos r2, (fuel_cs cs <= f)%nat -> target = pos + sumN (map size_box cs) ->
          decode_entries f target pos (enc ++ r2) = Ok (cs, r2)).
Proof.
  induction 1 as [|c cs Hc _ IH].
  - exists []. cbn [map cat_encs fold_right sumN]. split; [reflexivity|]. split; [reflexivity|]. split.
    + intros f target pos r2 Hf ->. destruct f as [|f]; [unfold fuel_cs in Hf; cbn in Hf; lia|].
      cbn [decode_children app]. rewrite N.add_0_r. rewrite N.ltb_irrefl, N.eqb_refl. reflexivity.
    + intros f target pos r2 Hf ->. destruct f as [|f]; [unfold fuel_cs in Hf; cbn in Hf; lia|].
      cbn [decode_entries app]. rewrite N.add_0_r. rewrite N.leb_refl. reflexivity.
  - destruct Hc as (e1 & He1 & Hl1 & Hs1 & Hd1). destruct IH as (e2 & He2 & Hl2 & Hc2 & Hn2).
    exists (e1 ++ e2). cbn [map cat_encs fold_right genc snd sumN]. fold (cat_encs (map (genc false) cs)).
    rewrite He1, He2. cbn [rcat]. split; [reflexivity|]. split; [rewrite lenN_app; lia|].
    assert (Hfu : forall f, (fuel_cs (c :: cs) <= f)%nat -> exists f', f = S f' /\ (fuel_of c <= f')%nat /\ (fuel_cs cs <= f')%nat).
    { intros f Hf. unfold fuel_cs in *. cbn [length map maxl] in Hf. destruct f as [|f']; [lia|]. exists f'. repeat split; lia. }
    split.
    + intros f target pos r2 Hf ->. destruct (Hfu f Hf) as (f' & -> & Hf1 & Hf2).
      cbn [decode_children].
      replace (pos + (size_box c + sumN (map size_box cs)) <? pos) with false by (symmetry; apply N.ltb_ge; lia).
      replace (pos =? pos + (size_box c + sumN (map size_box cs))) with false by (symmetry; apply N.eqb_neq; lia).
      rewrite <- app_assoc, (Hd1 f' (e2 ++ r2) Hf1).
      replace (lenN (e1 ++ e2 ++ r2) - lenN (e2 ++ r2)) with (size_box c) by (rewrite !lenN_app; lia).
      rewrite N.eqb_refl. cbn [negb].
      rewrite (Hc2 f' (pos + (size_box c + sumN (map size_box cs))) (pos + size_box c) r2 Hf2) by lia. reflexivity.
    + intros f target pos r2 Hf ->. destruct (Hfu f Hf) as (f' & -> & Hf1 & Hf2).
      cbn [decode_entries].
      replace (pos + (size_box c + sumN (map size_box cs)) <=? pos) with false by (symmetry; apply N.leb_gt; lia).
      rewrite <- app_assoc, (Hd1 f' (e2 ++ r2) Hf1).
      rewrite (Hn2 f' (pos + (size_box c + sumN (map size_box cs))) (pos + size_box c) r2 Hf2) by lia. reflexivity.
Qed.

Lemma moov_order_id cs : moov_stable_from is_trak_box [] cs = true ->
  moov_order fst (map (genc false) cs) = map (genc false) cs.
Proof.
  intros H. unfold moov_order.
  rewrite (moov_stable_id fst (map (genc false) cs) []); [reflexivity|].
  change (@nil (bool * res (list N))) with (map (genc false) []).
  rewrite (moov_stable_map is_trak_box (genc false) (fun a => eq_refl)). exact H.
Qed.

Lemma sizes_ge8 cs : Forall pp_stmt cs -> 0 <= sumN (map size_box cs).
Proof. intros _. lia. Qed.

Lemma maxl_in (g : mbox -> nat) c cs : In c cs -> (g c <= maxl (map g cs))%nat.
Proof.
  induction cs as [|x cs IH]; intros H; [destruct H|]. cbn [map maxl]. destruct H as [->|H]; [lia|].
  specialize (IH H). lia.
Qed.

Lemma hdr_check name sz (x : list N) : lenN x + 8 = sz ->
  forall r2, ((lenN (x ++ r2) + h_len (mkHdr name sz 8) <? h_size (mkHdr name sz 8)) && negb (bytes_eqb (h_name (mkHdr name sz 8)) n_mdat)) = false.
Proof.
  intros H r2. cbn [h_len h_size h_name]. rewrite lenN_app.
  replace (lenN x + lenN r2 + 8 <? sz) with false by (symmetry; apply N.ltb_ge; lia). reflexivity.
Qed.

Lemma pp_box_n n : forall t, (fuel_of t <= n)%nat -> wf t -> pp_stmt t.
Proof.
  induction n as [|n IHn]; intros t Hn Hw.
  { destruct t; cbn [fuel_of] in Hn; lia. }
  assert (Hkids : forall cs, (S (S (length cs + maxl (map fuel_of cs))) <= S n)%nat -> Forall wf cs -> Forall pp_stmt cs).
  { intros cs Hle Hf. apply Forall_forall. intros c Hin. apply IHn.
    - pose proof (maxl_in fuel_of c cs Hin). lia.
    - exact (proj1 (Forall_forall _ _) Hf c Hin). }
  destruct Hw as [l d Hlk Hnm Hlg Hsz (b & Hb & Hlen & Hpp)
                 |name cs Hnm Hl1 Hl2 Hct Hmoof Hedts Hmoov Hsz Hcs
                 |name p Hnm Hl1 Hl2 Hct Hsz
                 |l d lk cs Hl1 Hl2 Hnm (b & Hb & Hlen & Hpp) Hlk Hsz Hcs].
  - (* leaf *)
    exists (enc_hdr (leaf_name l) (size_leaf l) ++ b). unfold leafb. cbn [raw_box size_box].
    unfold raw_leaf, leaf_hdr. rewrite Hb, Hlg. split; [reflexivity|].
    split; [rewrite lenN_app; unfold enc_hdr; rewrite lenN_app, lenN_be_enc, Hnm; cbn [N.of_nat Pos.of_succ_nat Pos.succ]; lia|].
    split; [lia|].
    intros f r2 Hf. destruct f as [|f]; [cbn [fuel_of] in Hf; lia|].
    cbn [decode_box]. rewrite <- app_assoc, header_rt by (try assumption; lia).
    rewrite (hdr_check _ _ b Hlen r2). cbn [h_name]. rewrite Hlk. unfold hdr8 in Hpp. rewrite Hpp. reflexivity.
  - (* container *)
    cbn [fuel_of] in Hn. pose proof (Hkids cs Hn Hcs) as Hk.
    destruct (cat_children cs Hk) as (enc & He & Hle & Hdc & _).
    exists (enc_hdr name (8 + sumN (map size_box cs)) ++ enc). unfold contb.
    rewrite raw_box_cont. cbn [h_name hdr8 size_box]. rewrite Hmoof.
    assert (Hord : (if bytes_eqb name n_moov then moov_order fst (map (genc false) cs) else map (genc false) cs) = map (genc false) cs).
    { destruct (bytes_eqb name n_moov) eqn:Em; [apply moov_order_id; apply Hmoov; reflexivity|reflexivity]. }
    cbv zeta. rewrite Hord, He. cbn [rcat]. split; [reflexivity|].
    split; [rewrite lenN_app; unfold enc_hdr; rewrite lenN_app, lenN_be_enc, Hnm; cbn [N.of_nat Pos.of_succ_nat Pos.succ]; lia|].
    split; [lia|].
    intros f r2 Hf. destruct f as [|f]; [cbn [fuel_of] in Hf; lia|].
    cbn [decode_box]. rewrite <- app_assoc, header_rt by (try assumption; lia).
    rewrite (hdr_check _ _ enc) by lia. cbn [h_name h_size]. rewrite Hl1, Hl2, Hct.
    replace (8 + sumN (map size_box cs) - 8) with (0 + sumN (map size_box cs)) by lia.
    rewrite (Hdc f (0 + sumN (map size_box cs)) 0 r2) by (try reflexivity; unfold fuel_cs; cbn [fuel_of] in Hf; lia).
    rewrite Hedts. cbn [andb]. reflexivity.
  - (* unknown *)
    exists (enc_hdr name (8 + lenN p) ++ p). unfold unkb, hdr8. cbn [raw_box size_box h_len h_name h_size].
    change (8 <? 8) with false. cbv iota. split; [reflexivity|].
    split; [rewrite lenN_app; unfold enc_hdr; rewrite lenN_app, lenN_be_enc, Hnm; cbn [N.of_nat Pos.of_succ_nat Pos.succ]; lia|].
    split; [lia|].
    intros f r2 Hf. destruct f as [|f]; [cbn [fuel_of] in Hf; lia|].
    cbn [decode_box]. rewrite <- app_assoc, header_rt by (try assumption; lia).
    rewrite (hdr_check _ _ p) by lia. cbn [h_name]. rewrite Hl1, Hl2, Hct.
    unfold payload_len. cbn [h_size h_len]. replace (8 + lenN p - 8) with (lenN p) by lia.
    rewrite rdB_app by reflexivity. reflexivity.
  - (* prefixed container *)
    cbn [fuel_of] in Hn. pose proof (Hkids cs Hn Hcs) as Hk.
    destruct (cat_children cs Hk) as (enc & He & Hle & Hdc & Hde).
    exists (enc_hdr (leaf_name l) (size_leaf l + sumN (map size_box cs)) ++ b ++ enc). unfold preb.
    rewrite raw_box_pre. rewrite Hb, He. cbn [rcat size_box]. split; [reflexivity|].
    split; [rewrite !lenN_app; unfold enc_hdr; rewrite lenN_app, lenN_be_enc, Hnm; cbn [N.of_nat Pos.of_succ_nat Pos.succ]; lia|].
    split; [lia|].
    intros f r2 Hf. destruct f as [|f]; [cbn [fuel_of] in Hf; lia|].
    cbn [decode_box]. rewrite <- !app_assoc, header_rt by (try assumption; lia).
    rewrite (app_assoc b enc r2), (hdr_check _ _ (b ++ enc)) by (rewrite lenN_app; lia).
    rewrite <- app_assoc. cbn [h_name h_size]. rewrite Hl1, Hl2. unfold hdr8 in Hpp. rewrite Hpp.
    destruct lk as [off|start].
    + destruct Hlk as [Hoff Hcnt].
      replace (size_leaf l + sumN (map size_box cs) <? off) with false by (symmetry; apply N.ltb_ge; lia).
      replace (size_leaf l + sumN (map size_box cs) - off) with (0 + sumN (map size_box cs)) by lia.
      rewrite (Hdc f (0 + sumN (map size_box cs)) 0 r2) by (try reflexivity; unfold fuel_cs; cbn [fuel_of] in Hf; lia).
      rewrite Hcnt. reflexivity.
    + rewrite (Hde f (size_leaf l + sumN (map size_box cs)) start r2) by (try (subst start; reflexivity); unfold fuel_cs; cbn [fuel_of] in Hf; lia).
      reflexivity.
Qed.

Lemma pp_box t : wf t -> pp_stmt t.
Proof. intros H. exact (pp_box_n (fuel_of t) t (Nat.le_refl _) H). Qed.
