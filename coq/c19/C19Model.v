(* C19Model.v — executable model of the init-segment building API of mp4ff
   (mp4/initsegment.go, moov.go AddChild, mvex.go AddChild, trex.go CreateTrex, hdlr.go CreateHdlr,
   mdhd.go Set/GetLanguage, elng.go CreateElng, stsd.go AddChild, avcc.go/hvcc.go constructors,
   aac.AudioSpecificConfig.Encode, dac3/dec3 ChannelInfo).  DEFINITIONS ONLY.

   Go strings are byte lists (list N).  Go pointers: Moov.Traks is the heap of traks (append only),
   Moov.Children refers to a trak by its index in that slice, so a Set...Descriptor through
   Moov.Traks[k] is seen through Moov.Children as in Go.
   The SPS parsers (avc.ParseSPSNALUnit / hevc.ParseSPSNALUnit) are function arguments of the model
   (Section variables): the theorems hold for every parser, the correspondence check supplies the
   values the real parsers return. *)
From Coq Require Import String Ascii.
From V.lib Require Import Base.
From V.c13 Require Import C13Model.

Definition str := list N.

Fixpoint B (s : string) : str :=
  match s with
  | EmptyString => []
  | String a t => N_of_ascii a :: B t
  end.

Fixpoint str_eqb (a b : str) : bool :=
  match a, b with
  | [], [] => true
  | x :: a', y :: b' => (x =? y) && str_eqb a' b'
  | _, _ => false
  end.

(* string constants are evaluated at definition time so that Coq's String module is not extracted
   (its OCaml name would shadow Stdlib.String in the shared glue) *)
Notation "'BS' s" := (ltac:(let v := eval vm_compute in (B s) in exact v)) (at level 0, s at level 0, only parsing).

Definition is_one_of (s : str) (l : list str) : bool := existsb (str_eqb s) l.

(* ------------------------------------------------------------------ boxes *)
Inductive mhdr := Vmhd | Smhd | Sthd | Nmhd.

(* avc.DecConfRec as built by CreateAVCDecConfRec: profile/compatibility/level, the parameter sets, and
   ChromaFormat / BitDepthLumaMinus1 / BitDepthChromaMinus1 copied from the parsed SPS (since repo commit 4c725fa;
   before, the constants 1/0/0: finding C19-F5).  NumSPSExt 0 and NoTrailingInfo false are constants. *)
Record avcc := mkAvcC { ac_profile : N; ac_compat : N; ac_level : N; ac_sps : list str; ac_pps : list str;
                        ac_chroma : N; ac_bdl : N; ac_bdc : N }.

(* what the model needs from avc.ParseSPSNALUnit(sps, false):
   (Width, Height, (byte(Profile), byte(ProfileCompatibility), byte(Level),
                    (ChromaFormatIDC, BitDepthLumaMinus8, BitDepthChromaMinus8))) *)
Definition avc_info := (N * N * (N * N * N * (N * N * N)))%type.

(* hevc.DecConfRec as built by CreateHEVCDecConfRec: hc_cfg = the values copied from the parsed SPS
   (profile space, tier, profile idc, compatibility flags, constraint flags, level idc, chroma format,
   bit depth luma-8, bit depth chroma-8), in that order; the remaining fields are constants.
   An array is (completeAndType byte, nalus). *)
Record hvcc := mkHvcC { hc_cfg : list N; hc_arrays : list (N * list str) }.

Inductive dac3 := mkDac3 (fscod bsid bsmod acmod lfeon bitratecode : N).
(* EC3Sub: FSCod BSID ASVC BSMod ACMod LFEOn NumDepSub ChanLoc *)
Inductive ec3sub := mkEc3Sub (fscod bsid asvc bsmod acmod lfeon numdepsub chanloc : N).
Inductive dec3 := mkDec3 (datarate : N) (subs : list ec3sub).

Inductive scfg :=
| CfgAvcC (c : avcc)
| CfgHvcC (c : hvcc)
| CfgEsds (asc : str)        (* esds: ES descriptor with the AudioSpecificConfig bytes as DecConfig *)
| CfgDac3 (d : dac3)
| CfgDec3 (d : dec3)
| CfgVttC (config : str)
| CfgStpp (ns schema mime : str).

(* a sample entry: box name, data reference index, (width,height) or (channels,samplesize,samplerate)
   in se_a/se_b/se_c, child configuration *)
Record sentry := mkSE { se_name : str; se_dref : N; se_a : N; se_b : N; se_c : N; se_cfg : scfg }.

Record trak := mkTrak {
  tk_id : N; tk_volume : N; tk_width : N; tk_height : N;      (* tkhd *)
  md_timescale : N; md_lang : N;                              (* mdhd *)
  hd_type : str; hd_name : str;                               (* hdlr *)
  el_lang : option str;                                       (* elng (child of mdia between hdlr and minf) *)
  mi_hdr : mhdr;                                              (* first child of minf *)
  sd_entries : list sentry                                    (* stsd children; SampleCount = length *)
}.

Inductive mchild := MCmvhd | MCmvex | MCtrak (idx : nat).

Record st := mkSt {
  children : list mchild;     (* Moov.Children *)
  traks : list trak;          (* Moov.Traks *)
  trexs : list N;             (* Mvex.Trexs = Mvex.Children: the track ids of the trex boxes *)
  next_id : N                 (* Mvhd.NextTrackID *)
}.

Inductive outcome := OOk | OErr | OPanic.

(* ------------------------------------------------------------------ CreateEmptyInit *)
(* moov.AddChild(mvhd); moov.AddChild(mvex): both plain appends.  CreateMvhd: NextTrackID 2 *)
Definition empty_init : st := mkSt [MCmvhd; MCmvex] [] [] 2.

(* ------------------------------------------------------------------ MoovBox.AddChild of a trak *)
Definition is_trak (c : mchild) : bool := match c with MCtrak _ => true | _ => false end.

(* lastTrakIdx := 0; for i, child := range m.Children { if child.Type()=="trak" { lastTrakIdx = i } } *)
Fixpoint last_trak_from (i : nat) (cs : list mchild) (acc : nat) : nat :=
  match cs with
  | [] => acc
  | c :: t => last_trak_from (S i) t (if is_trak c then i else acc)
  end.
Definition last_trak_idx (cs : list mchild) : nat := last_trak_from 0 cs 0.

(* append(Children[:i+2], Children[i+1:]...); Children[i+1] = box   ==  insertion at i+1 *)
Definition insert_at {A} (i : nat) (x : A) (l : list A) : list A := firstn i l ++ x :: skipn i l.

Definition moov_add_trak (s : st) (t : trak) : st :=
  let idx := length (traks s) in
  let lti := last_trak_idx (children s) in
  (* Go: len(m.Children)-1 is an int; with lti <> 0 the list is non-empty so nat subtraction agrees *)
  if negb (Nat.eqb lti 0) && negb (Nat.eqb lti (length (children s) - 1)) then
    mkSt (insert_at (S lti) (MCtrak idx) (children s)) (traks s ++ [t]) (trexs s) (next_id s)
  else
    mkSt (children s ++ [MCtrak idx]) (traks s ++ [t]) (trexs s) (next_id s).

(* ------------------------------------------------------------------ CreateHdlr *)
Definition handler_name (h : str) : str := BS "mp4ff " ++ h ++ BS " handler".

Definition create_hdlr (m : str) : option (str * str) :=
  if is_one_of m [BS "video"; BS "vide"] then Some (BS "vide", BS "mp4ff video handler")
  else if is_one_of m [BS "audio"; BS "soun"] then Some (BS "soun", BS "mp4ff audio handler")
  else if is_one_of m [BS "subtitle"; BS "subtitles"; BS "subt"; BS "stpp"] then Some (BS "subt", BS "mp4ff subtitle handler")
  else if is_one_of m [BS "text"; BS "wvtt"] then Some (BS "text", BS "mp4ff text handler")
  else if is_one_of m [BS "meta"] then Some (BS "meta", BS "mp4ff timed metadata handler")
  else if is_one_of m [BS "clcp"] then Some (BS "subt", BS "mp4ff closed captions handler")
  else if Nat.eqb (length m) 4 then Some (m, handler_name m)
  else None.

(* ------------------------------------------------------------------ mdhd language *)
(* for i, c := range lang { l += uint16(((c - 0x60) & 0x1f) << (5 * (2 - i))) }
   ASCII strings only (c < 128: rune = byte, i = byte index).  A shift count 5*(2-i) with i > 2 is negative:
   Go panics; SetLanguage is only called with 3-byte strings here, the model returns None otherwise. *)
Fixpoint set_language_from (i : nat) (lang : str) (l : N) : option N :=
  match lang with
  | [] => Some l
  | c :: t =>
      if Nat.leb i 2 then
        let five := Z.to_N (Z.land (Z.of_N c - 96) 31) in
        set_language_from (S i) t (u16 (l + u16 (N.shiftl five (5 * N.of_nat (2 - i)))))
      else None
  end.
Definition set_language (lang : str) : option N := set_language_from 0 lang 0.

(* GetLanguage: Sprintf("%c%c%c", a+0x60, b+0x60, c+0x60) *)
Definition get_language (l : N) : str :=
  [N.land (N.shiftr l 10) 31 + 96; N.land (N.shiftr l 5) 31 + 96; N.land l 31 + 96].

(* ------------------------------------------------------------------ CreateEmptyTrak *)
Definition media_header (m : str) : mhdr :=
  if is_one_of m [BS "video"] then Vmhd
  else if is_one_of m [BS "audio"] then Smhd
  else if is_one_of m [BS "subtitle"; BS "subtitles"; BS "stpp"] then Sthd
  else if is_one_of m [BS "text"; BS "wvtt"] then Nmhd
  else Nmhd.

Definition create_empty_trak (id ts : N) (m lang : str) : option trak :=
  match create_hdlr m with
  | None => None                                   (* panic("mediaType ... not supported") *)
  | Some (ht, hn) =>
      let vol := if str_eqb m (BS "audio") then 256 else 0 in
      let lang_elng :=
        if Nat.eqb (length lang) 3 then (set_language lang, None)
        else (set_language (BS "und"), Some lang) in
      match fst lang_elng with
      | None => None
      | Some l => Some (mkTrak id vol 0 0 ts l ht hn (snd lang_elng) (media_header m) [])
      end
  end.

(* ------------------------------------------------------------------ AddEmptyTrack *)
Definition add_empty_track (s : st) (ts : N) (m lang : str) : outcome * st :=
  let track_id := u32 (N.of_nat (length (traks s)) + 1) in
  let s1 := mkSt (children s) (traks s) (trexs s) (u32 (track_id + 1)) in
  match create_empty_trak track_id ts m lang with
  | None => (OPanic, s1)
  | Some t =>
      let s2 := moov_add_trak s1 t in
      (OOk, mkSt (children s2) (traks s2) (trexs s2 ++ [track_id]) (next_id s2))
  end.

(* ------------------------------------------------------------------ descriptors *)
Definition stsd_add (t : trak) (e : sentry) : trak :=
  mkTrak (tk_id t) (tk_volume t) (tk_width t) (tk_height t) (md_timescale t) (md_lang t)
         (hd_type t) (hd_name t) (el_lang t) (mi_hdr t) (sd_entries t ++ [e]).

Definition set_tkhd_dims (t : trak) (w h : N) : trak :=
  mkTrak (tk_id t) (tk_volume t) w h (md_timescale t) (md_lang t)
         (hd_type t) (hd_name t) (el_lang t) (mi_hdr t) (sd_entries t).

(* AudioSpecificConfig.Encode via the plain bit writer of C13 (bits.Writer) *)
Definition freq_index (f : N) : option N :=
  if f =? 96000 then Some 0 else if f =? 88200 then Some 1 else if f =? 64000 then Some 2
  else if f =? 48000 then Some 3 else if f =? 44100 then Some 4 else if f =? 32000 then Some 5
  else if f =? 24000 then Some 6 else if f =? 22050 then Some 7 else if f =? 16000 then Some 8
  else if f =? 12000 then Some 9 else if f =? 11025 then Some 10 else if f =? 8000 then Some 11
  else if f =? 7350 then Some 12 else None.

Definition freq_ops (f : N) : list wop :=
  match freq_index f with
  | Some i => [WBits i 4]
  | None => [WBits 15 4; WBits f 24]
  end.

Definition AAClc := 2.
Definition HEAACv1 := 5.
Definition HEAACv2 := 29.

(* frequencies are Go ints >= 0 here; uint(negative) is not modelled *)
Definition asc_encode (objType freq chan extfreq : N) : option str :=
  if (objType =? AAClc) || (objType =? HEAACv1) || (objType =? HEAACv2) then
    let ext := if (objType =? HEAACv1) || (objType =? HEAACv2) then freq_ops extfreq ++ [WBits AAClc 5] else [] in
    Some (wout (run_writer_plain ([WBits objType 5] ++ freq_ops freq ++ [WBits chan 4] ++ ext ++ [WBits 0 3; WFlush])))
  else None.

Definition set_aac (t : trak) (objType freq : N) : outcome * trak :=
  let chan := if objType =? HEAACv2 then 1 else 2 in
  let ext := if (objType =? HEAACv1) || (objType =? HEAACv2) then 2 * freq else 0 in
  match asc_encode objType freq chan ext with
  | None => (OErr, t)
  | Some asc => (OOk, stsd_add t (mkSE (BS "mp4a") 1 chan 16 (u16 freq) (CfgEsds asc)))
  end.

(* AC3acmodChannelTable: number of "/"-separated names per acmod *)
Definition acmod_channels (acmod : N) : option (list str) :=
  match N.to_nat acmod with
  | 0%nat => Some [BS "L"; BS "R"]
  | 1%nat => Some [BS "C"]
  | 2%nat => Some [BS "L"; BS "R"]
  | 3%nat => Some [BS "L"; BS "C"; BS "R"]
  | 4%nat => Some [BS "L"; BS "R"; BS "Cs"]
  | 5%nat => Some [BS "L"; BS "C"; BS "R"; BS "Cs"]
  | 6%nat => Some [BS "L"; BS "R"; BS "Ls"; BS "Rs"]
  | 7%nat => Some [BS "L"; BS "C"; BS "R"; BS "Ls"; BS "Rs"]
  | _ => None
  end.

Definition ac3_rate (fscod : N) : option N :=
  match N.to_nat fscod with 0%nat => Some 48000 | 1%nat => Some 44100 | 2%nat => Some 32000 | _ => None end.

Definition set_ac3 (t : trak) (d : dac3) : outcome * trak :=
  let '(mkDac3 fscod _ _ acmod lfeon _) := d in
  match acmod_channels acmod with
  | None => (OPanic, t)
  | Some sp =>
      let n := N.of_nat (length sp) + (if lfeon =? 1 then 1 else 0) in
      match ac3_rate fscod with
      | None => (OPanic, t)
      | Some r => (OOk, stsd_add t (mkSE (BS "ac-3") 1 (u16 n) 16 (u16 r) (CfgDac3 d)))
      end
  end.

(* EC3ChannelLocationBits: which of the 9 chan_loc bits name a channel pair (contain "/") *)
Definition ec3_loc_is_pair (i : nat) : bool :=
  match i with
  | 0%nat => true   (* Lc/Rc *)
  | 1%nat => true   (* Lrs/Rrs *)
  | 2%nat => false  (* Cs *)
  | 3%nat => false  (* Ts *)
  | 4%nat => true   (* Lsd/Rsd *)
  | 5%nat => true   (* Lw/Rw *)
  | 6%nat => true   (* Lvh/Rvh *)
  | 7%nat => false  (* Cvh *)
  | _ => false      (* LFE2 *)
  end.

Definition ec3_loc_channels (chanloc : N) : N :=
  fold_left (fun acc i => if N.testbit chanloc (N.of_nat i) then acc + (if ec3_loc_is_pair i then 2 else 1) else acc)
            (seq 0 9) 0.

Definition set_ec3 (t : trak) (d : dec3) : outcome * trak :=
  let '(mkDec3 _ subs) := d in
  match subs with
  | [] => (OPanic, t)                                        (* b.EC3Subs[0] *)
  | mkEc3Sub fscod _ _ _ acmod lfeon numdepsub chanloc :: _ =>
      match acmod_channels acmod with
      | None => (OPanic, t)
      | Some sp =>
          let n := N.of_nat (length sp) + (if lfeon =? 1 then 1 else 0)
                   + (if 0 <? numdepsub then ec3_loc_channels chanloc else 0) in
          match ac3_rate fscod with
          | None => (OPanic, t)
          | Some r => (OOk, stsd_add t (mkSE (BS "ec-3") 1 (u16 n) 16 (u16 r) (CfgDec3 d)))
          end
      end
  end.

(* SetWvttDescriptor: NewWvttBox() has DataReferenceIndex 1 (the original text used the literal WvttBox{},
   index 0: repaired in /repo, see known_findings/C19.json C19-F3) *)
Definition wvtt_dref : N := 1.
Definition set_wvtt (t : trak) (config : str) : outcome * trak :=
  let config := match config with [] => BS "WEBVTT" | _ => config end in
  (OOk, stsd_add t (mkSE (BS "wvtt") wvtt_dref 0 0 0 (CfgVttC config))).

Definition set_stpp (t : trak) (ns schema mime : str) : outcome * trak :=
  let ns := match ns with [] => BS "http://www.w3.org/ns/ttml" | _ => ns end in
  (OOk, stsd_add t (mkSE (BS "stpp") 1 0 0 0 (CfgStpp ns schema mime))).

Section Parsers.
  (* avc.ParseSPSNALUnit(sps, false): Some avc_info or None on error *)
  Variable avc_parse : str -> option avc_info.
  (* hevc.ParseSPSNALUnit(sps): Some (ImageSize width, height, cfg values) or None *)
  Variable hevc_parse : str -> option (N * N * list N).

  (* avc.CreateAVCDecConfRec through CreateAvcC *)
  Definition create_avcc (spss ppss : list str) (incl : bool) : option avcc :=
    match spss with
    | [] => None
    | sps0 :: _ =>
        match avc_parse sps0 with
        | None => None
        | Some (_, _, (p, c, l, (cf, bl, bc))) =>
            (* values that do not fit the 2-/3-bit fields of the record are an error *)
            if (3 <? cf) || (7 <? bl) || (7 <? bc) then None
            else Some (if incl then mkAvcC p c l spss ppss cf bl bc else mkAvcC p c l [] [] cf bl bc)
        end
    end.

  Definition set_avc (t : trak) (name : str) (spss ppss : list str) (incl : bool) : outcome * trak :=
    if negb (is_one_of name [BS "avc1"; BS "avc3"]) then (OErr, t)
    else if str_eqb name (BS "avc1") && negb incl then (OErr, t)
    else match spss with
         | [] => (OPanic, t)                                   (* spsNALUs[0] *)
         | sps0 :: _ =>
             match avc_parse sps0 with
             | None => (OErr, t)
             | Some (w, h, _) =>
                 let t1 := set_tkhd_dims t (u32 (w * 65536)) (u32 (h * 65536)) in
                 match create_avcc spss ppss incl with
                 | None => (OErr, t1)
                 | Some c => (OOk, stsd_add t1 (mkSE name 1 (u16 w) (u16 h) 0 (CfgAvcC c)))
                 end
             end
         end.

  (* hevc.CreateHEVCDecConfRec through CreateHvcC; NewNaluArray: complete bit 0x80 | type *)
  Definition nalu_array (complete : bool) (ty : N) (nalus : list str) : N * list str :=
    ((if complete then 128 else 0) + ty, nalus).

  Definition create_hvcc (vpss spss ppss : list str) (complete incl : bool) : option hvcc :=
    match spss with
    | [] => None
    | sps0 :: _ =>
        match hevc_parse sps0 with
        | None => None
        | Some (_, _, cfg) =>
            Some (mkHvcC cfg (if incl then [nalu_array complete 32 vpss; nalu_array complete 33 spss;
                                            nalu_array complete 34 ppss] else []))
        end
    end.

  Definition set_hevc (t : trak) (name : str) (vpss spss ppss seis : list str) (incl : bool) : outcome * trak :=
    if negb (is_one_of name [BS "hvc1"; BS "hev1"]) then (OErr, t)
    else match spss with
         | [] => (OPanic, t)
         | sps0 :: _ =>
             match hevc_parse sps0 with
             | None => (OErr, t)
             | Some (w, h, _) =>
                 let t1 := set_tkhd_dims t (u32 (w * 65536)) (u32 (h * 65536)) in
                 let complete := str_eqb name (BS "hvc1") in
                 if complete && negb incl then (OErr, t1)       (* tkhd already written *)
                 else
                   (* hvcC, err := CreateHvcC(...); if len(sei) > 0 { hvcC.AddNaluArrays } ; if err != nil *)
                   match create_hvcc vpss spss ppss complete incl with
                   | None => match seis with [] => (OErr, t1) | _ => (OPanic, t1) end
                   | Some c =>
                       let c' := match seis with
                                 | [] => c
                                 | _ => mkHvcC (hc_cfg c) (hc_arrays c ++ [nalu_array complete 39 seis])
                                 end in
                       (OOk, stsd_add t1 (mkSE name 1 (u16 w) (u16 h) 0 (CfgHvcC c')))
                   end
             end
         end.

  (* ------------------------------------------------------------------ operations *)
  Inductive desc :=
  | DAvc (name : str) (spss ppss : list str) (incl : bool)
  | DHevc (name : str) (vpss spss ppss seis : list str) (incl : bool)
  | DAac (objType freq : N)
  | DAc3 (d : dac3)
  | DEc3 (d : dec3)
  | DWvtt (config : str)
  | DStpp (ns schema mime : str).

  Inductive op :=
  | AddEmptyTrack (ts : N) (m lang : str)
  | SetDesc (k : nat) (d : desc).           (* init.Moov.Traks[k].Set...Descriptor(...) *)

  Definition set_desc (t : trak) (d : desc) : outcome * trak :=
    match d with
    | DAvc name spss ppss incl => set_avc t name spss ppss incl
    | DHevc name vpss spss ppss seis incl => set_hevc t name vpss spss ppss seis incl
    | DAac o f => set_aac t o f
    | DAc3 d => set_ac3 t d
    | DEc3 d => set_ec3 t d
    | DWvtt c => set_wvtt t c
    | DStpp a b c => set_stpp t a b c
    end.

  Fixpoint replace_nth {A} (k : nat) (x : A) (l : list A) : list A :=
    match l, k with
    | [], _ => []
    | _ :: t, O => x :: t
    | y :: t, S k' => y :: replace_nth k' x t
    end.

  Definition step (s : st) (o : op) : outcome * st :=
    match o with
    | AddEmptyTrack ts m lang => add_empty_track s ts m lang
    | SetDesc k d =>
        match nth_error (traks s) k with
        | None => (OPanic, s)                                  (* index out of range *)
        | Some t =>
            let '(oc, t') := set_desc t d in
            (oc, mkSt (children s) (replace_nth k t' (traks s)) (trexs s) (next_id s))
        end
    end.

  (* a history: stops at the first panic (the harness recovers it and stops too); errors are returned
     to the caller, who goes on.  Result: outcomes in order, final state. *)
  Fixpoint run_from (s : st) (ops : list op) : list outcome * st :=
    match ops with
    | [] => ([], s)
    | o :: rest =>
        let '(oc, s') := step s o in
        match oc with
        | OPanic => ([OPanic], s')
        | _ => let '(ocs, s'') := run_from s' rest in (oc :: ocs, s'')
        end
    end.

  Definition run (ops : list op) : list outcome * st := run_from empty_init ops.
End Parsers.

(* ------------------------------------------------------------------ observables *)
Definition mdia_children (t : trak) : list str :=
  [BS "mdhd"; BS "hdlr"] ++ (match el_lang t with Some _ => [BS "elng"] | None => [] end) ++ [BS "minf"].

Definition mhdr_name (h : mhdr) : str :=
  match h with Vmhd => BS "vmhd" | Smhd => BS "smhd" | Sthd => BS "sthd" | Nmhd => BS "nmhd" end.

(* the box tree CreateEmptyTrak builds (names only), with the sample entries added since *)
Fixpoint join_sp (l : list str) : str :=
  match l with
  | [] => []
  | [x] => x
  | x :: r => x ++ 32 :: join_sp r
  end.
Definition trak_shape (t : trak) : str :=
  BS "trak{tkhd mdia{mdhd hdlr " ++ (match el_lang t with Some _ => BS "elng " | None => [] end)
  ++ BS "minf{" ++ mhdr_name (mi_hdr t) ++ BS " dinf{dref{url }} stbl{stsd{" ++ join_sp (map se_name (sd_entries t))
  ++ BS "} stts stsc stsz stco}}}}".

(* ------------------------------------------------------------------ elng payload (elng.go) *)
(* EncodeSW after the box header: version+flags (missingFullBox is false for CreateElng), language, 0 *)
Definition elng_payload (lang : str) : str := [0; 0; 0; 0] ++ lang ++ [0].

(* FixedSliceReader.ReadZeroTerminatedString(maxLen) on the remaining bytes l: the string before the first
   zero among the first maxLen bytes; None = "did not find terminating zero" (accumulated error) *)
Fixpoint read_zstr (max : nat) (l : str) : option str :=
  match max, l with
  | O, _ => None
  | S _, [] => None
  | S m, c :: r => if c =? 0 then Some [] else match read_zstr m r with Some s => Some (c :: s) | None => None end
  end.

(* DecodeElngSR on a payload: (missingFullBox, language).  With fewer than 7 payload bytes the box is taken
   for the old layout without version/flags and the reader's error is not looked at (string "" on error). *)
Definition elng_decode (pl : str) : res (bool * str) :=
  if Nat.ltb (length pl) 7 then
    Ok (true, match read_zstr (length pl) pl with Some s => s | None => [] end)
  else
    match pl with
    | a :: b :: c :: d :: rest =>
        if (a =? 0) && (b =? 0) && (c =? 0) && (d =? 0) then
          match read_zstr (length pl - 4) rest with
          | Some s => Ok (false, s)
          | None => Err
          end
        else Err
    | _ => Err
    end.

(* ------------------------------------------------------------------ stpp payload (stpp.go), no child boxes *)
(* EncodeSW after the box header for NewStppBox (nrMissingOptionalEndBytes = 0): 6 reserved bytes,
   data reference index, three zero-terminated strings *)
Definition stpp_payload (dref : N) (ns schema mime : str) : str :=
  [0; 0; 0; 0; 0; 0; dref / 256; dref mod 256] ++ ns ++ [0] ++ schema ++ [0] ++ mime ++ [0].

(* DecodeStppSR on a payload: (data reference index, namespace, schema location, auxiliary mime types,
   nrMissingOptionalEndBytes).  A failed string read sets the reader's accumulated error: Err at the end.
   Bytes left after the strings would be decoded as child boxes (btrt): not modelled, Err here. *)
Definition stpp_decode (pl : str) : res (N * str * str * str * nat) :=
  match pl with
  | _ :: _ :: _ :: _ :: _ :: _ :: d1 :: d0 :: rest =>
      let plen := length pl in
      match read_zstr (plen - 8) rest with
      | None => Err
      | Some ns =>
          let rest1 := skipn (S (length ns)) rest in
          let rem1 := (plen - 8 - S (length ns))%nat in
          let r2 := if Nat.ltb 0 rem1
                    then match read_zstr rem1 rest1 with
                         | None => None
                         | Some sc => Some (sc, skipn (S (length sc)) rest1, (rem1 - S (length sc))%nat, 0%nat)
                         end
                    else Some ([], rest1, rem1, 1%nat) in
          match r2 with
          | None => Err
          | Some (sc, rest2, rem2, miss2) =>
              let r3 := if Nat.ltb 0 rem2
                        then match read_zstr rem2 rest2 with
                             | None => None
                             | Some mi => Some (mi, (rem2 - S (length mi))%nat, miss2)
                             end
                        else Some ([], rem2, S miss2) in
              match r3 with
              | None => Err
              | Some (mi, rem3, miss3) =>
                  if Nat.ltb 0 rem3 then Err else Ok (d1 * 256 + d0, ns, sc, mi, miss3)
              end
          end
      end
  | _ => Err      (* SkipBytes / ReadUint16 beyond the end: accumulated error *)
  end.
