(* C19FragProofs.v — "fragments created for its track ids decode against it": composition of C19_roundtrip (the init
   of EVERY history encodes and decodes, in C01's box model, to the tree that was built) with C05's fragment
   theorems (coq/c05, imported read-only: C05_roundtrip_single, C05_roundtrip_single_modes, C05_roundtrip take ANY
   trex).  The link is get_trex: MvexBox.GetTrex on the decoded tree returns, for every track id of the init, the
   trex CreateTrex built (that id, default duration / size / flags 0, sample description index 1). *)
From V.lib Require Import Base.
From V.c19 Require Import C19BoxCodec C19BoxModel.
From V.c19 Require Import C19Model C19Spec C19InvProofs C19RecModel C19TreeModel C19TreeProofs C19RoundtripProofs C19FragModel.
From V.c05 Require C05Model C05FragModel C05HistProofs C05GhostProofs C05ReadProofs C05RoundProofs C05SingleProofs C05Theorems.

Lemma find_trex_built l id :
  In id l -> find (is_trex_for id) (map trex_box l) = Some (trex_box id).
Proof.
  induction l as [|a l IH]; intros Hin; [destruct Hin|].
  cbn [map find]. unfold trex_box at 1, leafb at 1. cbn [is_trex_for].
  destruct (a =? id) eqn:E.
  - apply N.eqb_eq in E. subst. reflexivity.
  - destruct Hin as [->|Hin]; [rewrite N.eqb_refl in E; discriminate|]. apply IH. exact Hin.
Qed.

Lemma get_trex_built s cs id :
  children s = MCmvhd :: MCmvex :: cs -> In id (trexs s) ->
  forall bs, children_boxes s (children s) = Some bs ->
    get_trex [ftyp_box; contb n_moov bs] id = Some (C05Model.mkTrex id 0 0 0)
    /\ get_trex_dsdi [ftyp_box; contb n_moov bs] id = Some 1.
Proof.
  intros Hc Hin bs. rewrite Hc. cbn [children_boxes child_box].
  destruct (children_boxes s cs) as [rest|]; [|discriminate]. intros [= <-].
  split.
  - unfold get_trex, find_cont, ftyp_box, contb, mvhd_box, leafb. cbn [find h_name hdr8].
    change (bytes_eqb n_moov n_moov) with true. cbn [find h_name hdr8]. change (bytes_eqb n_mvex n_mvex) with true.
    cbv iota. rewrite (find_trex_built (trexs s) id Hin). reflexivity.
  - unfold get_trex_dsdi, find_cont, ftyp_box, contb, mvhd_box, leafb. cbn [find h_name hdr8].
    change (bytes_eqb n_moov n_moov) with true. cbn [find h_name hdr8]. change (bytes_eqb n_mvex n_mvex) with true.
    cbv iota. rewrite (find_trex_built (trexs s) id Hin). reflexivity.
Qed.

Lemma built_get_trex s ts :
  inv_struct s -> tree_of s = Some ts -> forall t, In t (traks s) ->
    get_trex ts (tk_id t) = Some (C05Model.mkTrex (tk_id t) 0 0 0) /\ get_trex_dsdi ts (tk_id t) = Some 1.
Proof.
  intros (Hc & Hids & Htx) Ht t Hin. unfold tree_of in Ht.
  destruct (children_boxes s (children s)) as [bs|] eqn:Hb; [|discriminate]. injection Ht as <-.
  apply (get_trex_built s (map MCtrak (seq 0 (length (traks s))))); [exact Hc| |exact Hb].
  rewrite Htx, <- Hids. apply in_map. exact Hin.
Qed.

Section P.
  Variable avc_parse : str -> option avc_info.
  Variable hevc_parse : str -> option (N * N * list N).

  (* the decoded init of every history holds, for every track, the trex CreateTrex built *)
  Theorem init_trex ops :
    N.of_nat (length ops) < 4294967295 ->
    let s := snd (run avc_parse hevc_parse ops) in
    args_okb s = true -> forall ts, tree_of s = Some ts -> forallb enc_fits ts = true ->
    exists bs, encode_seq false ts = Ok bs /\ decode_file bs = Ok ts
      /\ NoDup (map tk_id (traks s))
      /\ forall t, In t (traks s) ->
           get_trex ts (tk_id t) = Some (C05Model.mkTrex (tk_id t) 0 0 0) /\ get_trex_dsdi ts (tk_id t) = Some 1.
  Proof.
    intros Hb s Ha ts Ht Hf.
    destruct (roundtrip_all avc_parse hevc_parse ops Hb Ha ts Ht Hf) as (bs & He & Hd & _ & _).
    exists bs. split; [exact He|]. split; [exact Hd|].
    destruct (trex_lookup avc_parse hevc_parse ops Hb) as (Hnd & _). split; [exact Hnd|].
    destruct (inv_all avc_parse hevc_parse ops Hb) as [Hi _].
    exact (built_get_trex _ ts Hi Ht).
  Qed.

  (* single-track fragments, full samples: CreateFragment(seq, id) for a track id of the init, any history of
     AddFullSample / AddFullSampleToTrack adding at least one sample, optimisation on or off, extra boxes: the
     encoded fragment, decoded, reads back through the trex of the DECODED init exactly the samples added *)
  Theorem fragments_decode ops :
    N.of_nat (length ops) < 4294967295 ->
    let s := snd (run avc_parse hevc_parse ops) in
    args_okb s = true -> forall ts, tree_of s = Some ts -> forallb enc_fits ts = true ->
    exists bs, encode_seq false ts = Ok bs /\ decode_file bs = Ok ts
      /\ forall t, In t (traks s) ->
         let T := tk_id t in
         forall fops cs fr opt fe pos0 pre mx post exs,
           N.of_nat (length fops) < 4294967296 -> forallb C05HistProofs.is_full fops = true ->
           Forall (fun o => C05ReadProofs.sized_f (C05GhostProofs.op_full o)) fops ->
           C05FragModel.run_ops (C05FragModel.with_extras (C05FragModel.create_fragment T) pre mx post exs) fops = (cs, Some fr) ->
           C05FragModel.encode_frag opt fr = Ok fe ->
           C05RoundProofs.added1_fulls T fops <> [] ->
           C05FragModel.moof_size fe + C05FragModel.md_header_size (C05FragModel.fr_mdat fe)
             + lenN (C05FragModel.md_data (C05FragModel.fr_mdat fr)) < 2147483648 ->
           pos0 + C05FragModel.fr_pre fe < 4611686018427387904 ->
           C05RoundProofs.consistent (C05RoundProofs.added1_fulls T fops) ->
           C05FragModel.get_full_samples (C05FragModel.decoded_view fe pos0 []) (get_trex ts T)
           = Ok (C05RoundProofs.added1_fulls T fops)
           (* ... and through the trex of any OTHER track of the init: nothing *)
           /\ forall t2, In t2 (traks s) -> tk_id t2 <> T ->
                C05FragModel.get_full_samples (C05FragModel.decoded_view fe pos0 []) (get_trex ts (tk_id t2)) = Ok [].
  Proof.
    intros Hb s Ha ts Ht Hf.
    destruct (init_trex ops Hb Ha ts Ht Hf) as (bs & He & Hd & _ & Htx).
    exists bs. split; [exact He|]. split; [exact Hd|].
    intros t Hin T fops cs fr opt fe pos0 pre mx post exs H1 H2 H3 H4 H5 H6 H7 H8 H9.
    subst T. set (T := tk_id t) in *.
    split.
    - unfold T at 1. destruct (Htx t Hin) as [-> _]. fold T.
      rewrite (C05Theorems.C05_roundtrip_single T fops cs fr opt fe pos0 (C05Model.mkTrex T 0 0 0) pre mx post exs
                 H1 H2 H3 H4 H5 H6 H7 H8 H9).
      cbn [C05Model.tx_track]. rewrite N.eqb_refl. reflexivity.
    - intros t2 Hin2 Hne. destruct (Htx t2 Hin2) as [-> _].
      rewrite (C05Theorems.C05_roundtrip_single T fops cs fr opt fe pos0 (C05Model.mkTrex (tk_id t2) 0 0 0) pre mx post exs
                 H1 H2 H3 H4 H5 H6 H7 H8 H9).
      cbn [C05Model.tx_track]. destruct (tk_id t2 =? T) eqn:E; [apply N.eqb_eq in E; contradiction|reflexivity].
  Qed.

  (* the same under ALL six add operations (one data mode per fragment), C05_roundtrip_single_modes *)
  Theorem fragments_decode_modes ops :
    N.of_nat (length ops) < 4294967295 ->
    let s := snd (run avc_parse hevc_parse ops) in
    args_okb s = true -> forall ts, tree_of s = Some ts -> forallb enc_fits ts = true ->
    exists bs, encode_seq false ts = Ok bs /\ decode_file bs = Ok ts
      /\ forall t, In t (traks s) ->
         let T := tk_id t in
         forall fops cs fr opt fe pos0 pre mx post exs FL lz,
           Forall (fun o => C05HistProofs.op_dts o < 18446744073709551616) fops ->
           C05FragModel.run_ops (C05FragModel.with_extras (C05FragModel.create_fragment T) pre mx post exs) fops = (cs, Some fr) ->
           C05SingleProofs.mode_ok fops cs FL lz ->
           map C05Model.fs_s FL = C05HistProofs.added1 T fops -> Forall C05ReadProofs.sized_f FL -> FL <> [] ->
           C05FragModel.encode_frag opt fr = Ok fe ->
           C05FragModel.moof_size fe + C05FragModel.md_header_size (C05FragModel.fr_mdat fe)
             + lenN (flat_map C05Model.fs_data FL) < 2147483648 ->
           pos0 + C05FragModel.fr_pre fe < 4611686018427387904 ->
           exists tb,
             C05FragModel.get_full_samples (C05FragModel.decoded_view fe pos0 lz) (get_trex ts T)
             = Ok (C05ReadProofs.retime tb FL).
  Proof.
    intros Hb s Ha ts Ht Hf.
    destruct (init_trex ops Hb Ha ts Ht Hf) as (bs & He & Hd & _ & Htx).
    exists bs. split; [exact He|]. split; [exact Hd|].
    intros t Hin T fops cs fr opt fe pos0 pre mx post exs FL lz H1 H2 H3 H4 H5 H6 H7 H8 H9.
    subst T. set (T := tk_id t) in *. unfold T at 1. destruct (Htx t Hin) as [-> _]. fold T.
    destruct (C05Theorems.C05_roundtrip_single_modes T fops cs fr opt fe pos0 (C05Model.mkTrex T 0 0 0) pre mx post exs FL lz
                H1 H2 H3 H4 H5 H6 H7 H8 H9) as (tb & ex & _ & Hg).
    exists tb. rewrite Hg. cbn [C05Model.tx_track]. rewrite N.eqb_refl. reflexivity.
  Qed.

  (* multi-track fragments: CreateMultiTrackFragment(seq, ids) over ANY duplicate-free list of track ids (in
     particular all the ids of the init, which are pairwise different: NoDup below), any history of
     AddFullSampleToTrack: every track of the init reads back, through ITS trex of the decoded init, exactly the
     samples added to it (nothing for a track that is not in the fragment) *)
  Theorem fragments_decode_multi ops :
    N.of_nat (length ops) < 4294967295 ->
    let s := snd (run avc_parse hevc_parse ops) in
    args_okb s = true -> forall ts, tree_of s = Some ts -> forallb enc_fits ts = true ->
    exists bs, encode_seq false ts = Ok bs /\ decode_file bs = Ok ts
      /\ NoDup (map tk_id (traks s))
      /\ forall tracks fops cs fr opt fe pos0 pre mx post exs,
           NoDup tracks -> N.of_nat (length fops) < 4294967296 -> forallb C05GhostProofs.is_full_to fops = true ->
           Forall (fun o => C05ReadProofs.sized_f (C05GhostProofs.op_full o)) fops ->
           C05FragModel.run_ops (C05FragModel.with_extras (C05FragModel.create_multi tracks) pre mx post exs) fops = (cs, Some fr) ->
           C05FragModel.encode_frag opt fr = Ok fe ->
           C05FragModel.moof_size fe + C05FragModel.md_header_size (C05FragModel.fr_mdat fe)
             + lenN (C05FragModel.md_data (C05FragModel.fr_mdat fr)) < 2147483648 ->
           pos0 + C05FragModel.fr_pre fe < 4611686018427387904 ->
           forall t, In t (traks s) ->
             C05RoundProofs.consistent (C05RoundProofs.added_fulls tracks (tk_id t) fops) ->
             C05FragModel.get_full_samples (C05FragModel.decoded_view fe pos0 []) (get_trex ts (tk_id t))
             = Ok (C05RoundProofs.added_fulls tracks (tk_id t) fops).
  Proof.
    intros Hb s Ha ts Ht Hf.
    destruct (init_trex ops Hb Ha ts Ht Hf) as (bs & He & Hd & Hnd & Htx).
    exists bs. split; [exact He|]. split; [exact Hd|]. split; [exact Hnd|].
    intros tracks fops cs fr opt fe pos0 pre mx post exs H1 H2 H3 H4 H5 H6 H7 H8 t Hin H9.
    destruct (Htx t Hin) as [-> _].
    exact (C05Theorems.C05_roundtrip tracks pre mx post exs fops cs fr opt fe pos0 (C05Model.mkTrex (tk_id t) 0 0 0)
             H1 H2 H3 H4 H5 H6 H7 H8 H9).
  Qed.
End P.
