(* C19Theorems.v — the property theorems of C19 and nothing else.  Each is closed by `exact <lemma>`
   and followed by Print Assumptions (audited by ./check on every run). *)
From Coq Require Import String Ascii.
From V.lib Require Import Base.
From V.c19 Require Import C19Model C19Spec C19InvProofs C19TrackProofs C19DescProofs C19ElngProofs C19ScopeProofs C19Witness.
From V.c19 Require Import C19RecModel C19RecProofs C19RecLinkProofs.
From V.c19 Require Import C19BoxCodec C19BoxModel.
From V.c19 Require Import C19TreeModel C19TreeProofs C19TreeScopeProofs C19LeafProofs C19PrintParseProofs C19RoundtripProofs C19ArgsProofs.
From V.c19 Require Import C19FragModel C19FragProofs C19DimsProofs C19EsdsProofs C19AacProofs C19AacHistProofs.
From V.c18 Require C18Model C18EntryModel.
From V.c15 Require C15Model C15Spec C15HevcModel C15HevcSpec C15Examples C15HevcExamples.
From V.c05 Require C05Model C05FragModel C05HistProofs C05GhostProofs C05ReadProofs C05RoundProofs C05SingleProofs.
From V.c19 Require Import C19Ac3Model.
From V.c19 Require C19Ac3Proofs.


(* For EVERY op sequence (any arguments, including calls that return an error or panic; the history stops
   at the first panic), every SPS parser: in the final state the moov children are mvhd, mvex and then the
   traks, contiguous and in Traks order; track ids are exactly 1..n in order; there is one trex per track
   with the same id in the same order; the next-track id is larger than every track id.
   The bound is the uint32 track id: fewer than 2^32-1 calls. *)
Theorem C19_inv :
  forall (avc_parse : avc_parser) (hevc_parse : hevc_parser) (ops : list op),
    N.of_nat (length ops) < 4294967295 ->
    let s := snd (run avc_parse hevc_parse ops) in inv_struct s /\ next_above s.
Proof. exact inv_all. Qed.
Print Assumptions C19_inv.

(* what decoding a fragment against the init relies on: track ids are unique, trex ids are unique, and
   MvexBox.GetTrex(id) finds a trex for every track of the init, after any history *)
Theorem C19_trex_lookup :
  forall (avc_parse : avc_parser) (hevc_parse : hevc_parser) (ops : list op),
    N.of_nat (length ops) < 4294967295 ->
    let s := snd (run avc_parse hevc_parse ops) in
    NoDup (map tk_id (traks s)) /\ NoDup (trexs s)
    /\ (forall t, In t (traks s) -> In (tk_id t) (trexs s))
    /\ length (trexs s) = length (traks s).
Proof. exact trex_lookup. Qed.
Print Assumptions C19_trex_lookup.

(* In-scope histories (media types of the specification table, descriptor calls on existing tracks with a
   non-empty SPS list / fscod < 3 / acmod < 8 / at least one EC-3 substream): no call panics, every call is
   executed, the next-track id is n+1 (2 while there is no track), and track i has id i+1, the supplied timescale,
   volume 1.0 only for audio, the handler type and media header box of the table, and the language rule
   (3 bytes: packed into mdhd, no elng; otherwise mdhd "und" and elng carrying the tag verbatim) --
   whatever descriptor calls came in between. *)
Theorem C19_tracks :
  forall (avc_parse : avc_parser) (hevc_parse : hevc_parser) (ops : list op),
    N.of_nat (length ops) < 4294967295 ->
    ops_valid 0 ops = true ->
    let '(ocs, s) := run avc_parse hevc_parse ops in
    ~ In OPanic ocs
    /\ length ocs = length ops
    /\ map Some (map core (traks s)) = spec_cores 0 (adds_of ops)
    /\ next_spec s.
Proof. exact valid_histories. Qed.
Print Assumptions C19_tracks.

(* three lower-case letters packed into mdhd read back (GetLanguage) as the same letters *)
Theorem C19_language_readback :
  forall a b c, lower a = true -> lower b = true -> lower c = true ->
    spec_mdhd_lang [a; b; c] = pack3 a b c /\ get_language (pack3 a b c) = [a; b; c].
Proof. exact language_readback. Qed.
Print Assumptions C19_language_readback.

(* SetHEVCDescriptor uses the result of CreateHvcC before looking at err; that nil dereference is not
   reachable: with a non-empty SPS list the call never panics (the SPS was parsed a few lines earlier) *)
Theorem C19_hevc_nil_unreachable :
  forall (hevc_parse : hevc_parser) t name vpss sps0 spss ppss seis incl,
    fst (set_hevc hevc_parse t name vpss (sps0 :: spss) ppss seis incl) <> OPanic.
Proof. exact (set_hevc_never_panics_on_nil_hvcc (fun _ => None)). Qed.
Print Assumptions C19_hevc_nil_unreachable.

(* every sample entry of every track, after any history, has data reference index 1 (the one url entry of dref) *)
Theorem C19_dref :
  forall (avc_parse : avc_parser) (hevc_parse : hevc_parser) (ops : list op),
    entries_dref_ok (snd (run avc_parse hevc_parse ops)).
Proof. exact dref_all. Qed.
Print Assumptions C19_dref.

(* a call adds exactly one sample entry when it succeeds and none otherwise *)
Theorem C19_descriptor_one_entry :
  forall (avc_parse : avc_parser) (hevc_parse : hevc_parser) t d,
    let '(oc, t') := set_desc avc_parse hevc_parse t d in
    match oc with
    | OOk => exists e, sd_entries t' = sd_entries t ++ [e] /\ se_dref e = 1
    | _ => sd_entries t' = sd_entries t
    end.
Proof. exact set_desc_entries. Qed.
Print Assumptions C19_descriptor_one_entry.

(* SetAVCDescriptor: entry name as requested, width/height = the parser's (16 bit), tkhd = 16.16 fixed point,
   avcC carries the SPS's profile/compatibility/level, chroma format and bit depths (which fit their 2-/3-bit fields)
   and exactly the supplied parameter sets (none if not included) *)
Theorem C19_descriptor_avc :
  forall (avc_parse : avc_parser) t name spss ppss incl t',
    set_avc avc_parse t name spss ppss incl = (OOk, t') ->
    exists sps0 rest w h p c l cf bl bc,
      spss = sps0 :: rest /\ avc_parse sps0 = Some (w, h, (p, c, l, (cf, bl, bc)))
      /\ cf <= 3 /\ bl <= 7 /\ bc <= 7
      /\ (name = BS "avc1" \/ name = BS "avc3")
      /\ sd_entries t' = sd_entries t ++
           [mkSE name 1 (w mod 65536) (h mod 65536) 0
                 (CfgAvcC (mkAvcC p c l (if incl then spss else []) (if incl then ppss else []) cf bl bc))]
      /\ tk_width t' = (w * 65536) mod 4294967296 /\ tk_height t' = (h * 65536) mod 4294967296
      /\ core t' = core t.
Proof. exact set_avc_ok. Qed.
Print Assumptions C19_descriptor_avc.

(* SetHEVCDescriptor: hvcC carries the parser's configuration values and the VPS/SPS/PPS(/SEI) arrays with
   NAL unit types 32/33/34(/39), the complete bit for hvc1, exactly the supplied NAL units *)
Theorem C19_descriptor_hevc :
  forall (hevc_parse : hevc_parser) t name vpss spss ppss seis incl t',
    set_hevc hevc_parse t name vpss spss ppss seis incl = (OOk, t') ->
    exists sps0 rest w h cfg,
      spss = sps0 :: rest /\ hevc_parse sps0 = Some (w, h, cfg)
      /\ (name = BS "hvc1" \/ name = BS "hev1")
      /\ sd_entries t' = sd_entries t ++
           [mkSE name 1 (w mod 65536) (h mod 65536) 0
                 (CfgHvcC (mkHvcC cfg (spec_hevc_arrays name vpss spss ppss seis incl)))]
      /\ tk_width t' = (w * 65536) mod 4294967296 /\ tk_height t' = (h * 65536) mod 4294967296
      /\ core t' = core t.
Proof. exact set_hevc_ok. Qed.
Print Assumptions C19_descriptor_hevc.

(* The dimensions, stated without reference to what a parser answers: with C15's models of avc.ParseSPSNALUnit /
   hevc.ParseSPSNALUnit + ImageSize as the parsers (c15_avc_parser, c15_hevc_parser: coq/c15, read-only) and C15's SPS
   theorems, for EVERY valid field assignment v of the SPS syntax (all profiles, chroma formats, field coding, cropping,
   any VUI incl. any sample aspect ratio) the entry built from the NAL unit of v has exactly the CROPPED picture size of
   v -- C15Spec.display_width/height: PicWidthInMbs*16 - CropUnitX*(left+right), (2-frame_mbs_only)*PicHeightInMapUnits*16
   - CropUnitY*(top+bottom), which do not look at the VUI -- in its 16-bit fields, and tkhd holds it in 16.16 fixed point.
   A SetAVCDescriptor scaling the width by the sample aspect ratio falsifies this on every SPS with a non-square SAR. *)
Theorem C19_descriptor_avc_dims :
  forall v t name rest ppss incl t',
    C15Spec.sps_valid v = true ->
    set_avc c15_avc_parser t name (C15Spec.nalu_sps v :: rest) ppss incl = (OOk, t') ->
    exists e, sd_entries t' = sd_entries t ++ [e] /\ se_name e = name
      /\ se_a e = C15Spec.display_width v mod 65536 /\ se_b e = C15Spec.display_height v mod 65536
      /\ tk_width t' = (C15Spec.display_width v * 65536) mod 4294967296
      /\ tk_height t' = (C15Spec.display_height v * 65536) mod 4294967296.
Proof. exact avc_dims_exact. Qed.
Print Assumptions C19_descriptor_avc_dims.

(* HEVC: pic_width/height_in_luma_samples minus SubWidthC/SubHeightC times the conformance-window offsets *)
Theorem C19_descriptor_hevc_dims :
  forall v t name vpss rest ppss seis incl t',
    C15HevcSpec.hsps_valid v = true ->
    set_hevc c15_hevc_parser t name vpss (C15HevcSpec.hnalu_sps v :: rest) ppss seis incl = (OOk, t') ->
    exists e, sd_entries t' = sd_entries t ++ [e] /\ se_name e = name
      /\ se_a e = C15HevcSpec.h_display_width v mod 65536 /\ se_b e = C15HevcSpec.h_display_height v mod 65536
      /\ tk_width t' = (C15HevcSpec.h_display_width v * 65536) mod 4294967296
      /\ tk_height t' = (C15HevcSpec.h_display_height v * 65536) mod 4294967296.
Proof. exact hevc_dims_exact. Qed.
Print Assumptions C19_descriptor_hevc_dims.

(* SetAACDescriptor: the AudioSpecificConfig in esds reads back (independent bit reader) as the supplied object
   type and frequency, 2 channels (1 for HE-AAC v2), extension frequency 2f and base type AAC-LC for HE-AAC:
   complete finite domain {AAC-LC, HE-AAC v1, v2} x {13 table frequencies, 44000, 8001, 65535, 1, 2^24-1} *)
Theorem C19_descriptor_aac_config :
  forall o f, In (o, f) aac_domain ->
    let chan := if o =? 29 then 1 else 2 in
    let ext := if (o =? 5) || (o =? 29) then 2 * f else 0 in
    exists asc, asc_encode o f chan ext = Some asc /\ asc_read asc = (o, f, chan, ext mod 16777216, 2).
Proof. exact aac_roundtrip. Qed.
Print Assumptions C19_descriptor_aac_config.

Theorem C19_descriptor_aac :
  forall t o f t',
    set_aac t o f = (OOk, t') ->
    let chan := if o =? 29 then 1 else 2 in
    let ext := if (o =? 5) || (o =? 29) then 2 * f else 0 in
    exists asc, asc_encode o f chan ext = Some asc
      /\ sd_entries t' = sd_entries t ++ [mkSE (BS "mp4a") 1 chan 16 (f mod 65536) (CfgEsds asc)]
      /\ core t' = core t.
Proof. exact set_aac_ok. Qed.
Print Assumptions C19_descriptor_aac.

(* C19_descriptor_aac through the TYPED tree and C18's configuration codec (coq/c18, read-only), general in the frequency
   (every f below 2^23, so that the doubled extension frequency of the HE types fits the 24-bit escape; no enumeration):
   the sample entry of a successful SetAACDescriptor(o, f) is, in the box model, mp4a{esds} with the whole descriptor tree
   typed (ES descriptor 1, DecoderConfigDescriptor 0x40/0x15, DecSpecificInfo, SLConfig 2; esds_leaf); that box prints and
   parses back to itself with C01's decoder (so by C19_roundtrip the DECODED init holds exactly it); the DecConfig bytes
   of its DecSpecificInfo are the bytes C18's model of AudioSpecificConfig.Encode writes for the configuration SUPPLIED
   (cfg: object type o, sampling frequency f, channel configuration 2 -- 1 for HE-AAC v2 --, extension frequency 2f and
   SBR / PS flags for the HE types), and C18's model of DecodeAudioSpecificConfig reads them back as that configuration. *)
Theorem C19_descriptor_aac_typed :
  forall t o f t',
    f < 8388608 -> set_aac t o f = (OOk, t') ->
    let chan := if o =? 29 then 1 else 2 in
    let cfg := C18EntryModel.set_aac_asc o (Z.of_N f) in
    exists asc e b,
      sd_entries t' = sd_entries t ++ [e] /\ e = mkSE (BS "mp4a") 1 chan 16 (f mod 65536) (CfgEsds asc)
      /\ entry_box e = Some b /\ b = preb (LAudio (BS "mp4a") 1 chan 16 (f mod 65536)) [leafb (esds_leaf asc)]
      /\ (exists enc, raw_box false b = Ok enc /\ lenN enc = size_box b
            /\ forall fuel r2, (fuel_of b <= fuel)%nat -> decode_box fuel (enc ++ r2) = Ok (b, r2))
      /\ esds_dec_config (esds_leaf asc) = Some asc
      /\ C18Model.encode_asc cfg = Ok asc /\ C18Model.decode_asc asc = Ok cfg
      /\ C18Model.a_ot cfg = o /\ C18Model.a_freq cfg = Z.of_N f /\ C18Model.a_chan cfg = chan.
Proof. exact aac_typed. Qed.
Print Assumptions C19_descriptor_aac_typed.

(* ... and at the level of whole histories: "the DECODED init carries the configuration supplied".  For EVERY history in the
   scope of C19_roundtrip whose SetAACDescriptor frequencies are below 2^23 (aac_small), in the final state every sample entry
   with an esds -- of any track, whatever calls came before and after -- is the entry some SetAACDescriptor(o, f) call built
   (provenance, by induction over the history); its typed box mp4a{esds{ES{DecoderConfig{DecSpecificInfo asc}, SLConfig}}} occurs
   inside the tree that C01's decoder returns for the encoded init (decode_file bs = Ok ts; inside: below moov / trak / mdia /
   minf / stbl / stsd), and C18's DecodeAudioSpecificConfig model reads asc back as the configuration of that call. *)
Theorem C19_decoded_init_aac :
  forall (avc_parse : avc_parser) (hevc_parse : hevc_parser) (ops : list op),
    N.of_nat (length ops) < 4294967295 -> Forall aac_small ops ->
    let s := snd (run avc_parse hevc_parse ops) in
    args_okb s = true -> forall ts, tree_of s = Some ts -> forallb enc_fits ts = true ->
    exists bs, encode_seq false ts = Ok bs /\ decode_file bs = Ok ts
      /\ forall t e asc, In t (traks s) -> In e (sd_entries t) -> se_cfg e = CfgEsds asc ->
         exists o f b top,
           f < 8388608
           /\ e = mkSE (BS "mp4a") 1 (if o =? 29 then 1 else 2) 16 (f mod 65536) (CfgEsds asc)
           /\ b = preb (LAudio (BS "mp4a") 1 (if o =? 29 then 1 else 2) 16 (f mod 65536)) [leafb (esds_leaf asc)]
           /\ In top ts /\ inside b top
           /\ esds_dec_config (esds_leaf asc) = Some asc
           /\ C18Model.decode_asc asc = Ok (C18EntryModel.set_aac_asc o (Z.of_N f))
           /\ C18Model.a_ot (C18EntryModel.set_aac_asc o (Z.of_N f)) = o
           /\ C18Model.a_freq (C18EntryModel.set_aac_asc o (Z.of_N f)) = Z.of_N f.
Proof. exact decoded_init_aac. Qed.
Print Assumptions C19_decoded_init_aac.

(* print-then-parse of the typed esds box around ANY decoder configuration of at most 100 bytes (one-byte size fields) *)
Theorem C19_box_roundtrip_esds :
  forall asc, lenN asc <= 100 ->
    exists b, body_leaf (esds_leaf asc) (dflt_rsv (esds_leaf asc)) = Ok b /\ lenN b + 8 = size_leaf (esds_leaf asc)
      /\ forall r2, dec_esds (hdr8 (leaf_name (esds_leaf asc)) (size_leaf (esds_leaf asc))) (b ++ r2)
                    = Ok ((esds_leaf asc, dflt_rsv (esds_leaf asc)), r2).
Proof. exact lpp_esds. Qed.
Print Assumptions C19_box_roundtrip_esds.

(* the mp4a sample rate is the supplied frequency below 2^16 ... *)
Theorem C19_aac_samplerate :
  forall t o f t', f < 65536 -> set_aac t o f = (OOk, t') ->
    exists e, sd_entries t' = sd_entries t ++ [e] /\ se_c e = f /\ se_name e = BS "mp4a".
Proof. exact aac_samplerate_ok. Qed.
Print Assumptions C19_aac_samplerate.

(* ... and NOT for the valid AAC frequency 96000 (uint16 truncation; known finding C19-F4) *)
Theorem C19_aac_samplerate_refuted :
  exists t o f t', In (o, f) aac_domain /\ set_aac t o f = (OOk, t') /\
                   exists e, last (sd_entries t') e = e /\ In e (sd_entries t') /\ se_c e <> f.
Proof. exact aac_samplerate_refuted. Qed.
Print Assumptions C19_aac_samplerate_refuted.

(* SetAC3Descriptor / SetEC3Descriptor: the dac3/dec3 supplied, channel count and sample rate of the tables *)
Theorem C19_descriptor_ac3 :
  forall t fscod bsid bsmod acmod lfeon brc t',
    set_ac3 t (mkDac3 fscod bsid bsmod acmod lfeon brc) = (OOk, t') ->
    sd_entries t' = sd_entries t ++
      [mkSE (BS "ac-3") 1 ((spec_acmod_nchan acmod + (if lfeon =? 1 then 1 else 0)) mod 65536) 16
            (spec_ac3_rate fscod mod 65536) (CfgDac3 (mkDac3 fscod bsid bsmod acmod lfeon brc))]
    /\ core t' = core t.
Proof. exact set_ac3_ok. Qed.
Print Assumptions C19_descriptor_ac3.

Theorem C19_descriptor_ec3 :
  forall t dr fscod bsid asvc bsmod acmod lfeon nds cl subs t',
    cl < 512 ->
    set_ec3 t (mkDec3 dr (mkEc3Sub fscod bsid asvc bsmod acmod lfeon nds cl :: subs)) = (OOk, t') ->
    sd_entries t' = sd_entries t ++
      [mkSE (BS "ec-3") 1
            ((spec_acmod_nchan acmod + (if lfeon =? 1 then 1 else 0)
              + (if 0 <? nds then spec_chanloc_count 0 spec_chanloc_weights cl else 0)) mod 65536) 16
            (spec_ac3_rate fscod mod 65536)
            (CfgDec3 (mkDec3 dr (mkEc3Sub fscod bsid asvc bsmod acmod lfeon nds cl :: subs)))]
    /\ core t' = core t.
Proof. exact set_ec3_ok. Qed.
Print Assumptions C19_descriptor_ec3.

Theorem C19_descriptor_wvtt :
  forall t config,
    set_wvtt t config =
    (OOk, stsd_add t (mkSE (BS "wvtt") 1 0 0 0 (CfgVttC (match config with [] => BS "WEBVTT" | _ => config end)))).
Proof. exact set_wvtt_ok. Qed.
Print Assumptions C19_descriptor_wvtt.

Theorem C19_descriptor_stpp :
  forall t ns schema mime,
    set_stpp t ns schema mime =
    (OOk, stsd_add t (mkSE (BS "stpp") 1 0 0 0
                           (CfgStpp (match ns with [] => BS "http://www.w3.org/ns/ttml" | _ => ns end) schema mime))).
Proof. exact set_stpp_ok. Qed.
Print Assumptions C19_descriptor_stpp.

(* C19_roundtrip — PARTIAL.  Full statement (not proved here; box encoders/decoders belong to C01/C02):
     forall in-scope ops, let init := run ops in
       decode (encode init) = init  /\  is_fragmented_init (decode (encode init))
       /\ forall track id of init, a fragment created for it decodes against decode (encode init).
   Proved parts: C19_avcrec_roundtrip / C19_hvcrec_roundtrip / C19_descriptor_{avc,hevc}_record (the codec configuration
   records, the only part of the tree written from the parameter sets, byte level, all profiles), C19_elng_roundtrip (the one variable-length box written from AddEmptyTrack's arguments, with the
   exact length boundary), C19_stpp_roundtrip (the stpp sample entry's strings), C19_language_readback (mdhd language field), C19_trex_lookup (unique ids, a trex for
   every track: what fragment decoding needs from the init).  The rest is evaluated on the real code by the
   search (encode -> DecodeFile -> equal Info dump, equal re-encoding, IsFragmented, single- and multi-track
   fragments with samples read back through the trex). *)

(* round trip of the extended language box (the only variable-length box AddEmptyTrack writes from its
   arguments): a tag of two or more non-NUL bytes decodes to the same tag as a full box ... *)
Theorem C19_elng_roundtrip :
  forall lang, no_nul lang = true -> (2 <= length lang)%nat -> elng_decode (elng_payload lang) = Ok (false, lang).
Proof. exact elng_roundtrip. Qed.
Print Assumptions C19_elng_roundtrip.

(* ... and a one-byte tag does not (payload shorter than 7 bytes is taken for the old layout): the property's
   "two or more characters" is the exact boundary *)
Theorem C19_elng_short_refuted :
  exists lang, no_nul lang = true /\ length lang = 1%nat /\ elng_decode (elng_payload lang) = Ok (true, []).
Proof. exact elng_short_refuted. Qed.
Print Assumptions C19_elng_short_refuted.

(* the stpp sample entry (three zero-terminated strings) decodes to the strings supplied *)
Theorem C19_stpp_roundtrip :
  forall dref ns schema mime,
    dref < 65536 -> no_nul ns = true -> no_nul schema = true -> no_nul mime = true ->
    stpp_decode (stpp_payload dref ns schema mime) = Ok (dref, ns, schema, mime, 0%nat).
Proof. exact stpp_roundtrip. Qed.
Print Assumptions C19_stpp_roundtrip.

(* ------------------------------------------------------------------ codec configuration records, byte level
   (C19RecModel.v: avc.DecConfRec / hevc.DecConfRec Size, EncodeSW, Decode...DecConfRec) *)

(* Size() is exactly the number of bytes EncodeSW writes, for EVERY record (any profile, any NoTrailingInfo, any
   number and length of parameter sets): the FixedSliceWriter of capacity Size() never overflows or is left short *)
Theorem C19_avcrec_size : forall r, lenN (avcrec_encode r) = avcrec_size r.
Proof. exact avcrec_size_ok. Qed.
Print Assumptions C19_avcrec_size.

Theorem C19_hvcrec_size : forall r, lenN (hvcrec_encode r) = hvcrec_size r.
Proof. exact hvcrec_size_ok. Qed.
Print Assumptions C19_hvcrec_size.

(* every avcC record whose values fit their fields (fewer than 32 SPS, fewer than 256 PPS, NAL units shorter than
   2^16 bytes, chroma format < 4, bit depths < 8, no SPS extension) decodes, after encoding, to its canonical form:
   the record itself, except that the trailing fields are zero when they are not written (profiles 66/77/88, or
   NoTrailingInfo) -- for ALL profile values ... *)
Theorem C19_avcrec_roundtrip :
  forall r, avcrec_ok r = true -> avcrec_decode (avcrec_encode r) = Ok (avcrec_canon r).
Proof. exact avcrec_roundtrip. Qed.
Print Assumptions C19_avcrec_roundtrip.

(* ... and to ITSELF for every profile other than 66/77/88 with NoTrailingInfo false (the records CreateAVCDecConfRec
   builds): chroma format, bit depths and NoTrailingInfo = false come back for profile 244, 44, 83, 86, 118, ... *)
Theorem C19_avcrec_roundtrip_exact :
  forall r, avcrec_ok r = true -> avc_has_trailing r = true -> avcrec_decode (avcrec_encode r) = Ok r.
Proof. exact avcrec_roundtrip_exact. Qed.
Print Assumptions C19_avcrec_roundtrip_exact.

(* every hvcC record whose values fit their fields decodes, after encoding, to itself (all 17 scalar fields and
   every NAL unit array: header byte incl. the reserved bit, NAL units byte for byte) *)
Theorem C19_hvcrec_roundtrip :
  forall r, hvcrec_ok r = true -> hvcrec_decode (hvcrec_encode r) = Ok r.
Proof. exact hvcrec_roundtrip. Qed.
Print Assumptions C19_hvcrec_roundtrip.

(* SetAVCDescriptor, any SPS parser: the avcC of the new sample entry is the record (profile, compatibility, level,
   chroma format, bit depths of the parsed SPS; exactly the supplied parameter sets; no SPS extension; trailing info
   present), its encoding has Size() bytes and decodes to its canonical form -- to the record itself unless the
   profile is 66/77/88 *)
Theorem C19_descriptor_avc_record :
  forall (avc_parse : avc_parser) t name spss ppss incl t',
    set_avc avc_parse t name spss ppss incl = (OOk, t') ->
    nalus_fit 32 spss = true -> nalus_fit 256 ppss = true ->
    exists sps0 rest w h p c l cf bl bc e a,
      spss = sps0 :: rest /\ avc_parse sps0 = Some (w, h, (p, c, l, (cf, bl, bc)))
      /\ sd_entries t' = sd_entries t ++ [e] /\ se_cfg e = CfgAvcC a
      /\ avcrec_of a = mkAvcRec p c l (if incl then spss else []) (if incl then ppss else []) cf bl bc 0 false
      /\ lenN (avcrec_encode (avcrec_of a)) = avcrec_size (avcrec_of a)
      /\ avcrec_decode (avcrec_encode (avcrec_of a)) = Ok (avcrec_canon (avcrec_of a))
      /\ (avc_plain p = false -> avcrec_decode (avcrec_encode (avcrec_of a)) = Ok (avcrec_of a)).
Proof. exact set_avc_record. Qed.
Print Assumptions C19_descriptor_avc_record.

(* SetHEVCDescriptor, any SPS parser whose answers are in the ranges of the syntax (hevc_cfg_ok): the hvcC of the
   new sample entry is the record with the parsed profile/tier/level/chroma/bit-depth values, the constants of
   CreateHEVCDecConfRec and the VPS/SPS/PPS(/SEI) arrays of the supplied NAL units; it encodes to Size() bytes and
   decodes to itself *)
Theorem C19_descriptor_hevc_record :
  forall (hevc_parse : hevc_parser) t name vpss spss ppss seis incl t',
    set_hevc hevc_parse t name vpss spss ppss seis incl = (OOk, t') ->
    nalus_fit 65536 vpss = true -> nalus_fit 65536 spss = true -> nalus_fit 65536 ppss = true -> nalus_fit 65536 seis = true ->
    (forall sps w h cfg, hevc_parse sps = Some (w, h, cfg) -> hevc_cfg_ok cfg = true) ->
    exists sps0 rest w h space tier idc compat constr level chroma bdl bdc e hc r,
      spss = sps0 :: rest
      /\ hevc_parse sps0 = Some (w, h, [space; tier; idc; compat; constr; level; chroma; bdl; bdc])
      /\ sd_entries t' = sd_entries t ++ [e] /\ se_cfg e = CfgHvcC hc
      /\ hvcrec_of hc = Some r
      /\ r = mkHvcRec 1 space (negb (tier =? 0)) idc compat constr level 0 0 chroma bdl bdc 0 0 0 0 3
                      (spec_hevc_arrays name vpss spss ppss seis incl)
      /\ lenN (hvcrec_encode r) = hvcrec_size r
      /\ hvcrec_decode (hvcrec_encode r) = Ok r.
Proof. exact set_hevc_record. Qed.
Print Assumptions C19_descriptor_hevc_record.

(* ------------------------------------------------------------------ the whole init segment in C01's box model
   ("C01's model" below is coq/c19/C19BoxCodec.v + C19BoxModel.v: a frozen, verbatim copy of coq/c01/C01Codec.v and
   C01Model.v at /verif commit 88f92e5 (second snapshot: typed esds / hvcC / uuid / sgpd leaves, repaired hdlr Size and senc),
   see the banner of those files)
   (C19TreeModel.v: tree_of s = the box tree of state s with every constant the constructors write; C01's
   encode_seq false / decode_file are the models of InitSegment.Encode / the box loop of DecodeFile; the
   correspondence compares encode_seq false (tree_of s) with the bytes of the real InitSegment.Encode) *)

(* roundtrip_ok is a sound decision procedure for C19_roundtrip on one state: if it answers true then the encoded
   tree decodes to an EQUAL tree (equality of every header, every field of every leaf and every captured reserved
   byte), the decoded file passes File.AddChild's fragmented-init test and GetTrex finds a trex for every track.
   The check evaluates it (extracted) on every correspondence case. *)
Theorem C19_roundtrip_checker_sound :
  forall s, roundtrip_ok s = true ->
    exists ts bs, tree_of s = Some ts /\ encode_seq false ts = Ok bs /\ decode_file bs = Ok ts
      /\ (traks s <> [] -> is_fragmented_init ts = true)
      /\ (forall t, In t (traks s) -> has_trex ts (tk_id t) = true).
Proof. exact roundtrip_sound. Qed.
Print Assumptions C19_roundtrip_checker_sound.

(* for EVERY history (any arguments, any SPS parser): the tree built for the final state, whenever it has a byte
   model, passes the fragmented-init test of File.AddChild as soon as there is a track (the first trak has the
   mdia/minf/stbl/stts chain and its stts is empty) and holds a trex for every track id: the two facts about the
   decoded init that C19_roundtrip asks for, on the tree that is encoded *)
Theorem C19_built_fragmented_trex :
  forall (avc_parse : avc_parser) (hevc_parse : hevc_parser) (ops : list op),
    N.of_nat (length ops) < 4294967295 ->
    let s := snd (run avc_parse hevc_parse ops) in
    forall ts, tree_of s = Some ts ->
      (traks s <> [] -> is_fragmented_init ts = true) /\ (forall t, In t (traks s) -> has_trex ts (tk_id t) = true).
Proof. exact built_all. Qed.
Print Assumptions C19_built_fragmented_trex.

(* C19_roundtrip, in the C01 box model, for EVERY op sequence and every SPS parser: whenever the values of the final
   state fit the fields of their boxes (args_okb: track ids, timescales, dimensions, profile bytes in the ranges of
   their Go types; at most 31 SPS / 255 PPS of less than 2^16 bytes; hvcC values in their bit fields; language tags
   other than three letters have two or more non-NUL bytes) and the encoded sizes fit 32 bits (C01's enc_fits, what
   EncodeHeader requires), the init segment encodes, C01's model of the box loop of DecodeFile returns a tree EQUAL to
   the one encoded (every header, every field of every box, the reserved bytes the encoders write), the decoded file
   passes File.AddChild's fragmented-init test as soon as there is a track, and GetTrex finds a trex for every track id.
   Relative to: C01's model of the Go box codec (tied to the code by C01's correspondence and, for API-built inits, by
   C19's byte comparison of InitSegment.Encode); esds is TYPED (the whole descriptor tree, C19_descriptor_aac_typed); dac3,
   dec3, wvtt and stpp are opaque payloads in the snapshot of that model (their typed decoding is evaluated by the search;
   stpp and the avcC/hvcC records have their own theorems); decoding media fragments against the decoded init:
   C19_fragments_decode below (composition with C05). *)
Theorem C19_roundtrip :
  forall (avc_parse : avc_parser) (hevc_parse : hevc_parser) (ops : list op),
    N.of_nat (length ops) < 4294967295 ->
    let s := snd (run avc_parse hevc_parse ops) in
    args_okb s = true -> forall ts, tree_of s = Some ts -> forallb enc_fits ts = true ->
    exists bs, encode_seq false ts = Ok bs /\ decode_file bs = Ok ts
      /\ (traks s <> [] -> is_fragmented_init ts = true)
      /\ (forall t, In t (traks s) -> has_trex ts (tk_id t) = true).
Proof. exact roundtrip_all. Qed.
Print Assumptions C19_roundtrip.

(* the hypothesis args_okb is a consequence of hypotheses on the ARGUMENTS: 32-bit timescales, language tags of three
   bytes or of two or more non-NUL bytes, parameter-set lists that fit the records' count/length fields, and SPS parsers
   that answer in the ranges of their Go types (bytes for AVC profile/compatibility/level; the bit fields of
   profile_tier_level, chroma format and bit depths for HEVC) *)
Theorem C19_args_ok :
  forall (avc_parse : avc_parser) (hevc_parse : hevc_parser),
    avc_parser_ok avc_parse -> hevc_parser_ok hevc_parse ->
    forall ops, N.of_nat (length ops) < 4294967295 -> forallb op_args_okb ops = true ->
      args_okb (snd (run avc_parse hevc_parse ops)) = true.
Proof. exact args_ok_run. Qed.
Print Assumptions C19_args_ok.

(* ... so C19_roundtrip holds for every history whose ARGUMENTS are in range (sizes below 2^32) *)
Theorem C19_roundtrip_inputs :
  forall (avc_parse : avc_parser) (hevc_parse : hevc_parser) (ops : list op),
    avc_parser_ok avc_parse -> hevc_parser_ok hevc_parse ->
    N.of_nat (length ops) < 4294967295 -> forallb op_args_okb ops = true ->
    let s := snd (run avc_parse hevc_parse ops) in
    forall ts, tree_of s = Some ts -> forallb enc_fits ts = true ->
    exists bs, encode_seq false ts = Ok bs /\ decode_file bs = Ok ts
      /\ (traks s <> [] -> is_fragmented_init ts = true)
      /\ (forall t, In t (traks s) -> has_trex ts (tk_id t) = true).
Proof. exact roundtrip_inputs. Qed.
Print Assumptions C19_roundtrip_inputs.

(* the converse of C01_tree for constructed trees: every tree made of well-formed parts (wf) is returned by C01's
   decode_box from the bytes C01's encoder writes for it, with any fuel of at least fuel_of t *)
Theorem C19_print_then_parse :
  forall t, wf t ->
    exists enc, raw_box false t = Ok enc /\ lenN enc = size_box t /\ 8 <= size_box t /\
      forall f r2, (fuel_of t <= f)%nat -> decode_box f (enc ++ r2) = Ok (t, r2).
Proof. exact pp_box. Qed.
Print Assumptions C19_print_then_parse.

(* C19_roundtrip over a COMPLETE SMALL SCOPE (271 histories, enumerated in C19TreeScopeProofs.small_scope and
   decided inside Coq): one or two tracks over the seven media types, 3-letter / 2-letter / BCP-47 tags, each track
   with none or one of the fitting descriptor sequences (AVC, HEVC, AVC then HEVC, AAC, AC-3, E-AC-3, wvtt, stpp).
   (Kept as an independent, computed confirmation of C19_roundtrip: here nothing is assumed about the state.) *)
Theorem C19_roundtrip_partial :
  forall ops, In ops small_scope ->
    let s := snd (run ex_avc_parse ex_hevc_parse ops) in
    exists ts bs, tree_of s = Some ts /\ encode_seq false ts = Ok bs /\ decode_file bs = Ok ts
      /\ (traks s <> [] -> is_fragmented_init ts = true)
      /\ (forall t, In t (traks s) -> has_trex ts (tk_id t) = true).
Proof. exact small_scope_roundtrip. Qed.
Print Assumptions C19_roundtrip_partial.

(* print-then-parse of the boxes whose fields carry the ARGUMENTS of the calls, for ALL in-range values (C01's
   decoders on C01's encoders with the reserved bytes the Go encoders write): the next-track id (mvhd), the track id
   (trex, tkhd), volume / width / height (tkhd), timescale and packed language (mdhd), the entry count (stsd), and the
   sample entry prefixes (name, data reference index, width/height resp. channels/sample size/sample rate).  Together
   with C19_elng_roundtrip, C19_stpp_roundtrip, C19_avcrec_roundtrip, C19_hvcrec_roundtrip these are all the
   argument-dependent bytes of an init segment; every other box is a constant of the constructors and is covered by
   C19_roundtrip_partial.  What is missing for the full C19_roundtrip is the composition through C01's generic
   decode_box (header, dispatch tables, child loops and their size accounting). *)
Theorem C19_box_roundtrip_mvhd :
  forall f ts du rate vol nt r2,
    f < 16777216 -> ts < 4294967296 -> du < 4294967296 -> rate < 4294967296 -> vol < 65536 -> nt < 4294967296 ->
    forall h b, body_leaf (LMvhd 0 f 0 0 ts du rate vol nt) (dflt_rsv (LMvhd 0 f 0 0 ts du rate vol nt)) = Ok b ->
      dec_mvhd h (b ++ r2) = Ok ((LMvhd 0 f 0 0 ts du rate vol nt, dflt_rsv (LMvhd 0 f 0 0 ts du rate vol nt)), r2).
Proof. exact pp_mvhd. Qed.
Print Assumptions C19_box_roundtrip_mvhd.

Theorem C19_box_roundtrip_trex :
  forall f tid dsdi dur sz sf r2,
    f < 16777216 -> tid < 4294967296 -> dsdi < 4294967296 -> dur < 4294967296 -> sz < 4294967296 -> sf < 4294967296 ->
    forall h b, body_leaf (LTrex 0 f tid dsdi dur sz sf) (dflt_rsv (LTrex 0 f tid dsdi dur sz sf)) = Ok b ->
      dec_trex h (b ++ r2) = Ok ((LTrex 0 f tid dsdi dur sz sf, dflt_rsv (LTrex 0 f tid dsdi dur sz sf)), r2).
Proof. exact pp_trex. Qed.
Print Assumptions C19_box_roundtrip_trex.

Theorem C19_box_roundtrip_tkhd :
  forall f tid du layer ag vol wd ht r2,
    f < 16777216 -> tid < 4294967296 -> du < 4294967296 -> layer < 65536 -> ag < 65536 -> vol < 65536 ->
    wd < 4294967296 -> ht < 4294967296 ->
    forall h b, body_leaf (LTkhd 0 f 0 0 tid du layer ag vol wd ht) (dflt_rsv (LTkhd 0 f 0 0 tid du layer ag vol wd ht)) = Ok b ->
      dec_tkhd h (b ++ r2) = Ok ((LTkhd 0 f 0 0 tid du layer ag vol wd ht, dflt_rsv (LTkhd 0 f 0 0 tid du layer ag vol wd ht)), r2).
Proof. exact pp_tkhd. Qed.
Print Assumptions C19_box_roundtrip_tkhd.

Theorem C19_box_roundtrip_mdhd :
  forall f ts du lang r2,
    f < 16777216 -> ts < 4294967296 -> du < 4294967296 -> lang < 65536 ->
    forall h b, body_leaf (LMdhd 0 f 0 0 ts du lang) (dflt_rsv (LMdhd 0 f 0 0 ts du lang)) = Ok b ->
      dec_mdhd h (b ++ r2) = Ok ((LMdhd 0 f 0 0 ts du lang, dflt_rsv (LMdhd 0 f 0 0 ts du lang)), r2).
Proof. exact pp_mdhd. Qed.
Print Assumptions C19_box_roundtrip_mdhd.

Theorem C19_box_roundtrip_stsd :
  forall f cnt r2, f < 16777216 -> cnt < 4294967296 ->
    forall h b, body_leaf (LStsd 0 f cnt) (dflt_rsv (LStsd 0 f cnt)) = Ok b ->
      dec_stsd h (b ++ r2) = Ok ((LStsd 0 f cnt, dflt_rsv (LStsd 0 f cnt)), r2).
Proof. exact pp_stsd. Qed.
Print Assumptions C19_box_roundtrip_stsd.

Theorem C19_box_roundtrip_visual :
  forall name dri w ht hres vres fc cn r2,
    dri < 65536 -> w < 65536 -> ht < 65536 -> hres < 4294967296 -> vres < 4294967296 -> fc < 65536 -> lenN cn <= 31 ->
    forall sz b, body_leaf (LVisual name dri w ht hres vres fc cn) (dflt_rsv (LVisual name dri w ht hres vres fc cn)) = Ok b ->
      dec_visual (mkHdr name sz 8) (b ++ r2)
      = Ok ((LVisual name dri w ht hres vres fc cn, dflt_rsv (LVisual name dri w ht hres vres fc cn)), r2).
Proof. exact pp_visual. Qed.
Print Assumptions C19_box_roundtrip_visual.

Theorem C19_box_roundtrip_audio :
  forall name dri ch ss sr r2, dri < 65536 -> ch < 65536 -> ss < 65536 -> sr < 65536 ->
    forall sz b, body_leaf (LAudio name dri ch ss sr) (dflt_rsv (LAudio name dri ch ss sr)) = Ok b ->
      dec_audio (mkHdr name sz 8) (b ++ r2) = Ok ((LAudio name dri ch ss sr, dflt_rsv (LAudio name dri ch ss sr)), r2).
Proof. exact pp_audio. Qed.
Print Assumptions C19_box_roundtrip_audio.

(* ------------------------------------------------------------------ "fragments created for its track ids decode against it"
   Composition with C05's fragment model (coq/c05, imported read-only; C05_roundtrip_single / _single_modes / C05_roundtrip
   hold for ANY trex).  get_trex (C19FragModel.v) is MvexBox.GetTrex on a tree of the box model. *)

(* for EVERY history in the scope of C19_roundtrip: the DECODED init holds, for every track id, the trex that CreateTrex
   built: that track id, default sample duration / size / flags 0, default sample description index 1 (the first entry
   of stsd); and the track ids are pairwise different (so CreateMultiTrackFragment over them is well formed) *)
Theorem C19_init_trex :
  forall (avc_parse : avc_parser) (hevc_parse : hevc_parser) (ops : list op),
    N.of_nat (length ops) < 4294967295 ->
    let s := snd (run avc_parse hevc_parse ops) in
    args_okb s = true -> forall ts, tree_of s = Some ts -> forallb enc_fits ts = true ->
    exists bs, encode_seq false ts = Ok bs /\ decode_file bs = Ok ts
      /\ NoDup (map tk_id (traks s))
      /\ forall t, In t (traks s) ->
           get_trex ts (tk_id t) = Some (C05Model.mkTrex (tk_id t) 0 0 0) /\ get_trex_dsdi ts (tk_id t) = Some 1.
Proof. exact init_trex. Qed.
Print Assumptions C19_init_trex.

(* C19_fragments_decode: every history, every track id T of the built init: a fragment made by CreateFragment(seq, T),
   ANY history of AddFullSample / AddFullSampleToTrack (other ids are refused) adding at least one sample, Sample.Size =
   len(Data), decode times consistent with the durations, optimisation on or off, any extra boxes, below 2 GiB: if
   Fragment.Encode succeeds, then the decoded fragment read through the trex that GetTrex(T) finds in the DECODED init
   (decode_file (encode ts) = ts) returns exactly the samples added, in order, with bytes, sizes, durations, flags,
   composition offsets and decode times -- and nothing through the trex of any other track of the init. *)
Theorem C19_fragments_decode :
  forall (avc_parse : avc_parser) (hevc_parse : hevc_parser) (ops : list op),
    N.of_nat (length ops) < 4294967295 ->
    let s := snd (run avc_parse hevc_parse ops) in
    args_okb s = true -> forall ts, tree_of s = Some ts -> forallb enc_fits ts = true ->
    exists bs, encode_seq false ts = Ok bs /\ decode_file bs = Ok ts
      /\ forall t, In t (traks s) ->
         let T := tk_id t in
         forall fops cs fr opt fe pos0 pre mx post exs,
           N.of_nat (length fops) < 4294967296 -> forallb C05HistProofs.is_full fops = true ->
           Forall (fun o => C05ReadProofs.sized_f (C05GhostProofs.op_full o)) fops ->
           C05FragModel.run_ops (C05FragModel.with_extras (C05FragModel.create_fragment T) pre mx post exs) fops = (cs, Some fr) ->
           C05FragModel.encode_frag opt fr = Ok fe ->
           C05RoundProofs.added1_fulls T fops <> [] ->
           C05FragModel.moof_size fe + C05FragModel.md_header_size (C05FragModel.fr_mdat fe)
             + lenN (C05FragModel.md_data (C05FragModel.fr_mdat fr)) < 2147483648 ->
           pos0 + C05FragModel.fr_pre fe < 4611686018427387904 ->
           C05RoundProofs.consistent (C05RoundProofs.added1_fulls T fops) ->
           C05FragModel.get_full_samples (C05FragModel.decoded_view fe pos0 []) (get_trex ts T)
           = Ok (C05RoundProofs.added1_fulls T fops)
           /\ forall t2, In t2 (traks s) -> tk_id t2 <> T ->
                C05FragModel.get_full_samples (C05FragModel.decoded_view fe pos0 []) (get_trex ts (tk_id t2)) = Ok [].
Proof. exact fragments_decode. Qed.
Print Assumptions C19_fragments_decode.

(* the same under ALL six add operations (AddFullSample, AddFullSampleToTrack, AddSampleToTrack, AddSample, AddSamples,
   AddSampleInterval; one data mode per fragment, C05's mode_ok; lz = the data the caller writes after a metadata-only
   fragment): the samples come back with their data pieces and decode times tb + accumulated durations *)
Theorem C19_fragments_decode_modes :
  forall (avc_parse : avc_parser) (hevc_parse : hevc_parser) (ops : list op),
    N.of_nat (length ops) < 4294967295 ->
    let s := snd (run avc_parse hevc_parse ops) in
    args_okb s = true -> forall ts, tree_of s = Some ts -> forallb enc_fits ts = true ->
    exists bs, encode_seq false ts = Ok bs /\ decode_file bs = Ok ts
      /\ forall t, In t (traks s) ->
         let T := tk_id t in
         forall fops cs fr opt fe pos0 pre mx post exs FL lz,
           Forall (fun o => C05HistProofs.op_dts o < 18446744073709551616) fops ->
           C05FragModel.run_ops (C05FragModel.with_extras (C05FragModel.create_fragment T) pre mx post exs) fops = (cs, Some fr) ->
           C05SingleProofs.mode_ok fops cs FL lz ->
           map C05Model.fs_s FL = C05HistProofs.added1 T fops -> Forall C05ReadProofs.sized_f FL -> FL <> [] ->
           C05FragModel.encode_frag opt fr = Ok fe ->
           C05FragModel.moof_size fe + C05FragModel.md_header_size (C05FragModel.fr_mdat fe)
             + lenN (flat_map C05Model.fs_data FL) < 2147483648 ->
           pos0 + C05FragModel.fr_pre fe < 4611686018427387904 ->
           exists tb,
             C05FragModel.get_full_samples (C05FragModel.decoded_view fe pos0 lz) (get_trex ts T)
             = Ok (C05ReadProofs.retime tb FL).
Proof. exact fragments_decode_modes. Qed.
Print Assumptions C19_fragments_decode_modes.

(* multi-track fragments: CreateMultiTrackFragment(seq, tracks) for ANY duplicate-free id list (e.g. all the ids of the
   init: they are pairwise different), any history of AddFullSampleToTrack: every track of the init reads back, through ITS
   trex of the decoded init, exactly the samples added to it (nothing if it is not part of the fragment) *)
Theorem C19_fragments_decode_multi :
  forall (avc_parse : avc_parser) (hevc_parse : hevc_parser) (ops : list op),
    N.of_nat (length ops) < 4294967295 ->
    let s := snd (run avc_parse hevc_parse ops) in
    args_okb s = true -> forall ts, tree_of s = Some ts -> forallb enc_fits ts = true ->
    exists bs, encode_seq false ts = Ok bs /\ decode_file bs = Ok ts
      /\ NoDup (map tk_id (traks s))
      /\ forall tracks fops cs fr opt fe pos0 pre mx post exs,
           NoDup tracks -> N.of_nat (length fops) < 4294967296 -> forallb C05GhostProofs.is_full_to fops = true ->
           Forall (fun o => C05ReadProofs.sized_f (C05GhostProofs.op_full o)) fops ->
           C05FragModel.run_ops (C05FragModel.with_extras (C05FragModel.create_multi tracks) pre mx post exs) fops = (cs, Some fr) ->
           C05FragModel.encode_frag opt fr = Ok fe ->
           C05FragModel.moof_size fe + C05FragModel.md_header_size (C05FragModel.fr_mdat fe)
             + lenN (C05FragModel.md_data (C05FragModel.fr_mdat fr)) < 2147483648 ->
           pos0 + C05FragModel.fr_pre fe < 4611686018427387904 ->
           forall t, In t (traks s) ->
             C05RoundProofs.consistent (C05RoundProofs.added_fulls tracks (tk_id t) fops) ->
             C05FragModel.get_full_samples (C05FragModel.decoded_view fe pos0 []) (get_trex ts (tk_id t))
             = Ok (C05RoundProofs.added_fulls tracks (tk_id t) fops).
Proof. exact fragments_decode_multi. Qed.
Print Assumptions C19_fragments_decode_multi.

(* Outside the quantifier (history starting from a DECODED init), reproduced on the real code by the harness:
   AddEmptyTrack repeats an id when the decoded ids are not 1..n, and does not keep the traks together when the
   first moov child is a trak (lastTrakIdx = 0 is read as "no trak"). *)
Theorem C19_decoded_duplicate_id_refuted :
  exists s s', s = mkSt [MCmvhd; MCtrak 0; MCmvex] [some_trak 2] [2] 3
               /\ add_empty_track s 1000 (BS "audio") (BS "eng") = (OOk, s')
               /\ map tk_id (traks s') = [2; 2] /\ trexs s' = [2; 2].
Proof. exact add_after_decode_duplicate_id. Qed.
Print Assumptions C19_decoded_duplicate_id_refuted.

Theorem C19_decoded_not_contiguous_refuted :
  exists s s', s = mkSt [MCtrak 0; MCmvhd; MCmvex] [some_trak 1] [1] 2
               /\ add_empty_track s 1000 (BS "audio") (BS "eng") = (OOk, s')
               /\ children s' = [MCtrak 0; MCmvhd; MCmvex; MCtrak 1].
Proof. exact add_after_decode_not_contiguous. Qed.
Print Assumptions C19_decoded_not_contiguous_refuted.

(* ------------------------------------------------------------------ the hypotheses are satisfiable *)
Example C19_elng_hyp : no_nul (BS "zh-Hant") = true /\ (2 <= length (BS "en"))%nat.
Proof. split; vm_compute; [reflexivity|lia]. Qed.

Example C19_tracks_hyp : N.of_nat (length ex_ops) < 4294967295 /\ ops_valid 0 ex_ops = true.
Proof. split; vm_compute; reflexivity. Qed.

(* ... and the run is what the theorems say: five tracks, ids 1..5, next id 6, all calls succeed *)
Example C19_tracks_run :
  let '(ocs, s) := run ex_avc_parse ex_hevc_parse ex_ops in
  ocs = repeat OOk 10 /\ map tk_id (traks s) = [1; 2; 3; 4; 5] /\ trexs s = [1; 2; 3; 4; 5] /\ next_id s = 6
  /\ map hd_type (traks s) = [BS "vide"; BS "soun"; BS "subt"; BS "vide"; BS "soun"]
  /\ map (fun t => length (sd_entries t)) (traks s) = [1; 1; 1; 1; 1]%nat.
Proof. vm_compute. repeat split; reflexivity. Qed.

Example C19_language_hyp : lower 115 = true /\ lower 119 = true /\ lower 101 = true /\ pack3 115 119 101 = 20197.
Proof. vm_compute. repeat split; reflexivity. Qed.

Example C19_aac_domain_hyp : In (29, 24000) aac_domain /\ In (2, 96000) aac_domain.
Proof. split; vm_compute; tauto. Qed.

(* the record hypotheses are satisfiable: High 4:4:4 Predictive (244), 4:4:4, 10/12 bit, two SPS, one PPS ... *)
Definition ex_avcrec : avcrec := mkAvcRec 244 0 51 [[103; 244; 0; 51; 1]; [103; 244]] [[104; 206; 56; 128]] 3 2 4 0 false.
Example C19_avcrec_hyp :
  avcrec_ok ex_avcrec = true /\ avc_has_trailing ex_avcrec = true /\ avcrec_size ex_avcrec = 28
  /\ avcrec_decode (avcrec_encode ex_avcrec) = Ok ex_avcrec.
Proof. vm_compute. repeat split; reflexivity. Qed.

(* ... and the trailing bytes are what makes the difference: without them the same record reads back as
   monochrome 8 bit with NoTrailingInfo (what a writer that omits them for profile 244 would produce) *)
Example C19_avcrec_without_trailing :
  avcrec_decode (avcrec_encode (mkAvcRec 244 0 51 [[103; 244; 0; 51; 1]; [103; 244]] [[104; 206; 56; 128]] 3 2 4 0 true))
  = Ok (mkAvcRec 244 0 51 [[103; 244; 0; 51; 1]; [103; 244]] [[104; 206; 56; 128]] 0 0 0 0 true).
Proof. vm_compute. reflexivity. Qed.

Definition ex_hvcrec : hvcrec :=
  mkHvcRec 1 0 true 4 134217728 158329674399744 153 0 0 3 4 4 0 0 0 0 3 [(160, [[64; 1; 12]]); (161, [[66; 1; 1]; [66; 1; 2]]); (162, [])].
Example C19_hvcrec_hyp :
  hvcrec_ok ex_hvcrec = true /\ hvcrec_size ex_hvcrec = 47 /\ hvcrec_decode (hvcrec_encode ex_hvcrec) = Ok ex_hvcrec.
Proof. vm_compute. repeat split; reflexivity. Qed.

(* a parser whose answers are in range (the answer of the real parser for the 960x540 SPS of examples/initcreator) *)
Definition ex_hevc_const : hevc_parser := fun _ => Some (960, 540, [0; 0; 2; 536870912; 0; 123; 1; 2; 2]).
Example C19_record_hyp :
  nalus_fit 32 [[103; 100; 0; 32]] = true /\ nalus_fit 256 [[104; 181]] = true
  /\ (forall sps w h cfg, ex_hevc_const sps = Some (w, h, cfg) -> hevc_cfg_ok cfg = true).
Proof.
  split; [vm_compute; reflexivity|]. split; [vm_compute; reflexivity|].
  intros sps w h cfg E. unfold ex_hevc_const in E. inversion E. vm_compute. reflexivity.
Qed.

(* the small scope is not empty or trivial: 271 histories; number 209 is a two-track history of five calls: a video
   track with an avc3 and then a hev1 sample entry, and an audio track with a descriptor (E-AC-3) *)
Example C19_small_scope_hyp :
  lenN small_scope = 271 /\ In (nth 92 small_scope []) small_scope
  /\ map (fun o => match o with AddEmptyTrack _ m _ => m | SetDesc _ (DAvc n _ _ _) => n | SetDesc _ (DHevc n _ _ _ _ _) => n
                               | SetDesc _ _ => [] end) (nth 92 small_scope [])
     = [BS "video"; BS "avc3"; BS "hev1"; BS "audio"; []].
Proof.
  split; [exact small_scope_size|]. split; [|vm_compute; reflexivity].
  apply nth_In. pose proof small_scope_size as Z. unfold lenN in Z. lia.
Qed.

(* the values CreateEmptyTrak / CreateVisualSampleEntryBox write are in the ranges of the box round trips *)
Example C19_box_roundtrip_hyp :
  lenN compressor_name <= 31 /\ 4718592 < 4294967296
  /\ exists b, body_leaf (LTkhd 0 7 0 0 3 0 0 0 256 83886080 47185920) (dflt_rsv (LTkhd 0 7 0 0 3 0 0 0 256 83886080 47185920)) = Ok b
              /\ lenN b = 84.
Proof. split; [vm_compute; discriminate|]. split; [reflexivity|]. eexists. split; [reflexivity|]. vm_compute. reflexivity. Qed.

(* the hypotheses of C19_roundtrip are satisfiable: the five-call history above (AVC + HEVC video, E-AC-3 audio) *)
Example C19_roundtrip_hyp :
  let s := snd (run ex_avc_parse ex_hevc_parse (nth 92 small_scope [])) in
  args_okb s = true /\ match tree_of s with Some ts => forallb enc_fits ts | None => false end = true
  /\ length (traks s) = 2%nat.
Proof. vm_compute. repeat split; reflexivity. Qed.

(* the argument hypotheses are satisfiable: constant in-range parsers and the ten calls of ex_ops *)
Definition ex_avc_const : avc_parser := fun _ => Some (1280, 720, (244, 0, 51, (3, 2, 2))).
Example C19_roundtrip_inputs_hyp :
  avc_parser_ok ex_avc_const /\ hevc_parser_ok ex_hevc_const /\ forallb op_args_okb ex_ops = true.
Proof.
  split; [|split].
  - intros sps w h pr c l x E. unfold ex_avc_const in E. inversion E. repeat split; reflexivity.
  - intros sps w h cfg E. unfold ex_hevc_const in E. inversion E. split; vm_compute; reflexivity.
  - vm_compute. reflexivity.
Qed.

(* the hypotheses of C19_fragments_decode are satisfiable and its conclusion computes: the two-track init of
   C19_roundtrip_hyp (video + audio), a fragment for track 2 with three full samples (one addressed to an unknown id is
   refused), optimisation on, read through the trex found in the decoded init *)
Example C19_fragments_decode_hyp :
  let s := snd (run ex_avc_parse ex_hevc_parse (nth 92 small_scope [])) in
  let sm k := C05Model.mkSample 16842752 10 k 0 in
  let fops := [C05FragModel.OFull (sm 2) 500 [1; 2]; C05FragModel.OFullTo 9 (sm 1) 0 [9]; C05FragModel.OFull (sm 1) 510 [3];
               C05FragModel.OFullTo 2 (sm 3) 520 [4; 5; 6]] in
  map tk_id (traks s) = [1; 2]
  /\ forallb C05HistProofs.is_full fops = true
  /\ Forall (fun o => C05ReadProofs.sized_f (C05GhostProofs.op_full o)) fops
  /\ C05RoundProofs.consistent (C05RoundProofs.added1_fulls 2 fops)
  /\ exists ts fr fe,
       tree_of s = Some ts
       /\ get_trex ts 2 = Some (C05Model.mkTrex 2 0 0 0)
       /\ C05FragModel.run_ops (C05FragModel.with_extras (C05FragModel.create_fragment 2) 20 0 8 [5]) fops
          = ([C05FragModel.COk; C05FragModel.CErr; C05FragModel.COk; C05FragModel.COk], Some fr)
       /\ C05FragModel.encode_frag true fr = Ok fe
       /\ C05FragModel.get_full_samples (C05FragModel.decoded_view fe 300 []) (get_trex ts 2)
          = Ok [C05Model.mkFull (sm 2) 500 [1; 2]; C05Model.mkFull (sm 1) 510 [3]; C05Model.mkFull (sm 3) 520 [4; 5; 6]].
Proof.
  split; [vm_compute; reflexivity|]. split; [reflexivity|]. split; [repeat constructor|].
  split; [split; [cbn; lia|reflexivity]|].
  eexists; eexists; eexists. split; [vm_compute; reflexivity|]. split; [vm_compute; reflexivity|].
  split; [vm_compute; reflexivity|]. split; [vm_compute; reflexivity|]. vm_compute. reflexivity.
Qed.

(* the hypotheses of C19_descriptor_avc_dims / _hevc_dims are satisfiable, with everything the cropped size must NOT
   depend on or must depend on: C15's ex_sps is High 4:2:2, field coded (frame_mbs_only_flag 0), cropped (1,2,3,1), with a
   VUI whose sample aspect ratio is 40:33 (aspect_ratio_idc 255): 120x34 map units -> 1914 x 1080, the same as without VUI
   (and NOT 1914*40/33 = 2320); ex_hsps is 1920x1088 4:2:0 with a conformance window and SAR 4:3 -> 1920 x 1080 *)
Example C19_descriptor_dims_hyp :
  C15Spec.sps_valid C15Examples.ex_sps = true
  /\ (C15Spec.sar_width (C15Spec.vui_params C15Examples.ex_sps), C15Spec.sar_height (C15Spec.vui_params C15Examples.ex_sps)) = (40, 33)
  /\ C15Spec.frame_mbs_only_flag C15Examples.ex_sps = false /\ C15Spec.frame_cropping_flag C15Examples.ex_sps = true
  /\ (C15Spec.display_width C15Examples.ex_sps, C15Spec.display_height C15Examples.ex_sps) = (1914, 1080)
  /\ (C15Spec.display_width C15Examples.ex_sps_novui, C15Spec.display_height C15Examples.ex_sps_novui) = (1914, 1080)
  /\ (exists t', set_avc c15_avc_parser (some_trak 1) (BS "avc1") [C15Spec.nalu_sps C15Examples.ex_sps] [[104; 206; 56; 128]] true = (OOk, t')
                 /\ map (fun e => (se_a e, se_b e)) (sd_entries t') = [(1914, 1080)] /\ tk_width t' = 125435904)
  /\ C15HevcSpec.hsps_valid C15HevcExamples.ex_hsps = true
  /\ (C15HevcSpec.h_display_width C15HevcExamples.ex_hsps, C15HevcSpec.h_display_height C15HevcExamples.ex_hsps) = (1920, 1080)
  /\ (exists t', set_hevc c15_hevc_parser (some_trak 1) (BS "hev1") [] [C15HevcSpec.hnalu_sps C15HevcExamples.ex_hsps] [] [] true = (OOk, t')
                 /\ map (fun e => (se_a e, se_b e)) (sd_entries t') = [(1920, 1080)]).
Proof.
  split; [vm_compute; reflexivity|]. split; [reflexivity|]. split; [reflexivity|]. split; [reflexivity|].
  split; [vm_compute; reflexivity|]. split; [vm_compute; reflexivity|].
  split; [eexists; split; [vm_compute; reflexivity|]; split; vm_compute; reflexivity|].
  split; [vm_compute; reflexivity|]. split; [vm_compute; reflexivity|].
  eexists; split; [vm_compute; reflexivity|]; vm_compute; reflexivity.
Qed.

(* the hypotheses of C19_descriptor_aac_typed are satisfiable: HE-AAC v1 at 24000 Hz on an empty audio track: the
   four configuration bytes are computed, the typed entry exists, C18 reads 5 / 24000 / 2 / 48000 back *)
Example C19_descriptor_aac_typed_hyp :
  exists t' asc,
    set_aac (some_trak 1) 5 24000 = (OOk, t') /\ 24000 < 8388608
    /\ map se_cfg (sd_entries t') = [CfgEsds asc] /\ lenN asc = 4
    /\ C18Model.decode_asc asc = Ok (C18Model.mkAsc 5 2 24000%Z 48000%Z true false)
    /\ lenN asc <= 100.
Proof.
  eexists; eexists. split; [vm_compute; reflexivity|]. split; [reflexivity|]. split; [reflexivity|].
  split; [vm_compute; reflexivity|]. split; [vm_compute; reflexivity|]. vm_compute. discriminate.
Qed.

(* the hypotheses of C19_fragments_decode_multi are satisfiable and its conclusion computes: the same two-track init, ONE
   multi-track fragment over both ids with alternating runs and an addition to an unknown id (refused), optimisation on: each
   track reads back, through its own trex of the decoded init, exactly what was added to it *)
Example C19_fragments_decode_multi_hyp :
  let s := snd (run ex_avc_parse ex_hevc_parse (nth 92 small_scope [])) in
  let sm k := C05Model.mkSample 16842752 10 k 0 in
  let fops := [C05FragModel.OFullTo 2 (sm 1) 100 [1]; C05FragModel.OFullTo 2 (sm 2) 110 [2; 3]; C05FragModel.OFullTo 1 (sm 1) 0 [4];
               C05FragModel.OFullTo 9 (sm 1) 0 [9]; C05FragModel.OFullTo 2 (sm 1) 120 [5]] in
  NoDup (map tk_id (traks s)) /\ forallb C05GhostProofs.is_full_to fops = true
  /\ Forall (fun o => C05ReadProofs.sized_f (C05GhostProofs.op_full o)) fops
  /\ C05RoundProofs.consistent (C05RoundProofs.added_fulls [1; 2] 2 fops)
  /\ exists ts fr fe,
       tree_of s = Some ts
       /\ C05FragModel.run_ops (C05FragModel.with_extras (C05FragModel.create_multi (map tk_id (traks s))) 77 9 12 [0; 26]) fops
          = ([C05FragModel.COk; C05FragModel.COk; C05FragModel.COk; C05FragModel.CErr; C05FragModel.COk], Some fr)
       /\ C05FragModel.encode_frag true fr = Ok fe
       /\ C05FragModel.get_full_samples (C05FragModel.decoded_view fe 1000 []) (get_trex ts 2)
          = Ok [C05Model.mkFull (sm 1) 100 [1]; C05Model.mkFull (sm 2) 110 [2; 3]; C05Model.mkFull (sm 1) 120 [5]]
       /\ C05FragModel.get_full_samples (C05FragModel.decoded_view fe 1000 []) (get_trex ts 1)
          = Ok [C05Model.mkFull (sm 1) 0 [4]].
Proof.
  split; [vm_compute; repeat constructor; cbn; intuition congruence|]. split; [reflexivity|]. split; [repeat constructor|].
  split; [split; [cbn; lia|reflexivity]|].
  eexists; eexists; eexists. split; [vm_compute; reflexivity|]. split; [vm_compute; reflexivity|].
  split; [vm_compute; reflexivity|]. split; vm_compute; reflexivity.
Qed.

(* ... and of C19_fragments_decode_modes, metadata-only mode: AddSamples of two samples, an AddSampleToTrack for another id
   (refused), AddSample; the caller writes the 6 data bytes after the fragment *)
Example C19_fragments_decode_modes_hyp :
  let s := snd (run ex_avc_parse ex_hevc_parse (nth 92 small_scope [])) in
  let sm k := C05Model.mkSample 16842752 10 k 0 in
  let fops := [C05FragModel.OMetas [sm 2; sm 1] 500; C05FragModel.OMetaTo 9 (sm 1) 0; C05FragModel.OMeta (sm 3) 520] in
  let FL := [C05Model.mkFull (sm 2) 0 [1; 2]; C05Model.mkFull (sm 1) 0 [3]; C05Model.mkFull (sm 3) 0 [4; 5; 6]] in
  exists ts fr fe,
    tree_of s = Some ts
    /\ C05FragModel.run_ops (C05FragModel.with_extras (C05FragModel.create_fragment 2) 20 0 8 [5]) fops
       = ([C05FragModel.COk; C05FragModel.CErr; C05FragModel.COk], Some fr)
    /\ C05SingleProofs.mode_ok fops [C05FragModel.COk; C05FragModel.CErr; C05FragModel.COk] FL [1; 2; 3; 4; 5; 6]
    /\ map C05Model.fs_s FL = C05HistProofs.added1 2 fops /\ Forall C05ReadProofs.sized_f FL
    /\ C05FragModel.encode_frag true fr = Ok fe
    /\ C05FragModel.get_full_samples (C05FragModel.decoded_view fe 300 [1; 2; 3; 4; 5; 6]) (get_trex ts 2)
       = Ok [C05Model.mkFull (sm 2) 500 [1; 2]; C05Model.mkFull (sm 1) 510 [3]; C05Model.mkFull (sm 3) 520 [4; 5; 6]].
Proof.
  eexists; eexists; eexists. split; [vm_compute; reflexivity|]. split; [vm_compute; reflexivity|].
  split; [right; left; split; reflexivity|]. split; [reflexivity|]. split; [repeat constructor|].
  split; [vm_compute; reflexivity|]. vm_compute. reflexivity.
Qed.

(* the hypotheses of C19_decoded_init_aac are satisfiable: the ten calls of ex_ops (five tracks; track 2 gets HE-AAC v1 at
   24000 Hz between an AVC and an stpp descriptor call): all AAC frequencies are small, the state is in range, and the final
   state does hold an esds entry on track 2 *)
Example C19_decoded_init_aac_hyp :
  let s := snd (run ex_avc_parse ex_hevc_parse ex_ops) in
  Forall aac_small ex_ops /\ args_okb s = true
  /\ match tree_of s with Some ts => forallb enc_fits ts | None => false end = true
  /\ exists t e asc, nth_error (traks s) 1 = Some t /\ sd_entries t = [e] /\ se_cfg e = CfgEsds asc /\ lenN asc = 4.
Proof.
  split; [repeat constructor|]. split; [vm_compute; reflexivity|]. split; [vm_compute; reflexivity|].
  eexists; eexists; eexists. split; [vm_compute; reflexivity|]. split; [reflexivity|]. split; reflexivity.
Qed.

(* ------------------------------------------------------------------ AC-3 / Enhanced AC-3 configuration boxes, TYPED decoding
   (C19Ac3Model.v: decodeDac3FromData / decodeDec3FromData over C13's model of bits.Reader; round 4) *)

(* EVERY dac3 whose fields fit their bits (fscod 2, bsid 5, bsmod 3, acmod 3, lfeon 1, bit_rate_code 5): the 3 bytes
   Dac3Box.EncodeSW writes decode, with the real decoder's algorithm, to the fields supplied, Reserved 0, no initial zeroes *)
Theorem C19_dac3_roundtrip :
  forall d, dac3_okb d = true -> dac3_decode (dac3_payload d) = Ok (d, 0, 0).
Proof. exact C19Ac3Proofs.dac3_roundtrip. Qed.
Print Assumptions C19_dac3_roundtrip.

(* EVERY dec3 with a 13-bit data rate and 1..8 substreams whose fields fit their bits (chan_loc 9 bits next to a non-zero
   num_dep_sub, 0 otherwise: the box has no chan_loc without dependent substreams): the bytes Dec3Box.EncodeSW writes decode
   to the SAME substream list, in order, with nothing left over as Reserved *)
Theorem C19_dec3_roundtrip :
  forall d, dec3_okb d = true -> exists p, dec3_payload d = Some p /\ dec3_decode p = Ok (d, []).
Proof. exact C19Ac3Proofs.dec3_roundtrip. Qed.
Print Assumptions C19_dec3_roundtrip.

(* the guard on chan_loc is exact: a ChanLoc next to NumDepSub = 0 is not written, the decoder returns 0 *)
Theorem C19_dec3_chanloc_refuted :
  exists d p, dec3_payload d = Some p /\ dec3_decode p <> Ok (d, []) /\
              d = mkDec3 640 [mkEc3Sub 0 16 0 0 7 1 0 5].
Proof. exact C19Ac3Proofs.dec3_chanloc_refuted. Qed.
Print Assumptions C19_dec3_chanloc_refuted.

(* "a sample entry whose ... codec configuration ... equal those supplied", for AC-3 / E-AC-3 at the level of the BYTES of the
   sample entry: a successful Set{AC3,EC3}Descriptor with such a configuration adds one entry whose box is the audio sample
   entry with a dac3 / dec3 child, and the child's payload decodes to exactly the configuration supplied.  (C19_roundtrip:
   that payload is what C01's decoder returns inside the decoded init.) *)
Theorem C19_descriptor_ac3_decoded :
  forall t d t',
    dac3_okb d = true -> set_ac3 t d = (OOk, t') ->
    exists e, sd_entries t' = sd_entries t ++ [e] /\ se_cfg e = CfgDac3 d /\
              entry_box e = Some (preb (LAudio (se_name e) (se_dref e) (se_a e) (se_b e) (se_c e))
                                       [unkb n_dac3 (dac3_payload d)]) /\
              dac3_decode (dac3_payload d) = Ok (d, 0, 0).
Proof. exact C19Ac3Proofs.descriptor_ac3_decoded. Qed.
Print Assumptions C19_descriptor_ac3_decoded.

Theorem C19_descriptor_ec3_decoded :
  forall t d t',
    dec3_okb d = true -> set_ec3 t d = (OOk, t') ->
    exists e p, sd_entries t' = sd_entries t ++ [e] /\ se_cfg e = CfgDec3 d /\
                entry_box e = Some (preb (LAudio (se_name e) (se_dref e) (se_a e) (se_b e) (se_c e)) [unkb n_dec3 p]) /\
                dec3_decode p = Ok (d, []).
Proof. exact C19Ac3Proofs.descriptor_ec3_decoded. Qed.
Print Assumptions C19_descriptor_ec3_decoded.

(* the hypotheses are satisfiable: 5.1 AC-3 at 384 kbit/s; E-AC-3 with three substreams, the first with a dependent
   substream carrying Lrs/Rrs (7.1); both calls succeed on an audio track *)
Example C19_descriptor_ac3_decoded_hyp :
  let d := mkDac3 0 8 0 7 1 14 in
  dac3_okb d = true /\ dac3_payload d = [16; 61; 192] /\
  match create_empty_trak 1 48000 (BS "audio") (BS "en") with
  | Some t => exists t', set_ac3 t d = (OOk, t')
  | None => False
  end.
Proof. vm_compute. repeat split. eexists. reflexivity. Qed.

Example C19_descriptor_ec3_decoded_hyp :
  let d := mkDec3 768 [mkEc3Sub 0 16 0 0 7 1 1 2; mkEc3Sub 1 16 1 2 2 0 0 0; mkEc3Sub 2 31 0 7 0 1 15 511] in
  dec3_okb d = true /\
  match create_empty_trak 1 48000 (BS "audio") (BS "en") with
  | Some t => exists t', set_ec3 t d = (OOk, t')
  | None => False
  end.
Proof. vm_compute. split; [reflexivity|]. eexists. reflexivity. Qed.
