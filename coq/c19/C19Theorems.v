(* C19Theorems.v — the property theorems of C19 and nothing else.  Each is closed by `exact <lemma>`
   and followed by Print Assumptions (audited by ./check on every run). *)
From Coq Require Import String Ascii.
From V.lib Require Import Base.
From V.c19 Require Import C19Model C19Spec C19InvProofs.

(* For EVERY op sequence (any arguments, including calls that return an error or panic; the history stops
   at the first panic), every SPS parser: in the final state the moov children are mvhd, mvex and then the
   traks, contiguous and in Traks order; track ids are exactly 1..n in order; there is one trex per track
   with the same id in the same order; the next-track id is larger than every track id.
   The bound is the uint32 track id: fewer than 2^32-1 calls. *)
Theorem C19_inv :
  forall (avc_parse : str -> option (N * N * (N * N * N))) (hevc_parse : str -> option (N * N * list N))
         (ops : list op),
    N.of_nat (length ops) < 4294967295 ->
    let s := snd (run avc_parse hevc_parse ops) in inv_struct s /\ next_above s.
Proof. exact inv_all. Qed.
Print Assumptions C19_inv.
