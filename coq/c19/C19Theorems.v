(* C19Theorems.v — the property theorems of C19 and nothing else.  Each is closed by `exact <lemma>`
   and followed by Print Assumptions (audited by ./check on every run). *)
From Coq Require Import String Ascii.
From V.lib Require Import Base.
From V.c19 Require Import C19Model C19Spec C19InvProofs C19TrackProofs C19DescProofs C19ElngProofs C19ScopeProofs C19Witness.


(* For EVERY op sequence (any arguments, including calls that return an error or panic; the history stops
   at the first panic), every SPS parser: in the final state the moov children are mvhd, mvex and then the
   traks, contiguous and in Traks order; track ids are exactly 1..n in order; there is one trex per track
   with the same id in the same order; the next-track id is larger than every track id.
   The bound is the uint32 track id: fewer than 2^32-1 calls. *)
Theorem C19_inv :
  forall (avc_parse : avc_parser) (hevc_parse : hevc_parser) (ops : list op),
    N.of_nat (length ops) < 4294967295 ->
    let s := snd (run avc_parse hevc_parse ops) in inv_struct s /\ next_above s.
Proof. exact inv_all. Qed.
Print Assumptions C19_inv.

(* what decoding a fragment against the init relies on: track ids are unique, trex ids are unique, and
   MvexBox.GetTrex(id) finds a trex for every track of the init, after any history *)
Theorem C19_trex_lookup :
  forall (avc_parse : avc_parser) (hevc_parse : hevc_parser) (ops : list op),
    N.of_nat (length ops) < 4294967295 ->
    let s := snd (run avc_parse hevc_parse ops) in
    NoDup (map tk_id (traks s)) /\ NoDup (trexs s)
    /\ (forall t, In t (traks s) -> In (tk_id t) (trexs s))
    /\ length (trexs s) = length (traks s).
Proof. exact trex_lookup. Qed.
Print Assumptions C19_trex_lookup.

(* In-scope histories (media types of the specification table, descriptor calls on existing tracks with a
   non-empty SPS list / fscod < 3 / acmod < 8 / at least one EC-3 substream): no call panics, every call is
   executed, the next-track id is n+1 (2 while there is no track), and track i has id i+1, the supplied timescale,
   volume 1.0 only for audio, the handler type and media header box of the table, and the language rule
   (3 bytes: packed into mdhd, no elng; otherwise mdhd "und" and elng carrying the tag verbatim) --
   whatever descriptor calls came in between. *)
Theorem C19_tracks :
  forall (avc_parse : avc_parser) (hevc_parse : hevc_parser) (ops : list op),
    N.of_nat (length ops) < 4294967295 ->
    ops_valid 0 ops = true ->
    let '(ocs, s) := run avc_parse hevc_parse ops in
    ~ In OPanic ocs
    /\ length ocs = length ops
    /\ map Some (map core (traks s)) = spec_cores 0 (adds_of ops)
    /\ next_spec s.
Proof. exact valid_histories. Qed.
Print Assumptions C19_tracks.

(* three lower-case letters packed into mdhd read back (GetLanguage) as the same letters *)
Theorem C19_language_readback :
  forall a b c, lower a = true -> lower b = true -> lower c = true ->
    spec_mdhd_lang [a; b; c] = pack3 a b c /\ get_language (pack3 a b c) = [a; b; c].
Proof. exact language_readback. Qed.
Print Assumptions C19_language_readback.

(* SetHEVCDescriptor uses the result of CreateHvcC before looking at err; that nil dereference is not
   reachable: with a non-empty SPS list the call never panics (the SPS was parsed a few lines earlier) *)
Theorem C19_hevc_nil_unreachable :
  forall (hevc_parse : hevc_parser) t name vpss sps0 spss ppss seis incl,
    fst (set_hevc hevc_parse t name vpss (sps0 :: spss) ppss seis incl) <> OPanic.
Proof. exact (set_hevc_never_panics_on_nil_hvcc (fun _ => None)). Qed.
Print Assumptions C19_hevc_nil_unreachable.

(* every sample entry of every track, after any history, has data reference index 1 (the one url entry of dref) *)
Theorem C19_dref :
  forall (avc_parse : avc_parser) (hevc_parse : hevc_parser) (ops : list op),
    entries_dref_ok (snd (run avc_parse hevc_parse ops)).
Proof. exact dref_all. Qed.
Print Assumptions C19_dref.

(* a call adds exactly one sample entry when it succeeds and none otherwise *)
Theorem C19_descriptor_one_entry :
  forall (avc_parse : avc_parser) (hevc_parse : hevc_parser) t d,
    let '(oc, t') := set_desc avc_parse hevc_parse t d in
    match oc with
    | OOk => exists e, sd_entries t' = sd_entries t ++ [e] /\ se_dref e = 1
    | _ => sd_entries t' = sd_entries t
    end.
Proof. exact set_desc_entries. Qed.
Print Assumptions C19_descriptor_one_entry.

(* SetAVCDescriptor: entry name as requested, width/height = the parser's (16 bit), tkhd = 16.16 fixed point,
   avcC carries the SPS's profile/compatibility/level, chroma format and bit depths (which fit their 2-/3-bit fields)
   and exactly the supplied parameter sets (none if not included) *)
Theorem C19_descriptor_avc :
  forall (avc_parse : avc_parser) t name spss ppss incl t',
    set_avc avc_parse t name spss ppss incl = (OOk, t') ->
    exists sps0 rest w h p c l cf bl bc,
      spss = sps0 :: rest /\ avc_parse sps0 = Some (w, h, (p, c, l, (cf, bl, bc)))
      /\ cf <= 3 /\ bl <= 7 /\ bc <= 7
      /\ (name = BS "avc1" \/ name = BS "avc3")
      /\ sd_entries t' = sd_entries t ++
           [mkSE name 1 (w mod 65536) (h mod 65536) 0
                 (CfgAvcC (mkAvcC p c l (if incl then spss else []) (if incl then ppss else []) cf bl bc))]
      /\ tk_width t' = (w * 65536) mod 4294967296 /\ tk_height t' = (h * 65536) mod 4294967296
      /\ core t' = core t.
Proof. exact set_avc_ok. Qed.
Print Assumptions C19_descriptor_avc.

(* SetHEVCDescriptor: hvcC carries the parser's configuration values and the VPS/SPS/PPS(/SEI) arrays with
   NAL unit types 32/33/34(/39), the complete bit for hvc1, exactly the supplied NAL units *)
Theorem C19_descriptor_hevc :
  forall (hevc_parse : hevc_parser) t name vpss spss ppss seis incl t',
    set_hevc hevc_parse t name vpss spss ppss seis incl = (OOk, t') ->
    exists sps0 rest w h cfg,
      spss = sps0 :: rest /\ hevc_parse sps0 = Some (w, h, cfg)
      /\ (name = BS "hvc1" \/ name = BS "hev1")
      /\ sd_entries t' = sd_entries t ++
           [mkSE name 1 (w mod 65536) (h mod 65536) 0
                 (CfgHvcC (mkHvcC cfg (spec_hevc_arrays name vpss spss ppss seis incl)))]
      /\ tk_width t' = (w * 65536) mod 4294967296 /\ tk_height t' = (h * 65536) mod 4294967296
      /\ core t' = core t.
Proof. exact set_hevc_ok. Qed.
Print Assumptions C19_descriptor_hevc.

(* SetAACDescriptor: the AudioSpecificConfig in esds reads back (independent bit reader) as the supplied object
   type and frequency, 2 channels (1 for HE-AAC v2), extension frequency 2f and base type AAC-LC for HE-AAC:
   complete finite domain {AAC-LC, HE-AAC v1, v2} x {13 table frequencies, 44000, 8001, 65535, 1, 2^24-1} *)
Theorem C19_descriptor_aac_config :
  forall o f, In (o, f) aac_domain ->
    let chan := if o =? 29 then 1 else 2 in
    let ext := if (o =? 5) || (o =? 29) then 2 * f else 0 in
    exists asc, asc_encode o f chan ext = Some asc /\ asc_read asc = (o, f, chan, ext mod 16777216, 2).
Proof. exact aac_roundtrip. Qed.
Print Assumptions C19_descriptor_aac_config.

Theorem C19_descriptor_aac :
  forall t o f t',
    set_aac t o f = (OOk, t') ->
    let chan := if o =? 29 then 1 else 2 in
    let ext := if (o =? 5) || (o =? 29) then 2 * f else 0 in
    exists asc, asc_encode o f chan ext = Some asc
      /\ sd_entries t' = sd_entries t ++ [mkSE (BS "mp4a") 1 chan 16 (f mod 65536) (CfgEsds asc)]
      /\ core t' = core t.
Proof. exact set_aac_ok. Qed.
Print Assumptions C19_descriptor_aac.

(* the mp4a sample rate is the supplied frequency below 2^16 ... *)
Theorem C19_aac_samplerate :
  forall t o f t', f < 65536 -> set_aac t o f = (OOk, t') ->
    exists e, sd_entries t' = sd_entries t ++ [e] /\ se_c e = f /\ se_name e = BS "mp4a".
Proof. exact aac_samplerate_ok. Qed.
Print Assumptions C19_aac_samplerate.

(* ... and NOT for the valid AAC frequency 96000 (uint16 truncation; known finding C19-F4) *)
Theorem C19_aac_samplerate_refuted :
  exists t o f t', In (o, f) aac_domain /\ set_aac t o f = (OOk, t') /\
                   exists e, last (sd_entries t') e = e /\ In e (sd_entries t') /\ se_c e <> f.
Proof. exact aac_samplerate_refuted. Qed.
Print Assumptions C19_aac_samplerate_refuted.

(* SetAC3Descriptor / SetEC3Descriptor: the dac3/dec3 supplied, channel count and sample rate of the tables *)
Theorem C19_descriptor_ac3 :
  forall t fscod bsid bsmod acmod lfeon brc t',
    set_ac3 t (mkDac3 fscod bsid bsmod acmod lfeon brc) = (OOk, t') ->
    sd_entries t' = sd_entries t ++
      [mkSE (BS "ac-3") 1 ((spec_acmod_nchan acmod + (if lfeon =? 1 then 1 else 0)) mod 65536) 16
            (spec_ac3_rate fscod mod 65536) (CfgDac3 (mkDac3 fscod bsid bsmod acmod lfeon brc))]
    /\ core t' = core t.
Proof. exact set_ac3_ok. Qed.
Print Assumptions C19_descriptor_ac3.

Theorem C19_descriptor_ec3 :
  forall t dr fscod bsid asvc bsmod acmod lfeon nds cl subs t',
    cl < 512 ->
    set_ec3 t (mkDec3 dr (mkEc3Sub fscod bsid asvc bsmod acmod lfeon nds cl :: subs)) = (OOk, t') ->
    sd_entries t' = sd_entries t ++
      [mkSE (BS "ec-3") 1
            ((spec_acmod_nchan acmod + (if lfeon =? 1 then 1 else 0)
              + (if 0 <? nds then spec_chanloc_count 0 spec_chanloc_weights cl else 0)) mod 65536) 16
            (spec_ac3_rate fscod mod 65536)
            (CfgDec3 (mkDec3 dr (mkEc3Sub fscod bsid asvc bsmod acmod lfeon nds cl :: subs)))]
    /\ core t' = core t.
Proof. exact set_ec3_ok. Qed.
Print Assumptions C19_descriptor_ec3.

Theorem C19_descriptor_wvtt :
  forall t config,
    set_wvtt t config =
    (OOk, stsd_add t (mkSE (BS "wvtt") 1 0 0 0 (CfgVttC (match config with [] => BS "WEBVTT" | _ => config end)))).
Proof. exact set_wvtt_ok. Qed.
Print Assumptions C19_descriptor_wvtt.

Theorem C19_descriptor_stpp :
  forall t ns schema mime,
    set_stpp t ns schema mime =
    (OOk, stsd_add t (mkSE (BS "stpp") 1 0 0 0
                           (CfgStpp (match ns with [] => BS "http://www.w3.org/ns/ttml" | _ => ns end) schema mime))).
Proof. exact set_stpp_ok. Qed.
Print Assumptions C19_descriptor_stpp.

(* C19_roundtrip — PARTIAL.  Full statement (not proved here; box encoders/decoders belong to C01/C02):
     forall in-scope ops, let init := run ops in
       decode (encode init) = init  /\  is_fragmented_init (decode (encode init))
       /\ forall track id of init, a fragment created for it decodes against decode (encode init).
   Proved parts: C19_elng_roundtrip (the one variable-length box written from AddEmptyTrack's arguments, with the
   exact length boundary), C19_stpp_roundtrip (the stpp sample entry's strings), C19_language_readback (mdhd language field), C19_trex_lookup (unique ids, a trex for
   every track: what fragment decoding needs from the init).  The rest is evaluated on the real code by the
   search (encode -> DecodeFile -> equal Info dump, equal re-encoding, IsFragmented, single- and multi-track
   fragments with samples read back through the trex). *)

(* round trip of the extended language box (the only variable-length box AddEmptyTrack writes from its
   arguments): a tag of two or more non-NUL bytes decodes to the same tag as a full box ... *)
Theorem C19_elng_roundtrip :
  forall lang, no_nul lang = true -> (2 <= length lang)%nat -> elng_decode (elng_payload lang) = Ok (false, lang).
Proof. exact elng_roundtrip. Qed.
Print Assumptions C19_elng_roundtrip.

(* ... and a one-byte tag does not (payload shorter than 7 bytes is taken for the old layout): the property's
   "two or more characters" is the exact boundary *)
Theorem C19_elng_short_refuted :
  exists lang, no_nul lang = true /\ length lang = 1%nat /\ elng_decode (elng_payload lang) = Ok (true, []).
Proof. exact elng_short_refuted. Qed.
Print Assumptions C19_elng_short_refuted.

(* the stpp sample entry (three zero-terminated strings) decodes to the strings supplied *)
Theorem C19_stpp_roundtrip :
  forall dref ns schema mime,
    dref < 65536 -> no_nul ns = true -> no_nul schema = true -> no_nul mime = true ->
    stpp_decode (stpp_payload dref ns schema mime) = Ok (dref, ns, schema, mime, 0%nat).
Proof. exact stpp_roundtrip. Qed.
Print Assumptions C19_stpp_roundtrip.

(* Outside the quantifier (history starting from a DECODED init), reproduced on the real code by the harness:
   AddEmptyTrack repeats an id when the decoded ids are not 1..n, and does not keep the traks together when the
   first moov child is a trak (lastTrakIdx = 0 is read as "no trak"). *)
Theorem C19_decoded_duplicate_id_refuted :
  exists s s', s = mkSt [MCmvhd; MCtrak 0; MCmvex] [some_trak 2] [2] 3
               /\ add_empty_track s 1000 (BS "audio") (BS "eng") = (OOk, s')
               /\ map tk_id (traks s') = [2; 2] /\ trexs s' = [2; 2].
Proof. exact add_after_decode_duplicate_id. Qed.
Print Assumptions C19_decoded_duplicate_id_refuted.

Theorem C19_decoded_not_contiguous_refuted :
  exists s s', s = mkSt [MCtrak 0; MCmvhd; MCmvex] [some_trak 1] [1] 2
               /\ add_empty_track s 1000 (BS "audio") (BS "eng") = (OOk, s')
               /\ children s' = [MCtrak 0; MCmvhd; MCmvex; MCtrak 1].
Proof. exact add_after_decode_not_contiguous. Qed.
Print Assumptions C19_decoded_not_contiguous_refuted.

(* ------------------------------------------------------------------ the hypotheses are satisfiable *)
Example C19_elng_hyp : no_nul (BS "zh-Hant") = true /\ (2 <= length (BS "en"))%nat.
Proof. split; vm_compute; [reflexivity|lia]. Qed.

Example C19_tracks_hyp : N.of_nat (length ex_ops) < 4294967295 /\ ops_valid 0 ex_ops = true.
Proof. split; vm_compute; reflexivity. Qed.

(* ... and the run is what the theorems say: five tracks, ids 1..5, next id 6, all calls succeed *)
Example C19_tracks_run :
  let '(ocs, s) := run ex_avc_parse ex_hevc_parse ex_ops in
  ocs = repeat OOk 10 /\ map tk_id (traks s) = [1; 2; 3; 4; 5] /\ trexs s = [1; 2; 3; 4; 5] /\ next_id s = 6
  /\ map hd_type (traks s) = [BS "vide"; BS "soun"; BS "subt"; BS "vide"; BS "soun"]
  /\ map (fun t => length (sd_entries t)) (traks s) = [1; 1; 1; 1; 1]%nat.
Proof. vm_compute. repeat split; reflexivity. Qed.

Example C19_language_hyp : lower 115 = true /\ lower 119 = true /\ lower 101 = true /\ pack3 115 119 101 = 20197.
Proof. vm_compute. repeat split; reflexivity. Qed.

Example C19_aac_domain_hyp : In (29, 24000) aac_domain /\ In (2, 96000) aac_domain.
Proof. split; vm_compute; tauto. Qed.
