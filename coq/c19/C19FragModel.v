(* C19FragModel.v — what decoding a media fragment against an init segment takes from the init: the trex of the
   fragment's track (mp4/mvex.go MvexBox.GetTrex: the FIRST trex of Mvex.Trexs whose TrackID is the one asked for),
   read off the (decoded) box tree of the init as the trex record of C05's fragment model
   (coq/c05/C05Model.v: track id, default sample duration / size / flags; the default sample description index is
   not used by Fragment.GetFullSamples).  DEFINITIONS ONLY. *)
From V.lib Require Import Base.
From V.c19 Require Import C19BoxCodec C19BoxModel.
From V.c19 Require Import C19Model C19TreeModel.
From V.c05 Require C05Model.

Definition is_trex_for (id : N) (b : mbox) : bool :=
  match b with MLeaf _ (LTrex _ _ tid _ _ _ _) _ => tid =? id | _ => false end.

(* init.Moov.Mvex.GetTrex(id) on a tree of C01's box model *)
Definition get_trex (ts : list mbox) (id : N) : option C05Model.trex :=
  match find_cont n_moov ts with
  | Some mc =>
      match find_cont n_mvex mc with
      | Some xs =>
          match find (is_trex_for id) xs with
          | Some (MLeaf _ (LTrex _ _ tid _ dur sz fl) _) => Some (C05Model.mkTrex tid dur sz fl)
          | _ => None
          end
      | None => None
      end
  | None => None
  end.

(* the default sample description index of that trex (CreateTrex: 1 = the first sample entry of stsd) *)
Definition get_trex_dsdi (ts : list mbox) (id : N) : option N :=
  match find_cont n_moov ts with
  | Some mc =>
      match find_cont n_mvex mc with
      | Some xs =>
          match find (is_trex_for id) xs with
          | Some (MLeaf _ (LTrex _ _ _ dsdi _ _ _) _) => Some dsdi
          | _ => None
          end
      | None => None
      end
  | None => None
  end.
