(* C19DescProofs.v — what a successful Set...Descriptor call leaves in the track: exactly one new sample
   entry, whose name, data reference index, dimensions / audio fields and configuration are the supplied ones. *)
From Coq Require Import String Ascii.
From V.lib Require Import Base.
From V.c13 Require Import C13Model.
From V.c19 Require Import C19Model C19Spec C19InvProofs.

(* ---- independent expectations *)
Definition complete_bit (name : str) : N := if str_eqb name (BS "hvc1") then 128 else 0.

Definition spec_hevc_arrays (name : str) (vpss spss ppss seis : list str) (incl : bool) : list (N * list str) :=
  (if incl then [(complete_bit name + 32, vpss); (complete_bit name + 33, spss); (complete_bit name + 34, ppss)] else [])
  ++ (match seis with [] => [] | _ => [(complete_bit name + 39, seis)] end).

(* AC-3 acmod -> number of full-bandwidth channels (ETSI TS 102 366 table 4.3) *)
Definition spec_acmod_nchan (acmod : N) : N := nth (N.to_nat acmod) [2; 1; 2; 3; 3; 4; 4; 5] 0.
Definition spec_ac3_rate (fscod : N) : N := nth (N.to_nat fscod) [48000; 44100; 32000] 0.
(* E-AC-3 chan_loc bits (table F.6.1): Lc/Rc Lrs/Rrs Cs Ts Lsd/Rsd Lw/Rw Lvh/Rvh Cvh LFE2 *)
Definition spec_chanloc_weights : list N := [2; 2; 1; 1; 2; 2; 2; 1; 1].
Fixpoint spec_chanloc_count (i : N) (ws : list N) (chanloc : N) : N :=
  match ws with
  | [] => 0
  | w :: r => (if N.testbit chanloc i then w else 0) + spec_chanloc_count (i + 1) r chanloc
  end.

(* AudioSpecificConfig read back: bits MSB first *)
Definition bits_of_byte (b : N) : list bool := map (fun i => N.testbit b (N.of_nat (7 - i))) (seq 0 8).
Definition bits_of (l : str) : list bool := flat_map bits_of_byte l.
Fixpoint take_bits (n : nat) (bs : list bool) (acc : N) : N * list bool :=
  match n, bs with
  | O, _ => (acc, bs)
  | S n', b :: r => take_bits n' r (2 * acc + (if b then 1 else 0))
  | S _, [] => (acc, [])
  end.
Definition freq_table : list N := [96000; 88200; 64000; 48000; 44100; 32000; 24000; 22050; 16000; 12000; 11025; 8000; 7350].
Definition read_freq (bs : list bool) : N * list bool :=
  let '(i, r) := take_bits 4 bs 0 in
  if i =? 15 then take_bits 24 r 0 else (nth (N.to_nat i) freq_table 0, r).
(* returns (object type, frequency, channel configuration, extension frequency (0 when absent), base object type) *)
Definition asc_read (l : str) : N * N * N * N * N :=
  let '(ot, r1) := take_bits 5 (bits_of l) 0 in
  let '(f, r2) := read_freq r1 in
  let '(ch, r3) := take_bits 4 r2 0 in
  if (ot =? 5) || (ot =? 29) then
    let '(ef, r4) := read_freq r3 in
    let '(bt, _) := take_bits 5 r4 0 in (ot, f, ch, ef, bt)
  else (ot, f, ch, 0, ot).

Definition aac_domain : list (N * N) :=
  flat_map (fun o => map (fun f => (o, f)) (freq_table ++ [44000; 8001; 65535; 1; 16777215])) [2; 5; 29].

Definition aac_case_ok (of : N * N) : bool :=
  let '(o, f) := of in
  let chan := if o =? 29 then 1 else 2 in
  let ext := if (o =? 5) || (o =? 29) then 2 * f else 0 in
  match asc_encode o f chan ext with
  | None => false
  | Some asc =>
      let '(ot, f', ch, ef, bt) := asc_read asc in
      (ot =? o) && (f' =? f) && (ch =? chan) && (ef =? ext mod 16777216) && (bt =? 2)
  end.

Lemma aac_domain_ok : forallb aac_case_ok aac_domain = true.
Proof. vm_compute. reflexivity. Qed.

Lemma aac_roundtrip o f :
  In (o, f) aac_domain ->
  let chan := if o =? 29 then 1 else 2 in
  let ext := if (o =? 5) || (o =? 29) then 2 * f else 0 in
  exists asc, asc_encode o f chan ext = Some asc
              /\ asc_read asc = (o, f, chan, ext mod 16777216, 2).
Proof.
  intros Hin. pose proof aac_domain_ok as H. rewrite forallb_forall in H. specialize (H _ Hin).
  unfold aac_case_ok in H. cbv zeta.
  destruct (asc_encode o f _ _) as [asc|]; [|discriminate].
  exists asc. split; [reflexivity|].
  destruct (asc_read asc) as [[[[ot f'] ch] ef] bt].
  repeat (apply andb_prop in H; destruct H as [H ?]).
  repeat match goal with E : (_ =? _) = true |- _ => apply N.eqb_eq in E end. subst. reflexivity.
Qed.

Lemma acmod_channels_count acmod l : acmod_channels acmod = Some l -> N.of_nat (length l) = spec_acmod_nchan acmod /\ acmod < 8.
Proof.
  unfold acmod_channels, spec_acmod_nchan.
  destruct (N.to_nat acmod) as [|[|[|[|[|[|[|[|n]]]]]]]] eqn:E; intros [= <-]; cbn [length nth N.of_nat]; split; try reflexivity; lia.
Qed.

Lemma ac3_rate_spec f r : ac3_rate f = Some r -> r = spec_ac3_rate f /\ f < 3.
Proof.
  unfold ac3_rate, spec_ac3_rate. destruct (N.to_nat f) as [|[|[|n]]] eqn:E; intros [= <-]; cbn [nth]; split; try reflexivity; lia.
Qed.

Lemma ec3_loc_channels_dom :
  forallb (fun i => ec3_loc_channels (N.of_nat i) =? spec_chanloc_count 0 spec_chanloc_weights (N.of_nat i)) (seq 0 512) = true.
Proof. vm_compute. reflexivity. Qed.

(* chan_loc is a 9-bit field *)
Lemma ec3_loc_channels_spec chanloc :
  chanloc < 512 -> ec3_loc_channels chanloc = spec_chanloc_count 0 spec_chanloc_weights chanloc.
Proof.
  intros H. pose proof ec3_loc_channels_dom as D. rewrite forallb_forall in D.
  specialize (D (N.to_nat chanloc)). rewrite N2Nat.id in D. apply N.eqb_eq. apply D. apply in_seq. lia.
Qed.

Section P.
  Variable avc_parse : str -> option avc_info.
  Variable hevc_parse : str -> option (N * N * list N).

  Ltac brk H :=
    repeat match type of H with
           | context [match ?x with _ => _ end] => destruct x
           end.

  (* ---- AVC *)
  Lemma set_avc_ok t name spss ppss incl t' :
    set_avc avc_parse t name spss ppss incl = (OOk, t') ->
    exists sps0 rest w h p c l cf bl bc,
      spss = sps0 :: rest /\ avc_parse sps0 = Some (w, h, (p, c, l, (cf, bl, bc)))
      /\ cf <= 3 /\ bl <= 7 /\ bc <= 7
      /\ (name = BS "avc1" \/ name = BS "avc3")
      /\ sd_entries t' = sd_entries t ++
           [mkSE name 1 (w mod 65536) (h mod 65536) 0
                 (CfgAvcC (mkAvcC p c l (if incl then spss else []) (if incl then ppss else []) cf bl bc))]
      /\ tk_width t' = (w * 65536) mod 4294967296 /\ tk_height t' = (h * 65536) mod 4294967296
      /\ core t' = core t.
  Proof using avc_parse.
    clear hevc_parse. unfold set_avc, create_avcc. intros H.
    destruct (negb (is_one_of name _)) eqn:Hname; [discriminate|].
    destruct (str_eqb name _ && negb incl) eqn:H1; [discriminate|].
    destruct spss as [|sps0 rest]; [discriminate|].
    destruct (avc_parse sps0) as [[[w h] [[[p c] l] [[cf bl] bc]]]|] eqn:Hp; [|discriminate].
    destruct ((3 <? cf) || (7 <? bl) || (7 <? bc)) eqn:Hfit; [discriminate|].
    inversion H; subst; clear H.
    exists sps0, rest, w, h, p, c, l, cf, bl, bc.
    split; [reflexivity|]. split; [exact Hp|].
    split; [lia|]. split; [lia|]. split; [lia|]. split.
    { apply negb_false_iff in Hname. unfold is_one_of in Hname. cbn [existsb] in Hname.
      rewrite orb_false_r in Hname. apply orb_prop in Hname. destruct Hname as [E|E]; apply str_eqb_eq in E; auto. }
    split; [destruct incl; reflexivity|]. repeat split; reflexivity.
  Qed.

  (* ---- HEVC *)
  Lemma set_hevc_ok t name vpss spss ppss seis incl t' :
    set_hevc hevc_parse t name vpss spss ppss seis incl = (OOk, t') ->
    exists sps0 rest w h cfg,
      spss = sps0 :: rest /\ hevc_parse sps0 = Some (w, h, cfg)
      /\ (name = BS "hvc1" \/ name = BS "hev1")
      /\ sd_entries t' = sd_entries t ++
           [mkSE name 1 (w mod 65536) (h mod 65536) 0
                 (CfgHvcC (mkHvcC cfg (spec_hevc_arrays name vpss spss ppss seis incl)))]
      /\ tk_width t' = (w * 65536) mod 4294967296 /\ tk_height t' = (h * 65536) mod 4294967296
      /\ core t' = core t.
  Proof.
    unfold set_hevc, create_hvcc. intros H.
    destruct (negb (is_one_of name _)) eqn:Hname; [discriminate|].
    destruct spss as [|sps0 rest]; [discriminate|].
    destruct (hevc_parse sps0) as [[[w h] cfg]|] eqn:Hp; [|discriminate].
    destruct (str_eqb name _ && negb incl) eqn:H1; [discriminate|].
    exists sps0, rest, w, h, cfg.
    split; [reflexivity|]. split; [exact Hp|]. split.
    { apply negb_false_iff in Hname. unfold is_one_of in Hname. cbn [existsb] in Hname.
      rewrite orb_false_r in Hname. apply orb_prop in Hname. destruct Hname as [E|E]; apply str_eqb_eq in E; auto. }
    unfold spec_hevc_arrays, complete_bit, nalu_array in *.
    destruct seis; destruct incl; inversion H; subst; clear H; cbn [hc_cfg hc_arrays app];
      (split; [try rewrite app_nil_r; reflexivity|repeat split; reflexivity]).
  Qed.

  (* ---- AAC *)
  Lemma set_aac_ok t o f t' :
    set_aac t o f = (OOk, t') ->
    let chan := if o =? 29 then 1 else 2 in
    let ext := if (o =? 5) || (o =? 29) then 2 * f else 0 in
    exists asc, asc_encode o f chan ext = Some asc
      /\ sd_entries t' = sd_entries t ++ [mkSE (BS "mp4a") 1 chan 16 (f mod 65536) (CfgEsds asc)]
      /\ core t' = core t.
  Proof.
    unfold set_aac, HEAACv1, HEAACv2. cbv zeta. intros H.
    destruct (asc_encode o f _ _) as [asc|]; [|discriminate].
    inversion H; subst. exists asc. repeat split; reflexivity.
  Qed.

  (* ---- AC-3 / E-AC-3 *)
  Lemma set_ac3_ok t fscod bsid bsmod acmod lfeon brc t' :
    set_ac3 t (mkDac3 fscod bsid bsmod acmod lfeon brc) = (OOk, t') ->
    sd_entries t' = sd_entries t ++
      [mkSE (BS "ac-3") 1 ((spec_acmod_nchan acmod + (if lfeon =? 1 then 1 else 0)) mod 65536) 16
            (spec_ac3_rate fscod mod 65536) (CfgDac3 (mkDac3 fscod bsid bsmod acmod lfeon brc))]
    /\ core t' = core t.
  Proof.
    unfold set_ac3. intros H.
    destruct (acmod_channels acmod) as [l|] eqn:Ha; [|discriminate].
    destruct (ac3_rate fscod) as [r|] eqn:Hr; [|discriminate].
    apply acmod_channels_count in Ha. apply ac3_rate_spec in Hr. destruct Ha as [Ha _]. destruct Hr as [Hr _].
    inversion H; subst. rewrite Ha. split; reflexivity.
  Qed.

  Lemma set_ec3_ok t dr fscod bsid asvc bsmod acmod lfeon nds cl subs t' :
    cl < 512 ->
    set_ec3 t (mkDec3 dr (mkEc3Sub fscod bsid asvc bsmod acmod lfeon nds cl :: subs)) = (OOk, t') ->
    sd_entries t' = sd_entries t ++
      [mkSE (BS "ec-3") 1
            ((spec_acmod_nchan acmod + (if lfeon =? 1 then 1 else 0)
              + (if 0 <? nds then spec_chanloc_count 0 spec_chanloc_weights cl else 0)) mod 65536) 16
            (spec_ac3_rate fscod mod 65536)
            (CfgDec3 (mkDec3 dr (mkEc3Sub fscod bsid asvc bsmod acmod lfeon nds cl :: subs)))]
    /\ core t' = core t.
  Proof.
    unfold set_ec3. intros Hcl H.
    destruct (acmod_channels acmod) as [l|] eqn:Ha; [|discriminate].
    destruct (ac3_rate fscod) as [r|] eqn:Hr; [|discriminate].
    apply acmod_channels_count in Ha. apply ac3_rate_spec in Hr. destruct Ha as [Ha _]. destruct Hr as [Hr _].
    inversion H; subst. rewrite Ha, (ec3_loc_channels_spec cl Hcl). split; reflexivity.
  Qed.

  (* ---- wvtt / stpp *)
  Lemma set_wvtt_ok t config :
    set_wvtt t config =
    (OOk, stsd_add t (mkSE (BS "wvtt") 1 0 0 0 (CfgVttC (match config with [] => BS "WEBVTT" | _ => config end)))).
  Proof. reflexivity. Qed.

  Lemma set_stpp_ok t ns schema mime :
    set_stpp t ns schema mime =
    (OOk, stsd_add t (mkSE (BS "stpp") 1 0 0 0
                           (CfgStpp (match ns with [] => BS "http://www.w3.org/ns/ttml" | _ => ns end) schema mime))).
  Proof. reflexivity. Qed.

  (* ---- every call: at most one new entry, only on success, data reference index 1 *)
  Lemma set_desc_entries t d :
    let '(oc, t') := set_desc avc_parse hevc_parse t d in
    match oc with
    | OOk => exists e, sd_entries t' = sd_entries t ++ [e] /\ se_dref e = 1
    | _ => sd_entries t' = sd_entries t
    end.
  Proof.
    destruct d as [name spss ppss incl|name vpss spss ppss seis incl|o f|d|d|c|a b c]; cbn [set_desc].
    - destruct (set_avc avc_parse t name spss ppss incl) as [oc t'] eqn:H. destruct oc.
      + apply set_avc_ok in H. destruct H as (?&?&?&?&?&?&?&?&?&?&_&_&_&_&_&_&He&_). eexists. split; [exact He|reflexivity].
      + unfold set_avc, create_avcc in H. brk H; inversion H; reflexivity.
      + unfold set_avc, create_avcc in H. brk H; inversion H; reflexivity.
    - destruct (set_hevc hevc_parse t name vpss spss ppss seis incl) as [oc t'] eqn:H. destruct oc.
      + apply set_hevc_ok in H. destruct H as (?&?&?&?&?&_&_&_&He&_). eexists. split; [exact He|reflexivity].
      + unfold set_hevc, create_hvcc in H. brk H; inversion H; reflexivity.
      + unfold set_hevc, create_hvcc in H. brk H; inversion H; reflexivity.
    - destruct (set_aac t o f) as [oc t'] eqn:H. destruct oc.
      + apply set_aac_ok in H. destruct H as (?&_&He&_). eexists. split; [exact He|reflexivity].
      + unfold set_aac in H. brk H; inversion H; reflexivity.
      + unfold set_aac in H. brk H; inversion H; reflexivity.
    - destruct d as [fscod bsid bsmod acmod lfeon brc].
      destruct (set_ac3 t _) as [oc t'] eqn:H. destruct oc.
      + apply set_ac3_ok in H. destruct H as [He _]. eexists. split; [exact He|reflexivity].
      + unfold set_ac3 in H. brk H; inversion H; reflexivity.
      + unfold set_ac3 in H. brk H; inversion H; reflexivity.
    - destruct d as [dr subs].
      destruct (set_ec3 t _) as [oc t'] eqn:H. destruct oc.
      + unfold set_ec3 in H. brk H; inversion H; subst; eexists; split; reflexivity.
      + unfold set_ec3 in H. brk H; inversion H; reflexivity.
      + unfold set_ec3 in H. brk H; inversion H; reflexivity.
    - rewrite set_wvtt_ok. eexists. split; reflexivity.
    - rewrite set_stpp_ok. eexists. split; reflexivity.
  Qed.

  (* ---- over histories: every sample entry of every track refers to the one dref entry *)
  Definition entries_dref_ok (s : st) : Prop :=
    Forall (fun t => Forall (fun e => se_dref e = 1) (sd_entries t)) (traks s).

  Lemma Forall_replace_nth {A} (P : A -> Prop) k x l : Forall P l -> P x -> Forall P (replace_nth k x l).
  Proof.
    revert k. induction l as [|y l IH]; intros [|k] Hl Hx; cbn [replace_nth]; try assumption.
    - inversion Hl; subst. constructor; assumption.
    - inversion Hl; subst. constructor; [assumption|]. apply IH; assumption.
  Qed.

  Lemma step_dref s o : entries_dref_ok s -> entries_dref_ok (snd (step avc_parse hevc_parse s o)).
  Proof.
    unfold entries_dref_ok. intros H. destruct o as [ts m lang|k d]; cbn [step].
    - unfold add_empty_track. destruct (create_empty_trak _ ts m lang) as [t|] eqn:Hce; cbn [snd traks]; [|exact H].
      unfold moov_add_trak. destruct (_ && _); cbn [traks]; apply Forall_app; (split; [exact H|]);
        constructor; try constructor;
        unfold create_empty_trak in Hce; destruct (create_hdlr m) as [[ht hn]|]; try discriminate;
        destruct (fst _); try discriminate; inversion Hce; cbn [sd_entries]; constructor.
    - destruct (nth_error (traks s) k) as [t|] eqn:Hn; [|exact H].
      pose proof (set_desc_entries t d) as He.
      destruct (set_desc avc_parse hevc_parse t d) as [oc t']. cbn [snd traks].
      apply Forall_replace_nth; [exact H|].
      assert (Ht : Forall (fun e => se_dref e = 1) (sd_entries t)).
      { rewrite Forall_forall in H. apply H. apply nth_error_In in Hn. exact Hn. }
      destruct oc.
      + destruct He as [e [-> Hd]]. apply Forall_app. split; [exact Ht|]. constructor; [exact Hd|constructor].
      + rewrite He. exact Ht.
      + rewrite He. exact Ht.
  Qed.

  Lemma run_from_dref ops : forall s, entries_dref_ok s -> entries_dref_ok (snd (run_from avc_parse hevc_parse s ops)).
  Proof.
    induction ops as [|o ops IH]; intros s H; cbn [run_from snd]; [exact H|].
    pose proof (step_dref s o H) as Hs. destruct (step avc_parse hevc_parse s o) as [oc s']. cbn [snd] in Hs.
    destruct oc.
    - specialize (IH s' Hs). destruct (run_from avc_parse hevc_parse s' ops). exact IH.
    - specialize (IH s' Hs). destruct (run_from avc_parse hevc_parse s' ops). exact IH.
    - exact Hs.
  Qed.

  Lemma dref_all ops : entries_dref_ok (snd (run avc_parse hevc_parse ops)).
  Proof. apply run_from_dref. constructor. Qed.
End P.

(* the sample rate of the mp4a entry is the supplied frequency only below 2^16 *)
Lemma aac_samplerate_refuted :
  exists t o f t', In (o, f) aac_domain /\ set_aac t o f = (OOk, t') /\
                   exists e, last (sd_entries t') e = e /\ In e (sd_entries t') /\ se_c e <> f.
Proof.
  exists (mkTrak 1 256 0 0 96000 0 (BS "soun") [] None Smhd []), 2, 96000.
  eexists. split; [vm_compute; tauto|]. split; [vm_compute; reflexivity|].
  eexists. split; [reflexivity|]. split; [left; reflexivity|]. vm_compute. discriminate.
Qed.

Lemma aac_samplerate_ok t o f t' :
  f < 65536 -> set_aac t o f = (OOk, t') -> exists e, sd_entries t' = sd_entries t ++ [e] /\ se_c e = f /\ se_name e = BS "mp4a".
Proof.
  intros Hf H. apply set_aac_ok in H. destruct H as [asc [_ [He _]]].
  eexists. split; [exact He|]. cbn [se_c se_name]. split; [apply N.mod_small; exact Hf|reflexivity].
Qed.
