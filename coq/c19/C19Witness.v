(* C19Witness.v — type abbreviations and the concrete values used by the Examples of C19Theorems.v. *)
From Coq Require Import String Ascii.
From V.lib Require Import Base.
From V.c19 Require Import C19Model C19Spec.

Definition avc_parser := str -> option avc_info.
Definition hevc_parser := str -> option (N * N * list N).

Definition ex_avc_parse : avc_parser := fun sps => match sps with 103 :: _ => Some (1280, 720, (100, 0, 32, (1, 0, 0))) | _ => None end.
Definition ex_hevc_parse : hevc_parser := fun sps => match sps with 66 :: _ => Some (960, 540, [0; 0; 2; 536870912; 0; 123; 1; 2; 2]) | _ => None end.
Definition ex_ops : list op :=
  [ AddEmptyTrack 180000 (BS "video") (BS "und");
    SetDesc 0 (DAvc (BS "avc1") [[103; 100; 0; 32]] [[104; 181]] true);
    AddEmptyTrack 48000 (BS "audio") (BS "en-US");
    SetDesc 1 (DAac 5 24000);
    AddEmptyTrack 1000 (BS "stpp") (BS "zh-Hant");
    SetDesc 2 (DStpp [] [] []);
    AddEmptyTrack 90000 (BS "video") (BS "swe");
    SetDesc 3 (DHevc (BS "hvc1") [[64; 1]] [[66; 1; 1]] [[68; 1]] [[78; 1]] true);
    AddEmptyTrack 48000 (BS "audio") (BS "fil");
    SetDesc 4 (DEc3 (mkDec3 1133 [mkEc3Sub 0 16 0 0 7 1 1 3])) ].

