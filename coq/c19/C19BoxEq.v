(* C19BoxEq.v — decidable equality of the nested descriptor type of the box model (esds), written by hand:
   `decide equality` on a type that occurs nested in `list` does not terminate in reasonable time/memory.
   desc_eqb is a structural boolean comparison; desc_eqb_eq / desc_eqb_refl make it a decision procedure for equality;
   desc_eq_dec packages it as a sumbool that COMPUTES (the match is on the boolean), for leaf_eq_dec in C19TreeModel.v. *)
From V.lib Require Import Base.
From V.c19 Require Import C19BoxCodec C19BoxModel.

Fixpoint desc_eqb (a b : desc) : bool :=
  match a, b with
  | DDcd nb ot st buf mx av cs u, DDcd nb' ot' st' buf' mx' av' cs' u' =>
      (nb =? nb') && (ot =? ot') && (st =? st') && (buf =? buf') && (mx =? mx') && (av =? av')
      && (fix go (l l' : list desc) : bool :=
            match l, l' with
            | [], [] => true
            | x :: t, y :: t' => desc_eqb x y && go t t'
            | _, _ => false
            end) cs cs'
      && bytes_eqb u u'
  | DDsi nb dc, DDsi nb' dc' => (nb =? nb') && bytes_eqb dc dc'
  | DSlc nb cv more, DSlc nb' cv' more' => (nb =? nb') && (cv =? cv') && bytes_eqb more more'
  | DRaw tag nb data, DRaw tag' nb' data' => (tag =? tag') && (nb =? nb') && bytes_eqb data data'
  | _, _ => false
  end.

Definition descs_eqb :=
  fix go (l l' : list desc) : bool :=
    match l, l' with
    | [], [] => true
    | x :: t, y :: t' => desc_eqb x y && go t t'
    | _, _ => false
    end.

Lemma bytes_eqb_eq x : forall y, bytes_eqb x y = true -> x = y.
Proof.
  induction x as [|a x IH]; intros [|b y] H; cbn [bytes_eqb] in H; try discriminate; [reflexivity|].
  apply andb_true_iff in H. destruct H as [H1 H2]. apply N.eqb_eq in H1. subst. f_equal. now apply IH.
Qed.
Lemma bytes_eqb_refl x : bytes_eqb x x = true.
Proof. induction x as [|a x IH]; [reflexivity|]. cbn [bytes_eqb]. now rewrite N.eqb_refl, IH. Qed.

Section DescInd.
  Variable P : desc -> Prop.
  Hypothesis Hdcd : forall nb ot st buf mx av cs u, Forall P cs -> P (DDcd nb ot st buf mx av cs u).
  Hypothesis Hdsi : forall nb dc, P (DDsi nb dc).
  Hypothesis Hslc : forall nb cv more, P (DSlc nb cv more).
  Hypothesis Hraw : forall tag nb data, P (DRaw tag nb data).
  Fixpoint desc_ind_nested (d : desc) : P d :=
    match d with
    | DDcd nb ot st buf mx av cs u =>
        Hdcd nb ot st buf mx av cs u
             ((fix go (cs : list desc) : Forall P cs :=
                 match cs with [] => Forall_nil _ | c :: t => Forall_cons _ (desc_ind_nested c) (go t) end) cs)
    | DDsi nb dc => Hdsi nb dc
    | DSlc nb cv more => Hslc nb cv more
    | DRaw tag nb data => Hraw tag nb data
    end.
End DescInd.

Lemma descs_eqb_eq cs : Forall (fun a => forall b, desc_eqb a b = true -> a = b) cs ->
  forall ds, descs_eqb cs ds = true -> cs = ds.
Proof.
  induction 1 as [|c cs Hc _ IH]; intros [|d ds] H; cbn [descs_eqb] in H; try discriminate; [reflexivity|].
  apply andb_true_iff in H. destruct H as [H1 H2]. f_equal; [apply Hc; exact H1|apply IH; exact H2].
Qed.

Lemma desc_eqb_eq a : forall b, desc_eqb a b = true -> a = b.
Proof.
  induction a as [nb ot st buf mx av cs u IH|nb dc|nb cv more|tag nb data] using desc_ind_nested;
    intros [nb' ot' st' buf' mx' av' cs' u'|nb' dc'|nb' cv' more'|tag' nb' data'] H; cbn [desc_eqb] in H; try discriminate.
  - fold descs_eqb in H.
    repeat (apply andb_true_iff in H; let K := fresh "K" in destruct H as [H K]).
    repeat match goal with h : (_ =? _) = true |- _ => apply N.eqb_eq in h end.
    match goal with h : descs_eqb _ _ = true |- _ => apply (descs_eqb_eq cs IH) in h end.
    match goal with h : bytes_eqb _ _ = true |- _ => apply bytes_eqb_eq in h end.
    subst. reflexivity.
  - apply andb_true_iff in H. destruct H as [H1 H2]. apply N.eqb_eq in H1. apply bytes_eqb_eq in H2. subst. reflexivity.
  - apply andb_true_iff in H. destruct H as [H H3]. apply andb_true_iff in H. destruct H as [H1 H2].
    apply N.eqb_eq in H1, H2. apply bytes_eqb_eq in H3. subst. reflexivity.
  - apply andb_true_iff in H. destruct H as [H H3]. apply andb_true_iff in H. destruct H as [H1 H2].
    apply N.eqb_eq in H1, H2. apply bytes_eqb_eq in H3. subst. reflexivity.
Qed.

Lemma descs_eqb_refl cs : Forall (fun a => desc_eqb a a = true) cs -> descs_eqb cs cs = true.
Proof. induction 1 as [|c cs Hc _ IH]; [reflexivity|]. cbn [descs_eqb]. now rewrite Hc, IH. Qed.

Lemma desc_eqb_refl a : desc_eqb a a = true.
Proof.
  induction a as [nb ot st buf mx av cs u IH|nb dc|nb cv more|tag nb data] using desc_ind_nested; cbn [desc_eqb].
  - fold descs_eqb. rewrite !N.eqb_refl, (descs_eqb_refl cs IH), bytes_eqb_refl. reflexivity.
  - now rewrite N.eqb_refl, bytes_eqb_refl.
  - now rewrite !N.eqb_refl, bytes_eqb_refl.
  - now rewrite !N.eqb_refl, bytes_eqb_refl.
Qed.

Definition desc_eq_dec (a b : desc) : {a = b} + {a <> b} :=
  (if desc_eqb a b as x return desc_eqb a b = x -> {a = b} + {a <> b}
   then fun H => left (desc_eqb_eq a b H)
   else fun H => right (fun E : a = b =>
                          Bool.diff_false_true
                            (eq_trans (eq_sym H) (eq_trans (f_equal (desc_eqb a) (eq_sym E)) (desc_eqb_refl a)))))
    eq_refl.

Definition sge_eq_dec : forall a b : sge, {a = b} + {a <> b}.
Proof. decide equality; repeat first [ apply N.eq_dec | apply list_eq_dec | decide equality ]. Defined.
