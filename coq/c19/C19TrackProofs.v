(* C19TrackProofs.v — in-scope histories: no panic, next-track id = n+1, every track's handler type,
   media header, language, timescale, volume equal to the specification. *)
From Coq Require Import String Ascii.
From V.lib Require Import Base.
From V.c19 Require Import C19Model C19Spec C19InvProofs.

(* ------------------------------------------------------------------ language *)
Lemma five_mod c : Z.to_N (Z.land (Z.of_N c - 96) 31) = c mod 32.
Proof.
  change 31%Z with (Z.ones 5). rewrite Z.land_ones by lia.
  change (2 ^ 5)%Z with 32%Z.
  replace (Z.of_N c - 96)%Z with (Z.of_N c + (-3) * 32)%Z by lia.
  rewrite Z.mod_add by lia. lia.
Qed.

Lemma set_language_3 a b c : set_language [a; b; c] = Some (pack3 a b c).
Proof.
  unfold set_language. cbn [set_language_from Nat.leb Nat.sub].
  rewrite !five_mod. unfold pack3, u16.
  change (5 * N.of_nat 2) with 10. change (5 * N.of_nat 1) with 5. change (5 * N.of_nat 0) with 0.
  rewrite !shiftl_mul. change (2 ^ 10) with 1024. change (2 ^ 5) with 32. change (2 ^ 0) with 1.
  f_equal.
  assert (Ha : a mod 32 < 32) by (apply N.mod_lt; lia).
  assert (Hb : b mod 32 < 32) by (apply N.mod_lt; lia).
  assert (Hc : c mod 32 < 32) by (apply N.mod_lt; lia).
  set (A := a mod 32) in *. set (BB := b mod 32) in *. set (C := c mod 32) in *.
  rewrite (N.mod_small (A * 1024)) by lia.
  rewrite (N.mod_small (0 + A * 1024)) by lia.
  rewrite (N.mod_small (BB * 32)) by lia.
  rewrite (N.mod_small (0 + A * 1024 + BB * 32)) by lia.
  rewrite (N.mod_small (C * 1)) by lia.
  rewrite N.mod_small by lia. lia.
Qed.

Lemma set_language_und : set_language (BS "und") = Some und_packed.
Proof. vm_compute. reflexivity. Qed.

(* the packed language of three lower-case letters reads back as those letters *)
Lemma get_language_pack3 a b c :
  lower a = true -> lower b = true -> lower c = true -> get_language (pack3 a b c) = [a; b; c].
Proof.
  unfold lower, get_language, pack3. intros Ha Hb Hc.
  change 31 with (N.ones 5). rewrite !N.land_ones, !shiftr_div.
  change (2 ^ 5) with 32. change (2 ^ 10) with 1024.
  assert (Ea : a mod 32 = a - 96) by lia.
  assert (Eb : b mod 32 = b - 96) by lia.
  assert (Ec : c mod 32 = c - 96) by lia.
  rewrite Ea, Eb, Ec.
  f_equal; [|f_equal; [|f_equal]]; lia.
Qed.

Lemma language_readback a b c :
  lower a = true -> lower b = true -> lower c = true ->
  spec_mdhd_lang [a; b; c] = pack3 a b c /\ get_language (pack3 a b c) = [a; b; c].
Proof. intros Ha Hb Hc. split; [reflexivity|exact (get_language_pack3 a b c Ha Hb Hc)]. Qed.

Lemma lang_spec lang :
  (if Nat.eqb (length lang) 3 then (set_language lang, @None str) else (set_language (BS "und"), Some lang))
  = (Some (spec_mdhd_lang lang), spec_elng lang).
Proof.
  destruct lang as [|a [|b [|c [|d r]]]]; cbn [length Nat.eqb spec_mdhd_lang spec_elng];
    try (rewrite set_language_und; reflexivity).
  rewrite set_language_3. reflexivity.
Qed.

(* ------------------------------------------------------------------ media types *)
Lemma spec_lookup_cases m v :
  spec_lookup m spec_table = Some v ->
  In (m, v) spec_table.
Proof.
  unfold spec_table. cbn [spec_lookup].
  repeat match goal with
         | |- context [str_eqb m ?k] =>
             let E := fresh "E" in
             destruct (str_eqb m k) eqn:E;
             [apply str_eqb_eq in E; intros [= <-]; subst m; cbn [In]; tauto|]
         end.
  discriminate.
Qed.

Lemma hdlr_matches_spec m h mh :
  spec_lookup m spec_table = Some (h, mh) ->
  (exists name, create_hdlr m = Some (h, name)) /\ media_header m = mh.
Proof.
  intros H. apply spec_lookup_cases in H. unfold spec_table in H. cbn [In] in H.
  repeat (destruct H as [H|H]; [inversion H; subst; split; [eexists; vm_compute; reflexivity | vm_compute; reflexivity]|]).
  contradiction.
Qed.

Lemma create_empty_trak_spec id ts m lang h mh :
  spec_lookup m spec_table = Some (h, mh) ->
  exists t, create_empty_trak id ts m lang = Some t
            /\ core t = (id, (if str_eqb m (BS "audio") then 256 else 0), ts, spec_mdhd_lang lang, h, spec_elng lang, mh)
            /\ sd_entries t = [] /\ tk_width t = 0 /\ tk_height t = 0.
Proof.
  intros H. destruct (hdlr_matches_spec m h mh H) as [[name Hh] Hm].
  unfold create_empty_trak. rewrite Hh, lang_spec. cbn [fst snd].
  eexists. split; [reflexivity|]. unfold core. cbn [tk_id tk_volume md_timescale md_lang hd_type el_lang mi_hdr sd_entries tk_width tk_height].
  rewrite Hm. repeat split; reflexivity.
Qed.

(* ------------------------------------------------------------------ descriptors never panic on valid arguments *)
Lemma small_cases_8 x : x <? 8 = true -> x = 0 \/ x = 1 \/ x = 2 \/ x = 3 \/ x = 4 \/ x = 5 \/ x = 6 \/ x = 7.
Proof. intros H. lia. Qed.
Lemma small_cases_3 x : x <? 3 = true -> x = 0 \/ x = 1 \/ x = 2.
Proof. intros H. lia. Qed.

Lemma acmod_some acmod : acmod <? 8 = true -> exists l, acmod_channels acmod = Some l.
Proof.
  intros H. apply small_cases_8 in H.
  repeat (destruct H as [H|H]; [subst; eexists; vm_compute; reflexivity|]). subst. eexists. vm_compute. reflexivity.
Qed.
Lemma rate_some f : f <? 3 = true -> exists r, ac3_rate f = Some r.
Proof.
  intros H. apply small_cases_3 in H.
  repeat (destruct H as [H|H]; [subst; eexists; vm_compute; reflexivity|]). subst. eexists. vm_compute. reflexivity.
Qed.

Ltac np_break :=
  repeat match goal with
         | |- context [match ?x with _ => _ end] => destruct x eqn:?
         end; cbn [fst]; try discriminate.

Section P.
  Variable avc_parse : str -> option avc_info.
  Variable hevc_parse : str -> option (N * N * list N).

  Lemma set_desc_no_panic t d : desc_valid d = true -> fst (set_desc avc_parse hevc_parse t d) <> OPanic.
  Proof.
    destruct d as [name spss ppss incl|name vpss spss ppss seis incl|o f|d|d|c|a b c]; cbn [desc_valid set_desc]; intros Hv.
    - destruct spss as [|sps0 spss]; [cbn in Hv; discriminate|].
      unfold set_avc, create_avcc. np_break.
    - destruct spss as [|sps0 spss]; [cbn in Hv; discriminate|].
      unfold set_hevc, create_hvcc. np_break.
    - unfold set_aac. destruct (asc_encode _ _ _ _); cbn [fst]; discriminate.
    - destruct d as [fscod bsid bsmod acmod lfeon brc]. apply andb_prop in Hv. destruct Hv as [Hf Ha].
      unfold set_ac3. destruct (acmod_some acmod Ha) as [l ->]. destruct (rate_some fscod Hf) as [r ->]. cbn [fst]. discriminate.
    - destruct d as [dr subs]. destruct subs as [|[fscod bsid asvc bsmod acmod lfeon nds cl] subs]; [discriminate|].
      apply andb_prop in Hv. destruct Hv as [Hf Ha].
      unfold set_ec3. destruct (acmod_some acmod Ha) as [l ->]. destruct (rate_some fscod Hf) as [r ->]. cbn [fst]. discriminate.
    - unfold set_wvtt. cbn [fst]. discriminate.
    - unfold set_stpp. cbn [fst]. discriminate.
  Qed.

  (* CreateHvcC cannot fail where SetHEVCDescriptor dereferences its result before looking at err:
     the same SPS was parsed successfully a few lines earlier *)
  Lemma set_hevc_never_panics_on_nil_hvcc t name vpss sps0 spss ppss seis incl :
    fst (set_hevc hevc_parse t name vpss (sps0 :: spss) ppss seis incl) <> OPanic.
  Proof.
    apply (set_desc_no_panic t (DHevc name vpss (sps0 :: spss) ppss seis incl)). reflexivity.
  Qed.

  (* ---------------------------------------------------------------- histories *)
  Definition cores_of (s : st) := map Some (map core (traks s)).

  Lemma spec_cores_app i l1 l2 : spec_cores i (l1 ++ l2) = spec_cores i l1 ++ spec_cores (length l1 + i) l2.
  Proof.
    revert i. induction l1 as [|[[ts m] lang] l1 IH]; intros i; cbn [app spec_cores length]; [reflexivity|].
    rewrite IH. replace (length l1 + S i)%nat with (S (length l1 + i)) by lia. reflexivity.
  Qed.

  Lemma run_from_valid ops : forall s,
    bound s (length ops) -> inv_struct s -> next_above s ->
    (traks s = [] \/ next_exact s) ->
    ops_valid (length (traks s)) ops = true ->
    let '(ocs, s') := run_from avc_parse hevc_parse s ops in
    ~ In OPanic ocs
    /\ length ocs = length ops
    /\ cores_of s' = cores_of s ++ spec_cores (length (traks s)) (adds_of ops)
    /\ (traks s' = [] \/ next_exact s').
  Proof.
    induction ops as [|o ops IH]; intros s Hb Hs Hn Hx Hv; cbn [run_from].
    - cbn [adds_of spec_cores In length]. rewrite app_nil_r. tauto.
    - assert (Hb1 : bound s 1) by (unfold bound in *; cbn [length] in Hb; lia).
      pose proof (step_inv avc_parse hevc_parse s o Hb1 Hs Hn) as Hst.
      destruct o as [ts m lang|k d]; cbn [ops_valid] in Hv.
      + (* AddEmptyTrack *)
        apply andb_prop in Hv. destruct Hv as [Hm Hv].
        unfold media_supported in Hm. destruct (spec_lookup m spec_table) as [[h mh]|] eqn:Hl; [|discriminate].
        cbn [step] in *. unfold add_empty_track in *.
        set (n := length (traks s)) in *.
        assert (Hid : u32 (N.of_nat n + 1) = N.of_nat (S n)).
        { unfold u32, bound in *. fold n in Hb1. rewrite N.mod_small; lia. }
        assert (Hnx : u32 (N.of_nat (S n) + 1) = N.of_nat (S n) + 1).
        { unfold u32, bound in *. fold n in Hb1. rewrite N.mod_small; lia. }
        rewrite Hid, Hnx in *.
        destruct (create_empty_trak_spec (N.of_nat (S n)) ts m lang h mh Hl) as [t [Hce [Hcore _]]].
        rewrite Hce in *.
        destruct Hs as [Hc [Hi Ht]].
        destruct (moov_add_trak_inv (mkSt (children s) (traks s) (trexs s) (N.of_nat (S n) + 1)) t Hc) as [Hc2 [Ht2 [Hx2 Hn2]]].
        cbn [traks trexs next_id children] in Hc2, Ht2, Hx2, Hn2.
        set (s2 := moov_add_trak (mkSt (children s) (traks s) (trexs s) (N.of_nat (S n) + 1)) t) in *.
        set (s' := mkSt (children s2) (traks s2) (trexs s2 ++ [N.of_nat (S n)]) (next_id s2)) in *.
        destruct Hst as [Hs' [Hn' Hl']].
        assert (Hlen' : length (traks s') = S n).
        { unfold s'. cbn [traks]. rewrite Ht2, app_length. cbn [length]. fold n. lia. }
        specialize (IH s').
        rewrite Hlen' in IH.
        destruct (run_from avc_parse hevc_parse s' ops) as [ocs s''].
        destruct IH as [Hp [Hlo [Hco Hx']]]; try assumption.
        { unfold bound in *. rewrite Hlen'. cbn [length] in Hb. fold n in Hb. lia. }
        { right. unfold next_exact. rewrite Hlen'. unfold s'. cbn [next_id Nat.eqb]. rewrite Hn2. lia. }
        split; [|split; [|split]].
        * cbn [In]. intros [Hbad|Hbad]; [discriminate|contradiction].
        * cbn [length]. lia.
        * rewrite Hco. unfold cores_of, s'. cbn [traks adds_of spec_cores]. rewrite Ht2, !map_app. cbn [map].
          rewrite <- app_assoc. cbn [app]. do 2 f_equal.
          unfold spec_core. rewrite Hl, Hcore. reflexivity.
        * exact Hx'.
      + (* SetDesc *)
        apply andb_prop in Hv. destruct Hv as [Hv Hv2]. apply andb_prop in Hv. destruct Hv as [Hk Hd].
        apply Nat.ltb_lt in Hk.
        pose proof (step_setdesc_cores avc_parse hevc_parse s k d) as Hcores.
        pose proof (step_setdesc_rest avc_parse hevc_parse s k d) as Hrest. cbv zeta in Hrest.
        assert (Hnp : fst (step avc_parse hevc_parse s (SetDesc k d)) <> OPanic).
        { cbn [step]. destruct (nth_error (traks s) k) as [t|] eqn:Hnth.
          - pose proof (set_desc_no_panic t d Hd) as Hsd.
            destruct (set_desc avc_parse hevc_parse t d) as [oc t']. exact Hsd.
          - apply nth_error_None in Hnth. lia. }
        destruct (step avc_parse hevc_parse s (SetDesc k d)) as [oc s']. cbn [fst snd] in *.
        destruct Hrest as [Hc' [Ht' [Hn'' Hl'']]].
        destruct Hst as [Hs' [Hn' _]].
        specialize (IH s'). rewrite Hl'' in IH.
        assert (Hx' : traks s' = [] \/ next_exact s').
        { destruct Hx as [Hx|Hx].
          - left. destruct (traks s'); [reflexivity|]. rewrite Hx in Hl''. discriminate.
          - right. unfold next_exact in *. rewrite Hl'', Hn''. exact Hx. }
        assert (Hb' : bound s' (length ops)).
        { unfold bound in *. rewrite Hl''. cbn [length] in Hb. lia. }
        destruct oc; [| |contradiction].
        * destruct (run_from avc_parse hevc_parse s' ops) as [ocs s''].
          destruct IH as [Hp [Hlo [Hco Hxx]]]; try assumption.
          split; [|split; [|split]].
          -- cbn [In]. intros [Hbad|Hbad]; [discriminate|contradiction].
          -- cbn [length]. lia.
          -- rewrite Hco. unfold cores_of. rewrite Hcores. reflexivity.
          -- exact Hxx.
        * destruct (run_from avc_parse hevc_parse s' ops) as [ocs s''].
          destruct IH as [Hp [Hlo [Hco Hxx]]]; try assumption.
          split; [|split; [|split]].
          -- cbn [In]. intros [Hbad|Hbad]; [discriminate|contradiction].
          -- cbn [length]. lia.
          -- rewrite Hco. unfold cores_of. rewrite Hcores. reflexivity.
          -- exact Hxx.
  Qed.

  Definition next_spec (s : st) : Prop :=
    next_id s = match length (traks s) with O => 2 | n => N.of_nat n + 1 end.

  Lemma valid_histories ops :
    N.of_nat (length ops) < 4294967295 ->
    ops_valid 0 ops = true ->
    let '(ocs, s) := run avc_parse hevc_parse ops in
    ~ In OPanic ocs
    /\ length ocs = length ops
    /\ map Some (map core (traks s)) = spec_cores 0 (adds_of ops)
    /\ next_spec s.
  Proof.
    intros Hb Hv. unfold run.
    destruct (empty_init_inv) as [H1 H2].
    pose proof (run_from_valid ops empty_init Hb H1 H2 (or_introl eq_refl) Hv) as H.
    destruct (run_from avc_parse hevc_parse empty_init ops) as [ocs s] eqn:Hr.
    destruct H as [Hp [Hl [Hc Hx]]].
    repeat split; try assumption.
    unfold next_spec. destruct Hx as [Hx|Hx].
    - rewrite Hx. cbn [length].
      (* no track was added: NextTrackID is still the 2 of CreateMvhd *)
      assert (Hadds : adds_of ops = []).
      { unfold cores_of in Hc. rewrite Hx in Hc. cbn in Hc. destruct (adds_of ops) as [|[[a b] c] r]; [reflexivity|discriminate]. }
      clear -Hr Hadds.
      assert (G : forall ops s0 ocs s, adds_of ops = [] -> run_from avc_parse hevc_parse s0 ops = (ocs, s) -> next_id s = next_id s0).
      { clear. induction ops as [|o ops IH]; intros s0 ocs s Ha Hr; cbn [run_from] in Hr.
        - inversion Hr. reflexivity.
        - destruct o as [ts m lang|k d]; [discriminate|]. cbn [adds_of] in Ha.
          pose proof (step_setdesc_rest avc_parse hevc_parse s0 k d) as Hrest. cbv zeta in Hrest.
          destruct (step avc_parse hevc_parse s0 (SetDesc k d)) as [oc s1]. cbn [snd] in Hrest.
          destruct Hrest as [_ [_ [Hn _]]].
          destruct oc.
          + destruct (run_from avc_parse hevc_parse s1 ops) as [ocs' s'] eqn:Hr'. inversion Hr; subst.
            rewrite (IH s1 ocs' s Ha Hr'). exact Hn.
          + destruct (run_from avc_parse hevc_parse s1 ops) as [ocs' s'] eqn:Hr'. inversion Hr; subst.
            rewrite (IH s1 ocs' s Ha Hr'). exact Hn.
          + inversion Hr; subst. exact Hn. }
      rewrite (G ops empty_init ocs s Hadds Hr). reflexivity.
    - unfold next_exact in Hx. rewrite Hx. destruct (length (traks s)); reflexivity.
  Qed.
End P.
