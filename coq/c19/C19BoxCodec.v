(* SNAPSHOT: verbatim copy of coq/c01/C01Codec.v at /verif commit 88f92e5 (the last commit touching coq/c01 as of HEAD d7d762b) (only this banner and the import line differ); second
   snapshot (the first was taken at c35b7dd, before C01 typed esds/uuid/sgpd, proved the general C01_fixpoint and
   followed the repo repairs 3502d85 (hdlr Size = len(HandlerType)), 954ff09 (senc), 89e24df (SLConfigDescriptor size 0)).
   C19 proves and extracts against this frozen copy because the C01 box model is being extended concurrently (new typed
   leaves change what its decoder returns for boxes that C19's init tree holds as opaque payloads: at this snapshot dac3,
   dec3, wvtt, stpp), which would turn C19 red through no change of the code under test.  The tie of THIS copy to the Go
   code is C19's own correspondence: the bytes of InitSegment.Encode are compared with raw_box/encode_seq on every case.
   To follow C01 again: delete the two C19Box*.v files and import V.c01 C01Codec C01Model instead. *)
(* C01Codec.v — big-endian integer codec over byte lists (list N) and the parser / printer
   combinators shared by the box models of C01 and C02 (other properties import this read-only).

   Bytes are N with bytes_ok (Base.v).  A parser consumes a prefix of the remaining slice, exactly
   like the Go code reading from a bits.SliceReader; Err models the accumulated slice-read error
   (the Go readers go on returning zeros after the first failed read and report the error at the end
   through AccError; every modelled decoder returns sr.AccError(), so failing at the first short
   read is observationally the same). *)
From V.lib Require Import Base.

(* ---------------------------------------------------------------- little / big endian *)
Fixpoint le_enc (n : nat) (v : N) : list N :=
  match n with O => [] | S m => v mod 256 :: le_enc m (v / 256) end.

Fixpoint le_dec (l : list N) : N :=
  match l with [] => 0 | b :: t => b + 256 * le_dec t end.

(* be_enc n v: the n low-order bytes of v, most significant first.  Like Go's uintN(v) conversion
   followed by binary.BigEndian.PutUintN it silently drops the high part of v. *)
Definition be_enc (n : nat) (v : N) : list N := rev (le_enc n v).
Definition be_dec (l : list N) : N := le_dec (rev l).

Lemma length_le_enc n v : length (le_enc n v) = n.
Proof. revert v. induction n as [|n IH]; intros v; cbn [le_enc length]; [reflexivity|]. now rewrite IH. Qed.

Lemma length_be_enc n v : length (be_enc n v) = n.
Proof. unfold be_enc. rewrite rev_length. apply length_le_enc. Qed.

Lemma lenN_be_enc n v : lenN (be_enc n v) = N.of_nat n.
Proof. unfold lenN. now rewrite length_be_enc. Qed.

Lemma le_enc_bytes_ok n v : bytes_ok (le_enc n v) = true.
Proof.
  revert v. induction n as [|n IH]; intros v; cbn [le_enc]; [reflexivity|].
  rewrite bytes_ok_cons, IH, andb_true_r. unfold byte_ok. apply N.ltb_lt. apply N.mod_lt. discriminate.
Qed.

Lemma bytes_ok_rev l : bytes_ok (rev l) = bytes_ok l.
Proof.
  induction l as [|b t IH]; [reflexivity|]. cbn [rev]. rewrite bytes_ok_app, IH, !bytes_ok_cons.
  cbn [bytes_ok forallb]. rewrite andb_true_r. apply andb_comm.
Qed.

Lemma be_enc_bytes_ok n v : bytes_ok (be_enc n v) = true.
Proof. unfold be_enc. rewrite bytes_ok_rev. apply le_enc_bytes_ok. Qed.

Lemma le_dec_enc n v : le_dec (le_enc n v) = v mod 256 ^ N.of_nat n.
Proof.
  revert v. induction n as [|n IH]; intros v.
  - cbn [le_enc le_dec]. change (N.of_nat 0) with 0. rewrite N.pow_0_r, N.mod_1_r. reflexivity.
  - cbn [le_enc le_dec]. rewrite IH. rewrite Nat2N.inj_succ, N.pow_succ_r'.
    rewrite N.mod_mul_r by (try discriminate; apply N.pow_nonzero; discriminate). reflexivity.
Qed.

Lemma le_enc_dec l : bytes_ok l = true -> le_enc (length l) (le_dec l) = l.
Proof.
  induction l as [|b t IH]; intros H; [reflexivity|].
  rewrite bytes_ok_cons in H. apply andb_true_iff in H. destruct H as [Hb Ht].
  unfold byte_ok in Hb. apply N.ltb_lt in Hb.
  cbn [length le_enc le_dec].
  replace ((b + 256 * le_dec t) mod 256) with b by lia.
  replace ((b + 256 * le_dec t) / 256) with (le_dec t) by lia.
  now rewrite IH.
Qed.

Lemma be_dec_enc n v : be_dec (be_enc n v) = v mod 256 ^ N.of_nat n.
Proof. unfold be_dec, be_enc. rewrite rev_involutive. apply le_dec_enc. Qed.

Lemma be_dec_enc_small n v : v < 256 ^ N.of_nat n -> be_dec (be_enc n v) = v.
Proof. intros H. rewrite be_dec_enc. now apply N.mod_small. Qed.

Lemma be_enc_dec l : bytes_ok l = true -> be_enc (length l) (be_dec l) = l.
Proof.
  intros H. unfold be_enc, be_dec. rewrite <- (rev_length l).
  rewrite le_enc_dec by (now rewrite bytes_ok_rev). apply rev_involutive.
Qed.

Lemma le_dec_lt l : bytes_ok l = true -> le_dec l < 256 ^ N.of_nat (length l).
Proof.
  induction l as [|b t IH]; intros H.
  - cbn. lia.
  - rewrite bytes_ok_cons in H. apply andb_true_iff in H. destruct H as [Hb Ht].
    unfold byte_ok in Hb. apply N.ltb_lt in Hb. specialize (IH Ht).
    cbn [length le_dec]. rewrite Nat2N.inj_succ, N.pow_succ_r'. lia.
Qed.

Lemma be_dec_lt l : bytes_ok l = true -> be_dec l < 256 ^ N.of_nat (length l).
Proof. intros H. unfold be_dec. rewrite <- (rev_length l). apply le_dec_lt. now rewrite bytes_ok_rev. Qed.

(* the value written is reduced modulo 256^n: be_enc n (v mod 256^n) = be_enc n v *)
Lemma le_enc_mod n v : le_enc n (v mod 256 ^ N.of_nat n) = le_enc n v.
Proof.
  revert v. induction n as [|n IH]; intros v; [reflexivity|].
  cbn [le_enc]. rewrite Nat2N.inj_succ, N.pow_succ_r'.
  assert (P : 256 ^ N.of_nat n <> 0) by (apply N.pow_nonzero; discriminate).
  rewrite N.mod_mul_r by (try discriminate; exact P).
  set (q := 256 ^ N.of_nat n) in *. set (X := (v / 256) mod q).
  replace ((v mod 256 + 256 * X) mod 256) with (v mod 256) by lia.
  replace ((v mod 256 + 256 * X) / 256) with X by lia.
  unfold X, q. now rewrite IH.
Qed.

Lemma be_enc_mod n v : be_enc n (v mod 256 ^ N.of_nat n) = be_enc n v.
Proof. unfold be_enc. now rewrite le_enc_mod. Qed.

(* ---------------------------------------------------------------- taking a prefix *)
Fixpoint take (n : nat) (bs : list N) : option (list N * list N) :=
  match n with
  | O => Some ([], bs)
  | S m => match bs with
           | [] => None
           | b :: t => match take m t with Some (x, r) => Some (b :: x, r) | None => None end
           end
  end.

Lemma take_spec n bs x r : take n bs = Some (x, r) -> bs = x ++ r /\ length x = n.
Proof.
  revert bs x r. induction n as [|n IH]; intros bs x r H; cbn [take] in H.
  - injection H as <- <-. now split.
  - destruct bs as [|b t]; [discriminate|].
    destruct (take n t) as [[x' r']|] eqn:E; [|discriminate].
    injection H as <- <-. destruct (IH _ _ _ E) as [-> <-]. now split.
Qed.

Lemma take_app x r : take (length x) (x ++ r) = Some (x, r).
Proof. induction x as [|b t IH]; cbn [length take app]; [reflexivity|]. now rewrite IH. Qed.

Lemma take_none n bs : take n bs = None -> (length bs < n)%nat.
Proof.
  revert bs. induction n as [|n IH]; intros bs H; cbn [take] in H; [discriminate|].
  destruct bs as [|b t]; [cbn; lia|].
  destruct (take n t) as [[x' r']|] eqn:E; [discriminate|]. specialize (IH _ E). cbn [length]. lia.
Qed.

(* ---------------------------------------------------------------- parsers *)
Definition parser (A : Type) : Type := list N -> res (A * list N).

Definition pret {A} (a : A) : parser A := fun bs => Ok (a, bs).
Definition pfail {A} : parser A := fun _ => Err.
Definition pbind {A B} (p : parser A) (f : A -> parser B) : parser B :=
  fun bs => match p bs with
            | Ok (a, r) => f a r
            | Err => Err | Panic => Panic | OutOfFuel => OutOfFuel
            end.
Notation "'pdo' x <- p ;; k" := (pbind p (fun x => k)) (at level 200, x name, p at level 100, k at level 200, right associativity).

(* sr.ReadUintN: n bytes, big endian *)
Definition rd (n : nat) : parser N :=
  fun bs => match take n bs with Some (x, r) => Ok (be_dec x, r) | None => Err end.

(* sr.ReadBytes(n) / SkipBytes(n) with the bytes kept: n is a 64-bit quantity in Go, so it is an N here and
   is compared with the remaining length before anything is allocated *)
Definition rdB (n : N) : parser (list N) :=
  fun bs => if lenN bs <? n then Err
            else match take (N.to_nat n) bs with Some (x, r) => Ok (x, r) | None => Err end.

(* sr.RemainingBytes() *)
Definition rd_rest : parser (list N) := fun bs => Ok (bs, []).

(* counted repetition: `for i := 0; i < cnt; i++ { item }`.  Fuel bounds the number of iterations;
   callers pass (length of the slice + the largest count the Go code admits for zero-width items). *)
Fixpoint rd_many {A} (fuel : nat) (cnt : N) (p : parser A) : parser (list A) :=
  fun bs =>
    if cnt =? 0 then Ok ([], bs) else
    match fuel with
    | O => OutOfFuel
    | S f => match p bs with
             | Ok (a, r) => match rd_many f (cnt - 1) p r with
                            | Ok (l, r') => Ok (a :: l, r')
                            | Err => Err | Panic => Panic | OutOfFuel => OutOfFuel
                            end
             | Err => Err | Panic => Panic | OutOfFuel => OutOfFuel
             end
    end.

Lemma rd_spec n bs v r :
  bytes_ok bs = true -> rd n bs = Ok (v, r) ->
  bs = be_enc n v ++ r /\ v < 256 ^ N.of_nat n /\ bytes_ok r = true.
Proof.
  unfold rd. intros Hok H. destruct (take n bs) as [[x r']|] eqn:E; [|discriminate].
  injection H as <- <-. destruct (take_spec _ _ _ _ E) as [-> Hl].
  rewrite bytes_ok_app in Hok. apply andb_true_iff in Hok. destruct Hok as [Hx Hr].
  split; [|split]; [| |exact Hr].
  - rewrite <- Hl. now rewrite be_enc_dec.
  - rewrite <- Hl. now apply be_dec_lt.
Qed.

Lemma rdB_spec n bs x r :
  bytes_ok bs = true -> rdB n bs = Ok (x, r) ->
  bs = x ++ r /\ lenN x = n /\ bytes_ok x = true /\ bytes_ok r = true.
Proof.
  unfold rdB. intros Hok H. destruct (lenN bs <? n) eqn:Hc; [discriminate|].
  destruct (take (N.to_nat n) bs) as [[x' r']|] eqn:E; [|discriminate].
  injection H as <- <-. destruct (take_spec _ _ _ _ E) as [-> Hl].
  rewrite bytes_ok_app in Hok. apply andb_true_iff in Hok. destruct Hok as [Hx Hr].
  repeat split; try assumption. unfold lenN. rewrite Hl. lia.
Qed.

Lemma rd_rest_spec bs x r : rd_rest bs = Ok (x, r) -> bs = x ++ r /\ r = [].
Proof. unfold rd_rest. intros H. injection H as <- <-. now rewrite app_nil_r. Qed.

Lemma rd_many_spec {A} (p : parser A) (e : A -> list N) :
  (forall bs a r, bytes_ok bs = true -> p bs = Ok (a, r) -> bs = e a ++ r /\ bytes_ok r = true) ->
  forall fuel cnt bs l r, bytes_ok bs = true -> rd_many fuel cnt p bs = Ok (l, r) ->
    bs = flat_map e l ++ r /\ lenN l = cnt /\ bytes_ok r = true.
Proof.
  intros Hp. induction fuel as [|f IH]; intros cnt bs l r Hok H; cbn [rd_many] in H.
  - destruct (cnt =? 0) eqn:Hc; [|discriminate]. injection H as <- <-. apply N.eqb_eq in Hc. subst. now repeat split.
  - destruct (cnt =? 0) eqn:Hc.
    + injection H as <- <-. apply N.eqb_eq in Hc. subst. now repeat split.
    + destruct (p bs) as [[a r1]| | |] eqn:E; try discriminate.
      destruct (rd_many f (cnt - 1) p r1) as [[l' r']| | |] eqn:E2; try discriminate.
      injection H as <- <-. destruct (Hp _ _ _ Hok E) as [-> Hok1].
      destruct (IH _ _ _ _ Hok1 E2) as (-> & Hl & Hok2).
      apply N.eqb_neq in Hc. cbn [flat_map]. rewrite <- app_assoc. repeat split; try assumption.
      rewrite lenN_cons. lia.
Qed.

(* printing the items back and parsing them again *)
Lemma rd_many_print {A} (p : parser A) (e : A -> list N) :
  (forall a r, p (e a ++ r) = Ok (a, r)) ->
  forall l r fuel, (length l <= fuel)%nat -> rd_many fuel (lenN l) p (flat_map e l ++ r) = Ok (l, r).
Proof.
  intros Hp. induction l as [|a t IH]; intros r fuel Hf.
  - destruct fuel; reflexivity.
  - destruct fuel as [|f]; [cbn in Hf; lia|]. cbn [rd_many flat_map]. rewrite lenN_cons.
    replace (1 + lenN t =? 0) with false by (symmetry; apply N.eqb_neq; lia).
    rewrite <- app_assoc, Hp. replace (1 + lenN t - 1) with (lenN t) by lia.
    rewrite IH by (cbn in Hf; lia). reflexivity.
Qed.

(* ---------------------------------------------------------------- version and flags word *)
Definition vf_version (vf : N) : N := vf / 16777216.        (* byte(versionAndFlags >> 24) *)
Definition vf_flags (vf : N) : N := vf mod 16777216.        (* versionAndFlags & flagsMask *)
(* (uint32(Version) << 24) + Flags, in uint32 arithmetic *)
Definition vf_join (version flags : N) : N := u32 (version * 16777216 + flags).

Lemma vf_join_split vf : vf < 256 ^ N.of_nat 4 -> vf_join (vf_version vf) (vf_flags vf) = vf.
Proof.
  unfold vf_join, vf_version, vf_flags, u32. intros H. change (256 ^ N.of_nat 4) with 4294967296 in H.
  rewrite N.mod_small; lia.
Qed.

Lemma vf_version_lt vf : vf < 256 ^ N.of_nat 4 -> vf_version vf < 256.
Proof. unfold vf_version. change (256 ^ N.of_nat 4) with 4294967296. lia. Qed.

Lemma vf_flags_lt vf : vf_flags vf < 16777216.
Proof. unfold vf_flags. lia. Qed.

(* flag test: Flags & bit != 0 *)
Definition has (flags bit : N) : bool := negb (N.land flags bit =? 0).

(* ---------------------------------------------------------------- lengths *)
Lemma lenN_flat_map_const {A} (e : A -> list N) (k : N) (l : list A) :
  (forall a, lenN (e a) = k) -> lenN (flat_map e l) = k * lenN l.
Proof.
  intros He. induction l as [|a t IH]; [cbn; lia|].
  cbn [flat_map]. rewrite lenN_app, lenN_cons, He, IH. lia.
Qed.

Definition zeros (n : nat) : list N := repeat 0 n.
Lemma length_zeros n : length (zeros n) = n.
Proof. apply repeat_length. Qed.
Lemma lenN_zeros n : lenN (zeros n) = N.of_nat n.
Proof. unfold lenN. now rewrite length_zeros. Qed.

Global Opaque be_enc be_dec.
