(* Extraction of the C19 model for the correspondence check. ExtrOcamlBasic only. *)
From V.lib Require Import Base.
From V.c19 Require Import C19Model.
Require Import ExtrOcamlBasic.
Separate Extraction
  avc_info st trak sentry scfg avcc hvcc dac3 ec3sub dec3 mchild mhdr outcome op desc
  run step empty_init mdia_children mhdr_name get_language set_language create_hdlr
  moov_add_trak elng_payload elng_decode trak_shape stpp_payload stpp_decode.
