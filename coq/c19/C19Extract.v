(* Extraction of the C19 model for the correspondence check. ExtrOcamlBasic only. *)
From V.lib Require Import Base.
From V.c19 Require Import C19Model C19RecModel.
Require Import ExtrOcamlBasic.
Separate Extraction
  avc_info st trak sentry scfg avcc hvcc dac3 ec3sub dec3 mchild mhdr outcome op desc
  run step empty_init mdia_children mhdr_name get_language set_language create_hdlr
  moov_add_trak elng_payload elng_decode trak_shape stpp_payload stpp_decode
  avcrec hvcrec avcrec_size avcrec_encode avcrec_decode avcrec_canon avcrec_of
  hvcrec_size hvcrec_encode hvcrec_decode hvcrec_of.
