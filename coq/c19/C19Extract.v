(* Extraction of the C19 model for the correspondence check. ExtrOcamlBasic only. *)
From V.lib Require Import Base.
(* the independent parameter-set serialisers of C15 (used by the driver's GEN mode), from the frozen copies
   coq/c19/C19Gen*.v (see their banners); imported first so that the names of the C19 model win *)
From V.c19 Require Import C19GenAvcModel C19GenAvcSpec C19GenHevcModel C19GenHevcSpec.
From V.c19 Require Import C19BoxCodec C19BoxModel.
From V.c19 Require Import C19Model C19RecModel C19TreeModel C19FragModel C19DimsProofs C19Ac3Model.
Require Import ExtrOcamlBasic.
Separate Extraction
  avc_info st trak sentry scfg avcc hvcc dac3 ec3sub dec3 mchild mhdr outcome op desc
  run step empty_init mdia_children mhdr_name get_language set_language create_hdlr
  moov_add_trak elng_payload elng_decode trak_shape stpp_payload stpp_decode
  avcrec hvcrec avcrec_size avcrec_encode avcrec_decode avcrec_canon avcrec_of
  hvcrec_size hvcrec_encode hvcrec_decode hvcrec_of
  dac3_decode dec3_decode dac3_payload_x dec3_payload_x dac3_okb dec3_okb
  get_trex get_trex_dsdi c15_avc_parser c15_hevc_parser
  tree_of init_encode roundtrip_ok is_fragmented_init has_trex encode_seq size_box decode_file args_okb enc_fits
  nalu_sps nalu_pps sps_valid pps_valid display_width display_height compat_byte eff_chroma_format_idc has_chroma_block
  nalu_of ue_bits hnalu_sps hnalu_pps hsps_valid hpps_valid hrps_valid derive_one d_num_delta expected_himage_size constraint48.
