(* C19RoundtripProofs.v — C19_roundtrip for EVERY state that satisfies the structural invariant (all histories,
   C19_inv) and whose values fit the fields of their boxes (args_okb: what Go's types guarantee -- uint32 ids and
   timescales, uint16 dimensions, byte profile values -- plus the "valid parameter sets" conditions of the record
   theorems and a language tag of two or more non-NUL bytes), provided the encoded sizes fit 32 bits (enc_fits, C01):
   C01's decoder applied to C01's encoding of tree_of s returns exactly tree_of s. *)
From Coq Require Import String Ascii.
From V.lib Require Import Base.
From V.c19 Require Import C19BoxCodec C19BoxModel.
From V.c19 Require Import C19Model C19Spec C19InvProofs C19RecModel C19RecProofs C19TreeModel C19TreeProofs
  C19LeafProofs C19PrintParseProofs C19LeafPPProofs C19EsdsProofs.

(* ------------------------------------------------------------------ helpers *)
Ltac split_b H :=
  repeat (apply andb_true_iff in H; let K := fresh "K" in destruct H as [H K]);
  repeat match goal with h : (_ <? _) = true |- _ => apply N.ltb_lt in h end;
  repeat match goal with h : (_ <=? _) = true |- _ => apply N.leb_le in h end;
  repeat match goal with h : (_ =? _) = true |- _ => apply N.eqb_eq in h end.

Lemma fits_leaf l : leaf_large l = false -> enc_fits (leafb l) = true -> size_leaf l < 4294967296.
Proof. unfold leafb. cbn [enc_fits]. intros -> H. cbn [orb] in H. apply N.ltb_lt in H. exact H. Qed.

Lemma wf_leafb l d :
  lookup (leaf_name l) leaf_table = Some d -> lenN (leaf_name l) = 4 -> leaf_large l = false ->
  enc_fits (leafb l) = true -> leaf_pp d l -> wf (leafb l).
Proof. intros. eapply wf_leaf; eauto. apply fits_leaf; assumption. Qed.

Lemma wf_unkb name p :
  lenN name = 4 -> lookup name leaf_table = None -> lookup name pre_table = None -> is_cont name = false ->
  enc_fits (unkb name p) = true -> wf (unkb name p).
Proof.
  intros Hn H1 H2 H3 Hf. apply wf_unk; try assumption.
  unfold unkb, hdr8 in Hf. cbn [enc_fits h_len h_size] in Hf. change (8 <? 8) with false in Hf. cbn [orb] in Hf.
  apply N.ltb_lt in Hf. exact Hf.
Qed.

Lemma nalus16_forall l : nalus16b l = true -> Forall nalu16 l.
Proof. unfold nalus16b. rewrite forallb_forall. intros H. apply Forall_forall. intros a Ha. apply N.ltb_lt. exact (H a Ha). Qed.
Lemma nalu_ok_forall l : forallb nalu_ok l = true -> Forall nalu16 l.
Proof. rewrite forallb_forall. intros H. apply Forall_forall. intros a Ha. apply N.ltb_lt. exact (H a Ha). Qed.
Lemma no_nul_forall l : no_nulb l = true -> Forall (fun c => c <> 0) l.
Proof.
  unfold no_nulb. rewrite forallb_forall. intros H. apply Forall_forall. intros a Ha.
  specialize (H a Ha). apply negb_true_iff in H. apply N.eqb_neq. exact H.
Qed.

(* ------------------------------------------------------------------ sample entries *)
Lemma fits_pre l cs : enc_fits (preb l cs) = true ->
  size_leaf l + sumN (map size_box cs) < 4294967296 /\ forallb enc_fits cs = true.
Proof. unfold preb. cbn [enc_fits]. intros H. apply andb_true_iff in H. destruct H as [H1 H2]. apply N.ltb_lt in H1. tauto. Qed.

Lemma fits_cont name cs : enc_fits (contb name cs) = true ->
  8 + sumN (map size_box cs) < 4294967296 /\ forallb enc_fits cs = true.
Proof. unfold contb. cbn [enc_fits]. intros H. apply andb_true_iff in H. destruct H as [H1 H2]. apply N.ltb_lt in H1. tauto. Qed.

Lemma wf_visual name dri w h c :
  (name = n_avc1 \/ name = n_avc3 \/ name = n_hvc1 \/ name = n_hev1) ->
  dri < 65536 -> w < 65536 -> h < 65536 -> wf c ->
  enc_fits (preb (LVisual name dri w h 4718592 4718592 1 compressor_name) [c]) = true ->
  wf (preb (LVisual name dri w h 4718592 4718592 1 compressor_name) [c]).
Proof.
  intros Hn Hd Hw Hh Hc Hf. destruct (fits_pre _ _ Hf) as [Hs _].
  assert (Hpp : pre_pp dec_visual (LVisual name dri w h 4718592 4718592 1 compressor_name)).
  { apply ppp_visual; try assumption; try lia. vm_compute. discriminate. }
  destruct Hn as [-> | [-> | [-> | ->]]];
    (eapply (wf_pre _ dec_visual (PEntry 86)); [reflexivity|reflexivity|reflexivity|exact Hpp|reflexivity|exact Hs|constructor; [exact Hc|constructor]]).
Qed.

Lemma wf_audio name dri ch ss sr c :
  (name = n_mp4a \/ name = n_ac3 \/ name = n_ec3) ->
  dri < 65536 -> ch < 65536 -> ss < 65536 -> sr < 65536 -> wf c ->
  enc_fits (preb (LAudio name dri ch ss sr) [c]) = true -> wf (preb (LAudio name dri ch ss sr) [c]).
Proof.
  intros Hn Hd H1 H2 H3 Hc Hf. destruct (fits_pre _ _ Hf) as [Hs _].
  assert (Hpp : pre_pp dec_audio (LAudio name dri ch ss sr)) by (apply ppp_audio; assumption).
  destruct Hn as [-> | [-> | ->]];
    (eapply (wf_pre _ dec_audio (PEntry 36)); [reflexivity|reflexivity|reflexivity|exact Hpp|reflexivity|exact Hs|constructor; [exact Hc|constructor]]).
Qed.

Lemma array_ok_narr a : array_ok a = true -> fst a < 256 -> narr_ok a.
Proof.
  unfold array_ok. intros H Hf. apply andb_true_iff in H. destruct H as [H1 H2]. apply N.ltb_lt in H1.
  split; [exact Hf|]. split; [exact H1|]. apply nalu_ok_forall. exact H2.
Qed.

Lemma wf_entry_avc name dri w h a :
  (bytes_eqb name n_avc1 || bytes_eqb name n_avc3) = true -> dri < 65536 -> w < 65536 -> h < 65536 ->
  ac_profile a < 256 -> ac_compat a < 256 -> ac_level a < 256 -> lenN (ac_sps a) < 32 -> lenN (ac_pps a) < 256 ->
  nalus16b (ac_sps a) = true -> nalus16b (ac_pps a) = true -> ac_chroma a < 4 -> ac_bdl a < 8 -> ac_bdc a < 8 ->
  forall r, r = avcrec_canon (avcrec_of a) ->
  let b := preb (LVisual name dri w h 4718592 4718592 1 compressor_name)
                [leafb (LAvcC (ar_profile r) (ar_compat r) (ar_level r) (ar_sps r) (ar_pps r)
                              (ar_chroma r) (ar_bdl r) (ar_bdc r) (ar_nspsext r) (ar_notrail r))] in
  enc_fits b = true -> wf b.
Proof.
  intros Hn Hd Hw Hh Hp Hc Hl Hs Hq Fs Fp Hcf Hbl Hbc r Hr b Hf. subst b.
  destruct (fits_pre _ _ Hf) as [_ Hfc]. cbn [forallb] in Hfc. apply andb_true_iff in Hfc. destruct Hfc as [Hfc _].
  apply wf_visual; try assumption.
  - apply orb_true_iff in Hn. destruct Hn as [E|E]; apply beq_eq in E; auto.
  - eapply wf_leafb; [reflexivity|reflexivity|reflexivity|exact Hfc|].
    assert (Hok : avcc_fields_ok (ar_profile r) (ar_chroma r) (ar_bdl r) (ar_bdc r) (ar_nspsext r) (ar_notrail r)
                  /\ ar_profile r = ac_profile a /\ ar_compat r = ac_compat a /\ ar_level r = ac_level a
                  /\ ar_sps r = ac_sps a /\ ar_pps r = ac_pps a).
    { subst r. unfold avcrec_canon, avcrec_of, avcc_fields_ok. cbn [ar_profile ar_notrail].
      change (C19BoxModel.avc_plain (ac_profile a)) with (C19RecModel.avc_plain (ac_profile a)).
      destruct (C19RecModel.avc_plain (ac_profile a)) eqn:Epl;
        cbn [ar_profile ar_compat ar_level ar_sps ar_pps ar_chroma ar_bdl ar_bdc ar_nspsext ar_notrail];
        change (C19BoxModel.avc_plain (ac_profile a)) with (C19RecModel.avc_plain (ac_profile a)); rewrite Epl; tauto. }
    destruct Hok as (Hok & E1 & E2 & E3 & E4 & E5).
    apply lpp_avcC; try assumption; rewrite ?E1, ?E2, ?E3, ?E4, ?E5; try assumption; apply nalus16_forall; assumption.
Qed.

Lemma wf_entry_hevc name dri w h r :
  (bytes_eqb name n_hvc1 || bytes_eqb name n_hev1) = true -> dri < 65536 -> w < 65536 -> h < 65536 ->
  hvcrec_ok r = true -> hr_level r < 256 -> forallb (fun a => fst a <? 256) (hr_arrays r) = true ->
  let b := preb (LVisual name dri w h 4718592 4718592 1 compressor_name)
                [leafb (LHvcC (hr_space r) (hr_tier r) (hr_pidc r) (hr_compat r) (hr_constraint r) (hr_level r)
                              (hr_minspat r) (hr_par r) (hr_chroma r) (hr_bdl r) (hr_bdc r) (hr_avgfr r)
                              (hr_cfr r) (hr_ntl r) (hr_tin r) (hr_arrays r))] in
  enc_fits b = true -> wf b.
Proof.
  intros Hnm Hd Hw Hh Hr Hlv Hct b Hf. subst b.
  unfold hvcrec_ok in Hr. split_b Hr.
  destruct (fits_pre _ _ Hf) as [_ Hfc]. cbn [forallb] in Hfc. apply andb_true_iff in Hfc. destruct Hfc as [Hfc _].
  apply wf_visual; try assumption.
  - apply orb_true_iff in Hnm. destruct Hnm as [E|E]; apply beq_eq in E; auto.
  - eapply wf_leafb; [reflexivity|reflexivity|reflexivity|exact Hfc|].
    apply lpp_hvcC; try assumption.
    apply Forall_forall. intros x Hx.
    match goal with HK : forallb array_ok _ = true |- _ => rewrite forallb_forall in HK; rewrite forallb_forall in Hct;
      apply array_ok_narr; [exact (HK x Hx)|]; apply N.ltb_lt; exact (Hct x Hx) end.
Qed.

Lemma wf_entry_audio name cname dri ch ss sr p :
  (name = n_mp4a \/ name = n_ac3 \/ name = n_ec3) -> dri < 65536 -> ch < 65536 -> ss < 65536 -> sr < 65536 ->
  lenN cname = 4 -> lookup cname leaf_table = None -> lookup cname pre_table = None -> is_cont cname = false ->
  enc_fits (preb (LAudio name dri ch ss sr) [unkb cname p]) = true -> wf (preb (LAudio name dri ch ss sr) [unkb cname p]).
Proof.
  intros Hn Hd H1 H2 H3 C1 C2 C3 C4 Hf.
  destruct (fits_pre _ _ Hf) as [_ Hfc]. cbn [forallb] in Hfc. apply andb_true_iff in Hfc. destruct Hfc as [Hfc _].
  apply wf_audio; try assumption. apply wf_unkb; assumption.
Qed.

Ltac gets Hb :=
  match type of Hb with Some ?x = Some ?b => let E := fresh in assert (E : b = x) by congruence; subst b; clear Hb end.

Lemma wf_entry e b : entry_box e = Some b -> entry_okb e = true -> enc_fits b = true -> wf b.
Proof.
  unfold entry_box, entry_okb. intros Hb Hok Hf.
  apply andb_true_iff in Hok. destruct Hok as [Hok Hcfg]. split_b Hok.
  destruct (se_cfg e) as [a|h|asc|d|d|config|ns schema mime].
  - gets Hb. split_b Hcfg. eapply wf_entry_avc; try eassumption; reflexivity.
  - apply andb_true_iff in Hcfg. destruct Hcfg as [Hnm Hr].
    destruct (hvcrec_of h) as [r|]; [|discriminate]. gets Hb.
    apply andb_true_iff in Hr. destruct Hr as [Hr Hct]. apply andb_true_iff in Hr. destruct Hr as [Hr Hlv].
    apply N.ltb_lt in Hlv. apply wf_entry_hevc; assumption.
  - gets Hb. apply andb_true_iff in Hcfg. destruct Hcfg as [Hnm Hlen]. apply beq_eq in Hnm. apply N.leb_le in Hlen.
    destruct (fits_pre _ _ Hf) as [_ Hfc]. cbn [forallb] in Hfc. apply andb_true_iff in Hfc. destruct Hfc as [Hfc _].
    apply wf_audio; try assumption; auto.
    eapply wf_leafb; [reflexivity|reflexivity|reflexivity|exact Hfc|]. apply lpp_esds; assumption.
  - gets Hb. apply beq_eq in Hcfg. apply wf_entry_audio; try assumption; try reflexivity. auto.
  - destruct (dec3_payload d) as [p|]; [|discriminate]. gets Hb. apply beq_eq in Hcfg.
    apply wf_entry_audio; try assumption; try reflexivity. auto.
  - gets Hb. apply wf_unkb; [reflexivity|reflexivity|reflexivity|reflexivity|assumption].
  - gets Hb. apply wf_unkb; [reflexivity|reflexivity|reflexivity|reflexivity|assumption].
Qed.

Lemma wf_entries es : forall bs, entries_boxes es = Some bs -> forallb entry_okb es = true ->
  forallb enc_fits bs = true -> Forall wf bs /\ length bs = length es.
Proof.
  induction es as [|e es IH]; intros bs Hb Hok Hf; cbn [entries_boxes] in Hb.
  - injection Hb as <-. split; [constructor|reflexivity].
  - destruct (entry_box e) as [b|] eqn:Eb; [|discriminate]. destruct (entries_boxes es) as [bs'|]; [|discriminate].
    injection Hb as <-. cbn [forallb] in Hok, Hf. apply andb_true_iff in Hok, Hf. destruct Hok as [Ho1 Ho2]. destruct Hf as [Hf1 Hf2].
    destruct (IH bs' eq_refl Ho2 Hf2) as [IH1 IH2]. split; [constructor; [eapply wf_entry; eauto|exact IH1]|cbn [length]; lia].
Qed.

(* ------------------------------------------------------------------ trak *)
Lemma wf_contb name cs :
  lenN name = 4 -> lookup name leaf_table = None -> lookup name pre_table = None -> is_cont name = true ->
  bytes_eqb name n_moof = false -> bytes_eqb name n_edts = false -> bytes_eqb name n_moov = false ->
  enc_fits (contb name cs) = true -> Forall wf cs -> wf (contb name cs).
Proof.
  intros H1 H2 H3 H4 H5 H6 H7 Hf Hcs. destruct (fits_cont _ _ Hf) as [Hs _].
  apply wf_cont; try assumption. intros E. rewrite E in H7. discriminate.
Qed.

Ltac fits2 H H1 H2 := cbn [forallb] in H; apply andb_true_iff in H; destruct H as [H1 H2].

Lemma wf_mhdr h : enc_fits (mhdr_box h) = true -> wf (mhdr_box h).
Proof.
  intros Hf. destruct h; unfold mhdr_box in *.
  - eapply wf_leafb; [reflexivity|reflexivity|reflexivity|exact Hf|]. apply lpp_vmhd; lia.
  - eapply wf_leafb; [reflexivity|reflexivity|reflexivity|exact Hf|]. apply lpp_smhd; lia.
  - eapply wf_leafb; [reflexivity|reflexivity|reflexivity|exact Hf|]. apply lpp_fullonly; lia.
  - eapply wf_leafb; [reflexivity|reflexivity|reflexivity|exact Hf|]. apply lpp_fullonly; lia.
Qed.

Lemma wf_dinf : enc_fits (contb n_dinf [preb (LDref 0 0 1) [leafb (LUrl 0 1 [] true false)]]) = true ->
  wf (contb n_dinf [preb (LDref 0 0 1) [leafb (LUrl 0 1 [] true false)]]).
Proof.
  intros Hf. destruct (fits_cont _ _ Hf) as [_ Hc]. fits2 Hc Hd X. destruct (fits_pre _ _ Hd) as [Hs Hu]. fits2 Hu Hu1 Xy.
  apply wf_contb; try reflexivity; try assumption. constructor; [|constructor].
  eapply (wf_pre _ dec_dref (PStrict 16)); [reflexivity|reflexivity|reflexivity|apply ppp_dref; lia|split; reflexivity|exact Hs|].
  constructor; [|constructor]. eapply wf_leafb; [reflexivity|reflexivity|reflexivity|exact Hu1|]. apply lpp_url; lia.
Qed.

Lemma wf_stbl es :
  lenN es < 4294967296 -> Forall wf es ->
  let b := contb n_stbl [ preb (LStsd 0 0 (lenN es)) es; leafb (LStts 0 0 []); leafb (LStsc 0 0 [] 0 []);
                          leafb (LStsz 0 0 0 0 []); leafb (LTab n_stco 4 0 0 []) ] in
  enc_fits b = true -> wf b.
Proof.
  intros Hn Hes b Hf. subst b. destruct (fits_cont _ _ Hf) as [_ Hc].
  fits2 Hc H1 Hc. fits2 Hc H2 Hc. fits2 Hc H3 Hc. fits2 Hc H4 Hc. fits2 Hc H5 X.
  destruct (fits_pre _ _ H1) as [Hs _].
  apply wf_contb; try reflexivity; try assumption.
  repeat constructor.
  - eapply (wf_pre _ dec_stsd (PStrict 16)); [reflexivity|reflexivity|reflexivity|apply ppp_stsd; lia| |exact Hs|exact Hes].
    split; [reflexivity|]. cbn [pre_count_ok]. apply N.eqb_refl.
  - eapply wf_leafb; [reflexivity|reflexivity|reflexivity|exact H2|]. apply lpp_stts; lia.
  - eapply wf_leafb; [reflexivity|reflexivity|reflexivity|exact H3|]. apply lpp_stsc; lia.
  - eapply wf_leafb; [reflexivity|reflexivity|reflexivity|exact H4|]. apply lpp_stsz; lia.
  - eapply wf_leafb; [reflexivity|reflexivity|reflexivity|exact H5|]. apply lpp_tab; lia.
Qed.

Lemma wf_trak t b : trak_box t = Some b -> trak_okb t = true -> enc_fits b = true -> wf b.
Proof.
  unfold trak_box, trak_okb. intros Hb Hok Hf.
  destruct (entries_boxes (sd_entries t)) as [es|] eqn:Ees; [|discriminate]. gets Hb.
  apply andb_true_iff in Hok. destruct Hok as [Hok Hent]. apply andb_true_iff in Hok. destruct Hok as [Hok Hcnt].
  apply andb_true_iff in Hok. destruct Hok as [Hok Hel]. split_b Hok.
  destruct (fits_cont _ _ Hf) as [_ Hc]. fits2 Hc Htk Hc. fits2 Hc Hmd X.
  destruct (fits_cont _ _ Hmd) as [_ Hm].
  rewrite forallb_app in Hm. apply andb_true_iff in Hm. destruct Hm as [Hm1 Hm]. fits2 Hm1 Hmdhd Hm1. fits2 Hm1 Hhdlr Xy.
  rewrite forallb_app in Hm. apply andb_true_iff in Hm. destruct Hm as [Hel_f Hmi]. fits2 Hmi Hminf Xz.
  destruct (fits_cont _ _ Hminf) as [_ Hn]. fits2 Hn Hmh Hn. fits2 Hn Hdinf Hn. fits2 Hn Hstbl Xw.
  assert (Hes : Forall wf es /\ length es = length (sd_entries t)).
  { destruct (fits_cont _ _ Hstbl) as [_ Hs]. fits2 Hs Hsd Xv. destruct (fits_pre _ _ Hsd) as [_ Hs2].
    apply wf_entries; assumption. }
  destruct Hes as [Hes Hlen].
  assert (Hles : lenN es < 4294967296) by (unfold lenN in *; rewrite Hlen; exact Hcnt).
  apply wf_contb; try reflexivity; try assumption.
  constructor; [|constructor; [|constructor]].
  - eapply wf_leafb; [reflexivity|reflexivity|reflexivity|exact Htk|]. apply lpp_tkhd; try assumption; lia.
  - apply wf_contb; try reflexivity; try assumption.
    apply Forall_app. split; [|apply Forall_app; split].
    + constructor; [|constructor; [|constructor]].
      * eapply wf_leafb; [reflexivity|reflexivity|reflexivity|exact Hmdhd|]. apply lpp_mdhd; try assumption; lia.
      * eapply wf_leafb; [reflexivity|reflexivity|reflexivity|exact Hhdlr|]. apply lpp_hdlr; try assumption; lia.
    + destruct (el_lang t) as [l|]; [|constructor]. constructor; [|constructor].
      apply andb_true_iff in Hel. destruct Hel as [Hl1 Hl2]. apply N.leb_le in Hl1.
      fits2 Hel_f He1 He2.
      eapply wf_leafb; [reflexivity|reflexivity|reflexivity|exact He1|]. apply lpp_elng; [exact Hl1|apply no_nul_forall; exact Hl2].
    + constructor; [|constructor].
      apply wf_contb; try reflexivity; try assumption.
      constructor; [apply wf_mhdr; exact Hmh|]. constructor; [apply wf_dinf; exact Hdinf|]. constructor; [|constructor].
      apply wf_stbl; assumption.
Qed.

(* ------------------------------------------------------------------ fuel: S (length bs) is enough *)
Lemma fuel_sum cs : Forall (fun c => N.of_nat (fuel_of c) + 6 <= size_box c) cs ->
  N.of_nat (length cs + maxl (map fuel_of cs)) <= sumN (map size_box cs).
Proof.
  induction 1 as [|c cs Hc _ IH]; [cbn; lia|]. cbn [length map maxl sumN]. lia.
Qed.

Lemma fuel_size_n n : forall t, (fuel_of t <= n)%nat -> wf t -> N.of_nat (fuel_of t) + 6 <= size_box t.
Proof.
  induction n as [|n IHn]; intros t Hn Hw.
  { destruct t; cbn [fuel_of] in Hn; lia. }
  assert (Hkids : forall cs, (S (S (length cs + maxl (map fuel_of cs))) <= S n)%nat -> Forall wf cs ->
                             Forall (fun c => N.of_nat (fuel_of c) + 6 <= size_box c) cs).
  { intros cs Hle Hf. apply Forall_forall. intros c Hin. apply IHn.
    - pose proof (maxl_in fuel_of c cs Hin). lia.
    - exact (proj1 (Forall_forall _ _) Hf c Hin). }
  destruct Hw as [l d _ _ _ _ (b & _ & Hlen & _)
                 |name cs _ _ _ _ _ _ _ _ Hcs
                 |name p _ _ _ _ _
                 |l d lk cs _ _ _ (b & _ & Hlen & _) _ _ Hcs].
  - unfold leafb. cbn [fuel_of size_box]. lia.
  - unfold contb in *. cbn [fuel_of size_box] in *. pose proof (fuel_sum cs (Hkids cs Hn Hcs)). lia.
  - unfold unkb, hdr8. cbn [fuel_of size_box h_size]. lia.
  - unfold preb in *. cbn [fuel_of size_box] in *. pose proof (fuel_sum cs (Hkids cs Hn Hcs)). lia.
Qed.

Lemma fuel_size t : wf t -> N.of_nat (fuel_of t) + 6 <= size_box t.
Proof. intros H. exact (fuel_size_n (fuel_of t) t (Nat.le_refl _) H). Qed.

(* decode of one well-formed box at the head of a slice, with the fuel decode gives itself *)
Lemma decode_wf t : wf t -> exists enc, raw_box false t = Ok enc /\ 8 <= lenN enc /\ forall r2, decode (enc ++ r2) = Ok (t, r2).
Proof.
  intros Hw. destruct (pp_box t Hw) as (enc & He & Hl & H8 & Hd). exists enc. split; [exact He|]. split; [lia|].
  intros r2. unfold decode. apply Hd. pose proof (fuel_size t Hw). rewrite app_length. unfold lenN in Hl. lia.
Qed.

Lemma decode_file_wf ts : Forall wf ts -> exists bs, encode_seq false ts = Ok bs /\ decode_file bs = Ok ts.
Proof.
  intros Hw.
  assert (G : exists bs, encode_seq false ts = Ok bs /\ forall f, (length ts < f)%nat -> decode_seq f bs = Ok ts).
  { induction Hw as [|t ts Ht _ IH].
    - exists []. split; [reflexivity|]. intros f Hf. destruct f; [lia|]. reflexivity.
    - destruct IH as (bs & Hb & Hd). destruct (decode_wf t Ht) as (e & He & H8 & Hde).
      exists (e ++ bs). cbn [encode_seq]. rewrite He, Hb. split; [reflexivity|].
      intros f Hf. destruct f as [|f]; [lia|]. cbn [decode_seq].
      destruct (e ++ bs) as [|x y] eqn:E.
      { apply (f_equal (@length N)) in E. rewrite app_length in E. unfold lenN in H8. cbn in E. lia. }
      rewrite <- E, Hde, Hd by (cbn [length] in Hf; lia). reflexivity. }
  destruct G as (bs & Hb & Hd). exists bs. split; [exact Hb|]. unfold decode_file. apply Hd.
  (* length ts <= length bs: every box has at least 8 bytes *)
  clear Hd. revert bs Hb. induction Hw as [|t ts Ht _ IH]; intros bs Hb; [cbn; lia|].
  cbn [encode_seq] in Hb. destruct (decode_wf t Ht) as (e & He & H8 & _). rewrite He in Hb.
  destruct (encode_seq false ts) as [bs'| | |]; try discriminate. cbn [rcat] in Hb. injection Hb as <-.
  specialize (IH bs' eq_refl). rewrite app_length. cbn [length]. unfold lenN in H8. lia.
Qed.

(* ------------------------------------------------------------------ moov: the invariant order is stable *)
Lemma lti_snoc {A} (f : A -> bool) acc x : forall i a, f x = true ->
  C19BoxModel.last_trak_idx f (acc ++ [x]) i a = (i + length acc)%nat.
Proof.
  induction acc as [|y acc IH]; intros i a Hx; cbn [app C19BoxModel.last_trak_idx length].
  - rewrite Hx. lia.
  - rewrite IH by exact Hx. lia.
Qed.

Lemma stable_inv {A} (f : A -> bool) ts : forall acc,
  (C19BoxModel.last_trak_idx f acc 0 0 = 0 \/ C19BoxModel.last_trak_idx f acc 0 0 = length acc - 1)%nat ->
  Forall (fun c => f c = true) ts -> moov_stable_from f acc ts = true.
Proof.
  induction ts as [|c ts IH]; intros acc Hk Hall; [reflexivity|]. inversion Hall; subst.
  cbn [moov_stable_from]. apply andb_true_iff. split.
  - apply negb_true_iff. unfold moov_cond. destruct Hk as [-> | ->].
    + cbn [Nat.eqb negb andb]. apply andb_false_r.
    + rewrite Nat.eqb_refl. cbn [negb]. rewrite andb_false_r. apply andb_false_r.
  - apply IH; [|assumption]. right. rewrite lti_snoc by assumption. rewrite app_length. cbn [length]. lia.
Qed.

Lemma trak_box_is_trak t b : trak_box t = Some b -> is_trak_box b = true.
Proof.
  unfold trak_box. destruct (entries_boxes (sd_entries t)); [|discriminate]. intros Hb. gets Hb. reflexivity.
Qed.

Lemma wf_trak_list s : forall l bs, children_boxes s (map MCtrak l) = Some bs ->
  forallb trak_okb (traks s) = true -> forallb enc_fits bs = true ->
  Forall wf bs /\ Forall (fun b => is_trak_box b = true) bs.
Proof.
  induction l as [|i l IH]; intros bs Hb Hok Hf; cbn [map children_boxes child_box] in Hb.
  - gets Hb. split; constructor.
  - destruct (nth_error (traks s) i) as [t|] eqn:Et; [|discriminate].
    destruct (trak_box t) as [b|] eqn:Eb; [|discriminate].
    destruct (children_boxes s (map MCtrak l)) as [bs'|]; [|discriminate]. gets Hb.
    cbn [forallb] in Hf. apply andb_true_iff in Hf. destruct Hf as [Hf1 Hf2].
    destruct (IH bs' eq_refl Hok Hf2) as [I1 I2].
    assert (Ht : trak_okb t = true) by (rewrite forallb_forall in Hok; apply Hok; eapply nth_error_In; eauto).
    split; constructor; try assumption; [eapply wf_trak; eauto|eapply trak_box_is_trak; eauto].
Qed.

Lemma wf_trexs ids : forallb (fun id => id <? 4294967296) ids = true -> forallb enc_fits (map trex_box ids) = true ->
  Forall wf (map trex_box ids).
Proof.
  induction ids as [|id ids IH]; intros Hok Hf; [constructor|]. cbn [map forallb] in *.
  apply andb_true_iff in Hok, Hf. destruct Hok as [H1 H2]. destruct Hf as [F1 F2]. apply N.ltb_lt in H1.
  constructor; [|apply IH; assumption].
  unfold trex_box in *. eapply wf_leafb; [reflexivity|reflexivity|reflexivity|exact F1|]. apply lpp_trex; try assumption; lia.
Qed.

(* ------------------------------------------------------------------ the round trip of every invariant state *)
Theorem roundtrip_state s ts :
  inv_struct s -> args_okb s = true -> tree_of s = Some ts -> forallb enc_fits ts = true ->
  exists bs, encode_seq false ts = Ok bs /\ decode_file bs = Ok ts.
Proof.
  intros (Hc & _ & _) Hok Ht Hf. unfold tree_of in Ht.
  destruct (children_boxes s (children s)) as [cs|] eqn:Ecs; [|discriminate]. gets Ht.
  unfold args_okb in Hok. apply andb_true_iff in Hok. destruct Hok as [Hok Htr]. apply andb_true_iff in Hok.
  destruct Hok as [Hnext Htx]. apply N.ltb_lt in Hnext.
  cbn [forallb] in Hf. apply andb_true_iff in Hf. destruct Hf as [Hft Hf]. apply andb_true_iff in Hf. destruct Hf as [Hfm _].
  apply decode_file_wf. constructor; [|constructor; [|constructor]].
  - (* ftyp *)
    unfold ftyp_box in *. eapply wf_leafb; [reflexivity|reflexivity|reflexivity|exact Hft|]. apply lpp_ftyp. vm_compute. discriminate.
  - (* moov *)
    destruct (fits_cont _ _ Hfm) as [Hsz Hfc].
    rewrite Hc in Ecs. unfold base_children in Ecs. cbn [app children_boxes child_box] in Ecs.
    destruct (children_boxes s (map MCtrak (seq 0 (length (traks s))))) as [tb|] eqn:Etb; [|discriminate]. gets Ecs.
    cbn [forallb] in Hfc. apply andb_true_iff in Hfc. destruct Hfc as [Hf1 Hfc]. apply andb_true_iff in Hfc. destruct Hfc as [Hf2 Hf3].
    destruct (wf_trak_list s _ tb Etb Htr Hf3) as [Wt It].
    apply wf_cont; try reflexivity; try assumption.
    + intros _. cbn [moov_stable_from]. unfold moov_cond at 1. cbn [is_trak_box box_name mvhd_box leafb leaf_name].
      change (bytes_eqb n_mvhd n_trak) with false. cbn [andb negb app].
      unfold moov_cond at 1. unfold contb at 1. cbn [is_trak_box box_name h_name hdr8].
      change (bytes_eqb n_mvex n_trak) with false. cbn [andb negb app].
      apply stable_inv; [|exact It]. left. reflexivity.
    + constructor; [|constructor].
      * unfold mvhd_box in *. eapply wf_leafb; [reflexivity|reflexivity|reflexivity|exact Hf1|]. apply lpp_mvhd; try assumption; lia.
      * destruct (fits_cont _ _ Hf2) as [_ Hfx]. apply wf_contb; try reflexivity; try assumption. apply wf_trexs; assumption.
      * exact Wt.
Qed.

(* every history *)
Theorem roundtrip_all (avc_parse : str -> option avc_info) (hevc_parse : str -> option (N * N * list N)) ops :
  N.of_nat (length ops) < 4294967295 ->
  let s := snd (run avc_parse hevc_parse ops) in
  args_okb s = true -> forall ts, tree_of s = Some ts -> forallb enc_fits ts = true ->
  exists bs, encode_seq false ts = Ok bs /\ decode_file bs = Ok ts
    /\ (traks s <> [] -> is_fragmented_init ts = true)
    /\ (forall t, In t (traks s) -> has_trex ts (tk_id t) = true).
Proof.
  intros Hb s Hok ts Ht Hf. destruct (inv_all avc_parse hevc_parse ops Hb) as [Hi _]. fold s in Hi.
  destruct (roundtrip_state s ts Hi Hok Ht Hf) as (bs & He & Hd).
  destruct (built_all avc_parse hevc_parse ops Hb ts Ht) as [Hfr Htx].
  exists bs. repeat split; assumption.
Qed.
