(* C09BuildCttsProofs.v — CttsBox.AddSampleCountsAndOffset as a state machine: after ANY history of calls
   (from an empty box or from a decoded one) the box, EndSampleNr cache included, is the box DecodeCttsSR
   builds from the concatenated table; EndSampleNr[i] = sum of the first i counts (uint32); without
   overflow such a box satisfies the ctts part of `consistent`, so the query theorem applies. *)
From V.lib Require Import Base.
From V.c09 Require Import C09Model C09Spec C09BaseProofs C09SttsProofs C09CttsProofs C09BuildModel.

Lemma last_nonempty_default {A} (l : list A) : forall a d d', last (a :: l) d = last (a :: l) d'.
Proof. induction l as [|b t IH]; intros a d d'; [reflexivity|]. change (last (b :: t) d = last (b :: t) d'). apply IH. Qed.

Lemma last_cons_default {A} (e : A) l d : last (e :: l) d = last l e.
Proof. destruct l as [|a t]; [reflexivity|]. change (last (a :: t) d = last (a :: t) e). apply last_nonempty_default. Qed.

Lemma ctts_ends_app l1 : forall acc l2,
  ctts_ends acc (l1 ++ l2) = ctts_ends acc l1 ++ ctts_ends (last (ctts_ends acc l1) acc) l2.
Proof.
  induction l1 as [|c t IH]; intros acc l2; [reflexivity|].
  cbn [app ctts_ends]. rewrite IH. rewrite last_cons_default. reflexivity.
Qed.

Lemma map_fst_combine' {A B} (l1 : list A) : forall (l2 : list B), length l1 = length l2 -> map fst (combine l1 l2) = l1.
Proof. induction l1 as [|a t IH]; intros [|b t2] H; try discriminate; [reflexivity|]. cbn. f_equal. apply IH. cbn in H. lia. Qed.

Lemma map_snd_combine' {A B} (l1 : list A) : forall (l2 : list B), length l1 = length l2 -> map snd (combine l1 l2) = l2.
Proof. induction l1 as [|a t IH]; intros [|b t2] H; try discriminate; [reflexivity|]. cbn. f_equal. apply IH. cbn in H. lia. Qed.

Lemma lenN_eq_length {A B} (l1 : list A) (l2 : list B) : (lenN l1 =? lenN l2) = true -> length l1 = length l2.
Proof. unfold lenN. intros H. lia. Qed.

(* one accepted call on a decoded box *)
Lemma ctts_add_decode raw cs os : (lenN cs =? lenN os) = true ->
  ctts_add (ctts_decode raw) cs os = Ok (ctts_decode (raw ++ combine cs os)).
Proof.
  intros H. unfold ctts_add. rewrite H. cbn [negb]. unfold ctts_decode. cbn [ct_end ct_off].
  pose proof (lenN_eq_length _ _ H) as HL.
  rewrite !map_app, (map_fst_combine' _ _ HL), (map_snd_combine' _ _ HL).
  rewrite ctts_ends_app. rewrite last_cons_default. reflexivity.
Qed.

(* one accepted call on `&CttsBox{}` *)
Lemma ctts_add_empty cs os : (lenN cs =? lenN os) = true ->
  ctts_add ctts_empty cs os = Ok (ctts_decode (combine cs os)).
Proof.
  intros H. unfold ctts_add, ctts_empty. rewrite H. cbn [negb ct_end ct_off last app]. unfold ctts_decode.
  pose proof (lenN_eq_length _ _ H) as HL.
  rewrite (map_fst_combine' _ _ HL), (map_snd_combine' _ _ HL). reflexivity.
Qed.

Lemma ctts_add_refused b cs os : (lenN cs =? lenN os) = false -> ctts_add b cs os = Err.
Proof. intros H. unfold ctts_add. rewrite H. reflexivity. Qed.

Lemma ctts_step_decode raw c : ctts_step (ctts_decode raw) c = ctts_decode (raw ++ ctts_call_table c).
Proof.
  unfold ctts_step, ctts_call_table, ctts_call_ok. destruct (lenN (fst c) =? lenN (snd c)) eqn:E.
  - rewrite ctts_add_decode by exact E. reflexivity.
  - rewrite ctts_add_refused by exact E. rewrite app_nil_r. reflexivity.
Qed.

(* ALL histories, from a decoded box *)
Lemma ctts_run_decode calls : forall raw0,
  ctts_run (ctts_decode raw0) calls = ctts_decode (raw0 ++ ctts_table calls).
Proof.
  induction calls as [|c t IH]; intros raw0.
  - cbn. rewrite app_nil_r. reflexivity.
  - unfold ctts_run in *. cbn [fold_left]. rewrite ctts_step_decode, IH.
    unfold ctts_table. cbn [flat_map]. rewrite app_assoc. reflexivity.
Qed.

(* ALL histories, from the empty box: as soon as one call has been accepted *)
Lemma ctts_run_empty calls : existsb ctts_call_ok calls = true ->
  ctts_run ctts_empty calls = ctts_decode (ctts_table calls).
Proof.
  induction calls as [|c t IH]; intros H; [discriminate|].
  cbn [existsb] in H. unfold ctts_run in *. cbn [fold_left]. unfold ctts_table. cbn [flat_map].
  unfold ctts_step at 2. unfold ctts_call_table. unfold ctts_call_ok in *.
  destruct (lenN (fst c) =? lenN (snd c)) eqn:E.
  - rewrite ctts_add_empty by exact E. apply ctts_run_decode.
  - rewrite ctts_add_refused by exact E. cbn [app]. apply IH. exact H.
Qed.

Lemma builder_ctts : forall raw0 calls,
  ctts_run (ctts_decode raw0) calls = ctts_decode (raw0 ++ ctts_table calls) /\
  (existsb ctts_call_ok calls = true -> ctts_run ctts_empty calls = ctts_decode (ctts_table calls)).
Proof. intros. split; [apply ctts_run_decode|apply ctts_run_empty]. Qed.

(* ---------- the cache invariant: EndSampleNr[i] = (sum of the first i counts) mod 2^32 ---------- *)
Lemma u32_add_idemp a b : u32 (u32 a + b) = u32 (a + b).
Proof. unfold u32. apply N.add_mod_idemp_l. discriminate. Qed.

Lemma ctts_ends_closed cs : forall acc,
  ctts_ends acc cs = map (fun k => u32 (acc + sumN (firstn k cs))) (seq 1 (length cs)).
Proof.
  induction cs as [|c t IH]; intros acc; [reflexivity|].
  cbn [ctts_ends length seq map]. f_equal.
  - cbn [firstn sumN]. f_equal. lia.
  - rewrite IH. rewrite <- (seq_shift (length t) 1), map_map. apply map_ext. intros k.
    cbn [firstn sumN]. rewrite u32_add_idemp. f_equal. lia.
Qed.

Lemma ctts_cache raw : forall i, (i <= length raw)%nat ->
  nth_error (ct_end (ctts_decode raw)) i = Some (u32 (sumN (firstn i (map fst raw)))) /\
  length (ct_end (ctts_decode raw)) = S (length raw) /\ ct_off (ctts_decode raw) = map snd raw.
Proof.
  intros i Hi. unfold ctts_decode. cbn [ct_end ct_off]. rewrite ctts_ends_closed.
  split; [|split; [cbn [length]; rewrite map_length, seq_length, map_length; reflexivity|reflexivity]].
  destruct i as [|j]; [reflexivity|]. cbn [nth_error].
  rewrite map_length.
  erewrite map_nth_error; [reflexivity|].
  rewrite (nth_error_nth' _ 0%nat) by (rewrite seq_length; lia). rewrite seq_nth by lia. reflexivity.
Qed.

(* ---------- without overflow the built box is a consistent ctts state ---------- *)
Lemma ctts_ends_props cs : forall acc d, acc + sumN cs < 4294967296 ->
  sorted_le (acc :: ctts_ends acc cs) = true /\ last (acc :: ctts_ends acc cs) d = acc + sumN cs /\
  diffs (acc :: ctts_ends acc cs) = cs.
Proof.
  induction cs as [|c t IH]; intros acc d H.
  - cbn. repeat split. lia.
  - cbn [sumN] in H. cbn [ctts_ends]. rewrite (u32_small (acc + c)) by lia.
    destruct (IH (acc + c) d ltac:(lia)) as [S1 [L1 D1]].
    split; [|split].
    + change (((acc <=? acc + c) && sorted_le (acc + c :: ctts_ends (acc + c) t)) = true). rewrite S1.
      destruct (acc <=? acc + c) eqn:E; [reflexivity|lia].
    + change (last (acc + c :: ctts_ends (acc + c) t) d = acc + sumN (c :: t)). rewrite L1. cbn [sumN]. lia.
    + change ((acc + c - acc) :: diffs (acc + c :: ctts_ends (acc + c) t) = c :: t). rewrite D1. f_equal. lia.
Qed.

Lemma ctts_decode_ok raw : sumN (map fst raw) < 4294967296 ->
  let c := ctts_decode raw in
  lenN (ct_end c) = lenN (ct_off c) + 1 /\ hd 1 (ct_end c) = 0 /\ sorted_le (ct_end c) = true /\
  last (ct_end c) 0 = sumN (map fst raw) /\ ctos_of c = expand_rl (map fst raw) (map snd raw).
Proof.
  intros H c. unfold c, ctts_decode, ctos_of. cbn [ct_end ct_off hd].
  destruct (ctts_ends_props (map fst raw) 0 0 ltac:(lia)) as [S1 [L1 D1]].
  rewrite S1, L1, D1. repeat split.
  rewrite lenN_cons. rewrite ctts_ends_closed. unfold lenN. rewrite !map_length, seq_length. lia.
Qed.

(* the query on a box with a consistent cache (the proof of cto_correct, with the ctts facts as hypotheses) *)
Lemma cto_correct_box c Ns :
  lenN (ct_end c) = lenN (ct_off c) + 1 -> hd 1 (ct_end c) = 0 -> sorted_le (ct_end c) = true ->
  last (ct_end c) 0 = Ns -> forall n, 1 <= n <= Ns ->
  exists x, S_cto c n = Some x /\ ctts_get_cto c n = Ok x.
Proof.
  intros Hlen Hhd Hsort Hlast n Hn.
  assert (Hne : ct_end c <> []) by (destruct (ct_end c); [rewrite lenN_nil in Hlen; lia|discriminate]).
  assert (H0 : nthN (ct_end c) 0 = Some 0).
  { destruct (ct_end c) as [|a t]; [congruence|]. cbn [hd] in Hhd. cbn [nthN N.eqb]. f_equal. lia. }
  pose proof (nthN_last (ct_end c) 0 Hne) as HL. rewrite Hlast in HL.
  destruct (bsearch_spec (fun v => v <? n) (ct_end c) (lt_prefix_true _ n Hsort) (bsearch_fuel (ct_end c)) 0
                         (lenN (ct_end c))) as [r [Hr [Hb [H1 H2]]]]; [lia|lia|apply bsearch_fuel_ok; lia|].
  assert (R1 : 1 <= r).
  { destruct (N.eq_dec r 0) as [->|]; [|lia]. specialize (H2 0 0 ltac:(lia) H0). lia. }
  assert (R2 : r <= lenN (ct_end c) - 1).
  { destruct (N.eq_dec r (lenN (ct_end c))) as [->|]; [|lia].
    specialize (H1 (lenN (ct_end c) - 1) Ns ltac:(lia) HL). lia. }
  destruct (nthN_lt_Some (ct_end c) (r - 1)) as [lo Hlo]; [lia|].
  destruct (nthN_lt_Some (ct_end c) r) as [hi Hhi]; [lia|].
  destruct (nthN_lt_Some (ct_off c) (r - 1)) as [x Hx]; [lia|].
  specialize (H1 (r - 1) lo ltac:(lia) Hlo). specialize (H2 r hi ltac:(lia) Hhi).
  exists x. unfold S_cto, ctts_get_cto, ctos_of. destruct (n =? 0) eqn:E0; [lia|]. split.
  - apply (expand_diffs_nth (ct_end c) Hsort (ct_off c) 0 (r - 1) lo hi x (n - 1)); try assumption; try lia.
    replace (r - 1 + 1) with r by lia. exact Hhi.
  - rewrite Hr. cbn [rbind]. apply idx_m1_Some; [lia|exact Hx].
Qed.

(* GetCompositionTimeOffset on a box built by ANY history = the expansion of the concatenated table *)
Lemma builder_ctts_query : forall raw0 calls,
  let raw := raw0 ++ ctts_table calls in
  sumN (map fst raw) < 4294967296 -> forall n, 1 <= n <= sumN (map fst raw) ->
  exists x, nthN (expand_rl (map fst raw) (map snd raw)) (n - 1) = Some x /\
            ctts_get_cto (ctts_run (ctts_decode raw0) calls) n = Ok x.
Proof.
  intros raw0 calls raw H n Hn. rewrite ctts_run_decode. fold raw.
  destruct (ctts_decode_ok raw H) as [A [B [C [D E]]]].
  destruct (cto_correct_box (ctts_decode raw) (sumN (map fst raw)) A B C D n Hn) as [x [X1 X2]].
  exists x. split; [|exact X2]. unfold S_cto in X1. destruct (n =? 0) eqn:E0; [lia|].
  rewrite E in X1. exact X1.
Qed.

(* ... and it is a consistent ctts state for the table set it is put into *)
Lemma builder_ctts_ok : forall tb raw0 calls,
  t_ctts tb = Some (ctts_run (ctts_decode raw0) calls) ->
  sumN (map fst (raw0 ++ ctts_table calls)) = nsamples tb -> is_u32 (nsamples tb + 1) = true ->
  ctts_ok tb = true.
Proof.
  intros tb raw0 calls Hc Hs Hu. unfold ctts_ok. rewrite Hc, ctts_run_decode. unfold is_u32 in Hu.
  destruct (ctts_decode_ok (raw0 ++ ctts_table calls) ltac:(lia)) as [A [B [C [D _]]]].
  rewrite A, B, C, D, Hs. rewrite !N.eqb_refl. reflexivity.
Qed.
