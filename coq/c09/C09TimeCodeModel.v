(* C09TimeCodeModel.v — SttsBox.GetTimeCode (mp4/stts.go), DEFINITIONS ONLY.
   The query "decode time of a sample as a time.Duration in a given timescale"; the one stts walk that
   C09Model.v did not have.  Kept in a file of its own so that the files of other properties importing
   C09Model.v are not invalidated.

   Repaired text (/repo 423d4e5):
     sample--
     var units uint64
     i := 0
     for sample > 0 && i < len(b.SampleCount) {
         if sample >= b.SampleCount[i] {
             units += uint64(b.SampleCount[i]) * uint64(b.SampleTimeDelta[i]); sample -= b.SampleCount[i]
         } else {
             units += uint64(sample) * uint64(b.SampleTimeDelta[i]); sample = 0
         }
         i++
     }
     ts := uint64(timescale)
     return time.Duration(units/ts)*time.Second + time.Duration(units%ts)*time.Second/time.Duration(ts)
   Pinned text: `var units uint32`, products and sums in uint32,
     return time.Second * time.Duration(units) / time.Duration(timescale)                                  *)
From V.lib Require Import Base.
From V.c09 Require Import C09Model.
Open Scope N_scope.

(* int64(x): two's complement wrap of a mathematical integer (time.Duration is an int64) *)
Definition to_i64 (z : Z) : Z := ((z + 9223372036854775808) mod 18446744073709551616 - 9223372036854775808)%Z.

Definition second_ns : Z := 1000000000%Z.

(* the walk; `b.SampleTimeDelta[i]` beyond the delta column panics (index out of range); the loop is left when
   the sample counter reaches 0 or the count column ends (a sample number past the end: the total duration) *)
Fixpoint time_code_loop (cs ds : list N) (sample units : N) : res N :=
  match cs with
  | [] => Ok units
  | c :: cs' =>
    if sample =? 0 then Ok units else
    match ds with
    | [] => Panic
    | d :: ds' =>
      if c <=? sample then time_code_loop cs' ds' (sample - c) (u64 (units + c * d))
      else Ok (u64 (units + sample * d))          (* sample = 0: the loop condition fails next *)
    end
  end.

(* the pinned walk: uint32 accumulator, uint32 products *)
Fixpoint time_code_loop32 (cs ds : list N) (sample units : N) : res N :=
  match cs with
  | [] => Ok units
  | c :: cs' =>
    if sample =? 0 then Ok units else
    match ds with
    | [] => Panic
    | d :: ds' =>
      if c <=? sample then time_code_loop32 cs' ds' (sample - c) (u32 (units + c * d))
      else Ok (u32 (units + sample * d))
    end
  end.

(* GetTimeCode(sample, timescale), nanoseconds.  `sample--` wraps for sample = 0; timescale 0: integer divide by
   zero (run-time panic) *)
Definition stts_get_time_code (cs ds : list N) (sample ts : N) : res Z :=
  match time_code_loop cs ds (sub32 sample 1) 0 with
  | Ok units =>
    if ts =? 0 then Panic else
    let secs := to_i64 (Z.of_N (units / ts)) in
    let rest := to_i64 (Z.of_N (units mod ts)) in
    Ok (to_i64 (to_i64 (secs * second_ns) + Z.quot (to_i64 (rest * second_ns)) (to_i64 (Z.of_N ts))))
  | Err => Err
  | Panic => Panic
  | OutOfFuel => OutOfFuel
  end.

Definition stts_get_time_code_pinned (cs ds : list N) (sample ts : N) : res Z :=
  match time_code_loop32 cs ds (sub32 sample 1) 0 with
  | Ok units =>
    if ts =? 0 then Panic else
    Ok (Z.quot (to_i64 (second_ns * to_i64 (Z.of_N units))) (to_i64 (Z.of_N ts)))
  | Err => Err
  | Panic => Panic
  | OutOfFuel => OutOfFuel
  end.

(* the time code the expansion defines for a sample starting at t units: floor(10^9 * t / timescale) ns *)
Definition S_time_code (t ts : N) : Z := Z.of_N (1000000000 * t / ts).
