(* C09RowsModel.v — DEFINITIONS ONLY: the boolean hypothesis of C09_builder_consistent_rows that replaces raw_ok. *)
From V.lib Require Import Base.
From V.c09 Require Import C09Model C09Spec.
Open Scope N_scope.

(* every description id of a file-level stsc table (first chunk, samples per chunk, id) is a non-zero uint32 *)
Definition ids_ok (raw : list (N * N * N)) : bool :=
  forallb (fun r => is_u32 (snd r) && negb (snd r =? 0)) raw.
