(* C09TrakProofs.v — TrakBox.GetSampleData and TrakBox.GetRangesForSampleInterval. *)
From V.lib Require Import Base.
From V.c09 Require Import C09Model C09Spec C09BaseProofs C09SttsProofs C09StscProofs C09CttsProofs.

(* ---------- sample flags / per-sample metadata ---------- *)
Lemma flags_correct tb : consistent tb = true -> forall n, 1 <= n <= nsamples tb ->
  exists f, S_flags tb n = Some f /\ create_sample_flags (t_stss tb) (t_sdtp tb) n = Ok f.
Proof.
  intros H n Hn. destruct (consistent_parts tb H) as [_ [_ [_ [_ [_ [_ [Hss Hsd]]]]]]].
  unfold S_flags, create_sample_flags, stss_ok, sdtp_ok in *.
  destruct (t_stss tb) as [l|].
  - apply andb_prop in Hss. destruct Hss as [Hsort _].
    rewrite (is_sync_correct l n (sorted_lt_le _ Hsort)). cbn [rbind].
    destruct (S_is_sync l n); cbn [negb];
      (destruct (t_sdtp tb) as [d|]; [|eexists; split; reflexivity];
       apply andb_prop in Hsd; destruct Hsd as [Hlen _];
       destruct (n =? 0) eqn:E0; [lia|];
       destruct (nthN_lt_Some d (n - 1)) as [e He]; [lia|];
       rewrite He, (idx_m1_Some d n e ltac:(lia) He); cbn [rbind]; eexists; split; reflexivity).
  - cbn [rbind]. destruct (t_sdtp tb) as [d|]; [|eexists; split; reflexivity].
    apply andb_prop in Hsd. destruct Hsd as [Hlen _].
    destruct (n =? 0) eqn:E0; [lia|].
    destruct (nthN_lt_Some d (n - 1)) as [e He]; [lia|].
    rewrite He, (idx_m1_Some d n e ltac:(lia) He). cbn [rbind]. eexists; split; reflexivity.
Qed.

Lemma sample_of_correct tb : consistent tb = true -> forall n, 1 <= n <= nsamples tb ->
  exists s, S_meta tb n = Some s /\ sample_of tb n = Ok s.
Proof.
  intros H n Hn. unfold S_meta, sample_of.
  destruct (flags_correct tb H n Hn) as [f [Hf1 Hf2]].
  destruct (dur_correct tb H n Hn) as [d [Hd1 Hd2]].
  destruct (size_correct tb H n Hn) as [s [Hs1 Hs2]].
  rewrite Hf1, Hd1, Hs1, Hf2, Hd2, Hs2.
  destruct (t_ctts tb) as [c|] eqn:Ec.
  - destruct (cto_correct tb c H Ec n Hn) as [x [Hx1 Hx2]]. rewrite Hx1, Hx2. cbn [rbind]. eauto.
  - cbn [rbind]. eauto.
Qed.

Lemma samples_loop_ok tb : consistent tb = true -> forall k nr, 1 <= nr -> nr + N.of_nat k <= nsamples tb + 1 ->
  exists l, samples_loop tb k nr = Ok l /\ map Some l = map (S_meta tb) (seqN nr k).
Proof.
  intros H. induction k as [|k IH]; intros nr H1 H2.
  - exists []. split; reflexivity.
  - destruct (sample_of_correct tb H nr ltac:(lia)) as [s [Hs1 Hs2]].
    destruct (IH (nr + 1) ltac:(lia) ltac:(lia)) as [l [Hl Hm]].
    exists (s :: l). cbn [samples_loop seqN map]. rewrite Hs2, Hl, Hs1, Hm. split; reflexivity.
Qed.

Lemma sample_data_correct tb : consistent tb = true -> forall a b, 1 <= a -> a <= b + 1 -> b <= nsamples tb ->
  exists l, trak_get_sample_data tb a b = Ok l /\ map Some l = S_sample_data tb a b.
Proof.
  intros H a b Ha Hab Hb. unfold trak_get_sample_data, S_sample_data.
  rewrite (nr_samples_correct tb H).
  destruct (a <? 1) eqn:E1; [lia|]. destruct (nsamples tb <? b) eqn:E2; [lia|]. cbn [orb].
  destruct (b + 1 <? a) eqn:E3; [lia|].
  apply (samples_loop_ok tb H); lia.
Qed.

(* ---------- ranges ---------- *)
Lemma psum_mono l : forall k k', k <= k' -> psum l k <= psum l k'.
Proof.
  unfold psum. induction l as [|x t IH]; intros k k' Hk.
  - rewrite !firstn_nil. lia.
  - destruct (N.to_nat k) as [|n] eqn:E; [cbn [firstn sumN]; lia|].
    destruct (N.to_nat k') as [|n'] eqn:E'; [lia|].
    cbn [firstn sumN]. specialize (IH (N.of_nat n) (N.of_nat n') ltac:(lia)). rewrite !Nat2N.id in IH. lia.
Qed.

Lemma fic_mono tb c c' : c <= c' -> S_first_in_chunk tb c <= S_first_in_chunk tb c'.
Proof.
  intros. unfold S_first_in_chunk. fold (psum (counts_of tb) (c - 1)). fold (psum (counts_of tb) (c' - 1)).
  pose proof (psum_mono (counts_of tb) (c - 1) (c' - 1) ltac:(lia)). lia.
Qed.

Lemma fic_succ tb c cnt : 1 <= c -> S_chunk_count tb c = Some cnt ->
  S_first_in_chunk tb (c + 1) = S_first_in_chunk tb c + cnt.
Proof.
  intros Hc Hcnt. unfold S_chunk_count in Hcnt. destruct (c =? 0) eqn:E; [lia|].
  unfold S_first_in_chunk. fold (psum (counts_of tb) (c - 1)). fold (psum (counts_of tb) (c + 1 - 1)).
  replace (c + 1 - 1) with (c - 1 + 1) by lia. rewrite (psum_succ _ _ _ Hcnt). lia.
Qed.

Lemma sumN_firstn_le l k : sumN (firstn k l) <= sumN l.
Proof. rewrite <- (firstn_skipn k l) at 2. rewrite sumN_app. lia. Qed.

Lemma total_size_le tb a b : S_total_size tb a b <= sumN (sizes tb).
Proof.
  unfold S_total_size, sublist.
  pose proof (sumN_firstn_le (skipn (N.to_nat (a - 1)) (sizes tb)) (N.to_nat (b + 1 - a))).
  pose proof (sumN_skipn_le (sizes tb) (N.to_nat (a - 1))). lia.
Qed.

Lemma total_size_empty tb a : 1 <= a -> S_total_size tb a (a - 1) = 0.
Proof. intros. unfold S_total_size, sublist. replace (a - 1 + 1 - a) with 0 by lia. reflexivity. Qed.

Lemma offset_bound tb c o : consistent tb = true -> S_chunk_offset tb c = Some o ->
  o + sumN (sizes tb) < 18446744073709551616.
Proof.
  intros H Ho. destruct (consistent_parts tb H) as [_ [_ [_ [_ [_ [Hoo _]]]]]]. unfold offsets_ok in Hoo.
  apply andb_prop in Hoo. destruct Hoo as [Hoo _]. apply andb_prop in Hoo. destruct Hoo as [_ Hall].
  unfold S_chunk_offset in Ho. destruct (c =? 0); [discriminate|].
  rewrite forallb_forall in Hall.
  assert (In o (offsets tb)).
  { clear - Ho. revert Ho. generalize (c - 1). induction (offsets tb) as [|x t IH]; intros k Hk; [discriminate|].
    cbn [nthN] in Hk. destruct (k =? 0); [injection Hk as ->; left; reflexivity|right; eapply IH; eauto]. }
  specialize (Hall o H0). lia.
Qed.

Lemma ranges_loop_ok tb a b cb : consistent tb = true -> 1 <= a -> a <= b -> b <= nsamples tb ->
  cb <= nchunks tb -> S_first_in_chunk tb cb <= b ->
  (forall cnt, S_chunk_count tb cb = Some cnt -> b < S_first_in_chunk tb cb + cnt) ->
  forall m c first l, 1 <= c -> c + N.of_nat m = cb + 1 ->
  map Some l = map (S_chunk tb) (seqN c m) ->
  (if first : bool then S_first_in_chunk tb c <= a else a < S_first_in_chunk tb c) ->
  (forall cnt, S_chunk_count tb c = Some cnt -> a < S_first_in_chunk tb c + cnt) ->
  exists rl, ranges_loop tb a b first l = Ok rl /\ map Some rl = map (S_range tb a b) (seqN c m).
Proof.
  intros H Ha Hab Hb Hcb Hfb Hlb.
  induction m as [|m IH]; intros c first l Hc Hm Hl Hfirst Hlast.
  - destruct l; [|discriminate]. exists []. split; reflexivity.
  - destruct l as [|ch l']; [discriminate|]. cbn [seqN map] in Hl. injection Hl as Hch Hl'.
    destruct (get_chunk_correct tb H c ltac:(lia)) as [cnt [Hcnt [Hc1 [Hbd _]]]].
    unfold S_chunk in Hch. rewrite Hcnt in Hch. injection Hch as ->.
    destruct (get_offset_correct tb H c ltac:(lia)) as [o [Ho1 Ho2]].
    pose proof (offset_bound tb c o H Ho1) as Hob.
    specialize (Hlast cnt Hcnt).
    destruct (stsc_facts tb H) as [_ [_ [_ [_ [_ [_ [HN _]]]]]]].
    cbn [ranges_loop seqN map ch_nr ch_start ch_n]. rewrite Ho2. cbn [rbind].
    rewrite (u32_small (S_first_in_chunk tb c + cnt)) by lia.
    rewrite (sub32_small (S_first_in_chunk tb c + cnt)) by lia.
    rewrite (u32_small (S_first_in_chunk tb c + cnt - 1)) by lia.
    assert (Hfic1 : 1 <= S_first_in_chunk tb c) by (unfold S_first_in_chunk; lia).
    (* the start of the range *)
    assert (Hstart : exists off' startIn,
      (if first then do up <- stsz_get_total_sample_size (t_stsz tb) (S_first_in_chunk tb c) (sub32 a 1);
                     Ok (u64 (o + up), a)
       else Ok (o, S_first_in_chunk tb c)) = Ok (off', startIn) /\
      startIn = N.max a (S_first_in_chunk tb c) /\
      off' = o + S_total_size tb (S_first_in_chunk tb c) (startIn - 1)).
    { destruct first.
      - rewrite sub32_small by lia. rewrite (total_size_correct tb H) by lia. cbn [rbind].
        pose proof (total_size_le tb (S_first_in_chunk tb c) (a - 1)).
        rewrite u64_small by lia. exists (o + S_total_size tb (S_first_in_chunk tb c) (a - 1)), a.
        split; [reflexivity|]. split; [lia|]. reflexivity.
      - exists o, (S_first_in_chunk tb c). split; [reflexivity|]. split; [lia|].
        rewrite total_size_empty by lia. lia. }
    destruct Hstart as [off' [startIn [Hst [Hsi Hoff]]]]. rewrite Hst. cbn [rbind].
    (* the end of the range *)
    assert (Hend : (match l' with [] => b | _ :: _ => S_first_in_chunk tb c + cnt - 1 end)
                   = N.min b (S_first_in_chunk tb c + cnt - 1)).
    { destruct m as [|m'].
      - destruct l'; [|discriminate]. assert (c = cb) by lia. subst c. pose proof (Hlb cnt Hcnt). lia.
      - destruct l' as [|x l'']; [discriminate|].
        pose proof (fic_succ tb c cnt Hc Hcnt). pose proof (fic_mono tb (c + 1) cb ltac:(lia)). lia. }
    rewrite Hend.
    rewrite (total_size_correct tb H) by lia. cbn [rbind].
    destruct (IH (c + 1) false l' ltac:(lia) ltac:(lia) Hl') as [rl [Hrl Hrm]].
    + rewrite (fic_succ tb c cnt Hc Hcnt). lia.
    + intros cnt' Hcnt'. rewrite (fic_succ tb c cnt Hc Hcnt). 
      unfold S_chunk_count in Hcnt'. destruct (c + 1 =? 0); [discriminate|].
      destruct m as [|m']; [destruct l'; [|discriminate]|].
      * (* no next chunk: the statement is about a chunk beyond cb; counts are >= 0 so it still holds *) lia.
      * lia.
    + rewrite Hrl. cbn [rbind]. eexists. split; [reflexivity|]. cbn [map]. rewrite Hrm.
      assert (HR : S_range tb a b c = Some (mkRange off' (S_total_size tb startIn
                                                (N.min b (S_first_in_chunk tb c + cnt - 1))))).
      { unfold S_range. rewrite Ho1, Hcnt. cbn zeta. rewrite <- Hsi, <- Hoff. reflexivity. }
      rewrite HR. reflexivity.
Qed.

Lemma ranges_correct tb : consistent tb = true -> forall a b, 1 <= a -> a <= b -> b <= nsamples tb ->
  exists rl, trak_get_ranges tb a b = Ok rl /\ S_ranges tb a b = Some (map Some rl).
Proof.
  intros H a b Ha Hab Hb.
  destruct (containing_chunks_correct tb H a b Ha Hab Hb) as [ca [cb [l [Hca [Hcb [H1 [H2 [H3 [Hl Hm]]]]]]]]].
  destruct (chunk_of_sample_correct tb H a ltac:(lia)) as [ca' [Hca' [_ [Hfa [[cnta [Hcnta Hla]] _]]]]].
  destruct (chunk_of_sample_correct tb H b ltac:(lia)) as [cb' [Hcb' [_ [Hfb [[cntb [Hcntb Hlb]] _]]]]].
  rewrite Hca in Hca'. injection Hca' as <-. rewrite Hcb in Hcb'. injection Hcb' as <-.
  destruct (ranges_loop_ok tb a b cb H Ha Hab Hb H3 Hfb) with
      (m := N.to_nat (cb + 1 - ca)) (c := ca) (first := true) (l := l) as [rl [Hrl Hrm]]; try assumption; try lia.
  - intros cnt Hc. rewrite Hcntb in Hc. injection Hc as <-. exact Hlb.
  - intros cnt Hc. rewrite Hcnta in Hc. injection Hc as <-. exact Hla.
  - exists rl. unfold trak_get_ranges, S_ranges. rewrite (nr_samples_correct tb H).
    destruct (a <? 1) eqn:E1; [lia|]. destruct (nsamples tb <? b) eqn:E2; [lia|]. cbn [orb].
    rewrite Hl. cbn [rbind]. rewrite Hca, Hcb, <- Hrm. split; [exact Hrl|reflexivity].
Qed.

(* the ranges tile exactly the bytes of samples a..b: their sizes add up to the total size of the interval *)

Lemma sample_data_pinned_panics : forall tb a b, 2 <= a -> a <= b -> b <= trak_nr_samples tb ->
  trak_get_sample_data_pinned tb a b = Panic.
Proof.
  intros tb a b Ha Hab Hb. unfold trak_get_sample_data_pinned.
  destruct (a <? 1) eqn:E1; [lia|]. destruct (trak_nr_samples tb <? b) eqn:E2; [lia|]. cbn [orb].
  destruct (b + 1 <? a) eqn:E3; [lia|]. destruct (2 <=? a) eqn:E4; [|lia]. destruct (a <=? b) eqn:E5; [|lia].
  reflexivity.
Qed.
