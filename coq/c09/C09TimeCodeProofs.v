(* C09TimeCodeProofs.v — SttsBox.GetTimeCode (C09TimeCodeModel.v) against the naive expansion. *)
From V.lib Require Import Base.
From V.c09 Require Import C09Model C09Spec C09BaseProofs C09SttsProofs C09ArithProofs C09TimeCodeModel.
Open Scope N_scope.

Lemma u64_lt x : u64 x < 18446744073709551616.
Proof. unfold u64. apply N.mod_lt. lia. Qed.

(* with no sample left to skip, GetDecodeTime's walk only passes empty runs *)
Lemma dt_loop_zero cs : forall ds acc t d, acc < 18446744073709551616 ->
  decode_time_loop cs ds 0 acc = Ok (t, d) -> t = acc.
Proof.
  induction cs as [|c cs IH]; intros ds acc t d Ha H; destruct ds as [|d0 ds]; cbn [decode_time_loop] in H;
    try discriminate.
  destruct (c <=? 0) eqn:E.
  - replace c with 0 in H by lia. rewrite N.mul_0_l, N.add_0_r, u64_small in H by assumption.
    replace (0 - 0) with 0 in H by lia. eapply IH; eauto.
  - replace (0 <? 0) with false in H by reflexivity. inversion H. reflexivity.
Qed.

(* the two walks accumulate the same number of units *)
Lemma tc_loop_of_dt cs : forall ds rem acc t d, acc < 18446744073709551616 ->
  decode_time_loop cs ds rem acc = Ok (t, d) -> time_code_loop cs ds rem acc = Ok t.
Proof.
  induction cs as [|c cs IH]; intros ds rem acc t d Ha H; destruct ds as [|d0 ds]; cbn [decode_time_loop] in H;
    try discriminate.
  cbn [time_code_loop].
  destruct (rem =? 0) eqn:E0.
  - replace rem with 0 in H by lia. f_equal. symmetry.
    apply (dt_loop_zero (c :: cs) (d0 :: ds) acc t d Ha). cbn [decode_time_loop]. exact H.
  - destruct (c <=? rem) eqn:E.
    + eapply IH; [|exact H]. apply u64_lt.
    + destruct (0 <? rem) eqn:E1; [|lia]. inversion H. reflexivity.
Qed.

Lemma to_i64_small z : (-9223372036854775808 <= z < 9223372036854775808)%Z -> to_i64 z = z.
Proof. intros H. unfold to_i64. rewrite Z.mod_small by lia. lia. Qed.

(* seconds and remainder separately = floor(10^9 * t / ts), whenever that fits an int64 *)
Lemma time_code_value t ts : 0 < ts -> ts < 4294967296 -> 1000000000 * t / ts < 9223372036854775808 ->
  to_i64 (to_i64 (to_i64 (Z.of_N (t / ts)) * second_ns)
          + Z.quot (to_i64 (to_i64 (Z.of_N (t mod ts)) * second_ns)) (to_i64 (Z.of_N ts))) = S_time_code t ts.
Proof.
  intros H0 H1 H2. unfold second_ns, S_time_code.
  pose proof (N.div_mod t ts ltac:(lia)) as Hdm.
  assert (Hr : t mod ts < ts) by (apply N.mod_lt; lia).
  set (q := t / ts) in *. set (r := t mod ts) in *.
  assert (Hq : 1000000000 * t / ts = 1000000000 * q + 1000000000 * r / ts).
  { replace (1000000000 * t) with (1000000000 * q * ts + 1000000000 * r) by (rewrite Hdm; ring).
    rewrite N.div_add_l by lia. reflexivity. }
  rewrite Hq in *. set (w := 1000000000 * r / ts) in *.
  assert (Hw : w <= 1000000000 * r) by (apply N.div_le_upper_bound; nia).
  assert (Hrb : 1000000000 * r < 4294967296000000000) by nia.
  rewrite (to_i64_small (Z.of_N q)) by lia.
  rewrite (to_i64_small (Z.of_N r)) by lia.
  rewrite (to_i64_small (Z.of_N ts)) by lia.
  rewrite (to_i64_small (Z.of_N q * 1000000000)) by lia.
  rewrite (to_i64_small (Z.of_N r * 1000000000)) by lia.
  rewrite Z.quot_div_nonneg by lia.
  replace (Z.of_N r * 1000000000 / Z.of_N ts)%Z with (Z.of_N w)
    by (unfold w; rewrite N2Z.inj_div, N2Z.inj_mul; f_equal; lia).
  rewrite to_i64_small by lia. lia.
Qed.

(* ---------- the theorem: GetTimeCode on the bare columns ---------- *)
Lemma time_code_exact : forall cs ds, lenN cs = lenN ds -> forallb is_u32 ds = true ->
  forall n ts, 1 <= n -> n <= sumN cs -> n < 4294967296 -> 0 < ts -> ts < 4294967296 ->
  exists t, nthN (starts (expand_rl cs ds) 0) (n - 1) = Some t /\
            (1000000000 * t / ts < 9223372036854775808 -> stts_get_time_code cs ds n ts = Ok (S_time_code t ts)).
Proof.
  intros cs ds Hl Hd n ts H1 H2 H3 H4 H5.
  destruct (decode_time_exact cs ds Hl Hd n H1 H2 H3) as [t [d [Ht [_ Hg]]]].
  exists t. split; [exact Ht|]. intros Hfit.
  unfold stts_get_decode_time in Hg. destruct (n =? 0) eqn:E; [lia|].
  unfold stts_get_time_code.
  replace (sub32 n 1) with (n - 1) by (unfold sub32; lia).
  rewrite (tc_loop_of_dt cs ds (n - 1) 0 t d ltac:(lia) Hg).
  destruct (ts =? 0) eqn:E1; [lia|].
  f_equal. apply time_code_value; assumption.
Qed.

(* ... and on consistent tables *)
Lemma time_code_correct : forall tb, consistent tb = true -> forall n ts, 1 <= n <= nsamples tb ->
  0 < ts -> ts < 4294967296 ->
  exists t, S_decode_time tb n = Some t /\
            (1000000000 * t / ts < 9223372036854775808 ->
             stts_get_time_code (t_stts_count tb) (t_stts_delta tb) n ts = Ok (S_time_code t ts)).
Proof.
  intros tb Hc n ts Hn H4 H5.
  destruct (decode_time_correct tb Hc n Hn) as [t [d [Ht [_ Hg]]]].
  exists t. split; [exact Ht|]. intros Hfit.
  unfold stts_get_decode_time in Hg. destruct (n =? 0) eqn:E; [lia|].
  unfold stts_get_time_code.
  assert (Hn32 : n < 4294967296).
  { unfold consistent in Hc. repeat (apply andb_prop in Hc; destruct Hc as [Hc ?]). unfold is_u32 in Hc. lia. }
  replace (sub32 n 1) with (n - 1) by (unfold sub32; lia).
  rewrite (tc_loop_of_dt _ _ (n - 1) 0 t d ltac:(lia) Hg).
  destruct (ts =? 0) eqn:E1; [lia|].
  f_equal. apply time_code_value; assumption.
Qed.

(* ---------- the pinned text is wrong from 2^32 units on ---------- *)
Lemma time_code_pinned_refuted :
  exists cs ds n ts t, lenN cs = lenN ds /\ forallb is_u32 cs = true /\ forallb is_u32 ds = true /\
    1 <= n /\ n <= sumN cs /\ 0 < ts /\ ts < 4294967296 /\
    nthN (starts (expand_rl cs ds) 0) (n - 1) = Some t /\ 1000000000 * t / ts < 9223372036854775808 /\
    stts_get_time_code cs ds n ts = Ok (S_time_code t ts) /\
    stts_get_time_code_pinned cs ds n ts <> Ok (S_time_code t ts).
Proof.
  exists [500], [10000000], 431, 10000000, 4300000000. vm_compute. repeat split; try reflexivity; try discriminate.
Qed.
