(* C09StscProofs.v — stsc: cached first-sample numbers, the two binary searches, chunk of a sample,
   chunk contents, containing chunks. *)
From V.lib Require Import Base.
From V.c09 Require Import C09Model C09Spec C09BaseProofs C09SttsProofs.

(* ---------- prefix sums over nat-indexed firstn ---------- *)
Definition psum (l : list N) (k : N) : N := sumN (firstn (N.to_nat k) l).

Lemma psum_app l1 l2 k :
  psum (l1 ++ l2) k = if k <=? lenN l1 then psum l1 k else sumN l1 + psum l2 (k - lenN l1).
Proof.
  unfold psum, lenN. rewrite firstn_app, sumN_app.
  destruct (k <=? N.of_nat (length l1)) eqn:E.
  - replace (N.to_nat k - length l1)%nat with 0%nat by lia. cbn [firstn sumN]. lia.
  - rewrite firstn_all2 by lia. replace (N.to_nat k - length l1)%nat with (N.to_nat (k - N.of_nat (length l1))) by lia. reflexivity.
Qed.

Lemma psum_repeat x m k : psum (repeat x m) k = N.min k (N.of_nat m) * x.
Proof.
  unfold psum. revert k; induction m as [|m IH]; intros k.
  - cbn [repeat]. rewrite firstn_nil. cbn [sumN]. lia.
  - destruct (N.to_nat k) as [|k'] eqn:E.
    + cbn [firstn sumN]. replace k with 0 by lia. lia.
    + cbn [repeat firstn sumN]. specialize (IH (N.of_nat k')). rewrite Nat2N.id in IH. rewrite IH. nia.
Qed.

Lemma psum_le l k : psum l k <= sumN l.
Proof.
  unfold psum. rewrite <- (firstn_skipn (N.to_nat k) l) at 2. rewrite sumN_app. lia.
Qed.

Lemma psum_all l k : lenN l <= k -> psum l k = sumN l.
Proof. unfold psum, lenN. intros. rewrite firstn_all2 by lia. reflexivity. Qed.

Lemma psum_succ l k x : nthN l k = Some x -> psum l (k + 1) = psum l k + x.
Proof.
  unfold psum. revert k; induction l as [|y t IH]; intros k H; [discriminate|].
  cbn [nthN] in H. destruct (k =? 0) eqn:E.
  - injection H as ->. replace k with 0 by lia. change (N.to_nat (0 + 1)) with 1%nat. cbn [N.to_nat firstn sumN]. lia.
  - replace (N.to_nat (k + 1)) with (S (N.to_nat (k - 1 + 1))) by lia.
    replace (N.to_nat k) with (S (N.to_nat (k - 1))) by lia.
    cbn [firstn sumN]. rewrite (IH (k - 1) H). lia.
Qed.

Lemma psum_0 l : psum l 0 = 0.
Proof. reflexivity. Qed.

(* ---------- sample_chunks: position j belongs to chunk c0+k iff psum k <= j < psum (k+1) ---------- *)
Lemma sample_chunks_nth counts : forall c0 k cnt j,
  nthN counts k = Some cnt -> psum counts k <= j < psum counts k + cnt ->
  nthN (sample_chunks counts c0) j = Some (c0 + k).
Proof.
  induction counts as [|x t IH]; intros c0 k cnt j Hk Hj; [discriminate|].
  cbn [sample_chunks]. rewrite nthN_app, lenN_repeat. cbn [nthN] in Hk.
  destruct (k =? 0) eqn:E.
  - injection Hk as ->. replace k with 0 in * by lia. rewrite psum_0 in Hj.
    destruct (j <? N.of_nat (N.to_nat cnt)) eqn:E1; [|lia].
    rewrite nthN_repeat, E1. f_equal. lia.
  - assert (P : psum (x :: t) k = x + psum t (k - 1)).
    { unfold psum. replace (N.to_nat k) with (S (N.to_nat (k - 1))) by lia. reflexivity. }
    rewrite P in Hj.
    destruct (j <? N.of_nat (N.to_nat x)) eqn:E1; [lia|].
    rewrite (IH (c0 + 1) (k - 1) cnt (j - N.of_nat (N.to_nat x))); [f_equal; lia|exact Hk|lia].
Qed.

Lemma lenN_sample_chunks counts c0 : lenN (sample_chunks counts c0) = sumN counts.
Proof.
  revert c0; induction counts as [|x t IH]; intros c0; [reflexivity|].
  cbn [sample_chunks sumN]. rewrite lenN_app, lenN_repeat, IH. lia.
Qed.

(* ---------- facts about entries_ok ---------- *)
Definition next_chunk (es : list stsc_entry) (C : N) (i : N) : N :=
  match nthN es (i + 1) with Some e' => first_chunk e' | None => C + 1 end.

Lemma entries_ok_tail e rest C : entries_ok (e :: rest) C = true -> entries_ok rest C = true.
Proof.
  cbn [entries_ok]. intros H. apply andb_prop in H. destruct H as [_ H].
  destruct rest as [|e' r]; [reflexivity|]. apply andb_prop in H. tauto.
Qed.

Lemma entries_ok_head e e' rest C : entries_ok (e :: e' :: rest) C = true ->
  1 <= spc e /\ first_chunk e < first_chunk e' /\
  first_sample e' = first_sample e + (first_chunk e' - first_chunk e) * spc e.
Proof.
  cbn [entries_ok]. intros H. apply andb_prop in H. destruct H as [H1 H].
  apply andb_prop in H. destruct H as [H _]. apply andb_prop in H. lia.
Qed.

Lemma entries_ok_last e C : entries_ok [e] C = true -> 1 <= spc e /\ first_chunk e <= C.
Proof. cbn [entries_ok]. intros H. apply andb_prop in H. lia. Qed.

Lemma next_chunk_0 e rest C :
  next_chunk (e :: rest) C 0 = match rest with [] => C + 1 | e' :: _ => first_chunk e' end.
Proof. unfold next_chunk. rewrite nthN_S. destruct rest; reflexivity. Qed.

Lemma next_chunk_tail e rest C i : 1 <= i -> next_chunk (e :: rest) C i = next_chunk rest C (i - 1).
Proof.
  intros H. unfold next_chunk. rewrite nthN_S. replace (i - 1 + 1) with i by lia. reflexivity.
Qed.

(* per-entry facts at index i *)
Lemma entries_ok_at es C : entries_ok es C = true -> forall i e, nthN es i = Some e ->
  1 <= spc e /\ first_chunk e < next_chunk es C i /\
  (forall e', nthN es (i + 1) = Some e' ->
              first_sample e' = first_sample e + (first_chunk e' - first_chunk e) * spc e).
Proof.
  induction es as [|e0 rest IH]; intros Hok i e Hi; [discriminate|].
  cbn [nthN] in Hi. destruct (i =? 0) eqn:E.
  - injection Hi as <-. replace i with 0 by lia. rewrite next_chunk_0, nthN_S.
    destruct rest as [|e' r].
    + destruct (entries_ok_last _ _ Hok). split; [lia|]. split; [lia|]. intros; discriminate.
    + destruct (entries_ok_head _ _ _ _ Hok) as [A [B D]].
      split; [lia|]. split; [lia|]. intros e'' He. cbn in He. injection He as <-. exact D.
  - destruct (IH (entries_ok_tail _ _ _ Hok) (i - 1) e Hi) as [A [B D]].
    split; [exact A|]. rewrite next_chunk_tail by lia. split; [exact B|].
    rewrite nthN_S. replace (i - 1 + 1) with i in D by lia. exact D.
Qed.

(* keys are sorted *)
Lemma entries_sorted es C : entries_ok es C = true -> forall i j ei ej, i <= j ->
  nthN es i = Some ei -> nthN es j = Some ej ->
  first_sample ei <= first_sample ej /\ first_chunk ei <= first_chunk ej.
Proof.
  induction es as [|e0 rest IH]; intros Hok i j ei ej Hij Hi Hj; [discriminate|].
  cbn [nthN] in Hi, Hj. destruct (j =? 0) eqn:Ej.
  - destruct (i =? 0) eqn:Ei; [|lia]. injection Hi as <-. injection Hj as <-. lia.
  - destruct (i =? 0) eqn:Ei.
    + injection Hi as <-. destruct rest as [|e' r]; [discriminate|].
      destruct (entries_ok_head _ _ _ _ Hok) as [A [B D]].
      destruct (IH (entries_ok_tail _ _ _ Hok) 0 (j - 1) e' ej) as [P Q]; [lia|reflexivity|exact Hj|].
      nia.
    + apply (IH (entries_ok_tail _ _ _ Hok) (i - 1) (j - 1)); [lia|exact Hi|exact Hj].
Qed.

(* ---------- A1: counts and prefix sums inside entry i ---------- *)
Lemma chunk_counts_cons e rest C :
  chunk_counts (e :: rest) C =
  repeat (spc e) (N.to_nat (next_chunk (e :: rest) C 0 - first_chunk e)) ++ chunk_counts rest C.
Proof. rewrite next_chunk_0. destruct rest as [|e' r]; reflexivity. Qed.

Lemma chunk_counts_at es C : entries_ok es C = true -> forall e0, nthN es 0 = Some e0 ->
  forall i e c, nthN es i = Some e -> first_chunk e <= c < next_chunk es C i ->
  nthN (chunk_counts es C) (c - first_chunk e0) = Some (spc e) /\
  first_sample e0 + psum (chunk_counts es C) (c - first_chunk e0) = first_sample e + (c - first_chunk e) * spc e.
Proof.
  induction es as [|e1 rest IH]; intros Hok e0 H0 i e c Hi Hc; [discriminate|].
  cbn [nthN N.eqb] in H0. injection H0 as <-.
  rewrite chunk_counts_cons, nthN_app, psum_app, lenN_repeat, sumN_repeat.
  destruct (entries_ok_at _ _ Hok 0 e1 eq_refl) as [S1 [N1 F1]].
  set (nx := next_chunk (e1 :: rest) C 0) in *.
  replace (N.of_nat (N.to_nat (nx - first_chunk e1))) with (nx - first_chunk e1) by lia.
  cbn [nthN] in Hi. destruct (i =? 0) eqn:E.
  - injection Hi as <-. replace i with 0 in * by lia. fold nx in Hc.
    destruct (c - first_chunk e1 <? nx - first_chunk e1) eqn:E1; [|lia].
    destruct (c - first_chunk e1 <=? nx - first_chunk e1) eqn:E2; [|lia].
    rewrite nthN_repeat, psum_repeat.
    replace (N.of_nat (N.to_nat (nx - first_chunk e1))) with (nx - first_chunk e1) by lia.
    rewrite E1. split; [reflexivity|]. nia.
  - rewrite next_chunk_tail in Hc by lia.
    destruct rest as [|e2 r]; [discriminate|].
    assert (Hnx : nx = first_chunk e2) by reflexivity.
    specialize (F1 e2 eq_refl).
    destruct (entries_sorted _ _ (entries_ok_tail _ _ _ Hok) 0 (i - 1) e2 e) as [P Q]; [lia|reflexivity|exact Hi|].
    destruct (IH (entries_ok_tail _ _ _ Hok) e2 eq_refl (i - 1) e c Hi Hc) as [A B].
    destruct (c - first_chunk e1 <? nx - first_chunk e1) eqn:E1; [lia|].
    destruct (c - first_chunk e1 <=? nx - first_chunk e1) eqn:E2.
    + (* c = nx exactly *)
      assert (c = nx) by lia. subst c.
      replace (nx - first_chunk e1 - (nx - first_chunk e1)) with (nx - first_chunk e2) by lia.
      split; [exact A|]. rewrite psum_repeat.
      replace (nx - first_chunk e2) with 0 in B by lia. rewrite psum_0 in B. nia.
    + replace (c - first_chunk e1 - (nx - first_chunk e1)) with (c - first_chunk e2) by lia.
      split; [exact A|]. nia.
Qed.

(* total number of samples described by the entries *)
Lemma chunk_counts_len es C : entries_ok es C = true -> forall e0, nthN es 0 = Some e0 ->
  lenN (chunk_counts es C) = C + 1 - first_chunk e0.
Proof.
  induction es as [|e1 rest IH]; intros Hok e0 H0; [discriminate|].
  cbn [nthN N.eqb] in H0. injection H0 as <-.
  rewrite chunk_counts_cons, lenN_app, lenN_repeat.
  destruct (entries_ok_at _ _ Hok 0 e1 eq_refl) as [S1 [N1 F1]].
  destruct rest as [|e2 r].
  - rewrite next_chunk_0 in N1 |- *. cbn [chunk_counts]. rewrite lenN_nil. lia.
  - rewrite (IH (entries_ok_tail _ _ _ Hok) e2 eq_refl).
    rewrite next_chunk_0 in N1 |- *.
    destruct (entries_ok_at _ _ (entries_ok_tail _ _ _ Hok) 0 e2 eq_refl) as [_ [N2 _]].
    assert (first_chunk e2 <= C).
    { clear - Hok. revert e1 e2 Hok. induction r as [|e3 r IHr]; intros e1 e2 Hok.
      - apply entries_ok_tail in Hok. apply entries_ok_last in Hok. lia.
      - pose proof (entries_ok_tail _ _ _ Hok) as Hok2.
        destruct (entries_ok_head _ _ _ _ Hok2) as [_ [L _]]. specialize (IHr e2 e3 Hok2). lia. }
    lia.
Qed.

(* ---------- what `consistent` says about stsc ---------- *)
Lemma entries_len es C : entries_ok es C = true -> forall e0, nthN es 0 = Some e0 ->
  first_chunk e0 + lenN es <= C + 1.
Proof.
  induction es as [|e1 rest IH]; intros Hok e0 H0; [discriminate|].
  cbn [nthN N.eqb] in H0. injection H0 as <-. rewrite lenN_cons.
  destruct rest as [|e2 r].
  - apply entries_ok_last in Hok. rewrite lenN_nil. lia.
  - destruct (entries_ok_head _ _ _ _ Hok) as [_ [L _]].
    specialize (IH (entries_ok_tail _ _ _ Hok) e2 eq_refl). lia.
Qed.

Lemma stsc_facts tb : consistent tb = true ->
  exists e0, nthN (sc_entries (t_stsc tb)) 0 = Some e0 /\ first_chunk e0 = 1 /\ first_sample e0 = 1 /\
             entries_ok (sc_entries (t_stsc tb)) (nchunks tb) = true /\
             sumN (counts_of tb) = nsamples tb /\ nsamples tb + 1 < 4294967296 /\ nchunks tb + 1 < 4294967296 /\
             lenN (counts_of tb) = nchunks tb /\ lenN (sc_entries (t_stsc tb)) < 4294967296.
Proof.
  intros H. destruct (consistent_parts tb H) as [Hn [_ [_ [Hs [_ [Ho _]]]]]].
  unfold stsc_ok in Hs.
  apply andb_prop in Hs. destruct Hs as [Hs _]. apply andb_prop in Hs. destruct Hs as [Hs _].
  apply andb_prop in Hs. destruct Hs as [Hs Hids].
  apply andb_prop in Hs. destruct Hs as [Hs Hsum].
  apply andb_prop in Hs. destruct Hs as [Hs Hok].
  unfold offsets_ok in Ho. apply andb_prop in Ho. destruct Ho as [_ Hc]. unfold is_u32 in *.
  destruct (sc_entries (t_stsc tb)) as [|e0 rest] eqn:Ees; [discriminate|].
  apply andb_prop in Hs. destruct Hs as [A B].
  exists e0. split; [reflexivity|].
  assert (L : lenN (counts_of tb) = nchunks tb).
  { unfold counts_of. rewrite Ees. rewrite (chunk_counts_len _ _ Hok e0 eq_refl). lia. }
  pose proof (entries_len _ _ Hok e0 eq_refl).
  repeat split; try lia. exact Hok.
Qed.

(* ---------- the two searches ---------- *)
Lemma find_entry_generic (key : stsc_entry -> N) es n low e_low :
  (forall i j ei ej, i <= j -> nthN es i = Some ei -> nthN es j = Some ej -> key ei <= key ej) ->
  nthN es low = Some e_low -> key e_low <= n ->
  exists i e, bsearch (fun v => negb (n <? v)) (map key es) (bsearch_fuel (map key es)) low (lenN es) = Ok (i + 1) /\
              low <= i /\ nthN es i = Some e /\ key e <= n /\
              (forall e', nthN es (i + 1) = Some e' -> n < key e').
Proof.
  intros Hs Hl Hk. pose proof (nthN_Some_lt _ _ _ Hl) as Hlt.
  destruct (bsearch_spec (fun v => negb (n <? v)) (map key es)) with
      (fuel := bsearch_fuel (map key es)) (lo := low) (hi := lenN es) as [r [Hr [Hb [H1 H2]]]].
  - intros i j vi vj Hij Hi Hj Hg. rewrite nthN_map in Hi, Hj.
    destruct (nthN es i) as [ei|] eqn:Ei; [|discriminate]. destruct (nthN es j) as [ej|] eqn:Ej; [|discriminate].
    cbn in Hi, Hj. injection Hi as <-. injection Hj as <-. specialize (Hs i j ei ej Hij Ei Ej). lia.
  - lia.
  - rewrite lenN_map. lia.
  - apply bsearch_fuel_ok. rewrite lenN_map. lia.
  - assert (low < r).
    { destruct (N.eq_dec r low) as [->|]; [|lia].
      specialize (H2 low (key e_low)). rewrite nthN_map, Hl in H2. specialize (H2 ltac:(lia) eq_refl). lia. }
    destruct (nthN_lt_Some es (r - 1)) as [e He]; [lia|].
    exists (r - 1), e. replace (r - 1 + 1) with r by lia. split; [exact Hr|]. split; [lia|]. split; [exact He|].
    split.
    + specialize (H1 (r - 1) (key e)). rewrite nthN_map, He in H1. specialize (H1 ltac:(lia) eq_refl). lia.
    + intros e' He'. pose proof (nthN_Some_lt _ _ _ He').
      specialize (H2 r (key e')). rewrite nthN_map, He' in H2. specialize (H2 ltac:(lia) eq_refl). lia.
Qed.

Lemma find_entry_for_sample_ok es C n low e_low : entries_ok es C = true -> lenN es < 4294967296 ->
  nthN es low = Some e_low -> first_sample e_low <= n ->
  exists i e, stsc_find_entry_for_sample es n low = Ok i /\ low <= i /\ nthN es i = Some e /\
              first_sample e <= n /\ (forall e', nthN es (i + 1) = Some e' -> n < first_sample e').
Proof.
  intros Hok Hlen Hl Hk.
  destruct (find_entry_generic first_sample es n low e_low) as [i [e [Hb [Hi [He [Hk' Hn]]]]]]; try assumption.
  - intros a b ea eb Hab Ha Hb. apply (entries_sorted _ _ Hok a b ea eb Hab Ha Hb).
  - exists i, e. unfold stsc_find_entry_for_sample. rewrite u32_small by lia. rewrite Hb. cbn [rbind].
    pose proof (nthN_Some_lt _ _ _ He). rewrite sub32_small by lia. replace (i + 1 - 1) with i by lia. auto.
Qed.

Lemma find_entry_for_chunk_ok es C c e0 : entries_ok es C = true -> lenN es < 4294967296 ->
  nthN es 0 = Some e0 -> first_chunk e0 <= c ->
  exists i e, stsc_find_entry_for_chunk es c = Ok i /\ nthN es i = Some e /\
              first_chunk e <= c /\ (forall e', nthN es (i + 1) = Some e' -> c < first_chunk e').
Proof.
  intros Hok Hlen Hl Hk.
  destruct (find_entry_generic first_chunk es c 0 e0) as [i [e [Hb [Hi [He [Hk' Hn]]]]]]; try assumption.
  - intros a b ea eb Hab Ha Hb. apply (entries_sorted _ _ Hok a b ea eb Hab Ha Hb).
  - exists i, e. unfold stsc_find_entry_for_chunk. rewrite Hb. cbn [rbind].
    pose proof (nthN_Some_lt _ _ _ He). rewrite sub32_small by lia. replace (i + 1 - 1) with i by lia. auto.
Qed.

(* ---------- the end of entry i in samples ---------- *)
Lemma entry_end tb e0 i e : consistent tb = true ->
  nthN (sc_entries (t_stsc tb)) 0 = Some e0 -> first_chunk e0 = 1 -> first_sample e0 = 1 ->
  entries_ok (sc_entries (t_stsc tb)) (nchunks tb) = true -> sumN (counts_of tb) = nsamples tb ->
  lenN (counts_of tb) = nchunks tb ->
  nthN (sc_entries (t_stsc tb)) i = Some e ->
  forall n, n <= nsamples tb ->
  (forall e', nthN (sc_entries (t_stsc tb)) (i + 1) = Some e' -> n < first_sample e') ->
  n < first_sample e + (next_chunk (sc_entries (t_stsc tb)) (nchunks tb) i - first_chunk e) * spc e.
Proof.
  intros _ H0 Hc0 Hs0 Hok Hsum Hlen He n Hn Hnext.
  destruct (entries_ok_at _ _ Hok i e He) as [Sp [Nx F]].
  unfold next_chunk in *. destruct (nthN (sc_entries (t_stsc tb)) (i + 1)) as [e'|] eqn:En.
  - rewrite <- (F e' eq_refl). apply Hnext. reflexivity.
  - (* last entry: the last chunk C lies in it *)
    destruct (chunk_counts_at _ _ Hok e0 H0 i e (nchunks tb) He) as [A B].
    { unfold next_chunk. rewrite En. lia. }
    destruct (entries_sorted _ _ Hok 0 i e0 e ltac:(lia) H0 He) as [_ Hfc].
    rewrite Hc0, Hs0 in *. change (chunk_counts (sc_entries (t_stsc tb)) (nchunks tb)) with (counts_of tb) in A, B.
    pose proof (psum_succ _ _ _ A) as P. replace (nchunks tb - 1 + 1) with (nchunks tb) in P by lia.
    rewrite (psum_all (counts_of tb) (nchunks tb)) in P by lia. nia.
Qed.

(* ---------- ChunkNrFromSampleNr ---------- *)
Lemma div_bounds a b : 1 <= b -> b * (a / b) <= a /\ a < b * (a / b + 1).
Proof.
  intros H. split; [apply N.mul_div_le; lia|].
  pose proof (N.mul_succ_div_gt a b ltac:(lia)). lia.
Qed.

Lemma entries_fc_le l C : entries_ok l C = true -> forall j x, nthN l j = Some x -> first_chunk x <= C.
Proof.
  induction l as [|y t IHl]; intros Hk j x Hj; [discriminate|].
  cbn [nthN] in Hj. destruct (j =? 0) eqn:Ej.
  - injection Hj as <-. destruct t as [|z t'].
    + apply entries_ok_last in Hk. lia.
    + destruct (entries_ok_head _ _ _ _ Hk) as [_ [L _]].
      specialize (IHl (entries_ok_tail _ _ _ Hk) 0 z eq_refl). lia.
  - apply (IHl (entries_ok_tail _ _ _ Hk) (j - 1) x Hj).
Qed.

Lemma next_chunk_le es C i : entries_ok es C = true -> next_chunk es C i <= C + 1.
Proof.
  intros Hok. unfold next_chunk. destruct (nthN es (i + 1)) as [e'|] eqn:En; [|lia].
  pose proof (entries_fc_le _ _ Hok _ _ En). lia.
Qed.

(* facts about a chunk c lying in entry i *)
Lemma chunk_in_entry tb : consistent tb = true -> forall i e c,
  nthN (sc_entries (t_stsc tb)) i = Some e ->
  first_chunk e <= c < next_chunk (sc_entries (t_stsc tb)) (nchunks tb) i ->
  1 <= c <= nchunks tb /\ 1 <= spc e /\
  nthN (counts_of tb) (c - 1) = Some (spc e) /\
  S_first_in_chunk tb c = first_sample e + (c - first_chunk e) * spc e /\
  S_first_in_chunk tb c + spc e <= nsamples tb + 1.
Proof.
  intros H i e c He Hc.
  destruct (stsc_facts tb H) as [e0 [H0 [Hc0 [Hs0 [Hok [Hsum [HN [HC [Hlen Hel]]]]]]]]].
  destruct (chunk_counts_at _ _ Hok e0 H0 i e c He Hc) as [A B].
  rewrite Hc0 in A, B. rewrite Hs0 in B.
  change (chunk_counts (sc_entries (t_stsc tb)) (nchunks tb)) with (counts_of tb) in A, B.
  destruct (entries_sorted _ _ Hok 0 i e0 e ltac:(lia) H0 He) as [_ Hfc].
  pose proof (next_chunk_le _ _ i Hok).
  destruct (entries_ok_at _ _ Hok i e He) as [Sp _].
  unfold S_first_in_chunk. fold (psum (counts_of tb) (c - 1)).
  pose proof (psum_succ _ _ _ A) as P. pose proof (psum_le (counts_of tb) (c - 1 + 1)).
  repeat split; try lia. exact A.
Qed.

(* facts about a sample n lying in entry i *)
Lemma sample_in_entry tb : consistent tb = true -> forall i e n,
  nthN (sc_entries (t_stsc tb)) i = Some e -> first_sample e <= n <= nsamples tb ->
  (forall e', nthN (sc_entries (t_stsc tb)) (i + 1) = Some e' -> n < first_sample e') ->
  forall q, q = (n - first_sample e) / spc e ->
  first_chunk e + q < next_chunk (sc_entries (t_stsc tb)) (nchunks tb) i /\
  S_chunk_of tb n = Some (first_chunk e + q) /\
  S_first_in_chunk tb (first_chunk e + q) = first_sample e + q * spc e /\
  first_sample e + q * spc e <= n < first_sample e + q * spc e + spc e.
Proof.
  intros H i e n He Hn Hnx q Eq.
  destruct (stsc_facts tb H) as [e0 [H0 [Hc0 [Hs0 [Hok [Hsum [HN [HC [Hlen Hel]]]]]]]]].
  pose proof (entry_end tb e0 i e H H0 Hc0 Hs0 Hok Hsum Hlen He n ltac:(lia) Hnx) as Hend.
  destruct (entries_ok_at _ _ Hok i e He) as [Sp [Nx _]].
  destruct (div_bounds (n - first_sample e) (spc e) Sp) as [D1 D2]. rewrite <- Eq in D1, D2.
  assert (Hq : first_chunk e + q < next_chunk (sc_entries (t_stsc tb)) (nchunks tb) i).
  { assert (Hm : spc e * q < spc e * (next_chunk (sc_entries (t_stsc tb)) (nchunks tb) i - first_chunk e)) by lia.
    apply N.mul_lt_mono_pos_l in Hm; lia. }
  destruct (chunk_in_entry tb H i e (first_chunk e + q) He ltac:(lia)) as [Hc [_ [A [B Bd]]]].
  replace (first_chunk e + q - first_chunk e) with q in B by lia.
  split; [exact Hq|]. split; [|split; [exact B|lia]].
  destruct (entries_sorted _ _ Hok 0 i e0 e ltac:(lia) H0 He) as [Hfs _]. rewrite Hs0 in Hfs.
  unfold S_chunk_of. destruct (n =? 0) eqn:En0; [lia|].
  unfold S_first_in_chunk in B. fold (psum (counts_of tb) (first_chunk e + q - 1)) in B.
  rewrite (sample_chunks_nth (counts_of tb) 1 (first_chunk e + q - 1) (spc e) (n - 1) A); [f_equal; lia|]. lia.
Qed.

Lemma chunk_of_sample_correct tb : consistent tb = true -> forall n, 1 <= n <= nsamples tb ->
  exists c, S_chunk_of tb n = Some c /\ 1 <= c <= nchunks tb /\
            S_first_in_chunk tb c <= n /\
            (exists cnt, S_chunk_count tb c = Some cnt /\ n < S_first_in_chunk tb c + cnt) /\
            stsc_chunk_nr_from_sample_nr (sc_entries (t_stsc tb)) n = Ok (c, S_first_in_chunk tb c).
Proof.
  intros H n Hn.
  destruct (stsc_facts tb H) as [e0 [H0 [Hc0 [Hs0 [Hok [Hsum [HN [HC [Hlen Hel]]]]]]]]].
  destruct (find_entry_for_sample_ok (sc_entries (t_stsc tb)) (nchunks tb) n 0 e0 Hok Hel H0 ltac:(lia))
    as [i [e [Hf [_ [He [Hk Hnx]]]]]].
  remember ((n - first_sample e) / spc e) as q eqn:Eq.
  destruct (sample_in_entry tb H i e n He ltac:(lia) Hnx q Eq) as [Hq [Hch [Hfic Hb]]].
  destruct (chunk_in_entry tb H i e (first_chunk e + q) He) as [Hc [Sp [A [B Bd]]]].
  { destruct (entries_ok_at _ _ Hok i e He) as [_ [Nx _]]. lia. }
  exists (first_chunk e + q). split; [exact Hch|]. split; [exact Hc|]. split; [lia|].
  split.
  - exists (spc e). unfold S_chunk_count. destruct (first_chunk e + q =? 0) eqn:E0; [lia|]. split; [exact A|lia].
  - unfold stsc_chunk_nr_from_sample_nr. rewrite (u32_small n) by lia. rewrite Hf. cbn [rbind].
    rewrite (idx_Some _ _ _ He). cbn [rbind]. unfold div_go. destruct (spc e =? 0) eqn:Es; [lia|].
    rewrite sub32_small by lia. rewrite <- Eq. cbn [rbind].
    rewrite (u32_small (q * spc e)) by lia. rewrite !u32_small by lia. rewrite Hfic. reflexivity.
Qed.

(* ---------- GetChunk ---------- *)
Lemma get_chunk_correct tb : consistent tb = true -> forall c, 1 <= c <= nchunks tb ->
  exists cnt, S_chunk_count tb c = Some cnt /\ 1 <= cnt /\ S_first_in_chunk tb c + cnt <= nsamples tb + 1 /\
              stsc_get_chunk (sc_entries (t_stsc tb)) c = Ok (mkChunk c (S_first_in_chunk tb c) cnt).
Proof.
  intros H c Hc.
  destruct (stsc_facts tb H) as [e0 [H0 [Hc0 [Hs0 [Hok [Hsum [HN [HC [Hlen Hel]]]]]]]]].
  destruct (find_entry_for_chunk_ok (sc_entries (t_stsc tb)) (nchunks tb) c e0 Hok Hel H0 ltac:(lia))
    as [i [e [Hf [He [Hk Hnx]]]]].
  assert (Hin : first_chunk e <= c < next_chunk (sc_entries (t_stsc tb)) (nchunks tb) i).
  { split; [exact Hk|]. unfold next_chunk.
    destruct (nthN (sc_entries (t_stsc tb)) (i + 1)) as [e'|] eqn:En; [apply Hnx; reflexivity|lia]. }
  destruct (chunk_in_entry tb H i e c He Hin) as [_ [Sp [A [B Bd]]]].
  exists (spc e). unfold S_chunk_count. destruct (c =? 0) eqn:E0; [lia|].
  split; [exact A|]. split; [exact Sp|]. split; [exact Bd|].
  unfold stsc_get_chunk. rewrite E0, Hf. cbn [rbind]. rewrite (idx_Some _ _ _ He). cbn [rbind].
  rewrite sub32_small by lia. rewrite (u32_small ((c - first_chunk e) * spc e)) by lia.
  rewrite u32_small by lia. rewrite B. do 2 f_equal. lia.
Qed.

(* ---------- GetOffset ---------- *)
Lemma get_offset_correct tb : consistent tb = true -> forall c, 1 <= c <= nchunks tb ->
  exists o, S_chunk_offset tb c = Some o /\ trak_chunk_offset tb c = Ok o.
Proof.
  intros H c Hc. destruct (consistent_parts tb H) as [_ [_ [_ [_ [_ [Ho _]]]]]].
  unfold S_chunk_offset, trak_chunk_offset, nchunks, offsets, offsets_ok in *.
  destruct (c =? 0) eqn:E0; [lia|].
  destruct (t_stco tb) as [l|]; [|destruct (t_co64 tb) as [l|]; [|discriminate]];
    (destruct (nthN_lt_Some l (c - 1)) as [o Ho']; [lia|]; exists o; split; [exact Ho'|];
     unfold get_offset; rewrite E0; destruct (lenN l <? c) eqn:E1; [lia|]; cbn [orb];
     apply idx_m1_Some; [lia|exact Ho']).
Qed.

(* ---------- GetContainingChunks ---------- *)
Lemma S_chunk_in_entry tb : consistent tb = true -> forall i e c,
  nthN (sc_entries (t_stsc tb)) i = Some e ->
  first_chunk e <= c < next_chunk (sc_entries (t_stsc tb)) (nchunks tb) i ->
  S_chunk tb c = Some (mkChunk c (first_sample e + (c - first_chunk e) * spc e) (spc e)).
Proof.
  intros H i e c He Hc. destruct (chunk_in_entry tb H i e c He Hc) as [Hr [_ [A [B _]]]].
  unfold S_chunk, S_chunk_count. destruct (c =? 0) eqn:E0; [lia|]. rewrite A, B. reflexivity.
Qed.

Lemma containing_loop_ok tb : consistent tb = true -> forall k chunkNr i e,
  nthN (sc_entries (t_stsc tb)) i = Some e -> first_chunk e <= chunkNr ->
  ((1 <= k)%nat -> chunkNr < next_chunk (sc_entries (t_stsc tb)) (nchunks tb) i) ->
  chunkNr + N.of_nat k <= nchunks tb + 1 ->
  exists l, containing_loop (sc_entries (t_stsc tb)) (u32 (lenN (sc_entries (t_stsc tb)))) k chunkNr i e = Ok l /\
            map Some l = map (S_chunk tb) (seqN chunkNr k).
Proof.
  intros H. destruct (stsc_facts tb H) as [e0 [H0 [Hc0 [Hs0 [Hok [Hsum [HN [HC [Hlen Hel]]]]]]]]].
  induction k as [|k IH]; intros chunkNr i e He Hfc Hnx Hb.
  - exists []. split; reflexivity.
  - specialize (Hnx ltac:(lia)).
    destruct (chunk_in_entry tb H i e chunkNr He ltac:(lia)) as [Hr [Sp [A [B Bd]]]].
    pose proof (S_chunk_in_entry tb H i e chunkNr He ltac:(lia)) as HS.
    pose proof (nthN_Some_lt _ _ _ He) as Hi.
    cbn [containing_loop seqN map]. rewrite HS.
    rewrite (u32_small (lenN _)) by lia. rewrite sub32_small by lia.
    rewrite (sub32_small chunkNr) by lia.
    rewrite (u32_small ((chunkNr - first_chunk e) * spc e)) by lia.
    rewrite (u32_small (first_sample e + _)) by lia.
    rewrite (u32_small (chunkNr + 1)) by lia.
    assert (Hnext : exists i' e', 
      (if i <? lenN (sc_entries (t_stsc tb)) - 1
       then do e1 <- idx (sc_entries (t_stsc tb)) (i + 1);
            if chunkNr + 1 =? first_chunk e1 then Ok (i + 1, e1) else Ok (i, e)
       else Ok (i, e)) = Ok (i', e') /\ nthN (sc_entries (t_stsc tb)) i' = Some e' /\
      first_chunk e' <= chunkNr + 1 /\
      ((1 <= k)%nat -> chunkNr + 1 < next_chunk (sc_entries (t_stsc tb)) (nchunks tb) i')).
    { destruct (i <? lenN (sc_entries (t_stsc tb)) - 1) eqn:E.
      - destruct (nthN_lt_Some (sc_entries (t_stsc tb)) (i + 1)) as [e1 He1]; [lia|].
        rewrite (idx_Some _ _ _ He1). cbn [rbind].
        assert (Hn1 : next_chunk (sc_entries (t_stsc tb)) (nchunks tb) i = first_chunk e1)
          by (unfold next_chunk; rewrite He1; reflexivity).
        destruct (chunkNr + 1 =? first_chunk e1) eqn:E1.
        + exists (i + 1), e1. split; [reflexivity|]. split; [exact He1|]. split; [lia|].
          intros _. destruct (entries_ok_at _ _ Hok (i + 1) e1 He1) as [_ [Nx _]]. lia.
        + exists i, e. split; [reflexivity|]. split; [exact He|]. split; [lia|]. intros _. lia.
      - exists i, e. split; [reflexivity|]. split; [exact He|]. split; [lia|]. intros Hk.
        assert (Hn1 : next_chunk (sc_entries (t_stsc tb)) (nchunks tb) i = nchunks tb + 1).
        { unfold next_chunk. rewrite (nthN_ge_None _ (i + 1)) by lia. reflexivity. }
        lia. }
    destruct Hnext as [i' [e' [Hstep [He' [Hfc' Hnx']]]]]. rewrite Hstep. cbn [rbind fst snd].
    destruct (IH (chunkNr + 1) i' e' He' Hfc' Hnx' ltac:(lia)) as [l [Hl Hm]].
    rewrite (u32_small (lenN _)) in Hl by lia. rewrite Hl. cbn [rbind]. eexists. split; [reflexivity|]. cbn [map]. rewrite Hm. reflexivity.
Qed.

Lemma containing_chunks_correct tb : consistent tb = true -> forall a b, 1 <= a -> a <= b -> b <= nsamples tb ->
  exists ca cb l, S_chunk_of tb a = Some ca /\ S_chunk_of tb b = Some cb /\ 1 <= ca /\ ca <= cb /\ cb <= nchunks tb /\
    stsc_get_containing_chunks (sc_entries (t_stsc tb)) a b = Ok l /\
    map Some l = map (S_chunk tb) (seqN ca (N.to_nat (cb + 1 - ca))).
Proof.
  intros H a b Ha Hab Hb.
  destruct (stsc_facts tb H) as [e0 [H0 [Hc0 [Hs0 [Hok [Hsum [HN [HC [Hlen Hel]]]]]]]]].
  destruct (find_entry_for_sample_ok (sc_entries (t_stsc tb)) (nchunks tb) a 0 e0 Hok Hel H0 ltac:(lia))
    as [i [e [Hf [_ [He [Hk Hnx]]]]]].
  destruct (find_entry_for_sample_ok (sc_entries (t_stsc tb)) (nchunks tb) b i e Hok Hel He ltac:(lia))
    as [i2 [e2 [Hf2 [Hi2 [He2 [Hk2 Hnx2]]]]]].
  remember ((a - first_sample e) / spc e) as q eqn:Eq.
  remember ((b - first_sample e2) / spc e2) as q2 eqn:Eq2.
  destruct (sample_in_entry tb H i e a He ltac:(lia) Hnx q Eq) as [Hq [Hch [Hfic Hbd]]].
  destruct (sample_in_entry tb H i2 e2 b He2 ltac:(lia) Hnx2 q2 Eq2) as [Hq2 [Hch2 [Hfic2 Hbd2]]].
  destruct (entries_ok_at _ _ Hok i e He) as [Sp [Nx _]].
  destruct (entries_ok_at _ _ Hok i2 e2 He2) as [Sp2 [Nx2 _]].
  destruct (entries_sorted _ _ Hok 0 i e0 e ltac:(lia) H0 He) as [_ Hfc1].
  pose proof (next_chunk_le _ _ i2 Hok).
  (* ca <= cb *)
  assert (Hcc : first_chunk e + q <= first_chunk e2 + q2).
  { destruct (N.eq_dec i i2) as [<-|Hne].
    - rewrite He in He2. injection He2 as <-. subst q q2. pose proof (N.div_le_mono (a - first_sample e) (b - first_sample e) (spc e) ltac:(lia) ltac:(lia)). lia.
    - destruct (nthN_lt_Some (sc_entries (t_stsc tb)) (i + 1)) as [e1 He1];
        [pose proof (nthN_Some_lt _ _ _ He2); lia|].
      destruct (entries_sorted _ _ Hok (i + 1) i2 e1 e2 ltac:(lia) He1 He2) as [_ Hfc].
      unfold next_chunk in Hq. rewrite He1 in Hq. lia. }
  exists (first_chunk e + q), (first_chunk e2 + q2).
  unfold stsc_get_containing_chunks.
  destruct (a =? 0) eqn:Ea; [lia|]. destruct (b <? a) eqn:Eb; [lia|]. cbn [orb].
  rewrite Hf. cbn [rbind]. rewrite Hf2. cbn [rbind].
  rewrite (idx_Some _ _ _ He), (idx_Some _ _ _ He2). cbn [rbind].
  unfold div_go. destruct (spc e =? 0) eqn:Es; [lia|]. destruct (spc e2 =? 0) eqn:Es2; [lia|].
  rewrite !sub32_small by lia. rewrite <- Eq, <- Eq2. cbn [rbind].
  rewrite !u32_small by lia.
  replace (q + first_chunk e) with (first_chunk e + q) by lia.
  replace (q2 + first_chunk e2) with (first_chunk e2 + q2) by lia.
  destruct (first_chunk e2 + q2 <? first_chunk e + q) eqn:Ec; [lia|].
  destruct (containing_loop_ok tb H (N.to_nat (first_chunk e2 + q2 + 1 - (first_chunk e + q))) (first_chunk e + q) i e He)
    as [l [Hl Hm]]; try lia.
  rewrite (u32_small (lenN _)) in Hl by lia.
  exists l. repeat split; try assumption; lia.
Qed.
