(* C09RowsProofs.v — the arithmetic part of raw_ok follows from the table's shape and N + 1 < 2^32:
   C09_builder_consistent without the hypothesis raw_ok (only the description ids still have to be non-zero uint32). *)
From V.lib Require Import Base.
From V.c09 Require Import C09Model C09Spec C09BaseProofs C09BuildModel C09BuildStscProofs C09RowsModel.
Open Scope N_scope.

(* what is left of raw_ok: C09RowsModel.ids_ok, every description id of the file-level table is a non-zero uint32 *)

Lemma rows_head_len C : forall raw fc sp sdi, rows_ok ((fc, sp, sdi) :: raw) C = true -> fc + lenN raw <= C.
Proof.
  induction raw as [|[[fc' sp'] sdi'] t IH]; intros fc sp sdi H; cbn [rows_ok] in H.
  - rewrite lenN_nil. lia.
  - apply andb_prop in H. destruct H as [_ H]. apply andb_prop in H. destruct H as [H1 H2].
    specialize (IH fc' sp' sdi' H2). rewrite lenN_cons. lia.
Qed.

Lemma rows_tail C r raw : rows_ok (r :: raw) C = true -> rows_ok raw C = true.
Proof.
  destruct r as [[fc sp] sdi]. destruct raw as [|[[fc' sp'] sdi'] t]; [reflexivity|].
  intros H. cbn [rows_ok] in H. apply andb_prop in H. destruct H as [_ H]. apply andb_prop in H. destruct H as [_ H].
  exact H.
Qed.

Definition head_acc (prev : option stsc_entry) (fc : N) : N :=
  match prev with None => 1 | Some p => first_sample p + (fc - first_chunk p) * spc p end.

Lemma raw_ok_from_rows C : C < 4294967296 -> forall raw prev, rows_ok raw C = true -> ids_ok raw = true ->
  match raw with
  | [] => True
  | (fc, _, _) :: _ =>
    match prev with None => True | Some p => first_chunk p <= fc end /\
    head_acc prev fc + sumN (chunk_counts (S_entries_from prev raw) C) < 4294967296
  end ->
  raw_ok_from prev raw = true.
Proof.
  intros HC. induction raw as [|[[fc sp] sdi] t IH]; intros prev Hrows Hids Hinv; [reflexivity|].
  destruct Hinv as [Hord Hsum].
  pose proof (rows_head_len C t fc sp sdi Hrows) as Hfc.
  pose proof (rows_tail C _ _ Hrows) as Hrt.
  cbn [ids_ok forallb snd] in Hids. apply andb_prop in Hids. destruct Hids as [Hid Hids].
  apply andb_prop in Hid. destruct Hid as [Hid1 Hid2].
  cbn [rows_ok] in Hrows. apply andb_prop in Hrows. destruct Hrows as [Hsp Hrows].
  cbn [S_entries_from] in Hsum. fold (head_acc prev fc) in Hsum.
  set (A := head_acc prev fc) in *.
  cbn [raw_ok_from]. fold (head_acc prev fc). fold A.
  destruct t as [|[[fc' sp'] sdi'] t'].
  - (* last row *)
    cbn [S_entries_from chunk_counts first_chunk spc] in Hsum.
    rewrite sumN_app, sumN_repeat in Hsum. cbn [sumN] in Hsum.
    assert (Hk : 1 <= N.of_nat (N.to_nat (C + 1 - fc))) by lia.
    assert (Hs : sp <= N.of_nat (N.to_nat (C + 1 - fc)) * sp) by nia.
    unfold is_u32 in *.
    replace (fc <? 4294967296) with true by lia. replace (sp <? 4294967296) with true by lia.
    rewrite Hid1, Hid2. replace (A <? 4294967296) with true by lia.
    cbn [raw_ok_from]. destruct prev as [p|]; cbv beta iota in Hord; [replace (first_chunk p <=? fc) with true by lia|]; reflexivity.
  - apply andb_prop in Hrows. destruct Hrows as [Hlt Hrows].
    cbn [S_entries_from] in Hsum. cbn [chunk_counts first_chunk spc] in Hsum.
    rewrite sumN_app, sumN_repeat in Hsum.
    assert (Hk : 1 <= N.of_nat (N.to_nat (fc' - fc))) by lia.
    assert (Hs : sp <= N.of_nat (N.to_nat (fc' - fc)) * sp) by nia.
    assert (IHt : raw_ok_from (Some (mkEntry fc sp A)) ((fc', sp', sdi') :: t') = true).
    { apply IH; [exact Hrt|exact Hids|]. split; [cbn [first_chunk]; lia|].
      unfold head_acc.
      cbn [S_entries_from chunk_counts first_sample first_chunk spc] in Hsum |- *.
      replace (N.of_nat (N.to_nat (fc' - fc))) with (fc' - fc) in Hsum by lia. lia. }
    rewrite IHt. unfold is_u32 in *.
    replace (fc <? 4294967296) with true by lia. replace (sp <? 4294967296) with true by lia.
    rewrite Hid1, Hid2. replace (A <? 4294967296) with true by lia.
    destruct prev as [p|]; cbv beta iota in Hord; [replace (first_chunk p <=? fc) with true by lia|]; reflexivity.
Qed.

Lemma raw_ok_of_rows raw C n : is_u32 (C + 1) = true -> is_u32 (n + 1) = true ->
  rows_ok raw C = true -> ids_ok raw = true ->
  match raw with (fc, _, _) :: _ => fc = 1 | [] => False end ->
  sumN (chunk_counts (S_entries raw) C) = n ->
  raw_ok raw = true.
Proof.
  intros HC Hn Hrows Hids H1 Hsum. unfold is_u32 in HC, Hn. unfold raw_ok.
  destruct raw as [|[[fc sp] sdi] t]; [contradiction|]. subst fc.
  rewrite (raw_ok_from_rows C ltac:(lia) _ None Hrows Hids).
  - pose proof (rows_head_len C t 1 sp sdi Hrows). rewrite lenN_cons. unfold is_u32.
    replace (1 + lenN t <? 4294967296) with true by lia. reflexivity.
  - split; [exact I|]. unfold head_acc. unfold S_entries in Hsum. lia.
Qed.

(* the bridge of C09_builder_consistent with raw_ok replaced by ids_ok *)
Lemma builder_consistent_rows : forall tb craw0 ccalls sraw0 sb0 scalls,
  is_u32 (nsamples tb + 1) = true -> stts_ok tb = true -> stsz_ok tb = true -> offsets_ok tb = true ->
  stss_ok tb = true -> sdtp_ok tb = true ->
  (t_ctts tb = None \/
   (t_ctts tb = Some (ctts_run (ctts_decode craw0) ccalls) /\
    sumN (map fst (craw0 ++ ctts_table ccalls)) = nsamples tb)) ->
  stsc_decode sraw0 = Ok sb0 ->
  t_stsc tb = stsc_run sb0 scalls ->
  ids_ok (stsc_table sraw0 scalls) = true -> rows_ok (stsc_table sraw0 scalls) (nchunks tb) = true ->
  match stsc_table sraw0 scalls with (fc, _, _) :: _ => fc = 1 | [] => False end ->
  sumN (chunk_counts (S_entries (stsc_table sraw0 scalls)) (nchunks tb)) = nsamples tb ->
  consistent tb = true.
Proof.
  intros tb craw0 ccalls sraw0 sb0 scalls Hu Htt Hsz Hof Hss Hsd Hct H0 Hb Hids Hrows H1 Hsum.
  apply (builder_consistent tb craw0 ccalls sraw0 sb0 scalls); try assumption.
  apply (raw_ok_of_rows _ (nchunks tb) (nsamples tb)); try assumption.
  unfold offsets_ok in Hof. apply andb_prop in Hof. destruct Hof as [_ Hof]. exact Hof.
Qed.

(* raw_ok implies ids_ok: the new bridge has the weaker hypotheses *)
Lemma raw_ok_from_ids : forall raw prev, raw_ok_from prev raw = true -> ids_ok raw = true.
Proof.
  induction raw as [|[[fc sp] sdi] t IH]; intros prev H; [reflexivity|].
  cbn [raw_ok_from] in H. apply andb_prop in H. destruct H as [H Hrec].
  apply andb_prop in H. destruct H as [H _]. apply andb_prop in H. destruct H as [H _].
  apply andb_prop in H. destruct H as [H Hd]. apply andb_prop in H. destruct H as [_ Hc].
  cbn [ids_ok forallb snd]. fold (ids_ok t). rewrite Hc, Hd, (IH _ Hrec). reflexivity.
Qed.
Lemma raw_ok_ids raw : raw_ok raw = true -> ids_ok raw = true.
Proof. unfold raw_ok. intros H. apply andb_prop in H. destruct H as [H _]. exact (raw_ok_from_ids _ _ H). Qed.
