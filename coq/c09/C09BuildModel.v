(* C09BuildModel.v — the BUILDER methods of the sample-table boxes as state machines on the box state
   INCLUDING the cached fields (CttsBox.EndSampleNr, StscEntry.FirstSampleNr, the unexported
   StscBox.singleSampleDescriptionID / SampleDescriptionID pair).  DEFINITIONS ONLY.

   In the pinned library only two table boxes have builder methods or cached cumulative state
   (mp4/*.go was read for the full list):
     CttsBox.AddSampleCountsAndOffset                      (mp4/ctts.go:114)   cache: EndSampleNr
     StscBox.AddEntry, StscBox.SetSingleSampleDescriptionID (mp4/stsc.go:154, :199) cache: FirstSampleNr, single/ids
   stts, stsz, stss, stco, co64 and sdtp are plain public slices filled by their decoders
   (CreateSdtpBox stores its argument): their box state IS the table, there is nothing to model.

   One step of a history = one method call; its transcription is C09Model.ctts_add / stsc_add_entry
   (unchanged, C10 imports them).  A call that returns an error leaves the box untouched (both Go
   methods test before they mutate) and the history goes on. *)
From V.lib Require Import Base.
From V.c09 Require Import C09Model.

(* ---------- ctts ---------- *)
(* `&CttsBox{}` : both slices nil *)
Definition ctts_empty : ctts_box := mkCtts [] [].

(* one call AddSampleCountsAndOffset(counts, offsets); an error (unequal lengths) leaves the box as it was *)
Definition ctts_step (b : ctts_box) (c : list N * list Z) : ctts_box :=
  match ctts_add b (fst c) (snd c) with Ok b' => b' | _ => b end.

(* the box after a whole history of calls *)
Definition ctts_run (b : ctts_box) (calls : list (list N * list Z)) : ctts_box := fold_left ctts_step calls b.

(* the run-length table a history appends: the accepted calls, concatenated *)
Definition ctts_call_ok (c : list N * list Z) : bool := lenN (fst c) =? lenN (snd c).
Definition ctts_call_table (c : list N * list Z) : list (N * Z) :=
  if ctts_call_ok c then combine (fst c) (snd c) else [].
Definition ctts_table (calls : list (list N * list Z)) : list (N * Z) := flat_map ctts_call_table calls.

(* ---------- stsc ---------- *)
Inductive stsc_call :=
| SAdd (fc sp sdi : N)          (* AddEntry(firstChunk, samplesPerChunk, sampleDescriptionID) *)
| SSetSingle (x : N).           (* SetSingleSampleDescriptionID(x) *)

(* `&StscBox{}` *)
Definition stsc_empty : stsc_box := mkStsc [] 0 [].

(* SetSingleSampleDescriptionID — the repaired text (cb02a8f): `if x == 0 { return }` (0 is not an id: ignored), then
   `b.singleSampleDescriptionID = x; b.SampleDescriptionID = nil` *)
Definition stsc_set_single (b : stsc_box) (x : N) : stsc_box :=
  if x =? 0 then b else mkStsc (sc_entries b) x [].
(* as pinned (f87a9e4): 0 was stored, leaving entries with neither a single id nor an id slice *)
Definition stsc_set_single_pinned (b : stsc_box) (x : N) : stsc_box := mkStsc (sc_entries b) x [].

Definition stsc_call_res (b : stsc_box) (c : stsc_call) : res stsc_box :=
  match c with
  | SAdd fc sp sdi => stsc_add_entry b fc sp sdi
  | SSetSingle x => Ok (stsc_set_single b x)
  end.

(* an AddEntry that returns its error (description id 0; first entry with firstChunk != 1) leaves the box as it was *)
Definition stsc_step (b : stsc_box) (c : stsc_call) : stsc_box :=
  match stsc_call_res b c with Ok b' => b' | _ => b end.

Definition stsc_run (b : stsc_box) (calls : list stsc_call) : stsc_box := fold_left stsc_step calls b.

(* the same history on the pinned text of the two methods (for the refuted statement only) *)
Definition stsc_step_pinned (b : stsc_box) (c : stsc_call) : stsc_box :=
  match c with
  | SAdd fc sp sdi => match stsc_add_entry_pinned b fc sp sdi with Ok b' => b' | _ => b end
  | SSetSingle x => stsc_set_single_pinned b x
  end.
Definition stsc_run_pinned (b : stsc_box) (calls : list stsc_call) : stsc_box := fold_left stsc_step_pinned calls b.

(* the file-level table (first chunk, samples per chunk, description id) a history describes:
   AddEntry appends a row (refused for id 0, and as first row unless firstChunk = 1), SetSingle... overwrites the id
   column (ignored for id 0) *)
Definition stsc_table_step (raw : list (N * N * N)) (c : stsc_call) : list (N * N * N) :=
  match c with
  | SAdd fc sp sdi =>
    if sdi =? 0 then raw else
    match raw with
    | [] => if fc =? 1 then [(fc, sp, sdi)] else []
    | _ => raw ++ [(fc, sp, sdi)]
    end
  | SSetSingle x => if x =? 0 then raw else map (fun r => (fst r, x)) raw
  end.
Definition stsc_table (raw0 : list (N * N * N)) (calls : list stsc_call) : list (N * N * N) :=
  fold_left stsc_table_step calls raw0.

(* ---------- the box state of a table in closed form (what DecodeStscSR builds, all arithmetic uint32) ---------- *)
Fixpoint entries32_from (prev : option stsc_entry) (raw : list (N * N * N)) : list stsc_entry :=
  match raw with
  | [] => []
  | (fc, sp, _) :: t =>
    let acc := match prev with
               | None => 1
               | Some p => u32 (first_sample p + u32 (sub32 fc (first_chunk p) * spc p))
               end in
    let e := mkEntry fc sp acc in
    e :: entries32_from (Some e) t
  end.

(* the (singleSampleDescriptionID, SampleDescriptionID) representation of an id column *)
Definition ids_repr (l : list N) : N * list N :=
  match l with
  | [] => (0, [])
  | s :: t => if forallb (N.eqb s) t then (s, []) else (0, l)
  end.

Definition sdis (raw : list (N * N * N)) : list N := map snd raw.

Definition stsc_of_table (raw : list (N * N * N)) : stsc_box :=
  mkStsc (entries32_from None raw) (fst (ids_repr (sdis raw))) (snd (ids_repr (sdis raw))).

(* ---------- boolean hypotheses of the builder theorems ---------- *)
Definition nz (x : N) : bool := negb (x =? 0).

(* sample description ids are 1-based (DecodeStscSR and, since cb02a8f, AddEntry refuse 0, SetSingle... ignores it):
   a call with a proper id.  No theorem needs it any more; the driver reports how many calls of a case fail it *)
Definition stsc_call_ok (c : stsc_call) : bool :=
  match c with SAdd _ _ sdi => nz sdi | SSetSingle x => nz x end.

(* rows of a file-level stsc table: samples per chunk >= 1, first chunks strictly increasing, last one <= C *)
Fixpoint rows_ok (raw : list (N * N * N)) (C : N) : bool :=
  match raw with
  | [] => true
  | (fc, sp, _) :: t =>
    (1 <=? sp) && match t with
                  | [] => fc <=? C
                  | (fc', _, _) :: _ => (fc <? fc') && rows_ok t C
                  end
  end.

(* samples held by each run but the last: (next first chunk - first chunk) * samples per chunk *)
Fixpoint run_samples (raw : list (N * N * N)) : list N :=
  match raw with
  | (fc, sp, _) :: t =>
    match t with
    | (fc', _, _) :: _ => (fc' - fc) * sp :: run_samples t
    | [] => []
    end
  | [] => []
  end.
