(* C09Theorems.v — the property theorems of C09 and nothing else.  Each is closed by `exact <lemma>` and
   followed by Print Assumptions (audited by ./check on every run).
   Shape: for ALL tables with `consistent tb = true` and every argument in range, the model of the Go query
   (C09Model.v) returns Ok of the value the naive per-sample expansion (C09Spec.v) defines. *)
From V.lib Require Import Base.
From V.c09 Require Import C09Model C09Spec C09BaseProofs C09SttsProofs.

(* a concrete non-trivial consistent table set: 7 samples, 3 stts runs, ctts, 2 stsc entries over 3 chunks,
   explicit sizes, stco, stss, sdtp *)
Definition ex_tb : tables :=
  mkTables [3; 1; 3] [10; 20; 5]
           (Some (mkCtts [0; 2; 7] [0%Z; (-3)%Z]))
           (mkStsc [mkEntry 1 2 1; mkEntry 3 3 5] 0 [1; 2])
           (mkStsz 0 7 [4; 5; 6; 7; 8; 9; 10])
           (Some [100; 200; 300]) None
           (Some [1; 5]) (Some [0; 16; 32; 64; 4; 8; 1]).
Example ex_tb_consistent : consistent ex_tb = true /\ nsamples ex_tb = 7 /\
                           deltas_positive (t_stts_count ex_tb) (t_stts_delta ex_tb) = true.
Proof. vm_compute. repeat split. Qed.

(* SttsBox.GetDecodeTime: decode time = sum of the durations of the earlier samples, and the duration *)
Theorem C09_decode_time : forall tb, consistent tb = true -> forall n, 1 <= n <= nsamples tb ->
  exists t d, S_decode_time tb n = Some t /\ S_dur tb n = Some d /\
              stts_get_decode_time (t_stts_count tb) (t_stts_delta tb) n = Ok (t, d).
Proof. exact decode_time_correct. Qed.
Print Assumptions C09_decode_time.

(* SttsBox.GetDur *)
Theorem C09_dur : forall tb, consistent tb = true -> forall n, 1 <= n <= nsamples tb ->
  exists d, S_dur tb n = Some d /\ stts_get_dur (t_stts_count tb) (t_stts_delta tb) n = Ok d.
Proof. exact dur_correct. Qed.
Print Assumptions C09_dur.

(* StszBox.GetSampleSize and GetNrSamples *)
Theorem C09_size : forall tb, consistent tb = true -> forall n, 1 <= n <= nsamples tb ->
  exists s, S_size tb n = Some s /\ stsz_get_sample_size (t_stsz tb) n = Ok s.
Proof. exact size_correct. Qed.
Print Assumptions C09_size.

Theorem C09_nr_samples : forall tb, consistent tb = true -> trak_nr_samples tb = nsamples tb.
Proof. exact nr_samples_correct. Qed.
Print Assumptions C09_nr_samples.
