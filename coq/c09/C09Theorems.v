(* C09Theorems.v — the property theorems of C09 and nothing else.  Each is closed by `exact <lemma>` and
   followed by Print Assumptions (audited by ./check on every run).
   Shape: for ALL tables with `consistent tb = true` and every argument in range, the model of the Go query
   (C09Model.v) returns Ok of the value the naive per-sample expansion (C09Spec.v) defines. *)
From V.lib Require Import Base.
From V.c09 Require Import C09Model C09Spec C09BaseProofs C09SttsProofs C09CttsProofs C09StscProofs C09TrakProofs C09TimeProofs C09CacheProofs.
From V.c09 Require Import C09BuildModel C09BuildCttsProofs C09BuildStscProofs.
From V.c09 Require Import C09ArithProofs C09PureModel C09PureProofs.
From V.c09 Require Import C09TimeCodeModel C09TimeCodeProofs C09RowsModel C09RowsProofs C09TimeCodePastProofs.

(* a concrete non-trivial consistent table set: 7 samples, 3 stts runs, ctts, 2 stsc entries over 3 chunks,
   explicit sizes, stco, stss, sdtp *)
Definition ex_tb : tables :=
  mkTables [3; 1; 3] [10; 20; 5]
           (Some (mkCtts [0; 2; 7] [0%Z; (-3)%Z]))
           (mkStsc [mkEntry 1 2 1; mkEntry 3 3 5] 0 [1; 2])
           (mkStsz 0 7 [4; 5; 6; 7; 8; 9; 10])
           (Some [100; 200; 300]) None
           (Some [1; 5]) (Some [0; 16; 32; 64; 4; 8; 1]).
Example ex_tb_consistent : consistent ex_tb = true /\ nsamples ex_tb = 7 /\
                           deltas_positive (t_stts_count ex_tb) (t_stts_delta ex_tb) = true.
Proof. vm_compute. repeat split. Qed.

(* SttsBox.GetDecodeTime: decode time = sum of the durations of the earlier samples, and the duration *)
Theorem C09_decode_time : forall tb, consistent tb = true -> forall n, 1 <= n <= nsamples tb ->
  exists t d, S_decode_time tb n = Some t /\ S_dur tb n = Some d /\
              stts_get_decode_time (t_stts_count tb) (t_stts_delta tb) n = Ok (t, d).
Proof. exact decode_time_correct. Qed.
Print Assumptions C09_decode_time.

(* SttsBox.GetDur *)
Theorem C09_dur : forall tb, consistent tb = true -> forall n, 1 <= n <= nsamples tb ->
  exists d, S_dur tb n = Some d /\ stts_get_dur (t_stts_count tb) (t_stts_delta tb) n = Ok d.
Proof. exact dur_correct. Qed.
Print Assumptions C09_dur.

(* StszBox.GetSampleSize and GetNrSamples *)
Theorem C09_size : forall tb, consistent tb = true -> forall n, 1 <= n <= nsamples tb ->
  exists s, S_size tb n = Some s /\ stsz_get_sample_size (t_stsz tb) n = Ok s.
Proof. exact size_correct. Qed.
Print Assumptions C09_size.

Theorem C09_nr_samples : forall tb, consistent tb = true -> trak_nr_samples tb = nsamples tb.
Proof. exact nr_samples_correct. Qed.
Print Assumptions C09_nr_samples.

(* StszBox.GetTotalSampleSize (also for the empty interval b = a-1) *)
Theorem C09_total_size : forall tb, consistent tb = true -> forall a b, 1 <= a -> b <= nsamples tb ->
  stsz_get_total_sample_size (t_stsz tb) a b = Ok (S_total_size tb a b).
Proof. exact total_size_correct. Qed.
Print Assumptions C09_total_size.

(* CttsBox.GetCompositionTimeOffset: cumulative EndSampleNr + binary search = expansion of the run lengths *)
Theorem C09_cto : forall tb c, consistent tb = true -> t_ctts tb = Some c -> forall n, 1 <= n <= nsamples tb ->
  exists x, S_cto c n = Some x /\ ctts_get_cto c n = Ok x.
Proof. exact cto_correct. Qed.
Print Assumptions C09_cto.

(* StssBox.IsSyncSample: binary search = membership, for every sample number *)
Theorem C09_is_sync : forall tb l, consistent tb = true -> t_stss tb = Some l -> forall n,
  stss_is_sync l n = Ok (S_is_sync l n).
Proof. exact is_sync_correct_tb. Qed.
Print Assumptions C09_is_sync.

(* SttsBox.GetSampleNrAtTime: the first sample starting at or after t (N+1 strictly inside the last sample),
   an error beyond the end except for the documented final zero-duration sample.  Needs deltas_positive. *)
Theorem C09_sample_at_time : forall tb, consistent tb = true ->
  deltas_positive (t_stts_count tb) (t_stts_delta tb) = true -> 1 <= nsamples tb ->
  forall t, stts_get_sample_nr_at_time (t_stts_count tb) (t_stts_delta tb) t =
            match S_sample_at_time tb t with Some nr => Ok nr | None => Err end.
Proof. exact sample_at_time_correct. Qed.
Print Assumptions C09_sample_at_time.

(* without deltas_positive the faithful model contradicts the expansion (known finding C09-F3) *)
Definition zd_tb : tables :=
  mkTables [3; 1; 3] [0; 0; 2] None (mkStsc [mkEntry 1 7 1] 1 []) (mkStsz 4 7 []) (Some [100]) None None None.
Theorem C09_sample_at_time_zero_delta_refuted :
  consistent zd_tb = true /\ S_sample_at_time zd_tb 0 = Some 1 /\
  stts_get_sample_nr_at_time (t_stts_count zd_tb) (t_stts_delta zd_tb) 0 = Ok 5.
Proof. vm_compute. repeat split. Qed.
Print Assumptions C09_sample_at_time_zero_delta_refuted.

(* StscBox.ChunkNrFromSampleNr: chunk of a sample and the first sample of that chunk *)
Theorem C09_chunk_of_sample : forall tb, consistent tb = true -> forall n, 1 <= n <= nsamples tb ->
  exists c, S_chunk_of tb n = Some c /\ 1 <= c <= nchunks tb /\
            S_first_in_chunk tb c <= n /\
            (exists cnt, S_chunk_count tb c = Some cnt /\ n < S_first_in_chunk tb c + cnt) /\
            stsc_chunk_nr_from_sample_nr (sc_entries (t_stsc tb)) n = Ok (c, S_first_in_chunk tb c).
Proof. exact chunk_of_sample_correct. Qed.
Print Assumptions C09_chunk_of_sample.

(* StscBox.GetChunk: start sample and number of samples of a chunk *)
Theorem C09_chunk_contents : forall tb, consistent tb = true -> forall c, 1 <= c <= nchunks tb ->
  exists cnt, S_chunk_count tb c = Some cnt /\ 1 <= cnt /\ S_first_in_chunk tb c + cnt <= nsamples tb + 1 /\
              stsc_get_chunk (sc_entries (t_stsc tb)) c = Ok (mkChunk c (S_first_in_chunk tb c) cnt).
Proof. exact get_chunk_correct. Qed.
Print Assumptions C09_chunk_contents.

(* StcoBox/Co64Box.GetOffset *)
Theorem C09_chunk_offset : forall tb, consistent tb = true -> forall c, 1 <= c <= nchunks tb ->
  exists o, S_chunk_offset tb c = Some o /\ trak_chunk_offset tb c = Ok o.
Proof. exact get_offset_correct. Qed.
Print Assumptions C09_chunk_offset.

(* StscBox.GetContainingChunks: exactly the chunks chunk_of a .. chunk_of b, in order, each with its start
   sample and count *)
Theorem C09_containing_chunks : forall tb, consistent tb = true -> forall a b, 1 <= a -> a <= b -> b <= nsamples tb ->
  exists ca cb l, S_chunk_of tb a = Some ca /\ S_chunk_of tb b = Some cb /\ 1 <= ca /\ ca <= cb /\ cb <= nchunks tb /\
    stsc_get_containing_chunks (sc_entries (t_stsc tb)) a b = Ok l /\
    map Some l = map (S_chunk tb) (seqN ca (N.to_nat (cb + 1 - ca))).
Proof. exact containing_chunks_correct. Qed.
Print Assumptions C09_containing_chunks.

(* TrakBox.GetRangesForSampleInterval: one range per chunk met, starting at the file offset of the first wanted
   sample of the chunk and covering exactly the wanted samples of that chunk *)
Theorem C09_byte_ranges : forall tb, consistent tb = true -> forall a b, 1 <= a -> a <= b -> b <= nsamples tb ->
  exists rl, trak_get_ranges tb a b = Ok rl /\ S_ranges tb a b = Some (map Some rl).
Proof. exact ranges_correct. Qed.
Print Assumptions C09_byte_ranges.

(* TrakBox.GetSampleData (repaired text, f05688e): per-interval metadata = map meta [a..b] *)
Theorem C09_sample_data : forall tb, consistent tb = true -> forall a b, 1 <= a -> a <= b + 1 -> b <= nsamples tb ->
  exists l, trak_get_sample_data tb a b = Ok l /\ map Some l = S_sample_data tb a b.
Proof. exact sample_data_correct. Qed.
Print Assumptions C09_sample_data.

(* the pinned text panics for every interval that does not start at sample 1 *)
Theorem C09_sample_data_refuted : forall tb a b, 2 <= a -> a <= b -> b <= trak_nr_samples tb ->
  trak_get_sample_data_pinned tb a b = Panic.
Proof. exact sample_data_pinned_panics. Qed.
Print Assumptions C09_sample_data_refuted.

(* StscEntry.FirstSampleNr as computed by DecodeStscSR and by repeated AddEntry = the naive recurrence *)
Example ex_raw_ok : raw_ok [(1, 2, 1); (3, 3, 2); (7, 1, 1)] = true /\
                    map first_sample (S_entries [(1, 2, 1); (3, 3, 2); (7, 1, 1)]) = [1; 5; 17].
Proof. vm_compute. split; reflexivity. Qed.
Theorem C09_first_sample_nr_cache : forall raw, raw_ok raw = true ->
  (exists b, stsc_decode raw = Ok b /\ sc_entries b = S_entries raw) /\
  (match raw with [] => True | (fc, _, _) :: _ => fc = 1 end ->
   exists b, stsc_add_entries (mkStsc [] 0 []) raw = Ok b /\ sc_entries b = S_entries raw).
Proof. exact first_sample_nr_cache. Qed.
Print Assumptions C09_first_sample_nr_cache.

(* StscBox.GetSampleDescriptionID (repaired text, af784a4): the id of the stsc run the chunk belongs to *)
Theorem C09_sample_description_id : forall tb, consistent tb = true -> forall c, 1 <= c <= nchunks tb ->
  exists id, S_sample_description_id tb c = Some id /\ stsc_get_sample_description_id (t_stsc tb) c = Ok id.
Proof. exact sample_description_id_correct. Qed.
Print Assumptions C09_sample_description_id.

(* the pinned text indexed the per-entry ids with the chunk number: wrong id for chunk 2, panic for chunk 3 *)
Definition sd_tb : tables :=
  mkTables [6] [10] None (mkStsc [mkEntry 1 2 1; mkEntry 3 1 5] 0 [1; 2]) (mkStsz 0 6 [1; 2; 3; 4; 5; 6])
           (Some [100; 200; 300; 400]) None None None.
Theorem C09_sample_description_id_refuted :
  consistent sd_tb = true /\
  S_sample_description_id sd_tb 2 = Some 1 /\ stsc_get_sample_description_id_pinned (t_stsc sd_tb) 2 = Ok 2 /\
  S_sample_description_id sd_tb 3 = Some 2 /\ stsc_get_sample_description_id_pinned (t_stsc sd_tb) 3 = Panic.
Proof. vm_compute. repeat split. Qed.
Print Assumptions C09_sample_description_id_refuted.

(* ================= tables built through the library's BUILDER methods (C09BuildModel.v) =================
   The property quantifies over consistent sample tables however they were built.  A history is a list of
   method calls (no bound on its length or on the rows per call); ctts_run / stsc_run fold the transcription of
   the Go method over it, cache fields included.  A refused call (error return) leaves the box untouched. *)

(* a history for each of the two boxes that have builder methods; they build the ctts / stsc of ex_tb.  The stsc
   history contains calls with description id 0: AddEntry refuses them, SetSingle... ignores them (cb02a8f) *)
Definition ex_ctts_calls : list (list N * list Z) := [([2], [0%Z]); ([], []); ([5], [(-3)%Z])].
Definition ex_stsc_calls : list stsc_call := [SAdd 1 2 2; SSetSingle 0; SAdd 2 9 0; SSetSingle 1; SAdd 3 3 2].
Example ex_histories :
  ctts_run ctts_empty ex_ctts_calls = mkCtts [0; 2; 7] [0%Z; (-3)%Z] /\
  t_ctts ex_tb = Some (ctts_run (ctts_decode []) ex_ctts_calls) /\
  existsb ctts_call_ok ex_ctts_calls = true /\
  stsc_decode [] = Ok stsc_empty /\
  stsc_table [] ex_stsc_calls = [(1, 2, 1); (3, 3, 2)] /\
  t_stsc ex_tb = stsc_run stsc_empty ex_stsc_calls /\
  raw_ok (stsc_table [] ex_stsc_calls) = true /\ rows_ok (stsc_table [] ex_stsc_calls) (nchunks ex_tb) = true /\
  sumN (chunk_counts (S_entries (stsc_table [] ex_stsc_calls)) (nchunks ex_tb)) = nsamples ex_tb /\
  sumN (map fst ([] ++ ctts_table ex_ctts_calls)) = nsamples ex_tb.
Proof. vm_compute. repeat split. Qed.

(* CttsBox.AddSampleCountsAndOffset: after ANY history of calls on a decoded box (raw0 = [] : a box decoded
   from an empty table) or on `&CttsBox{}` (as soon as one call was accepted), the box — EndSampleNr included —
   is the one DecodeCttsSR builds from the concatenated table *)
Theorem C09_builder_ctts : forall raw0 calls,
  ctts_run (ctts_decode raw0) calls = ctts_decode (raw0 ++ ctts_table calls) /\
  (existsb ctts_call_ok calls = true -> ctts_run ctts_empty calls = ctts_decode (ctts_table calls)).
Proof. exact builder_ctts. Qed.
Print Assumptions C09_builder_ctts.

(* the cache invariant: EndSampleNr has one element more than the table, EndSampleNr[i] = (sum of the first i
   counts) mod 2^32 (leading 0), SampleOffset = the offset column *)
Theorem C09_ctts_cache : forall raw i, (i <= length raw)%nat ->
  nth_error (ct_end (ctts_decode raw)) i = Some (u32 (sumN (firstn i (map fst raw)))) /\
  length (ct_end (ctts_decode raw)) = S (length raw) /\ ct_off (ctts_decode raw) = map snd raw.
Proof. exact ctts_cache. Qed.
Print Assumptions C09_ctts_cache.

(* GetCompositionTimeOffset on a box built by ANY history returns the expansion of the concatenated table *)
Theorem C09_builder_ctts_query : forall raw0 calls,
  let raw := raw0 ++ ctts_table calls in
  sumN (map fst raw) < 4294967296 -> forall n, 1 <= n <= sumN (map fst raw) ->
  exists x, nthN (expand_rl (map fst raw) (map snd raw)) (n - 1) = Some x /\
            ctts_get_cto (ctts_run (ctts_decode raw0) calls) n = Ok x.
Proof. exact builder_ctts_query. Qed.
Print Assumptions C09_builder_ctts_query.

(* StscBox.AddEntry / SetSingleSampleDescriptionID (repaired text, cb02a8f): after ANY history of calls — no
   hypothesis on the ids passed — on a box DecodeStscSR returned (raw0 = [] : `&StscBox{}` = stsc_empty), the box —
   FirstSampleNr of every entry and the single/slice representation of the ids included — is the closed form of the
   table the history describes, and that is also what DecodeStscSR builds from this table (all arithmetic uint32,
   wrap-around included).  A call with id 0 changes neither the box nor the table. *)
Theorem C09_builder_stsc : forall raw0 b0 calls,
  stsc_decode raw0 = Ok b0 -> stsc_table raw0 calls <> [] ->
  b0 = stsc_of_table raw0 /\
  stsc_run b0 calls = stsc_of_table (stsc_table raw0 calls) /\
  stsc_decode (stsc_table raw0 calls) = Ok (stsc_of_table (stsc_table raw0 calls)).
Proof. exact builder_stsc. Qed.
Print Assumptions C09_builder_stsc.

(* the cache invariant without wrap-around: the entries are the naive recurrence, and
   FirstSampleNr[i] = 1 + sum over the runs j < i of (firstChunk[j+1] - firstChunk[j]) * samplesPerChunk[j] *)
Theorem C09_stsc_cache : forall raw, raw_ok raw = true ->
  sc_entries (stsc_of_table raw) = S_entries raw /\
  forall i e, nth_error (sc_entries (stsc_of_table raw)) i = Some e ->
              first_sample e = 1 + sumN (firstn i (run_samples raw)).
Proof. exact stsc_cache. Qed.
Print Assumptions C09_stsc_cache.

(* the pinned text (f87a9e4) did not look at the id (finding C09-F5, fixed): AddEntry(…, 0) after an entry with
   another id left SampleDescriptionID one element short, GetSampleDescriptionID of the new run's chunk panicked
   (DecodeStscSR refuses id 0); the repaired text refuses the call and leaves the box of the first two rows *)
Theorem C09_builder_stsc_zero_id_refuted :
  let h := [SAdd 1 2 1; SAdd 3 1 2; SAdd 4 1 0] in
  let b := stsc_run_pinned stsc_empty h in
  sc_ids b = [1; 2] /\ lenN (sc_entries b) = 3 /\ stsc_get_sample_description_id b 4 = Panic /\
  stsc_decode [(1, 2, 1); (3, 1, 2); (4, 1, 0)] = Err /\
  stsc_run stsc_empty h = stsc_of_table [(1, 2, 1); (3, 1, 2)] /\
  stsc_get_sample_description_id (stsc_run stsc_empty h) 4 = Ok 2.
Proof. vm_compute. repeat split. Qed.
Print Assumptions C09_builder_stsc_zero_id_refuted.

(* the bridge: table boxes built by ANY histories (ctts absent or built; stsc built from a decoded or empty box, no
   hypothesis on the ids passed) whose file-level tables are consistent make `consistent` hold, so that EVERY query
   theorem above applies to API-built tables *)
Theorem C09_builder_consistent : forall tb craw0 ccalls sraw0 sb0 scalls,
  is_u32 (nsamples tb + 1) = true -> stts_ok tb = true -> stsz_ok tb = true -> offsets_ok tb = true ->
  stss_ok tb = true -> sdtp_ok tb = true ->
  (t_ctts tb = None \/
   (t_ctts tb = Some (ctts_run (ctts_decode craw0) ccalls) /\
    sumN (map fst (craw0 ++ ctts_table ccalls)) = nsamples tb)) ->
  stsc_decode sraw0 = Ok sb0 ->
  t_stsc tb = stsc_run sb0 scalls ->
  raw_ok (stsc_table sraw0 scalls) = true -> rows_ok (stsc_table sraw0 scalls) (nchunks tb) = true ->
  match stsc_table sraw0 scalls with (fc, _, _) :: _ => fc = 1 | [] => False end ->
  sumN (chunk_counts (S_entries (stsc_table sraw0 scalls)) (nchunks tb)) = nsamples tb ->
  consistent tb = true.
Proof. exact builder_consistent. Qed.
Print Assumptions C09_builder_consistent.

(* ================= the arithmetic hypotheses of the stts queries, exactly (C09ArithProofs.v) =================
   `consistent` bounds the number of samples by is_u32 (N + 1).  On the bare stts columns: *)

(* SttsBox.GetDecodeTime needs NO arithmetic hypothesis: for ANY uint32 columns — the counts may sum to 2^32 and
   beyond — and every uint32 sample number 1..N, decode time and duration are those of the expansion, without
   uint64 wrap-around (a uint32 sample number has fewer than 2^32 predecessors of less than 2^32 ticks each) *)
Theorem C09_decode_time_exact : forall cs ds, lenN cs = lenN ds -> forallb is_u32 ds = true ->
  forall n, 1 <= n -> n <= sumN cs -> n < 4294967296 ->
  exists t d, nthN (starts (expand_rl cs ds) 0) (n - 1) = Some t /\ nthN (expand_rl cs ds) (n - 1) = Some d /\
              stts_get_decode_time cs ds n = Ok (t, d).
Proof. exact decode_time_exact. Qed.
Print Assumptions C09_decode_time_exact.
Example ex_decode_time_exact :
  stts_get_decode_time [4294967295; 4294967295] [4294967295; 7] 4294967295 = Ok (18446744060824649730, 4294967295).
Proof. vm_compute. reflexivity. Qed.

(* ... and past the last sample it panics for EVERY table (known finding C09-F4: no error result, the walk has no
   bound; GetDur answers the last duration there) *)
Theorem C09_decode_time_past_end : forall cs ds n, lenN cs = lenN ds -> sumN cs < n ->
  stts_get_decode_time cs ds n = Panic.
Proof. exact decode_time_past_end. Qed.
Print Assumptions C09_decode_time_past_end.

(* SttsBox.GetSampleNrAtTime needs exactly ONE arithmetic hypothesis: (sum of the counts) + 1 < 2^32, i.e. the
   answer N+1 ("t strictly inside the last sample") is a uint32; the total duration is then < 2^64 by itself *)
Theorem C09_sample_at_time_exact : forall cs ds, lenN cs = lenN ds ->
  forallb is_u32 cs = true -> forallb is_u32 ds = true -> deltas_positive cs ds = true ->
  1 <= sumN cs -> sumN cs + 1 < 4294967296 ->
  forall t, stts_get_sample_nr_at_time cs ds t = match sat_spec cs ds t with Some nr => Ok nr | None => Err end.
Proof. exact sample_at_time_exact. Qed.
Print Assumptions C09_sample_at_time_exact.
Example ex_sample_at_time_exact :
  let cs := [3; 4294967290; 1] in let ds := [10; 4294967295; 0] in
  lenN cs = lenN ds /\ forallb is_u32 cs = true /\ forallb is_u32 ds = true /\ deltas_positive cs ds = true /\
  sumN cs + 1 = 4294967295 /\ stts_get_sample_nr_at_time cs ds 18446744043644780580 = Ok 4294967294.
Proof. vm_compute. repeat split. Qed.

(* just above, (sum of the counts) + 1 = 2^32 — the largest track stsz can describe — the statement is false of
   the faithful model: for a time inside the last sample the answer N+1 = 2^32 wraps to sample number 0, with a nil
   error (reproduced on the real code: corr case w-stts-wrap, search witness stts-count-2^32-1).  Low severity. *)
Theorem C09_sample_at_time_wrap_refuted :
  let cs := [4294967295] in let ds := [2] in
  forallb is_u32 cs = true /\ deltas_positive cs ds = true /\ sumN cs + 1 = 4294967296 /\
  stts_get_sample_nr_at_time cs ds 8589934589 = Ok 0 /\
  stts_get_sample_nr_at_time cs ds 8589934588 = Ok 4294967295 /\
  stts_get_decode_time cs ds 4294967295 = Ok (8589934588, 2).
Proof. vm_compute. repeat split. Qed.
Print Assumptions C09_sample_at_time_wrap_refuted.

(* the FirstSampleNr cache (C09_stsc_cache, C09_builder_consistent) needs raw_ok: no uint32 wrap of
   1 + samples of the earlier runs.  Just above — a first run of 2 chunks x 2^31 samples — the cached number of the
   second run wraps to 1 and sample 1 is looked up in chunk 3 (such a table describes 2^32 samples or more: no stsz
   can be consistent with it) *)
Theorem C09_stsc_cache_wrap_refuted :
  let raw := [(1, 2147483648, 1); (3, 1, 1)] in
  rows_ok raw 3 = true /\ raw_ok raw = false /\ raw_ok [(1, 2147483647, 1); (3, 1, 1)] = true /\
  map first_sample (sc_entries (stsc_of_table raw)) = [1; 1] /\
  stsc_decode raw = Ok (stsc_of_table raw) /\
  stsc_chunk_nr_from_sample_nr (sc_entries (stsc_of_table raw)) 1 = Ok (3, 1).
Proof. vm_compute. repeat split. Qed.
Print Assumptions C09_stsc_cache_wrap_refuted.

(* ================= the queries do not change the boxes (C09PureModel.v) =================
   Every query as a state transformer on the File / table-box state; the composite ones (GetSampleData,
   GetRangesForSampleInterval, CopySampleData) thread the state through every method call they make. *)
Definition ex_fstate : fstate := mkF false 92 [1; 2; 3; 4; 5; 6; 7; 8; 9] 0 ex_tb.
Example ex_run :
  run_all [QSampleData 2 3; QCopy false 1 2; QSampleAtTime 30; QRanges 2 6] ex_fstate =
  ([Ok (ASamples [mkSample 16842752 10 5 0%Z; mkSample 33619968 10 6 (-3)%Z]); Ok (APieces [(100, 9)]); Ok (AN 4);
    Ok (ARanges [mkRange 104 5; mkRange 200 13; mkRange 300 17])], ex_fstate).
Proof. vm_compute. reflexivity. Qed.

(* for every query q and every state s: run q s returns (answer, s) *)
Theorem C09_queries_pure : forall q s, run q s = (eval q s, s).
Proof. exact queries_pure. Qed.
Print Assumptions C09_queries_pure.

(* File.CopySampleData leaves the File / Mdat / table state as it found it (the ReadSeeker, the work buffer and
   the writer are not File state: they are C08's subject) *)
Theorem C09_copy_pure : forall rs a b s, snd (copy_sample_data_st rs a b s) = s.
Proof. exact copy_pure. Qed.
Print Assumptions C09_copy_pure.

(* the state-threaded GetSampleData / GetRangesForSampleInterval answer what the functions of C09_sample_data /
   C09_byte_ranges answer *)
Theorem C09_composite_answers : forall a b s,
  eval (QSampleData a b) s = rbind (trak_get_sample_data (f_tb s) a b) (fun l => Ok (ASamples l)) /\
  eval (QRanges a b) s = rbind (trak_get_ranges (f_tb s) a b) (fun l => Ok (ARanges l)).
Proof. exact composite_answers. Qed.
Print Assumptions C09_composite_answers.

(* order independence (the search re-asks every query in decreasing and shuffled order on the same boxes): in ANY
   sequence of queries each one gets the answer it gets on the initial state, and the state at the end is the
   initial state *)
Theorem C09_queries_order_independent : forall qs s, run_all qs s = (map (fun q => eval q s) qs, s).
Proof. exact run_all_pure. Qed.
Print Assumptions C09_queries_order_independent.

(* ================= SttsBox.GetTimeCode (C09TimeCodeModel.v / C09TimeCodeProofs.v) =================
   "decode time of a sample" as a time.Duration in a given timescale: for ALL consistent tables, every sample number
   and every non-zero uint32 timescale, floor(10^9 * decode time / timescale) nanoseconds whenever that is an int64
   (the only values a time.Duration has).  Repaired text (/repo 423d4e5, finding C09-F7). *)
Theorem C09_time_code : forall tb, consistent tb = true -> forall n ts, 1 <= n <= nsamples tb ->
  0 < ts -> ts < 4294967296 ->
  exists t, S_decode_time tb n = Some t /\
            (1000000000 * t / ts < 9223372036854775808 ->
             stts_get_time_code (t_stts_count tb) (t_stts_delta tb) n ts = Ok (S_time_code t ts)).
Proof. exact time_code_correct. Qed.
Print Assumptions C09_time_code.

(* on the bare columns, with no more arithmetic hypotheses than C09_decode_time_exact (counts may sum past 2^32) *)
Theorem C09_time_code_exact : forall cs ds, lenN cs = lenN ds -> forallb is_u32 ds = true ->
  forall n ts, 1 <= n -> n <= sumN cs -> n < 4294967296 -> 0 < ts -> ts < 4294967296 ->
  exists t, nthN (starts (expand_rl cs ds) 0) (n - 1) = Some t /\
            (1000000000 * t / ts < 9223372036854775808 -> stts_get_time_code cs ds n ts = Ok (S_time_code t ts)).
Proof. exact time_code_exact. Qed.
Print Assumptions C09_time_code_exact.
Example ex_time_code :
  stts_get_time_code (t_stts_count ex_tb) (t_stts_delta ex_tb) 6 90000 = Ok 611111%Z /\
  S_decode_time ex_tb 6 = Some 55 /\
  stts_get_time_code [4294967295; 4294967295] [4294967295; 7] 4294967295 4294967295 = Ok 4294967294000000000%Z /\
  stts_get_time_code [3] [5] 2 0 = Panic.
Proof. vm_compute. repeat split. Qed.

(* the pinned text (uint32 accumulator) is wrong from 2^32 units on: 500 samples of one second in a 10 MHz
   timescale, sample 431 starts at 430 s and GetTimeCode said 503.2704 ms (reproduced on the real code) *)
Theorem C09_time_code_pinned_refuted :
  exists cs ds n ts t, lenN cs = lenN ds /\ forallb is_u32 cs = true /\ forallb is_u32 ds = true /\
    1 <= n /\ n <= sumN cs /\ 0 < ts /\ ts < 4294967296 /\
    nthN (starts (expand_rl cs ds) 0) (n - 1) = Some t /\ 1000000000 * t / ts < 9223372036854775808 /\
    stts_get_time_code cs ds n ts = Ok (S_time_code t ts) /\
    stts_get_time_code_pinned cs ds n ts <> Ok (S_time_code t ts).
Proof. exact time_code_pinned_refuted. Qed.
Print Assumptions C09_time_code_pinned_refuted.

(* ================= C09_builder_consistent without raw_ok (C09RowsProofs.v) =================
   raw_ok (no uint32 wrap in first chunk / samples per chunk / FirstSampleNr / number of rows) was a hypothesis of the
   bridge although it follows from the shape of the table: rows_ok, first chunk 1, the runs holding N samples over C
   chunks, N + 1 < 2^32 and C + 1 < 2^32 give every arithmetic clause of raw_ok (each run has >= 1 chunk of >= 1
   sample, so samples per chunk <= N, FirstSampleNr <= N + 1, first chunks and the number of rows <= C).  What is left
   is the type of the ids: non-zero uint32 (ids_ok; the Go parameters are uint32 and id 0 is refused). *)
Theorem C09_raw_ok_from_shape : forall raw C n, is_u32 (C + 1) = true -> is_u32 (n + 1) = true ->
  rows_ok raw C = true -> ids_ok raw = true ->
  match raw with (fc, _, _) :: _ => fc = 1 | [] => False end ->
  sumN (chunk_counts (S_entries raw) C) = n ->
  raw_ok raw = true.
Proof. exact raw_ok_of_rows. Qed.
Print Assumptions C09_raw_ok_from_shape.

Theorem C09_builder_consistent_rows : forall tb craw0 ccalls sraw0 sb0 scalls,
  is_u32 (nsamples tb + 1) = true -> stts_ok tb = true -> stsz_ok tb = true -> offsets_ok tb = true ->
  stss_ok tb = true -> sdtp_ok tb = true ->
  (t_ctts tb = None \/
   (t_ctts tb = Some (ctts_run (ctts_decode craw0) ccalls) /\
    sumN (map fst (craw0 ++ ctts_table ccalls)) = nsamples tb)) ->
  stsc_decode sraw0 = Ok sb0 ->
  t_stsc tb = stsc_run sb0 scalls ->
  ids_ok (stsc_table sraw0 scalls) = true -> rows_ok (stsc_table sraw0 scalls) (nchunks tb) = true ->
  match stsc_table sraw0 scalls with (fc, _, _) :: _ => fc = 1 | [] => False end ->
  sumN (chunk_counts (S_entries (stsc_table sraw0 scalls)) (nchunks tb)) = nsamples tb ->
  consistent tb = true.
Proof. exact builder_consistent_rows. Qed.
Print Assumptions C09_builder_consistent_rows.
(* the hypotheses are those of C09_builder_consistent with raw_ok weakened (raw_ok implies ids_ok), satisfied by the
   histories of ex_histories; the wrap-around table of C09_stsc_cache_wrap_refuted (2^31 samples per chunk over 2
   chunks) has ids_ok and rows_ok but more than 2^32 samples *)
Theorem C09_raw_ok_ids : forall raw, raw_ok raw = true -> ids_ok raw = true.
Proof. exact raw_ok_ids. Qed.
Print Assumptions C09_raw_ok_ids.
Example ex_rows :
  ids_ok (stsc_table [] ex_stsc_calls) = true /\ is_u32 (nchunks ex_tb + 1) = true /\
  ids_ok [(1, 2147483648, 1); (3, 1, 1)] = true /\ rows_ok [(1, 2147483648, 1); (3, 1, 1)] 3 = true /\
  raw_ok [(1, 2147483648, 1); (3, 1, 1)] = false /\
  sumN (chunk_counts (S_entries [(1, 2147483648, 1); (3, 1, 1)]) 3) = 4294967297.
Proof. vm_compute. repeat split. Qed.

(* ================= GetTimeCode outside 1..N (C09TimeCodePastProofs.v) =================
   Unlike GetDecodeTime (C09_decode_time_past_end: Panic) GetTimeCode has an answer for sample number 0 and for
   every number past the last sample, for EVERY table with fewer than 2^32 samples: the time code of the END of
   the track (sum of all durations) - no panic, and there is no error result.  Outside the property's range; stated
   so that the behaviour the correspondence compares there is a theorem and not only a transcription. *)
Theorem C09_time_code_past_end : forall cs ds n ts, lenN cs = lenN ds -> forallb is_u32 ds = true ->
  sumN cs < 4294967296 -> n = 0 \/ sumN cs < n -> n < 4294967296 -> 0 < ts -> ts < 4294967296 ->
  1000000000 * sumN (expand_rl cs ds) / ts < 9223372036854775808 ->
  stts_get_time_code cs ds n ts = Ok (S_time_code (sumN (expand_rl cs ds)) ts).
Proof. exact time_code_past_end. Qed.
Print Assumptions C09_time_code_past_end.
Example ex_time_code_past_end :
  sumN (expand_rl (t_stts_count ex_tb) (t_stts_delta ex_tb)) = 65 /\
  stts_get_time_code (t_stts_count ex_tb) (t_stts_delta ex_tb) 0 1000 = Ok 65000000%Z /\
  stts_get_time_code (t_stts_count ex_tb) (t_stts_delta ex_tb) 8 1000 = Ok 65000000%Z /\
  stts_get_time_code (t_stts_count ex_tb) (t_stts_delta ex_tb) 4294967295 1000 = Ok 65000000%Z.
Proof. vm_compute. repeat split. Qed.
