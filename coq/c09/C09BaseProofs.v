(* C09BaseProofs.v — list lemmas for N-indexed access and the generic binary-search lemma. *)
From V.lib Require Import Base.
From V.c09 Require Import C09Model C09Spec.

Lemma nthN_nil {A} i : @nthN A [] i = None.
Proof. reflexivity. Qed.

Lemma nthN_cons {A} (x : A) l i : nthN (x :: l) i = if i =? 0 then Some x else nthN l (i - 1).
Proof. reflexivity. Qed.

Lemma nthN_S {A} (x : A) l i : nthN (x :: l) (i + 1) = nthN l i.
Proof. cbn [nthN]. destruct (i + 1 =? 0) eqn:E; [lia|]. f_equal. lia. Qed.

Lemma nthN_app {A} (l1 l2 : list A) i :
  nthN (l1 ++ l2) i = if i <? lenN l1 then nthN l1 i else nthN l2 (i - lenN l1).
Proof.
  revert i; induction l1 as [|x t IH]; intros i; cbn [app nthN].
  - rewrite lenN_nil. destruct (i <? 0) eqn:E; [lia|]. f_equal; lia.
  - rewrite lenN_cons. destruct (i =? 0) eqn:E0.
    + destruct (i <? 1 + lenN t) eqn:E1; [reflexivity|lia].
    + rewrite IH. destruct (i - 1 <? lenN t) eqn:E1, (i <? 1 + lenN t) eqn:E2; try lia; try reflexivity.
      f_equal. lia.
Qed.

Lemma nthN_ge_None {A} (l : list A) i : lenN l <= i -> nthN l i = None.
Proof.
  revert i; induction l as [|x t IH]; intros i H; cbn [nthN]; [reflexivity|].
  rewrite lenN_cons in H. destruct (i =? 0) eqn:E; [lia|]. apply IH. lia.
Qed.

Lemma nthN_lt_Some {A} (l : list A) i : i < lenN l -> exists x, nthN l i = Some x.
Proof.
  revert i; induction l as [|x t IH]; intros i H.
  - rewrite lenN_nil in H. lia.
  - rewrite lenN_cons in H. cbn [nthN]. destruct (i =? 0) eqn:E; [eauto|]. apply IH. lia.
Qed.

Lemma nthN_Some_lt {A} (l : list A) i x : nthN l i = Some x -> i < lenN l.
Proof.
  intros H. destruct (N.lt_ge_cases i (lenN l)) as [L|L]; [exact L|].
  rewrite nthN_ge_None in H by exact L. discriminate.
Qed.

Lemma lenN_repeat {A} (x : A) k : lenN (repeat x k) = N.of_nat k.
Proof. unfold lenN. rewrite repeat_length. reflexivity. Qed.

Lemma nthN_repeat {A} (x : A) k i : nthN (repeat x k) i = if i <? N.of_nat k then Some x else None.
Proof.
  revert i; induction k as [|k IH]; intros i.
  - cbn [repeat nthN]. destruct (i <? N.of_nat 0) eqn:E; [lia|reflexivity].
  - cbn [repeat nthN]. destruct (i =? 0) eqn:E0.
    + destruct (i <? N.of_nat (S k)) eqn:E; [reflexivity|lia].
    + rewrite IH. destruct (i - 1 <? N.of_nat k) eqn:E1, (i <? N.of_nat (S k)) eqn:E2; try reflexivity; lia.
Qed.

Lemma sumN_repeat d k : sumN (repeat d k) = N.of_nat k * d.
Proof. induction k as [|k IH]; cbn [repeat sumN]; [lia|]. rewrite IH. lia. Qed.

Lemma nthN_map {A B} (f : A -> B) l i : nthN (map f l) i = option_map f (nthN l i).
Proof.
  revert i; induction l as [|x t IH]; intros i; cbn [map nthN]; [reflexivity|].
  destruct (i =? 0); [reflexivity|apply IH].
Qed.

Lemma lenN_map {A B} (f : A -> B) l : lenN (map f l) = lenN l.
Proof. unfold lenN. rewrite map_length. reflexivity. Qed.

Lemma idx_Some {A} (l : list A) i x : nthN l i = Some x -> idx l i = Ok x.
Proof. unfold idx. intros ->. reflexivity. Qed.

Lemma idx_m1_Some {A} (l : list A) i x : 1 <= i -> nthN l (i - 1) = Some x -> idx_m1 l i = Ok x.
Proof. unfold idx_m1. intros H E. destruct (i =? 0) eqn:E0; [lia|]. apply idx_Some, E. Qed.

(* u32 / u64 are the identity below the modulus *)
Lemma u32_small x : x < 4294967296 -> u32 x = x.
Proof. unfold u32. intros. apply N.mod_small. assumption. Qed.
Lemma u64_small x : x < 18446744073709551616 -> u64 x = x.
Proof. unfold u64. intros. apply N.mod_small. assumption. Qed.
Lemma sub32_small a b : b <= a -> a < 4294967296 -> sub32 a b = a - b.
Proof. unfold sub32. intros. rewrite (N.mod_small b) by lia. 
  replace (a + 4294967296 - b) with ((a - b) + 1 * 4294967296) by lia.
  rewrite N.mod_add by discriminate. apply N.mod_small. lia. Qed.
Lemma sub64_small a b : b <= a -> a < 18446744073709551616 -> sub64 a b = a - b.
Proof. unfold sub64. intros. rewrite (N.mod_small b) by lia.
  replace (a + 18446744073709551616 - b) with ((a - b) + 1 * 18446744073709551616) by lia.
  rewrite N.mod_add by discriminate. apply N.mod_small. lia. Qed.

(* ---------- the binary search ---------- *)
(* go_right is true on a prefix of the (sorted) list: then the loop returns the first index where it is false *)
Definition prefix_true (go_right : N -> bool) (l : list N) : Prop :=
  forall i j vi vj, i <= j -> nthN l i = Some vi -> nthN l j = Some vj -> go_right vj = true -> go_right vi = true.

Lemma bsearch_spec go_right l : prefix_true go_right l ->
  forall fuel lo hi, lo <= hi -> hi <= lenN l -> (N.to_nat (hi - lo) < fuel)%nat ->
  exists r, bsearch go_right l fuel lo hi = Ok r /\ lo <= r <= hi /\
    (forall i v, lo <= i < r -> nthN l i = Some v -> go_right v = true) /\
    (forall i v, r <= i < hi -> nthN l i = Some v -> go_right v = false).
Proof.
  intros Hm fuel; induction fuel as [|f IH]; intros lo hi Hle Hhi Hf; [lia|].
  cbn [bsearch]. destruct (lo <? hi) eqn:E.
  - set (h := (lo + hi) / 2).
    assert (Hh : lo <= h < hi) by (unfold h; lia).
    destruct (nthN_lt_Some l h) as [v Hv]; [lia|].
    rewrite (idx_Some _ _ _ Hv). cbn [rbind].
    destruct (go_right v) eqn:Eg.
    + destruct (IH (h + 1) hi) as [r [Hr [Hb [H1 H2]]]]; try lia.
      exists r. split; [exact Hr|]. split; [lia|]. split; [|exact H2].
      intros i vi Hi Hvi. destruct (N.lt_ge_cases h i) as [L|L].
      * apply (H1 i vi); [lia|exact Hvi].
      * apply (Hm i h vi v); try assumption.
    + destruct (IH lo h) as [r [Hr [Hb [H1 H2]]]]; try lia.
      exists r. split; [exact Hr|]. split; [lia|]. split; [exact H1|].
      intros i vi Hi Hvi. destruct (N.lt_ge_cases i h) as [L|L].
      * apply (H2 i vi); [lia|exact Hvi].
      * destruct (go_right vi) eqn:Egi; [|reflexivity].
        rewrite (Hm h i v vi L Hv Hvi Egi) in Eg. discriminate.
  - exists lo. split; [reflexivity|]. split; [lia|]. split; intros; lia.
Qed.

Lemma bsearch_fuel_ok {A} (l : list A) lo hi : hi <= lenN l -> (N.to_nat (hi - lo) < bsearch_fuel l)%nat.
Proof. unfold bsearch_fuel, lenN. intros. lia. Qed.
