(* C09PureProofs.v — no query changes the box state; the state-threaded composite queries compute what the
   plain model functions (the ones the query theorems are about) compute; a sequence of queries therefore gives,
   for each query, its answer on the initial state — whatever was asked before. *)
From V.lib Require Import Base.
From V.c09 Require Import C09Model C09PureModel.

(* m returns the state it was given and computes f of the tables *)
Definition agrees {A} (m : M A) (f : tables -> res A) : Prop := forall s, m s = (f (f_tb s), s).
Definition pure {A} (m : M A) : Prop := forall s, snd (m s) = s.

Lemma agrees_pure {A} (m : M A) f : agrees m f -> pure m.
Proof. intros H s. rewrite H. reflexivity. Qed.

Lemma agrees_leaf {A} (f : tables -> res A) : agrees (leaf f) f.
Proof. intros s. reflexivity. Qed.

Lemma agrees_ret {A} (a : A) : agrees (retM a) (fun _ => Ok a).
Proof. intros s. reflexivity. Qed.

Lemma agrees_fail {A} (r : res A) : agrees (failM r) (fun _ => r).
Proof. intros s. reflexivity. Qed.

Lemma agrees_bind {A B} (m : M A) (k : A -> M B) f g :
  agrees m f -> (forall a, agrees (k a) (g a)) ->
  agrees (bindM m k) (fun tb => rbind (f tb) (fun a => g a tb)).
Proof.
  intros Hm Hk s. unfold bindM. rewrite Hm. destruct (f (f_tb s)) as [a| | |]; cbn [rbind]; [apply Hk|reflexivity..].
Qed.

Lemma agrees_ext {A} (m : M A) f g : agrees m f -> (forall tb, f tb = g tb) -> agrees m g.
Proof. intros H E s. rewrite H, E. reflexivity. Qed.

Lemma pure_ret {A} (a : A) : pure (retM a).
Proof. intros s. reflexivity. Qed.

Lemma pure_bind {A B} (m : M A) (k : A -> M B) : pure m -> (forall a, pure (k a)) -> pure (bindM m k).
Proof.
  intros Hm Hk s. unfold bindM. specialize (Hm s). destruct (m s) as [[a| | |] s']; cbn [snd] in *; subst s';
    [apply Hk|reflexivity..].
Qed.

(* ---------- GetSampleData ---------- *)
Lemma sample_of_agrees nr : agrees (sample_of_st nr) (fun tb => sample_of tb nr).
Proof.
  unfold sample_of_st, sample_of.
  repeat (apply agrees_bind; [apply agrees_leaf|intros ?]). apply agrees_ret.
Qed.

Lemma samples_loop_agrees n : forall nr, agrees (samples_loop_st n nr) (fun tb => samples_loop tb n nr).
Proof.
  induction n as [|n IH]; intros nr; cbn [samples_loop_st samples_loop]; [apply agrees_ret|].
  apply agrees_bind; [apply sample_of_agrees|intros s0].
  apply agrees_bind; [apply IH|intros rest]. apply agrees_ret.
Qed.

Lemma get_sample_data_agrees a b : agrees (get_sample_data_st a b) (fun tb => trak_get_sample_data tb a b).
Proof.
  intros s. unfold get_sample_data_st, bindM, leaf, trak_get_sample_data.
  destruct ((a <? 1) || (trak_nr_samples (f_tb s) <? b)); [reflexivity|].
  destruct (b + 1 <? a); [reflexivity|]. apply samples_loop_agrees.
Qed.

(* ---------- GetRangesForSampleInterval ---------- *)
Lemma ranges_loop_agrees a b chunks : forall first,
  agrees (ranges_loop_st a b first chunks) (fun tb => ranges_loop tb a b first chunks).
Proof.
  induction chunks as [|c rest IH]; intros first; cbn [ranges_loop_st ranges_loop]; [apply agrees_ret|].
  apply agrees_bind; [apply agrees_leaf|intros off].
  apply agrees_bind.
  - destruct first.
    + apply agrees_bind; [apply agrees_leaf|intros up]. apply agrees_ret.
    + apply agrees_ret.
  - intros [off' startIn].
    apply agrees_bind; [apply agrees_leaf|intros size].
    apply agrees_bind; [apply IH|intros more]. apply agrees_ret.
Qed.

Lemma get_ranges_agrees a b : agrees (get_ranges_st a b) (fun tb => trak_get_ranges tb a b).
Proof.
  intros s. unfold get_ranges_st, bindM at 1, leaf at 1, trak_get_ranges.
  destruct ((a <? 1) || (trak_nr_samples (f_tb s) <? b)); [reflexivity|].
  apply (agrees_bind _ _ (fun tb => stsc_get_containing_chunks (sc_entries (t_stsc tb)) a b)
                     (fun chunks tb => ranges_loop tb a b true chunks)).
  - apply agrees_leaf.
  - intros chunks. apply ranges_loop_agrees.
Qed.

(* ---------- CopySampleData ---------- *)
Lemma add_sizes_pure n : forall nr acc, pure (add_sizes_st n nr acc).
Proof.
  induction n as [|n IH]; intros nr acc; cbn [add_sizes_st]; [apply pure_ret|].
  apply pure_bind; [apply (agrees_pure _ _ (agrees_leaf _))|intros sz; apply IH].
Qed.

Lemma copy_loop_pure a b chunks : forall first, pure (copy_loop_st a b first chunks).
Proof.
  induction chunks as [|c rest IH]; intros first; cbn [copy_loop_st]; [apply pure_ret|].
  apply pure_bind; [apply (agrees_pure _ _ (agrees_leaf _))|intros off].
  apply pure_bind.
  - destruct first; [|apply pure_ret]. apply pure_bind; [apply add_sizes_pure|intros o; apply pure_ret].
  - intros [off' startNr]. apply pure_bind; [apply add_sizes_pure|intros size].
    apply pure_bind.
    + intros s. destruct (0 <? f_mdat_lazy s); [reflexivity|].
      destruct ((u64 (sub64 off' (f_mdat_start s + 8) + size) <? sub64 off' (f_mdat_start s + 8))
                || (lenN (f_mdat_data s) <? u64 (sub64 off' (f_mdat_start s + 8) + size))); reflexivity.
    + intros _. apply pure_bind; [apply IH|intros more; apply pure_ret].
Qed.

Lemma copy_pure : forall rs a b, pure (copy_sample_data_st rs a b).
Proof.
  intros rs a b s. unfold copy_sample_data_st.
  destruct (f_frag s); [reflexivity|]. destruct ((0 <? f_mdat_lazy s) && negb rs); [reflexivity|].
  apply pure_bind; [apply (agrees_pure _ _ (agrees_leaf _))|intros chunks].
  destruct (t_stco (f_tb s)), (t_co64 (f_tb s)); try apply copy_loop_pure. intros s'. reflexivity.
Qed.

(* ---------- all queries ---------- *)
Lemma amap_pure {A} (f : A -> answer) (m : M A) : pure m -> pure (amap f m).
Proof. intros H. apply pure_bind; [exact H|intros x; apply pure_ret]. Qed.

Lemma queries_pure : forall q s, run q s = (eval q s, s).
Proof.
  intros q s. unfold eval. rewrite (surjective_pairing (run q s)) at 1. f_equal.
  revert s. change (pure (run q)).
  destruct q; cbn [run]; apply amap_pure;
    try (apply (agrees_pure _ _ (agrees_leaf _))).
  - apply (agrees_pure _ _ (get_sample_data_agrees a b)).
  - apply (agrees_pure _ _ (get_ranges_agrees a b)).
  - apply copy_pure.
Qed.

(* the state-threaded composite queries answer what the plain model functions of the query theorems answer *)
Lemma composite_answers : forall a b s,
  eval (QSampleData a b) s = rbind (trak_get_sample_data (f_tb s) a b) (fun l => Ok (ASamples l)) /\
  eval (QRanges a b) s = rbind (trak_get_ranges (f_tb s) a b) (fun l => Ok (ARanges l)).
Proof.
  intros a b s. unfold eval. cbn [run]. unfold amap, bindM.
  rewrite (get_sample_data_agrees a b s), (get_ranges_agrees a b s). cbn [fst].
  split; [destruct (trak_get_sample_data (f_tb s) a b)|destruct (trak_get_ranges (f_tb s) a b)]; reflexivity.
Qed.

(* order independence: in ANY sequence of queries on the same boxes every query gets the answer it gets on the
   initial state, and the state at the end is the initial state *)
Lemma run_all_pure : forall qs s, run_all qs s = (map (fun q => eval q s) qs, s).
Proof.
  induction qs as [|q t IH]; intros s; [reflexivity|].
  cbn [run_all map]. rewrite queries_pure, IH. reflexivity.
Qed.
