(* C09CacheProofs.v — StscEntry.FirstSampleNr as computed by DecodeStscSR and by AddEntry equals the naive
   recurrence; StscBox.GetSampleDescriptionID. *)
From V.lib Require Import Base.
From V.c09 Require Import C09Model C09Spec C09BaseProofs C09SttsProofs C09StscProofs.

Definition last_opt (es : list stsc_entry) : option stsc_entry :=
  match rev es with [] => None | p :: _ => Some p end.

Lemma last_opt_snoc es e : last_opt (es ++ [e]) = Some e.
Proof. unfold last_opt. rewrite rev_unit. reflexivity. Qed.

Lemma lenN_updN l i v : lenN (updN l i v) = lenN l.
Proof.
  revert i; induction l as [|x t IH]; intros i; [reflexivity|]. cbn [updN].
  destruct (i =? 0); rewrite !lenN_cons; [reflexivity|]. rewrite IH. reflexivity.
Qed.

Lemma decode_loop_entries raw : forall es acc single ids i n,
  raw_ok_from (last_opt es) raw = true ->
  match last_opt es with None => acc = 1 | Some p => acc = first_sample p end ->
  i = lenN es -> i + lenN raw = n ->
  (1 <= i -> single <> 0 \/ lenN ids = n) ->
  exists acc' single' ids',
    stsc_decode_loop n (es, acc, single, ids) i raw = Ok (es ++ S_entries_from (last_opt es) raw, acc', single', ids').
Proof.
  induction raw as [|[[fc sp] sdi] t IH]; intros es acc single ids i n Hok Hacc Hi Hn Hids.
  - cbn [stsc_decode_loop S_entries_from]. rewrite app_nil_r. eauto.
  - cbn [raw_ok_from] in Hok.
    repeat (apply andb_prop in Hok; destruct Hok as [Hok ?]).
    unfold is_u32 in *. rewrite lenN_cons in Hn.
    cbn [stsc_decode_loop S_entries_from]. unfold stsc_decode_step.
    set (accS := match last_opt es with None => 1 | Some p => first_sample p + (fc - first_chunk p) * spc p end) in *.
    assert (Hacc' : match rev es with [] => acc | p :: _ => u32 (acc + u32 (sub32 fc (first_chunk p) * spc p)) end = accS).
    { unfold accS, last_opt in *. destruct (rev es) as [|p r]; [exact Hacc|].
      rewrite sub32_small by lia. subst acc. rewrite (u32_small ((fc - first_chunk p) * spc p)) by lia.
      apply u32_small. lia. }
    rewrite Hacc'.
    destruct (sdi =? 0) eqn:Es; [discriminate|].
    assert (Hnext : forall single2 ids2, (single2 <> 0 \/ lenN ids2 = n) ->
      exists acc' single' ids',
        stsc_decode_loop n (es ++ [mkEntry fc sp accS], accS, single2, ids2) (i + 1) t =
        Ok (es ++ mkEntry fc sp accS :: S_entries_from (Some (mkEntry fc sp accS)) t, acc', single', ids')).
    { intros single2 ids2 Hinv.
      destruct (IH (es ++ [mkEntry fc sp accS]) accS single2 ids2 (i + 1) n) as [a' [s' [i' Hr]]].
      - rewrite last_opt_snoc. assumption.
      - rewrite last_opt_snoc. reflexivity.
      - rewrite lenN_app, lenN_cons, lenN_nil. lia.
      - lia.
      - intros _. exact Hinv.
      - rewrite last_opt_snoc, <- app_assoc in Hr. cbn [app] in Hr. eauto. }
    destruct (i =? 0) eqn:Ei.
    + cbn [rbind]. apply Hnext. left. lia.
    + destruct (sdi =? single) eqn:Ess; cbn [negb].
      * cbn [rbind]. apply Hnext. left. lia.
      * destruct (single =? 0) eqn:Esg; cbn [negb].
        -- destruct (Hids ltac:(lia)) as [G|G]; [lia|].
           destruct (lenN ids <=? i) eqn:El; [lia|]. cbn [rbind]. apply Hnext. right. rewrite lenN_updN. exact G.
        -- assert (Hl : lenN (repeat single (N.to_nat i) ++ repeat 0 (N.to_nat (n - i))) = n)
             by (rewrite lenN_app, !lenN_repeat; lia).
           rewrite Hl. destruct (n <=? i) eqn:El; [lia|]. cbn [rbind]. apply Hnext. right.
           rewrite lenN_updN. exact Hl.
Qed.

Lemma decode_cache raw : raw_ok raw = true ->
  exists b, stsc_decode raw = Ok b /\ sc_entries b = S_entries raw.
Proof.
  intros H. unfold raw_ok in H. apply andb_prop in H. destruct H as [H _].
  destruct (decode_loop_entries raw [] 1 0 [] 0 (lenN raw)) as [a [s [i Hr]]]; try reflexivity; try assumption.
  - intros; lia.
  - unfold stsc_decode. rewrite Hr. cbn [rbind app]. eexists. split; reflexivity.
Qed.

Lemma add_entries_cache raw : forall b,
  raw_ok_from (last_opt (sc_entries b)) raw = true ->
  (sc_entries b = [] -> match raw with [] => True | (fc, _, _) :: _ => fc = 1 end) ->
  exists b', stsc_add_entries b raw = Ok b' /\
             sc_entries b' = sc_entries b ++ S_entries_from (last_opt (sc_entries b)) raw.
Proof.
  induction raw as [|[[fc sp] sdi] t IH]; intros b Hok H1.
  - exists b. cbn [stsc_add_entries S_entries_from]. rewrite app_nil_r. split; reflexivity.
  - cbn [raw_ok_from] in Hok. repeat (apply andb_prop in Hok; destruct Hok as [Hok ?]). unfold is_u32 in *.
    cbn [stsc_add_entries S_entries_from]. unfold stsc_add_entry, last_opt in *.
    destruct (sdi =? 0) eqn:Esdi; [cbn [negb] in *; discriminate|].
    destruct (rev (sc_entries b)) as [|p r] eqn:Er.
    + assert (Hes : sc_entries b = []).
      { destruct (sc_entries b) as [|x l] eqn:E; [reflexivity|]. apply (f_equal (@length _)) in Er.
        rewrite rev_length in Er. discriminate. }
      specialize (H1 Hes). subst fc. cbn [N.eqb Pos.eqb negb rbind].
      destruct (IH (mkStsc [mkEntry 1 sp 1] sdi (sc_ids b))) as [b' [Hb' He']].
      * cbn [sc_entries rev app]. assumption.
      * cbn [sc_entries]. discriminate.
      * exists b'. split; [exact Hb'|]. rewrite He', Hes. reflexivity.
    + set (fs := u32 (first_sample p + u32 (sub32 fc (first_chunk p) * spc p))).
      assert (Hfs : fs = first_sample p + (fc - first_chunk p) * spc p).
      { unfold fs. rewrite sub32_small by lia. rewrite (u32_small ((fc - first_chunk p) * spc p)) by lia.
        apply u32_small. lia. }
      match goal with |- context [let '(single, ids) := ?X in _] => destruct X as [single ids] end.
      cbn [rbind].
      destruct (IH (mkStsc (sc_entries b ++ [mkEntry fc sp fs]) single ids)) as [b' [Hb' He']].
      * cbn [sc_entries]. rewrite rev_unit. rewrite Hfs. assumption.
      * cbn [sc_entries]. intros E. destruct (sc_entries b); discriminate.
      * exists b'. split; [exact Hb'|]. rewrite He'. cbn [sc_entries]. rewrite rev_unit, <- app_assoc, Hfs. reflexivity.
Qed.

Lemma first_sample_nr_cache : forall raw, raw_ok raw = true ->
  (exists b, stsc_decode raw = Ok b /\ sc_entries b = S_entries raw) /\
  (match raw with [] => True | (fc, _, _) :: _ => fc = 1 end ->
   exists b, stsc_add_entries (mkStsc [] 0 []) raw = Ok b /\ sc_entries b = S_entries raw).
Proof.
  intros raw H. split; [apply decode_cache, H|]. intros H1.
  unfold raw_ok in H. apply andb_prop in H. destruct H as [H _].
  destruct (add_entries_cache raw (mkStsc [] 0 [])) as [b [Hb He]]; [exact H|intros _; exact H1|].
  exists b. split; [exact Hb|exact He].
Qed.

(* ---------- GetSampleDescriptionID (repaired text) ---------- *)
Lemma chunks_per_entry_cons e rest C :
  chunks_per_entry (e :: rest) C = (next_chunk (e :: rest) C 0 - first_chunk e) :: chunks_per_entry rest C.
Proof. rewrite next_chunk_0. destruct rest; reflexivity. Qed.

Lemma expand_cpe_at {A} es C : entries_ok es C = true -> forall (vals : list A) e0 i e c v,
  nthN es 0 = Some e0 -> nthN es i = Some e -> first_chunk e <= c < next_chunk es C i ->
  nthN vals i = Some v ->
  nthN (expand_rl (chunks_per_entry es C) vals) (c - first_chunk e0) = Some v.
Proof.
  induction es as [|e1 rest IH]; intros Hok vals e0 i e c v H0 Hi Hc Hv; [discriminate|].
  cbn [nthN N.eqb] in H0. injection H0 as <-.
  destruct vals as [|v1 vals']; [discriminate|].
  rewrite chunks_per_entry_cons. cbn [expand_rl]. rewrite nthN_app, lenN_repeat.
  destruct (entries_ok_at _ _ Hok 0 e1 eq_refl) as [S1 [N1 F1]].
  cbn [nthN] in Hi, Hv. destruct (i =? 0) eqn:E.
  - injection Hi as <-. injection Hv as <-. replace i with 0 in Hc by lia.
    destruct (c - first_chunk e1 <? N.of_nat (N.to_nat (next_chunk (e1 :: rest) C 0 - first_chunk e1))) eqn:E1; [|lia].
    rewrite nthN_repeat, E1. reflexivity.
  - rewrite next_chunk_tail in Hc by lia.
    destruct rest as [|e2 r]; [discriminate|].
    rewrite next_chunk_0 in *.
    destruct (entries_sorted _ _ (entries_ok_tail _ _ _ Hok) 0 (i - 1) e2 e) as [_ Q]; [lia|reflexivity|exact Hi|].
    destruct (c - first_chunk e1 <? N.of_nat (N.to_nat (first_chunk e2 - first_chunk e1))) eqn:E1; [lia|].
    replace (c - first_chunk e1 - N.of_nat (N.to_nat (first_chunk e2 - first_chunk e1))) with (c - first_chunk e2) by lia.
    apply (IH (entries_ok_tail _ _ _ Hok) vals' e2 (i - 1) e c v eq_refl Hi Hc Hv).
Qed.

Lemma nthN_entry_ids b : forall es k j, j < lenN es ->
  nthN (entry_ids b k es) j =
  Some (if sc_single b =? 0 then match nthN (sc_ids b) (k + j) with Some x => x | None => 0 end else sc_single b).
Proof.
  induction es as [|e t IH]; intros k j Hj; [rewrite lenN_nil in Hj; lia|].
  rewrite lenN_cons in Hj. cbn [entry_ids nthN]. destruct (j =? 0) eqn:E.
  - replace (k + j) with k by lia. reflexivity.
  - rewrite IH by lia. replace (k + 1 + (j - 1)) with (k + j) by lia. reflexivity.
Qed.

Lemma sample_description_id_correct tb : consistent tb = true -> forall c, 1 <= c <= nchunks tb ->
  exists id, S_sample_description_id tb c = Some id /\ stsc_get_sample_description_id (t_stsc tb) c = Ok id.
Proof.
  intros H c Hc.
  destruct (stsc_facts tb H) as [e0 [H0 [Hc0 [Hs0 [Hok [Hsum [HN [HC [Hlen Hel]]]]]]]]].
  destruct (consistent_parts tb H) as [_ [_ [_ [Hsc _]]]]. unfold stsc_ok in Hsc.
  apply andb_prop in Hsc. destruct Hsc as [Hsc _]. apply andb_prop in Hsc. destruct Hsc as [Hsc _].
  apply andb_prop in Hsc. destruct Hsc as [_ Hids].
  destruct (find_entry_for_chunk_ok (sc_entries (t_stsc tb)) (nchunks tb) c e0 Hok Hel H0 ltac:(lia))
    as [i [e [Hf [He [Hk Hnx]]]]].
  assert (Hin : first_chunk e <= c < next_chunk (sc_entries (t_stsc tb)) (nchunks tb) i).
  { split; [exact Hk|]. unfold next_chunk.
    destruct (nthN (sc_entries (t_stsc tb)) (i + 1)) as [e'|] eqn:En; [apply Hnx; reflexivity|lia]. }
  pose proof (nthN_Some_lt _ _ _ He) as Hi.
  pose proof (nthN_entry_ids (t_stsc tb) (sc_entries (t_stsc tb)) 0 i Hi) as Hv.
  pose proof (expand_cpe_at _ _ Hok _ e0 i e c _ H0 He Hin Hv) as Hx. rewrite Hc0 in Hx.
  unfold S_sample_description_id, stsc_get_sample_description_id.
  destruct (c =? 0) eqn:E0; [lia|]. rewrite Hx.
  destruct (sc_single (t_stsc tb) =? 0) eqn:Es; cbn [negb].
  - assert (Hl : lenN (sc_ids (t_stsc tb)) = lenN (sc_entries (t_stsc tb))) by lia.
    destruct (nthN_lt_Some (sc_ids (t_stsc tb)) i) as [x Hxi]; [lia|].
    cbn [N.add]. rewrite Hxi. exists x. split; [reflexivity|].
    rewrite u32_small by lia. rewrite Hf. cbn [rbind]. apply idx_Some, Hxi.
  - eexists. split; reflexivity.
Qed.
