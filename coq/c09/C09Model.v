(* C09Model.v — executable Gallina transcription of the sample-table query functions of
   mp4/stts.go, ctts.go, stsc.go, stsz.go, stco.go, co64.go, stss.go and mp4/trak.go
   (GetSampleData, GetRangesForSampleInterval).  DEFINITIONS ONLY.

   Conventions: every number is an N; Go uint32/uint64 arithmetic is written with explicit
   u32/u64 (Base.v); slice indexing is partial (idx/idx_m1 -> Panic); Go `return ..., err`
   is Err; integer division by zero is Panic.  Sample, chunk and entry numbers are N
   (never nat) so that hostile values (2^32-1) cost nothing when the model is run. *)
From V.lib Require Import Base.

(* ---------- partial indexing ---------- *)
Fixpoint nthN {A} (l : list A) (i : N) : option A :=
  match l with
  | [] => None
  | x :: t => if i =? 0 then Some x else nthN t (i - 1)
  end.

(* l[i] *)
Definition idx {A} (l : list A) (i : N) : res A :=
  match nthN l i with Some x => Ok x | None => Panic end.

(* l[i-1] where i is a Go int/uint32 that may be 0 (index -1 / 2^32-1: out of range) *)
Definition idx_m1 {A} (l : list A) (i : N) : res A :=
  if i =? 0 then Panic else idx l (i - 1).

Definition sub32 (a b : N) : N := (a + 4294967296 - b mod 4294967296) mod 4294967296.
Definition sub64 (a b : N) : N :=
  (a + 18446744073709551616 - b mod 18446744073709551616) mod 18446744073709551616.

(* ---------- the Go structs ---------- *)
Record stsc_entry := mkEntry { first_chunk : N; spc : N; first_sample : N }.
Record stsc_box := mkStsc { sc_entries : list stsc_entry; sc_single : N; sc_ids : list N }.
Record ctts_box := mkCtts { ct_end : list N; ct_off : list Z }.    (* EndSampleNr, SampleOffset *)
Record stsz_box := mkStsz { sz_uniform : N; sz_number : N; sz_sizes : list N }.
Record chunk := mkChunk { ch_nr : N; ch_start : N; ch_n : N }.
Record sample := mkSample { s_flags : N; s_dur : N; s_size : N; s_cto : Z }.
Record range := mkRange { r_off : N; r_size : N }.

Record tables := mkTables {
  t_stts_count : list N;        (* SttsBox.SampleCount *)
  t_stts_delta : list N;        (* SttsBox.SampleTimeDelta *)
  t_ctts : option ctts_box;
  t_stsc : stsc_box;
  t_stsz : stsz_box;
  t_stco : option (list N);
  t_co64 : option (list N);
  t_stss : option (list N);     (* StssBox.SampleNumber *)
  t_sdtp : option (list N)      (* SdtpBox.Entries *)
}.

(* ---------- stts ---------- *)
(* GetDecodeTime: `for { dur = delta[i]; if rem >= count[i] {...} else {...; break}; i++ }` *)
Fixpoint decode_time_loop (cs ds : list N) (rem acc : N) : res (N * N) :=
  match ds with
  | [] => Panic
  | d :: ds' =>
    match cs with
    | [] => Panic
    | c :: cs' =>
      if c <=? rem then decode_time_loop cs' ds' (rem - c) (u64 (acc + c * d))
      else Ok (if 0 <? rem then u64 (acc + rem * d) else acc, d)
    end
  end.

Definition stts_get_decode_time (cs ds : list N) (nr : N) : res (N * N) :=
  if nr =? 0 then Panic else decode_time_loop cs ds (nr - 1) 0.

(* GetDur: `for i < len(count) { dur = delta[i]; if nr >= count[i] {nr -= count[i]} else {return dur}; i++ }; return dur` *)
Fixpoint get_dur_loop (cs ds : list N) (nr dur : N) : res N :=
  match cs with
  | [] => Ok dur
  | c :: cs' =>
    match ds with
    | [] => Panic
    | d :: ds' => if c <=? nr then get_dur_loop cs' ds' (nr - c) d else Ok d
    end
  end.

Definition stts_get_dur (cs ds : list N) (nr : N) : res N :=
  if nr =? 0 then Panic else get_dur_loop cs ds (nr - 1) 0.

(* GetSampleNrAtTime: loop result is Some nr (returned inside the loop) or None with the accumulators *)
Fixpoint sample_at_time_loop (cs ds : list N) (t accT accN : N) : res (option N * N * N) :=
  match cs with
  | [] => Ok (None, accT, accN)
  | c :: cs' =>
    match ds with
    | [] => Panic
    | d :: ds' =>
      if t <? u64 (accT + c * d) then
        let rel := sub64 t accT in
        if d =? 0 then Panic (* integer divide by zero *)
        else
          let k := rel / d in
          let k' := if rel mod d =? 0 then k else u64 (k + 1) in
          Ok (Some (u32 (accN + u32 k' + 1)), accT, accN)
      else sample_at_time_loop cs' ds' t (u64 (accT + d * c)) (u32 (accN + c))
    end
  end.

Definition stts_get_sample_nr_at_time (cs ds : list N) (t : N) : res N :=
  do r <- sample_at_time_loop cs ds t 0 0;
  let '(found, accT, accN) := r in
  match found with
  | Some nr => Ok nr
  | None =>
    let n := lenN cs in
    do dl <- idx_m1 ds n;
    if negb (dl =? 0) then Err
    else
      do cl <- idx_m1 cs n;
      if (cl =? 1) && (t =? accT) then Ok accN else Err
  end.

(* ---------- the sort.Search-style loops ---------- *)
(* `for lo < hi { h := (lo+hi)>>1; if go_right(l[h]) { lo = h+1 } else { hi = h } }; return lo` *)
Fixpoint bsearch (go_right : N -> bool) (l : list N) (fuel : nat) (lo hi : N) : res N :=
  match fuel with
  | O => OutOfFuel
  | S f =>
    if lo <? hi then
      let h := (lo + hi) / 2 in
      do v <- idx l h;
      if go_right v then bsearch go_right l f (h + 1) hi else bsearch go_right l f lo h
    else Ok lo
  end.

Definition bsearch_fuel {A} (l : list A) : nat := S (length l).

(* ---------- ctts ---------- *)
(* decode: EndSampleNr[0] = 0; EndSampleNr[i+1] = EndSampleNr[i] + count_i (uint32) *)
Fixpoint ctts_ends (acc : N) (counts : list N) : list N :=
  match counts with
  | [] => []
  | c :: t => let e := u32 (acc + c) in e :: ctts_ends e t
  end.

Definition ctts_decode (raw : list (N * Z)) : ctts_box :=
  mkCtts (0 :: ctts_ends 0 (map fst raw)) (map snd raw).

(* AddSampleCountsAndOffset on an existing box (equal lengths checked by the caller: Err otherwise) *)
Definition ctts_add (b : ctts_box) (counts : list N) (offs : list Z) : res ctts_box :=
  if negb (lenN counts =? lenN offs) then Err
  else
    let ends := match ct_end b with [] => [0] | l => l end in
    let lastE := last ends 0 in
    Ok (mkCtts (ends ++ ctts_ends lastE counts) (ct_off b ++ offs)).

Definition ctts_get_cto (b : ctts_box) (nr : N) : res Z :=
  if nr =? 0 then Panic
  else
    do i <- bsearch (fun v => v <? nr) (ct_end b) (bsearch_fuel (ct_end b)) 0 (lenN (ct_end b));
    idx_m1 (ct_off b) i.

(* ---------- stss ---------- *)
Definition stss_is_sync (l : list N) (nr : N) : res bool :=
  let n := lenN l in
  do i <- bsearch (fun v => v <? nr) l (bsearch_fuel l) 0 n;
  if i <? n then (do v <- idx l i; Ok (v =? nr)) else Ok false.

(* ---------- stsz ---------- *)
Definition stsz_get_nr_samples (b : stsz_box) : N :=
  if lenN (sz_sizes b) =? 0 then sz_number b else u32 (lenN (sz_sizes b)).

(* GetSampleSize(i int): `if i > len(SampleSize) { return uniform }; return SampleSize[i-1]` *)
Definition stsz_get_sample_size (b : stsz_box) (i : N) : res N :=
  if lenN (sz_sizes b) <? i then Ok (sz_uniform b) else idx_m1 (sz_sizes b) i.

(* the explicit-size loop `for nr := startNr; nr <= endNr; nr++ { size += SampleSize[nr-1] }` *)
Fixpoint sum_sizes_loop (sizes : list N) (n : nat) (nr acc : N) : res N :=
  match n with
  | O => Ok acc
  | S n' => do s <- idx_m1 sizes nr; sum_sizes_loop sizes n' (nr + 1) (u64 (acc + s))
  end.

Definition stsz_get_total_sample_size (b : stsz_box) (a e : N) : res N :=
  if (a =? 0) || (sz_number b <? e) then Err
  else if e <? a then Ok 0
  else if negb (sz_uniform b =? 0) then Ok (u64 ((e - a + 1) * sz_uniform b))
  else sum_sizes_loop (sz_sizes b) (N.to_nat (e + 1 - a)) a 0.

(* ---------- stco / co64 ---------- *)
Definition get_offset (offs : list N) (chunkNr : N) : res N :=
  if (chunkNr =? 0) || (lenN offs <? chunkNr) then Err else idx_m1 offs chunkNr.

(* ---------- stsc ---------- *)
Definition u32max : N := 4294967295.

(* FindEntryNrForSampleNr(sampleNr, lowEntryIdx): returns low-1 as uint32 *)
Definition stsc_find_entry_for_sample (es : list stsc_entry) (nr low : N) : res N :=
  let keys := map first_sample es in
  do lo <- bsearch (fun v => negb (nr <? v)) keys (bsearch_fuel keys) low (u32 (lenN es));
  Ok (sub32 lo 1).

(* findEntryNrForChunkNr *)
Definition stsc_find_entry_for_chunk (es : list stsc_entry) (chunkNr : N) : res N :=
  let keys := map first_chunk es in
  do lo <- bsearch (fun v => negb (chunkNr <? v)) keys (bsearch_fuel keys) 0 (lenN es);
  Ok (sub32 lo 1).

Definition div_go (a b : N) : res N := if b =? 0 then Panic else Ok (a / b).

(* ChunkNrFromSampleNr(sampleNr int) -> (chunkNr, firstSampleInChunk) *)
Definition stsc_chunk_nr_from_sample_nr (es : list stsc_entry) (sampleNr : N) : res (N * N) :=
  let nr := u32 sampleNr in
  do en <- stsc_find_entry_for_sample es nr 0;
  do e <- idx es en;
  do k <- div_go (sub32 nr (first_sample e)) (spc e);
  Ok (u32 (first_chunk e + k), u32 (first_sample e + u32 (k * spc e))).

(* GetChunk(chunkNr uint32) *)
Definition stsc_get_chunk (es : list stsc_entry) (chunkNr : N) : res chunk :=
  if chunkNr =? 0 then Panic
  else
    do en <- stsc_find_entry_for_chunk es chunkNr;
    do e <- idx es en;
    Ok (mkChunk chunkNr (u32 (u32 (sub32 chunkNr (first_chunk e) * spc e) + first_sample e)) (spc e)).

(* the loop of GetContainingChunks, n iterations *)
Fixpoint containing_loop (es : list stsc_entry) (nrEntries : N) (n : nat) (chunkNr entryNr : N)
         (e : stsc_entry) : res (list chunk) :=
  match n with
  | O => Ok []
  | S n' =>
    let c := mkChunk chunkNr
                     (u32 (first_sample e + u32 (sub32 chunkNr (first_chunk e) * spc e))) (spc e) in
    do next <-
       (if entryNr <? sub32 nrEntries 1 then
          do e1 <- idx es (entryNr + 1);
          if u32 (chunkNr + 1) =? first_chunk e1 then Ok (entryNr + 1, e1) else Ok (entryNr, e)
        else Ok (entryNr, e));
    do rest <- containing_loop es nrEntries n' (u32 (chunkNr + 1)) (fst next) (snd next);
    Ok (c :: rest)
  end.

(* GetContainingChunks(start, end uint32).  When endChunkNr < startChunkNr Go asks for a slice capacity of
   (end-start+1) mod 2^32 and iterates zero times; only reachable on inconsistent tables: returned as []. *)
Definition stsc_get_containing_chunks (es : list stsc_entry) (a b : N) : res (list chunk) :=
  if (a =? 0) || (b <? a) then Err
  else
    let nrEntries := u32 (lenN es) in
    do sen <- stsc_find_entry_for_sample es a 0;
    do een <- stsc_find_entry_for_sample es b sen;
    do se <- idx es sen;
    do ee <- idx es een;
    do ks <- div_go (sub32 a (first_sample se)) (spc se);
    do ke <- div_go (sub32 b (first_sample ee)) (spc ee);
    let sc := u32 (ks + first_chunk se) in
    let ec := u32 (ke + first_chunk ee) in
    do e0 <- idx es sen;
    if ec <? sc then Ok []
    else containing_loop es nrEntries (N.to_nat (ec + 1 - sc)) sc sen e0.

(* GetSampleDescriptionID(chunkNr int) — the repaired text (af784a4):
   `return b.SampleDescriptionID[b.findEntryNrForChunkNr(uint32(chunkNr))]` *)
Definition stsc_get_sample_description_id (b : stsc_box) (chunkNr : N) : res N :=
  if negb (sc_single b =? 0) then Ok (sc_single b)
  else do en <- stsc_find_entry_for_chunk (sc_entries b) (u32 chunkNr); idx (sc_ids b) en.

(* as pinned (f87a9e4): `return b.SampleDescriptionID[chunkNr-1]` — a per-entry slice indexed by a chunk number *)
Definition stsc_get_sample_description_id_pinned (b : stsc_box) (chunkNr : N) : res N :=
  if negb (sc_single b =? 0) then Ok (sc_single b) else idx_m1 (sc_ids b) chunkNr.

(* list update l[i] = v (in range by construction in the decoder) *)
Fixpoint updN (l : list N) (i v : N) : list N :=
  match l with
  | [] => []
  | x :: t => if i =? 0 then v :: t else x :: updN t (i - 1) v
  end.

(* DecodeStscSR body after the size check: one iteration of the entry loop.
   state = (entries so far, accSampleNr, single, ids) ; n = entryCount *)
Definition stsc_decode_step (n : N) (st : list stsc_entry * N * N * list N) (i : N) (r : N * N * N)
  : res (list stsc_entry * N * N * list N) :=
  let '(es, acc, single, ids) := st in
  let '(fc, sp, sdi) := r in
  let acc' := match rev es with
              | [] => acc
              | p :: _ => u32 (acc + u32 (sub32 fc (first_chunk p) * spc p))
              end in
  let es' := es ++ [mkEntry fc sp acc'] in
  if sdi =? 0 then Err
  else if i =? 0 then Ok (es', acc', sdi, ids)
  else if negb (sdi =? single) then
    let '(single', ids') :=
        if negb (single =? 0) then (0, repeat single (N.to_nat i) ++ repeat 0 (N.to_nat (n - i)))
        else (single, ids) in
    (* ids'[i] = sdi : Panic if ids' is nil (cannot happen: single = 0 only after allocation, or sdi = 0) *)
    if lenN ids' <=? i then Panic else Ok (es', acc', single', updN ids' i sdi)
  else Ok (es', acc', single, ids).

Fixpoint stsc_decode_loop (n : N) (st : list stsc_entry * N * N * list N) (i : N) (raw : list (N * N * N))
  : res (list stsc_entry * N * N * list N) :=
  match raw with
  | [] => Ok st
  | r :: t => do st' <- stsc_decode_step n st i r; stsc_decode_loop n st' (i + 1) t
  end.

Definition stsc_decode (raw : list (N * N * N)) : res stsc_box :=
  do st <- stsc_decode_loop (lenN raw) ([], 1, 0, []) 0 raw;
  let '(es, _, single, ids) := st in Ok (mkStsc es single ids).

(* AddEntry(firstChunk, samplesPerChunk, sampleDescriptionID) — the repaired text (cb02a8f): id 0 is refused
   before anything is touched (`if sampleDescriptionID == 0 { return fmt.Errorf(...) }`), as DecodeStscSR does *)
Definition stsc_add_entry (b : stsc_box) (fc sp sdi : N) : res stsc_box :=
  if sdi =? 0 then Err else
  match rev (sc_entries b) with
  | [] => if negb (fc =? 1) then Err else Ok (mkStsc [mkEntry fc sp 1] sdi (sc_ids b))
  | lastE :: _ =>
    let n := lenN (sc_entries b) in
    let '(single, ids) :=
        if negb (sdi =? sc_single b) then
          let '(single', ids') :=
              if negb (sc_single b =? 0) then (0, repeat (sc_single b) (N.to_nat n))
              else (sc_single b, sc_ids b) in
          (single', ids' ++ [sdi])
        else (sc_single b, sc_ids b) in
    let fs := u32 (first_sample lastE + u32 (sub32 fc (first_chunk lastE) * spc lastE)) in
    Ok (mkStsc (sc_entries b ++ [mkEntry fc sp fs]) single ids)
  end.

(* AddEntry as pinned (f87a9e4): no look at the id.  AddEntry(..., 0) after an entry with another id appended the
   entry but not its id (sdi = single = 0 once the slice is in use): SampleDescriptionID one element short *)
Definition stsc_add_entry_pinned (b : stsc_box) (fc sp sdi : N) : res stsc_box :=
  match rev (sc_entries b) with
  | [] => if negb (fc =? 1) then Err else Ok (mkStsc [mkEntry fc sp 1] sdi (sc_ids b))
  | lastE :: _ =>
    let n := lenN (sc_entries b) in
    let '(single, ids) :=
        if negb (sdi =? sc_single b) then
          let '(single', ids') :=
              if negb (sc_single b =? 0) then (0, repeat (sc_single b) (N.to_nat n))
              else (sc_single b, sc_ids b) in
          (single', ids' ++ [sdi])
        else (sc_single b, sc_ids b) in
    let fs := u32 (first_sample lastE + u32 (sub32 fc (first_chunk lastE) * spc lastE)) in
    Ok (mkStsc (sc_entries b ++ [mkEntry fc sp fs]) single ids)
  end.

Fixpoint stsc_add_entries (b : stsc_box) (raw : list (N * N * N)) : res stsc_box :=
  match raw with
  | [] => Ok b
  | (fc, sp, sdi) :: t => do b' <- stsc_add_entry b fc sp sdi; stsc_add_entries b' t
  end.

(* ---------- trak ---------- *)
(* SdtpEntry accessors and SampleFlags.Encode *)
Definition sdtp_is_leading (e : N) : N := N.land (N.shiftr e 6) 3.
Definition sdtp_depends_on (e : N) : N := N.land (N.shiftr e 4) 3.
Definition sdtp_is_depended_on (e : N) : N := N.land (N.shiftr e 2) 3.
Definition sdtp_has_redundancy (e : N) : N := N.land e 3.

Definition flags_encode (isLeading dependsOn isDependedOn hasRed : N) (nonSync : bool) : N :=
  N.lor (N.lor (N.lor (N.lor (N.shiftl isLeading 26) (N.shiftl dependsOn 24)) (N.shiftl isDependedOn 22))
               (N.shiftl hasRed 20))
        (if nonSync then 65536 else 0).

(* createSampleFlagsFromProgressiveBoxes(stss, sdtp, sampleNr) *)
Definition create_sample_flags (stss sdtp : option (list N)) (nr : N) : res N :=
  do s1 <- match stss with
           | None => Ok (false, 0)
           | Some l => do isSync <- stss_is_sync l nr; Ok (negb isSync, if isSync then 2 else 0)
           end;
  let '(nonSync, dep) := s1 in
  match sdtp with
  | None => Ok (flags_encode 0 dep 0 0 nonSync)
  | Some l =>
    do e <- idx_m1 l nr;
    Ok (flags_encode (sdtp_is_leading e) (sdtp_depends_on e) (sdtp_is_depended_on e)
                     (sdtp_has_redundancy e) nonSync)
  end.

Definition trak_nr_samples (tb : tables) : N := stsz_get_nr_samples (t_stsz tb).

(* the body of the loop of GetSampleData for one sample number *)
Definition sample_of (tb : tables) (nr : N) : res sample :=
  do cto <- match t_ctts tb with None => Ok 0%Z | Some c => ctts_get_cto c nr end;
  do fl <- create_sample_flags (t_stss tb) (t_sdtp tb) nr;
  do dur <- stts_get_dur (t_stts_count tb) (t_stts_delta tb) nr;
  do sz <- stsz_get_sample_size (t_stsz tb) nr;
  Ok (mkSample fl dur sz cto).

Fixpoint samples_loop (tb : tables) (n : nat) (nr : N) : res (list sample) :=
  match n with
  | O => Ok []
  | S n' => do s <- sample_of tb nr; do rest <- samples_loop tb n' (nr + 1); Ok (s :: rest)
  end.

(* GetSampleData(start, end) — the repaired text: samples[nr-startSampleNr] = ...
   For end+1 < start Go allocates (end-start+1) mod 2^32 zero samples (tens of GiB): not modelled (OutOfFuel). *)
Definition trak_get_sample_data (tb : tables) (a b : N) : res (list sample) :=
  if (a <? 1) || (trak_nr_samples tb <? b) then Err
  else if b + 1 <? a then OutOfFuel
  else samples_loop tb (N.to_nat (b + 1 - a)) a.

(* GetSampleData as pinned (f87a9e4): samples[nr-1] = ... into make([]Sample, end-start+1):
   the store for nr = end is out of range as soon as start >= 2 *)
Definition trak_get_sample_data_pinned (tb : tables) (a b : N) : res (list sample) :=
  if (a <? 1) || (trak_nr_samples tb <? b) then Err
  else if b + 1 <? a then OutOfFuel
  else if (2 <=? a) && (a <=? b) then Panic
  else samples_loop tb (N.to_nat (b + 1 - a)) a.

Definition trak_chunk_offset (tb : tables) (chunkNr : N) : res N :=
  match t_stco tb with
  | Some l => get_offset l chunkNr
  | None => match t_co64 tb with Some l => get_offset l chunkNr | None => Ok 0 end
  end.

(* loop of GetRangesForSampleInterval over the chunks; first = (idx == 0) *)
Fixpoint ranges_loop (tb : tables) (a b : N) (first : bool) (chunks : list chunk) : res (list range) :=
  match chunks with
  | [] => Ok []
  | c :: rest =>
    do off <- trak_chunk_offset tb (ch_nr c);
    let endIn := u32 (sub32 (u32 (ch_start c + ch_n c)) 1) in
    do p <- (if first then
               do up <- stsz_get_total_sample_size (t_stsz tb) (ch_start c) (sub32 a 1);
               Ok (u64 (off + up), a)
             else Ok (off, ch_start c));
    let '(off', startIn) := p in
    let endIn' := match rest with [] => b | _ => endIn end in
    do size <- stsz_get_total_sample_size (t_stsz tb) startIn endIn';
    do more <- ranges_loop tb a b false rest;
    Ok (mkRange off' size :: more)
  end.

Definition trak_get_ranges (tb : tables) (a b : N) : res (list range) :=
  if (a <? 1) || (trak_nr_samples tb <? b) then Err
  else
    do chunks <- stsc_get_containing_chunks (sc_entries (t_stsc tb)) a b;
    ranges_loop tb a b true chunks.
