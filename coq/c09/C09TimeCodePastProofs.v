(* C09TimeCodePastProofs.v — SttsBox.GetTimeCode outside 1..N: the time code of the END of the track, for every
   table (no panic, no error result: sample number 0 and every number past the last sample are answered silently). *)
From V.lib Require Import Base.
From V.c09 Require Import C09Model C09Spec C09BaseProofs C09TimeCodeModel C09TimeCodeProofs.
Open Scope N_scope.

Lemma total_cons c cs (d : N) ds : sumN (expand_rl (c :: cs) (d :: ds)) = c * d + sumN (expand_rl cs ds).
Proof. cbn [expand_rl]. rewrite sumN_app, sumN_repeat. lia. Qed.

Lemma total_bound cs : forall ds, forallb is_u32 ds = true -> sumN (expand_rl cs ds) <= sumN cs * 4294967295.
Proof.
  induction cs as [|c cs IH]; intros ds Hd; [cbn; lia|]. destruct ds as [|d ds]; [cbn [expand_rl sumN]; lia|].
  cbn [forallb] in Hd. apply andb_prop in Hd. destruct Hd as [Hd0 Hd]. unfold is_u32 in Hd0.
  rewrite total_cons. cbn [sumN]. specialize (IH ds Hd). nia.
Qed.

Lemma total_zero cs : forall ds, sumN cs = 0 -> sumN (expand_rl cs ds) = 0.
Proof.
  induction cs as [|c cs IH]; intros ds H; [reflexivity|]. destruct ds as [|d ds]; [reflexivity|].
  cbn [sumN] in H. rewrite total_cons, IH by lia. nia.
Qed.

Lemma tc_loop_past cs : forall ds rem acc, lenN cs = lenN ds -> sumN cs <= rem ->
  acc + sumN (expand_rl cs ds) < 18446744073709551616 ->
  time_code_loop cs ds rem acc = Ok (acc + sumN (expand_rl cs ds)).
Proof.
  induction cs as [|c cs IH]; intros ds rem acc Hl Hr Hb; [cbn; f_equal; lia|].
  destruct ds as [|d ds]; [rewrite lenN_cons, lenN_nil in Hl; lia|].
  rewrite !lenN_cons in Hl. cbn [sumN] in Hr. cbn [time_code_loop].
  destruct (rem =? 0) eqn:E0.
  - rewrite total_zero by (cbn [sumN]; lia). f_equal. lia.
  - rewrite total_cons in *. destruct (c <=? rem) eqn:E; [|lia].
    rewrite u64_small by lia. rewrite IH; try lia. f_equal. lia.
Qed.

Lemma time_code_past_end : forall cs ds n ts, lenN cs = lenN ds -> forallb is_u32 ds = true ->
  sumN cs < 4294967296 -> n = 0 \/ sumN cs < n -> n < 4294967296 -> 0 < ts -> ts < 4294967296 ->
  1000000000 * sumN (expand_rl cs ds) / ts < 9223372036854775808 ->
  stts_get_time_code cs ds n ts = Ok (S_time_code (sumN (expand_rl cs ds)) ts).
Proof.
  intros cs ds n ts Hl Hd Hs Hn Hn32 H4 H5 Hfit.
  pose proof (total_bound cs ds Hd) as Hb.
  unfold stts_get_time_code.
  assert (Hrem : sumN cs <= sub32 n 1).
  { unfold sub32. destruct Hn as [-> | Hn]; [cbn; lia|]. lia. }
  rewrite (tc_loop_past cs ds (sub32 n 1) 0 Hl Hrem) by nia.
  rewrite N.add_0_l. destruct (ts =? 0) eqn:E1; [lia|].
  f_equal. apply time_code_value; assumption.
Qed.
