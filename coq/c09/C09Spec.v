(* C09Spec.v — the naive per-sample expansion of the ISO 14496-12 sample tables and the queries
   defined on it (one line each), plus the boolean predicate `consistent`.
   The expansion ignores the cached fields of the Go structs (StscEntry.FirstSampleNr); the ctts
   counts are the differences of CttsBox.EndSampleNr (the struct has no other representation). *)
From V.lib Require Import Base.
From V.c09 Require Import C09Model.

(* run-length expansion *)
Fixpoint expand_rl {A} (cs : list N) (vs : list A) : list A :=
  match cs, vs with
  | c :: cs', v :: vs' => repeat v (N.to_nat c) ++ expand_rl cs' vs'
  | _, _ => []
  end.

Fixpoint diffs (l : list N) : list N :=
  match l with
  | a :: t => match t with b :: _ => (b - a) :: diffs t | [] => [] end
  | [] => []
  end.

(* ---- per-sample lists ---- *)
Definition durs (tb : tables) : list N := expand_rl (t_stts_count tb) (t_stts_delta tb).
Definition ctos_of (c : ctts_box) : list Z := expand_rl (diffs (ct_end c)) (ct_off c).
Definition sizes_of (z : stsz_box) : list N :=
  if sz_uniform z =? 0 then sz_sizes z else repeat (sz_uniform z) (N.to_nat (sz_number z)).
Definition sizes (tb : tables) : list N := sizes_of (t_stsz tb).
Definition nsamples (tb : tables) : N := lenN (sizes tb).

(* start times: running sums *)
Fixpoint starts (ds : list N) (acc : N) : list N :=
  match ds with [] => [] | d :: t => acc :: starts t (acc + d) end.

(* ---- chunk structure ---- *)
Definition offsets (tb : tables) : list N :=
  match t_stco tb with Some l => l | None => match t_co64 tb with Some l => l | None => [] end end.
Definition nchunks (tb : tables) : N := lenN (offsets tb).

(* samples-per-chunk of chunks 1..C *)
Fixpoint chunk_counts (es : list stsc_entry) (C : N) : list N :=
  match es with
  | [] => []
  | e :: rest =>
    let next := match rest with [] => C + 1 | e' :: _ => first_chunk e' end in
    repeat (spc e) (N.to_nat (next - first_chunk e)) ++ chunk_counts rest C
  end.

(* the chunk number of every sample, given the per-chunk counts of chunks c, c+1, ... *)
Fixpoint sample_chunks (counts : list N) (c : N) : list N :=
  match counts with
  | [] => []
  | k :: t => repeat c (N.to_nat k) ++ sample_chunks t (c + 1)
  end.

Definition counts_of (tb : tables) : list N := chunk_counts (sc_entries (t_stsc tb)) (nchunks tb).

Definition sublist {A} (l : list A) (from n : N) : list A := firstn (N.to_nat n) (skipn (N.to_nat from) l).

(* ---- the queries on the expansion (None = not defined for that argument) ---- *)
Definition S_decode_time (tb : tables) (n : N) : option N := if n =? 0 then None else nthN (starts (durs tb) 0) (n - 1).
Definition S_dur (tb : tables) (n : N) : option N := if n =? 0 then None else nthN (durs tb) (n - 1).
Definition S_cto (c : ctts_box) (n : N) : option Z := if n =? 0 then None else nthN (ctos_of c) (n - 1).
Definition S_size (tb : tables) (n : N) : option N := if n =? 0 then None else nthN (sizes tb) (n - 1).
Definition S_total_size (tb : tables) (a b : N) : N := sumN (sublist (sizes tb) (a - 1) (b + 1 - a)).
Definition S_is_sync (l : list N) (n : N) : bool := existsb (N.eqb n) l.
Definition S_chunk_of (tb : tables) (n : N) : option N :=
  if n =? 0 then None else nthN (sample_chunks (counts_of tb) 1) (n - 1).
Definition S_first_in_chunk (tb : tables) (c : N) : N := 1 + sumN (firstn (N.to_nat (c - 1)) (counts_of tb)).
Definition S_chunk_count (tb : tables) (c : N) : option N := if c =? 0 then None else nthN (counts_of tb) (c - 1).
Definition S_chunk_offset (tb : tables) (c : N) : option N := if c =? 0 then None else nthN (offsets tb) (c - 1).
Definition S_offset_of (tb : tables) (n : N) : option N :=
  match S_chunk_of tb n with
  | None => None
  | Some c => match S_chunk_offset tb c with
              | None => None
              | Some o => Some (o + S_total_size tb (S_first_in_chunk tb c) (n - 1))
              end
  end.

(* first sample starting at or after t; N+1 when t is strictly inside the last sample *)
Definition S_sample_at_time (tb : tables) (t : N) : option N :=
  let total := sumN (durs tb) in
  if t <? total then Some (1 + lenN (filter (fun s => s <? t) (starts (durs tb) 0)))
  else if (last (durs tb) 1 =? 0) && (t =? total) then Some (lenN (durs tb))
  else None.

(* sample flags as the fragment layer wants them, from the expanded sync/sdtp information *)
Definition S_flags (tb : tables) (n : N) : option N :=
  let '(nonSync, dep) := match t_stss tb with
                         | None => (false, 0)
                         | Some l => if S_is_sync l n then (false, 2) else (true, 0)
                         end in
  match t_sdtp tb with
  | None => Some (flags_encode 0 dep 0 0 nonSync)
  | Some l => if n =? 0 then None else
              match nthN l (n - 1) with
              | None => None
              | Some e => Some (flags_encode (sdtp_is_leading e) (sdtp_depends_on e) (sdtp_is_depended_on e)
                                             (sdtp_has_redundancy e) nonSync)
              end
  end.

Definition S_meta (tb : tables) (n : N) : option sample :=
  match S_flags tb n, S_dur tb n, S_size tb n,
        (match t_ctts tb with None => Some 0%Z | Some c => S_cto c n end) with
  | Some f, Some d, Some s, Some c => Some (mkSample f d s c)
  | _, _, _, _ => None
  end.

(* sample description id of a chunk: the id of the stsc entry the chunk belongs to *)
Fixpoint entry_ids (b : stsc_box) (i : N) (es : list stsc_entry) : list N :=
  match es with
  | [] => []
  | _ :: t => (if sc_single b =? 0 then match nthN (sc_ids b) i with Some x => x | None => 0 end else sc_single b)
                :: entry_ids b (i + 1) t
  end.
Fixpoint chunks_per_entry (es : list stsc_entry) (C : N) : list N :=
  match es with
  | [] => []
  | e :: rest =>
    (match rest with [] => C + 1 | e' :: _ => first_chunk e' end - first_chunk e) :: chunks_per_entry rest C
  end.
Definition S_sample_description_id (tb : tables) (c : N) : option N :=
  if c =? 0 then None
  else nthN (expand_rl (chunks_per_entry (sc_entries (t_stsc tb)) (nchunks tb))
                       (entry_ids (t_stsc tb) 0 (sc_entries (t_stsc tb)))) (c - 1).

(* ---- consistency (boolean) ---- *)
Definition is_u32 (x : N) : bool := x <? 4294967296.

Fixpoint sorted_le (l : list N) : bool :=
  match l with a :: t => match t with b :: _ => (a <=? b) && sorted_le t | [] => true end | [] => true end.
Fixpoint sorted_lt (l : list N) : bool :=
  match l with a :: t => match t with b :: _ => (a <? b) && sorted_lt t | [] => true end | [] => true end.

(* stsc entries: samples-per-chunk >= 1, strictly increasing first chunk <= C, cached first sample numbers
   follow the recurrence *)
Fixpoint entries_ok (es : list stsc_entry) (C : N) : bool :=
  match es with
  | [] => true
  | e :: rest =>
    (1 <=? spc e) &&
    match rest with
    | [] => first_chunk e <=? C
    | e' :: _ => (first_chunk e <? first_chunk e')
                 && (first_sample e' =? first_sample e + (first_chunk e' - first_chunk e) * spc e)
                 && entries_ok rest C
    end
  end.

Definition stts_ok (tb : tables) : bool :=
  (lenN (t_stts_count tb) =? lenN (t_stts_delta tb))
  && forallb is_u32 (t_stts_count tb) && forallb is_u32 (t_stts_delta tb)
  && (sumN (t_stts_count tb) =? nsamples tb).

Definition ctts_ok (tb : tables) : bool :=
  match t_ctts tb with
  | None => true
  | Some c => (lenN (ct_end c) =? lenN (ct_off c) + 1) && (hd 1 (ct_end c) =? 0) && sorted_le (ct_end c)
              && (last (ct_end c) 0 =? nsamples tb)
  end.

Definition stsc_ok (tb : tables) : bool :=
  match sc_entries (t_stsc tb) with
  | [] => false
  | e :: _ => (first_chunk e =? 1) && (first_sample e =? 1)
  end
  && entries_ok (sc_entries (t_stsc tb)) (nchunks tb)
  && (sumN (counts_of tb) =? nsamples tb)
  && (if sc_single (t_stsc tb) =? 0 then lenN (sc_ids (t_stsc tb)) =? lenN (sc_entries (t_stsc tb))
      else lenN (sc_ids (t_stsc tb)) =? 0)
  && forallb (fun x => negb (x =? 0)) (sc_ids (t_stsc tb)) && is_u32 (sc_single (t_stsc tb)).

Definition stsz_ok (tb : tables) : bool :=
  let z := t_stsz tb in
  is_u32 (sz_uniform z) && forallb is_u32 (sz_sizes z) && is_u32 (sz_number z)
  && (if sz_uniform z =? 0 then sz_number z =? lenN (sz_sizes z) else lenN (sz_sizes z) =? 0).

Definition offsets_ok (tb : tables) : bool :=
  match t_stco tb, t_co64 tb with
  | Some l, _ => forallb is_u32 l
  | None, Some _ => true
  | None, None => false
  end
  && forallb (fun o => o + sumN (sizes tb) <? 18446744073709551616) (offsets tb)
  && is_u32 (nchunks tb + 1).

Definition stss_ok (tb : tables) : bool :=
  match t_stss tb with
  | None => true
  | Some l => sorted_lt l && forallb (fun x => (1 <=? x) && (x <=? nsamples tb)) l
  end.

Definition sdtp_ok (tb : tables) : bool :=
  match t_sdtp tb with
  | None => true
  | Some l => (lenN l =? nsamples tb) && forallb (fun x => x <? 256) l
  end.

Definition consistent (tb : tables) : bool :=
  is_u32 (nsamples tb + 1) && stts_ok tb && ctts_ok tb && stsc_ok tb && stsz_ok tb && offsets_ok tb
  && stss_ok tb && sdtp_ok tb.

(* GetSampleNrAtTime needs more: every delta positive, except that the last entry may be a single
   zero-duration sample (DESIGN 4/C09; the refuted statement without it is in C09Theorems.v) *)
Fixpoint deltas_positive (cs ds : list N) : bool :=
  match cs, ds with
  | c :: cs', d :: ds' =>
    match cs' with
    | [] => (0 <? d) || (c =? 1)
    | _ => (0 <? d) && deltas_positive cs' ds'
    end
  | _, _ => true
  end.

(* ---- interval queries on the expansion ---- *)
Fixpoint seqN (start : N) (len : nat) : list N :=
  match len with O => [] | S l => start :: seqN (start + 1) l end.

Definition S_chunk (tb : tables) (c : N) : option chunk :=
  match S_chunk_count tb c with
  | Some cnt => Some (mkChunk c (S_first_in_chunk tb c) cnt)
  | None => None
  end.

(* the chunks meeting the sample interval [a,b]: chunk_of a .. chunk_of b, in order *)
Definition S_containing (tb : tables) (a b : N) : option (list (option chunk)) :=
  match S_chunk_of tb a, S_chunk_of tb b with
  | Some ca, Some cb => Some (map (S_chunk tb) (seqN ca (N.to_nat (cb + 1 - ca))))
  | _, _ => None
  end.

(* the byte range of the samples of [a,b] that lie in chunk c: it starts at the file offset of the first such
   sample (chunk offset + sizes of the chunk's earlier samples) and covers exactly those samples *)
Definition S_range (tb : tables) (a b c : N) : option range :=
  match S_chunk_offset tb c, S_chunk_count tb c with
  | Some o, Some cnt =>
    let fic := S_first_in_chunk tb c in
    let from := N.max a fic in
    let to := N.min b (fic + cnt - 1) in
    Some (mkRange (o + S_total_size tb fic (from - 1)) (S_total_size tb from to))
  | _, _ => None
  end.

Definition S_ranges (tb : tables) (a b : N) : option (list (option range)) :=
  match S_chunk_of tb a, S_chunk_of tb b with
  | Some ca, Some cb => Some (map (S_range tb a b) (seqN ca (N.to_nat (cb + 1 - ca))))
  | _, _ => None
  end.

(* per-interval sample metadata *)
Definition S_sample_data (tb : tables) (a b : N) : list (option sample) :=
  map (S_meta tb) (seqN a (N.to_nat (b + 1 - a))).

(* ---- the cached first sample number of every stsc run, by the naive recurrence over the raw
   (first chunk, samples per chunk, description id) triples of the file ---- *)
Fixpoint S_entries_from (prev : option stsc_entry) (raw : list (N * N * N)) : list stsc_entry :=
  match raw with
  | [] => []
  | (fc, sp, _) :: t =>
    let acc := match prev with
               | None => 1
               | Some p => first_sample p + (fc - first_chunk p) * spc p
               end in
    let e := mkEntry fc sp acc in
    e :: S_entries_from (Some e) t
  end.
Definition S_entries (raw : list (N * N * N)) : list stsc_entry := S_entries_from None raw.

(* raw triples a decoder can meet without wrap-around: non-decreasing first chunk, non-zero ids, 32-bit values *)
Fixpoint raw_ok_from (prev : option stsc_entry) (raw : list (N * N * N)) : bool :=
  match raw with
  | [] => true
  | (fc, sp, sdi) :: t =>
    let acc := match prev with
               | None => 1
               | Some p => first_sample p + (fc - first_chunk p) * spc p
               end in
    is_u32 fc && is_u32 sp && is_u32 sdi && negb (sdi =? 0) && is_u32 acc
    && match prev with None => true | Some p => first_chunk p <=? fc end
    && raw_ok_from (Some (mkEntry fc sp acc)) t
  end.
Definition raw_ok (raw : list (N * N * N)) : bool := raw_ok_from None raw && is_u32 (lenN raw).
