(* Extraction of the C09 model (and the boolean hypotheses of the theorems) for the correspondence check. *)
From V.lib Require Import Base.
From V.c09 Require Import C09Model C09Spec C09BuildModel C09PureModel C09TimeCodeModel C09RowsModel.
Require Import ExtrOcamlBasic.
Separate Extraction
  tables stsc_box ctts_box stsz_box chunk sample range
  stts_get_decode_time stts_get_dur stts_get_sample_nr_at_time
  ctts_decode ctts_add ctts_get_cto stss_is_sync
  stsz_get_nr_samples stsz_get_sample_size stsz_get_total_sample_size get_offset
  stsc_decode stsc_add_entries stsc_chunk_nr_from_sample_nr stsc_get_chunk stsc_get_containing_chunks
  stsc_get_sample_description_id stsc_get_sample_description_id_pinned trak_get_sample_data trak_get_sample_data_pinned trak_get_ranges trak_chunk_offset
  consistent deltas_positive
  ctts_empty ctts_run ctts_table stsc_empty stsc_call stsc_call_res stsc_run stsc_table stsc_of_table
  nz sdis stsc_call_ok rows_ok raw_ok ctts_call_ok nchunks
  fstate query answer run run_all eval
  stts_get_time_code stts_get_time_code_pinned S_time_code ids_ok
  S_decode_time chunk_counts S_entries nsamples is_u32 durs.
