(* C09PureModel.v — the queries as STATE TRANSFORMERS on the box state.  DEFINITIONS ONLY.
   The Go query methods have pointer receivers and could write to their boxes (lookup cursors, caches).  Here
   every query is a function  state -> (outcome, state after).  A method whose Go text contains no assignment to a
   field of a box (read for each: stts.go GetDecodeTime / GetDur / GetSampleNrAtTime, ctts.go
   GetCompositionTimeOffset, stss.go IsSyncSample, stsz.go GetNrSamples / GetSampleSize / GetTotalSampleSize,
   stco.go / co64.go GetOffset, stsc.go ChunkNrFromSampleNr / GetChunk / GetContainingChunks /
   GetSampleDescriptionID and the two binary searches, mdat.go IsLazy / PayloadAbsoluteOffset) is a `leaf`: it
   hands back the state it was given.  The methods that call other methods in loops (TrakBox.GetSampleData,
   TrakBox.GetRangesForSampleInterval, File.CopySampleData) thread the state through every call they make.
   That the harness sees the same box state (every field, unexported ones included) before and after all
   queries of a case is part of the correspondence. *)
From V.lib Require Import Base.
From V.c09 Require Import C09Model.

(* File state seen by CopySampleData: the mdat box (start position, in-memory payload, lazy size), the flag, and
   the table boxes of the track *)
Record fstate := mkF { f_frag : bool; f_mdat_start : N; f_mdat_data : list N; f_mdat_lazy : N; f_tb : tables }.

Definition M (A : Type) : Type := fstate -> res A * fstate.
Definition leaf {A} (f : tables -> res A) : M A := fun s => (f (f_tb s), s).
Definition retM {A} (a : A) : M A := fun s => (Ok a, s).
Definition failM {A} (r : res A) : M A := fun s => (r, s).
Definition bindM {A B} (m : M A) (k : A -> M B) : M B :=
  fun s => match m s with
           | (Ok a, s') => k a s'
           | (Err, s') => (Err, s')
           | (Panic, s') => (Panic, s')
           | (OutOfFuel, s') => (OutOfFuel, s')
           end.
Notation "'dom' x <- m ; k" := (bindM m (fun x => k)) (at level 200, x pattern, m at level 100, k at level 200).

(* ---------- TrakBox.GetSampleData, state threaded through the four lookups of every sample ---------- *)
Definition sample_of_st (nr : N) : M sample :=
  dom cto <- leaf (fun tb => match t_ctts tb with None => Ok 0%Z | Some c => ctts_get_cto c nr end);
  dom fl <- leaf (fun tb => create_sample_flags (t_stss tb) (t_sdtp tb) nr);
  dom dur <- leaf (fun tb => stts_get_dur (t_stts_count tb) (t_stts_delta tb) nr);
  dom sz <- leaf (fun tb => stsz_get_sample_size (t_stsz tb) nr);
  retM (mkSample fl dur sz cto).

Fixpoint samples_loop_st (n : nat) (nr : N) : M (list sample) :=
  match n with
  | O => retM []
  | S n' => dom s <- sample_of_st nr; dom rest <- samples_loop_st n' (nr + 1); retM (s :: rest)
  end.

Definition get_sample_data_st (a b : N) : M (list sample) :=
  dom n <- leaf (fun tb => Ok (trak_nr_samples tb));
  if (a <? 1) || (n <? b) then failM Err
  else if b + 1 <? a then failM OutOfFuel
  else samples_loop_st (N.to_nat (b + 1 - a)) a.

(* ---------- TrakBox.GetRangesForSampleInterval ---------- *)
Fixpoint ranges_loop_st (a b : N) (first : bool) (chunks : list chunk) : M (list range) :=
  match chunks with
  | [] => retM []
  | c :: rest =>
    dom off <- leaf (fun tb => trak_chunk_offset tb (ch_nr c));
    let endIn := u32 (sub32 (u32 (ch_start c + ch_n c)) 1) in
    dom p <- (if first then
                dom up <- leaf (fun tb => stsz_get_total_sample_size (t_stsz tb) (ch_start c) (sub32 a 1));
                retM (u64 (off + up), a)
              else retM (off, ch_start c));
    let '(off', startIn) := p in
    let endIn' := match rest with [] => b | _ => endIn end in
    dom size <- leaf (fun tb => stsz_get_total_sample_size (t_stsz tb) startIn endIn');
    dom more <- ranges_loop_st a b false rest;
    retM (mkRange off' size :: more)
  end.

Definition get_ranges_st (a b : N) : M (list range) :=
  dom n <- leaf (fun tb => Ok (trak_nr_samples tb));
  if (a <? 1) || (n <? b) then failM Err
  else
    dom chunks <- leaf (fun tb => stsc_get_containing_chunks (sc_entries (t_stsc tb)) a b);
    ranges_loop_st a b true chunks.

(* ---------- File.CopySampleData: which (absolute offset, size) pieces it moves ----------
   `for sNr := from; sNr <= to; sNr++ { acc += GetSampleSize(sNr) }` (uint64 / int64 accumulators: no wrap
   below 2^63 for uint32 sizes and at most 2^32 iterations) *)
Fixpoint add_sizes_st (n : nat) (nr acc : N) : M N :=
  match n with
  | O => retM acc
  | S n' => dom s <- leaf (fun tb => stsz_get_sample_size (t_stsz tb) nr); add_sizes_st n' (nr + 1) (acc + s)
  end.

Definition span (from to : N) : nat := N.to_nat (to + 1 - from).

Fixpoint copy_loop_st (a b : N) (first : bool) (chunks : list chunk) : M (list (N * N)) :=
  match chunks with
  | [] => retM []
  | c :: rest =>
    let endNr0 := u32 (sub32 (u32 (ch_start c + ch_n c)) 1) in
    dom off <- leaf (fun tb => match t_stco tb, t_co64 tb with
                               | Some l, _ => get_offset l (ch_nr c)
                               | None, Some l => get_offset l (ch_nr c)
                               | None, None => Err
                               end);
    dom p <- (if first then dom o <- add_sizes_st (span (ch_start c) (a - 1)) (ch_start c) off; retM (o, a)
              else retM (off, ch_start c));
    let '(off', startNr) := p in
    let endNr := match rest with [] => b | _ => endNr0 end in
    dom size <- add_sizes_st (span startNr endNr) startNr 0;
    (* in memory: mdat.Data[off'-payloadStart : off'-payloadStart+size] is read (slice bounds: Panic) *)
    dom _ <- (fun s =>
                if 0 <? f_mdat_lazy s then (Ok tt, s)
                else let o := sub64 off' (f_mdat_start s + 8) in
                     if (u64 (o + size) <? o) || (lenN (f_mdat_data s) <? u64 (o + size)) then (Panic, s)
                     else (Ok tt, s));
    dom more <- copy_loop_st a b false rest;
    retM ((off', size) :: more)
  end.

(* rs_present: a ReadSeeker was passed.  Not modelled: 16-byte (largesize) mdat headers, the bytes themselves and
   the ReadSeeker / work buffer / writer, which are not File state (they are C08's subject). *)
Definition copy_sample_data_st (rs_present : bool) (a b : N) : M (list (N * N)) :=
  fun s =>
    if f_frag s then (Err, s)
    else if (0 <? f_mdat_lazy s) && negb rs_present then (Err, s)
    else
      (dom chunks <- leaf (fun tb => stsc_get_containing_chunks (sc_entries (t_stsc tb)) a b);
       match t_stco (f_tb s), t_co64 (f_tb s) with
       | None, None => failM Err
       | _, _ => copy_loop_st a b true chunks
       end) s.

(* ---------- every query the library offers, as one type ---------- *)
Inductive query :=
| QDecodeTime (n : N) | QDur (n : N) | QSampleAtTime (t : N) | QCto (n : N) | QIsSync (n : N) | QNrSamples
| QSize (n : N) | QTotalSize (a b : N) | QOffset (c : N) | QChunkOfSample (n : N) | QGetChunk (c : N)
| QContaining (a b : N) | QSdid (c : N) | QSampleData (a b : N) | QRanges (a b : N) | QCopy (rs : bool) (a b : N).

Inductive answer :=
| ATimeDur (x : N * N) | AN (x : N) | AZ (x : Z) | AB (x : bool) | APair (x : N * N) | AChunk (x : chunk)
| AChunks (x : list chunk) | ASamples (x : list sample) | ARanges (x : list range) | APieces (x : list (N * N)).

Definition amap {A} (f : A -> answer) (m : M A) : M answer := dom x <- m; retM (f x).
Definition nobox {A} : res A := Panic.   (* nil box pointer *)

Definition run (q : query) : M answer :=
  match q with
  | QDecodeTime n => amap ATimeDur (leaf (fun tb => stts_get_decode_time (t_stts_count tb) (t_stts_delta tb) n))
  | QDur n => amap AN (leaf (fun tb => stts_get_dur (t_stts_count tb) (t_stts_delta tb) n))
  | QSampleAtTime t => amap AN (leaf (fun tb => stts_get_sample_nr_at_time (t_stts_count tb) (t_stts_delta tb) t))
  | QCto n => amap AZ (leaf (fun tb => match t_ctts tb with None => nobox | Some c => ctts_get_cto c n end))
  | QIsSync n => amap AB (leaf (fun tb => match t_stss tb with None => nobox | Some l => stss_is_sync l n end))
  | QNrSamples => amap AN (leaf (fun tb => Ok (trak_nr_samples tb)))
  | QSize n => amap AN (leaf (fun tb => stsz_get_sample_size (t_stsz tb) n))
  | QTotalSize a b => amap AN (leaf (fun tb => stsz_get_total_sample_size (t_stsz tb) a b))
  | QOffset c => amap AN (leaf (fun tb => match t_stco tb, t_co64 tb with
                                          | Some l, _ => get_offset l c
                                          | None, Some l => get_offset l c
                                          | None, None => nobox
                                          end))
  | QChunkOfSample n => amap APair (leaf (fun tb => stsc_chunk_nr_from_sample_nr (sc_entries (t_stsc tb)) n))
  | QGetChunk c => amap AChunk (leaf (fun tb => stsc_get_chunk (sc_entries (t_stsc tb)) c))
  | QContaining a b => amap AChunks (leaf (fun tb => stsc_get_containing_chunks (sc_entries (t_stsc tb)) a b))
  | QSdid c => amap AN (leaf (fun tb => stsc_get_sample_description_id (t_stsc tb) c))
  | QSampleData a b => amap ASamples (get_sample_data_st a b)
  | QRanges a b => amap ARanges (get_ranges_st a b)
  | QCopy rs a b => amap APieces (copy_sample_data_st rs a b)
  end.

(* a sequence of queries on the same boxes, each on the state the previous one left *)
Fixpoint run_all (qs : list query) (s : fstate) : list (res answer) * fstate :=
  match qs with
  | [] => ([], s)
  | q :: t => let '(r, s1) := run q s in let '(rs, s2) := run_all t s1 in (r :: rs, s2)
  end.

(* the answer alone *)
Definition eval (q : query) (s : fstate) : res answer := fst (run q s).
