(* C09SttsProofs.v — stts (decode time, duration), stsz (size, total size), stco/co64 (offset). *)
From V.lib Require Import Base.
From V.c09 Require Import C09Model C09Spec C09BaseProofs.

Lemma consistent_parts tb : consistent tb = true ->
  is_u32 (nsamples tb) = true /\ stts_ok tb = true /\ ctts_ok tb = true /\ stsc_ok tb = true /\
  stsz_ok tb = true /\ offsets_ok tb = true /\ stss_ok tb = true /\ sdtp_ok tb = true.
Proof. unfold consistent. intros H. repeat (apply andb_prop in H; destruct H as [H ?]). tauto. Qed.

(* ---------- running sums ---------- *)
Lemma starts_app l1 l2 acc : starts (l1 ++ l2) acc = starts l1 acc ++ starts l2 (acc + sumN l1).
Proof.
  revert acc; induction l1 as [|x t IH]; intros acc; cbn [app starts sumN].
  - rewrite N.add_0_r. reflexivity.
  - rewrite IH, N.add_assoc. reflexivity.
Qed.

Lemma lenN_starts l acc : lenN (starts l acc) = lenN l.
Proof. revert acc; induction l as [|x t IH]; intros acc; cbn [starts]; [reflexivity|]. rewrite !lenN_cons, IH. reflexivity. Qed.

Lemma nthN_starts_repeat d k acc j :
  nthN (starts (repeat d k) acc) j = if j <? N.of_nat k then Some (acc + j * d) else None.
Proof.
  revert acc j; induction k as [|k IH]; intros acc j; cbn [repeat starts nthN].
  - destruct (j <? N.of_nat 0) eqn:E; [lia|reflexivity].
  - destruct (j =? 0) eqn:E0.
    + destruct (j <? N.of_nat (S k)) eqn:E; [|lia]. f_equal. nia.
    + rewrite IH. destruct (j - 1 <? N.of_nat k) eqn:E1, (j <? N.of_nat (S k)) eqn:E2; try reflexivity; try lia.
      f_equal. nia.
Qed.

Lemma sumN_expand_bound cs ds : forallb is_u32 ds = true ->
  sumN (expand_rl cs ds) <= sumN cs * 4294967295.
Proof.
  revert ds; induction cs as [|c cs IH]; intros ds H; [cbn; lia|].
  destruct ds as [|d ds]; [cbn [expand_rl sumN]; lia|].
  cbn [forallb] in H. apply andb_prop in H. destruct H as [Hd H].
  cbn [expand_rl sumN]. rewrite sumN_app, sumN_repeat. specialize (IH ds H). unfold is_u32 in Hd. nia.
Qed.

Lemma lenN_expand cs {A} (vs : list A) : lenN cs = lenN vs -> lenN (expand_rl cs vs) = sumN cs.
Proof.
  revert vs; induction cs as [|c cs IH]; intros vs H; [reflexivity|].
  destruct vs as [|v vs]; [rewrite lenN_cons, lenN_nil in H; lia|].
  cbn [expand_rl sumN]. rewrite lenN_app, lenN_repeat, IH; [lia|]. rewrite !lenN_cons in H. lia.
Qed.

(* ---------- GetDecodeTime ---------- *)
Lemma decode_time_loop_ok cs : forall ds rem acc,
  lenN cs = lenN ds -> rem < sumN cs -> acc + sumN (expand_rl cs ds) < 18446744073709551616 ->
  exists v d, nthN (starts (expand_rl cs ds) acc) rem = Some v /\ nthN (expand_rl cs ds) rem = Some d /\
              decode_time_loop cs ds rem acc = Ok (v, d).
Proof.
  induction cs as [|c cs IH]; intros ds rem acc Hl Hr Hb; [cbn in Hr; lia|].
  destruct ds as [|d ds]; [rewrite lenN_cons, lenN_nil in Hl; lia|].
  rewrite !lenN_cons in Hl. cbn [sumN] in Hr. cbn [expand_rl] in *.
  rewrite sumN_app, sumN_repeat in Hb. rewrite starts_app, sumN_repeat.
  cbn [decode_time_loop]. rewrite !nthN_app, lenN_starts, lenN_repeat.
  destruct (c <=? rem) eqn:E.
  - destruct (rem <? N.of_nat (N.to_nat c)) eqn:E1; [lia|].
    rewrite u64_small by lia.
    destruct (IH ds (rem - c) (acc + c * d)) as [v [d' [H1 [H2 H3]]]]; try lia.
    exists v, d'. replace (N.of_nat (N.to_nat c)) with c by lia.
    replace (acc + N.of_nat (N.to_nat c) * d) with (acc + c * d) by lia. auto.
  - destruct (rem <? N.of_nat (N.to_nat c)) eqn:E1; [|lia].
    rewrite nthN_starts_repeat, nthN_repeat, E1.
    exists (acc + rem * d), d. split; [reflexivity|]. split; [reflexivity|].
    destruct (0 <? rem) eqn:E2.
    + rewrite u64_small by nia. reflexivity.
    + replace rem with 0 by lia. do 2 f_equal. lia.
Qed.

(* ---------- GetDur ---------- *)
Lemma get_dur_loop_ok cs : forall ds rem dur0,
  lenN cs = lenN ds -> rem < sumN cs ->
  exists d, nthN (expand_rl cs ds) rem = Some d /\ get_dur_loop cs ds rem dur0 = Ok d.
Proof.
  induction cs as [|c cs IH]; intros ds rem dur0 Hl Hr; [cbn in Hr; lia|].
  destruct ds as [|d ds]; [rewrite lenN_cons, lenN_nil in Hl; lia|].
  rewrite !lenN_cons in Hl. cbn [sumN] in Hr. cbn [expand_rl get_dur_loop].
  rewrite nthN_app, lenN_repeat.
  destruct (c <=? rem) eqn:E.
  - destruct (rem <? N.of_nat (N.to_nat c)) eqn:E1; [lia|].
    destruct (IH ds (rem - c) d) as [d' [H1 H2]]; try lia.
    exists d'. replace (N.of_nat (N.to_nat c)) with c by lia. auto.
  - destruct (rem <? N.of_nat (N.to_nat c)) eqn:E1; [|lia].
    rewrite nthN_repeat, E1. eauto.
Qed.

Lemma stts_facts tb : consistent tb = true ->
  lenN (t_stts_count tb) = lenN (t_stts_delta tb) /\ sumN (t_stts_count tb) = nsamples tb /\
  nsamples tb < 4294967296 /\ sumN (durs tb) < 18446744073709551616 /\ lenN (durs tb) = nsamples tb.
Proof.
  intros H. destruct (consistent_parts tb H) as [Hn [Hs _]]. unfold stts_ok in Hs.
  repeat (apply andb_prop in Hs; destruct Hs as [Hs ?]).
  unfold is_u32 in Hn.
  assert (L : lenN (t_stts_count tb) = lenN (t_stts_delta tb)) by lia.
  assert (S : sumN (t_stts_count tb) = nsamples tb) by lia.
  repeat split; try lia.
  - unfold durs. pose proof (sumN_expand_bound (t_stts_count tb) (t_stts_delta tb) H1). nia.
  - unfold durs. rewrite lenN_expand by exact L. exact S.
Qed.

Lemma decode_time_correct tb : consistent tb = true -> forall n, 1 <= n <= nsamples tb ->
  exists t d, S_decode_time tb n = Some t /\ S_dur tb n = Some d /\
              stts_get_decode_time (t_stts_count tb) (t_stts_delta tb) n = Ok (t, d).
Proof.
  intros H n Hn. destruct (stts_facts tb H) as [L [S [B [T _]]]].
  unfold S_decode_time, S_dur, stts_get_decode_time. destruct (n =? 0) eqn:E; [lia|].
  destruct (decode_time_loop_ok (t_stts_count tb) (t_stts_delta tb) (n - 1) 0) as [v [d [H1 [H2 H3]]]]; try lia.
  - fold (durs tb). lia.
  - exists v, d. auto.
Qed.

Lemma dur_correct tb : consistent tb = true -> forall n, 1 <= n <= nsamples tb ->
  exists d, S_dur tb n = Some d /\ stts_get_dur (t_stts_count tb) (t_stts_delta tb) n = Ok d.
Proof.
  intros H n Hn. destruct (stts_facts tb H) as [L [S [B [T _]]]].
  unfold S_dur, stts_get_dur. destruct (n =? 0) eqn:E; [lia|].
  destruct (get_dur_loop_ok (t_stts_count tb) (t_stts_delta tb) (n - 1) 0) as [d [H1 H2]]; try lia.
  exists d. auto.
Qed.

(* ---------- stsz ---------- *)
Lemma stsz_facts tb : consistent tb = true ->
  let z := t_stsz tb in
  (sz_uniform z = 0 /\ sz_number z = lenN (sz_sizes z) /\ sizes tb = sz_sizes z \/
   sz_uniform z <> 0 /\ sz_sizes z = [] /\ sizes tb = repeat (sz_uniform z) (N.to_nat (sz_number z)))
  /\ nsamples tb = sz_number z /\ sz_number z < 4294967296 /\ sz_uniform z < 4294967296
  /\ forallb is_u32 (sz_sizes z) = true.
Proof.
  intros H z. destruct (consistent_parts tb H) as [Hn [_ [_ [_ [Hz _]]]]]. unfold stsz_ok in Hz. fold z in Hz.
  repeat (apply andb_prop in Hz; destruct Hz as [Hz ?]). unfold is_u32 in *.
  unfold nsamples, sizes, sizes_of in *. fold z in Hn |- *.
  destruct (sz_uniform z =? 0) eqn:E.
  - split; [left; repeat split; lia|]. repeat split; try lia. assumption.
  - assert (sz_sizes z = []) by (destruct (sz_sizes z); [reflexivity|rewrite lenN_cons in *; lia]).
    split; [right; repeat split; [lia|assumption]|]. rewrite lenN_repeat in *. repeat split; try lia. assumption.
Qed.

Lemma nr_samples_correct tb : consistent tb = true -> trak_nr_samples tb = nsamples tb.
Proof.
  intros H. destruct (stsz_facts tb H) as [[[U [Nn S]]|[U [Sz S]]] [Hn [B _]]];
    unfold trak_nr_samples, stsz_get_nr_samples.
  - destruct (lenN (sz_sizes (t_stsz tb)) =? 0) eqn:E; [lia|]. rewrite u32_small by lia. lia.
  - rewrite Sz, lenN_nil. cbn. lia.
Qed.

Lemma size_correct tb : consistent tb = true -> forall n, 1 <= n <= nsamples tb ->
  exists s, S_size tb n = Some s /\ stsz_get_sample_size (t_stsz tb) n = Ok s.
Proof.
  intros H n Hn. destruct (stsz_facts tb H) as [[[U [Nn S]]|[U [Sz S]]] [HN [B _]]];
    unfold S_size, stsz_get_sample_size; destruct (n =? 0) eqn:E0; try lia; rewrite S.
  - destruct (lenN (sz_sizes (t_stsz tb)) <? n) eqn:E; [lia|].
    destruct (nthN_lt_Some (sz_sizes (t_stsz tb)) (n - 1)) as [s Hs]; [lia|].
    exists s. split; [exact Hs|]. apply idx_m1_Some; [lia|exact Hs].
  - rewrite Sz, lenN_nil. destruct (0 <? n) eqn:E; [|lia].
    rewrite nthN_repeat. destruct (n - 1 <? N.of_nat (N.to_nat (sz_number (t_stsz tb)))) eqn:E1; [|lia]. eauto.
Qed.

(* sum of a sub-list *)
Lemma sum_sizes_loop_ok sizes : forall n nr acc, 1 <= nr -> nr - 1 + N.of_nat n <= lenN sizes ->
  forallb is_u32 sizes = true -> acc + sumN sizes < 18446744073709551616 ->
  sum_sizes_loop sizes n nr acc = Ok (acc + sumN (sublist sizes (nr - 1) (N.of_nat n))) /\
  sumN (sublist sizes (nr - 1) (N.of_nat n)) <= sumN sizes.
Proof.
Abort.
