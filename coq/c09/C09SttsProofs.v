(* C09SttsProofs.v — stts (decode time, duration), stsz (size, total size), stco/co64 (offset). *)
From V.lib Require Import Base.
From V.c09 Require Import C09Model C09Spec C09BaseProofs.

Lemma consistent_parts tb : consistent tb = true ->
  is_u32 (nsamples tb + 1) = true /\ stts_ok tb = true /\ ctts_ok tb = true /\ stsc_ok tb = true /\
  stsz_ok tb = true /\ offsets_ok tb = true /\ stss_ok tb = true /\ sdtp_ok tb = true.
Proof. unfold consistent. intros H. repeat (apply andb_prop in H; destruct H as [H ?]). tauto. Qed.

(* ---------- running sums ---------- *)
Lemma starts_app l1 l2 acc : starts (l1 ++ l2) acc = starts l1 acc ++ starts l2 (acc + sumN l1).
Proof.
  revert acc; induction l1 as [|x t IH]; intros acc; cbn [app starts sumN].
  - rewrite N.add_0_r. reflexivity.
  - rewrite IH, N.add_assoc. reflexivity.
Qed.

Lemma lenN_starts l acc : lenN (starts l acc) = lenN l.
Proof. revert acc; induction l as [|x t IH]; intros acc; cbn [starts]; [reflexivity|]. rewrite !lenN_cons, IH. reflexivity. Qed.

Lemma nthN_starts_repeat d k acc j :
  nthN (starts (repeat d k) acc) j = if j <? N.of_nat k then Some (acc + j * d) else None.
Proof.
  revert acc j; induction k as [|k IH]; intros acc j; cbn [repeat starts nthN].
  - destruct (j <? N.of_nat 0) eqn:E; [lia|reflexivity].
  - destruct (j =? 0) eqn:E0.
    + destruct (j <? N.of_nat (S k)) eqn:E; [|lia]. f_equal. nia.
    + rewrite IH. destruct (j - 1 <? N.of_nat k) eqn:E1, (j <? N.of_nat (S k)) eqn:E2; try reflexivity; try lia.
      f_equal. nia.
Qed.

Lemma sumN_expand_bound cs ds : forallb is_u32 ds = true ->
  sumN (expand_rl cs ds) <= sumN cs * 4294967295.
Proof.
  revert ds; induction cs as [|c cs IH]; intros ds H; [cbn; lia|].
  destruct ds as [|d ds]; [cbn [expand_rl sumN]; lia|].
  cbn [forallb] in H. apply andb_prop in H. destruct H as [Hd H].
  cbn [expand_rl sumN]. rewrite sumN_app, sumN_repeat. specialize (IH ds H). unfold is_u32 in Hd. nia.
Qed.

Lemma lenN_expand cs {A} (vs : list A) : lenN cs = lenN vs -> lenN (expand_rl cs vs) = sumN cs.
Proof.
  revert vs; induction cs as [|c cs IH]; intros vs H; [reflexivity|].
  destruct vs as [|v vs]; [rewrite lenN_cons, lenN_nil in H; lia|].
  cbn [expand_rl sumN]. rewrite lenN_app, lenN_repeat, IH; [lia|]. rewrite !lenN_cons in H. lia.
Qed.

(* ---------- GetDecodeTime ---------- *)
Lemma decode_time_loop_ok cs : forall ds rem acc,
  lenN cs = lenN ds -> rem < sumN cs -> acc + sumN (expand_rl cs ds) < 18446744073709551616 ->
  exists v d, nthN (starts (expand_rl cs ds) acc) rem = Some v /\ nthN (expand_rl cs ds) rem = Some d /\
              decode_time_loop cs ds rem acc = Ok (v, d).
Proof.
  induction cs as [|c cs IH]; intros ds rem acc Hl Hr Hb; [cbn in Hr; lia|].
  destruct ds as [|d ds]; [rewrite lenN_cons, lenN_nil in Hl; lia|].
  rewrite !lenN_cons in Hl. cbn [sumN] in Hr. cbn [expand_rl] in *.
  rewrite sumN_app, sumN_repeat in Hb. rewrite starts_app, sumN_repeat.
  cbn [decode_time_loop]. rewrite !nthN_app, lenN_starts, lenN_repeat.
  destruct (c <=? rem) eqn:E.
  - destruct (rem <? N.of_nat (N.to_nat c)) eqn:E1; [lia|].
    rewrite u64_small by lia.
    destruct (IH ds (rem - c) (acc + c * d)) as [v [d' [H1 [H2 H3]]]]; try lia.
    exists v, d'. replace (N.of_nat (N.to_nat c)) with c by lia.
    replace (acc + N.of_nat (N.to_nat c) * d) with (acc + c * d) by lia. auto.
  - destruct (rem <? N.of_nat (N.to_nat c)) eqn:E1; [|lia].
    rewrite nthN_starts_repeat, nthN_repeat, E1.
    exists (acc + rem * d), d. split; [reflexivity|]. split; [reflexivity|].
    destruct (0 <? rem) eqn:E2.
    + rewrite u64_small by nia. reflexivity.
    + replace rem with 0 by lia. do 2 f_equal. lia.
Qed.

(* ---------- GetDur ---------- *)
Lemma get_dur_loop_ok cs : forall ds rem dur0,
  lenN cs = lenN ds -> rem < sumN cs ->
  exists d, nthN (expand_rl cs ds) rem = Some d /\ get_dur_loop cs ds rem dur0 = Ok d.
Proof.
  induction cs as [|c cs IH]; intros ds rem dur0 Hl Hr; [cbn in Hr; lia|].
  destruct ds as [|d ds]; [rewrite lenN_cons, lenN_nil in Hl; lia|].
  rewrite !lenN_cons in Hl. cbn [sumN] in Hr. cbn [expand_rl get_dur_loop].
  rewrite nthN_app, lenN_repeat.
  destruct (c <=? rem) eqn:E.
  - destruct (rem <? N.of_nat (N.to_nat c)) eqn:E1; [lia|].
    destruct (IH ds (rem - c) d) as [d' [H1 H2]]; try lia.
    exists d'. replace (N.of_nat (N.to_nat c)) with c by lia. auto.
  - destruct (rem <? N.of_nat (N.to_nat c)) eqn:E1; [|lia].
    rewrite nthN_repeat, E1. eauto.
Qed.

Lemma stts_facts tb : consistent tb = true ->
  lenN (t_stts_count tb) = lenN (t_stts_delta tb) /\ sumN (t_stts_count tb) = nsamples tb /\
  nsamples tb < 4294967296 /\ sumN (durs tb) < 18446744073709551616 /\ lenN (durs tb) = nsamples tb.
Proof.
  intros H. destruct (consistent_parts tb H) as [Hn [Hs _]]. unfold stts_ok in Hs.
  repeat (apply andb_prop in Hs; destruct Hs as [Hs ?]).
  unfold is_u32 in Hn.
  assert (L : lenN (t_stts_count tb) = lenN (t_stts_delta tb)) by lia.
  assert (S : sumN (t_stts_count tb) = nsamples tb) by lia.
  repeat split; try lia.
  - unfold durs. pose proof (sumN_expand_bound (t_stts_count tb) (t_stts_delta tb) H1). nia.
  - unfold durs. rewrite lenN_expand by exact L. exact S.
Qed.

Lemma decode_time_correct tb : consistent tb = true -> forall n, 1 <= n <= nsamples tb ->
  exists t d, S_decode_time tb n = Some t /\ S_dur tb n = Some d /\
              stts_get_decode_time (t_stts_count tb) (t_stts_delta tb) n = Ok (t, d).
Proof.
  intros H n Hn. destruct (stts_facts tb H) as [L [S [B [T _]]]].
  unfold S_decode_time, S_dur, stts_get_decode_time. destruct (n =? 0) eqn:E; [lia|].
  destruct (decode_time_loop_ok (t_stts_count tb) (t_stts_delta tb) (n - 1) 0) as [v [d [H1 [H2 H3]]]]; try lia.
  - fold (durs tb). lia.
  - exists v, d. auto.
Qed.

Lemma dur_correct tb : consistent tb = true -> forall n, 1 <= n <= nsamples tb ->
  exists d, S_dur tb n = Some d /\ stts_get_dur (t_stts_count tb) (t_stts_delta tb) n = Ok d.
Proof.
  intros H n Hn. destruct (stts_facts tb H) as [L [S [B [T _]]]].
  unfold S_dur, stts_get_dur. destruct (n =? 0) eqn:E; [lia|].
  destruct (get_dur_loop_ok (t_stts_count tb) (t_stts_delta tb) (n - 1) 0) as [d [H1 H2]]; try lia.
  exists d. auto.
Qed.

(* ---------- stsz ---------- *)
Lemma stsz_facts tb : consistent tb = true ->
  let z := t_stsz tb in
  (sz_uniform z = 0 /\ sz_number z = lenN (sz_sizes z) /\ sizes tb = sz_sizes z \/
   sz_uniform z <> 0 /\ sz_sizes z = [] /\ sizes tb = repeat (sz_uniform z) (N.to_nat (sz_number z)))
  /\ nsamples tb = sz_number z /\ sz_number z < 4294967296 /\ sz_uniform z < 4294967296
  /\ forallb is_u32 (sz_sizes z) = true.
Proof.
  intros H z. destruct (consistent_parts tb H) as [Hn [_ [_ [_ [Hz _]]]]]. unfold stsz_ok in Hz. fold z in Hz.
  repeat (apply andb_prop in Hz; destruct Hz as [Hz ?]). unfold is_u32 in *.
  unfold nsamples, sizes, sizes_of in *. fold z in Hn |- *.
  destruct (sz_uniform z =? 0) eqn:E.
  - split; [left; repeat split; lia|]. repeat split; try lia. assumption.
  - assert (sz_sizes z = []) by (destruct (sz_sizes z); [reflexivity|rewrite lenN_cons in *; lia]).
    split; [right; repeat split; [lia|assumption]|]. rewrite lenN_repeat in *. repeat split; try lia. assumption.
Qed.

Lemma nr_samples_correct tb : consistent tb = true -> trak_nr_samples tb = nsamples tb.
Proof.
  intros H. destruct (stsz_facts tb H) as [[[U [Nn S]]|[U [Sz S]]] [Hn [B _]]];
    unfold trak_nr_samples, stsz_get_nr_samples.
  - destruct (lenN (sz_sizes (t_stsz tb)) =? 0) eqn:E; [lia|]. rewrite u32_small by lia. lia.
  - rewrite Sz, lenN_nil. cbn. lia.
Qed.

Lemma size_correct tb : consistent tb = true -> forall n, 1 <= n <= nsamples tb ->
  exists s, S_size tb n = Some s /\ stsz_get_sample_size (t_stsz tb) n = Ok s.
Proof.
  intros H n Hn. destruct (stsz_facts tb H) as [[[U [Nn S]]|[U [Sz S]]] [HN [B _]]];
    unfold S_size, stsz_get_sample_size; destruct (n =? 0) eqn:E0; try lia; rewrite S.
  - destruct (lenN (sz_sizes (t_stsz tb)) <? n) eqn:E; [lia|].
    destruct (nthN_lt_Some (sz_sizes (t_stsz tb)) (n - 1)) as [s Hs]; [lia|].
    exists s. split; [exact Hs|]. apply idx_m1_Some; [lia|exact Hs].
  - rewrite Sz, lenN_nil. destruct (0 <? n) eqn:E; [|lia].
    rewrite nthN_repeat. destruct (n - 1 <? N.of_nat (N.to_nat (sz_number (t_stsz tb)))) eqn:E1; [|lia]. eauto.
Qed.

(* ---------- GetTotalSampleSize ---------- *)
Lemma skipn_nthN {A} (l : list A) k x : nthN l k = Some x ->
  skipn (N.to_nat k) l = x :: skipn (N.to_nat (k + 1)) l.
Proof.
  revert k; induction l as [|y t IH]; intros k H; [discriminate|].
  cbn [nthN] in H. destruct (k =? 0) eqn:E.
  - injection H as ->. replace k with 0 by lia. reflexivity.
  - replace (N.to_nat k) with (S (N.to_nat (k - 1))) by lia.
    replace (N.to_nat (k + 1)) with (S (N.to_nat (k - 1 + 1))) by lia. cbn [skipn]. apply IH, H.
Qed.

Lemma sublist_S {A} (l : list A) k x n : nthN l k = Some x ->
  sublist l k (N.of_nat (S n)) = x :: sublist l (k + 1) (N.of_nat n).
Proof.
  intros H. unfold sublist. rewrite (skipn_nthN l k x H), !Nat2N.id. reflexivity.
Qed.

Lemma sum_sizes_loop_ok sizes : forall n nr acc, 1 <= nr -> nr - 1 + N.of_nat n <= lenN sizes ->
  acc + sumN (skipn (N.to_nat (nr - 1)) sizes) < 18446744073709551616 ->
  sum_sizes_loop sizes n nr acc = Ok (acc + sumN (sublist sizes (nr - 1) (N.of_nat n))).
Proof.
  induction n as [|n IH]; intros nr acc Hnr Hlen Hb.
  - cbn [sum_sizes_loop]. unfold sublist. cbn [N.of_nat N.to_nat firstn sumN]. f_equal. lia.
  - cbn [sum_sizes_loop]. destruct (nthN_lt_Some sizes (nr - 1)) as [s Hs]; [lia|].
    rewrite (idx_m1_Some _ _ _ Hnr Hs). cbn [rbind].
    rewrite (skipn_nthN _ _ _ Hs) in Hb. cbn [sumN] in Hb.
    rewrite (sublist_S _ _ _ _ Hs). cbn [sumN].
    rewrite u64_small by lia. replace (nr - 1 + 1) with (nr + 1 - 1) in * by lia.
    rewrite IH; [f_equal; lia|lia|lia|lia].
Qed.

Lemma sumN_skipn_le l k : sumN (skipn k l) <= sumN l.
Proof. rewrite <- (firstn_skipn k l) at 2. rewrite sumN_app. lia. Qed.

Lemma skipn_repeat {A} (x : A) m j : skipn j (repeat x m) = repeat x (m - j).
Proof.
  revert j; induction m as [|m IH]; intros j; [destruct j; reflexivity|].
  destruct j as [|j]; [reflexivity|]. cbn [repeat skipn]. rewrite IH. reflexivity.
Qed.

Lemma firstn_repeat' {A} (x : A) m k : firstn k (repeat x m) = repeat x (Nat.min k m).
Proof.
  revert k; induction m as [|m IH]; intros k; [destruct k; reflexivity|].
  destruct k as [|k]; [reflexivity|]. cbn [repeat firstn Nat.min]. rewrite IH. reflexivity.
Qed.

Lemma sizes_bound tb : consistent tb = true -> sumN (sizes tb) < 18446744073709551616.
Proof.
  intros H. destruct (stsz_facts tb H) as [[[U [Nn S]]|[U [Sz S]]] [HN [B [Bu Bs]]]]; rewrite S.
  - assert (forall l, forallb is_u32 l = true -> sumN l <= lenN l * 4294967295) as G.
    { induction l as [|x t IHl]; intros Hf; [cbn; lia|]. cbn [forallb] in Hf. apply andb_prop in Hf.
      destruct Hf as [Hx Ht]. unfold is_u32 in Hx. cbn [sumN]. rewrite lenN_cons. specialize (IHl Ht). lia. }
    specialize (G _ Bs). nia.
  - rewrite sumN_repeat. nia.
Qed.

Lemma total_size_correct tb : consistent tb = true -> forall a b, 1 <= a -> b <= nsamples tb ->
  stsz_get_total_sample_size (t_stsz tb) a b = Ok (S_total_size tb a b).
Proof.
  intros H a b Ha Hb. pose proof (sizes_bound tb H) as Hsb.
  destruct (stsz_facts tb H) as [[[U [Nn S]]|[U [Sz S]]] [HN [B [Bu Bs]]]];
    unfold stsz_get_total_sample_size, S_total_size; rewrite S in *;
    destruct (a =? 0) eqn:E0; try lia; destruct (sz_number (t_stsz tb) <? b) eqn:E1; try lia; cbn [orb].
  - destruct (b <? a) eqn:E2.
    + replace (b + 1 - a) with 0 by lia. reflexivity.
    + rewrite U. cbn [N.eqb negb].
      rewrite (sum_sizes_loop_ok (sz_sizes (t_stsz tb)) (N.to_nat (b + 1 - a)) a 0); try lia.
      * rewrite N2Nat.id. reflexivity.
      * pose proof (sumN_skipn_le (sz_sizes (t_stsz tb)) (N.to_nat (a - 1))). lia.
  - destruct (b <? a) eqn:E2.
    + replace (b + 1 - a) with 0 by lia. reflexivity.
    + destruct (sz_uniform (t_stsz tb) =? 0) eqn:E3; [lia|]. cbn [negb].
      unfold sublist. rewrite skipn_repeat, firstn_repeat', sumN_repeat.
      rewrite u64_small by nia. f_equal. nia.
Qed.
