(* C09TimeProofs.v — SttsBox.GetSampleNrAtTime: first sample starting at or after a time. *)
From V.lib Require Import Base.
From V.c09 Require Import C09Model C09Spec C09BaseProofs C09SttsProofs C09CttsProofs.

Definition cnt_lt (t : N) (l : list N) : N := lenN (filter (fun s => s <? t) l).

Lemma cnt_lt_app t l1 l2 : cnt_lt t (l1 ++ l2) = cnt_lt t l1 + cnt_lt t l2.
Proof. unfold cnt_lt. rewrite filter_app, lenN_app. reflexivity. Qed.

(* all start times are >= the initial accumulator *)
Lemma cnt_lt_starts_ge t l acc : t <= acc -> cnt_lt t (starts l acc) = 0.
Proof.
  revert acc; induction l as [|d r IH]; intros acc H; [reflexivity|].
  unfold cnt_lt in *. cbn [starts filter]. destruct (acc <? t) eqn:E; [lia|]. apply IH. lia.
Qed.

(* arithmetic progression: k' characterised by x <= k'*d and (k'-1)*d < x *)
Lemma cnt_lt_repeat d : 0 < d -> forall c acc t k',
  t - acc <= k' * d -> (1 <= k' -> (k' - 1) * d < t - acc) ->
  cnt_lt t (starts (repeat d c) acc) = N.min (N.of_nat c) k'.
Proof.
  intros Hd. induction c as [|c IH]; intros acc t k' H1 H2; [cbn; lia|].
  unfold cnt_lt in *. cbn [repeat starts filter]. destruct (acc <? t) eqn:E.
  - rewrite lenN_cons. assert (1 <= k') by nia.
    rewrite (IH (acc + d) t (k' - 1)); [lia| |].
    + nia.
    + intros Hk. specialize (H2 ltac:(lia)). nia.
  - assert (k' = 0) by (destruct (N.eq_dec k' 0); [assumption|specialize (H2 ltac:(lia)); lia]).
    subst k'. rewrite (IH (acc + d) t 0); [lia|lia|lia].
Qed.

Lemma ceil_char rel d : 0 < d ->
  let k' := if rel mod d =? 0 then rel / d else rel / d + 1 in
  rel <= k' * d /\ (1 <= k' -> (k' - 1) * d < rel).
Proof.
  intros Hd. pose proof (N.div_mod rel d ltac:(lia)) as E. pose proof (N.mod_lt rel d ltac:(lia)) as L.
  remember (rel / d) as k. remember (rel mod d) as r. cbn zeta.
  destruct (r =? 0) eqn:Er.
  - split; [nia|]. intros. nia.
  - split; [nia|]. intros. replace (k + 1 - 1) with k by lia. nia.
Qed.

(* all durations positive *)
Lemma sumN_repeat_pos d c : 0 < d -> sumN (repeat d c) = N.of_nat c * d.
Proof. intros. apply sumN_repeat. Qed.

(* the loop *)
Lemma sat_loop_ok cs : forall ds t accT accN,
  lenN cs = lenN ds -> deltas_positive cs ds = true -> forallb is_u32 cs = true -> forallb is_u32 ds = true ->
  accT <= t -> accT + sumN (expand_rl cs ds) < 18446744073709551616 -> accN + sumN cs + 1 < 4294967296 ->
  if t <? accT + sumN (expand_rl cs ds) then
    exists x y, sample_at_time_loop cs ds t accT accN =
                Ok (Some (accN + 1 + cnt_lt t (starts (expand_rl cs ds) accT)), x, y)
  else sample_at_time_loop cs ds t accT accN = Ok (None, accT + sumN (expand_rl cs ds), accN + sumN cs).
Proof.
  induction cs as [|c cs IH]; intros ds t accT accN Hl Hp Hc32 Hd32 Ht Hb64 Hb32.
  - cbn [expand_rl sumN sample_at_time_loop]. destruct (t <? accT + 0) eqn:E; [lia|].
    f_equal. apply pair_equal_spec; split; [apply pair_equal_spec; split; [reflexivity|lia]|lia].
  - destruct ds as [|d ds]; [rewrite lenN_cons, lenN_nil in Hl; lia|].
    rewrite !lenN_cons in Hl. cbn [forallb] in Hc32, Hd32.
    apply andb_prop in Hc32. destruct Hc32 as [Hc Hc32]. apply andb_prop in Hd32. destruct Hd32 as [Hd Hd32].
    unfold is_u32 in Hc, Hd.
    cbn [expand_rl sumN sample_at_time_loop] in *. rewrite sumN_app, sumN_repeat in *.
    replace (N.of_nat (N.to_nat c)) with c in * by lia.
    rewrite (u64_small (accT + c * d)) by lia.
    destruct (t <? accT + c * d) eqn:E.
    + (* found in this entry *)
      assert (Hdpos : 0 < d) by nia.
      destruct (t <? accT + (c * d + sumN (expand_rl cs ds))) eqn:E2; [|lia].
      destruct (d =? 0) eqn:Ed; [lia|].
      rewrite sub64_small by lia.
      destruct (ceil_char (t - accT) d Hdpos) as [K1 K2].
      set (k' := if (t - accT) mod d =? 0 then (t - accT) / d else (t - accT) / d + 1) in *.
      assert (Hk'c : k' <= c).
      { destruct (N.le_gt_cases k' c); [assumption|]. specialize (K2 ltac:(lia)). nia. }
      assert (Hk' : (if (t - accT) mod d =? 0 then (t - accT) / d else u64 ((t - accT) / d + 1)) = k').
      { unfold k'. destruct ((t - accT) mod d =? 0); [reflexivity|]. apply u64_small.
        pose proof (N.div_le_upper_bound (t - accT) d (t - accT) ltac:(lia) ltac:(nia)). lia. }
      rewrite Hk'. rewrite (u32_small k') by lia. rewrite u32_small by lia.
      rewrite starts_app, cnt_lt_app, sumN_repeat.
      rewrite (cnt_lt_repeat d Hdpos (N.to_nat c) accT t k' K1 K2).
      rewrite (cnt_lt_starts_ge t) by lia.
      replace (N.min (N.of_nat (N.to_nat c)) k' + 0) with k' by lia.
      replace (accN + k' + 1) with (accN + 1 + k') by lia. do 2 eexists; reflexivity.
    + (* continue *)
      rewrite (u32_small (accN + c)) by lia.
      replace (accT + d * c) with (accT + c * d) by lia. rewrite (u64_small (accT + c * d)) by lia.
      cbn [deltas_positive] in Hp.
      destruct cs as [|c2 cs'].
      * (* last entry *)
        destruct ds as [|d2 ds']; [|rewrite lenN_cons, lenN_nil in Hl; lia].
        cbn [expand_rl sumN sample_at_time_loop]. 
        destruct (t <? accT + (c * d + 0)) eqn:E2; [lia|]. f_equal. apply pair_equal_spec; split; [apply pair_equal_spec; split; [reflexivity|lia]|lia].
      * apply andb_prop in Hp. destruct Hp as [Hdpos Hp].
        specialize (IH ds t (accT + c * d) (accN + c) ltac:(lia) Hp Hc32 Hd32 ltac:(lia) ltac:(lia)
                       ltac:(cbn [sumN] in *; lia)).
        replace (accT + c * d + sumN (expand_rl (c2 :: cs') ds)) with
            (accT + (c * d + sumN (expand_rl (c2 :: cs') ds))) in IH by lia.
        destruct (t <? accT + (c * d + sumN (expand_rl (c2 :: cs') ds))) eqn:E2.
        -- destruct IH as [x [y IH]]. rewrite IH. exists x, y. do 3 f_equal.
           rewrite starts_app, cnt_lt_app, sumN_repeat.
           replace (N.of_nat (N.to_nat c)) with c by lia.
           destruct (ceil_char (t - accT) d ltac:(lia)) as [K1 K2].
           remember (if (t - accT) mod d =? 0 then (t - accT) / d else (t - accT) / d + 1) as k' eqn:Ek.
           rewrite (cnt_lt_repeat d ltac:(lia) (N.to_nat c) accT t k' K1 K2).
           assert (c <= k').
           { destruct (N.le_gt_cases c k') as [L|L]; [exact L|]. exfalso.
             pose proof (N.mul_le_mono_r (k' + 1) c d ltac:(lia)). lia. }
           f_equal. lia.
        -- rewrite IH. f_equal. apply pair_equal_spec; split; [apply pair_equal_spec; split; [reflexivity|lia]|cbn [sumN]; lia].
Qed.

(* ---------- after the loop: the last entry ---------- *)
Lemma last_app_ne {A} (l1 l2 : list A) d : l2 <> [] -> last (l1 ++ l2) d = last l2 d.
Proof.
  intros H. induction l1 as [|a t IH]; [reflexivity|].
  cbn [app]. destruct (t ++ l2) as [|a0 l] eqn:E.
  - destruct t; [cbn in E; congruence|discriminate].
  - cbn [last]. exact IH.
Qed.

Lemma last_repeat_ne d c : last (repeat d c) 1 <> 0 \/ (d = 0 /\ c <> 0%nat).
Proof.
  induction c as [|c IH]; [left; cbn; lia|].
  destruct (N.eq_dec d 0) as [->|Hd]; [right; split; [reflexivity|discriminate]|].
  left. cbn [repeat]. destruct c as [|c']; [cbn; exact Hd|].
  destruct IH as [IH|[IH _]]; [|contradiction]. exact IH.
Qed.

Lemma last_cons_ne {A} (a : A) l d : l <> [] -> last (a :: l) d = last l d.
Proof. destruct l; [congruence|reflexivity]. Qed.

(* every delta positive (last delta non-zero): the last duration is not 0 *)
Lemma last_expand_nonzero cs : forall ds, lenN cs = lenN ds -> deltas_positive cs ds = true ->
  last ds 0 <> 0 -> last (expand_rl cs ds) 1 <> 0.
Proof.
  induction cs as [|c cs IH]; intros ds Hl Hp Hlast; [cbn; lia|].
  destruct ds as [|d ds]; [rewrite lenN_cons, lenN_nil in Hl; lia|].
  rewrite !lenN_cons in Hl. cbn [expand_rl deltas_positive] in *.
  destruct cs as [|c2 cs'].
  - destruct ds as [|d2 ds']; [|rewrite lenN_cons, lenN_nil in Hl; lia].
    cbn [expand_rl last] in *. rewrite app_nil_r.
    destruct (last_repeat_ne d (N.to_nat c)) as [G|[G _]]; [exact G|contradiction].
  - apply andb_prop in Hp. destruct Hp as [Hd Hp].
    destruct ds as [|d2 ds']; [rewrite lenN_cons, lenN_nil in Hl; lia|].
    rewrite last_cons_ne in Hlast by discriminate.
    specialize (IH (d2 :: ds') ltac:(lia) Hp Hlast).
    destruct (expand_rl (c2 :: cs') (d2 :: ds')) as [|x r] eqn:E.
    + rewrite app_nil_r. destruct (last_repeat_ne d (N.to_nat c)) as [G|[G _]]; [exact G|lia].
    + rewrite last_app_ne by discriminate. exact IH.
Qed.

(* last delta zero: the last entry is a single sample and the last duration is 0 *)
Lemma last_zero cs : forall ds, lenN cs = lenN ds -> cs <> [] -> deltas_positive cs ds = true ->
  last ds 0 = 0 -> last cs 0 = 1 /\ last (expand_rl cs ds) 1 = 0.
Proof.
  induction cs as [|c cs IH]; intros ds Hl Hne Hp Hlast; [congruence|].
  destruct ds as [|d ds]; [rewrite lenN_cons, lenN_nil in Hl; lia|].
  rewrite !lenN_cons in Hl. cbn [expand_rl deltas_positive] in *.
  destruct cs as [|c2 cs'].
  - destruct ds as [|d2 ds']; [|rewrite lenN_cons, lenN_nil in Hl; lia].
    cbn [last] in Hlast. subst d. assert (c = 1) by lia. subst c. cbn. split; reflexivity.
  - apply andb_prop in Hp. destruct Hp as [Hd Hp].
    destruct ds as [|d2 ds']; [rewrite lenN_cons, lenN_nil in Hl; lia|].
    rewrite last_cons_ne in Hlast by discriminate.
    destruct (IH (d2 :: ds') ltac:(lia) ltac:(discriminate) Hp Hlast) as [A B].
    rewrite last_cons_ne by discriminate. split; [exact A|].
    destruct (expand_rl (c2 :: cs') (d2 :: ds')) as [|x r] eqn:E; [cbn in B; lia|].
    rewrite last_app_ne by discriminate. exact B.
Qed.

Lemma sample_at_time_correct tb : consistent tb = true ->
  deltas_positive (t_stts_count tb) (t_stts_delta tb) = true -> 1 <= nsamples tb ->
  forall t, stts_get_sample_nr_at_time (t_stts_count tb) (t_stts_delta tb) t =
            match S_sample_at_time tb t with Some nr => Ok nr | None => Err end.
Proof.
  intros H Hp HN1 t. destruct (stts_facts tb H) as [L [S [B [T LD]]]].
  destruct (consistent_parts tb H) as [Hn [Hs _]]. unfold stts_ok in Hs.
  apply andb_prop in Hs. destruct Hs as [Hs _]. apply andb_prop in Hs. destruct Hs as [Hs Hd32].
  apply andb_prop in Hs. destruct Hs as [_ Hc32]. unfold is_u32 in Hn.
  pose proof (sat_loop_ok (t_stts_count tb) (t_stts_delta tb) t 0 0 L Hp Hc32 Hd32 ltac:(lia)) as Q.
  fold (durs tb) in Q. specialize (Q ltac:(lia) ltac:(lia)).
  unfold stts_get_sample_nr_at_time, S_sample_at_time. cbn [N.add] in Q.
  destruct (t <? sumN (durs tb)) eqn:E.
  - destruct Q as [x [y Q]]. rewrite Q. cbn [rbind]. unfold cnt_lt. reflexivity.
  - rewrite Q. cbn [rbind].
    assert (Hne : (t_stts_count tb) <> []) by (destruct (t_stts_count tb); [cbn in S; lia|discriminate]).
    assert (Hned : (t_stts_delta tb) <> []) by (destruct (t_stts_delta tb); [destruct (t_stts_count tb); [congruence|rewrite lenN_cons, lenN_nil in L; lia]|discriminate]).
    assert (Hlc : 1 <= lenN (t_stts_count tb)) by (destruct (t_stts_count tb); [congruence|rewrite lenN_cons; lia]).
    pose proof (nthN_last (t_stts_delta tb) 0 Hned) as Hld. pose proof (nthN_last (t_stts_count tb) 0 Hne) as Hlc'.
    rewrite <- L in Hld.
    rewrite (idx_m1_Some (t_stts_delta tb) (lenN (t_stts_count tb)) _ Hlc Hld). cbn [rbind].
    destruct (last (t_stts_delta tb) 0 =? 0) eqn:Ez; cbn [negb].
    + destruct (last_zero (t_stts_count tb) (t_stts_delta tb) L Hne Hp ltac:(lia)) as [A Bz].
      rewrite (idx_m1_Some (t_stts_count tb) (lenN (t_stts_count tb)) _ Hlc Hlc'). cbn [rbind]. rewrite A. cbn [N.eqb Pos.eqb andb].
      fold (durs tb) in Bz. rewrite Bz. cbn [N.eqb andb].
      destruct (t =? sumN (durs tb)) eqn:Et; [|reflexivity]. f_equal. lia.
    + pose proof (last_expand_nonzero (t_stts_count tb) (t_stts_delta tb) L Hp ltac:(lia)) as G. fold (durs tb) in G.
      destruct (last (durs tb) 1 =? 0) eqn:E0; [lia|]. reflexivity.
Qed.
