(* C09CttsProofs.v — ctts (composition offset through the cumulative EndSampleNr + binary search) and
   stss (sync lookup by binary search). *)
From V.lib Require Import Base.
From V.c09 Require Import C09Model C09Spec C09BaseProofs C09SttsProofs.

Lemma sorted_le_tail a t : sorted_le (a :: t) = true -> sorted_le t = true.
Proof. cbn [sorted_le]. destruct t as [|b t']; [reflexivity|]. intros H. apply andb_prop in H. tauto. Qed.

Lemma sorted_le_nth l : sorted_le l = true -> forall i j x y, i <= j ->
  nthN l i = Some x -> nthN l j = Some y -> x <= y.
Proof.
  induction l as [|a t IH]; intros Hs i j x y Hij Hi Hj; [discriminate|].
  cbn [nthN] in Hi, Hj. destruct (j =? 0) eqn:Ej.
  - destruct (i =? 0) eqn:Ei; [|lia]. injection Hi as <-. injection Hj as <-. lia.
  - destruct (i =? 0) eqn:Ei.
    + injection Hi as <-. destruct t as [|b t']; [discriminate|].
      assert (a <= b) by (cbn [sorted_le] in Hs; apply andb_prop in Hs; lia).
      specialize (IH (sorted_le_tail _ _ Hs) 0 (j - 1) b y ltac:(lia) eq_refl Hj). lia.
    + apply (IH (sorted_le_tail _ _ Hs) (i - 1) (j - 1)); [lia|exact Hi|exact Hj].
Qed.

Lemma sorted_lt_le l : sorted_lt l = true -> sorted_le l = true.
Proof.
  induction l as [|a t IH]; [reflexivity|]. cbn [sorted_lt sorted_le]. destruct t as [|b t']; [reflexivity|].
  intros H. apply andb_prop in H. destruct H as [H1 H2]. rewrite (IH H2). cbn [andb].
  destruct (a <=? b) eqn:E; [reflexivity|lia].
Qed.

(* position j of the expansion of the count differences belongs to entry k iff End[k] <= j + End[0] < End[k+1] *)
Lemma expand_diffs_nth {A} ends : sorted_le ends = true -> forall (offs : list A) e0 k lo hi x j,
  lenN ends = lenN offs + 1 -> nthN ends 0 = Some e0 ->
  nthN ends k = Some lo -> nthN ends (k + 1) = Some hi -> nthN offs k = Some x ->
  lo <= j + e0 < hi -> nthN (expand_rl (diffs ends) offs) j = Some x.
Proof.
  induction ends as [|a t IH]; intros Hs offs e0 k lo hi x j Hl H0 Hlo Hhi Hx Hj; [discriminate|].
  cbn [nthN N.eqb] in H0. injection H0 as <-.
  destruct t as [|b t'].
  - rewrite nthN_S in Hhi. discriminate.
  - destruct offs as [|o offs']; [rewrite !lenN_cons, lenN_nil in Hl; lia|].
    cbn [diffs expand_rl]. rewrite nthN_app, lenN_repeat.
    assert (Hab : a <= b) by (cbn [sorted_le] in Hs; apply andb_prop in Hs; lia).
    cbn [nthN] in Hlo, Hx. rewrite nthN_S in Hhi.
    destruct (k =? 0) eqn:Ek.
    + injection Hlo as <-. injection Hx as <-. replace k with 0 in Hhi by lia. cbn [nthN N.eqb] in Hhi.
      injection Hhi as <-. destruct (j <? N.of_nat (N.to_nat (b - a))) eqn:E; [|lia].
      rewrite nthN_repeat, E. reflexivity.
    + pose proof (sorted_le_nth _ (sorted_le_tail _ _ Hs) 0 (k - 1) b lo ltac:(lia) eq_refl Hlo).
      destruct (j <? N.of_nat (N.to_nat (b - a))) eqn:E; [lia|].
      apply (IH (sorted_le_tail _ _ Hs) offs' b (k - 1) lo hi x); try assumption.
      * rewrite !lenN_cons in *. lia.
      * reflexivity.
      * replace (k - 1 + 1) with k by lia. exact Hhi.
      * lia.
Qed.

Lemma nthN_last {A} (l : list A) d : l <> [] -> nthN l (lenN l - 1) = Some (last l d).
Proof.
  induction l as [|a t IH]; intros H; [congruence|].
  destruct t as [|b t'].
  - reflexivity.
  - rewrite lenN_cons. cbn [nthN]. destruct (1 + lenN (b :: t') - 1 =? 0) eqn:E; [rewrite lenN_cons in E; lia|].
    replace (1 + lenN (b :: t') - 1 - 1) with (lenN (b :: t') - 1) by lia.
    change (last (a :: b :: t') d) with (last (b :: t') d). apply IH. discriminate.
Qed.

Lemma existsb_nthN_true {A} (f : A -> bool) l k v : nthN l k = Some v -> f v = true -> existsb f l = true.
Proof.
  revert k; induction l as [|a t IH]; intros k H Hf; [discriminate|].
  cbn [nthN] in H. cbn [existsb]. destruct (k =? 0).
  - injection H as ->. rewrite Hf. reflexivity.
  - rewrite (IH _ H Hf). apply orb_true_r.
Qed.

Lemma existsb_nthN_false {A} (f : A -> bool) l :
  (forall k v, nthN l k = Some v -> f v = false) -> existsb f l = false.
Proof.
  induction l as [|a t IH]; intros H; [reflexivity|]. cbn [existsb].
  rewrite (H 0 a eq_refl). cbn [orb]. apply IH. intros k v Hk. apply (H (k + 1) v). rewrite nthN_S. exact Hk.
Qed.

Lemma lt_prefix_true l nr : sorted_le l = true -> prefix_true (fun v => v <? nr) l.
Proof.
  intros Hs i j vi vj Hij Hi Hj Hg. pose proof (sorted_le_nth l Hs i j vi vj Hij Hi Hj). lia.
Qed.

(* ---------- GetCompositionTimeOffset ---------- *)
Lemma cto_correct tb c : consistent tb = true -> t_ctts tb = Some c -> forall n, 1 <= n <= nsamples tb ->
  exists x, S_cto c n = Some x /\ ctts_get_cto c n = Ok x.
Proof.
  intros H Hc n Hn. destruct (consistent_parts tb H) as [_ [_ [Hk _]]]. unfold ctts_ok in Hk. rewrite Hc in Hk.
  apply andb_prop in Hk. destruct Hk as [Hk Hlast].
  apply andb_prop in Hk. destruct Hk as [Hk Hsort].
  apply andb_prop in Hk. destruct Hk as [Hlen Hhd].
  assert (Hne : ct_end c <> []) by (destruct (ct_end c); [rewrite lenN_nil in Hlen; lia|discriminate]).
  assert (H0 : nthN (ct_end c) 0 = Some 0).
  { destruct (ct_end c) as [|a t]; [congruence|]. cbn [hd] in Hhd. cbn [nthN N.eqb]. f_equal. lia. }
  pose proof (nthN_last (ct_end c) 0 Hne) as HL. replace (last (ct_end c) 0) with (nsamples tb) in HL by lia.
  destruct (bsearch_spec (fun v => v <? n) (ct_end c) (lt_prefix_true _ n Hsort) (bsearch_fuel (ct_end c)) 0
                         (lenN (ct_end c))) as [r [Hr [Hb [H1 H2]]]]; [lia|lia|apply bsearch_fuel_ok; lia|].
  assert (R1 : 1 <= r).
  { destruct (N.eq_dec r 0) as [->|]; [|lia]. specialize (H2 0 0 ltac:(lia) H0). lia. }
  assert (R2 : r <= lenN (ct_end c) - 1).
  { destruct (N.eq_dec r (lenN (ct_end c))) as [->|]; [|lia].
    specialize (H1 (lenN (ct_end c) - 1) (nsamples tb) ltac:(lia) HL). lia. }
  destruct (nthN_lt_Some (ct_end c) (r - 1)) as [lo Hlo]; [lia|].
  destruct (nthN_lt_Some (ct_end c) r) as [hi Hhi]; [lia|].
  destruct (nthN_lt_Some (ct_off c) (r - 1)) as [x Hx]; [lia|].
  specialize (H1 (r - 1) lo ltac:(lia) Hlo). specialize (H2 r hi ltac:(lia) Hhi).
  exists x. unfold S_cto, ctts_get_cto, ctos_of. destruct (n =? 0) eqn:E0; [lia|]. split.
  - apply (expand_diffs_nth (ct_end c) Hsort (ct_off c) 0 (r - 1) lo hi x (n - 1)); try assumption; try lia.
    replace (r - 1 + 1) with r by lia. exact Hhi.
  - rewrite Hr. cbn [rbind]. apply idx_m1_Some; [lia|exact Hx].
Qed.

(* ---------- IsSyncSample ---------- *)
Lemma is_sync_correct l n : sorted_le l = true -> stss_is_sync l n = Ok (S_is_sync l n).
Proof.
  intros Hsort. unfold stss_is_sync, S_is_sync.
  destruct (bsearch_spec (fun v => v <? n) l (lt_prefix_true _ n Hsort) (bsearch_fuel l) 0 (lenN l))
    as [r [Hr [Hb [H1 H2]]]]; [lia|lia|apply bsearch_fuel_ok; lia|].
  rewrite Hr. cbn [rbind]. destruct (r <? lenN l) eqn:E.
  - destruct (nthN_lt_Some l r) as [v Hv]; [lia|]. rewrite (idx_Some _ _ _ Hv). cbn [rbind]. f_equal.
    destruct (v =? n) eqn:Ev.
    + symmetry. apply (existsb_nthN_true _ l r v Hv). lia.
    + symmetry. apply existsb_nthN_false. intros k w Hk.
      specialize (H2 r v ltac:(lia) Hv).
      destruct (N.lt_ge_cases k r) as [L|L].
      * specialize (H1 k w ltac:(lia) Hk). lia.
      * pose proof (sorted_le_nth l Hsort r k v w L Hv Hk). lia.
  - f_equal. symmetry. apply existsb_nthN_false. intros k w Hk. pose proof (nthN_Some_lt _ _ _ Hk).
    specialize (H1 k w ltac:(lia) Hk). lia.
Qed.

Lemma is_sync_correct_tb : forall tb l, consistent tb = true -> t_stss tb = Some l -> forall n,
  stss_is_sync l n = Ok (S_is_sync l n).
Proof.
  intros tb l H Hl n. apply is_sync_correct. apply sorted_lt_le.
  destruct (consistent_parts tb H) as [_ [_ [_ [_ [_ [_ [Hs _]]]]]]]. unfold stss_ok in Hs. rewrite Hl in Hs.
  apply andb_prop in Hs. tauto.
Qed.
