(* C09BuildStscProofs.v — StscBox.AddEntry / SetSingleSampleDescriptionID as a state machine: after ANY
   history of calls (from an empty box or from a decoded one) the box — FirstSampleNr cache and the
   single/slice representation of the description ids included — is the closed form `stsc_of_table` of the
   table the history describes, which is also what DecodeStscSR builds from that table. *)
From V.lib Require Import Base.
From V.c09 Require Import C09Model C09Spec C09BaseProofs C09SttsProofs C09StscProofs C09CacheProofs C09BuildModel C09BuildCttsProofs.

(* ---------- lists ---------- *)
Lemma last_opt_nil : last_opt [] = None.
Proof. reflexivity. Qed.

Lemma last_opt_cons e es : last_opt (e :: es) = match last_opt es with Some p => Some p | None => Some e end.
Proof.
  unfold last_opt. cbn [rev]. destruct (rev es) as [|p q]; reflexivity.
Qed.

Lemma rev_last_opt es : rev es = match last_opt es with None => [] | Some p => p :: tl (rev es) end.
Proof. unfold last_opt. destruct (rev es); reflexivity. Qed.

Lemma forallb_eq_repeat a l : forallb (N.eqb a) l = true -> l = repeat a (length l).
Proof.
  induction l as [|x t IH]; intros H; [reflexivity|]. cbn [forallb] in H. apply andb_prop in H. destruct H as [H1 H2].
  cbn [length repeat]. f_equal; [lia|apply IH, H2].
Qed.

Lemma forallb_eq_repeat_true a k : forallb (N.eqb a) (repeat a k) = true.
Proof. induction k as [|k IH]; [reflexivity|]. cbn [repeat forallb]. rewrite N.eqb_refl, IH. reflexivity. Qed.

Lemma updN_app_at (l1 : list N) x l2 v : updN (l1 ++ x :: l2) (lenN l1) v = l1 ++ v :: l2.
Proof.
  induction l1 as [|a t IH]; [reflexivity|].
  cbn [app updN]. rewrite lenN_cons. destruct (1 + lenN t =? 0) eqn:E; [lia|].
  replace (1 + lenN t - 1) with (lenN t) by lia. rewrite IH. reflexivity.
Qed.

(* ---------- the closed form ---------- *)
Definition acc32 (prev : option stsc_entry) (fc : N) : N :=
  match prev with
  | None => 1
  | Some p => u32 (first_sample p + u32 (sub32 fc (first_chunk p) * spc p))
  end.

Definition lastp (prev : option stsc_entry) (es : list stsc_entry) : option stsc_entry :=
  match last_opt es with Some p => Some p | None => prev end.

Lemma entries32_from_snoc raw fc sp sdi : forall prev,
  entries32_from prev (raw ++ [(fc, sp, sdi)]) =
  entries32_from prev raw ++ [mkEntry fc sp (acc32 (lastp prev (entries32_from prev raw)) fc)].
Proof.
  induction raw as [|[[fc1 sp1] sdi1] t IH]; intros prev.
  - reflexivity.
  - cbn [app entries32_from]. rewrite IH. cbn [app]. f_equal. f_equal. f_equal. f_equal.
    unfold lastp. rewrite last_opt_cons. destruct (last_opt _); reflexivity.
Qed.

Lemma length_entries32 raw : forall prev, length (entries32_from prev raw) = length raw.
Proof. induction raw as [|[[fc sp] sdi] t IH]; intros prev; [reflexivity|]. cbn [entries32_from length]. rewrite IH. reflexivity. Qed.

Lemma entries32_map_ids x raw : forall prev,
  entries32_from prev (map (fun r : N * N * N => (fst r, x)) raw) = entries32_from prev raw.
Proof.
  induction raw as [|[[fc sp] sdi] t IH]; intros prev; [reflexivity|].
  cbn [map fst entries32_from]. rewrite IH. reflexivity.
Qed.

Lemma sdis_map_ids x raw : sdis (map (fun r : N * N * N => (fst r, x)) raw) = repeat x (length raw).
Proof. unfold sdis. induction raw as [|r t IH]; [reflexivity|]. cbn [map snd length repeat]. rewrite IH. reflexivity. Qed.

Lemma sdis_snoc raw r : sdis (raw ++ [r]) = sdis raw ++ [snd r].
Proof. unfold sdis. rewrite map_app. reflexivity. Qed.

(* ---------- the two representations of the id column ---------- *)
Lemma forallb_nz_app l1 l2 : forallb nz (l1 ++ l2) = forallb nz l1 && forallb nz l2.
Proof. apply forallb_app. Qed.

Lemma ids_repr_cases l : l <> [] -> forallb nz l = true ->
  (exists a, a <> 0 /\ ids_repr l = (a, []) /\ l = repeat a (length l) /\
             forall s, ids_repr (l ++ [s]) = if s =? a then (a, []) else (0, l ++ [s])) \/
  (ids_repr l = (0, l) /\ forall s, ids_repr (l ++ [s]) = (0, l ++ [s])).
Proof.
  intros Hne Hnz. destruct l as [|a t]; [congruence|].
  cbn [forallb] in Hnz. apply andb_prop in Hnz. destruct Hnz as [Ha _]. unfold nz in Ha.
  unfold ids_repr. cbn [app]. destruct (forallb (N.eqb a) t) eqn:E.
  - left. exists a. split; [lia|]. split; [reflexivity|]. split.
    + cbn [length repeat]. f_equal. apply forallb_eq_repeat, E.
    + intros s. rewrite forallb_app, E. cbn [forallb andb]. rewrite (N.eqb_sym a s).
      destruct (s =? a); reflexivity.
  - right. split; [reflexivity|]. intros s. rewrite forallb_app, E. reflexivity.
Qed.

Lemma last_opt_Some (es : list stsc_entry) : es <> [] -> exists p, last_opt es = Some p.
Proof.
  intros H. unfold last_opt. destruct (rev es) as [|p q] eqn:E; [|eauto].
  apply (f_equal (@length _)) in E. rewrite rev_length in E. destruct es; [congruence|discriminate].
Qed.

Lemma entries32_nonempty raw prev : raw <> [] -> entries32_from prev raw <> [].
Proof. destruct raw as [|[[fc sp] sdi] t]; [congruence|]. intros _. cbn [entries32_from]. discriminate. Qed.

(* one AddEntry on the box of a non-empty table *)
Lemma add_entry_table raw fc sp sdi : raw <> [] -> forallb nz (sdis raw) = true -> sdi <> 0 ->
  stsc_add_entry (stsc_of_table raw) fc sp sdi = Ok (stsc_of_table (raw ++ [(fc, sp, sdi)])).
Proof.
  intros Hne Hnz Hs.
  unfold stsc_of_table. rewrite entries32_from_snoc, sdis_snoc. cbn [snd].
  unfold stsc_add_entry. destruct (sdi =? 0) eqn:Esdi0; [lia|]. cbn [sc_entries sc_single sc_ids].
  destruct (last_opt_Some (entries32_from None raw) (entries32_nonempty raw None Hne)) as [p Hp].
  rewrite rev_last_opt, Hp. unfold lastp. rewrite Hp. unfold acc32.
  assert (Hne2 : sdis raw <> []) by (unfold sdis; destruct raw; [congruence|discriminate]).
  assert (HL : N.to_nat (lenN (entries32_from None raw)) = length (sdis raw)).
  { unfold lenN, sdis. rewrite Nat2N.id, length_entries32, map_length. reflexivity. }
  destruct (ids_repr_cases (sdis raw) Hne2 Hnz) as [[a [Ha [Hr [Hrep Hsn]]]] | [Hr Hsn]]; rewrite Hr, Hsn; cbn [fst snd].
  - destruct (sdi =? a) eqn:E; cbn [negb].
    + reflexivity.
    + destruct (a =? 0) eqn:E0; [lia|]. cbn [negb]. rewrite HL, <- Hrep. reflexivity.
  - destruct (sdi =? 0) eqn:E; [lia|]. cbn [negb N.eqb]. reflexivity.
Qed.

(* AddEntry on a box without entries (whatever its single id) *)
Lemma add_entry_first b fc sp sdi : sc_entries b = [] -> sc_ids b = [] -> sdi <> 0 ->
  stsc_add_entry b fc sp sdi = if fc =? 1 then Ok (stsc_of_table [(fc, sp, sdi)]) else Err.
Proof.
  intros He Hi Hs. unfold stsc_add_entry. destruct (sdi =? 0) eqn:Esdi0; [lia|]. rewrite He, Hi. cbn [rev].
  destruct (fc =? 1) eqn:E; cbn [negb]; [|reflexivity].
  unfold stsc_of_table, sdis, ids_repr. cbn. reflexivity.
Qed.

(* SetSingleSampleDescriptionID on the box of a non-empty table *)
Lemma add_entry_zero b fc sp : stsc_add_entry b fc sp 0 = Err.
Proof. reflexivity. Qed.

Lemma set_single_table raw x : raw <> [] -> x <> 0 ->
  stsc_set_single (stsc_of_table raw) x = stsc_of_table (map (fun r : N * N * N => (fst r, x)) raw).
Proof.
  intros Hne Hx. unfold stsc_set_single. destruct (x =? 0) eqn:Ex0; [lia|]. unfold stsc_of_table. cbn [sc_entries].
  rewrite entries32_map_ids, sdis_map_ids.
  destruct raw as [|r t]; [congruence|]. cbn [length repeat]. unfold ids_repr.
  rewrite forallb_eq_repeat_true. reflexivity.
Qed.

(* ---------- ALL histories ---------- *)
Definition binv (b : stsc_box) (raw : list (N * N * N)) : Prop :=
  forallb nz (sdis raw) = true /\
  ((raw = [] /\ sc_entries b = [] /\ sc_ids b = []) \/ (raw <> [] /\ b = stsc_of_table raw)).

Lemma binv_step b raw c : binv b raw -> binv (stsc_step b c) (stsc_table_step raw c).
Proof.
  intros [Hnz [[-> [He Hi]] | [Hne ->]]].
  - destruct c as [fc sp sdi | x]; unfold stsc_step, stsc_call_res, stsc_table_step.
    + destruct (sdi =? 0) eqn:E0.
      * apply N.eqb_eq in E0. subst sdi. rewrite add_entry_zero. split; [reflexivity|]. left. auto.
      * rewrite (add_entry_first b fc sp sdi He Hi) by lia. destruct (fc =? 1).
        -- split; [cbn; unfold nz; rewrite E0; reflexivity|]. right. split; [discriminate|reflexivity].
        -- split; [reflexivity|]. left. auto.
    + split; [destruct (x =? 0); reflexivity|]. left. unfold stsc_set_single.
      destruct (x =? 0); cbn [map sc_entries sc_ids]; auto.
  - destruct c as [fc sp sdi | x]; unfold stsc_step, stsc_call_res, stsc_table_step.
    + destruct (sdi =? 0) eqn:E0.
      * apply N.eqb_eq in E0. subst sdi. rewrite add_entry_zero. split; [exact Hnz|]. right. split; [exact Hne|reflexivity].
      * rewrite (add_entry_table raw fc sp sdi Hne Hnz) by lia.
        replace (match raw with [] => if fc =? 1 then [(fc, sp, sdi)] else [] | _ :: _ => raw ++ [(fc, sp, sdi)] end)
          with (raw ++ [(fc, sp, sdi)]) by (destruct raw; [congruence|reflexivity]).
        split.
        -- rewrite sdis_snoc, forallb_app, Hnz. cbn [snd forallb]. unfold nz. rewrite E0. reflexivity.
        -- right. split; [destruct raw; discriminate|reflexivity].
    + destruct (x =? 0) eqn:E0.
      * unfold stsc_set_single. rewrite E0. split; [exact Hnz|]. right. split; [exact Hne|reflexivity].
      * rewrite set_single_table by (try exact Hne; lia). split.
        -- rewrite sdis_map_ids. clear -E0. induction (length raw) as [|n IHn]; [reflexivity|].
           cbn [repeat forallb]. unfold nz at 1. rewrite E0, IHn. reflexivity.
        -- right. split; [destruct raw; [congruence|discriminate]|reflexivity].
Qed.

Lemma binv_run calls : forall b raw, binv b raw -> binv (stsc_run b calls) (stsc_table raw calls).
Proof.
  induction calls as [|c t IH]; intros b raw Hb; [exact Hb|].
  unfold stsc_run, stsc_table in *. cbn [fold_left]. apply IH. apply binv_step; assumption.
Qed.

Lemma binv_table raw : forallb nz (sdis raw) = true -> binv (stsc_of_table raw) raw.
Proof.
  intros H. split; [exact H|]. destruct raw as [|r t].
  - left. repeat split.
  - right. split; [discriminate|reflexivity].
Qed.

Lemma run_table raw0 calls : forallb nz (sdis raw0) = true ->
  stsc_table raw0 calls <> [] ->
  stsc_run (stsc_of_table raw0) calls = stsc_of_table (stsc_table raw0 calls) /\
  forallb nz (sdis (stsc_table raw0 calls)) = true.
Proof.
  intros H0 Hne. destruct (binv_run calls _ _ (binv_table raw0 H0)) as [Hnz [[E _] | [_ E]]]; [congruence|].
  split; assumption.
Qed.

(* ---------- DecodeStscSR builds the closed form ---------- *)
Lemma ids_repr_final l single ids : l <> [] -> forallb nz l = true ->
  single = fst (ids_repr l) ->
  ((single <> 0 /\ ids = []) \/ (single = 0 /\ ids = l ++ repeat 0 0)) ->
  ids = snd (ids_repr l).
Proof.
  intros Hne Hnz Hs Hc. rewrite app_nil_r in Hc.
  destruct (ids_repr_cases l Hne Hnz) as [[a [Ha [Hr _]]] | [Hr _]]; rewrite Hr in *; cbn [fst snd] in *.
  - destruct Hc as [[_ ->] | [E _]]; [reflexivity|lia].
  - destruct Hc as [[E _] | [_ ->]]; [lia|reflexivity].
Qed.

Lemma decode_loop_closed q : forall p es acc single ids i n,
  forallb nz (sdis q) = true -> forallb nz (sdis p) = true ->
  es = entries32_from None p ->
  acc = match last_opt es with None => 1 | Some e => first_sample e end ->
  i = lenN p -> n = lenN p + lenN q ->
  (p = [] -> single = 0 /\ ids = []) ->
  (p <> [] -> single = fst (ids_repr (sdis p)) /\
              ((single <> 0 /\ ids = []) \/ (single = 0 /\ ids = sdis p ++ repeat 0 (length q)))) ->
  exists acc',
    stsc_decode_loop n (es, acc, single, ids) i q =
    Ok (entries32_from None (p ++ q), acc', fst (ids_repr (sdis (p ++ q))), snd (ids_repr (sdis (p ++ q)))).
Proof.
  induction q as [|[[fc sp] sdi] t IH]; intros p es acc single ids i n Hq Hp Hes Hacc Hi Hn H0 H1.
  - cbn [stsc_decode_loop]. rewrite app_nil_r. exists acc. subst es. destruct p as [|r p'].
    + destruct (H0 eq_refl) as [-> ->]. reflexivity.
    + destruct (H1 ltac:(discriminate)) as [Hs Hc].
      assert (Hne : sdis (r :: p') <> []) by discriminate.
      rewrite <- (ids_repr_final _ single ids Hne Hp Hs Hc), <- Hs. reflexivity.
  - cbn [stsc_decode_loop]. unfold stsc_decode_step.
    change (sdis ((fc, sp, sdi) :: t)) with (sdi :: sdis t) in Hq. cbn [forallb] in Hq.
    apply andb_prop in Hq. destruct Hq as [Hsdi Hq]. unfold nz in Hsdi.
    destruct (sdi =? 0) eqn:Es; [discriminate|].
    set (acc1 := match rev es with [] => acc | pe :: _ => u32 (acc + u32 (sub32 fc (first_chunk pe) * spc pe)) end).
    assert (Hacc1 : acc1 = acc32 (lastp None (entries32_from None p)) fc).
    { unfold acc1, lastp, acc32. rewrite <- Hes. rewrite rev_last_opt. destruct (last_opt es) as [pe|]; subst acc; reflexivity. }
    assert (Hes1 : es ++ [mkEntry fc sp acc1] = entries32_from None (p ++ [(fc, sp, sdi)])).
    { rewrite entries32_from_snoc, Hacc1, Hes. reflexivity. }
    assert (Hnext : forall single2 ids2,
      (single2 = fst (ids_repr (sdis (p ++ [(fc, sp, sdi)]))) /\
       ((single2 <> 0 /\ ids2 = []) \/ (single2 = 0 /\ ids2 = sdis (p ++ [(fc, sp, sdi)]) ++ repeat 0 (length t)))) ->
      exists acc',
        stsc_decode_loop n (es ++ [mkEntry fc sp acc1], acc1, single2, ids2) (i + 1) t =
        Ok (entries32_from None (p ++ (fc, sp, sdi) :: t), acc',
            fst (ids_repr (sdis (p ++ (fc, sp, sdi) :: t))), snd (ids_repr (sdis (p ++ (fc, sp, sdi) :: t))))).
    { intros single2 ids2 Hinv.
      replace (p ++ (fc, sp, sdi) :: t) with ((p ++ [(fc, sp, sdi)]) ++ t) by (rewrite <- app_assoc; reflexivity).
      apply IH; try assumption.
      - rewrite sdis_snoc, forallb_app, Hp. cbn [snd forallb]. unfold nz. rewrite Es. reflexivity.
      - rewrite last_opt_snoc. reflexivity.
      - rewrite lenN_app, lenN_cons, lenN_nil. lia.
      - rewrite lenN_app, !lenN_cons, lenN_nil in *. lia.
      - intros E. destruct p; discriminate.
      - intros _. exact Hinv. }
    destruct p as [|r p'] eqn:Ep.
    + (* first row *)
      rewrite lenN_nil in Hi. subst i. cbn [N.eqb rbind]. destruct (H0 eq_refl) as [_ ->].
      apply Hnext. cbn [app sdis map snd ids_repr forallb fst]. split; [reflexivity|]. left. split; [lia|reflexivity].
    + rewrite <- Ep in *. assert (Hpne : p <> []) by (rewrite Ep; discriminate).
      assert (Hi0 : (i =? 0) = false) by (rewrite Ep, lenN_cons in Hi; lia). rewrite Hi0.
      destruct (H1 Hpne) as [Hs Hc].
      assert (Hne : sdis p <> []) by (rewrite Ep; discriminate).
      assert (Hlen : lenN (sdis p) = i) by (unfold sdis; rewrite lenN_map; lia).
      assert (Hrep0 : repeat 0 (length ((fc, sp, sdi) :: t)) = 0 :: repeat 0 (length t)) by reflexivity.
      destruct (ids_repr_cases (sdis p) Hne Hp) as [[a [Ha [Hr [Hrep Hsn]]]] | [Hr Hsn]];
        rewrite Hr in Hs; cbn [fst] in Hs.
      * (* the single value is in use *)
        destruct Hc as [[_ ->] | [E _]]; [|lia]. subst single.
        destruct (sdi =? a) eqn:Ea; cbn [negb].
        -- cbn [rbind]. apply Hnext. rewrite sdis_snoc, Hsn. cbn [snd]. rewrite Ea. cbn [fst]. split; [reflexivity|].
           left. split; [lia|reflexivity].
        -- destruct (a =? 0) eqn:E0; [lia|]. cbn [negb].
           assert (Hl : lenN (repeat a (N.to_nat i) ++ repeat 0 (N.to_nat (n - i))) = n)
             by (rewrite lenN_app, !lenN_repeat; rewrite lenN_cons in Hn; lia).
           rewrite Hl. destruct (n <=? i) eqn:El; [rewrite lenN_cons in Hn; lia|]. cbn [rbind].
           apply Hnext. rewrite sdis_snoc, Hsn. cbn [snd]. rewrite Ea. cbn [fst]. split; [reflexivity|].
           right. split; [reflexivity|].
           replace (N.to_nat (n - i)) with (length ((fc, sp, sdi) :: t))
             by (rewrite lenN_cons in Hn; unfold lenN in *; cbn [length]; lia).
           rewrite Hrep0.
           replace (N.to_nat i) with (length (sdis p)) by (unfold lenN in Hlen; lia).
           rewrite <- Hrep. rewrite <- Hlen at 1. rewrite updN_app_at. rewrite <- app_assoc. reflexivity.
      * (* per-entry ids already *)
        destruct Hc as [[E _] | [_ ->]]; [lia|]. subst single.
        cbn [negb N.eqb]. rewrite Es. cbn [negb].
        assert (Hl : lenN (sdis p ++ repeat 0 (length ((fc, sp, sdi) :: t))) = n)
          by (rewrite lenN_app, lenN_repeat, Hlen, Hn, Hi; unfold lenN; lia).
        rewrite Hl. destruct (n <=? i) eqn:El; [rewrite lenN_cons in Hn; lia|]. cbn [rbind].
        apply Hnext. rewrite sdis_snoc, Hsn. cbn [snd fst]. split; [reflexivity|]. right. split; [reflexivity|].
        rewrite Hrep0. rewrite <- Hlen at 1. rewrite updN_app_at. rewrite <- app_assoc. reflexivity.
Qed.

Lemma decode_table raw : forallb nz (sdis raw) = true -> stsc_decode raw = Ok (stsc_of_table raw).
Proof.
  intros H. unfold stsc_decode.
  destruct (decode_loop_closed raw [] [] 1 0 [] 0 (lenN raw)) as [acc' Hr]; try reflexivity; try assumption.
  - intros _. split; reflexivity.
  - intros E. congruence.
  - cbn [app] in Hr. rewrite Hr. reflexivity.
Qed.

Lemma stsc_of_table_nil : stsc_of_table [] = stsc_empty.
Proof. reflexivity. Qed.

(* DecodeStscSR succeeds only on 1-based ids *)
Lemma decode_step_ok_nz n st i r st' : stsc_decode_step n st i r = Ok st' -> nz (snd r) = true.
Proof.
  destruct st as [[[es acc] single] ids]. destruct r as [[fc sp] sdi].
  unfold stsc_decode_step. cbv beta iota. cbn [snd]. unfold nz.
  destruct (sdi =? 0); [intros H; cbn in H; discriminate|intros _; reflexivity].
Qed.

Lemma decode_loop_ok_nz raw : forall n st i st', stsc_decode_loop n st i raw = Ok st' -> forallb nz (sdis raw) = true.
Proof.
  induction raw as [|r t IH]; intros n st i st' H; [reflexivity|].
  cbn [stsc_decode_loop] in H. destruct (stsc_decode_step n st i r) as [st1| | |] eqn:E; cbn [rbind] in H; try discriminate.
  change (sdis (r :: t)) with (snd r :: sdis t). cbn [forallb].
  rewrite (decode_step_ok_nz _ _ _ _ _ E), (IH _ _ _ _ H). reflexivity.
Qed.

Lemma decode_ok_nz raw b : stsc_decode raw = Ok b -> forallb nz (sdis raw) = true.
Proof.
  unfold stsc_decode. intros H.
  destruct (stsc_decode_loop (lenN raw) ([], 1, 0, []) 0 raw) as [st| | |] eqn:E; cbn [rbind] in H; try discriminate.
  exact (decode_loop_ok_nz _ _ _ _ _ E).
Qed.

Lemma decode_ok_table raw b : stsc_decode raw = Ok b -> b = stsc_of_table raw.
Proof.
  intros H. pose proof (decode_table raw (decode_ok_nz raw b H)) as H2. congruence.
Qed.

Lemma builder_stsc : forall raw0 b0 calls,
  stsc_decode raw0 = Ok b0 -> stsc_table raw0 calls <> [] ->
  b0 = stsc_of_table raw0 /\
  stsc_run b0 calls = stsc_of_table (stsc_table raw0 calls) /\
  stsc_decode (stsc_table raw0 calls) = Ok (stsc_of_table (stsc_table raw0 calls)).
Proof.
  intros raw0 b0 calls H0 Hne. pose proof (decode_ok_table raw0 b0 H0) as ->.
  destruct (run_table raw0 calls (decode_ok_nz _ _ H0) Hne) as [Hr Hnz].
  split; [reflexivity|]. split; [exact Hr|apply decode_table, Hnz].
Qed.

(* ---------- the FirstSampleNr cache without wrap-around: the naive recurrence, and its sum form ---------- *)
Lemma entries32_S raw : forall prev, raw_ok_from prev raw = true -> entries32_from prev raw = S_entries_from prev raw.
Proof.
  induction raw as [|[[fc sp] sdi] t IH]; intros prev H; [reflexivity|].
  cbn [raw_ok_from] in H. repeat (apply andb_prop in H; destruct H as [H ?]). unfold is_u32 in *.
  cbn [entries32_from S_entries_from].
  assert (E : match prev with None => 1 | Some p => u32 (first_sample p + u32 (sub32 fc (first_chunk p) * spc p)) end =
              match prev with None => 1 | Some p => first_sample p + (fc - first_chunk p) * spc p end).
  { destruct prev as [p|]; [|reflexivity]. rewrite sub32_small by lia.
    rewrite (u32_small ((fc - first_chunk p) * spc p)) by lia. apply u32_small. lia. }
  rewrite E. f_equal. apply IH. assumption.
Qed.

Lemma raw_ok_nz raw : forall prev, raw_ok_from prev raw = true -> forallb nz (sdis raw) = true.
Proof.
  induction raw as [|[[fc sp] sdi] t IH]; intros prev H; [reflexivity|].
  cbn [raw_ok_from] in H. repeat (apply andb_prop in H; destruct H as [H ?]).
  change (sdis ((fc, sp, sdi) :: t)) with (sdi :: sdis t). cbn [forallb]. unfold nz at 1.
  rewrite (IH _ ltac:(eassumption)). destruct (sdi =? 0); [discriminate|reflexivity].
Qed.

Lemma run_samples_ids fc sp a b t : run_samples ((fc, sp, a) :: t) = run_samples ((fc, sp, b) :: t).
Proof. reflexivity. Qed.

Lemma S_entries_from_sum raw : forall p i e, nth_error (S_entries_from (Some p) raw) i = Some e ->
  first_sample e = first_sample p + sumN (firstn (S i) (run_samples ((first_chunk p, spc p, 0) :: raw))).
Proof.
  induction raw as [|[[fc sp] sdi] t IH]; intros p i e H; [destruct i; discriminate|].
  cbn [S_entries_from] in H. destruct i as [|j].
  - cbn [nth_error] in H. injection H as <-. cbn [first_sample run_samples firstn]. destruct t as [|[[? ?] ?] ?]; cbn [firstn sumN]; lia.
  - cbn [nth_error] in H. apply IH in H. cbn [first_sample first_chunk spc] in H. rewrite H.
    change (run_samples ((first_chunk p, spc p, 0) :: (fc, sp, sdi) :: t))
      with ((fc - first_chunk p) * spc p :: run_samples ((fc, sp, sdi) :: t)).
    rewrite (run_samples_ids fc sp sdi 0). cbn [firstn sumN]. lia.
Qed.

(* FirstSampleNr[i] = 1 + the samples held by the runs before i *)
Lemma first_sample_sum raw : forall i e, nth_error (S_entries raw) i = Some e ->
  first_sample e = 1 + sumN (firstn i (run_samples raw)).
Proof.
  intros i e H. unfold S_entries in H. destruct raw as [|[[fc sp] sdi] t]; [destruct i; discriminate|].
  cbn [S_entries_from] in H. destruct i as [|j].
  - cbn [nth_error] in H. injection H as <-. reflexivity.
  - cbn [nth_error] in H. apply S_entries_from_sum in H. cbn [first_sample first_chunk spc] in H.
    rewrite H. rewrite (run_samples_ids fc sp 0 sdi). reflexivity.
Qed.

Lemma stsc_cache : forall raw, raw_ok raw = true ->
  sc_entries (stsc_of_table raw) = S_entries raw /\
  forall i e, nth_error (sc_entries (stsc_of_table raw)) i = Some e ->
              first_sample e = 1 + sumN (firstn i (run_samples raw)).
Proof.
  intros raw H. unfold raw_ok in H. apply andb_prop in H. destruct H as [H _].
  assert (E : sc_entries (stsc_of_table raw) = S_entries raw) by (apply entries32_S, H).
  split; [exact E|]. rewrite E. apply first_sample_sum.
Qed.

(* ---------- a box built by any history is a consistent stsc state for its table ---------- *)
Lemma rows_entries_ok raw C : forall prev, rows_ok raw C = true -> entries_ok (S_entries_from prev raw) C = true.
Proof.
  induction raw as [|[[fc sp] sdi] t IH]; intros prev H; [reflexivity|].
  cbn [rows_ok] in H. apply andb_prop in H. destruct H as [H1 H2].
  destruct t as [|[[fc' sp'] sdi'] t'].
  - cbn [S_entries_from entries_ok spc first_chunk]. rewrite H1, H2. reflexivity.
  - apply andb_prop in H2. destruct H2 as [H2 H3].
    specialize (IH (Some (mkEntry fc sp match prev with None => 1 | Some p => first_sample p + (fc - first_chunk p) * spc p end)) H3).
    cbn [S_entries_from] in IH |- *. cbn [entries_ok spc first_chunk first_sample].
    cbn [entries_ok spc first_chunk first_sample] in IH.
    rewrite H1, H2, N.eqb_refl. cbn [andb]. exact IH.
Qed.

Lemma table_stsc_ok : forall tb tbl,
  t_stsc tb = stsc_of_table tbl ->
  raw_ok tbl = true -> rows_ok tbl (nchunks tb) = true ->
  match tbl with (fc, _, _) :: _ => fc = 1 | [] => False end ->
  sumN (chunk_counts (S_entries tbl) (nchunks tb)) = nsamples tb ->
  stsc_ok tb = true.
Proof.
  intros tb tbl Hb Hraw Hrows H1 Hsum.
  pose proof Hraw as Hraw'. unfold raw_ok in Hraw'. apply andb_prop in Hraw'. destruct Hraw' as [Hraw' _].
  pose proof (entries32_S tbl None Hraw') as HE.
  pose proof (raw_ok_nz tbl None Hraw') as Hnz.
  unfold stsc_ok, counts_of. rewrite Hb. unfold stsc_of_table at 1 2 3. cbn [sc_entries]. rewrite HE.
  fold (S_entries tbl). rewrite Hsum, N.eqb_refl.
  unfold S_entries. rewrite (rows_entries_ok tbl (nchunks tb) None Hrows).
  destruct tbl as [|[[fc sp] sdi] t]; [contradiction|]. subst fc.
  cbn [S_entries S_entries_from first_chunk first_sample N.eqb Pos.eqb andb].
  cbn [raw_ok_from] in Hraw'. repeat (apply andb_prop in Hraw'; destruct Hraw' as [Hraw' ?]).
  unfold stsc_of_table. cbn [sc_single sc_ids]. change (sdis ((1, sp, sdi) :: t)) with (sdi :: sdis t) in *.
  unfold ids_repr. destruct (forallb (N.eqb sdi) (sdis t)) eqn:Ef; cbn [fst snd].
  - destruct (sdi =? 0) eqn:E0; [discriminate|]. cbn [lenN length forallb andb N.of_nat N.eqb].
    assumption.
  - cbn [N.eqb]. change (forallb (fun x => negb (x =? 0)) (sdi :: sdis t)) with (forallb nz (sdi :: sdis t)).
    rewrite Hnz. cbn [andb is_u32].
    cbn [sc_entries].
    replace (lenN (sdi :: sdis t) =? lenN (entries32_from None ((1, sp, sdi) :: t))) with true; [reflexivity|].
    symmetry. apply N.eqb_eq. unfold lenN. rewrite length_entries32. unfold sdis. cbn [length]. rewrite map_length. reflexivity.
Qed.

Lemma builder_stsc_ok : forall tb raw0 b0 calls,
  stsc_decode raw0 = Ok b0 ->
  t_stsc tb = stsc_run b0 calls ->
  raw_ok (stsc_table raw0 calls) = true -> rows_ok (stsc_table raw0 calls) (nchunks tb) = true ->
  match stsc_table raw0 calls with (fc, _, _) :: _ => fc = 1 | [] => False end ->
  sumN (chunk_counts (S_entries (stsc_table raw0 calls)) (nchunks tb)) = nsamples tb ->
  stsc_ok tb = true.
Proof.
  intros tb raw0 b0 calls H0 Hb Hraw Hrows H1 Hsum.
  assert (Hne : stsc_table raw0 calls <> []) by (destruct (stsc_table raw0 calls); [contradiction|discriminate]).
  destruct (builder_stsc raw0 b0 calls H0 Hne) as [_ [Hr _]]. rewrite Hr in Hb.
  apply (table_stsc_ok tb _ Hb Hraw Hrows H1 Hsum).
Qed.

(* ---------- table boxes built by ANY histories make a consistent table set: every query theorem applies ---------- *)
Lemma builder_consistent : forall tb craw0 ccalls sraw0 sb0 scalls,
  is_u32 (nsamples tb + 1) = true -> stts_ok tb = true -> stsz_ok tb = true -> offsets_ok tb = true ->
  stss_ok tb = true -> sdtp_ok tb = true ->
  (t_ctts tb = None \/
   (t_ctts tb = Some (ctts_run (ctts_decode craw0) ccalls) /\
    sumN (map fst (craw0 ++ ctts_table ccalls)) = nsamples tb)) ->
  stsc_decode sraw0 = Ok sb0 ->
  t_stsc tb = stsc_run sb0 scalls ->
  raw_ok (stsc_table sraw0 scalls) = true -> rows_ok (stsc_table sraw0 scalls) (nchunks tb) = true ->
  match stsc_table sraw0 scalls with (fc, _, _) :: _ => fc = 1 | [] => False end ->
  sumN (chunk_counts (S_entries (stsc_table sraw0 scalls)) (nchunks tb)) = nsamples tb ->
  consistent tb = true.
Proof.
  intros tb craw0 ccalls sraw0 sb0 scalls Hu Htt Hsz Hof Hss Hsd Hct H0 Hb Hraw Hrows H1 Hsum.
  unfold consistent. rewrite Hu, Htt, Hsz, Hof, Hss, Hsd.
  rewrite (builder_stsc_ok tb sraw0 sb0 scalls H0 Hb Hraw Hrows H1 Hsum).
  replace (ctts_ok tb) with true; [reflexivity|]. symmetry.
  destruct Hct as [E | [E Es]].
  - unfold ctts_ok. rewrite E. reflexivity.
  - apply (builder_ctts_ok tb craw0 ccalls E Es Hu).
Qed.
