(* C09ArithProofs.v — the arithmetic hypotheses of the stts queries, exactly.
   The Go code computes sample numbers in uint32 and times in uint64.  Which sums must stay below 2^32 / 2^64 for
   the query theorems to hold, stated on the bare stts columns (no `consistent`):
     GetDecodeTime      none: for ANY uint32 columns (counts may sum to 2^32 and more) and every uint32 sample
                        number 1..N the result is exact (the time of a uint32 sample number is < 2^32 * 2^32)
     GetSampleNrAtTime  exactly one: (sum of the counts) + 1 < 2^32 (the answer N+1 "inside the last sample" must be
                        a uint32; with it the total duration is < 2^64 by itself)
   and past the end GetDecodeTime panics for EVERY table (known finding C09-F4). *)
From V.lib Require Import Base.
From V.c09 Require Import C09Model C09Spec C09BaseProofs C09SttsProofs C09CttsProofs C09TimeProofs.

Definition M32 : N := 4294967295.

(* ---------- GetDecodeTime: no overflow hypothesis ---------- *)
Lemma decode_time_loop_exact cs : forall ds rem acc,
  lenN cs = lenN ds -> rem < sumN cs -> forallb is_u32 ds = true ->
  acc + rem * M32 < 18446744073709551616 ->
  exists v d, nthN (starts (expand_rl cs ds) acc) rem = Some v /\ nthN (expand_rl cs ds) rem = Some d /\
              decode_time_loop cs ds rem acc = Ok (v, d).
Proof.
  unfold M32.
  induction cs as [|c cs IH]; intros ds rem acc Hl Hr Hd Hb; [cbn in Hr; lia|].
  destruct ds as [|d ds]; [rewrite lenN_cons, lenN_nil in Hl; lia|].
  rewrite !lenN_cons in Hl. cbn [sumN] in Hr. cbn [forallb] in Hd. apply andb_prop in Hd. destruct Hd as [Hd0 Hd].
  unfold is_u32 in Hd0. cbn [expand_rl] in *.
  rewrite starts_app, sumN_repeat.
  cbn [decode_time_loop]. rewrite !nthN_app, lenN_starts, lenN_repeat.
  destruct (c <=? rem) eqn:E.
  - destruct (rem <? N.of_nat (N.to_nat c)) eqn:E1; [lia|].
    rewrite u64_small by nia.
    destruct (IH ds (rem - c) (acc + c * d)) as [v [d' [H1 [H2 H3]]]]; try lia; try assumption; [nia|].
    exists v, d'. replace (N.of_nat (N.to_nat c)) with c by lia.
    replace (acc + N.of_nat (N.to_nat c) * d) with (acc + c * d) by lia. auto.
  - destruct (rem <? N.of_nat (N.to_nat c)) eqn:E1; [|lia].
    rewrite nthN_starts_repeat, nthN_repeat, E1.
    exists (acc + rem * d), d. split; [reflexivity|]. split; [reflexivity|].
    destruct (0 <? rem) eqn:E2.
    + rewrite u64_small by nia. reflexivity.
    + replace rem with 0 by lia. do 2 f_equal. lia.
Qed.

Lemma decode_time_exact : forall cs ds, lenN cs = lenN ds -> forallb is_u32 ds = true ->
  forall n, 1 <= n -> n <= sumN cs -> n < 4294967296 ->
  exists t d, nthN (starts (expand_rl cs ds) 0) (n - 1) = Some t /\ nthN (expand_rl cs ds) (n - 1) = Some d /\
              stts_get_decode_time cs ds n = Ok (t, d).
Proof.
  intros cs ds Hl Hd n H1 H2 H3. unfold stts_get_decode_time. destruct (n =? 0) eqn:E; [lia|].
  apply decode_time_loop_exact; try assumption; unfold M32; lia.
Qed.

(* ---------- GetDecodeTime past the last sample: Panic, for every table (finding C09-F4) ---------- *)
Lemma decode_time_loop_past cs : forall ds rem acc, lenN cs = lenN ds -> sumN cs <= rem ->
  decode_time_loop cs ds rem acc = Panic.
Proof.
  induction cs as [|c cs IH]; intros ds rem acc Hl Hr.
  - destruct ds; [reflexivity|rewrite lenN_cons, lenN_nil in Hl; lia].
  - destruct ds as [|d ds]; [reflexivity|]. rewrite !lenN_cons in Hl. cbn [sumN] in Hr.
    cbn [decode_time_loop]. destruct (c <=? rem) eqn:E; [|lia]. apply IH; lia.
Qed.

Lemma decode_time_past_end : forall cs ds n, lenN cs = lenN ds -> sumN cs < n ->
  stts_get_decode_time cs ds n = Panic.
Proof.
  intros cs ds n Hl Hn. unfold stts_get_decode_time. destruct (n =? 0) eqn:E; [reflexivity|].
  apply decode_time_loop_past; [assumption|lia].
Qed.

(* ---------- GetSampleNrAtTime: exactly one hypothesis, sum of the counts + 1 < 2^32 ---------- *)
Definition sat_spec (cs ds : list N) (t : N) : option N :=
  let du := expand_rl cs ds in
  let total := sumN du in
  if t <? total then Some (1 + lenN (filter (fun s => s <? t) (starts du 0)))
  else if (last du 1 =? 0) && (t =? total) then Some (lenN du)
  else None.

Lemma sat_spec_tb tb t : sat_spec (t_stts_count tb) (t_stts_delta tb) t = S_sample_at_time tb t.
Proof. reflexivity. Qed.

Lemma sample_at_time_exact : forall cs ds, lenN cs = lenN ds ->
  forallb is_u32 cs = true -> forallb is_u32 ds = true -> deltas_positive cs ds = true ->
  1 <= sumN cs -> sumN cs + 1 < 4294967296 ->
  forall t, stts_get_sample_nr_at_time cs ds t = match sat_spec cs ds t with Some nr => Ok nr | None => Err end.
Proof.
  intros cs ds L Hc32 Hd32 Hp HN1 HB t.
  pose proof (sumN_expand_bound cs ds Hd32) as HT.
  assert (LD : lenN (expand_rl cs ds) = sumN cs) by (apply lenN_expand, L).
  pose proof (sat_loop_ok cs ds t 0 0 L Hp Hc32 Hd32 ltac:(lia)) as Q.
  specialize (Q ltac:(nia) ltac:(lia)).
  unfold stts_get_sample_nr_at_time, sat_spec. cbn [N.add] in Q.
  destruct (t <? sumN (expand_rl cs ds)) eqn:E.
  - destruct Q as [x [y Q]]. rewrite Q. cbn [rbind]. unfold cnt_lt. reflexivity.
  - rewrite Q. cbn [rbind].
    assert (Hne : cs <> []) by (destruct cs; [cbn in HN1; lia|discriminate]).
    assert (Hned : ds <> []) by (destruct ds; [destruct cs; [congruence|rewrite lenN_cons, lenN_nil in L; lia]|discriminate]).
    assert (Hlc : 1 <= lenN cs) by (destruct cs; [congruence|rewrite lenN_cons; lia]).
    pose proof (nthN_last ds 0 Hned) as Hld. pose proof (nthN_last cs 0 Hne) as Hlc'.
    rewrite <- L in Hld.
    rewrite (idx_m1_Some ds (lenN cs) _ Hlc Hld). cbn [rbind].
    destruct (last ds 0 =? 0) eqn:Ez; cbn [negb].
    + destruct (last_zero cs ds L Hne Hp ltac:(lia)) as [A Bz].
      rewrite (idx_m1_Some cs (lenN cs) _ Hlc Hlc'). cbn [rbind]. rewrite A. cbn [N.eqb Pos.eqb andb].
      rewrite Bz. cbn [N.eqb andb].
      destruct (t =? sumN (expand_rl cs ds)) eqn:Et; [|reflexivity]. f_equal. lia.
    + pose proof (last_expand_nonzero cs ds L Hp ltac:(lia)) as G.
      destruct (last (expand_rl cs ds) 1 =? 0) eqn:E0; [lia|]. reflexivity.
Qed.
