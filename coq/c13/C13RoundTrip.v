(* C13RoundTrip.v — composition: what the writer wrote, the matching reader ops read back. *)
From V.lib Require Import Base.
From V.c13 Require Import C13Spec C13Model C13Bits C13EscProofs C13MarkProofs C13WriterProofs C13ReaderProofs.

(* value-carrying writer ops and their matching reader ops *)
Definition value_op (o : wop) : bool :=
  match o with
  | WBits v w => (w <=? 32) && (v <? 2 ^ w)
  | WFlag _ => true
  | WUe v => v <? 2 ^ 32
  | WSe k => se_to_ue k <? 2 ^ 32
  | _ => false
  end.

Definition rop_of (o : wop) : rop :=
  match o with WBits _ w => RBits w | WFlag _ => RFlag | WUe _ => RUe | WSe _ => RSe | _ => RFlag end.

Definition rval_of (o : wop) : rval :=
  match o with WBits v _ => VN v | WFlag b => VB b | WUe v => VN v | WSe k => VZ k | _ => VB false end.

Definition vbits (o : wop) : list bool := op_bits [] o.

Lemma value_op_ok o : value_op o = true -> op_ok o = true.
Proof.
  destruct o; cbn [value_op op_ok]; intros H; try exact H; try reflexivity; try discriminate.
  apply andb_true_iff in H. destruct H as [H _]. apply N.leb_le in H. apply N.leb_le. lia.
Qed.

Lemma value_op_bits cur o : value_op o = true -> op_bits cur o = vbits o.
Proof. destruct o; cbn [value_op]; intros H; try discriminate; reflexivity. Qed.

Lemma all_bits_values ops : forall cur,
  forallb value_op ops = true ->
  fold_left (fun cur o => cur ++ op_bits cur o) ops cur = cur ++ concat (map vbits ops).
Proof.
  induction ops as [|o t IH]; intros cur H; cbn [fold_left map concat]; [rewrite app_nil_r; reflexivity|].
  cbn [forallb] in H. apply andb_true_iff in H. destruct H as [Ho Ht].
  rewrite IH by exact Ht. rewrite (value_op_bits cur o Ho), <- app_assoc. reflexivity.
Qed.

Lemma ue_codes_agree v : ue_code v = ue_code' v.
Proof. rewrite ue_code_eq. reflexivity. Qed.

Lemma run_reader_values ops : forall s rest,
  forallb value_op ops = true -> RGood s -> rbits s = concat (map vbits ops) ++ rest ->
  exists s', run_reader (map rop_of ops) s = (map rval_of ops, s') /\ rbits s' = rest /\ RGood s'
             /\ rdata s' = rdata s.
Proof.
  induction ops as [|o t IH]; intros s rest Hok HG Hb.
  - exists s. cbn [map run_reader]. repeat split; try apply HG. exact Hb.
  - cbn [forallb] in Hok. apply andb_true_iff in Hok. destruct Hok as [Ho Ht].
    cbn [map concat] in Hb. rewrite <- app_assoc in Hb.
    assert (Hstep : exists s1, rstep s (rop_of o) = (rval_of o, s1) /\
                               rbits s1 = concat (map vbits t) ++ rest /\ RGood s1 /\ rdata s1 = rdata s).
    { destruct o as [v w|b|v|k|v| | |]; cbn [value_op] in Ho; try discriminate;
        cbn [rop_of rval_of rstep vbits op_bits] in *.
      - apply andb_true_iff in Ho. destruct Ho as [Hw Hv]. apply N.leb_le in Hw. apply N.ltb_lt in Hv.
        destruct (read_fixed s w v _ HG ltac:(lia) Hv Hb) as [s1 [Hr H]]. exists s1. rewrite Hr. split; [reflexivity|exact H].
      - destruct (read_flag_spec s b _ HG Hb) as [s1 [Hr H]]. exists s1. rewrite Hr. split; [reflexivity|exact H].
      - apply N.ltb_lt in Ho. rewrite ue_codes_agree in Hb.
        destruct (read_ue_spec s v _ HG Ho Hb) as [s1 [Hr H]]. exists s1. rewrite Hr. split; [reflexivity|exact H].
      - apply N.ltb_lt in Ho. rewrite ue_codes_agree in Hb.
        destruct (read_se_spec s k _ HG Ho Hb) as [s1 [Hr H]]. exists s1. rewrite Hr. split; [reflexivity|exact H]. }
    destruct Hstep as [s1 [Hr [Hb1 [HG1 Hd1]]]].
    destruct (IH s1 rest Ht HG1 Hb1) as [s2 [Hr2 [Hb2 [HG2 Hd2]]]].
    exists s2. cbn [map run_reader]. rewrite Hr, Hr2. repeat split; try apply HG2; try assumption. congruence.
Qed.

Lemma align_total cur : (length (cur ++ align_zeros cur) mod 8 = 0)%nat.
Proof.
  unfold align_zeros. rewrite app_length, repeat_length.
  pose proof (Nat.mod_upper_bound (length cur) 8 ltac:(lia)) as Hm.
  pose proof (Nat.div_mod (length cur) 8 ltac:(lia)) as Hd.
  destruct (Nat.eq_dec (length cur mod 8) 0) as [E|E].
  - rewrite E. cbn [Nat.sub]. rewrite Nat.mod_same by lia. rewrite Nat.add_0_r. exact E.
  - rewrite (Nat.mod_small (8 - length cur mod 8) 8) by lia.
    replace (length cur + (8 - length cur mod 8))%nat with (8 * (length cur / 8) + 1 * 8)%nat by lia.
    rewrite Nat.mod_add by lia. rewrite Nat.mul_comm. apply Nat.mod_mul. lia.
Qed.

(* the whole round trip: write value ops + rbsp trailing bits with the EBSP writer, read the
   matching ops with the EBSP reader over the bytes that were written *)
Lemma reader_inverse ops :
  forallb value_op ops = true ->
  let data := wout (run_writer (ops ++ [WTrail])) in
  exists s', run_reader (map rop_of ops) (rinit data) = (map rval_of ops, s') /\ rerr s' = false.
Proof.
  intros Hok data.
  assert (Hok' : forallb op_ok (ops ++ [WTrail]) = true).
  { rewrite forallb_app. cbn [forallb op_ok]. rewrite andb_true_r.
    apply forallb_forall. intros o Ho. apply value_op_ok.
    rewrite forallb_forall in Hok. apply Hok. exact Ho. }
  pose proof (run_writer_stream _ Hok') as HS.
  assert (Hall : all_bits (ops ++ [WTrail]) =
                 concat (map vbits ops) ++ true :: align_zeros (concat (map vbits ops) ++ [true])).
  { unfold all_bits. rewrite fold_left_app. rewrite (all_bits_values ops [] Hok). cbn [app fold_left op_bits]. reflexivity. }
  rewrite Hall in HS.
  assert (Hal : (length (concat (map vbits ops) ++ true :: align_zeros (concat (map vbits ops) ++ [true])) mod 8 = 0)%nat).
  { pose proof (align_total (concat (map vbits ops) ++ [true])) as H.
    rewrite <- app_assoc in H. exact H. }
  destruct (WStream_aligned _ _ HS Hal) as [raw [Hout [Hraw [Hlt _]]]].
  fold data in Hout.
  assert (HG : RGood (rinit data)).
  { split; [|cbn; lia]. apply RInv_init. rewrite Hout. apply escape_lt256. exact Hlt. }
  assert (Hb : rbits (rinit data) = concat (map vbits ops) ++ true :: align_zeros (concat (map vbits ops) ++ [true])).
  { rewrite rbits_init, Hout, unescape_escape. exact Hraw. }
  destruct (run_reader_values ops (rinit data) _ Hok HG Hb) as [s' [Hr [_ [[[He _] _] _]]]].
  exists s'. split; assumption.
Qed.

(* writer output is the standard escaping of the whole bytes of the written bit stream *)
Lemma writer_is_escape ops :
  forallb op_ok ops = true ->
  exists raw, wout (run_writer ops) = escape raw /\
              bytes_to_bits raw ++ pending (run_writer ops) = all_bits ops /\
              (length (pending (run_writer ops)) < 8)%nat /\
              Forall (fun b => b < 256) raw.
Proof.
  intros Hok. destruct (run_writer_stream ops Hok) as [raw [[Hn [Hlt [Ho Hz]]] Hc]].
  exists raw. unfold wout. rewrite Ho, rev_involutive. repeat split; try assumption.
  unfold pending. rewrite bits_of_length. lia.
Qed.

(* plain writers (bits.Writer, FixedSliceWriter.WriteBits): same stream, no escaping *)
Lemma plain_writer_stream s raw bits n :
  WInv false s raw -> n <= 56 ->
  exists raw', WInv false (write_plain s bits n) raw' /\
    bytes_to_bits raw' ++ pending (write_plain s bits n) = bytes_to_bits raw ++ pending s ++ bits_of (N.to_nat n) bits.
Proof.
  intros HI Hn. destruct (write_gen_spec false s raw bits n HI Hn) as [raw' [H1 [H2 _]]].
  exists raw'. split; assumption.
Qed.

(* counters: positions are positions in the ESCAPED stream *)
Lemma counters_spec s :
  rn s < 8 ->
  nr_bytes_read s = rpos s /\ nr_bits_read s = (8 * Z.of_N (rpos s) - Z.of_N (rn s))%Z.
Proof.
  intros Hn. split; [reflexivity|]. unfold nr_bits_read, nr_bits_read_in_current_byte.
  destruct (Z.eqb_spec (8 - Z.of_N (rn s)) 8); lia.
Qed.

Lemma reader_bytes : forall l, Forall (fun b => b < 256) l ->
  exists s', read_bytes (length l) (rinit (escape l)) = (l, s') /\ rerr s' = false /\ rbits s' = [].
Proof.
  intros l Hl.
  assert (HG : RGood (rinit (escape l))).
  { split; [apply RInv_init, escape_lt256; exact Hl|cbn; lia]. }
  destruct (read_bytes_spec (length l) (rinit (escape l)) l [] HG eq_refl Hl) as [s' [Hr [Hb [[[He _] _] _]]]].
  - rewrite rbits_init, unescape_escape, app_nil_r. reflexivity.
  - exists s'. repeat split; assumption.
Qed.

Lemma ue_loop_top : forall nr, nr + 1 < 2 ^ 64 ->
  exists q, ue_loop 64 nr 0 0 0 = (q, nr + 1 - 2 ^ q) /\ 2 ^ q <= nr + 1 < 2 ^ (q + 1).
Proof. intros nr H. exact (ue_loop_spec 64 nr 0 ltac:(cbn; lia) ltac:(cbn in *; lia)). Qed.
