(* C13EscProofs.v — byte-level facts about the emulation-prevention specification. *)
From V.lib Require Import Base.
From V.c13 Require Import C13Spec.

Ltac bdestr :=
  repeat match goal with
  | |- context [ (?a =? ?b) ] => destruct (N.eqb_spec a b)
  | |- context [ (?a <=? ?b) ] => destruct (N.leb_spec a b)
  end.

(* ---------- unescape inverts escape (from any zero-run state 0..2) ---------- *)
Lemma unescape_escape_from z l : z <= 2 -> unescape_from z (escape_from z l) = l.
Proof.
  revert z. induction l as [|b t IH]; intros z Hz; [reflexivity|].
  cbn [escape_from].
  destruct ((z =? 2) && (b <=? 3)) eqn:E.
  - apply andb_true_iff in E. destruct E as [E1 E2].
    apply N.eqb_eq in E1. apply N.leb_le in E2. subst z.
    cbn [unescape_from]. rewrite N.eqb_refl. cbn [andb N.eqb Pos.eqb].
    f_equal. apply IH. destruct (b =? 0); lia.
  - cbn [unescape_from].
    destruct ((z =? 2) && (b =? 3)) eqn:E'.
    + apply andb_true_iff in E'. destruct E' as [E1 E2].
      apply N.eqb_eq in E2. subst b. rewrite E1 in E. cbn in E. discriminate.
    + f_equal. apply IH.
      apply andb_false_iff in E. destruct (N.eqb_spec b 0); [|lia].
      destruct E as [E|E]; [apply N.eqb_neq in E; lia|].
      subst b. cbn in E. discriminate.
Qed.

Lemma unescape_escape l : unescape (escape l) = l.
Proof. apply unescape_escape_from. lia. Qed.

(* ---------- no forbidden triple in escaped output ---------- *)
(* generalised: with z zero bytes already in front *)
Definition zeros (z : N) : list N := repeat 0 (N.to_nat z).

Lemma forbidden_cons3 a b c t :
  forbidden (a :: b :: c :: t) = ((a =? 0) && (b =? 0) && (c <=? 2)) || forbidden (b :: c :: t).
Proof. reflexivity. Qed.

Lemma no_forbidden_from z l :
  z <= 2 -> forbidden (zeros z ++ escape_from z l) = false.
Proof.
  revert z. induction l as [|b t IH]; intros z Hz.
  - cbn [escape_from]. rewrite app_nil_r.
    assert (z = 0 \/ z = 1 \/ z = 2) as [-> | [-> | ->]] by lia; reflexivity.
  - cbn [escape_from].
    assert (z = 0 \/ z = 1 \/ z = 2) as [-> | [-> | ->]] by lia.
    + cbn [N.eqb andb zeros N.to_nat repeat app].
      destruct (N.eqb_spec b 0) as [->|Hb].
      * exact (IH 1 ltac:(lia)).
      * specialize (IH 0 ltac:(lia)). cbn [zeros N.to_nat repeat app] in IH.
        destruct (escape_from 0 t) as [|c [|d u]] eqn:Et; try reflexivity.
        rewrite forbidden_cons3. rewrite IH.
        destruct (N.eqb_spec b 0); [contradiction|reflexivity].
    + cbn [N.eqb Pos.eqb andb]. change (zeros 1) with [0]. cbn [app].
      destruct (N.eqb_spec b 0) as [->|Hb].
      * exact (IH 2 ltac:(lia)).
      * specialize (IH 0 ltac:(lia)). cbn [zeros N.to_nat repeat app] in IH.
        destruct (escape_from 0 t) as [|c u] eqn:Et.
        -- reflexivity.
        -- rewrite forbidden_cons3.
           destruct (N.eqb_spec b 0); [contradiction|]. cbn [andb orb].
           destruct u as [|d u']; [reflexivity|].
           rewrite forbidden_cons3, IH.
           destruct (N.eqb_spec b 0); [contradiction|reflexivity].
    + rewrite N.eqb_refl. cbn [andb]. change (zeros 2) with [0;0]. cbn [app].
      destruct (N.leb_spec b 3) as [Hb|Hb].
      * (* escape inserted: 0 0 3 b ... *)
        rewrite forbidden_cons3. cbn [N.eqb andb N.leb N.compare Pos.compare Pos.compare_cont orb].
        rewrite forbidden_cons3. cbn [N.eqb andb orb].
        destruct (N.eqb_spec b 0) as [->|Hb0].
        -- specialize (IH 1 ltac:(lia)). change (zeros 1) with [0] in IH. cbn [app] in IH.
           destruct (escape_from 1 t) as [|c u] eqn:Et; [reflexivity|].
           rewrite forbidden_cons3. cbn [N.eqb andb orb]. exact IH.
        -- specialize (IH 0 ltac:(lia)). cbn [zeros N.to_nat repeat app] in IH.
           destruct (escape_from 0 t) as [|c u] eqn:Et; [reflexivity|].
           rewrite forbidden_cons3. cbn [N.eqb andb orb].
           destruct u as [|d u']; [reflexivity|].
           rewrite forbidden_cons3, IH.
           destruct (N.eqb_spec b 0); [contradiction|reflexivity].
      * (* b > 3, not zero *)
        destruct (N.eqb_spec b 0) as [->|Hb0]; [lia|].
        rewrite forbidden_cons3.
        destruct (N.leb_spec b 2); [lia|]. cbn [N.eqb andb orb].
        specialize (IH 0 ltac:(lia)). cbn [zeros N.to_nat repeat app] in IH.
        destruct (escape_from 0 t) as [|c u] eqn:Et; [reflexivity|].
        rewrite forbidden_cons3. cbn [N.eqb andb orb].
        destruct (N.eqb_spec b 0); [contradiction|]. cbn [andb orb].
        destruct u as [|d u']; [reflexivity|].
        rewrite forbidden_cons3, IH.
        destruct (N.eqb_spec b 0); [contradiction|reflexivity].
Qed.

Lemma no_forbidden l : forbidden (escape l) = false.
Proof. exact (no_forbidden_from 0 l ltac:(lia)). Qed.
