(* C13ByteWriterProofs.v — bits.ByteWriter over a writer that accepts `cap` bytes: what reaches the
   writer is exactly the first `cap` bytes of the concatenated big-endian encodings, the accumulated
   error is set exactly when something did not fit, and nothing is written once it is set. *)
From V.lib Require Import Base.
From V.c13 Require Import C13Model C13ModelExt C13FswProofs.

Definition BI (cap : N) (s : bw) (full : list N) : Prop :=
  bcap s = cap /\ bbytes s = firstn (N.to_nat cap) full /\ berr s = (cap <? N.of_nat (length full)).

Lemma bw_sticky s o : berr s = true -> bstep s o = s.
Proof. intros H. destruct o; cbn [bstep]; unfold bput; rewrite H; reflexivity. Qed.

Lemma BI_absorb cap s full p : BI cap s full -> berr s = true -> BI cap s (full ++ p).
Proof.
  intros [Hc [Hb He]] Ht. rewrite Ht in He. symmetry in He. apply N.ltb_lt in He.
  repeat split; [exact Hc| |].
  - rewrite Hb, firstn_app. replace (N.to_nat cap - length full)%nat with 0%nat by lia.
    rewrite firstn_O, app_nil_r. reflexivity.
  - rewrite Ht. symmetry. apply N.ltb_lt. rewrite app_length. lia.
Qed.

Lemma sink_write_BI cap s full p : BI cap s full -> berr s = false -> BI cap (sink_write s p) (full ++ p).
Proof.
  intros [Hc [Hb He]] Hf. rewrite Hf in He. symmetry in He. apply N.ltb_ge in He.
  rewrite firstn_all2 in Hb by lia. unfold bbytes in Hb.
  assert (Hl : length (brev s) = length full) by (rewrite <- Hb, rev_length; reflexivity).
  unfold sink_write. rewrite Hl, Hc.
  destruct (N.leb_spec (N.of_nat (length p)) (cap - N.of_nat (length full))) as [Hfit|Hno];
    unfold BI, bbytes; cbn [bcap brev berr].
  - split; [reflexivity|split].
    + rewrite rev_app_distr, rev_involutive, Hb. rewrite firstn_all2; [reflexivity|]. rewrite app_length. lia.
    + symmetry. apply N.ltb_ge. rewrite app_length. lia.
  - split; [reflexivity|split].
    + rewrite rev_app_distr, rev_involutive, Hb, firstn_app.
      rewrite (firstn_all2 full) by lia. f_equal. f_equal. lia.
    + symmetry. apply N.ltb_lt. rewrite app_length. lia.
Qed.

Lemma bput_BI cap s full p : BI cap s full -> BI cap (bput s p) (full ++ p).
Proof.
  intros H. unfold bput. destruct (berr s) eqn:E.
  - apply BI_absorb; assumption.
  - apply sink_write_BI; assumption.
Qed.

Lemma bstep_BI cap s full o : BI cap s full -> BI cap (bstep s o) (full ++ bop_bytes o).
Proof.
  intros H. destruct o as [k v|u|l]; cbn [bstep bop_bytes].
  - apply bput_BI, H.
  - rewrite <- be_bytes_48. destruct (berr s) eqn:E.
    + apply BI_absorb; assumption.
    + pose proof (sink_write_BI cap s full (be_bytes 2 (N.shiftr u 32 mod 65536)) H E) as H1.
      rewrite app_assoc.
      destruct (berr (sink_write s (be_bytes 2 (N.shiftr u 32 mod 65536)))) eqn:E1.
      * apply BI_absorb; assumption.
      * apply sink_write_BI; assumption.
  - apply bput_BI, H.
Qed.

Lemma bw_spec cap ops :
  bbytes (run_bw cap ops) = firstn (N.to_nat cap) (concat (map bop_bytes ops)) /\
  berr (run_bw cap ops) = (cap <? N.of_nat (length (concat (map bop_bytes ops)))).
Proof.
  unfold run_bw.
  assert (G : forall l s full, BI cap s full -> BI cap (fold_left bstep l s) (full ++ concat (map bop_bytes l))).
  { induction l as [|o t IH]; intros s full H; cbn [fold_left map concat].
    - rewrite app_nil_r. exact H.
    - rewrite app_assoc. apply IH, bstep_BI, H. }
  specialize (G ops (binit cap) [] ltac:(repeat split; [destruct (N.to_nat cap); reflexivity|destruct cap; reflexivity])).
  cbn [app] in G. destruct G as [_ [H1 H2]]. split; assumption.
Qed.
