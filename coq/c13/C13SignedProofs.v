(* C13SignedProofs.v — Reader.ReadSigned's sign extension in 64-bit int arithmetic is two's complement for every
   width 1..64; ReadSignedGolomb's result always fits an int (C13b). *)
From V.lib Require Import Base.
From V.c13 Require Import C13Spec C13Model C13ModelExt.

Lemma testbit_top v n : 1 <= n -> v < 2 ^ n -> N.testbit v (n - 1) = (2 ^ (n - 1) <=? v).
Proof.
  intros Hn Hv. rewrite N.testbit_eqb.
  assert (Hp : 2 ^ n = 2 * 2 ^ (n - 1)).
  { replace n with (N.succ (n - 1)) at 1 by lia. apply N.pow_succ_r'. }
  assert (Hpos : 0 < 2 ^ (n - 1)) by (apply pow2_pos).
  destruct (N.leb_spec (2 ^ (n - 1)) v) as [H|H].
  - replace (v / 2 ^ (n - 1)) with 1; [reflexivity|].
    apply (N.div_unique v (2 ^ (n - 1)) 1 (v - 2 ^ (n - 1))); lia.
  - rewrite N.div_small by exact H. reflexivity.
Qed.

Lemma lor_neg_pow2 a n : (0 <= a < 2 ^ n)%Z -> (0 <= n)%Z -> Z.lor a (Z.shiftl (-1) n) = (a - 2 ^ n)%Z.
Proof.
  intros Ha Hn.
  assert (Hland : Z.land a (Z.shiftl (-1) n) = 0%Z).
  { apply Z.bits_inj'. intros m Hm. rewrite Z.land_spec, Z.bits_0, Z.shiftl_spec by exact Hm.
    destruct (Z.ltb_spec m n) as [Hlt|Hge].
    - rewrite (Z.testbit_neg_r (-1) (m - n)) by lia. apply andb_false_r.
    - destruct (Z.eq_dec a 0) as [->|Hnz]; [rewrite Z.bits_0; reflexivity|].
      rewrite (Z.bits_above_log2 a m); [reflexivity|lia|].
      apply Z.lt_le_trans with n; [|exact Hge]. apply Z.log2_lt_pow2; lia. }
  rewrite <- Z.lxor_lor by exact Hland. rewrite <- Z.add_nocarry_lxor by exact Hland.
  rewrite Z.shiftl_mul_pow2 by exact Hn. lia.
Qed.

Lemma sext64_spec v n : 1 <= n <= 64 -> v < 2 ^ n ->
  sext64 v n = if N.testbit v (n - 1) then (Z.of_N v - 2 ^ Z.of_N n)%Z else Z.of_N v.
Proof.
  intros [Hn1 Hn64] Hv. rewrite (testbit_top v n Hn1 Hv). unfold sext64, to_int64.
  change 9223372036854775808 with (2 ^ 63). change 18446744073709551616%Z with (2 ^ 64)%Z.
  destruct (N.eq_dec n 64) as [->|Hne].
  - change (64 - 1) with 63. change (Z.of_N 63) with 63%Z. change (Z.of_N 64) with 64%Z.
    destruct (N.ltb_spec v (2 ^ 63)) as [Hlt|Hge].
    + destruct (N.leb_spec (2 ^ 63) v) as [H|_]; [lia|].
      rewrite Z.shiftr_div_pow2 by lia. rewrite Z.div_small; [reflexivity|].
      change (2 ^ 63) with 9223372036854775808 in Hlt. change (2 ^ 63)%Z with 9223372036854775808%Z. lia.
    + destruct (N.leb_spec (2 ^ 63) v) as [_|H]; [|lia].
      rewrite Z.shiftr_div_pow2 by lia.
      replace ((Z.of_N v - 2 ^ 64) / 2 ^ 63)%Z with (-1)%Z; [reflexivity|].
      change (2 ^ 63) with 9223372036854775808 in Hge. change (2 ^ 64) with 18446744073709551616 in Hv.
      apply (Z.div_unique (Z.of_N v - 2 ^ 64) (2 ^ 63) (-1) (Z.of_N v - 2 ^ 63)); [left|];
        change (2 ^ 63)%Z with 9223372036854775808%Z; change (2 ^ 64)%Z with 18446744073709551616%Z; lia.
  - assert (Hn63 : n <= 63) by lia.
    assert (Hp63 : 2 ^ n <= 2 ^ 63) by (apply N.pow_le_mono_r; lia).
    destruct (N.ltb_spec v (2 ^ 63)) as [_|H]; [|lia].
    assert (Hp : 2 ^ n = 2 * 2 ^ (n - 1)).
    { replace n with (N.succ (n - 1)) at 1 by lia. apply N.pow_succ_r'. }
    assert (Hpos : 0 < 2 ^ (n - 1)) by (apply pow2_pos).
    assert (Hzp : (2 ^ Z.of_N (n - 1))%Z = Z.of_N (2 ^ (n - 1))) by (rewrite N2Z.inj_pow; reflexivity).
    assert (Hzn : (2 ^ Z.of_N n)%Z = Z.of_N (2 ^ n)) by (rewrite N2Z.inj_pow; reflexivity).
    rewrite Z.shiftr_div_pow2 by lia. rewrite Hzp.
    destruct (N.leb_spec (2 ^ (n - 1)) v) as [Hge|Hlt].
    + replace (Z.of_N v / Z.of_N (2 ^ (n - 1)))%Z with 1%Z.
      2:{ apply (Z.div_unique (Z.of_N v) (Z.of_N (2 ^ (n - 1))) 1 (Z.of_N v - Z.of_N (2 ^ (n - 1)))); [left|]; lia. }
      cbn [Z.eqb Pos.eqb]. apply lor_neg_pow2; [rewrite Hzn; lia|lia].
    + rewrite Z.div_small by lia. reflexivity.
Qed.

(* the arithmetic never leaves the int range: ReadSigned(n) of an n-bit field, 1 <= n <= 64 *)
Lemma sext64_range v n : 1 <= n <= 64 -> v < 2 ^ n ->
  (- 2 ^ (Z.of_N n - 1) <= sext64 v n < 2 ^ (Z.of_N n - 1))%Z.
Proof.
  intros Hn Hv. rewrite (sext64_spec v n Hn Hv). rewrite (testbit_top v n (proj1 Hn) Hv).
  assert (Hp : 2 ^ n = 2 * 2 ^ (n - 1)).
  { replace n with (N.succ (n - 1)) at 1 by lia. apply N.pow_succ_r'. }
  assert (Hz1 : (2 ^ (Z.of_N n - 1))%Z = Z.of_N (2 ^ (n - 1))).
  { rewrite N2Z.inj_pow. f_equal. lia. }
  assert (Hz : (2 ^ Z.of_N n)%Z = Z.of_N (2 ^ n)) by (rewrite N2Z.inj_pow; reflexivity).
  rewrite Hz1, Hz. destruct (N.leb_spec (2 ^ (n - 1)) v); lia.
Qed.

(* two's complement round trip through the plain writer's masking: the low n bits of a signed value in range *)
Lemma sext64_twos z n : 1 <= n <= 64 -> (- 2 ^ (Z.of_N n - 1) <= z < 2 ^ (Z.of_N n - 1))%Z ->
  sext64 (Z.to_N (z mod 2 ^ Z.of_N n)) n = z.
Proof.
  intros Hn Hz.
  assert (Hp : 2 ^ n = 2 * 2 ^ (n - 1)).
  { replace n with (N.succ (n - 1)) at 1 by lia. apply N.pow_succ_r'. }
  assert (Hz1 : (2 ^ (Z.of_N n - 1))%Z = Z.of_N (2 ^ (n - 1))).
  { rewrite N2Z.inj_pow. f_equal. lia. }
  assert (Hzn : (2 ^ Z.of_N n)%Z = Z.of_N (2 ^ n)) by (rewrite N2Z.inj_pow; reflexivity).
  assert (Hpos : 0 < 2 ^ (n - 1)) by (apply pow2_pos).
  rewrite Hz1 in Hz.
  set (m := (z mod 2 ^ Z.of_N n)%Z).
  assert (Hm : (0 <= m < 2 ^ Z.of_N n)%Z) by (apply Z.mod_pos_bound; rewrite Hzn; lia).
  assert (Hv : Z.to_N m < 2 ^ n) by (rewrite Hzn in Hm; lia).
  rewrite (sext64_spec _ n Hn Hv), (testbit_top _ n (proj1 Hn) Hv).
  rewrite Z2N.id by lia. rewrite Hzn in *.
  destruct (Z.ltb_spec z 0) as [Hneg|Hnn].
  - assert (Em : m = (z + Z.of_N (2 ^ n))%Z).
    { unfold m. rewrite Hzn. symmetry. apply (Z.mod_unique z (Z.of_N (2 ^ n)) (-1)); [left; lia|lia]. }
    destruct (N.leb_spec (2 ^ (n - 1)) (Z.to_N m)); lia.
  - assert (Em : m = z) by (unfold m; rewrite Hzn; apply Z.mod_small; lia).
    destruct (N.leb_spec (2 ^ (n - 1)) (Z.to_N m)); lia.
Qed.

(* ReadExpGolomb returns a uint; ReadSignedGolomb's conversions to int never overflow *)
Lemma read_ue_u64 s : fst (read_ue s) < 18446744073709551616.
Proof.
  unfold read_ue. destruct (rerr s); [cbn; lia|].
  destruct (lz_loop _ s 0) as [[lz s1]|]; [|cbn; lia].
  destruct (rerr s1); [cbn; lia|].
  destruct (read s1 lz) as [e s2]. destruct (rerr s2); [cbn; lia|].
  cbn [fst]. unfold u64. apply N.mod_lt. lia.
Qed.

Lemma read_se64_fits_int s :
  (- 9223372036854775807 <= fst (read_se64 s) <= 9223372036854775807)%Z.
Proof.
  unfold read_se64. pose proof (read_ue_u64 s) as Hu. destruct (read_ue s) as [u s1]. cbn [fst] in Hu.
  destruct (rerr s1); [cbn; lia|].
  destruct (N.eqb_spec (u mod 2) 1) as [Hodd|Heven]; cbn [fst].
  - assert (H : u64 (u + 1) / 2 <= 9223372036854775807).
    { unfold u64. pose proof (N.mod_lt (u + 1) 18446744073709551616 ltac:(lia)) as Hm.
      apply N.lt_succ_r. apply N.div_lt_upper_bound; lia. }
    lia.
  - assert (H : u / 2 <= 9223372036854775807).
    { apply N.lt_succ_r. apply N.div_lt_upper_bound; [lia|].
      destruct (N.eq_dec u 18446744073709551615) as [->|]; [exfalso; apply Heven; reflexivity|lia]. }
    lia.
Qed.
