From V.lib Require Import Base.
(* C13UeLoopProofs.v — WriteExpGolomb's prefix loop in uint arithmetic (C13ModelExt.ue_loop64, every + and << wrapping
   at 2^64): it is the loop of C13Model.ue_loop (computed in N) for every value but the maximal uint, for which it
   never returns (C13b; the repaired code does not enter the loop above 2^57 - 2). *)
From V.c13 Require Import C13Spec C13Model C13Bits C13EscProofs C13WriterProofs C13ModelExt.

Lemma u64_shift_big p : 64 <= p -> u64 (N.shiftl 1 p) = 0.
Proof.
  intros Hp. rewrite N.shiftl_1_l. unfold u64. change 18446744073709551616 with (2 ^ 64).
  replace p with ((p - 64) + 64) by lia. rewrite N.pow_add_r. apply N.mod_mul. cbn. lia.
Qed.

Lemma u64_shift_small p : p < 64 -> u64 (N.shiftl 1 p) = 2 ^ p.
Proof.
  intros Hp. rewrite N.shiftl_1_l. unfold u64. apply N.mod_small.
  change 18446744073709551616 with (2 ^ 64). apply N.pow_lt_mono_r; lia.
Qed.

(* the loop state after p iterations *)
Definition ue_state (p offset max : N) : Prop :=
  (p < 64 /\ offset = 2 ^ p - 1 /\ max = 2 ^ (p + 1) - 2) \/
  (64 <= p /\ offset = M64 /\ max = M64 - 1).

Lemma ue_loop64_stuck fuel : forall p offset max,
  ue_state p offset max -> p + N.of_nat fuel < 18446744073709551616 ->
  ue_loop64 fuel M64 offset p max = None.
Proof.
  induction fuel as [|f IH]; intros p offset max Hst Hfuel; cbn [ue_loop64]; [reflexivity|].
  assert (Hgt : (M64 <=? max) = false).
  { apply N.leb_gt. destruct Hst as [[Hp [_ ->]]|[_ [_ ->]]]; [|unfold M64; lia].
    assert (H : 2 ^ (p + 1) <= 2 ^ 64) by (apply N.pow_le_mono_r; lia).
    change (2 ^ 64) with 18446744073709551616 in H. unfold M64. lia. }
  rewrite Hgt.
  assert (Hp1 : u64 (p + 1) = p + 1) by (unfold u64; apply N.mod_small; lia).
  rewrite Hp1. apply IH; [|lia].
  destruct Hst as [[Hp [-> ->]]|[Hp [-> ->]]].
  - assert (Hpow : 2 ^ (p + 1) = 2 * 2 ^ p) by (rewrite N.add_1_r; apply N.pow_succ_r').
    assert (Hpos : 0 < 2 ^ p) by (apply pow2_pos).
    assert (Hle : 2 ^ p <= 2 ^ 63) by (apply N.pow_le_mono_r; lia).
    change (2 ^ 63) with 9223372036854775808 in Hle.
    rewrite (u64_shift_small p Hp).
    assert (Ho : u64 (2 ^ p - 1 + 2 ^ p) = 2 ^ (p + 1) - 1) by (unfold u64; rewrite N.mod_small; lia).
    rewrite Ho.
    destruct (N.eq_dec p 63) as [->|Hne].
    + right. change (63 + 1) with 64. rewrite (u64_shift_big 64) by lia.
      split; [lia|]. split; vm_compute; reflexivity.
    + left. assert (Hp' : p + 1 < 64) by lia.
      rewrite (u64_shift_small (p + 1) Hp').
      assert (Hle' : 2 ^ (p + 1) <= 2 ^ 63) by (apply N.pow_le_mono_r; lia).
      change (2 ^ 63) with 9223372036854775808 in Hle'.
      assert (Hpow' : 2 ^ (p + 1 + 1) = 2 * 2 ^ (p + 1)) by (rewrite (N.add_1_r (p + 1)); apply N.pow_succ_r').
      split; [exact Hp'|]. split; [reflexivity|].
      unfold u64. rewrite (N.mod_small (2 ^ (p + 1) - 1 + 2 ^ (p + 1))) by lia.
      replace (2 ^ (p + 1) - 1 + 2 ^ (p + 1) + 18446744073709551615)
        with ((2 ^ (p + 1 + 1) - 2) + 1 * 18446744073709551616) by lia.
      rewrite N.mod_add by lia. apply N.mod_small. lia.
  - right. rewrite (u64_shift_big p Hp), (u64_shift_big (p + 1)) by lia.
    split; [lia|]. split; vm_compute; reflexivity.
Qed.

(* WriteExpGolomb's prefix loop entered with the maximal uint (as the code before repo commit 9ec0951 did) does not
   return within any number of iterations below 2^64 *)
Lemma ue_loop64_diverges fuel :
  N.of_nat fuel < 18446744073709551616 -> ue_loop64 fuel M64 0 0 0 = None.
Proof.
  intros H. apply ue_loop64_stuck; [|lia]. left. split; [lia|]. split; reflexivity.
Qed.

(* for every other value the wrapping loop finds floor(log2(nr + 1)) without any wrap-around ... *)
Lemma ue_loop64_spec fuel : forall nr p,
  nr < M64 -> 2 ^ p <= nr + 1 -> nr + 1 < 2 ^ (p + N.of_nat fuel) ->
  exists q, ue_loop64 fuel nr (2 ^ p - 1) p (2 ^ (p + 1) - 2) = Some (q, nr + 1 - 2 ^ q)
            /\ 2 ^ q <= nr + 1 < 2 ^ (q + 1).
Proof.
  induction fuel as [|f IH]; intros nr p Hnr Hlo Hhi.
  - replace (p + N.of_nat 0) with p in Hhi by lia. lia.
  - cbn [ue_loop64]. unfold M64 in Hnr.
    assert (Hp : p < 64).
    { destruct (N.lt_ge_cases p 64) as [H|H]; [exact H|].
      assert (H64 : 2 ^ 64 <= 2 ^ p) by (apply N.pow_le_mono_r; lia).
      change (2 ^ 64) with 18446744073709551616 in H64. lia. }
    assert (Hpos : 0 < 2 ^ p) by (apply pow2_pos).
    assert (Hp1 : 2 ^ (p + 1) = 2 * 2 ^ p) by (rewrite N.add_1_r; apply N.pow_succ_r').
    assert (Hle : 2 ^ p <= 2 ^ 63) by (apply N.pow_le_mono_r; lia).
    change (2 ^ 63) with 9223372036854775808 in Hle.
    destruct (N.leb_spec nr (2 ^ (p + 1) - 2)) as [Hin|Hgt].
    + exists p. split; [|lia]. f_equal. f_equal. unfold u64.
      replace (nr + 18446744073709551616 - (2 ^ p - 1)) with ((nr + 1 - 2 ^ p) + 1 * 18446744073709551616) by lia.
      rewrite N.mod_add by lia. apply N.mod_small. lia.
    + assert (Hp' : p + 1 < 64).
      { destruct (N.eq_dec p 63) as [->|]; [|lia]. change (2 ^ (63 + 1)) with 18446744073709551616 in Hgt. lia. }
      assert (Hle' : 2 ^ (p + 1) <= 2 ^ 63) by (apply N.pow_le_mono_r; lia).
      change (2 ^ 63) with 9223372036854775808 in Hle'.
      assert (Hp2 : 2 ^ (p + 1 + 1) = 2 * 2 ^ (p + 1)) by (rewrite (N.add_1_r (p + 1)); apply N.pow_succ_r').
      rewrite (u64_shift_small p Hp).
      replace (u64 (2 ^ p - 1 + 2 ^ p)) with (2 ^ (p + 1) - 1) by (unfold u64; rewrite N.mod_small; lia).
      replace (u64 (p + 1)) with (p + 1) by (unfold u64; rewrite N.mod_small; lia).
      rewrite (u64_shift_small (p + 1) Hp').
      replace (u64 (u64 (2 ^ (p + 1) - 1 + 2 ^ (p + 1)) + 18446744073709551615)) with (2 ^ (p + 1 + 1) - 2).
      2:{ unfold u64. rewrite (N.mod_small (2 ^ (p + 1) - 1 + 2 ^ (p + 1))) by lia.
          replace (2 ^ (p + 1) - 1 + 2 ^ (p + 1) + 18446744073709551615)
            with ((2 ^ (p + 1 + 1) - 2) + 1 * 18446744073709551616) by lia.
          rewrite N.mod_add by lia. symmetry. apply N.mod_small. lia. }
      apply IH; [unfold M64; lia|lia|].
      replace (p + 1 + N.of_nat f) with (p + N.of_nat (S f)) by lia. exact Hhi.
Qed.

(* ... and is the loop of C13Model.ue_loop, which computes in N: the model's loop is faithful to the uint loop *)
Lemma ue_loop64_agrees nr : nr < M64 -> ue_loop64 64 nr 0 0 0 = Some (ue_loop 64 nr 0 0 0).
Proof.
  intros Hnr.
  assert (Hhi : nr + 1 < 2 ^ (0 + N.of_nat 64)) by (unfold M64 in Hnr; cbn; lia).
  destruct (ue_loop64_spec 64 nr 0 Hnr ltac:(cbn; lia) Hhi) as [q [Hq Hb]].
  destruct (C13WriterProofs.ue_loop_spec 64 nr 0 ltac:(cbn; lia) Hhi) as [q' [Hq' Hb']].
  change (2 ^ 0 - 1) with 0 in *. change (2 ^ (0 + 1) - 2) with 0 in *.
  rewrite Hq, Hq'.
  assert (E : q = q').
  { transitivity (N.log2 (nr + 1)); [symmetry|]; apply N.log2_unique; try lia;
      rewrite <- N.add_1_r; tauto. }
  subst q'. reflexivity.
Qed.
