(* C13ModelTail.v — the two methods of the anchored files that C13Model.v / C13ModelExt.v did not have
   (those two files stay byte-identical: other properties import them):
     bits.Reader.ReadRemainingBytes (bits/reader.go), FixedSliceWriter.WriteString (bits/fixedslicewriter.go).
   Definitions only.  Transcribed from the Go text: what the code does, not what it should do. *)
From V.lib Require Import Base.
From V.c13 Require Import C13Model C13ModelExt.

(* ------------------------------------------------------------------ Reader.ReadRemainingBytes *)
(* func (r *Reader) ReadRemainingBytes() []byte {
     if r.err != nil { return nil }
     if r.n != 0 { r.err = fmt.Errorf("%d bit instead of byte alignment ..."); return nil }
     rest, err := io.ReadAll(r.rd); if err != nil { r.err = err; return nil }
     return rest }
   None = nil; Some l = the (non-nil, possibly empty) slice io.ReadAll returned.
   r.pos is NOT advanced by the bytes handed out, so the byte / bit counters stay where they were, and the
   underlying reader is exhausted afterwards: modelled by cutting rdata at rpos (every later refill then runs
   into EOF at the same counter values, as the real reader does).  The io.Reader is a bytes.Reader: io.ReadAll
   itself cannot fail. *)
Definition read_remaining (s : rstate) : option (list N) * rstate :=
  if rerr s then (None, s)
  else if negb (rn s =? 0) then (None, mkR (rn s) (rv s) (rpos s) (rzc s) true (rdata s))
  else (Some (skipn (N.to_nat (rpos s)) (rdata s)),
        mkR (rn s) (rv s) (rpos s) (rzc s) false (firstn (N.to_nat (rpos s)) (rdata s))).

(* ------------------------------------------------------------------ FixedSliceWriter.WriteString *)
(* func (sw *FixedSliceWriter) WriteString(s string, addZeroEnd bool) {
     nrNew := len(s); if addZeroEnd { nrNew++ }
     if sw.off+nrNew > len(sw.buf) { sw.accError = ErrSliceWrite; return }
     copy(sw.buf[sw.off:sw.off+len(s)], s); sw.off += len(s)
     if addZeroEnd { sw.buf[sw.off] = 0; sw.off++ } }
   the string is its bytes; accError is NOT consulted (as in the other byte-level methods) *)
Definition fput_string (s : fsw) (l : list N) (z : bool) : fsw :=
  let nrNew := N.of_nat (length l) + (if z then 1 else 0) in
  if fcap s <? foff s + nrNew then mkF (fcap s) (frev s) true (fn s) (fv s)
  else
    let s1 := mkF (fcap s) (rev l ++ frev s) (ferr s) (fn s) (fv s) in
    if z then mkF (fcap s1) (0 :: frev s1) (ferr s1) (fn s1) (fv s1) else s1.

(* the ops of C13ModelExt.fop plus WriteString *)
Inductive fop2 :=
| F1 (o : fop)
| FStr (l : list N) (z : bool).    (* WriteString(string(l), z) *)

Definition fstep2 (s : fsw) (o : fop2) : fsw :=
  match o with
  | F1 o => fstep s o
  | FStr l z => fput_string s l z
  end.

Definition run_fsw2 (cap : N) (ops : list fop2) : fsw := fold_left fstep2 ops (finit cap).

(* what WriteString means in terms of the ops there were: WriteBytes of the bytes and the terminator, at once *)
Definition lower_fop2 (o : fop2) : fop :=
  match o with
  | F1 o => o
  | FStr l z => FBytes (l ++ (if z then [0] else []))
  end.
