(* C13TailProofs2.v — Reader.ReadRemainingBytes and FixedSliceWriter.WriteString (models: C13ModelTail.v).
   ReadRemainingBytes in the bit-stream view of the plain reader (pbits), the round trip "values + Flush,
   then arbitrary bytes" and WriteString as the WriteBytes of its bytes and terminator. *)
From V.lib Require Import Base.
From V.c13 Require Import C13Spec C13Model C13Bits C13WriterProofs C13ReaderProofs C13RoundTrip C13PlainProofs
  C13ModelExt C13ModelTail C13FswProofs.

(* ------------------------------------------------------------------ WriteString *)
Definition str_bytes (l : list N) (z : bool) : list N := l ++ (if z then [0] else []).

Lemma fput_string_is_fput s l z : fput_string s l z = fput s (str_bytes l z).
Proof.
  unfold fput_string, fput, str_bytes. rewrite app_length. destruct z; cbn [length].
  - replace (N.of_nat (length l + 1)) with (N.of_nat (length l) + 1) by lia.
    destruct (fcap s <? foff s + (N.of_nat (length l) + 1)); [reflexivity|].
    cbn [fcap frev ferr fn fv]. rewrite rev_app_distr. reflexivity.
  - rewrite Nat.add_0_r, N.add_0_r.
    destruct (fcap s <? foff s + N.of_nat (length l)); [reflexivity|].
    rewrite app_nil_r. reflexivity.
Qed.

Lemma fstep2_lower s o : fstep2 s o = fstep s (lower_fop2 o).
Proof. destruct o as [o|l z]; cbn [fstep2 lower_fop2 fstep]; [reflexivity|apply fput_string_is_fput]. Qed.

Lemma run_fsw2_lower cap ops : run_fsw2 cap ops = run_fsw cap (map lower_fop2 ops).
Proof.
  unfold run_fsw2, run_fsw. generalize (finit cap).
  induction ops as [|o t IH]; intros s; cbn [fold_left map]; [reflexivity|].
  rewrite fstep2_lower. apply IH.
Qed.

Lemma run_fsw2_within_capacity cap ops : foff (run_fsw2 cap ops) <= cap.
Proof. rewrite run_fsw2_lower. apply run_fsw_within_capacity. Qed.

(* all or nothing: the bytes of the string and the terminator, or only the error *)
Lemma fput_string_cases s l z :
  if fcap s <? foff s + N.of_nat (length (str_bytes l z))
  then fbytes (fput_string s l z) = fbytes s /\ ferr (fput_string s l z) = true
  else fbytes (fput_string s l z) = fbytes s ++ str_bytes l z /\ ferr (fput_string s l z) = ferr s.
Proof.
  rewrite fput_string_is_fput. unfold fput.
  destruct (fcap s <? foff s + N.of_nat (length (str_bytes l z))); unfold fbytes; cbn [frev ferr].
  - split; reflexivity.
  - rewrite rev_app_distr, rev_involutive. split; reflexivity.
Qed.

Lemma fput_string_bits s l z : fn (fput_string s l z) = fn s /\ fv (fput_string s l z) = fv s /\ fcap (fput_string s l z) = fcap s.
Proof.
  rewrite fput_string_is_fput. unfold fput.
  destruct (fcap s <? foff s + N.of_nat (length (str_bytes l z))); cbn [fn fv fcap]; repeat split.
Qed.

(* ------------------------------------------------------------------ ReadRemainingBytes *)
Lemma skipn_firstn_nil {A} n (l : list A) : skipn n (firstn n l) = [].
Proof. apply skipn_all2. apply firstn_le_length. Qed.

Lemma Forall_firstn_ {A} (P : A -> Prop) n l : Forall P l -> Forall P (firstn n l).
Proof.
  intros H. rewrite <- (firstn_skipn n l) in H. apply Forall_app in H. apply H.
Qed.

Lemma Forall_skipn_ {A} (P : A -> Prop) n l : Forall P l -> Forall P (skipn n l).
Proof.
  intros H. rewrite <- (firstn_skipn n l) in H. apply Forall_app in H. apply H.
Qed.

(* the reader has handed out everything: no pending bits, nothing behind rpos *)
Definition Drained (s : rstate) : Prop :=
  rerr s = false /\ rn s = 0 /\ skipn (N.to_nat (rpos s)) (rdata s) = [].

(* a read of at least one bit from a drained reader fails at once: 0, error set, counters where they were *)
Lemma read_plain_drained s n :
  Drained s -> 1 <= n ->
  exists s', read_plain s n = (0, s') /\ rerr s' = true /\ rpos s' = rpos s /\ rn s' = 0.
Proof.
  intros [He [Hn Hsk]] H1. unfold read_plain, read_gen. rewrite He.
  cbn [fill]. rewrite Hn.
  destruct (N.ltb_spec 0 n) as [_|Hc]; [|lia].
  unfold byte_at.
  destruct (nth_error (rdata s) (N.to_nat (rpos s))) as [b|] eqn:Eb.
  { rewrite (nth_error_skipn _ _ _ Eb) in Hsk. discriminate. }
  cbn [rerr]. eexists. split; [reflexivity|]. cbn [rerr rpos rn]. repeat split; try exact Hn; try reflexivity.
Qed.

Lemma read_remaining_spec s :
  RGood s ->
  if rn s =? 0 then
    exists tail s', read_remaining s = (Some tail, s') /\
      pbits s = bytes_to_bits tail /\ Forall lt256 tail /\
      RGood s' /\ Drained s' /\ pbits s' = [] /\ rpos s' = rpos s
  else
    exists s', read_remaining s = (None, s') /\ rerr s' = true /\ rpos s' = rpos s /\ rn s' = rn s.
Proof.
  intros [[He [Hv Hd]] Hrn]. unfold read_remaining. rewrite He.
  destruct (N.eqb_spec (rn s) 0) as [E|E]; cbn [negb].
  - eexists. eexists. split; [reflexivity|].
    assert (Hp : pbits s = bytes_to_bits (skipn (N.to_nat (rpos s)) (rdata s))).
    { unfold pbits. rewrite E. reflexivity. }
    split; [exact Hp|]. split; [apply Forall_skipn_; exact Hd|].
    split; [|split; [|split]].
    + split; [|cbn [rn]; exact Hrn]. unfold RInv. cbn [rerr rv rn rdata].
      split; [reflexivity|]. split; [exact Hv|]. apply Forall_firstn_. exact Hd.
    + unfold Drained. cbn [rerr rn rpos rdata]. split; [reflexivity|]. split; [exact E|].
      apply skipn_firstn_nil.
    + unfold pbits. cbn [rn rv rpos rdata]. rewrite E, skipn_firstn_nil. reflexivity.
    + reflexivity.
  - eexists. split; [reflexivity|]. cbn [rerr rpos rn]. repeat split.
Qed.

Lemma read_remaining_sticky s : rerr s = true -> read_remaining s = (None, s).
Proof. intros H. unfold read_remaining. rewrite H. reflexivity. Qed.

(* the reads of the written values, with the final state (C13PlainProofs.run_reader_plain_values keeps only rerr) *)
Definition plain_reads (ops : list wop) (acc : list N) (s : rstate) : list N * rstate :=
  fold_left (fun '(acc, st) o =>
               match o with
               | WBits _ w => let '(v, st') := read_plain st w in (acc ++ [v], st')
               | _ => let '(v, st') := read_plain st 1 in (acc ++ [v], st')
               end) ops (acc, s).

Definition plain_vals (ops : list wop) : list N :=
  map (fun o => match o with WBits v _ => v | WFlag b => N.b2n b | _ => 0 end) ops.

Lemma plain_reads_state : forall ops acc s rest,
  forallb plain_op ops = true -> RGood s -> pbits s = concat (map pvbits ops) ++ rest ->
  exists s', plain_reads ops acc s = (acc ++ plain_vals ops, s') /\
             RGood s' /\ pbits s' = rest /\ rdata s' = rdata s.
Proof.
  unfold plain_reads, plain_vals.
  induction ops as [|o t IH]; intros acc s rest Hok HG Hb.
  - exists s. cbn [fold_left map]. rewrite app_nil_r. repeat split; try apply HG. exact Hb.
  - cbn [forallb] in Hok. apply andb_true_iff in Hok. destruct Hok as [Ho Ht].
    cbn [map concat] in Hb. rewrite <- app_assoc in Hb. cbn [fold_left].
    destruct o as [v w|b| | | | | |]; cbn [plain_op] in Ho; try discriminate; cbn [pvbits] in Hb.
    + apply andb_true_iff in Ho. destruct Ho as [Hw Hv]. apply N.leb_le in Hw. apply N.ltb_lt in Hv.
      destruct (read_plain_prefix s w _ _ HG ltac:(lia) Hb (bits_of_length _ _)) as [s1 [Hr [Hb1 [HG1 Hd1]]]].
      rewrite Hr, val_of_bits_of, N2Nat.id, N.mod_small by exact Hv.
      destruct (IH (acc ++ [v]) s1 rest Ht HG1 Hb1) as [s2 [H2 [HG2 [Hb2 Hd2]]]].
      exists s2. rewrite H2. split; [|split; [exact HG2|split; [exact Hb2|congruence]]].
      cbn [map]. rewrite <- app_assoc. reflexivity.
    + destruct (read_plain_prefix s 1 [b] _ HG ltac:(lia) Hb eq_refl) as [s1 [Hr [Hb1 [HG1 Hd1]]]].
      rewrite Hr.
      destruct (IH (acc ++ [val_of [b]]) s1 rest Ht HG1 Hb1) as [s2 [H2 [HG2 [Hb2 Hd2]]]].
      exists s2. rewrite H2. split; [|split; [exact HG2|split; [exact Hb2|congruence]]].
      cbn [map]. rewrite <- app_assoc. destruct b; reflexivity.
Qed.

(* the byte position never runs past the input (both readers) *)
Lemma fill_pos_le esc fuel : forall s n,
  (N.to_nat (rpos s) <= length (rdata s))%nat ->
  rdata (fill esc fuel s n) = rdata s /\ (N.to_nat (rpos (fill esc fuel s n)) <= length (rdata s))%nat.
Proof.
  induction fuel as [|f IH]; intros s n H; cbn [fill]; [split; [reflexivity|exact H]|].
  destruct (rn s <? n); [|split; [reflexivity|exact H]].
  unfold byte_at.
  destruct (nth_error (rdata s) (N.to_nat (rpos s))) as [b|] eqn:Eb; [|cbn [rdata rpos]; split; [reflexivity|exact H]].
  assert (H1 : (N.to_nat (rpos s) < length (rdata s))%nat) by (apply nth_error_Some; congruence).
  destruct (esc && (rzc s =? 2) && (b =? 3)).
  - destruct (nth_error (rdata s) (N.to_nat (rpos s + 1))) as [b'|] eqn:Eb2.
    + assert (H2 : (N.to_nat (rpos s + 1) < length (rdata s))%nat) by (apply nth_error_Some; congruence).
      match goal with |- context [fill esc f ?st n] => destruct (IH st n) as [Hd Hp] end.
      { cbn [rpos rdata]. lia. }
      cbn [rdata] in Hd, Hp. split; [exact Hd|exact Hp].
    + cbn [rdata rpos]. split; [reflexivity|lia].
  - match goal with |- context [fill esc f ?st n] => destruct (IH st n) as [Hd Hp] end.
    { cbn [rpos rdata]. lia. }
    cbn [rdata] in Hd, Hp. split; [exact Hd|exact Hp].
Qed.

Lemma read_gen_pos_le esc s n :
  (N.to_nat (rpos s) <= length (rdata s))%nat ->
  rdata (snd (read_gen esc s n)) = rdata s /\ (N.to_nat (rpos (snd (read_gen esc s n))) <= length (rdata s))%nat.
Proof.
  intros H. unfold read_gen. destruct (rerr s); [cbn [snd]; split; [reflexivity|exact H]|].
  destruct (fill_pos_le esc (S (N.to_nat (n / 8) + 1)) s n H) as [Hd Hp].
  destruct (rerr (fill esc (S (N.to_nat (n / 8) + 1)) s n)); cbn [snd rdata rpos]; split; assumption.
Qed.

Lemma plain_reads_pos_le : forall ops acc s,
  (N.to_nat (rpos s) <= length (rdata s))%nat ->
  (N.to_nat (rpos (snd (plain_reads ops acc s))) <= length (rdata s))%nat.
Proof.
  unfold plain_reads. induction ops as [|o t IH]; intros acc s H; cbn [fold_left]; [exact H|].
  assert (G : forall w, (N.to_nat (rpos (snd (read_plain s w))) <= length (rdata (snd (read_plain s w))))%nat
                        /\ rdata (snd (read_plain s w)) = rdata s).
  { intros w. destruct (read_gen_pos_le false s w H) as [Hd Hp]. unfold read_plain. rewrite Hd. split; [exact Hp|reflexivity]. }
  destruct o as [v w|b| | | | | |];
    match goal with |- context [read_plain s ?w] =>
      destruct (G w) as [Hp Hd]; destruct (read_plain s w) as [x st'] eqn:E; cbn [snd] in Hp, Hd;
      rewrite <- Hd; apply IH; exact Hp end.
Qed.

(* Flush with the length of the padding *)
Lemma flush_plain_pad s cur :
  PStream s cur ->
  exists pad, bytes_to_bits (wout (flush_plain s)) = cur ++ pad /\ (length pad < 8)%nat /\
              Forall (fun b => b < 256) (wout (flush_plain s)).
Proof.
  intros HS. destruct (flush_plain_out s cur HS) as [pad [Hb Hlt]].
  destruct HS as [raw [[Hn [Hr Ho]] Hc]].
  exists pad. split; [exact Hb|]. split; [|exact Hlt].
  pose proof (f_equal (@length bool) Hb) as HL.
  rewrite bytes_to_bits_length, app_length, <- Hc, app_length, bytes_to_bits_length in HL.
  unfold pending in HL. rewrite bits_of_length in HL.
  unfold flush_plain in HL. unfold wout in HL.
  destruct (N.eqb_spec (wn s) 0) as [E|E].
  - rewrite Ho, rev_involutive in HL. lia.
  - cbn [wrev] in HL. rewrite Ho in HL. cbn [rev] in HL. rewrite rev_involutive, app_length in HL.
    cbn [length] in HL. lia.
Qed.

(* values (widths 1..32 that fit, flags) written with Writer / FixedSliceWriter.WriteBits, Flush, then arbitrary bytes:
   the values are read back; if they fill whole bytes ReadRemainingBytes returns exactly the bytes behind them and
   leaves the reader drained without error, otherwise (1..7 padding bits pending) it returns nil and sets the error *)
Lemma remaining_roundtrip ops tail :
  forallb plain_op ops = true -> Forall lt256 tail ->
  let head := wout (flush_plain (run_writer_plain ops)) in
  exists s1, plain_reads ops [] (rinit (head ++ tail)) = (plain_vals ops, s1) /\ rerr s1 = false /\
    if (N.of_nat (length (concat (map pvbits ops))) mod 8 =? 0)
    then exists s2, read_remaining s1 = (Some tail, s2) /\ Drained s2 /\ rpos s2 = N.of_nat (length head)
    else exists s2, read_remaining s1 = (None, s2) /\ rerr s2 = true.
Proof.
  intros Hok Htail head.
  assert (HS : PStream (run_writer_plain ops) (concat (map pvbits ops))).
  { exact (run_plain_stream ops winit [] ltac:(exists []; split; [apply WInv_init|reflexivity]) Hok). }
  destruct (flush_plain_pad _ _ HS) as [pad [Hbits [Hpad Hlt]]].
  fold head in Hbits, Hlt.
  set (data := head ++ tail).
  set (cur := concat (map pvbits ops)) in *.
  assert (HG0 : RGood (rinit data)).
  { split; [apply RInv_init; unfold data; apply Forall_app; split; [exact Hlt|exact Htail]|cbn; lia]. }
  assert (Hp0 : pbits (rinit data) = cur ++ (pad ++ bytes_to_bits tail)).
  { unfold pbits, rinit. cbn [rn rv rpos rdata N.to_nat bits_of skipn app].
    unfold data. rewrite bytes_to_bits_app, Hbits, <- app_assoc. reflexivity. }
  destruct (plain_reads_state ops [] (rinit data) _ Hok HG0 Hp0) as [s1 [Hr [HG1 [Hp1 Hd1]]]].
  exists s1. split; [exact Hr|]. split; [apply HG1|].
  cbn [rinit rdata] in Hd1.
  pose proof (f_equal (@length bool) Hbits) as HL.
  rewrite bytes_to_bits_length, app_length in HL.
  pose proof (read_remaining_spec s1 HG1) as HR.
  pose proof (f_equal (@length bool) Hp1) as HL1.
  unfold pbits in HL1. rewrite !app_length, bits_of_length, !bytes_to_bits_length in HL1.
  assert (Hsk : length (skipn (N.to_nat (rpos s1)) (rdata s1)) = (length data - N.to_nat (rpos s1))%nat).
  { rewrite Hd1. apply skipn_length. }
  rewrite Hsk in HL1.
  assert (Hdl : length data = (length head + length tail)%nat) by (unfold data; apply app_length).
  destruct HG1 as [HI1 Hrn1].
  pose proof (N.div_mod (N.of_nat (length cur)) 8 ltac:(lia)) as Hdm.
  pose proof (N.mod_lt (N.of_nat (length cur)) 8 ltac:(lia)) as Hml.
  destruct (N.eqb_spec (N.of_nat (length cur) mod 8) 0) as [Em|Em].
  - (* whole bytes: no padding, nothing pending *)
    assert (Hpad0 : length pad = 0%nat) by lia.
    assert (Hrn0 : rn s1 = 0) by lia.
    rewrite Hrn0 in HR. cbn [N.eqb] in HR.
    destruct HR as [tl [s2 [Hrr [Hpt [_ [_ [Hdr [_ Hpos]]]]]]]].
    assert (Hle : (N.to_nat (rpos s1) <= length data)%nat).
    { pose proof (plain_reads_pos_le ops [] (rinit data) ltac:(cbn; lia)) as Hq.
      rewrite Hr in Hq. cbn [snd rinit rdata] in Hq. exact Hq. }
    assert (Hrp : N.to_nat (rpos s1) = length head) by lia.
    assert (Htl : tl = tail).
    { unfold read_remaining in Hrr. destruct HI1 as [He1 _]. rewrite He1, Hrn0 in Hrr. cbn [N.eqb negb] in Hrr.
      inversion Hrr as [[Ht Hs]]. rewrite Hd1, Hrp. unfold data.
      rewrite skipn_app, Nat.sub_diag, skipn_O, skipn_all. reflexivity. }
    subst tl. exists s2. split; [exact Hrr|]. split; [exact Hdr|]. rewrite Hpos. lia.
  - (* 1..7 padding bits are pending *)
    assert (Hrn0 : rn s1 <> 0) by lia.
    destruct (N.eqb_spec (rn s1) 0) as [E|_]; [contradiction|].
    destruct HR as [s2 [Hrr [He2 _]]]. exists s2. split; [exact Hrr|exact He2].
Qed.
