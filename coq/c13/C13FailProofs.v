(* C13FailProofs.v — EBSPWriter / Writer over an io.Writer that fails after k one-byte writes (C13b):
   the bytes delivered are exactly the first k bytes of the fault-free output (all of it when it is not longer),
   the accumulated error reports the cut exactly, and without a failure the model is C13Model's writer. *)
From V.lib Require Import Base.
From V.c13 Require Import C13Spec C13Model C13ModelExt.

Definition lenN {A} (l : list A) : N := N.of_nat (length l).

Lemma lenN_app {A} (a b : list A) : lenN (a ++ b) = lenN a + lenN b.
Proof. unfold lenN. rewrite app_length. lia. Qed.

Lemma lenN_nonempty {A} (e : list A) : e <> [] -> 0 < lenN e.
Proof. destruct e; [congruence|]. unfold lenN. cbn [length]. lia. Qed.

(* ------------------------------------------------------------------ a sink that never fails = C13Model *)
Lemma emit_byte_x_none esc b z out :
  emit_byte_x esc b z out None = (true, fst (emit_byte esc b z out), snd (emit_byte esc b z out), None).
Proof.
  unfold emit_byte_x, emit_byte, room, take.
  destruct (esc && (z =? 2) && (b <=? 3)); cbn [fst snd]; destruct (b =? 0); reflexivity.
Qed.

Lemma drain_x_none esc fuel : forall V T z out,
  drain_x esc fuel V T z out None =
  let '(T', z', o') := drain esc fuel V T z out in (true, T', z', o', None).
Proof.
  induction fuel as [|f IH]; intros V T z out; cbn [drain_x drain]; [reflexivity|].
  destruct (8 <=? T); [|reflexivity].
  rewrite emit_byte_x_none.
  destruct (emit_byte esc (N.land (N.shiftr V (T - 8)) 255) z out) as [z1 o1]. cbn [fst snd].
  apply IH.
Qed.

Lemma write_x_none esc s v n :
  write_x esc (mkWX s false None) v n = mkWX (write_gen esc s v n) false None.
Proof.
  unfold write_x, write_gen. cbn [xerr xs xrem]. rewrite drain_x_none.
  destruct (drain esc _ _ _ _ _) as [[T' z'] o']. reflexivity.
Qed.

(* ops that the repaired WriteExpGolomb accepts *)
Definition ue_ok (o : wop) : bool :=
  match o with
  | WUe v => v <=? max_ue
  | WSe k => se_to_ue k <=? max_ue
  | WFlush => false
  | _ => true
  end.

Lemma write_ue_x_none s v : v <= max_ue -> write_ue_x (mkWX s false None) v = mkWX (write_ue s v) false None.
Proof.
  intros Hv. unfold write_ue_x, write_ue.
  destruct (N.ltb_spec max_ue v) as [H|_]; [lia|].
  destruct (ue_loop 64 v 0 0 0) as [p delta].
  unfold write. rewrite write_x_none. destruct (0 <? p); [apply write_x_none|reflexivity].
Qed.

Lemma write_sei_x_none fuel : forall s v,
  write_sei_value_x_fuel fuel (mkWX s false None) v = mkWX (write_sei_value_fuel fuel s v) false None.
Proof.
  induction fuel as [|f IH]; intros s v; cbn [write_sei_value_x_fuel write_sei_value_fuel]; [reflexivity|].
  unfold write. destruct (255 <=? v); rewrite write_x_none; [apply IH|reflexivity].
Qed.

Lemma stuff_zeros_x_none s : stuff_zeros_x (mkWX s false None) = mkWX (stuff_zeros s) false None.
Proof.
  unfold stuff_zeros_x, stuff_zeros. cbn [xs]. destruct (0 <? wn s); [apply write_x_none|reflexivity].
Qed.

Lemma wxstep_none s o : ue_ok o = true -> wxstep (mkWX s false None) o = mkWX (wstep s o) false None.
Proof.
  intros Hok. destruct o as [v w|b|v|k|v| | |]; cbn [wxstep wstep ue_ok] in *.
  - apply write_x_none.
  - apply write_x_none.
  - apply write_ue_x_none. apply N.leb_le. exact Hok.
  - unfold write_se. apply write_ue_x_none. apply N.leb_le. exact Hok.
  - unfold write_sei_value_x, write_sei_value. apply write_sei_x_none.
  - unfold write_trailing_x, write_trailing, write. rewrite write_x_none. apply stuff_zeros_x_none.
  - apply stuff_zeros_x_none.
  - discriminate.
Qed.

Lemma run_wx_none ops : forall s,
  forallb ue_ok ops = true ->
  fold_left wxstep ops (mkWX s false None) = mkWX (fold_left wstep ops s) false None.
Proof.
  induction ops as [|o t IH]; intros s H; cbn [fold_left]; [reflexivity|].
  cbn [forallb] in H. apply andb_true_iff in H. destruct H as [Ho Ht].
  rewrite (wxstep_none s o Ho). apply IH. exact Ht.
Qed.

Lemma run_wx_is_run_writer ops :
  forallb ue_ok ops = true -> run_wx None ops = mkWX (run_writer ops) false None.
Proof. intros H. unfold run_wx, run_writer, xinit. apply run_wx_none. exact H. Qed.

(* ------------------------------------------------------------------ budget k against no budget *)
Lemma emit_sim esc b z out r :
  let '(oka, za, oa, ra) := emit_byte_x esc b z out None in
  let '(okb, zb, ob, rb) := emit_byte_x esc b z out (Some r) in
  oka = true /\ ra = None /\ (exists e, e <> [] /\ oa = e ++ out) /\
  ( (okb = true /\ zb = za /\ ob = oa /\ exists r', rb = Some r' /\ r' + lenN oa = r + lenN out)
    \/ (okb = false /\ lenN ob = r + lenN out /\ exists e2, e2 <> [] /\ oa = e2 ++ ob) ).
Proof.
  unfold emit_byte_x, room, take.
  destruct (esc && (z =? 2) && (b <=? 3)).
  - destruct (N.ltb_spec 0 r) as [Hr|Hr]; [destruct (N.ltb_spec 0 (r - 1)) as [Hr1|Hr1]|]; cbv beta iota zeta;
      (split; [reflexivity|]); (split; [reflexivity|]);
      (split; [exists [b; 3]; split; [discriminate|reflexivity]|]).
    + left. repeat split. exists (r - 1 - 1). split; [reflexivity|]. unfold lenN. cbn [length]. lia.
    + right. split; [reflexivity|]. split; [unfold lenN; cbn [length]; lia|].
      exists [b]. split; [discriminate|reflexivity].
    + right. split; [reflexivity|]. split; [lia|]. exists [b; 3]. split; [discriminate|reflexivity].
  - destruct (N.ltb_spec 0 r) as [Hr|Hr]; cbv beta iota zeta;
      (split; [reflexivity|]); (split; [reflexivity|]);
      (split; [exists [b]; split; [discriminate|reflexivity]|]).
    + left. repeat split. exists (r - 1). split; [reflexivity|]. unfold lenN. cbn [length]. lia.
    + right. split; [reflexivity|]. split; [lia|]. exists [b]. split; [discriminate|reflexivity].
Qed.

Lemma drain_sim esc fuel : forall V T z out r,
  let '(oka, Ta, za, oa, ra) := drain_x esc fuel V T z out None in
  let '(okb, Tb, zb, ob, rb) := drain_x esc fuel V T z out (Some r) in
  oka = true /\ ra = None /\ (exists e, oa = e ++ out) /\
  ( (okb = true /\ Tb = Ta /\ zb = za /\ ob = oa /\ exists r', rb = Some r' /\ r' + lenN oa = r + lenN out)
    \/ (okb = false /\ lenN ob = r + lenN out /\ exists e2, e2 <> [] /\ oa = e2 ++ ob) ).
Proof.
  induction fuel as [|f IH]; intros V T z out r; cbn [drain_x].
  - split; [reflexivity|]. split; [reflexivity|]. split; [exists []; reflexivity|].
    left. repeat split. exists r. split; reflexivity.
  - destruct (8 <=? T).
    2:{ split; [reflexivity|]. split; [reflexivity|]. split; [exists []; reflexivity|].
        left. repeat split. exists r. split; reflexivity. }
    set (b := N.land (N.shiftr V (T - 8)) 255).
    pose proof (emit_sim esc b z out r) as H.
    destruct (emit_byte_x esc b z out None) as [[[oka1 za1] oa1] ra1].
    destruct (emit_byte_x esc b z out (Some r)) as [[[okb1 zb1] ob1] rb1].
    destruct H as [-> [-> [[e [He ->]] [[-> [-> [-> [r' [-> Hr]]]]]|[-> [Hl [e2 [He2 Hoa]]]]]]]].
    + specialize (IH V (T - 8) za1 (e ++ out) r').
      destruct (drain_x esc f V (T - 8) za1 (e ++ out) None) as [[[[oka Ta] za] oa] ra].
      destruct (drain_x esc f V (T - 8) za1 (e ++ out) (Some r')) as [[[[okb Tb] zb] ob] rb].
      destruct IH as [-> [-> [[e' ->] Hc]]].
      split; [reflexivity|]. split; [reflexivity|].
      split; [exists (e' ++ e); rewrite app_assoc; reflexivity|].
      destruct Hc as [[-> [-> [-> [-> [r'' [-> Hr']]]]]]|[-> [Hl' [e2 [He2 Hoa]]]]].
      * left. repeat split. exists r''. split; [reflexivity|]. lia.
      * right. split; [reflexivity|]. split; [lia|]. exists e2. split; assumption.
    + specialize (IH V (T - 8) za1 (e ++ out) 0).
      destruct (drain_x esc f V (T - 8) za1 (e ++ out) None) as [[[[oka Ta] za] oa] ra].
      destruct (drain_x esc f V (T - 8) za1 (e ++ out) (Some 0)) as [[[[okb Tb] zb] ob] rb].
      destruct IH as [-> [-> [[e' ->] _]]].
      split; [reflexivity|]. split; [reflexivity|].
      split; [exists (e' ++ e); rewrite app_assoc; reflexivity|].
      right. split; [reflexivity|]. split; [exact Hl|].
      exists (e' ++ e2). split; [destruct e'; [exact He2|discriminate]|].
      rewrite Hoa, app_assoc. reflexivity.
Qed.

(* a = the run over a sink that never fails, b = the run over a sink that accepts k bytes *)
Definition Sim (k : N) (a b : wx) : Prop :=
  xrem a = None /\
  ( (xerr b = false /\ xerr a = false /\ xs b = xs a /\
     exists r, xrem b = Some r /\ r + lenN (wrev (xs a)) = k)
  \/ (xerr b = true /\ xerr a = true /\ wrev (xs b) = wrev (xs a) /\ lenN (wrev (xs a)) <= k)
  \/ (xerr b = true /\ lenN (wrev (xs b)) = k /\ exists e, e <> [] /\ wrev (xs a) = e ++ wrev (xs b)) ).

Lemma Sim_init k : Sim k (xinit None) (xinit (Some k)).
Proof.
  split; [reflexivity|]. left. repeat split. exists k. split; [reflexivity|]. unfold lenN. cbn. lia.
Qed.

(* the fault-free run only appends and never gets an I/O error *)
Lemma write_x_grows esc a v n :
  xrem a = None ->
  xrem (write_x esc a v n) = None /\ xerr (write_x esc a v n) = xerr a /\
  exists e, wrev (xs (write_x esc a v n)) = e ++ wrev (xs a).
Proof.
  intros Ha. unfold write_x. destruct (xerr a) eqn:Ee.
  - rewrite Ee. split; [exact Ha|]. split; [reflexivity|]. exists []. reflexivity.
  - rewrite Ha.
    match goal with |- context [drain_x esc ?fu ?V ?T ?z ?o None] =>
      pose proof (drain_sim esc fu V T z o 0) as H;
      destruct (drain_x esc fu V T z o None) as [[[[oka Ta] za] oa] ra];
      destruct (drain_x esc fu V T z o (Some 0)) as [[[[okb Tb] zb] ob] rb] end.
    destruct H as [-> [-> [[e ->] _]]]. cbn [xrem xerr xs wrev].
    split; [reflexivity|]. split; [reflexivity|]. exists e. reflexivity.
Qed.

Lemma write_x_after_error esc b v n : xerr b = true -> write_x esc b v n = b.
Proof. intros H. unfold write_x. rewrite H. reflexivity. Qed.

Lemma Sim_b_err k a b a' :
  Sim k a b -> xerr b = true ->
  xrem a' = None -> (xerr a = true -> a' = a) -> (exists e, wrev (xs a') = e ++ wrev (xs a)) ->
  Sim k a' b.
Proof.
  intros [Ha [[Hb _]|[[Hb [Hae [Hw Hl]]]|[Hb [Hl [e [He Hw]]]]]]] Hbe Ha' Hsame [e' He'].
  - congruence.
  - rewrite (Hsame Hae). split; [exact Ha|]. right. left. repeat split; assumption.
  - split; [exact Ha'|]. right. right. split; [exact Hb|]. split; [exact Hl|].
    exists (e' ++ e). split; [destruct e'; [exact He|discriminate]|].
    rewrite He', Hw, app_assoc. reflexivity.
Qed.

Lemma write_x_sim esc k a b v n v' n' :
  Sim k a b -> (xerr b = false -> v' = v /\ n' = n) ->
  Sim k (write_x esc a v n) (write_x esc b v' n').
Proof.
  intros HS Hargs. destruct (xerr b) eqn:Hbe.
  - rewrite (write_x_after_error esc b v' n' Hbe).
    destruct (write_x_grows esc a v n (proj1 HS)) as [H1 [H2 H3]].
    apply (Sim_b_err k a b _ HS Hbe H1); [|exact H3].
    intros Hae. unfold write_x. rewrite Hae. reflexivity.
  - destruct (Hargs eq_refl) as [-> ->].
    destruct HS as [Ha [[_ [Hae [Hxs [r [Hr Hk]]]]]|[[Hb _]|[Hb _]]]]; try congruence.
    unfold write_x. rewrite Hbe, Hae, Hxs, Ha, Hr.
    match goal with |- context [drain_x esc ?fu ?V ?T ?z ?o None] =>
      pose proof (drain_sim esc fu V T z o r) as H;
      destruct (drain_x esc fu V T z o None) as [[[[oka Ta] za] oa] ra];
      destruct (drain_x esc fu V T z o (Some r)) as [[[[okb Tb] zb] ob] rb] end.
    destruct H as [-> [-> [[e ->] [[-> [-> [-> [-> [r' [-> Hr']]]]]]|[-> [Hl [e2 [He2 Hoa]]]]]]]].
    + split; [reflexivity|]. left. cbn [xerr xs xrem wrev]. repeat split.
      exists r'. split; [reflexivity|]. lia.
    + split; [reflexivity|]. right. right. cbn [xerr xs xrem wrev].
      split; [reflexivity|]. split; [lia|]. exists e2. split; assumption.
Qed.

Lemma Sim_xs k a b : Sim k a b -> xerr b = false -> xs b = xs a.
Proof. intros [_ [[_ [_ [H _]]]|[[H _]|[H _]]]] Hb; congruence. Qed.

Lemma write_ue_x_sim k a b v : Sim k a b -> Sim k (write_ue_x a v) (write_ue_x b v).
Proof.
  intros HS. unfold write_ue_x. destruct (max_ue <? v).
  - destruct HS as [Ha [[Hb [Hae [Hxs [r [Hr Hk]]]]]|[[Hb [Hae [Hw Hl]]]|[Hb [Hl [e [He Hw]]]]]]].
    + rewrite Hb, Hae. split; [exact Ha|]. right. left. cbn [xerr xs xrem]. rewrite Hxs.
      repeat split. lia.
    + rewrite Hb, Hae. split; [exact Ha|]. right. left. repeat split; assumption.
    + rewrite Hb. destruct (xerr a).
      * split; [exact Ha|]. right. right. split; [exact Hb|]. split; [exact Hl|]. exists e. split; assumption.
      * split; [exact Ha|]. right. right. cbn [xs]. split; [exact Hb|]. split; [exact Hl|]. exists e. split; assumption.
  - destruct (ue_loop 64 v 0 0 0) as [p delta].
    pose proof (write_x_sim true k a b 1 (p + 1) 1 (p + 1) HS ltac:(intros; split; reflexivity)) as H1.
    destruct (0 <? p); [|exact H1].
    apply write_x_sim; [exact H1|]. intros; split; reflexivity.
Qed.

Lemma write_sei_x_sim fuel : forall k a b v,
  Sim k a b -> Sim k (write_sei_value_x_fuel fuel a v) (write_sei_value_x_fuel fuel b v).
Proof.
  induction fuel as [|f IH]; intros k a b v HS; cbn [write_sei_value_x_fuel]; [exact HS|].
  destruct (255 <=? v).
  - apply IH. apply write_x_sim; [exact HS|]. intros; split; reflexivity.
  - apply write_x_sim; [exact HS|]. intros; split; reflexivity.
Qed.

Lemma stuff_zeros_x_sim k a b : Sim k a b -> Sim k (stuff_zeros_x a) (stuff_zeros_x b).
Proof.
  intros HS. unfold stuff_zeros_x. destruct (xerr b) eqn:Hbe.
  - assert (Hb' : (if 0 <? wn (xs b) then write_x true b 0 (8 - wn (xs b)) else b) = b).
    { destruct (0 <? wn (xs b)); [apply write_x_after_error; exact Hbe|reflexivity]. }
    rewrite Hb'. destruct (0 <? wn (xs a)); [|exact HS].
    rewrite <- (write_x_after_error true b 0 0 Hbe).
    apply write_x_sim; [exact HS|]. intros; congruence.
  - rewrite (Sim_xs k a b HS Hbe). destruct (0 <? wn (xs a)); [|exact HS].
    apply write_x_sim; [exact HS|]. intros; split; reflexivity.
Qed.

Lemma flush_x_sim k a b : Sim k a b -> Sim k (flush_x a) (flush_x b).
Proof.
  intros HS. unfold flush_x.
  destruct HS as [Ha [[Hb [Hae [Hxs [r [Hr Hk]]]]]|[[Hb [Hae [Hw Hl]]]|[Hb [Hl [e [He Hw]]]]]]].
  - rewrite Hb, Hae, Hxs, Ha, Hr. destruct (wn (xs a) =? 0).
    + split; [exact Ha|]. left. repeat split; try assumption. exists r. split; assumption.
    + unfold room, take. destruct (N.ltb_spec 0 r) as [Hpos|Hz].
      * split; [reflexivity|]. left. cbn [xerr xs xrem wrev]. repeat split.
        exists (r - 1). split; [reflexivity|]. unfold lenN in *. cbn [length]. lia.
      * split; [reflexivity|]. right. right. cbn [xerr xs xrem wrev].
        split; [reflexivity|]. split; [lia|].
        eexists [_]. split; [discriminate|]. reflexivity.
  - rewrite Hb, Hae. split; [exact Ha|]. right. left. repeat split; assumption.
  - rewrite Hb. destruct (xerr a) eqn:Hae.
    + split; [exact Ha|]. right. right. split; [exact Hb|]. split; [exact Hl|]. exists e. split; assumption.
    + rewrite Ha. destruct (wn (xs a) =? 0).
      * split; [exact Ha|]. right. right. split; [exact Hb|]. split; [exact Hl|]. exists e. split; assumption.
      * unfold room, take. split; [reflexivity|]. right. right. cbn [xerr xs xrem wrev].
        split; [exact Hb|]. split; [exact Hl|].
        eexists (_ :: e). split; [discriminate|]. rewrite Hw. reflexivity.
Qed.

Lemma wxstep_sim k a b o : Sim k a b -> Sim k (wxstep a o) (wxstep b o).
Proof.
  intros HS. destruct o as [v w|f|v|z|v| | |]; cbn [wxstep].
  - apply write_x_sim; [exact HS|]. intros; split; reflexivity.
  - apply write_x_sim; [exact HS|]. intros; split; reflexivity.
  - apply write_ue_x_sim. exact HS.
  - apply write_ue_x_sim. exact HS.
  - unfold write_sei_value_x. apply write_sei_x_sim. exact HS.
  - unfold write_trailing_x. apply stuff_zeros_x_sim.
    apply write_x_sim; [exact HS|]. intros; split; reflexivity.
  - apply stuff_zeros_x_sim. exact HS.
  - exact HS.
Qed.

Lemma wxstep_plain_sim k a b o : Sim k a b -> Sim k (wxstep_plain a o) (wxstep_plain b o).
Proof.
  intros HS. destruct o as [v w|f|v|z|v| | |]; cbn [wxstep_plain]; try exact HS.
  - apply write_x_sim; [exact HS|]. intros; split; reflexivity.
  - apply write_x_sim; [exact HS|]. intros; split; reflexivity.
  - apply flush_x_sim. exact HS.
Qed.

Lemma fold_sim (step : wx -> wop -> wx) k :
  (forall a b o, Sim k a b -> Sim k (step a o) (step b o)) ->
  forall ops a b, Sim k a b -> Sim k (fold_left step ops a) (fold_left step ops b).
Proof.
  intros Hstep. induction ops as [|o t IH]; intros a b HS; cbn [fold_left]; [exact HS|].
  apply IH. apply Hstep. exact HS.
Qed.

Lemma Sim_final k a b :
  Sim k a b ->
  xout b = firstn (N.to_nat k) (xout a) /\ xerr b = xerr a || (k <? lenN (xout a)).
Proof.
  unfold xout, wout, lenN. rewrite rev_length.
  intros [Ha [[Hb [Hae [Hxs [r [Hr Hk]]]]]|[[Hb [Hae [Hw Hl]]]|[Hb [Hl [e [He Hw]]]]]]].
  - rewrite Hxs, Hb, Hae. split.
    + symmetry. apply firstn_all2. rewrite rev_length. unfold lenN in Hk. lia.
    + destruct (N.ltb_spec k (N.of_nat (length (wrev (xs a))))) as [H|H]; [unfold lenN in Hk; lia|reflexivity].
  - rewrite Hw, Hb, Hae. split; [|reflexivity].
    symmetry. apply firstn_all2. rewrite rev_length. unfold lenN in Hl. lia.
  - rewrite Hb, Hw, rev_app_distr. split.
    + replace (N.to_nat k) with (length (rev (wrev (xs b)))) by (rewrite rev_length; unfold lenN in Hl; lia).
      rewrite firstn_app, Nat.sub_diag, firstn_O, app_nil_r, firstn_all. reflexivity.
    + rewrite app_length. pose proof (lenN_nonempty e He) as Hpos. unfold lenN in *.
      destruct (N.ltb_spec k (N.of_nat (length e + length (wrev (xs b))))) as [H|H]; [|lia].
      symmetry. apply orb_true_r.
Qed.

(* the theorem: EBSPWriter *)
Lemma failing_writer_prefix ops k :
  xout (run_wx (Some k) ops) = firstn (N.to_nat k) (xout (run_wx None ops)) /\
  xerr (run_wx (Some k) ops) = xerr (run_wx None ops) || (k <? lenN (xout (run_wx None ops))).
Proof.
  apply Sim_final. unfold run_wx. apply (fold_sim wxstep k (wxstep_sim k)). apply Sim_init.
Qed.

(* bits.Writer with Flush *)
Lemma failing_plain_writer_prefix ops k :
  xout (run_wx_plain (Some k) ops) = firstn (N.to_nat k) (xout (run_wx_plain None ops)) /\
  xerr (run_wx_plain (Some k) ops) = xerr (run_wx_plain None ops) || (k <? lenN (xout (run_wx_plain None ops))).
Proof.
  apply Sim_final. unfold run_wx_plain. apply (fold_sim wxstep_plain k (wxstep_plain_sim k)). apply Sim_init.
Qed.

(* the plain writer has no error of its own: the fault-free run never fails *)
Lemma plain_none_no_error ops : forall a,
  xrem a = None -> xerr a = false -> xerr (fold_left wxstep_plain ops a) = false.
Proof.
  induction ops as [|o t IH]; intros a Ha He; cbn [fold_left]; [exact He|].
  assert (H : xrem (wxstep_plain a o) = None /\ xerr (wxstep_plain a o) = false).
  { destruct o as [v w|f|v|z|v| | |]; cbn [wxstep_plain]; try (split; assumption).
    - destruct (write_x_grows false a v w Ha) as [H1 [H2 _]]. split; [exact H1|congruence].
    - destruct (write_x_grows false a (if f then 1 else 0) 1 Ha) as [H1 [H2 _]]. split; [exact H1|congruence].
    - unfold flush_x. rewrite He, Ha. destruct (wn (xs a) =? 0); [split; assumption|].
      cbn [room take xrem xerr]. split; reflexivity. }
  apply IH; apply H.
Qed.

(* once the error is set nothing is written any more and the state is frozen *)
Lemma wxstep_after_error s o : xerr s = true -> wxstep s o = s.
Proof.
  intros H. destruct o as [v w|f|v|z|v| | |]; cbn [wxstep]; try (apply write_x_after_error; exact H); try reflexivity.
  - unfold write_ue_x. rewrite H. destruct (max_ue <? v); [reflexivity|].
    destruct (ue_loop 64 v 0 0 0) as [p d]. rewrite (write_x_after_error true s 1 (p + 1) H).
    destruct (0 <? p); [apply write_x_after_error; exact H|reflexivity].
  - unfold write_ue_x. rewrite H. destruct (max_ue <? se_to_ue z); [reflexivity|].
    destruct (ue_loop 64 (se_to_ue z) 0 0 0) as [p d]. rewrite (write_x_after_error true s 1 (p + 1) H).
    destruct (0 <? p); [apply write_x_after_error; exact H|reflexivity].
  - unfold write_sei_value_x. generalize (S (N.to_nat (v / 255))) as fuel. intros fuel. revert v.
    induction fuel as [|f IH]; intros v; cbn [write_sei_value_x_fuel]; [reflexivity|].
    rewrite !(write_x_after_error true s _ _ H). destruct (255 <=? v); [apply IH|reflexivity].
  - unfold write_trailing_x, stuff_zeros_x. rewrite (write_x_after_error true s 1 1 H).
    destruct (0 <? wn (xs s)); [apply write_x_after_error; exact H|reflexivity].
  - unfold stuff_zeros_x. destruct (0 <? wn (xs s)); [apply write_x_after_error; exact H|reflexivity].
Qed.
