(* C13UeAnyProofs.v — EBSPReader.ReadExpGolomb on a code with ANY number of leading zero bits (malformed streams
   included): what the 64-bit arithmetic of the code returns, and where the reader stands afterwards. *)
From V.lib Require Import Base.
From V.c13 Require Import C13Spec C13Model C13Bits C13EscProofs C13ReaderProofs C13ModelExt C13ReadAnyProofs.

(* `(1 << leadingZeroBits) - 1` in uint arithmetic: 2^q - 1 below 64, all ones from 64 on (the shift gives 0) *)
Lemma ue_base_u64 q : u64 (N.shiftl 1 q + 18446744073709551615) = u64 (2 ^ q - 1).
Proof.
  rewrite N.shiftl_1_l. unfold u64.
  assert (H : 2 ^ q <> 0) by (apply N.pow_nonzero; lia).
  replace (2 ^ q + 18446744073709551615) with ((2 ^ q - 1) + 1 * 18446744073709551616) by lia.
  apply N.mod_add. lia.
Qed.

Lemma ue_base_cases q :
  (q < 64 -> u64 (2 ^ q - 1) = 2 ^ q - 1) /\ (64 <= q -> u64 (2 ^ q - 1) = 18446744073709551615).
Proof.
  split; intros H; unfold u64.
  - apply N.mod_small. assert (2 ^ q <= 2 ^ 63) by (apply N.pow_le_mono_r; lia).
    change (2 ^ 63) with 9223372036854775808 in *. lia.
  - replace q with (64 + (q - 64)) by lia. rewrite N.pow_add_r. change (2 ^ 64) with 18446744073709551616.
    assert (Hp : 2 ^ (q - 64) <> 0) by (apply N.pow_nonzero; lia).
    replace (18446744073709551616 * 2 ^ (q - 64) - 1)
      with (18446744073709551615 + (2 ^ (q - 64) - 1) * 18446744073709551616) by lia.
    rewrite N.mod_add by lia. reflexivity.
Qed.

(* q zero bits, a one, then at least q more bits: ReadExpGolomb returns
     ((2^q - 1) mod 2^64 + suffix mod 2^(64 - k)) mod 2^64,   k = bits left pending after the suffix read,
   having consumed exactly the 2q + 1 bits of the code, with no error.  For q <= 57 no modulus bites
   (C13WideProofs.read_ue_spec57); beyond that this is what the code computes, for every q. *)
Lemma read_ue_any s q rest :
  RGood s -> rbits s = repeat false q ++ true :: rest -> (q <= length rest)%nat ->
  exists s', read_ue s = (u64 (u64 (2 ^ N.of_nat q - 1) + val_of (firstn q rest) mod 2 ^ (64 - rn s')), s') /\
             rbits s' = skipn q rest /\ RGood s' /\ rdata s' = rdata s.
Proof.
  intros HG Hb Hlen. unfold read_ue.
  pose proof HG as [[He _] Hn8]. rewrite He.
  assert (Hfu : (q < S (8 * length (rdata s) + 8))%nat).
  { pose proof (rbits_length_le s Hn8) as Hl. rewrite Hb, app_length, repeat_length in Hl. cbn [length] in Hl. lia. }
  destruct (lz_loop_spec q _ s 0 _ HG Hfu Hb) as [s1 [Hl [Hb1 [HG1 Hd1]]]].
  rewrite Hl. pose proof HG1 as [[He1 _] Hn1]. rewrite He1. cbn [N.add].
  pose proof (read_any s1 (N.of_nat q) (proj1 HG1) Hn1 ltac:(rewrite Hb1; lia)) as HR.
  destruct (read s1 (N.of_nat q)) as [e s2].
  destruct HR as [Hv [Hb2 [HI2 [Hn2 Hd2]]]].
  pose proof HI2 as [He2 _]. rewrite He2.
  exists s2. split; [|split; [|split; [split; assumption|congruence]]].
  - rewrite Hv, Nat2N.id, Hb1, ue_base_u64. reflexivity.
  - rewrite Hb2, Nat2N.id, Hb1. reflexivity.
Qed.

(* the same through ReadSignedGolomb with Go's uint wrap (C13ModelExt.read_se64) *)
Lemma read_se64_any s q rest :
  RGood s -> rbits s = repeat false q ++ true :: rest -> (q <= length rest)%nat ->
  exists s', let u := u64 (u64 (2 ^ N.of_nat q - 1) + val_of (firstn q rest) mod 2 ^ (64 - rn s')) in
             read_se64 s = (if u mod 2 =? 1 then Z.of_N (u64 (u + 1) / 2) else (- Z.of_N (u / 2))%Z, s') /\
             rbits s' = skipn q rest /\ RGood s' /\ rdata s' = rdata s.
Proof.
  intros HG Hb Hlen. destruct (read_ue_any s q rest HG Hb Hlen) as [s' [Hr [Hb' [HG' Hd]]]].
  exists s'. cbv zeta. unfold read_se64. rewrite Hr. pose proof HG' as [[He _] _]. rewrite He.
  split; [|split; [exact Hb'|split; [exact HG'|exact Hd]]].
  destruct (_ mod 2 =? 1); reflexivity.
Qed.
