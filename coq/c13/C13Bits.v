(* C13Bits.v — bit lists (most significant bit first) and their relation to N:
   the vocabulary in which the bit-level theorems of C13 are stated. *)
From V.lib Require Import Base.

(* the w low bits of v, most significant first *)
Fixpoint bits_of (w : nat) (v : N) : list bool :=
  match w with
  | O => []
  | S w' => N.testbit v (N.of_nat w') :: bits_of w' v
  end.

(* value of a bit list, most significant first *)
Fixpoint val_of (l : list bool) : N :=
  match l with
  | [] => 0
  | b :: t => N.b2n b * 2 ^ N.of_nat (length t) + val_of t
  end.

Definition bytes_to_bits (l : list N) : list bool := flat_map (bits_of 8) l.

(* ------------------------------------------------------------------ basics *)
Lemma bits_of_length w v : length (bits_of w v) = w.
Proof. induction w as [|w IH]; cbn [bits_of length]; [reflexivity|now rewrite IH]. Qed.

Lemma bits_of_ext w a b :
  (forall i, i < N.of_nat w -> N.testbit a i = N.testbit b i) -> bits_of w a = bits_of w b.
Proof.
  induction w as [|w IH]; intros H; cbn [bits_of]; [reflexivity|].
  f_equal; [apply H; lia|apply IH; intros i Hi; apply H; lia].
Qed.

(* splitting: the high a bits come from X, the low b bits from Y *)
Lemma bits_of_app_ext a b V X Y :
  (forall i, i < N.of_nat b -> N.testbit V i = N.testbit Y i) ->
  (forall i, i < N.of_nat a -> N.testbit V (N.of_nat b + i) = N.testbit X i) ->
  bits_of (a + b) V = bits_of a X ++ bits_of b Y.
Proof.
  intros HY HX. induction a as [|a IH].
  - cbn [Nat.add bits_of app]. apply bits_of_ext. exact HY.
  - cbn [Nat.add bits_of app]. f_equal.
    + replace (N.of_nat (a + b)) with (N.of_nat b + N.of_nat a) by lia. apply HX. lia.
    + apply IH. intros i Hi. apply HX. lia.
Qed.

Lemma bits_of_app a b V :
  bits_of (a + b) V = bits_of a (N.shiftr V (N.of_nat b)) ++ bits_of b V.
Proof.
  apply bits_of_app_ext; [reflexivity|].
  intros i _. rewrite N.shiftr_spec by lia. f_equal. lia.
Qed.

Lemma val_of_lt l : val_of l < 2 ^ N.of_nat (length l).
Proof.
  induction l as [|b t IH]; cbn [val_of length]; [cbn; lia|].
  replace (N.of_nat (S (length t))) with (N.succ (N.of_nat (length t))) by lia.
  rewrite N.pow_succ_r by lia. destruct b; cbn [N.b2n]; lia.
Qed.

Lemma val_of_app l1 l2 :
  val_of (l1 ++ l2) = val_of l1 * 2 ^ N.of_nat (length l2) + val_of l2.
Proof.
  induction l1 as [|b t IH]; cbn [app val_of]; [lia|].
  rewrite IH, app_length.
  replace (N.of_nat (length t + length l2)) with (N.of_nat (length t) + N.of_nat (length l2)) by lia.
  rewrite N.pow_add_r. lia.
Qed.

Lemma val_of_bits_of w v : val_of (bits_of w v) = v mod 2 ^ N.of_nat w.
Proof.
  induction w as [|w IH]; cbn [bits_of val_of].
  - cbn. rewrite N.mod_1_r. reflexivity.
  - rewrite bits_of_length, IH, N.testbit_spec'.
    replace (N.of_nat (S w)) with (N.succ (N.of_nat w)) by lia.
    rewrite N.pow_succ_r by lia.
    rewrite (N.mul_comm 2), N.mod_mul_r; [lia| |lia].
    apply N.pow_nonzero. lia.
Qed.

Lemma testbit_val_of_high l i : N.of_nat (length l) <= i -> N.testbit (val_of l) i = false.
Proof.
  intros Hi. destruct (N.eq_dec (val_of l) 0) as [E|E]; [rewrite E; apply N.bits_0|].
  apply N.bits_above_log2. pose proof (val_of_lt l) as Hlt.
  apply N.log2_lt_pow2 in Hlt; lia.
Qed.

Lemma bits_of_val_of l : bits_of (length l) (val_of l) = l.
Proof.
  induction l as [|b t IH]; cbn [length bits_of val_of]; [reflexivity|].
  f_equal.
  - (* the top bit *)
    rewrite N.testbit_eqb.
    rewrite N.div_add_l by (apply N.pow_nonzero; lia).
    rewrite (N.div_small (val_of t)) by apply val_of_lt.
    destruct b; reflexivity.
  - transitivity (bits_of (length t) (val_of t)); [|exact IH]. apply bits_of_ext. intros i Hi.
    rewrite N.add_comm.
    destruct b; cbn [N.b2n]; [|rewrite N.mul_0_l, N.add_0_r; reflexivity].
    rewrite N.mul_1_l.
    (* val_of t + 2^|t| has the same low bits as val_of t *)
    rewrite <- (N.mod_pow2_bits_low (val_of t + 2 ^ N.of_nat (length t)) (N.of_nat (length t)) i Hi).
    rewrite <- (N.mod_pow2_bits_low (val_of t) (N.of_nat (length t)) i Hi).
    f_equal.
    rewrite <- (N.mul_1_l (2 ^ _)) at 1. rewrite N.mod_add by (apply N.pow_nonzero; lia).
    reflexivity.
Qed.

Lemma bits_of_mod w v : bits_of w (v mod 2 ^ N.of_nat w) = bits_of w v.
Proof. apply bits_of_ext. intros i Hi. apply N.mod_pow2_bits_low. exact Hi. Qed.

Lemma bits_of_inj w a b : a < 2 ^ N.of_nat w -> b < 2 ^ N.of_nat w -> bits_of w a = bits_of w b -> a = b.
Proof.
  intros Ha Hb E. apply (f_equal val_of) in E. rewrite !val_of_bits_of in E.
  rewrite !N.mod_small in E by assumption. exact E.
Qed.

Lemma firstn_bits_of a b V : firstn a (bits_of (a + b) V) = bits_of a (N.shiftr V (N.of_nat b)).
Proof.
  rewrite bits_of_app. rewrite firstn_app, bits_of_length, Nat.sub_diag, firstn_O, app_nil_r.
  rewrite <- (bits_of_length a (N.shiftr V (N.of_nat b))) at 1. apply firstn_all.
Qed.

Lemma skipn_bits_of a b V : skipn a (bits_of (a + b) V) = bits_of b V.
Proof.
  rewrite bits_of_app. rewrite skipn_app, bits_of_length, Nat.sub_diag, skipn_O.
  rewrite <- (bits_of_length a (N.shiftr V (N.of_nat b))) at 1. rewrite skipn_all. reflexivity.
Qed.

Lemma bytes_to_bits_app l1 l2 : bytes_to_bits (l1 ++ l2) = bytes_to_bits l1 ++ bytes_to_bits l2.
Proof. unfold bytes_to_bits. apply flat_map_app. Qed.

Lemma bytes_to_bits_length l : length (bytes_to_bits l) = (8 * length l)%nat.
Proof.
  induction l as [|b t IH]; [reflexivity|].
  unfold bytes_to_bits in *. cbn [flat_map]. rewrite app_length, bits_of_length, IH. cbn [length]. lia.
Qed.
