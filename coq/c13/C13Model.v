(* C13Model.v — executable Gallina models of bits.EBSPWriter / bits.Writer /
   bits.FixedSliceWriter.WriteBits and bits.EBSPReader / bits.Reader (pinned tree).
   Definitions only: this file must keep running when a proof breaks.
   Go's `uint` is 64 bits: the wrap of `v <<= n` is written explicitly (u64). *)
From V.lib Require Import Base.

(* ------------------------------------------------------------------ writer *)
(* wrev is the output in REVERSE order (last byte written first). *)
Record wstate := mkW { wn : N; wv : N; wnr0 : N; wrev : list N }.

Definition winit : wstate := mkW 0 0 0 [].
Definition wout (s : wstate) : list N := rev (wrev s).

(* one iteration of `for w.n >= 8 { ... }`; esc = true for EBSPWriter, false for
   Writer / FixedSliceWriter (no emulation prevention). *)
Definition emit_byte (esc : bool) (b nr0 : N) (out : list N) : N * list N :=
  let '(out1, z1) := if esc && (nr0 =? 2) && (b <=? 3) then (3 :: out, 0) else (out, nr0) in
  (if b =? 0 then z1 + 1 else 0, b :: out1).

Fixpoint drain (esc : bool) (fuel : nat) (V T nr0 : N) (out : list N) : N * N * list N :=
  match fuel with
  | O => (T, nr0, out)
  | S f =>
      if 8 <=? T then
        let b := N.land (N.shiftr V (T - 8)) 255 in
        let '(z, o) := emit_byte esc b nr0 out in
        drain esc f V (T - 8) z o
      else (T, nr0, out)
  end.

(* func (w *EBSPWriter) Write(bits uint, n int) *)
Definition write_gen (esc : bool) (s : wstate) (bits n : N) : wstate :=
  let V := N.lor (u64 (N.shiftl (wv s) n)) (N.land bits (N.ones n)) in
  let T := wn s + n in
  let '(T', z, o) := drain esc (S (N.to_nat (T / 8))) V T (wnr0 s) (wrev s) in
  mkW T' (N.land V 255) z o.

Definition write := write_gen true.
Definition write_plain := write_gen false.

(* func (w *EBSPWriter) WriteExpGolomb(nr uint): the offset/prefix loop, on fuel *)
Fixpoint ue_loop (fuel : nat) (nr offset prefixLen max : N) : N * N (* prefixLen, delta *) :=
  match fuel with
  | O => (prefixLen, nr - offset)
  | S f =>
      if nr <=? max then (prefixLen, nr - offset)
      else
        let offset' := offset + N.shiftl 1 prefixLen in
        let prefixLen' := prefixLen + 1 in
        let max' := offset' + N.shiftl 1 prefixLen' - 1 in
        ue_loop f nr offset' prefixLen' max'
  end.

Definition write_ue (s : wstate) (nr : N) : wstate :=
  let '(p, delta) := ue_loop 64 nr 0 0 0 in
  let s1 := write s 1 (p + 1) in
  if 0 <? p then write s1 delta p else s1.

(* the standard's se(v) -> codeNum mapping (9.1.1); there is no signed writer in Go,
   callers map and use WriteExpGolomb *)
Definition se_to_ue (k : Z) : N :=
  match k with
  | Z0 => 0
  | Zpos p => 2 * Npos p - 1
  | Zneg p => 2 * Npos p
  end.

Definition write_se (s : wstate) (k : Z) : wstate := write_ue s (se_to_ue k).

(* WriteSEIValue *)
Fixpoint write_sei_value_fuel (fuel : nat) (s : wstate) (val : N) : wstate :=
  match fuel with
  | O => s
  | S f => if 255 <=? val then write_sei_value_fuel f (write s 255 8) (val - 255)
           else write s val 8
  end.
Definition write_sei_value (s : wstate) (val : N) : wstate :=
  write_sei_value_fuel (S (N.to_nat (val / 255))) s val.

(* StuffByteWithZeros / WriteRbspTrailingBits *)
Definition stuff_zeros (s : wstate) : wstate :=
  if 0 <? wn s then write s 0 (8 - wn s) else s.
Definition write_trailing (s : wstate) : wstate := stuff_zeros (write s 1 1).

(* Writer.Flush / FixedSliceWriter.FlushBits: emits one byte, does NOT reset n *)
Definition flush_plain (s : wstate) : wstate :=
  if wn s =? 0 then s
  else mkW (wn s) (wv s) (wnr0 s) (N.land (N.shiftl (wv s) (8 - wn s)) 255 :: wrev s).

Inductive wop :=
| WBits (v w : N)        (* Write(v, w) *)
| WFlag (b : bool)       (* Write(0/1, 1) *)
| WUe (v : N)            (* WriteExpGolomb *)
| WSe (k : Z)            (* WriteExpGolomb of the standard mapping *)
| WSei (v : N)           (* WriteSEIValue *)
| WTrail                 (* WriteRbspTrailingBits *)
| WStuff                 (* StuffByteWithZeros *)
| WFlush.                (* Writer.Flush / FixedSliceWriter.FlushBits (plain modes only) *)

Definition wstep (s : wstate) (o : wop) : wstate :=
  match o with
  | WBits v w => write s v w
  | WFlag b => write s (if b then 1 else 0) 1
  | WUe v => write_ue s v
  | WSe k => write_se s k
  | WSei v => write_sei_value s v
  | WTrail => write_trailing s
  | WStuff => stuff_zeros s
  | WFlush => flush_plain s
  end.

Definition run_writer (ops : list wop) : wstate := fold_left wstep ops winit.

(* bits.Writer and bits.FixedSliceWriter: no emulation prevention, only Write/WriteFlag/Flush *)
Definition wstep_plain (s : wstate) (o : wop) : wstate :=
  match o with
  | WBits v w => write_plain s v w
  | WFlag b => write_plain s (if b then 1 else 0) 1
  | WFlush => flush_plain s
  | _ => s
  end.
Definition run_writer_plain (ops : list wop) : wstate := fold_left wstep_plain ops winit.

(* ------------------------------------------------------------------ reader *)
(* data = the whole input; rpos = number of bytes consumed (Go's pos + 1);
   rerr = accumulated error (true after the first failed byte read). *)
Record rstate := mkR { rn : N; rv : N; rpos : N; rzc : N; rerr : bool; rdata : list N }.

Definition rinit (data : list N) : rstate := mkR 0 0 0 0 false data.

Definition byte_at (data : list N) (i : N) : option N := nth_error data (N.to_nat i).

(* the body of `for r.n < n { ... }`, on fuel; esc = true for EBSPReader *)
Fixpoint fill (esc : bool) (fuel : nat) (s : rstate) (n : N) : rstate :=
  match fuel with
  | O => s
  | S f =>
      if rn s <? n then
        let v1 := u64 (N.shiftl (rv s) 8) in
        match byte_at (rdata s) (rpos s) with
        | None => mkR (rn s) v1 (rpos s) (rzc s) true (rdata s)
        | Some b =>
            let pos1 := rpos s + 1 in
            if esc && (rzc s =? 2) && (b =? 3) then
              match byte_at (rdata s) pos1 with
              | None => mkR (rn s) v1 pos1 (rzc s) true (rdata s)
              | Some b' =>
                  let zc := if b' =? 0 then 1 else 0 in
                  fill esc f (mkR (rn s + 8) (N.lor v1 b') (pos1 + 1) zc false (rdata s)) n
              end
            else
              let zc := if b =? 0 then rzc s + 1 else 0 in
              fill esc f (mkR (rn s + 8) (N.lor v1 b) pos1 zc false (rdata s)) n
        end
      else s
  end.

(* func (r *EBSPReader) Read(n int) uint *)
Definition read_gen (esc : bool) (s : rstate) (n : N) : N * rstate :=
  if rerr s then (0, s)
  else
    let s1 := fill esc (S (N.to_nat (n / 8) + 1)) s n in
    if rerr s1 then (0, s1)
    else
      let v := N.shiftr (rv s1) (rn s1 - n) in
      let n' := rn s1 - n in
      (v, mkR n' (N.land (rv s1) (N.ones n')) (rpos s1) (rzc s1) false (rdata s1)).

Definition read := read_gen true.
Definition read_plain := read_gen false.

(* func (r *Reader) ReadSigned(n int) int: two's complement, n >= 1 (n = 0 would be a negative
   shift count, a run-time panic in Go; outside the modelled domain) *)
Definition read_signed_plain (s : rstate) (n : N) : Z * rstate :=
  let '(v, s') := read_plain s n in
  (if N.testbit v (n - 1) then (Z.of_N v - 2 ^ Z.of_N n)%Z else Z.of_N v, s').

Definition read_flag (s : rstate) : bool * rstate :=
  let '(v, s') := read s 1 in (v =? 1, s').

(* ReadExpGolomb: leading-zero loop on fuel = number of bits that can still be read *)
Fixpoint lz_loop (fuel : nat) (s : rstate) (lz : N) : option (N * rstate) :=
  match fuel with
  | O => None
  | S f =>
      let '(b, s1) := read s 1 in
      if rerr s1 then Some (lz, s1)
      else if b =? 1 then Some (lz, s1)
      else lz_loop f s1 (lz + 1)
  end.

Definition read_ue (s : rstate) : N * rstate :=
  if rerr s then (0, s)
  else
    match lz_loop (S (8 * length (rdata s) + 8)) s 0 with
    | None => (0, s)            (* unreachable: fuel covers every bit of the input *)
    | Some (lz, s1) =>
        if rerr s1 then (0, s1)
        else
          let '(e, s2) := read s1 lz in
          if rerr s2 then (0, s2)
          else (u64 (u64 (N.shiftl 1 lz + 18446744073709551615) + e), s2)
    end.

(* ReadSignedGolomb *)
Definition read_se (s : rstate) : Z * rstate :=
  let '(u, s1) := read_ue s in
  if rerr s1 then (0%Z, s1)
  else if u mod 2 =? 1 then (Z.of_N ((u + 1) / 2), s1)
  else ((- Z.of_N (u / 2))%Z, s1).

Fixpoint read_bytes (k : nat) (s : rstate) : list N * rstate :=
  match k with
  | O => ([], s)
  | S k' =>
      let '(b, s1) := read s 8 in
      let '(l, s2) := read_bytes k' s1 in
      (N.land b 255 :: l, s2)
  end.

(* counters *)
Definition nr_bytes_read (s : rstate) : N := rpos s.
Definition nr_bits_read_in_current_byte (s : rstate) : Z := (8 - Z.of_N (rn s))%Z.
Definition nr_bits_read (s : rstate) : Z :=
  let nb := (Z.of_N (rpos s) * 8)%Z in
  if (nr_bits_read_in_current_byte s =? 8)%Z then nb
  else (nb + nr_bits_read_in_current_byte s - 8)%Z.

(* MoreRbspData: look ahead without consuming.  Result: Some more | None (underlying
   error: Go returns (false, nil) and leaves the error set). *)
Fixpoint more_loop (fuel : nat) (s : rstate) : option bool :=
  match fuel with
  | O => Some false
  | S f =>
      let '(b, s1) := read s 1 in
      if rerr s1 then Some false          (* io.EOF: no more 1 bits -> no more data *)
      else if b =? 1 then Some true
      else more_loop f s1
  end.

Definition more_rbsp_data (s : rstate) : option bool * rstate :=
  if rerr s then (None, s)
  else
  let '(b, s1) := read s 1 in
  if rerr s1 then (None, s1)
  else if negb (b =? 1) then (Some true, s)
  else (more_loop (S (8 * length (rdata s) + 8)) s1, s).

Inductive rop :=
| RBits (w : N) | RFlag | RUe | RSe | RBytes (k : nat) | RMore.

Inductive rval :=
| VN (v : N) | VB (b : bool) | VZ (z : Z) | VBytes (l : list N) | VMore (m : option bool).

Definition rstep (s : rstate) (o : rop) : rval * rstate :=
  match o with
  | RBits w => let '(v, s') := read s w in (VN v, s')
  | RFlag => let '(b, s') := read_flag s in (VB b, s')
  | RUe => let '(v, s') := read_ue s in (VN v, s')
  | RSe => let '(z, s') := read_se s in (VZ z, s')
  | RBytes k => let '(l, s') := read_bytes k s in (VBytes (if rerr s' then [] else l), s')
  | RMore => let '(m, s') := more_rbsp_data s in (VMore m, s')
  end.

Fixpoint run_reader (ops : list rop) (s : rstate) : list rval * rstate :=
  match ops with
  | [] => ([], s)
  | o :: t =>
      let '(v, s1) := rstep s o in
      let '(vs, s2) := run_reader t s1 in
      (v :: vs, s2)
  end.
