(* C13ReadAnyProofs.v — what EBSPReader.Read(n) returns for EVERY n <= 64 (C13b).  The refill loop shifts whole bytes
   through the 64-bit accumulator; when pending + refilled bits exceed 64 the topmost bits fall out.  With a ghost
   unbounded accumulator X (rv = X mod 2^64): Read(n) returns the true n-bit value modulo 2^(64 - k), k = the number of
   bits left pending afterwards, and the stream position is always right.  Exact iff n + k <= 64. *)
From V.lib Require Import Base.
From V.c13 Require Import C13Spec C13Model C13Bits C13EscProofs C13ReaderProofs.

Definition GInv (s : rstate) (X : N) : Prop :=
  rerr s = false /\ X < 2 ^ rn s /\ rv s = X mod 2 ^ 64 /\ Forall lt256 (rdata s).

Definition gbits (s : rstate) (X : N) : list bool :=
  bits_of (N.to_nat (rn s)) X ++ bytes_to_bits (rrest s).

Lemma byte_high_bits b i : b < 256 -> 8 <= i -> N.testbit b i = false.
Proof.
  intros Hb Hi. destruct (N.eq_dec b 0) as [->|Hb0]; [apply N.bits_0|].
  apply N.bits_above_log2. assert (N.log2 b < 8) by (apply N.log2_lt_pow2; [lia|exact Hb]). lia.
Qed.

Lemma ghost_shift_bits k X b :
  b < 256 -> bits_of (k + 8) (X * 256 + b) = bits_of k X ++ bits_of 8 b.
Proof.
  intros Hb. change 256 with (2 ^ 8). rewrite <- lor_shifted_add by exact Hb.
  rewrite <- N.shiftl_mul_pow2.
  apply bits_of_app_ext.
  - intros i Hi. rewrite N.lor_spec, N.shiftl_spec_low by lia. reflexivity.
  - intros i Hi. rewrite N.lor_spec, N.shiftl_spec_high' by lia.
    rewrite (byte_high_bits b (N.of_nat 8 + i) Hb) by lia. rewrite orb_false_r. f_equal. lia.
Qed.

Lemma ghost_shift_acc X b :
  b < 256 -> N.lor (u64 (N.shiftl (X mod 2 ^ 64) 8)) b = (X * 256 + b) mod 2 ^ 64.
Proof.
  intros Hb. change 256 with (2 ^ 8). rewrite <- lor_shifted_add by exact Hb.
  rewrite <- N.shiftl_mul_pow2. unfold u64. change 18446744073709551616 with (2 ^ 64).
  apply N.bits_inj. intros i. rewrite N.lor_spec.
  destruct (N.lt_ge_cases i 64) as [Hlt|Hge].
  - rewrite !N.mod_pow2_bits_low by exact Hlt. rewrite N.lor_spec. f_equal.
    destruct (N.lt_ge_cases i 8) as [H8|H8].
    + rewrite !N.shiftl_spec_low by exact H8. reflexivity.
    + rewrite !N.shiftl_spec_high' by exact H8. apply N.mod_pow2_bits_low. lia.
  - rewrite !N.mod_pow2_bits_high by exact Hge. rewrite (byte_high_bits b i Hb) by lia. reflexivity.
Qed.

Lemma ghost_shift_lt k X b : X < 2 ^ k -> b < 256 -> X * 256 + b < 2 ^ (k + 8).
Proof. intros HX Hb. rewrite N.pow_add_r. change (2 ^ 8) with 256. nia. Qed.

Lemma fill_any fuel : forall s X n,
  GInv s X -> rn s < n + 8 ->
  n <= N.of_nat (length (gbits s X)) -> n <= rn s + 8 * N.of_nat fuel ->
  let s1 := fill true fuel s n in
  exists X1, GInv s1 X1 /\ n <= rn s1 /\ rn s1 < n + 8 /\ gbits s1 X1 = gbits s X /\ rdata s1 = rdata s.
Proof.
  induction fuel as [|f IH]; intros s X n HI Hrn Hlen Hfuel; cbn [fill].
  - cbv zeta. exists X. repeat split; try apply HI; lia.
  - destruct (N.ltb_spec (rn s) n) as [Hlt|Hge].
    2:{ cbv zeta. exists X. repeat split; try apply HI; lia. }
    destruct HI as [He [Hv [Hrv Hd]]].
    unfold byte_at.
    assert (Hne : rrest s <> []).
    { intros E. unfold gbits in Hlen. rewrite E in Hlen. cbn [bytes_to_bits flat_map] in Hlen.
      rewrite app_nil_r, bits_of_length in Hlen. lia. }
    unfold rrest in Hne.
    destruct (nth_error (rdata s) (N.to_nat (rpos s))) as [b|] eqn:Eb.
    2:{ rewrite (nth_error_none_skipn _ _ Eb) in Hne. cbn in Hne. contradiction. }
    pose proof (nth_error_skipn _ _ _ Eb) as Hsk.
    pose proof (nth_error_Forall _ _ _ _ Hd Eb) as Hb256.
    rewrite Hsk in Hne. cbn [unescape_from] in Hne.
    cbn [andb].
    destruct ((rzc s =? 2) && (b =? 3)) eqn:Ec.
    + replace (N.to_nat (rpos s + 1)) with (S (N.to_nat (rpos s))) by lia.
      destruct (nth_error (rdata s) (S (N.to_nat (rpos s)))) as [b'|] eqn:Eb'.
      2:{ rewrite (nth_error_none_skipn _ _ Eb') in Hne. contradiction. }
      pose proof (nth_error_skipn _ _ _ Eb') as Hsk'.
      pose proof (nth_error_Forall _ _ _ _ Hd Eb') as Hb'256.
      set (s2 := mkR (rn s + 8) (N.lor (u64 (N.shiftl (rv s) 8)) b') (rpos s + 1 + 1)
                     (if b' =? 0 then 1 else 0) false (rdata s)).
      assert (Hb2 : gbits s2 (X * 256 + b') = gbits s X).
      { unfold gbits, rrest, s2. cbn [rn rv rpos rzc rdata].
        rewrite Hsk. cbn [unescape_from]. rewrite Ec, Hsk'.
        replace (N.to_nat (rpos s + 1 + 1)) with (S (S (N.to_nat (rpos s)))) by lia.
        replace (N.to_nat (rn s + 8)) with (N.to_nat (rn s) + 8)%nat by lia.
        rewrite ghost_shift_bits by exact Hb'256.
        unfold bytes_to_bits. cbn [flat_map]. rewrite <- app_assoc. reflexivity. }
      assert (HI2 : GInv s2 (X * 256 + b')).
      { unfold GInv, s2. cbn [rerr rv rn rdata]. split; [reflexivity|].
        split; [apply ghost_shift_lt; assumption|]. split; [|exact Hd].
        rewrite Hrv. apply ghost_shift_acc. exact Hb'256. }
      assert (Hr2 : rn s2 = rn s + 8) by reflexivity.
      destruct (IH s2 (X * 256 + b') n HI2 ltac:(rewrite Hr2; lia) ltac:(rewrite Hb2; exact Hlen)
                   ltac:(rewrite Hr2; lia)) as [X1 [HI3 [H1 [H2 [H3 H4]]]]].
      exists X1. repeat split; try apply HI3; try assumption.
      rewrite H3. exact Hb2.
    + set (s2 := mkR (rn s + 8) (N.lor (u64 (N.shiftl (rv s) 8)) b) (rpos s + 1)
                     (if b =? 0 then rzc s + 1 else 0) false (rdata s)).
      assert (Hb2 : gbits s2 (X * 256 + b) = gbits s X).
      { unfold gbits, rrest, s2. cbn [rn rv rpos rzc rdata].
        rewrite Hsk. cbn [unescape_from]. rewrite Ec.
        replace (N.to_nat (rpos s + 1)) with (S (N.to_nat (rpos s))) by lia.
        replace (N.to_nat (rn s + 8)) with (N.to_nat (rn s) + 8)%nat by lia.
        rewrite ghost_shift_bits by exact Hb256.
        unfold bytes_to_bits. cbn [flat_map]. rewrite <- app_assoc. reflexivity. }
      assert (HI2 : GInv s2 (X * 256 + b)).
      { unfold GInv, s2. cbn [rerr rv rn rdata]. split; [reflexivity|].
        split; [apply ghost_shift_lt; assumption|]. split; [|exact Hd].
        rewrite Hrv. apply ghost_shift_acc. exact Hb256. }
      assert (Hr2 : rn s2 = rn s + 8) by reflexivity.
      destruct (IH s2 (X * 256 + b) n HI2 ltac:(rewrite Hr2; lia) ltac:(rewrite Hb2; exact Hlen)
                   ltac:(rewrite Hr2; lia)) as [X1 [HI3 [H1 [H2 [H3 H4]]]]].
      exists X1. repeat split; try apply HI3; try assumption.
      rewrite H3. exact Hb2.
Qed.

Lemma shiftr_mod_pow2 X k : k <= 64 ->
  N.shiftr (X mod 2 ^ 64) k = (N.shiftr X k) mod 2 ^ (64 - k).
Proof.
  intros Hk. apply N.bits_inj. intros i. rewrite N.shiftr_spec by lia.
  destruct (N.lt_ge_cases i (64 - k)) as [Hlt|Hge].
  - rewrite !N.mod_pow2_bits_low by lia. rewrite N.shiftr_spec by lia. reflexivity.
  - rewrite !N.mod_pow2_bits_high by lia. reflexivity.
Qed.

(* Read(n), any n <= 64 (in fact any n: nothing here depends on the bound except through 64 - k) *)
Lemma read_any s n :
  RInv s -> rn s < 8 -> n <= N.of_nat (length (rbits s)) ->
  let '(v, s') := read s n in
  v = val_of (firstn (N.to_nat n) (rbits s)) mod 2 ^ (64 - rn s') /\
  rbits s' = skipn (N.to_nat n) (rbits s) /\
  RInv s' /\ rn s' < 8 /\ rdata s' = rdata s.
Proof.
  intros HI Hrn Hlen. unfold read, read_gen.
  destruct HI as [He [Hv Hd]]. rewrite He.
  assert (HG : GInv s (rv s)).
  { split; [exact He|]. split; [exact Hv|]. split; [|exact Hd]. symmetry. apply N.mod_small.
    apply N.lt_le_trans with (2 ^ rn s); [exact Hv|]. apply N.pow_le_mono_r; lia. }
  assert (Hgb : gbits s (rv s) = rbits s) by reflexivity.
  set (fuel := S (N.to_nat (n / 8) + 1)).
  assert (Hfu : n <= rn s + 8 * N.of_nat fuel).
  { unfold fuel. pose proof (N.div_mod n 8 ltac:(lia)). pose proof (N.mod_lt n 8 ltac:(lia)). lia. }
  destruct (fill_any fuel s (rv s) n HG ltac:(lia) ltac:(rewrite Hgb; exact Hlen) Hfu)
    as [X1 [[He1 [Hv1 [Hrv1 Hd1]]] [Hge [Hlt8 [Hb1 Hdata]]]]].
  set (s1 := fill true fuel s n) in *.
  rewrite He1. rewrite Hgb in Hb1.
  set (k := (N.to_nat (rn s1) - N.to_nat n)%nat).
  assert (Hsplit : N.to_nat (rn s1) = (N.to_nat n + k)%nat) by (unfold k; lia).
  assert (Hkn : N.of_nat k = rn s1 - n) by (unfold k; lia).
  assert (Hbits : bits_of (N.to_nat (rn s1)) X1
                  = bits_of (N.to_nat n) (N.shiftr X1 (rn s1 - n)) ++ bits_of k X1).
  { rewrite Hsplit, bits_of_app. rewrite Hkn. reflexivity. }
  assert (Htop : N.shiftr X1 (rn s1 - n) < 2 ^ n).
  { rewrite N.shiftr_div_pow2. apply N.div_lt_upper_bound; [apply N.pow_nonzero; lia|].
    rewrite <- N.pow_add_r. replace (rn s1 - n + n) with (rn s1) by lia. exact Hv1. }
  split; [|split; [|split; [|split]]].
  - cbn [rn]. rewrite <- Hb1. unfold gbits. rewrite Hbits, <- app_assoc.
    rewrite firstn_app, bits_of_length, Nat.sub_diag, firstn_O, app_nil_r.
    rewrite <- (bits_of_length (N.to_nat n) (N.shiftr X1 (rn s1 - n))) at 1.
    rewrite firstn_all, val_of_bits_of. rewrite N2Nat.id.
    rewrite (N.mod_small _ _ Htop). rewrite Hrv1. apply shiftr_mod_pow2. lia.
  - rewrite <- Hb1. unfold gbits at 1. rewrite Hbits, <- app_assoc.
    rewrite skipn_app, bits_of_length, Nat.sub_diag, skipn_O.
    rewrite <- (bits_of_length (N.to_nat n) (N.shiftr X1 (rn s1 - n))) at 1.
    rewrite skipn_all. cbn [app].
    unfold rbits, rrest. cbn [rn rv rpos rzc rdata].
    replace (N.to_nat (rn s1 - n)) with k by (unfold k; lia).
    f_equal. apply bits_of_ext. intros i Hi.
    rewrite N.land_spec, N.ones_spec_low by lia. rewrite andb_true_r.
    rewrite Hrv1. apply N.mod_pow2_bits_low. lia.
  - unfold RInv. cbn [rerr rv rn rdata]. repeat split; [|exact Hd1].
    rewrite N.land_ones. apply N.mod_lt. apply N.pow_nonzero. lia.
  - cbn [rn]. lia.
  - cbn [rdata]. exact Hdata.
Qed.

(* exact whenever the n bits and the k bits left pending fit the accumulator together *)
Lemma read_exact_fit s n :
  RInv s -> rn s < 8 -> n <= N.of_nat (length (rbits s)) ->
  n + rn (snd (read s n)) <= 64 ->
  fst (read s n) = val_of (firstn (N.to_nat n) (rbits s)).
Proof.
  intros HI Hrn Hlen Hfit. pose proof (read_any s n HI Hrn Hlen) as H.
  destruct (read s n) as [v s']. cbn [fst snd] in *. destruct H as [Hv _]. rewrite Hv.
  apply N.mod_small.
  apply N.lt_le_trans with (2 ^ n).
  - pose proof (val_of_lt (firstn (N.to_nat n) (rbits s))) as Hl.
    rewrite firstn_length_le in Hl by lia. rewrite N2Nat.id in Hl. exact Hl.
  - apply N.pow_le_mono_r; lia.
Qed.
