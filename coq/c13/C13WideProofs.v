(* C13WideProofs.v — the exact domain of the 64-bit accumulators (C13b).
   Write(bits, n) is exact whenever pending + n <= 64 (so for every n <= 57 whatever the alignment), Read(n) for
   every n <= 57; Exp-Golomb values are coded exactly up to 2^57 - 2 (the bound of repo commit 9ec0951) and decoded
   exactly up to 2^58 - 2.  The proofs are the ones of C13WriterProofs / C13ReaderProofs / C13RoundTrip with the
   bound 56 (resp. 2^32) replaced by the exact one. *)
From V.lib Require Import Base.
From V.c13 Require Import C13Spec C13Model C13Bits C13EscProofs C13MarkProofs C13WriterProofs C13ReaderProofs
  C13RoundTrip C13ModelExt.

Lemma write_gen_fit esc s raw bits n :
  WInv esc s raw -> wn s + n <= 64 ->
  exists raw',
    WInv esc (write_gen esc s bits n) raw' /\
    bytes_to_bits raw' ++ pending (write_gen esc s bits n)
    = bytes_to_bits raw ++ pending s ++ bits_of (N.to_nat n) bits /\
    exists added, raw' = raw ++ added /\ Forall (fun b => b < 256) added.
Proof.
  intros [Hn [Hraw Hout]] Hw.
  unfold write_gen.
  set (V := N.lor (u64 (N.shiftl (wv s) n)) (N.land bits (N.ones n))).
  set (T := (N.to_nat (wn s) + N.to_nat n)%nat).
  replace (wn s + n) with (N.of_nat T) by lia.
  set (fuel := S (N.to_nat (N.of_nat T / 8))).
  rewrite drain_spec.
  assert (HV : bits_of T V = pending s ++ bits_of (N.to_nat n) bits).
  { unfold V, T, pending.
    pose proof (write_acc_bits (N.to_nat (wn s)) (wv s) bits (N.to_nat n) ltac:(lia)) as HH.
    rewrite N2Nat.id in HH. exact HH. }
  pose proof (chunk8_concat fuel (bits_of T V)) as Hcat.
  pose proof (chunk8_rest_short fuel (bits_of T V)) as Hshort.
  pose proof (chunk8_pending fuel T V) as Hpend.
  pose proof (chunk8_bytes_lt fuel (bits_of T V)) as Hlt.
  destruct (chunk8 fuel (bits_of T V)) as [bs r] eqn:Ec. cbn [fst snd] in *.
  assert (Hr : (length r < 8)%nat).
  { apply Hshort. rewrite bits_of_length. unfold fuel.
    pose proof (N.mod_lt (N.of_nat T) 8 ltac:(lia)).
    pose proof (N.div_mod (N.of_nat T) 8 ltac:(lia)). lia. }
  destruct (emit_all esc (wnr0 s) (wrev s) bs) as [z' o'] eqn:Ee.
  exists (raw ++ bs). split; [|split].
  - unfold WInv. cbn [wn wrev wnr0]. split; [lia|]. split; [apply Forall_app; split; assumption|].
    destruct esc.
    + destruct Hout as [Ho Hz]. rewrite emit_all_esc in Ee. inversion Ee; subst z' o'.
      rewrite Ho, Hz. unfold escape. rewrite escape_from_app, rev_app_distr, zafter_app. split; reflexivity.
    + pose proof (emit_all_plain (wnr0 s) (wrev s) bs) as Hp. rewrite Ee in Hp. cbn [snd] in Hp.
      rewrite Hp, Hout, rev_app_distr. reflexivity.
  - unfold pending at 1. cbn [wn wv].
    rewrite Nat2N.id.
    assert (Hlow : bits_of (length r) (N.land V 255) = bits_of (length r) V).
    { apply bits_of_ext. intros i Hi. rewrite N.land_spec.
      change 255 with (N.ones 8). rewrite N.ones_spec_low by lia. apply andb_true_r. }
    rewrite Hlow, <- Hpend, bytes_to_bits_app, <- app_assoc, Hcat, HV. reflexivity.
  - exists bs. split; [reflexivity|exact Hlt].
Qed.

(* bits above the width are masked, not spilled into the neighbouring values *)
Lemma write_gen_masks esc s bits n : write_gen esc s bits n = write_gen esc s (bits mod 2 ^ n) n.
Proof.
  unfold write_gen. rewrite !N.land_ones. rewrite N.mod_mod by (apply N.pow_nonzero; lia). reflexivity.
Qed.

Lemma write_stream57 s cur bits n :
  WStream s cur -> n <= 57 -> WStream (write s bits n) (cur ++ bits_of (N.to_nat n) bits).
Proof.
  intros [raw [HI Hc]] Hn.
  assert (Hfit : wn s + n <= 64) by (destruct HI as [H8 _]; lia).
  destruct (write_gen_fit true s raw bits n HI Hfit) as [raw' [HI' [Hs _]]].
  exists raw'. split; [exact HI'|]. unfold write. rewrite Hs, <- Hc, <- app_assoc. reflexivity.
Qed.

Lemma write_ue_stream57 s cur v :
  WStream s cur -> v <= max_ue -> WStream (write_ue s v) (cur ++ ue_code v).
Proof.
  intros HS Hv. unfold write_ue.
  destruct (ue_loop_spec 64 v 0) as [q [Hq [Hlo Hhi]]]; [cbn; lia|unfold max_ue in Hv; cbn in *; lia|].
  change (2 ^ 0 - 1) with 0 in Hq. change (2 ^ (0 + 1) - 2) with 0 in Hq. rewrite Hq.
  assert (Hq32 : q <= 56).
  { destruct (N.le_gt_cases q 56) as [H|H]; [exact H|].
    assert (H57 : 2 ^ 57 <= 2 ^ q) by (apply N.pow_le_mono_r; lia).
    change (2 ^ 57) with 144115188075855872 in H57. unfold max_ue in Hv. lia. }
  rewrite (ue_code_alt v (N.to_nat q)) by (rewrite N2Nat.id; split; assumption).
  rewrite N2Nat.id.
  pose proof (write_stream57 s cur 1 (q + 1) HS ltac:(lia)) as H1.
  replace (N.to_nat (q + 1)) with (S (N.to_nat q)) in H1 by lia.
  rewrite bits_of_one_hot in H1.
  destruct (N.ltb_spec 0 q) as [Hpos|Hz].
  - pose proof (write_stream57 _ _ (v + 1 - 2 ^ q) q H1 ltac:(lia)) as H2.
    rewrite <- !app_assoc in *. exact H2.
  - assert (q = 0) by lia. subst q. cbn [N.to_nat bits_of]. rewrite app_nil_r. exact H1.
Qed.

Lemma fill_ok57 fuel : forall s n,
  RInv s -> n <= 57 -> rn s < n + 8 ->
  n <= N.of_nat (length (rbits s)) -> n <= rn s + 8 * N.of_nat fuel ->
  let s1 := fill true fuel s n in
  RInv s1 /\ n <= rn s1 /\ rn s1 < n + 8 /\ rbits s1 = rbits s /\ rdata s1 = rdata s
  /\ (n <= rn s -> s1 = s).
Proof.
  induction fuel as [|f IH]; intros s n HI Hn Hrn Hlen Hfuel; cbn [fill].
  - cbv zeta. repeat split; try apply HI; try lia; reflexivity.
  - destruct (N.ltb_spec (rn s) n) as [Hlt|Hge].
    2:{ cbv zeta. repeat split; try apply HI; try lia; reflexivity. }
    destruct HI as [He [Hv Hd]].
    unfold byte_at.
    (* there must be a next unescaped byte, otherwise not enough bits *)
    assert (Hne : rrest s <> []).
    { intros E. unfold rbits in Hlen. rewrite E in Hlen. cbn [bytes_to_bits flat_map] in Hlen.
      rewrite app_nil_r, bits_of_length in Hlen. lia. }
    unfold rrest in Hne.
    destruct (nth_error (rdata s) (N.to_nat (rpos s))) as [b|] eqn:Eb.
    2:{ rewrite (nth_error_none_skipn _ _ Eb) in Hne. cbn in Hne. contradiction. }
    pose proof (nth_error_skipn _ _ _ Eb) as Hsk.
    pose proof (nth_error_Forall _ _ _ _ Hd Eb) as Hb256.
    rewrite Hsk in Hne. cbn [unescape_from] in Hne.
    cbn [andb].
    destruct ((rzc s =? 2) && (b =? 3)) eqn:Ec.
    + (* escape byte: skip it, take the next *)
      replace (N.to_nat (rpos s + 1)) with (S (N.to_nat (rpos s))) by lia.
      destruct (nth_error (rdata s) (S (N.to_nat (rpos s)))) as [b'|] eqn:Eb'.
      2:{ rewrite (nth_error_none_skipn _ _ Eb') in Hne. contradiction. }
      pose proof (nth_error_skipn _ _ _ Eb') as Hsk'.
      pose proof (nth_error_Forall _ _ _ _ Hd Eb') as Hb'256.
      set (s2 := mkR (rn s + 8) (N.lor (u64 (N.shiftl (rv s) 8)) b') (rpos s + 1 + 1)
                     (if b' =? 0 then 1 else 0) false (rdata s)).
      assert (Hb2 : rbits s2 = rbits s).
      { unfold rbits, rrest, s2. cbn [rn rv rpos rzc rdata].
        rewrite Hsk. cbn [unescape_from]. rewrite Ec, Hsk'.
        replace (N.to_nat (rpos s + 1 + 1)) with (S (S (N.to_nat (rpos s)))) by lia.
        replace (N.to_nat (rn s + 8)) with (N.to_nat (rn s) + 8)%nat by lia.
        rewrite acc_shift_bits by (try exact Hb'256; lia).
        unfold bytes_to_bits. cbn [flat_map]. rewrite <- app_assoc. reflexivity. }
      assert (HI2 : RInv s2).
      { unfold RInv, s2. cbn [rerr rv rn rdata]. repeat split; [|exact Hd].
        apply acc_shift_lt; [lia|exact Hv|exact Hb'256]. }
      assert (Hr2 : rn s2 = rn s + 8) by reflexivity.
      destruct (IH s2 n HI2 Hn ltac:(rewrite Hr2; lia) ltac:(rewrite Hb2; exact Hlen)
                   ltac:(rewrite Hr2; lia)) as [HI3 [H1 [H2 [H3 [H4 _]]]]].
      repeat split; try apply HI3; try assumption.
      * rewrite H3. exact Hb2.
      * intros; lia.
    + set (s2 := mkR (rn s + 8) (N.lor (u64 (N.shiftl (rv s) 8)) b) (rpos s + 1)
                     (if b =? 0 then rzc s + 1 else 0) false (rdata s)).
      assert (Hb2 : rbits s2 = rbits s).
      { unfold rbits, rrest, s2. cbn [rn rv rpos rzc rdata].
        rewrite Hsk. cbn [unescape_from]. rewrite Ec.
        replace (N.to_nat (rpos s + 1)) with (S (N.to_nat (rpos s))) by lia.
        replace (N.to_nat (rn s + 8)) with (N.to_nat (rn s) + 8)%nat by lia.
        rewrite acc_shift_bits by (try exact Hb256; lia).
        unfold bytes_to_bits. cbn [flat_map]. rewrite <- app_assoc. reflexivity. }
      assert (HI2 : RInv s2).
      { unfold RInv, s2. cbn [rerr rv rn rdata]. repeat split; [|exact Hd].
        apply acc_shift_lt; [lia|exact Hv|exact Hb256]. }
      assert (Hr2 : rn s2 = rn s + 8) by reflexivity.
      destruct (IH s2 n HI2 Hn ltac:(rewrite Hr2; lia) ltac:(rewrite Hb2; exact Hlen)
                   ltac:(rewrite Hr2; lia)) as [HI3 [H1 [H2 [H3 [H4 _]]]]].
      repeat split; try apply HI3; try assumption.
      * rewrite H3. exact Hb2.
      * intros; lia.
Qed.

Lemma read_spec57 s n :
  RInv s -> rn s < 8 -> n <= 57 -> n <= N.of_nat (length (rbits s)) ->
  let '(v, s') := read s n in
  v = val_of (firstn (N.to_nat n) (rbits s)) /\
  rbits s' = skipn (N.to_nat n) (rbits s) /\
  RInv s' /\ rn s' < 8 /\ rdata s' = rdata s.
Proof.
  intros HI Hrn Hn Hlen. unfold read, read_gen.
  destruct HI as [He [Hv Hd]]. rewrite He.
  set (fuel := S (N.to_nat (n / 8) + 1)).
  pose proof (fill_ok57 fuel s n (conj He (conj Hv Hd)) Hn ltac:(lia) Hlen) as Hf.
  assert (Hfu : n <= rn s + 8 * N.of_nat fuel).
  { unfold fuel. pose proof (N.div_mod n 8 ltac:(lia)). pose proof (N.mod_lt n 8 ltac:(lia)). lia. }
  specialize (Hf Hfu). cbv zeta in Hf.
  set (s1 := fill true fuel s n) in *.
  destruct Hf as [[He1 [Hv1 Hd1]] [Hge [Hlt8 [Hb1 [Hdata _]]]]].
  rewrite He1.
  set (k := (N.to_nat (rn s1) - N.to_nat n)%nat).
  assert (Hsplit : N.to_nat (rn s1) = (N.to_nat n + k)%nat) by (unfold k; lia).
  assert (Hbits : bits_of (N.to_nat (rn s1)) (rv s1)
                  = bits_of (N.to_nat n) (N.shiftr (rv s1) (rn s1 - n)) ++ bits_of k (rv s1)).
  { rewrite Hsplit, bits_of_app. f_equal. f_equal. f_equal. unfold k. lia. }
  split; [|split; [|split; [|split]]].
  - rewrite <- Hb1. unfold rbits. rewrite Hbits, <- app_assoc.
    rewrite firstn_app, bits_of_length, Nat.sub_diag, firstn_O, app_nil_r.
    rewrite <- (bits_of_length (N.to_nat n) (N.shiftr (rv s1) (rn s1 - n))) at 1.
    rewrite firstn_all, val_of_bits_of. rewrite N2Nat.id.
    symmetry. apply N.mod_small.
    rewrite N.shiftr_div_pow2.
    apply N.div_lt_upper_bound; [apply N.pow_nonzero; lia|].
    rewrite <- N.pow_add_r. replace (rn s1 - n + n) with (rn s1) by lia. exact Hv1.
  - rewrite <- Hb1. unfold rbits at 2. rewrite Hbits, <- app_assoc.
    rewrite skipn_app, bits_of_length, Nat.sub_diag, skipn_O.
    rewrite <- (bits_of_length (N.to_nat n) (N.shiftr (rv s1) (rn s1 - n))) at 1.
    rewrite skipn_all. cbn [app].
    unfold rbits, rrest. cbn [rn rv rpos rzc rdata].
    replace (N.to_nat (rn s1 - n)) with k by (unfold k; lia).
    f_equal. apply bits_of_ext. intros i Hi.
    rewrite N.land_spec, N.ones_spec_low by (unfold k in Hi; lia). apply andb_true_r.
  - unfold RInv. cbn [rerr rv rn rdata]. repeat split; [|exact Hd1].
    rewrite N.land_ones. apply N.mod_lt. apply N.pow_nonzero. lia.
  - cbn [rn]. lia.
  - cbn [rdata]. exact Hdata.
Qed.

Lemma read_prefix57 s n pre rest :
  RGood s -> n <= 57 -> rbits s = pre ++ rest -> length pre = N.to_nat n ->
  exists s', read s n = (val_of pre, s') /\ rbits s' = rest /\ RGood s' /\ rdata s' = rdata s.
Proof.
  intros [HI Hn8] Hn Hb Hl.
  assert (Hlen : n <= N.of_nat (length (rbits s))) by (rewrite Hb, app_length; lia).
  pose proof (read_spec57 s n HI Hn8 Hn Hlen) as H. destruct (read s n) as [v s'].
  destruct H as [Hv [Hr [HI' [Hn' Hd]]]]. exists s'.
  rewrite Hb in Hv, Hr. rewrite <- Hl in Hv, Hr.
  rewrite firstn_app, Nat.sub_diag, firstn_O, app_nil_r, firstn_all in Hv.
  rewrite skipn_app, Nat.sub_diag, skipn_O, skipn_all in Hr. cbn [app] in Hr.
  subst v. split; [reflexivity|split; [exact Hr|split; [split; assumption|exact Hd]]].
Qed.

Lemma read_fixed57 s w v rest :
  RGood s -> w <= 57 -> v < 2 ^ w -> rbits s = bits_of (N.to_nat w) v ++ rest ->
  exists s', read s w = (v, s') /\ rbits s' = rest /\ RGood s' /\ rdata s' = rdata s.
Proof.
  intros HG Hw Hv Hb.
  destruct (read_prefix57 s w _ rest HG Hw Hb (bits_of_length _ _)) as [s' [Hr H]].
  exists s'. split; [|exact H].
  rewrite Hr, val_of_bits_of, N2Nat.id, N.mod_small by exact Hv. reflexivity.
Qed.

Lemma fill_fail57 fuel : forall s n,
  RInv s -> n <= 57 -> N.of_nat (length (rbits s)) < n -> n <= rn s + 8 * N.of_nat fuel ->
  rerr (fill true fuel s n) = true.
Proof.
  induction fuel as [|f IH]; intros s n HI Hn Hlen Hfuel.
  - exfalso. unfold rbits in Hlen. rewrite app_length, bits_of_length in Hlen. lia.
  - cbn [fill].
    assert (Hrn : rn s < n).
    { unfold rbits in Hlen. rewrite app_length, bits_of_length in Hlen. lia. }
    destruct (N.ltb_spec (rn s) n) as [_|Hge]; [|lia].
    destruct HI as [He [Hv Hd]]. unfold byte_at. cbn [andb].
    destruct (nth_error (rdata s) (N.to_nat (rpos s))) as [b|] eqn:Eb; [|reflexivity].
    pose proof (nth_error_skipn _ _ _ Eb) as Hsk.
    pose proof (nth_error_Forall _ _ _ _ Hd Eb) as Hb256.
    destruct ((rzc s =? 2) && (b =? 3)) eqn:Ec.
    + replace (N.to_nat (rpos s + 1)) with (S (N.to_nat (rpos s))) by lia.
      destruct (nth_error (rdata s) (S (N.to_nat (rpos s)))) as [b'|] eqn:Eb'; [|reflexivity].
      pose proof (nth_error_skipn _ _ _ Eb') as Hsk'.
      pose proof (nth_error_Forall _ _ _ _ Hd Eb') as Hb'256.
      set (s2 := mkR (rn s + 8) (N.lor (u64 (N.shiftl (rv s) 8)) b') (rpos s + 1 + 1)
                     (if b' =? 0 then 1 else 0) false (rdata s)).
      assert (Hb2 : rbits s2 = rbits s).
      { unfold rbits, rrest, s2. cbn [rn rv rpos rzc rdata].
        rewrite Hsk. cbn [unescape_from]. rewrite Ec, Hsk'.
        replace (N.to_nat (rpos s + 1 + 1)) with (S (S (N.to_nat (rpos s)))) by lia.
        replace (N.to_nat (rn s + 8)) with (N.to_nat (rn s) + 8)%nat by lia.
        rewrite acc_shift_bits by (try exact Hb'256; lia).
        unfold bytes_to_bits. cbn [flat_map]. rewrite <- app_assoc. reflexivity. }
      apply IH; [|exact Hn|rewrite Hb2; exact Hlen|unfold s2; cbn [rn]; lia].
      unfold RInv, s2. cbn [rerr rv rn rdata]. repeat split; [|exact Hd].
      apply acc_shift_lt; [lia|exact Hv|exact Hb'256].
    + set (s2 := mkR (rn s + 8) (N.lor (u64 (N.shiftl (rv s) 8)) b) (rpos s + 1)
                     (if b =? 0 then rzc s + 1 else 0) false (rdata s)).
      assert (Hb2 : rbits s2 = rbits s).
      { unfold rbits, rrest, s2. cbn [rn rv rpos rzc rdata].
        rewrite Hsk. cbn [unescape_from]. rewrite Ec.
        replace (N.to_nat (rpos s + 1)) with (S (N.to_nat (rpos s))) by lia.
        replace (N.to_nat (rn s + 8)) with (N.to_nat (rn s) + 8)%nat by lia.
        rewrite acc_shift_bits by (try exact Hb256; lia).
        unfold bytes_to_bits. cbn [flat_map]. rewrite <- app_assoc. reflexivity. }
      apply IH; [|exact Hn|rewrite Hb2; exact Hlen|unfold s2; cbn [rn]; lia].
      unfold RInv, s2. cbn [rerr rv rn rdata]. repeat split; [|exact Hd].
      apply acc_shift_lt; [lia|exact Hv|exact Hb256].
Qed.

Lemma read_fail57 s n :
  RInv s -> rn s < 8 -> n <= 57 -> N.of_nat (length (rbits s)) < n ->
  fst (read s n) = 0 /\ rerr (snd (read s n)) = true.
Proof.
  intros HI Hn8 Hn Hlen. unfold read, read_gen. destruct HI as [He [Hv Hd]]. rewrite He.
  assert (Hf : rerr (fill true (S (N.to_nat (n / 8) + 1)) s n) = true).
  { apply fill_fail57; [exact (conj He (conj Hv Hd))|exact Hn|exact Hlen|].
    pose proof (N.div_mod n 8 ltac:(lia)). pose proof (N.mod_lt n 8 ltac:(lia)). lia. }
  rewrite Hf. split; [reflexivity|exact Hf].
Qed.

Lemma read_ue_spec57 s v rest :
  RGood s -> v + 1 < 2 ^ 58 -> rbits s = ue_code' v ++ rest ->
  exists s', read_ue s = (v, s') /\ rbits s' = rest /\ RGood s' /\ rdata s' = rdata s.
Proof.
  intros HG Hv Hb. unfold read_ue, ue_code' in *.
  set (q := N.to_nat (N.log2 (v + 1))) in *.
  assert (Hq : 2 ^ N.of_nat q <= v + 1 < 2 ^ (N.of_nat q + 1)).
  { unfold q. rewrite N2Nat.id. rewrite N.add_1_r with (n := N.log2 (v + 1)).
    apply N.log2_spec. lia. }
  assert (Hq32 : (q <= 57)%nat).
  { destruct (Nat.le_gt_cases q 57) as [H|H]; [exact H|].
    assert (H33 : 2 ^ 58 <= 2 ^ N.of_nat q) by (apply N.pow_le_mono_r; lia).
    change (2 ^ 58) with 288230376151711744 in H33, Hv. lia. }
  assert (Hp1 : 2 ^ (N.of_nat q + 1) = 2 * 2 ^ N.of_nat q) by (rewrite N.pow_add_r, N.pow_1_r; lia).
  pose proof HG as [[He _] Hn8]. rewrite He.
  rewrite <- app_assoc in Hb. cbn [app] in Hb.
  assert (Hfu : (q < S (8 * length (rdata s) + 8))%nat).
  { pose proof (rbits_length_le s Hn8) as Hl. rewrite Hb, app_length, repeat_length in Hl. cbn [length] in Hl. lia. }
  destruct (lz_loop_spec q _ s 0 _ HG Hfu Hb) as [s1 [Hl [Hb1 [HG1 Hd1]]]].
  rewrite Hl. pose proof HG1 as [[He1 _] _]. rewrite He1. cbn [N.add].
  destruct (read_fixed57 s1 (N.of_nat q) (v + 1 - 2 ^ N.of_nat q) rest HG1 ltac:(lia) ltac:(lia)
              ltac:(rewrite Nat2N.id; exact Hb1)) as [s2 [Hr [Hb2 [HG2 Hd2]]]].
  rewrite Hr. pose proof HG2 as [[He2 _] _]. rewrite He2.
  exists s2. split; [|fin].
  f_equal. rewrite N.shiftl_1_l. unfold u64.
  assert (Hp : 2 ^ N.of_nat q <= 2 ^ 57) by (apply N.pow_le_mono_r; lia).
  change (2 ^ 57) with 144115188075855872 in *. change (2 ^ 58) with 288230376151711744 in *.
  replace (2 ^ N.of_nat q + 18446744073709551615)
    with ((2 ^ N.of_nat q - 1) + 1 * 18446744073709551616) by lia.
  rewrite N.mod_add by lia. rewrite (N.mod_small (2 ^ N.of_nat q - 1)) by lia.
  rewrite N.mod_small by lia. lia.
Qed.

Lemma read_se_spec57 s k rest :
  RGood s -> se_to_ue k + 1 < 2 ^ 58 -> rbits s = ue_code' (se_to_ue k) ++ rest ->
  exists s', read_se s = (k, s') /\ rbits s' = rest /\ RGood s' /\ rdata s' = rdata s.
Proof.
  intros HG Hk Hb. unfold read_se.
  destruct (read_ue_spec57 s _ rest HG Hk Hb) as [s' [Hr [Hb' [HG' Hd]]]].
  rewrite Hr. pose proof HG' as [[He _] _]. rewrite He.
  exists s'. split; [|fin].
  f_equal. destruct k as [|p|p]; cbn [se_to_ue].
  - reflexivity.
  - destruct (N.eqb_spec ((2 * N.pos p - 1) mod 2) 1) as [E|E].
    + replace ((2 * N.pos p - 1 + 1) / 2) with (N.pos p).
      2:{ replace (2 * N.pos p - 1 + 1) with (N.pos p * 2) by lia. rewrite N.div_mul by lia. reflexivity. }
      reflexivity.
    + exfalso. apply E. replace (2 * N.pos p - 1) with (1 + (N.pos p - 1) * 2) by lia.
      rewrite N.mod_add by lia. reflexivity.
  - destruct (N.eqb_spec ((2 * N.pos p) mod 2) 1) as [E|E].
    + exfalso. rewrite N.mul_comm, N.mod_mul in E by lia. discriminate.
    + rewrite N.mul_comm, N.div_mul by lia. reflexivity.
Qed.

