(* Extraction of the C13 models for the correspondence check. ExtrOcamlBasic only. *)
From V.lib Require Import Base.
From V.c13 Require Import C13Spec C13Model C13ModelExt C13ModelTail.
Require Import ExtrOcamlBasic.
Separate Extraction
  wstate wop rop rval rstate
  run_writer run_writer_plain wstep wout wn wv
  rinit rstep run_reader rerr rn rpos read_plain read read_signed_plain
  nr_bytes_read nr_bits_read nr_bits_read_in_current_byte
  escape unescape forbidden
  xrop xrval xrstep read_flag_plain
  fop fsw run_fsw fstep finit fbytes foff ferr
  bop bw run_bw bstep binit bbytes berr brev
  wx xinit xout xs xerr wxstep wxstep_plain run_wx run_wx_plain read_se64 read_signed64
  read_remaining fop2 fstep2 run_fsw2 fput_string.
