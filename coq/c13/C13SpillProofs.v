(* C13SpillProofs.v — what Write(bits, n) does for EVERY n (C13b): the pending bits that do not fit the 64-bit
   accumulator beside the n new bits are replaced by zeros; nothing else changes.  With pending + n <= 64 nothing
   is lost (C13WideProofs.write_gen_fit is the special case). *)
From V.lib Require Import Base.
From V.c13 Require Import C13Spec C13Model C13Bits C13EscProofs C13WriterProofs.

Lemma write_acc_bits_any wn0 wv0 bits n :
  bits_of (wn0 + n)
    (N.lor (u64 (N.shiftl wv0 (N.of_nat n))) (N.land bits (N.ones (N.of_nat n))))
  = bits_of wn0 (wv0 mod 2 ^ (64 - N.of_nat n)) ++ bits_of n bits.
Proof.
  apply bits_of_app_ext.
  - intros i Hi. rewrite N.lor_spec, N.land_spec, N.ones_spec_low by lia.
    unfold u64. change 18446744073709551616 with (2 ^ 64).
    rewrite andb_true_r.
    destruct (N.lt_ge_cases i 64) as [H64|H64].
    + rewrite N.mod_pow2_bits_low by lia. rewrite N.shiftl_spec_low by lia. reflexivity.
    + rewrite N.mod_pow2_bits_high by lia. reflexivity.
  - intros i Hi. rewrite N.lor_spec, N.land_spec, N.ones_spec_high by lia.
    rewrite andb_false_r, orb_false_r.
    unfold u64. change 18446744073709551616 with (2 ^ 64).
    destruct (N.lt_ge_cases (N.of_nat n + i) 64) as [Hlt|Hge].
    + rewrite N.mod_pow2_bits_low by lia. rewrite N.shiftl_spec_high' by lia.
      rewrite N.mod_pow2_bits_low by lia. f_equal. lia.
    + rewrite N.mod_pow2_bits_high by lia. rewrite N.mod_pow2_bits_high by lia. reflexivity.
Qed.

Lemma write_gen_any esc s raw bits n :
  WInv esc s raw ->
  exists raw',
    WInv esc (write_gen esc s bits n) raw' /\
    bytes_to_bits raw' ++ pending (write_gen esc s bits n)
    = bytes_to_bits raw ++ bits_of (N.to_nat (wn s)) (wv s mod 2 ^ (64 - n)) ++ bits_of (N.to_nat n) bits /\
    exists added, raw' = raw ++ added /\ Forall (fun b => b < 256) added.
Proof.
  intros [Hn [Hraw Hout]].
  unfold write_gen.
  set (V := N.lor (u64 (N.shiftl (wv s) n)) (N.land bits (N.ones n))).
  set (T := (N.to_nat (wn s) + N.to_nat n)%nat).
  replace (wn s + n) with (N.of_nat T) by lia.
  set (fuel := S (N.to_nat (N.of_nat T / 8))).
  rewrite drain_spec.
  assert (HV : bits_of T V = bits_of (N.to_nat (wn s)) (wv s mod 2 ^ (64 - n)) ++ bits_of (N.to_nat n) bits).
  { unfold V, T.
    pose proof (write_acc_bits_any (N.to_nat (wn s)) (wv s) bits (N.to_nat n)) as HH.
    rewrite N2Nat.id in HH. exact HH. }
  pose proof (chunk8_concat fuel (bits_of T V)) as Hcat.
  pose proof (chunk8_rest_short fuel (bits_of T V)) as Hshort.
  pose proof (chunk8_pending fuel T V) as Hpend.
  pose proof (chunk8_bytes_lt fuel (bits_of T V)) as Hlt.
  destruct (chunk8 fuel (bits_of T V)) as [bs r] eqn:Ec. cbn [fst snd] in *.
  assert (Hr : (length r < 8)%nat).
  { apply Hshort. rewrite bits_of_length. unfold fuel.
    pose proof (N.mod_lt (N.of_nat T) 8 ltac:(lia)).
    pose proof (N.div_mod (N.of_nat T) 8 ltac:(lia)). lia. }
  destruct (emit_all esc (wnr0 s) (wrev s) bs) as [z' o'] eqn:Ee.
  exists (raw ++ bs). split; [|split].
  - unfold WInv. cbn [wn wrev wnr0]. split; [lia|]. split; [apply Forall_app; split; assumption|].
    destruct esc.
    + destruct Hout as [Ho Hz]. rewrite emit_all_esc in Ee. inversion Ee; subst z' o'.
      rewrite Ho, Hz. unfold escape. rewrite escape_from_app, rev_app_distr, zafter_app. split; reflexivity.
    + pose proof (emit_all_plain (wnr0 s) (wrev s) bs) as Hp. rewrite Ee in Hp. cbn [snd] in Hp.
      rewrite Hp, Hout, rev_app_distr. reflexivity.
  - unfold pending at 1. cbn [wn wv].
    rewrite Nat2N.id.
    assert (Hlow : bits_of (length r) (N.land V 255) = bits_of (length r) V).
    { apply bits_of_ext. intros i Hi. rewrite N.land_spec.
      change 255 with (N.ones 8). rewrite N.ones_spec_low by lia. apply andb_true_r. }
    rewrite Hlow, <- Hpend, bytes_to_bits_app, <- app_assoc, Hcat, HV. reflexivity.
  - exists bs. split; [reflexivity|exact Hlt].
Qed.

(* the zeroed bits are exactly the topmost pending + n - 64 pending bits *)
Lemma pending_truncated wn0 wv0 n :
  bits_of wn0 (wv0 mod 2 ^ (64 - n))
  = repeat false (wn0 - N.to_nat (64 - n)) ++ bits_of (Nat.min wn0 (N.to_nat (64 - n))) wv0.
Proof.
  set (c := N.to_nat (64 - n)).
  destruct (Nat.le_gt_cases wn0 c) as [Hle|Hgt].
  - replace (wn0 - c)%nat with 0%nat by lia. rewrite Nat.min_l by exact Hle. cbn [repeat app].
    apply bits_of_ext. intros i Hi. apply N.mod_pow2_bits_low. unfold c in Hle. lia.
  - rewrite Nat.min_r by lia.
    replace wn0 with ((wn0 - c) + c)%nat at 1 by lia.
    rewrite (bits_of_app_ext (wn0 - c) c _ 0 wv0).
    + f_equal. clear. induction (wn0 - c)%nat as [|k IH]; [reflexivity|].
      cbn [bits_of repeat]. rewrite N.bits_0, IH. reflexivity.
    + intros i Hi. apply N.mod_pow2_bits_low. unfold c in Hi. lia.
    + intros i Hi. rewrite N.bits_0. apply N.mod_pow2_bits_high. unfold c. lia.
Qed.
