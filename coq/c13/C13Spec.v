(* Escape.v — the emulation-prevention rule of H.264/H.265 (7.4.1) as a one-shot
   specification on byte lists, with the property predicates of C13.  Definitions only. *)
From V.lib Require Import Base.

(* z = number of consecutive zero bytes at the end of what has been emitted so far
   since the last non-zero byte or inserted escape (0, 1 or 2). *)
Fixpoint escape_from (z : N) (l : list N) : list N :=
  match l with
  | [] => []
  | b :: t =>
      if (z =? 2) && (b <=? 3)
      then 3 :: b :: escape_from (if b =? 0 then 1 else 0) t
      else b :: escape_from (if b =? 0 then z + 1 else 0) t
  end.
Definition escape (l : list N) : list N := escape_from 0 l.

(* The same with a mark on every inserted byte. *)
Fixpoint escape_marked_from (z : N) (l : list N) : list (N * bool) :=
  match l with
  | [] => []
  | b :: t =>
      if (z =? 2) && (b <=? 3)
      then (3, true) :: (b, false) :: escape_marked_from (if b =? 0 then 1 else 0) t
      else (b, false) :: escape_marked_from (if b =? 0 then z + 1 else 0) t
  end.
Definition escape_marked (l : list N) := escape_marked_from 0 l.

(* Removal: z = number of zero bytes read since the last non-zero byte or removed escape;
   not capped, exactly as the reader counts.  A dangling escape at the very end reads
   nothing more (the reader reports an error there). *)
Fixpoint unescape_from (z : N) (l : list N) : list N :=
  match l with
  | [] => []
  | b :: t =>
      if (z =? 2) && (b =? 3)
      then match t with
           | [] => []
           | b' :: t' => b' :: unescape_from (if b' =? 0 then 1 else 0) t'
           end
      else b :: unescape_from (if b =? 0 then z + 1 else 0) t
  end.
Definition unescape (l : list N) : list N := unescape_from 0 l.

(* 00 00 00, 00 00 01, 00 00 02 somewhere in l *)
Fixpoint forbidden (l : list N) : bool :=
  match l with
  | a :: t =>
      match t with
      | b :: c :: _ => ((a =? 0) && (b =? 0) && (c <=? 2)) || forbidden t
      | _ => false
      end
  | [] => false
  end.

(* every 00 00 03 in a marked stream has its 03 marked as inserted *)
Fixpoint all_003_inserted (l : list (N * bool)) : bool :=
  match l with
  | a :: t =>
      match t with
      | b :: c :: _ =>
          (if (fst a =? 0) && (fst b =? 0) && (fst c =? 3) then snd c else true)
          && all_003_inserted t
      | _ => true
      end
  | [] => true
  end.

(* every inserted byte is needed: it is preceded by two zero bytes and followed by a byte
   <= 3, i.e. deleting it would leave 00 00 0x with x <= 3.  z1 z0 = the two previous
   bytes are zero. *)
Fixpoint inserted_needed (z1 z0 : bool) (l : list (N * bool)) : bool :=
  match l with
  | [] => true
  | (b, m) :: t =>
      (if m then z1 && z0 && match t with (c, _) :: _ => c <=? 3 | [] => false end else true)
      && inserted_needed z0 (b =? 0) t
  end.
