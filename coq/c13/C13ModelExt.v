(* C13ModelExt.v — further executable models of the bits package, added next to C13Model.v
   (which other properties import and which therefore stays byte-identical):
     EBSPReader.ReadRbspTrailingBits, the plain Reader's ReadFlag,
     FixedSliceWriter (fixed capacity, accError, byte-level Write* methods, WriteBits/WriteFlag/FlushBits),
     ByteWriter over an io.Writer that accepts a limited number of bytes.
   Definitions only.  Transcribed from the Go text: what the code does, not what it should do. *)
From V.lib Require Import Base.
From V.c13 Require Import C13Model.

(* ------------------------------------------------------------------ EBSPReader.ReadRbspTrailingBits *)
(* return value: nil | "rbspTrailingBits don't start with 1" | "another 1 in RbspTrailingBits" *)
Inductive trail_res := TNil | TNoOne | TSecondOne.

Definition clear_err (s : rstate) : rstate := mkR (rn s) (rv s) (rpos s) (rzc s) false (rdata s).

(* for { b := r.Read(1); if r.err == io.EOF { r.err = nil; return nil }; if b == 1 { return error } }
   None = model fuel exhausted (excluded in the theorems: fuel covers every bit of the input) *)
Fixpoint trail_loop (fuel : nat) (s : rstate) : option (trail_res * rstate) :=
  match fuel with
  | O => None
  | S f =>
      let '(b, s1) := read s 1 in
      if rerr s1 then Some (TNil, clear_err s1)
      else if b =? 1 then Some (TSecondOne, s1)
      else trail_loop f s1
  end.

Definition read_trailing (s : rstate) : option (trail_res * rstate) :=
  if rerr s then Some (TNil, s)
  else
    let '(b, s1) := read s 1 in
    if rerr s1 then Some (TNil, s1)
    else if negb (b =? 1) then Some (TNoOne, s1)
    else trail_loop (S (8 * length (rdata s) + 8)) s1.

(* reader ops of C13Model.rop plus ReadRbspTrailingBits *)
Inductive xrop := XBase (o : rop) | XTrail.
Inductive xrval := XV (v : rval) | XT (t : trail_res) | XFuel.

Definition xrstep (s : rstate) (o : xrop) : xrval * rstate :=
  match o with
  | XBase o => let '(v, s') := rstep s o in (XV v, s')
  | XTrail => match read_trailing s with Some (t, s') => (XT t, s') | None => (XFuel, s) end
  end.

(* func (r *Reader) ReadFlag() bool: false when an error is (or becomes) set *)
Definition read_flag_plain (s : rstate) : bool * rstate :=
  let '(v, s') := read_plain s 1 in
  if rerr s' then (false, s') else (v =? 1, s').

(* ------------------------------------------------------------------ big-endian byte strings *)
(* the k low-order bytes of v, most significant first (binary.BigEndian.PutUintXX / binary.Write) *)
Fixpoint be_bytes (k : nat) (v : N) : list N :=
  match k with
  | O => []
  | S k' => (N.shiftr v (8 * N.of_nat k')) mod 256 :: be_bytes k' v
  end.

Fixpoint be_val (l : list N) : N :=
  match l with
  | [] => 0
  | b :: t => b * 2 ^ (8 * N.of_nat (length t)) + be_val t
  end.

(* uintXX(n) of a signed Go integer: two's complement *)
Definition twos (k : nat) (z : Z) : N := Z.to_N (z mod 2 ^ (8 * Z.of_nat k)).

(* ------------------------------------------------------------------ FixedSliceWriter *)
(* frev = buf[:off] reversed (off = length frev); fcap = len(buf) *)
Record fsw := mkF { fcap : N; frev : list N; ferr : bool; fn : N; fv : N }.

Definition finit (cap : N) : fsw := mkF cap [] false 0 0.
Definition fbytes (s : fsw) : list N := rev (frev s).
Definition foff (s : fsw) : N := N.of_nat (length (frev s)).

(* the common shape of WriteUint8/16/32/64, WriteInt16/32/64, WriteBytes, WriteZeroBytes:
   `if sw.off+k > len(sw.buf) { sw.accError = ErrSliceWrite; return }` then copy; accError is NOT consulted *)
Definition fput (s : fsw) (bs : list N) : fsw :=
  if fcap s <? foff s + N.of_nat (length bs)
  then mkF (fcap s) (frev s) true (fn s) (fv s)
  else mkF (fcap s) (rev bs ++ frev s) (ferr s) (fn s) (fv s).

(* WriteUint24: the 3-byte check, then WriteUint8(byte(n >> 16)); WriteUint16(uint16(n & 0xffff)) *)
Definition fput24 (s : fsw) (n : N) : fsw :=
  if fcap s <? foff s + 3 then mkF (fcap s) (frev s) true (fn s) (fv s)
  else fput (fput s [N.shiftr n 16 mod 256]) (be_bytes 2 (N.land n 65535)).

(* WriteUint48: the 6-byte check, then PutUint16(uint16(u >> 32)); PutUint32(uint32(u & 0xffffffff)) *)
Definition fput48 (s : fsw) (u : N) : fsw :=
  if fcap s <? foff s + 6 then mkF (fcap s) (frev s) true (fn s) (fv s)
  else mkF (fcap s)
           (rev (be_bytes 4 (N.land u 4294967295)) ++ rev (be_bytes 2 (N.shiftr u 32 mod 65536)) ++ frev s)
           (ferr s) (fn s) (fv s).

(* WriteUnityMatrix: the 36-byte check, then nine WriteUint32 *)
Definition unity_words : list N := [65536; 0; 0; 0; 65536; 0; 0; 0; 1073741824].
Definition fput_matrix (s : fsw) : fsw :=
  if fcap s <? foff s + 36 then mkF (fcap s) (frev s) true (fn s) (fv s)
  else fold_left (fun st w => fput st (be_bytes 4 w)) unity_words s.

(* `for sw.n >= 8 { sw.WriteUint8(b); sw.n -= 8 }`: the byte writes may fail one by one *)
Fixpoint fdrain (fuel : nat) (V T : N) (s : fsw) : N * fsw :=
  match fuel with
  | O => (T, s)
  | S f =>
      if 8 <=? T then fdrain f V (T - 8) (fput s [N.land (N.shiftr V (T - 8)) 255])
      else (T, s)
  end.

Definition fwrite_bits (s : fsw) (bits n : N) : fsw :=
  if ferr s then s
  else
    let V := N.lor (u64 (N.shiftl (fv s) n)) (N.land bits (N.ones n)) in
    let T := fn s + n in
    let '(T', s') := fdrain (S (N.to_nat (T / 8))) V T s in
    mkF (fcap s') (frev s') (ferr s') T' (N.land V 255).

Definition fflush (s : fsw) : fsw :=
  if ferr s then s
  else if fn s =? 0 then s
  else fput s [N.land (N.shiftl (fv s) (8 - fn s)) 255].

Inductive fop :=
| FBits (v w : N)          (* WriteBits *)
| FFlag (b : bool)         (* WriteFlag *)
| FFlush                   (* FlushBits *)
| FU (k : nat) (v : N)     (* WriteUint8/16/32/64 (k = 1,2,4,8): v is already of that width *)
| FU24 (v : N)             (* WriteUint24(uint32) *)
| FU48 (v : N)             (* WriteUint48(uint64) *)
| FI (k : nat) (z : Z)     (* WriteInt16/32/64 *)
| FZero (k : nat)          (* WriteZeroBytes *)
| FBytes (l : list N)      (* WriteBytes *)
| FMatrix.                 (* WriteUnityMatrix *)

Definition fstep (s : fsw) (o : fop) : fsw :=
  match o with
  | FBits v w => fwrite_bits s v w
  | FFlag b => fwrite_bits s (if b then 1 else 0) 1
  | FFlush => fflush s
  | FU k v => fput s (be_bytes k v)
  | FU24 v => fput24 s v
  | FU48 v => fput48 s v
  | FI k z => fput s (be_bytes k (twos k z))
  | FZero k => fput s (repeat 0 k)
  | FBytes l => fput s l
  | FMatrix => fput_matrix s
  end.

Definition run_fsw (cap : N) (ops : list fop) : fsw := fold_left fstep ops (finit cap).

(* the bit-level ops seen as ops of the plain writer model *)
Definition fop_of_wop (o : wop) : option fop :=
  match o with
  | WBits v w => Some (FBits v w)
  | WFlag b => Some (FFlag b)
  | WFlush => Some FFlush
  | _ => None
  end.

(* ------------------------------------------------------------------ ByteWriter *)
(* The io.Writer under test accepts bcap bytes in total: a Write that does not fit stores what fits
   and returns an error (harness type limitedWriter).  brev = bytes accepted so far, reversed. *)
Record bw := mkB { bcap : N; brev : list N; berr : bool }.

Definition binit (cap : N) : bw := mkB cap [] false.
Definition bbytes (s : bw) : list N := rev (brev s).

Definition sink_write (s : bw) (p : list N) : bw :=
  let room := bcap s - N.of_nat (length (brev s)) in
  if N.of_nat (length p) <=? room then mkB (bcap s) (rev p ++ brev s) false
  else mkB (bcap s) (rev (firstn (N.to_nat room) p) ++ brev s) true.

(* `if a.err != nil { return }; a.err = binary.Write(a.w, binary.BigEndian, x)` *)
Definition bput (s : bw) (p : list N) : bw := if berr s then s else sink_write s p.

Inductive bop :=
| BU (k : nat) (v : N)     (* WriteUint8/16/32/64 *)
| BU48 (v : N)             (* WriteUint48 *)
| BSlice (l : list N).     (* WriteSlice *)

Definition bstep (s : bw) (o : bop) : bw :=
  match o with
  | BU k v => bput s (be_bytes k v)
  | BU48 u =>
      if berr s then s
      else
        let s1 := sink_write s (be_bytes 2 (N.shiftr u 32 mod 65536)) in
        if berr s1 then s1 else sink_write s1 (be_bytes 4 (N.land u 4294967295))
  | BSlice l => bput s l
  end.

Definition run_bw (cap : N) (ops : list bop) : bw := fold_left bstep ops (binit cap).

(* what the ops mean: the concatenation of the big-endian encodings *)
Definition bop_bytes (o : bop) : list N :=
  match o with
  | BU k v => be_bytes k v
  | BU48 u => be_bytes 6 u
  | BSlice l => l
  end.

(* ================================================================== second extension (C13b) *)
(* ------------------------------------------------------------------ writers over an io.Writer that may fail *)
(* EBSPWriter / Writer keep the first error (`if w.err != nil { return }` at the top of Write, Flush) and
   return from the middle of the drain loop when the underlying Write fails: w.n is then NOT decremented for
   the failed byte and `w.v &= Mask(8)` is skipped.
   xrem = None: the io.Writer never fails; Some r: it accepts r more one-byte writes, then every Write fails
   (harness type failAt).  The writers only ever issue one-byte writes. *)
Record wx := mkWX { xs : wstate; xerr : bool; xrem : option N }.

Definition xinit (cap : option N) : wx := mkWX winit false cap.
Definition xout (s : wx) : list N := wout (xs s).
Definition room (rem : option N) : bool := match rem with None => true | Some r => 0 <? r end.
Definition take (rem : option N) : option N := match rem with None => None | Some r => Some (r - 1) end.

(* the loop body up to (excluding) `w.n -= 8`: (ok, nr0, out, rem) *)
Definition emit_byte_x (esc : bool) (b nr0 : N) (out : list N) (rem : option N)
  : bool * N * list N * option N :=
  if esc && (nr0 =? 2) && (b <=? 3) then
    if room rem then
      let out1 := 3 :: out in
      let rem1 := take rem in
      if room rem1 then (true, (if b =? 0 then 1 else 0), b :: out1, take rem1)
      else (false, 0, out1, rem1)
    else (false, nr0, out, rem)
  else if room rem then (true, (if b =? 0 then nr0 + 1 else 0), b :: out, take rem)
  else (false, nr0, out, rem).

Fixpoint drain_x (esc : bool) (fuel : nat) (V T nr0 : N) (out : list N) (rem : option N)
  : bool * N * N * list N * option N :=
  match fuel with
  | O => (true, T, nr0, out, rem)
  | S f =>
      if 8 <=? T then
        let b := N.land (N.shiftr V (T - 8)) 255 in
        let '(ok, z, o, r) := emit_byte_x esc b nr0 out rem in
        if ok then drain_x esc f V (T - 8) z o r else (false, T, z, o, r)
      else (true, T, nr0, out, rem)
  end.

(* Write(bits, n), any n >= 0 (Go: shifts by >= 64 give 0, Mask(n) is all ones for n >= 64) *)
Definition write_x (esc : bool) (s : wx) (bits n : N) : wx :=
  if xerr s then s
  else
    let V := N.lor (u64 (N.shiftl (wv (xs s)) n)) (N.land bits (N.ones n)) in
    let T := wn (xs s) + n in
    let '(ok, T', z, o, r) := drain_x esc (S (N.to_nat (T / 8))) V T (wnr0 (xs s)) (wrev (xs s)) (xrem s) in
    if ok then mkWX (mkW T' (N.land V 255) z o) false r
    else mkWX (mkW T' V z o) true r.

(* WriteExpGolomb after repo commit 9ec0951: values above 2^57 - 2 set ErrExpGolombRange and write nothing *)
Definition max_ue : N := 144115188075855870.

Definition write_ue_x (s : wx) (nr : N) : wx :=
  if max_ue <? nr then (if xerr s then s else mkWX (xs s) true (xrem s))
  else
    let '(p, delta) := ue_loop 64 nr 0 0 0 in
    let s1 := write_x true s 1 (p + 1) in
    if 0 <? p then write_x true s1 delta p else s1.

Fixpoint write_sei_value_x_fuel (fuel : nat) (s : wx) (val : N) : wx :=
  match fuel with
  | O => s
  | S f => if 255 <=? val then write_sei_value_x_fuel f (write_x true s 255 8) (val - 255)
           else write_x true s val 8
  end.
Definition write_sei_value_x (s : wx) (val : N) : wx :=
  write_sei_value_x_fuel (S (N.to_nat (val / 255))) s val.

(* after an error w.n may be >= 8: 8 - w.n is then negative in Go, but Write returns at once *)
Definition stuff_zeros_x (s : wx) : wx :=
  if 0 <? wn (xs s) then write_x true s 0 (8 - wn (xs s)) else s.
Definition write_trailing_x (s : wx) : wx := stuff_zeros_x (write_x true s 1 1).

(* Writer.Flush: `if w.err != nil { return }; if w.n != 0 { binary.Write(w.wr, BigEndian, uint8(b)) }` *)
Definition flush_x (s : wx) : wx :=
  if xerr s then s
  else if wn (xs s) =? 0 then s
  else if room (xrem s)
       then mkWX (mkW (wn (xs s)) (wv (xs s)) (wnr0 (xs s))
                      (N.land (N.shiftl (wv (xs s)) (8 - wn (xs s))) 255 :: wrev (xs s)))
                 false (take (xrem s))
       else mkWX (xs s) true (xrem s).

Definition wxstep (s : wx) (o : wop) : wx :=
  match o with
  | WBits v w => write_x true s v w
  | WFlag b => write_x true s (if b then 1 else 0) 1
  | WUe v => write_ue_x s v
  | WSe k => write_ue_x s (se_to_ue k)
  | WSei v => write_sei_value_x s v
  | WTrail => write_trailing_x s
  | WStuff => stuff_zeros_x s
  | WFlush => s
  end.

Definition wxstep_plain (s : wx) (o : wop) : wx :=
  match o with
  | WBits v w => write_x false s v w
  | WFlag b => write_x false s (if b then 1 else 0) 1
  | WFlush => flush_x s
  | _ => s
  end.

Definition run_wx (cap : option N) (ops : list wop) : wx := fold_left wxstep ops (xinit cap).
Definition run_wx_plain (cap : option N) (ops : list wop) : wx := fold_left wxstep_plain ops (xinit cap).

(* ------------------------------------------------------------------ readers at the integer boundaries *)
(* ReadSignedGolomb with Go's wrap: `int((unsignedGolomb + 1) / 2)` where the + 1 is a uint addition.
   C13Model.read_se computes (u + 1) / 2 without the wrap: the two differ exactly at u = 2^64 - 1
   (64 zero bits, a one, 64 zero bits), where Go returns 0. *)
Definition read_se64 (s : rstate) : Z * rstate :=
  let '(u, s1) := read_ue s in
  if rerr s1 then (0%Z, s1)
  else if u mod 2 =? 1 then (Z.of_N (u64 (u + 1) / 2), s1)
  else ((- Z.of_N (u / 2))%Z, s1).

(* int(x) of a uint *)
Definition to_int64 (v : N) : Z :=
  if v <? 9223372036854775808 then Z.of_N v else (Z.of_N v - 18446744073709551616)%Z.

(* the arithmetic of Reader.ReadSigned: nr := int(v); if nr >> (n-1) == 1 { nr |= -1 << n }.
   -1 << n is 0 in Go for n >= 64; the test cannot succeed then (nr >> 63 is 0 or -1). *)
Definition sext64 (v n : N) : Z :=
  let nr := to_int64 v in
  if (Z.shiftr nr (Z.of_N (n - 1)) =? 1)%Z then Z.lor nr (Z.shiftl (-1) (Z.of_N n)) else nr.

(* None: run-time panic (n = 0 makes `nr >> (n-1)` a negative shift amount) *)
Definition read_signed64 (s : rstate) (n : N) : option (Z * rstate) :=
  let '(v, s') := read_plain s n in
  if n =? 0 then None else Some (sext64 v n, s').

(* zero value of a reader op: what every read returns once the error is set *)
Definition rzero (o : rop) : rval :=
  match o with
  | RBits _ => VN 0 | RFlag => VB false | RUe => VN 0 | RSe => VZ 0%Z
  | RBytes _ => VBytes [] | RMore => VMore None
  end.

(* ------------------------------------------------------------------ WriteExpGolomb's prefix loop in uint arithmetic *)
(* the loop of bits/ebspwriter.go with every uint operation wrapping at 2^64 (`1 << prefixLen` is 0 for
   prefixLen >= 64); None = no return within `fuel` iterations.  C13Model.ue_loop computes the same loop in N. *)
Definition M64 : N := 18446744073709551615.

Fixpoint ue_loop64 (fuel : nat) (nr offset prefixLen max : N) : option (N * N) :=
  match fuel with
  | O => None
  | S f =>
      if nr <=? max then Some (prefixLen, u64 (nr + 18446744073709551616 - offset))
      else
        let offset' := u64 (offset + u64 (N.shiftl 1 prefixLen)) in
        let prefixLen' := u64 (prefixLen + 1) in
        let max' := u64 (u64 (offset' + u64 (N.shiftl 1 prefixLen')) + 18446744073709551615) in
        ue_loop64 f nr offset' prefixLen' max'
  end.

