(* C13PlainProofs.v — bits.Writer / FixedSliceWriter.WriteBits and bits.Reader (no emulation
   prevention): the same bit-stream refinement and the write/flush/read round trip. *)
From V.lib Require Import Base.
From V.c13 Require Import C13Spec C13Model C13Bits C13WriterProofs C13ReaderProofs C13RoundTrip.

Definition pbits (s : rstate) : list bool :=
  bits_of (N.to_nat (rn s)) (rv s) ++ bytes_to_bits (skipn (N.to_nat (rpos s)) (rdata s)).

Lemma fill_plain_ok fuel : forall s n,
  RInv s -> n <= 56 -> rn s < n + 8 ->
  n <= N.of_nat (length (pbits s)) -> n <= rn s + 8 * N.of_nat fuel ->
  let s1 := fill false fuel s n in
  RInv s1 /\ n <= rn s1 /\ rn s1 < n + 8 /\ pbits s1 = pbits s /\ rdata s1 = rdata s.
Proof.
  induction fuel as [|f IH]; intros s n HI Hn Hrn Hlen Hfuel; cbn [fill].
  - cbv zeta. repeat split; try apply HI; try lia; reflexivity.
  - destruct (N.ltb_spec (rn s) n) as [Hlt|Hge].
    2:{ cbv zeta. repeat split; try apply HI; try lia; reflexivity. }
    destruct HI as [He [Hv Hd]]. unfold byte_at. cbn [andb].
    assert (Hne : skipn (N.to_nat (rpos s)) (rdata s) <> []).
    { intros E. unfold pbits in Hlen. rewrite E in Hlen. cbn [bytes_to_bits flat_map] in Hlen.
      rewrite app_nil_r, bits_of_length in Hlen. lia. }
    destruct (nth_error (rdata s) (N.to_nat (rpos s))) as [b|] eqn:Eb.
    2:{ rewrite (nth_error_none_skipn _ _ Eb) in Hne. contradiction. }
    pose proof (nth_error_skipn _ _ _ Eb) as Hsk.
    pose proof (nth_error_Forall _ _ _ _ Hd Eb) as Hb256.
    set (s2 := mkR (rn s + 8) (N.lor (u64 (N.shiftl (rv s) 8)) b) (rpos s + 1)
                   (if b =? 0 then rzc s + 1 else 0) false (rdata s)).
    assert (Hb2 : pbits s2 = pbits s).
    { unfold pbits, s2. cbn [rn rv rpos rdata]. rewrite Hsk.
      replace (N.to_nat (rpos s + 1)) with (S (N.to_nat (rpos s))) by lia.
      replace (N.to_nat (rn s + 8)) with (N.to_nat (rn s) + 8)%nat by lia.
      rewrite acc_shift_bits by (try exact Hb256; lia).
      unfold bytes_to_bits. cbn [flat_map]. rewrite <- app_assoc. reflexivity. }
    assert (HI2 : RInv s2).
    { unfold RInv, s2. cbn [rerr rv rn rdata]. repeat split; [|exact Hd].
      apply acc_shift_lt; [lia|exact Hv|exact Hb256]. }
    assert (Hr2 : rn s2 = rn s + 8) by reflexivity.
    destruct (IH s2 n HI2 Hn ltac:(rewrite Hr2; lia) ltac:(rewrite Hb2; exact Hlen)
                 ltac:(rewrite Hr2; lia)) as [HI3 [H1 [H2 [H3 H4]]]].
    repeat split; try apply HI3; try assumption. rewrite H3. exact Hb2.
Qed.

Lemma read_plain_prefix s n pre rest :
  RGood s -> n <= 56 -> pbits s = pre ++ rest -> length pre = N.to_nat n ->
  exists s', read_plain s n = (val_of pre, s') /\ pbits s' = rest /\ RGood s' /\ rdata s' = rdata s.
Proof.
  intros [HI Hrn] Hn Hb Hl.
  assert (Hlen : n <= N.of_nat (length (pbits s))) by (rewrite Hb, app_length; lia).
  unfold read_plain, read_gen. destruct HI as [He [Hv Hd]]. rewrite He.
  set (fuel := S (N.to_nat (n / 8) + 1)).
  assert (Hfu : n <= rn s + 8 * N.of_nat fuel).
  { unfold fuel. pose proof (N.div_mod n 8 ltac:(lia)). pose proof (N.mod_lt n 8 ltac:(lia)). lia. }
  pose proof (fill_plain_ok fuel s n (conj He (conj Hv Hd)) Hn ltac:(lia) Hlen Hfu) as Hf.
  cbv zeta in Hf. set (s1 := fill false fuel s n) in *.
  destruct Hf as [[He1 [Hv1 Hd1]] [Hge [Hlt8 [Hb1 Hdata]]]].
  rewrite He1.
  set (k := (N.to_nat (rn s1) - N.to_nat n)%nat).
  assert (Hsplit : N.to_nat (rn s1) = (N.to_nat n + k)%nat) by (unfold k; lia).
  assert (Hbits : bits_of (N.to_nat (rn s1)) (rv s1)
                  = bits_of (N.to_nat n) (N.shiftr (rv s1) (rn s1 - n)) ++ bits_of k (rv s1)).
  { rewrite Hsplit, bits_of_app. f_equal. f_equal. f_equal. unfold k. lia. }
  assert (Hpre : pre = bits_of (N.to_nat n) (N.shiftr (rv s1) (rn s1 - n)) /\
                 rest = bits_of k (rv s1) ++ bytes_to_bits (skipn (N.to_nat (rpos s1)) (rdata s1))).
  { rewrite <- Hb1 in Hb. unfold pbits in Hb. rewrite Hbits, <- app_assoc in Hb.
    set (A := bits_of (N.to_nat n) (N.shiftr (rv s1) (rn s1 - n))) in *.
    assert (HA : length A = length pre) by (unfold A; rewrite bits_of_length; lia).
    apply app_eq_app in Hb. destruct Hb as [l [[E1 E2]|[E1 E2]]].
    - assert (l = []) by (apply (f_equal (@length bool)) in E1; rewrite app_length in E1; destruct l; [reflexivity|cbn in E1; lia]).
      subst l. rewrite app_nil_r in E1. cbn [app] in E2. split; congruence.
    - assert (l = []) by (apply (f_equal (@length bool)) in E1; rewrite app_length in E1; destruct l; [reflexivity|cbn in E1; lia]).
      subst l. rewrite app_nil_r in E1. cbn [app] in E2. split; congruence. }
  destruct Hpre as [Hp Hr]. eexists. split; [|split; [|split; [split|]]].
  - f_equal. rewrite Hp, val_of_bits_of, N2Nat.id. symmetry. apply N.mod_small.
    rewrite N.shiftr_div_pow2. apply N.div_lt_upper_bound; [apply N.pow_nonzero; lia|].
    rewrite <- N.pow_add_r. replace (rn s1 - n + n) with (rn s1) by lia. exact Hv1.
  - unfold pbits. cbn [rn rv rpos rdata]. rewrite Hr.
    replace (N.to_nat (rn s1 - n)) with k by (unfold k; lia). f_equal.
    apply bits_of_ext. intros i Hi. rewrite N.land_spec, N.ones_spec_low by (unfold k in Hi; lia). apply andb_true_r.
  - unfold RInv. cbn [rerr rv rn rdata]. repeat split; [|exact Hd1].
    rewrite N.land_ones. apply N.mod_lt. apply N.pow_nonzero. lia.
  - cbn [rn]. lia.
  - cbn [rdata]. exact Hdata.
Qed.

(* plain value ops: Write(v,w) with v < 2^w, w <= 32, and flags *)
Definition plain_op (o : wop) : bool :=
  match o with WBits v w => (w <=? 32) && (v <? 2 ^ w) | WFlag _ => true | _ => false end.

Definition pvbits (o : wop) : list bool :=
  match o with WBits v w => bits_of (N.to_nat w) v | WFlag b => [b] | _ => [] end.

Definition PStream (s : wstate) (cur : list bool) : Prop :=
  exists raw, WInv false s raw /\ bytes_to_bits raw ++ pending s = cur.

Lemma wstep_plain_stream s cur o :
  PStream s cur -> plain_op o = true -> PStream (wstep_plain s o) (cur ++ pvbits o).
Proof.
  intros [raw [HI Hc]] Hok. destruct o as [v w|b| | | | | |]; cbn [plain_op] in Hok; try discriminate;
    cbn [wstep_plain pvbits].
  - apply andb_true_iff in Hok. destruct Hok as [Hw _]. apply N.leb_le in Hw.
    destruct (plain_writer_stream s raw v w HI ltac:(lia)) as [raw' [HI' Hs]].
    exists raw'. split; [exact HI'|]. rewrite Hs, <- Hc, <- app_assoc. reflexivity.
  - destruct (plain_writer_stream s raw (if b then 1 else 0) 1 HI ltac:(lia)) as [raw' [HI' Hs]].
    exists raw'. split; [exact HI'|]. rewrite Hs, <- Hc, <- app_assoc. destruct b; reflexivity.
Qed.

Lemma run_plain_stream ops : forall s cur,
  PStream s cur -> forallb plain_op ops = true ->
  PStream (fold_left wstep_plain ops s) (cur ++ concat (map pvbits ops)).
Proof.
  induction ops as [|o t IH]; intros s cur HS Hok; cbn [fold_left map concat].
  - rewrite app_nil_r. exact HS.
  - cbn [forallb] in Hok. apply andb_true_iff in Hok. destruct Hok as [Ho Ht].
    rewrite app_assoc. apply IH; [|exact Ht]. apply wstep_plain_stream; assumption.
Qed.

(* Flush: the pending bits, left-aligned and zero-padded, become one more byte *)
Lemma flush_plain_out s cur :
  PStream s cur ->
  exists pad, bytes_to_bits (wout (flush_plain s)) = cur ++ pad /\ Forall (fun b => b < 256) (wout (flush_plain s)).
Proof.
  intros [raw [[Hn [Hlt Ho]] Hc]]. unfold flush_plain.
  destruct (N.eqb_spec (wn s) 0) as [E|E].
  - exists []. unfold wout. rewrite Ho, rev_involutive, app_nil_r. split; [|exact Hlt].
    unfold pending in Hc. rewrite E in Hc. cbn [N.to_nat bits_of] in Hc. rewrite app_nil_r in Hc. exact Hc.
  - exists (repeat false (8 - N.to_nat (wn s))). unfold wout. cbn [wrev]. rewrite Ho. cbn [rev].
    rewrite rev_involutive. split.
    + rewrite bytes_to_bits_app, <- Hc, <- app_assoc. f_equal.
      unfold bytes_to_bits. cbn [flat_map]. rewrite app_nil_r. unfold pending.
      assert (Hz : forall k, bits_of k 0 = repeat false k).
      { induction k as [|k IHk]; [reflexivity|]. cbn [bits_of repeat]. rewrite N.bits_0, IHk. reflexivity. }
      rewrite <- Hz.
      replace 8%nat with (N.to_nat (wn s) + (8 - N.to_nat (wn s)))%nat at 1 by lia.
      apply bits_of_app_ext.
      * intros i Hi. rewrite N.land_spec. change 255 with (N.ones 8).
        rewrite N.ones_spec_low by lia. rewrite andb_true_r.
        rewrite N.shiftl_spec_low by lia. rewrite N.bits_0. reflexivity.
      * intros i Hi. rewrite N.land_spec. change 255 with (N.ones 8).
        rewrite N.ones_spec_low by lia. rewrite andb_true_r.
        rewrite N.shiftl_spec_high' by lia. f_equal. lia.
    + apply Forall_app. split; [exact Hlt|]. constructor; [|constructor].
      rewrite land_255. apply N.mod_lt. lia.
Qed.

Lemma run_reader_plain_values : forall ops s rest,
  forallb plain_op ops = true -> RGood s -> pbits s = concat (map pvbits ops) ++ rest ->
  exists s', fold_left (fun '(acc, st) o =>
               match o with
               | WBits _ w => let '(v, st') := read_plain st w in (acc ++ [v], st')
               | _ => let '(v, st') := read_plain st 1 in (acc ++ [v], st')
               end) ops ([], s)
             = (map (fun o => match o with WBits v _ => v | WFlag b => N.b2n b | _ => 0 end) ops, s')
             /\ rerr s' = false.
Proof.
  assert (G : forall ops0 acc s rest,
    forallb plain_op ops0 = true -> RGood s -> pbits s = concat (map pvbits ops0) ++ rest ->
    exists s', fold_left (fun '(acc, st) o =>
               match o with
               | WBits _ w => let '(v, st') := read_plain st w in (acc ++ [v], st')
               | _ => let '(v, st') := read_plain st 1 in (acc ++ [v], st')
               end) ops0 (acc, s)
             = (acc ++ map (fun o => match o with WBits v _ => v | WFlag b => N.b2n b | _ => 0 end) ops0, s')
             /\ rerr s' = false).
  { clear. induction ops0 as [|o t IH]; intros acc s rest Hok HG Hb.
    - exists s. cbn [fold_left map]. rewrite app_nil_r. split; [reflexivity|apply HG].
    - cbn [forallb] in Hok. apply andb_true_iff in Hok. destruct Hok as [Ho Ht].
      cbn [map concat] in Hb. rewrite <- app_assoc in Hb. cbn [fold_left].
      destruct o as [v w|b| | | | | |]; cbn [plain_op] in Ho; try discriminate; cbn [pvbits] in Hb.
      + apply andb_true_iff in Ho. destruct Ho as [Hw Hv]. apply N.leb_le in Hw. apply N.ltb_lt in Hv.
        destruct (read_plain_prefix s w _ _ HG ltac:(lia) Hb (bits_of_length _ _)) as [s1 [Hr [Hb1 [HG1 _]]]].
        rewrite Hr, val_of_bits_of, N2Nat.id, N.mod_small by exact Hv.
        destruct (IH (acc ++ [v]) s1 rest Ht HG1 Hb1) as [s2 [H2 He2]].
        exists s2. rewrite H2. split; [|exact He2]. cbn [map]. rewrite <- app_assoc. reflexivity.
      + destruct (read_plain_prefix s 1 [b] _ HG ltac:(lia) Hb eq_refl) as [s1 [Hr [Hb1 [HG1 _]]]].
        rewrite Hr.
        destruct (IH (acc ++ [val_of [b]]) s1 rest Ht HG1 Hb1) as [s2 [H2 He2]].
        exists s2. rewrite H2. split; [|exact He2]. cbn [map]. rewrite <- app_assoc.
        destruct b; reflexivity. }
  intros ops s rest Hok HG Hb. exact (G ops [] s rest Hok HG Hb).
Qed.

(* round trip through bits.Writer (or FixedSliceWriter.WriteBits) + Flush and bits.Reader *)
Lemma plain_roundtrip ops :
  forallb plain_op ops = true ->
  let data := wout (flush_plain (run_writer_plain ops)) in
  exists s', fold_left (fun '(acc, st) o =>
               match o with
               | WBits _ w => let '(v, st') := read_plain st w in (acc ++ [v], st')
               | _ => let '(v, st') := read_plain st 1 in (acc ++ [v], st')
               end) ops ([], rinit data)
             = (map (fun o => match o with WBits v _ => v | WFlag b => N.b2n b | _ => 0 end) ops, s')
             /\ rerr s' = false.
Proof.
  intros Hok data.
  assert (HS : PStream (run_writer_plain ops) (concat (map pvbits ops))).
  { pose proof (run_plain_stream ops winit [] ltac:(exists []; split; [apply WInv_init|reflexivity]) Hok) as H.
    exact H. }
  destruct (flush_plain_out _ _ HS) as [pad [Hbits Hlt]]. fold data in Hbits, Hlt.
  apply (run_reader_plain_values ops (rinit data) pad Hok).
  - split; [apply RInv_init; exact Hlt|cbn; lia].
  - unfold pbits, rinit. cbn [rn rv rpos rdata N.to_nat bits_of skipn app]. exact Hbits.
Qed.
